(* C05 — Lifecycle: populate, then initialise exactly once, dependencies first.

   Same model as C01.  The log records every lifecycle callback: [EvBefore p n snap] (before-
   initialization callback of post-processor p on component n, with a snapshot of which injection points
   of n are set at that moment), [EvAPS n], [EvInit n], [EvAfter p n]; newest first.
   [sub n (log st)] is the sub-log of component n; [block n c us snap] is, newest first,
        after-callbacks of the processors us (in invocation order) ; Init? ; AfterPropertiesSet? ;
        before-callbacks of the same processors us, each with snapshot snap.
   Quantified over all scenarios: all graphs (DAGs, diamonds, cycles with tails), all lazy/eager mixes,
   all sets of user post-processors (including substituting ones), all faults.

   Proved below: exactly one lifecycle block per created component, with the callbacks in the order
   the property states, injection complete before the first callback (the snapshots equal the FINAL
   state of the points), nothing at all for components that were not created (lazy and not needed),
   exactly one Init for every eagerly created component that has one.
   [c05_deps_first] (Proofs/FactoryDeps.v): when c has been initialised and holds d, every lifecycle event
   of d is older than every lifecycle event of c, or d transitively REQUESTED c (d was still being created,
   waiting for c: it depends back on c).  "Requests" are the components the property pipeline proposes for
   the holder's points ([plan]).
   [c05_lazy_only_if_needed] (Proofs/FactoryDeps.v, invariant ND): a component that has any lifecycle event is
   not LazyInit (the container itself asks for it: Refresh, or PrepareComponents for post-processors), or it
   is reachable through requests from a PUBLISHED component that is not LazyInit.  The oracle
   [lazy_only_if_needed] of Corr/WiringOracles.v checks the same on the implementation's log on every run. *)
From Coq Require Import List Arith Bool ZArith.
From IocVerif Require Import Model.App Proofs.FactoryLifecycle Proofs.FactoryInvariant Proofs.FactoryNoPanic
  Proofs.FactoryWiring Proofs.FactoryDeps Proofs.FactoryBasics.
Import ListNotations.

(* one lifecycle block per published component; none for the others *)
Theorem c05_lifecycle : forall s st,
  run repaired s = Ok st ->
  forall n c, get_comp (s_pop s) n = Some c ->
    match alookup n (L1 (reg st)) with
    | None => sub n (log st) = []
    | Some _ => exists us, sub n (log st) = block n c us (snapshot st n c)
    end.
Proof.
  intros s st H n c Hc. exact (run_core_life repaired (normalise repaired s) st H n c Hc).
Qed.

(* Init (and likewise AfterPropertiesSet) at most once per start, for every component *)
Theorem c05_at_most_once : forall s st n c,
  run repaired s = Ok st -> get_comp (s_pop s) n = Some c -> count_init n (log st) <= 1.
Proof.
  intros s st n c H Hc. pose proof (c05_lifecycle s st H n c Hc) as HL.
  rewrite count_init_sub. destruct (alookup n (L1 (reg st))).
  - destruct HL as [us ->]. rewrite count_init_block. destruct (c_init c); auto.
  - rewrite HL. cbn. auto.
Qed.

(* every eagerly created component that has an Init method is initialised exactly once *)
Theorem c05_eager_exactly_once : forall s st n c,
  run repaired s = Ok st -> In n (eager_names s) -> get_comp (s_pop s) n = Some c -> c_init c <> None ->
  count_init n (log st) = 1.
Proof.
  intros s st n c H Hn Hc Hi. pose proof (c05_lifecycle s st H n c Hc) as HL.
  assert (Hpub : exists v, alookup n (L1 (reg st)) = Some v).
  { (* Refresh published every eager name: Properties/C13.v c13_after_ready, restated here *)
    unfold run, run_core in H. cbn [normalise s_loader_fail] in H. destruct (s_loader_fail s); [discriminate|].
    unfold prepare in H.
    destruct (prepare_loop repaired (normalise repaired s) (sorted_procs (normalise repaired s)) (set_scanned finit))
      as [st1|k st1] eqn:E1; [|discriminate].
    assert (Ht1 : top st1).
    { eapply (prepare_loop_top repaired); [reflexivity| |exact E1]. eapply top_same_core; [|apply top_finit]. repeat split. }
    unfold refresh in H.
    destruct (get_each repaired (normalise repaired s) (eager_names (normalise repaired s)) st1) as [st2|k st2] eqn:E2;
      [|discriminate].
    destruct (get_each_published repaired _ _ eq_refl st1 st2 Ht1 E2) as [_ Hall].
    destruct (Hall n Hn) as [v Hv]. exists v.
    unfold call_runners in H. cbn [normalise s_app] in H.
    destruct (s_app s) as [[[a rp] cp]|]; [|inversion H; subst; exact Hv].
    assert (Hreg : forall ns sta stb, run_each (normalise repaired s) ns sta = Ok stb -> reg stb = reg sta).
    { induction ns as [|m r IH]; intros sta stb Hr; cbn [run_each] in Hr; [inversion Hr; reflexivity|].
      destruct (runner_fails (normalise repaired s) m); [discriminate|]. rewrite (IH _ _ Hr). reflexivity. }
    rewrite (Hreg _ _ _ H). exact Hv. }
  destruct Hpub as [v Hv]. rewrite Hv in HL. destruct HL as [us Hus].
  rewrite count_init_sub, Hus, count_init_block. destruct (c_init c); [reflexivity|contradiction].
Qed.

(* all injection points are set before the first before-initialization callback: every snapshot a callback
   saw equals the final state of the component's points *)
Theorem c05_populated_before_callbacks : forall s st n c p snap,
  run repaired s = Ok st -> get_comp (s_pop s) n = Some c ->
  In (EvBefore p n snap) (log st) -> snap = snapshot st n c.
Proof.
  intros s st n c p snap H Hc Hin. pose proof (c05_lifecycle s st H n c Hc) as HL.
  assert (Hs : In (EvBefore p n snap) (sub n (log st))).
  { unfold sub. apply filter_In. split; [exact Hin|]. cbn. apply Nat.eqb_refl. }
  destruct (alookup n (L1 (reg st))); [|rewrite HL in Hs; contradiction].
  destruct HL as [us Hus]. rewrite Hus in Hs. unfold block, init_events in Hs.
  repeat (apply in_app_or in Hs; destruct Hs as [Hs|Hs]).
  - apply in_rev, in_map_iff in Hs. destruct Hs as [q [Hq _]]. discriminate.
  - destruct (c_init c); [destruct Hs as [Hs|[]]; discriminate|contradiction].
  - destruct (c_aps c); [destruct Hs as [Hs|[]]; discriminate|contradiction].
  - apply in_rev, in_map_iff in Hs. destruct Hs as [q [Hq _]]. inversion Hq. reflexivity.
Qed.

(* a component that was not created (LazyInit and nobody asked for it) is not touched at all *)
Theorem c05_uncreated_untouched : forall s st n c,
  run repaired s = Ok st -> get_comp (s_pop s) n = Some c -> alookup n (L1 (reg st)) = None ->
  sub n (log st) = [] /\ count_init n (log st) = 0.
Proof.
  intros s st n c H Hc Hn. pose proof (c05_lifecycle s st H n c Hc) as HL. rewrite Hn in HL.
  split; [exact HL|]. rewrite count_init_sub, HL. reflexivity.
Qed.

(* dependencies first *)
Theorem c05_deps_first : forall s st,
  run repaired s = Ok st ->
  procs_pointless_b (normalise repaired s) = true -> stages_ok_b (normalise repaired s) = true ->
  forall c k v, alookup c (L1 (reg st)) <> None -> In v (field_of st c k) -> owner v <> c ->
    (* d = owner v completed before c began: all its lifecycle events are older than all of c's *)
    (alookup (owner v) (L1 (reg st)) <> None /\ older (owner v) c (log st))
    (* or d depends back on c *)
    \/ dep repaired (normalise repaired s) (owner v) c.
Proof.
  intros s st H Hp Hs. exact (run_core_DF repaired (normalise repaired s) st eq_refl eq_refl eq_refl eq_refl Hp Hs H).
Qed.

(* LazyInit components are initialised only if an eagerly created component (transitively) needs them *)
Theorem c05_lazy_only_if_needed : forall s st n c,
  run repaired s = Ok st ->
  procs_pointless_b (normalise repaired s) = true -> stages_ok_b (normalise repaired s) = true ->
  get_comp (s_pop s) n = Some c -> sub n (log st) <> [] ->
  c_lazy c = false
  \/ exists a, is_lazy (s_pop s) a = false /\ alookup a (L1 (reg st)) <> None
               /\ dep repaired (normalise repaired s) a n.
Proof.
  intros s st n c H Hp Hs Hc Hsub. pose proof (c05_lifecycle s st H n c Hc) as HL.
  assert (Hcached : cached (reg st) n = true).
  { unfold cached. destruct (alookup n (L1 (reg st))); [reflexivity|contradiction]. }
  destruct (run_core_needed repaired (normalise repaired s) st eq_refl eq_refl eq_refl eq_refl Hp Hs H n Hcached)
    as [Hr|Hex]; [left|right; exact Hex].
  cbn [normalise s_pop] in Hr. unfold is_lazy in Hr. rewrite Hc in Hr. exact Hr.
Qed.

(* in particular: no Init of d between the start of the log and the Init of c *)
Theorem c05_init_order : forall d c l l1 l2,
  older d c l -> l = l1 ++ EvInit c :: l2 -> ~ In (EvInit d) l1.
Proof.
  intros d c l l1 l2 Ho Heq Hin.
  assert (Hs : sub d l1 = []) by (apply (Ho l1 (EvInit c) l2 Heq); cbn; apply Nat.eqb_refl).
  assert (Hi : In (EvInit d) (sub d l1)) by (unfold sub; apply filter_In; split; [exact Hin|cbn; apply Nat.eqb_refl]).
  rewrite Hs in Hi. contradiction.
Qed.

(* non-vacuity: a diamond (4 <- 2,3 <- 5) with an observing processor and a lazy component nobody needs *)
Definition ex_pop5 : population :=
  [ mkComp 100 [] false None false true [] [] [] None None None false (Some (Ord 2, PBuiltin BWire));
    mkComp 101 [] false None false true [] [] [] None None None false (Some (Ord 4, PBuiltin BFurther));
    mkComp 0 [] false None false false [] [mkPoint false (TPtr 2) SByType None true] [] None (Some false) None false None;
    mkComp 1 [] false None false false [] [mkPoint false (TPtr 2) SByType None true] [] (Some false) (Some false) None false None;
    mkComp 2 [] false None false false [] [] [] None (Some false) None false None;
    mkComp 3 [] false None false false [] [mkPoint false (TPtr 0) SByType None true; mkPoint false (TPtr 1) SByType None true] [] None (Some false) None false None;
    mkComp 4 [] false None false true [] [] [] None (Some false) None false None;
    mkComp 5 [] true None false false [] [] [] None None None false (Some (Unord, PUser [] [])) ].

Example c05_example :
  match run repaired (mkScn ex_pop5 [] false None []) with
  | Ok st => sub 4 (log st) = block 4 (mkComp 2 [] false None false false [] [] [] None (Some false) None false None) [7] []
             /\ sub 6 (log st) = []
             /\ sub 3 (log st) = [EvAfter 7 3; EvInit 3; EvAPS 3; EvBefore 7 3 [true]]
             /\ count_init 4 (log st) = 1
  | Fail _ _ => False
  end.
Proof. vm_compute. repeat split. Qed.

(* the same diamond with its bottom (component 4) LazyInit: it is created because 2 and 3 request it *)
Definition ex_pop5_lazy : population :=
  [ mkComp 100 [] false None false true [] [] [] None None None false (Some (Ord 2, PBuiltin BWire));
    mkComp 101 [] false None false true [] [] [] None None None false (Some (Ord 4, PBuiltin BFurther));
    mkComp 0 [] false None false false [] [mkPoint false (TPtr 2) SByType None true] [] None (Some false) None false None;
    mkComp 1 [] false None false false [] [mkPoint false (TPtr 2) SByType None true] [] (Some false) (Some false) None false None;
    mkComp 2 [] false None false true [] [] [] None (Some false) None false None;
    mkComp 4 [] false None false true [] [] [] None (Some false) None false None ].

Example c05_example_lazy_needed :
  match run repaired (mkScn ex_pop5_lazy [] false None []) with
  | Ok st => sub 4 (log st) <> [] /\ sub 5 (log st) = [] /\ is_lazy ex_pop5_lazy 2 = false
             /\ dep repaired (normalise repaired (mkScn ex_pop5_lazy [] false None [])) 2 4
  | Fail _ _ => False
  end.
Proof.
  vm_compute run. split; [vm_compute; discriminate|]. split; [reflexivity|]. split; [reflexivity|].
  apply dep1. eexists _, _, 0, _. split; [reflexivity|]. split; [vm_compute; reflexivity|].
  split; [reflexivity|]. left. reflexivity.
Qed.

(* ---- extended semantics (Model/FactoryX.v): post-processors that short-circuit instantiation, Init methods that
   call back into the factory.  `small_points`: no component has more than 100 injection points (the pseudo-fields
   in which an Init method keeps what it looked up start at index 100). ------------------------------------- *)
From Coq Require Import Lia.
From IocVerif Require Import Model.FactoryX Proofs.FactoryXLife.

(* every component still has at most one lifecycle block: the full one (points set, before-callbacks, AfterPropertiesSet,
   Init, after-callbacks; the lookups of Init and everything they create lie INSIDE it and are not part of it), or,
   only for a component some post-processor is listed as short-circuiting, the after-callbacks alone *)
Theorem c05_lifecycle_extended : forall s x o st,
  small_points s -> run_xt repaired s x = (o, Ok st) ->
  forall n c, get_comp (s_pop s) n = Some c ->
    match alookup n (L1 (reg st)) with
    | None => sub n (log st) = []
    | Some _ => (exists us, sub n (log st) = block n c us (snapshot st n c))
                \/ ((exists p, In (p, n) (x_short x)) /\ exists us, sub n (log st) = rev (map (fun p => EvAfter p n) us))
    end.
Proof. intros s x o st Hs H. exact (run_xt_life repaired s x o st eq_refl Hs H). Qed.

Theorem c05_at_most_once_extended : forall s x o st n c,
  small_points s -> run_xt repaired s x = (o, Ok st) -> get_comp (s_pop s) n = Some c -> count_init n (log st) <= 1.
Proof. intros s x o st n c Hs H. exact (run_xt_init_at_most_once repaired s x o st n c eq_refl Hs H). Qed.

Theorem c05_exactly_once_extended : forall s x o st n c v,
  small_points s -> run_xt repaired s x = (o, Ok st) ->
  get_comp (s_pop s) n = Some c -> alookup n (L1 (reg st)) = Some v ->
  (forall p, ~ In (p, n) (x_short x)) -> c_init c <> None ->
  count_init n (log st) = 1.
Proof. intros s x o st n c v Hs H. exact (run_xt_init_exactly_once repaired s x o st n c v eq_refl Hs H). Qed.

(* non-vacuity: component 2's Init looks the lazy component 3 up, which is wired with 2; processor 4 is listed as
   short-circuiting 5.  2's block is [after; Init; before] with 3's whole block inside it; 5 has the after-callback only *)
Definition ex_scn5x : scenario :=
  mkScn [ mkComp 100 [] false None false true [] [] [] None None None false (Some (Ord 2, PBuiltin BWire));
          mkComp 101 [] false None false true [] [] [] None None None false (Some (Ord 4, PBuiltin BFurther));
          mkComp 0 [] false None false false [] [] [] None (Some false) None false None;
          mkComp 1 [] false None false true [] [mkPoint false (TPtr 0) SByType None true] [] None (Some false) None false None;
          mkComp 7 [] false None false false [] [] [] None None None false (Some (Unord, PUser [] []));
          mkComp 2 [] false None false false [] [] [] None (Some false) None false None ]
        [] false None [].

Example c05_example_extended :
  small_points ex_scn5x /\
  match snd (run_xt repaired ex_scn5x (mkX [(4, 5)] [(2, [3])])) with
  | Ok st => log st = [EvAfter 4 5; EvAfter 4 2; EvAfter 4 3; EvInit 3; EvBefore 4 3 [true]; EvEarly 4 2; EvInit 2; EvBefore 4 2 []]
             /\ sub 2 (log st) = [EvAfter 4 2; EvInit 2; EvBefore 4 2 []]
             /\ sub 5 (log st) = [EvAfter 4 5] /\ count_init 5 (log st) = 0 /\ count_init 2 (log st) = 1
  | Fail _ _ => False
  end.
Proof.
  split.
  - intros n c H. do 6 (destruct n as [|n]; [cbn in H; inversion H; subst; cbn; lia|]). destruct n; discriminate.
  - vm_compute. repeat split.
Qed.

(* ---- dependencies first / created only if needed under the extended semantics (Proofs/FactoryXDeps.v).  A component now
   "requests" another one through an injection point OR by looking it up from its Init method (depX); the statement is
   about INJECTED dependencies (point indices below 100): a component an Init method looks up is created in the middle
   of the caller's Init and cannot have completed before the caller began. *)
From IocVerif Require Import Proofs.FactoryXNoPanic Proofs.FactoryXDeps Proofs.FactoryXInv.

Theorem c05_deps_first_extended : forall s x o st,
  small_points s -> run_xt repaired s x = (o, Ok st) ->
  procs_pointless_b (normalise repaired s) = true -> procs_quiet_b (normalise repaired s) x = true ->
  stages_ok_b (normalise repaired s) = true ->
  forall c k v, k < 100 -> alookup c (L1 (reg st)) <> None -> In v (field_of st c k) -> owner v <> c ->
    (alookup (owner v) (L1 (reg st)) <> None /\ older (owner v) c (log st))
    \/ depX repaired (normalise repaired s) x (owner v) c.
Proof.
  intros s x o st Hsm H Hp Hq Hs.
  exact (proj1 (run_core_xt_DNX repaired (normalise repaired s) x o st eq_refl eq_refl eq_refl eq_refl Hsm Hp Hq Hs H)).
Qed.

Theorem c05_created_only_if_needed_extended : forall s x o st n,
  small_points s -> run_xt repaired s x = (o, Ok st) ->
  procs_pointless_b (normalise repaired s) = true -> procs_quiet_b (normalise repaired s) x = true ->
  stages_ok_b (normalise repaired s) = true ->
  cached (reg st) n = true ->
  is_lazy (s_pop s) n = false
  \/ exists a, is_lazy (s_pop s) a = false /\ alookup a (L1 (reg st)) <> None
               /\ depX repaired (normalise repaired s) x a n.
Proof.
  intros s x o st n Hsm H Hp Hq Hs Hc.
  destruct (proj2 (run_core_xt_DNX repaired (normalise repaired s) x o st eq_refl eq_refl eq_refl eq_refl Hsm Hp Hq Hs H) n Hc)
    as [Hr|[a [Ha [Hca Hd]]]]; [left; exact Hr|].
  right. exists a. split; [exact Ha|]. split; [|exact Hd].
  destruct (run_core_xt_top repaired (normalise repaired s) x o st eq_refl H) as [HI Hcr]. unfold cached in Hca.
  destruct (alookup a (L1 (reg st))); [discriminate|]. cbn [isSome orb] in Hca.
  pose proof (i_early_creating st HI a Hca) as Hin. rewrite Hcr in Hin. contradiction.
Qed.
