(* C19 — Tag argument grammar is total and faithful.

   Property theorems only. Model: Model/TagGrammar.v, a byte-level, line-by-line model of
   github.com/go-kid/strings2 v0.0.1 (Index / SplitWithConfig / IndexSkipBlocks), of
   component_definition/arg.go (TagArg.Parse, Set, Add, formatArgType, Find, Has, String), of Property.IsRequired /
   SetArg / AddArg, of
   the `prop` shorthand rewrite and of the Required default of the tag scan. Every Go slice / index
   expression is a checked operation with an explicit [Panic] result. Lemmas: Proofs/TagGrammarProofs.v.

   Quantifiers: [c19_total] and [c19_total_scan] range over ALL byte strings (lists of arbitrary numbers,
   so in particular all bytes 0..255, unbalanced brackets, lone separators, invalid UTF-8);
   [c19_faithful] and the statements derived from it range over all structured tags: any bracket-closed
   value part without a top-level ",", any number of arguments with bracket-free non-empty names and any
   number (>= 1) of bracket-closed values without a top-level "," or " ". Bracketed groups are covered
   in full ({} [] () nested to any depth, the three kinds counted alike as the implementation does), so
   no `_partial` statement is needed.

   The tie to the code is the correspondence check (Corr/Check_C19.v, tools/props/c19.py): on every run
   [tag_parse], [scan_property], [find], [has], [is_required] are evaluated by vm_compute against the real
   NewProperty / tag-scan processors / app.Run on structured tags and on arbitrary byte strings. *)
From Coq Require Import List ZArith NArith Bool.
From IocVerif Require Import Model.TagGrammar Proofs.TagGrammarProofs.
Import ListNotations.
Local Open Scope Z_scope.

(* Totality: for every byte string the parse returns a value part and an argument map; no slice or index
   expression of Index / SplitWithConfig / Parse / Set / formatArgType is ever out of range. *)
Theorem c19_total : forall tag : bytes, exists v m, tag_parse tag = Ok (v, m).
Proof. exact tag_parse_total. Qed.

(* The same through the tag scan: the `prop` shorthand rewrite (IndexSkipBlocks, tagVal[:i], tagVal[i:])
   followed by the parse and the Required default never panics either. *)
Theorem c19_total_scan : forall (shorthand required : bool) (tag : bytes),
  exists v m, scan_property shorthand required tag = Ok (v, m).
Proof. exact scan_property_total. Qed.

(* The block-aware index returns -1 or a position inside the string, for every string, separator byte and
   block configuration (this is what makes every later slice expression safe). *)
Theorem c19_index_in_range : forall (s : bytes) (sep : N) (left right : list N),
  exists m, index_skip s sep left right = Ok m /\ (m = -1 \/ 0 <= m < blen s).
Proof. exact index_skip_range. Qed.

(* Faithfulness: a structured tag parses back into exactly its value part and the argument map its
   arguments denote (names with the first byte upper-cased the way formatArgType does, values = the
   space-separated items, Set in order). *)
Theorem c19_faithful : forall (v : bytes) (args : list (bytes * list bytes)),
  value_ok v = true -> Forall (fun a => arg_ok a = true) args ->
  tag_parse (render v args) = Ok (v, set_all args).
Proof. exact tag_parse_render. Qed.

(* ... where a name is bound to the values of the LAST argument carrying it: later duplicates override. *)
Theorem c19_duplicates_override : forall (args : list (bytes * list bytes)) (k : bytes),
  map_get (set_all args) k = last_val args k None.
Proof. exact map_get_set_all. Qed.

(* Bracketed groups are never split: splitting separator-joined segments, each bracket-closed with no
   separator outside brackets, gives back exactly the segments, whatever they contain inside brackets
   (sep is "," = 44 for the arguments and " " = 32 for the values). *)
Theorem c19_brackets_never_split : forall (sep : N) (seg : bytes) (more : list bytes),
  sep = 44%N \/ sep = 32%N ->
  Forall (fun x => seg_ok [sep] 0 x = true) (seg :: more) ->
  split_blocks (join sep (seg :: more)) sep = Ok (seg :: more).
Proof.
  intros sep seg more Hsep Hall. unfold split_blocks.
  apply (split_cfg_segs [sep] sep seg more); [left; reflexivity| | |exact Hall];
    destruct Hsep as [-> | ->]; reflexivity.
Qed.

(* Lookups ignore the case of the first letter of the name (ASCII letters; any map, any name). *)
Theorem c19_case : forall (m : argmap) (c : N) (rest : bytes) (wants : list bytes),
  is_ascii_letter c = true ->
  find m (flip_first (c :: rest)) = find m (c :: rest)
  /\ has m (flip_first (c :: rest)) wants = has m (c :: rest) wants.
Proof. intros m c rest wants H. split; [apply find_flip|apply has_flip]; exact H. Qed.

(* ... and so does Set: an argument written with either case of its first letter lands under one key. *)
Theorem c19_case_set : forall (m : argmap) (c : N) (rest : bytes) (val : list bytes),
  is_ascii_letter c = true ->
  arg_set m (flip_first (c :: rest)) val = arg_set m (c :: rest) val.
Proof.
  intros m c rest val H. unfold flip_first. rewrite !arg_set_cons. unfold upper_first.
  rewrite (to_upper1_flip c H). reflexivity.
Qed.

(* Only an explicit required=false makes a point optional: IsRequired never panics, and it is false
   exactly when "false" is among the values bound to the Required argument. *)
Theorem c19_required : forall m : argmap,
  (exists b, is_required m = Ok b)
  /\ (is_required m = Ok false <->
      exists vals, map_get m arg_required = Some vals /\ In lit_false vals).
Proof. intros m. split; [apply is_required_ok|apply is_required_false_iff]. Qed.

(* The Required default of the tag scan keeps an explicit Required argument untouched and otherwise adds
   one without values; hence it never turns a point optional. *)
Theorem c19_required_default : forall m : argmap,
  exists m', required_default true m = Ok m'
    /\ (is_required m' = Ok false <-> is_required m = Ok false).
Proof.
  intros m. destruct (required_default_spec m) as (m' & E & S). exists m'. split; [exact E|].
  destruct (map_get m arg_required) as [vals|] eqn:G.
  - subst m'. reflexivity.
  - rewrite !is_required_false_iff. rewrite S, G. split; intros (v & Hv & Hin).
    + inversion Hv; subst v. destruct Hin.
    + discriminate.
Qed.

(* The `prop` shorthand on a structured tag: the value part is wrapped into ${...}, arguments untouched. *)
Theorem c19_prop_shorthand : forall (v : bytes) (args : list (bytes * list bytes)),
  value_ok v = true -> Forall (fun a => arg_ok a = true) args ->
  exists m, scan_property true true (render v args) = Ok ([36; 123]%N ++ v ++ [125]%N, m)
    /\ required_default true (set_all args) = Ok m.
Proof. exact scan_prop_render. Qed.

(* ---- the exported argument API of a parsed Property (SetArg / AddArg / Args().Set / Add) -------------------------
   One table keyed by the canonical name (first letter upper-cased): whatever spelling a caller uses to write an
   argument, every reader - Find / Has with the constants ArgRequired / ArgQualifier, or with the tag spelling -
   sees it.  Set replaces, Add appends, other names are untouched, nothing panics. *)

(* any sequence of Set / Add calls on any table, with any names (empty, non-ASCII, ...) and values, runs through *)
Theorem c19_api_total : forall (m : argmap) (ops : list arg_op), exists m', apply_ops m ops = Ok m'.
Proof. intros m ops. apply apply_ops_total. Qed.

(* Set replaces: afterwards the name is bound to exactly the values given, under either case of its first letter *)
Theorem c19_set_replaces : forall (m : argmap) (c : N) (rest : bytes) (val : list bytes),
  exists m', arg_set m (c :: rest) val = Ok m'
    /\ find m' (c :: rest) = Ok (Some val)
    /\ (is_ascii_letter c = true -> find m' (flip_first (c :: rest)) = Ok (Some val)).
Proof. exact find_after_set. Qed.

(* Add appends: afterwards the name is bound to what it was bound to before (nothing, when it was not in the table -
   e.g. a point whose tag declares no such argument) followed by the values given, under either spelling *)
Theorem c19_add_appends : forall (m : argmap) (c : N) (rest : bytes) (val : list bytes) (old : option (list bytes)),
  find m (c :: rest) = Ok old ->
  exists m', arg_add m (c :: rest) val = Ok m'
    /\ find m' (c :: rest) = Ok (Some (stored old ++ val))
    /\ (is_ascii_letter c = true -> find m' (flip_first (c :: rest)) = Ok (Some (stored old ++ val))).
Proof. exact find_after_add. Qed.

(* ... so a value that was added is found by Has under either spelling, on every table *)
Theorem c19_add_visible : forall (m : argmap) (c : N) (rest : bytes) (val : list bytes) (w : bytes),
  In w val ->
  exists m', arg_add m (c :: rest) val = Ok m'
    /\ has m' (c :: rest) [w] = Ok true
    /\ (is_ascii_letter c = true -> has m' (flip_first (c :: rest)) [w] = Ok true).
Proof. exact has_after_add. Qed.

(* Add, like Set (c19_case_set), does not care about the case of the first letter of the name it is given *)
Theorem c19_case_add : forall (m : argmap) (c : N) (rest : bytes) (val : list bytes),
  is_ascii_letter c = true ->
  arg_add m (flip_first (c :: rest)) val = arg_add m (c :: rest) val.
Proof. exact arg_add_flip. Qed.

(* frame: a Set or an Add of one name leaves every other name as it was *)
Theorem c19_api_frame : forall (m : argmap) (n n2 : bytes) (val : list bytes) (m' : argmap),
  n2 <> [] -> upper_first n2 <> upper_first n ->
  arg_set m n val = Ok m' \/ arg_add m n val = Ok m' ->
  find m' n2 = find m n2.
Proof. exact api_frame. Qed.

(* the empty name is ignored by both *)
Theorem c19_api_empty_name : forall (m : argmap) (val : list bytes),
  arg_set m [] val = Ok m /\ arg_add m [] val = Ok m.
Proof. exact api_empty_name. Qed.

(* ---- non-vacuity: concrete instances ------------------------------------------------------------ *)

(* ")x,(y" (unbalanced): no panic; the value part is ")x," and the argument is Y *)
Example c19_total_example :
  tag_parse [41; 120; 44; 40; 121]%N = Ok ([41; 120; 44]%N, [([89]%N, [[]])]).
Proof. vm_compute. reflexivity. Qed.

(* prop:"a)x,(y" through the scan *)
Example c19_total_scan_example :
  exists v m, scan_property true true [97; 41; 120; 44; 40; 121]%N = Ok (v, m).
Proof. vm_compute. eauto. Qed.

Example c19_index_in_range_example :
  index_skip [123; 97; 44; 98; 125; 44; 99]%N 44 left_blocks right_blocks = Ok 5.     (* {a,b},c *)
Proof. vm_compute. reflexivity. Qed.

(* ${a:{x,y}},required=true false,q={a b, c} [1,2],Q=z   (bracket groups containing "," and " ", a
   duplicate name differing in the case of the first letter) *)
Definition ex_value : bytes := [36; 123; 97; 58; 123; 120; 44; 121; 125; 125]%N.
Definition ex_args : list (bytes * list bytes) :=
  [([114; 101; 113; 117; 105; 114; 101; 100]%N, [[116; 114; 117; 101]%N; [102; 97; 108; 115; 101]%N]);
   ([113]%N, [[123; 97; 32; 98; 44; 32; 99; 125]%N; [91; 49; 44; 50; 93]%N]);
   ([81]%N, [[122]%N])].

Example c19_faithful_example :
  value_ok ex_value = true /\ Forall (fun a => arg_ok a = true) ex_args
  /\ tag_parse (render ex_value ex_args)
     = Ok (ex_value, [(arg_required, [[116; 114; 117; 101]%N; lit_false]); ([81]%N, [[122]%N])]).
Proof.
  split; [vm_compute; reflexivity|]. split; [|vm_compute; reflexivity].
  repeat constructor.
Qed.

Example c19_duplicates_override_example :
  map_get (set_all ex_args) [81]%N = Some [[122]%N].
Proof. vm_compute. reflexivity. Qed.

Example c19_brackets_never_split_example :
  split_blocks (join 32 [[123; 97; 32; 98; 44; 32; 99; 125]%N; [91; 49; 44; 50; 93]%N; []]) 32
  = Ok [[123; 97; 32; 98; 44; 32; 99; 125]%N; [91; 49; 44; 50; 93]%N; []].
Proof. vm_compute. reflexivity. Qed.

Example c19_case_example :
  find (set_all ex_args) [82; 101; 113; 117; 105; 114; 101; 100]%N     (* "Required" *)
  = Ok (Some [[116; 114; 117; 101]%N; lit_false])
  /\ find (set_all ex_args) [114; 101; 113; 117; 105; 114; 101; 100]%N (* "required" *)
  = Ok (Some [[116; 114; 117; 101]%N; lit_false]).
Proof. vm_compute. split; reflexivity. Qed.

Example c19_case_set_example :
  arg_set [] [113; 117]%N [[49]%N] = arg_set [] [81; 117]%N [[49]%N].
Proof. vm_compute. reflexivity. Qed.

(* required=true false is optional; required=False is not *)
Example c19_required_example :
  is_required (set_all ex_args) = Ok false
  /\ is_required (set_all [([114; 101; 113; 117; 105; 114; 101; 100]%N, [[70; 97; 108; 115; 101]%N])]) = Ok true.
Proof. vm_compute. split; reflexivity. Qed.

Example c19_required_default_example :
  required_default true [] = Ok [(arg_required, [])] /\ is_required [(arg_required, [])] = Ok true.
Proof. vm_compute. split; reflexivity. Qed.

(* prop:"a:{x,y},required=false"  ->  value ${a:{x,y}}, Required = [false] *)
Example c19_prop_shorthand_example :
  scan_property true true
    (render [97; 58; 123; 120; 44; 121; 125]%N [([114; 101; 113; 117; 105; 114; 101; 100]%N, [lit_false])])
  = Ok ([36; 123; 97; 58; 123; 120; 44; 121; 125; 125]%N, [(arg_required, [lit_false])]).
Proof. vm_compute. reflexivity. Qed.

(* "qualifier" / "Qualifier" / "prod" / "dev" *)
Definition ex_qualifier_lc : bytes := [113; 117; 97; 108; 105; 102; 105; 101; 114]%N.
Definition ex_qualifier_uc : bytes := [81; 117; 97; 108; 105; 102; 105; 101; 114]%N.
Definition ex_prod : bytes := [112; 114; 111; 100]%N.
Definition ex_dev : bytes := [100; 101; 118]%N.

(* a point whose tag declares no qualifier: AddArg("qualifier", "prod") then AddArg("Qualifier", "dev"); SetArg("x") *)
Example c19_api_total_example :
  apply_ops [] [OpAdd ex_qualifier_lc [ex_prod]; OpAdd ex_qualifier_uc [ex_dev]; OpSet [120]%N []; OpAdd [] [ex_dev]]
  = Ok [(ex_qualifier_uc, [ex_prod; ex_dev]); ([88]%N, [])].
Proof. vm_compute. reflexivity. Qed.

Example c19_set_replaces_example :
  arg_set [(ex_qualifier_uc, [ex_prod; ex_dev])] ex_qualifier_lc [ex_dev] = Ok [(ex_qualifier_uc, [ex_dev])].
Proof. vm_compute. reflexivity. Qed.

(* the programmatic qualifier of a point without a tag-declared one is what Has(ArgQualifier, ...) sees *)
Example c19_add_appends_example :
  find [] ex_qualifier_lc = Ok None
  /\ arg_add [] ex_qualifier_lc [ex_prod] = Ok [(ex_qualifier_uc, [ex_prod])]
  /\ find [(ex_qualifier_uc, [ex_prod])] ex_qualifier_uc = Ok (Some [ex_prod]).
Proof. vm_compute. repeat split; reflexivity. Qed.

Example c19_add_visible_example :
  In ex_prod [ex_prod] /\ has [(ex_qualifier_uc, [ex_prod])] ex_qualifier_uc [ex_prod] = Ok true
  /\ is_ascii_letter 113 = true.
Proof. split; [left; reflexivity|]. vm_compute. split; reflexivity. Qed.

Example c19_case_add_example :
  arg_add [(ex_qualifier_uc, [ex_prod])] ex_qualifier_lc [ex_dev] = Ok [(ex_qualifier_uc, [ex_prod; ex_dev])]
  /\ arg_add [(ex_qualifier_uc, [ex_prod])] ex_qualifier_uc [ex_dev] = Ok [(ex_qualifier_uc, [ex_prod; ex_dev])].
Proof. vm_compute. split; reflexivity. Qed.

Example c19_api_frame_example :
  arg_required <> [] /\ upper_first arg_required <> upper_first ex_qualifier_lc
  /\ arg_add [(arg_required, [lit_false])] ex_qualifier_lc [ex_prod]
     = Ok [(arg_required, [lit_false]); (ex_qualifier_uc, [ex_prod])].
Proof. split; [discriminate|]. split; [vm_compute; discriminate|vm_compute; reflexivity]. Qed.

Example c19_api_empty_name_example :
  arg_add [(ex_qualifier_uc, [ex_prod])] [] [ex_dev] = Ok [(ex_qualifier_uc, [ex_prod])].
Proof. vm_compute. reflexivity. Qed.

(* the rendering of the table (TagArg.String): .Qualifier(prod,dev).X() *)
Example c19_args_string_example :
  args_string [(ex_qualifier_uc, [ex_prod; ex_dev]); ([88]%N, [])]
  = [46]%N ++ ex_qualifier_uc ++ [40]%N ++ ex_prod ++ [44]%N ++ ex_dev ++ [41; 46; 88; 40; 41]%N.
Proof. vm_compute. reflexivity. Qed.
