(* C13 — Runners execute once, in order, only after the container is ready.

   Model: Model/App.v [run] = configuration, PrepareComponents, Refresh, callRunners.  The event log of
   the state ([log], newest first) records every AfterPropertiesSet / Init / post-processor callback /
   runner invocation.  [runner_order s st2] is the sequence callRunners computes from what was injected
   into App.ApplicationRunners: SortOrderedComponents (Model/Sorter.v, C12) of those components.
   Quantified over all scenarios (all sets of runners and other components, all Order assignments,
   each choice of failing runner, lazy runners, runners on cycles). *)
From Coq Require Import List Arith Bool ZArith Permutation.
From IocVerif Require Import Model.App Proofs.FactoryLog Proofs.FactoryInvariant Proofs.SorterProofs.
Import ListNotations.

(* a successful start invoked exactly the sorted runners, each once, in that order, none failing; every
   runner event is newer than every lifecycle event of the start *)
Theorem c13_once_in_order : forall s st,
  run repaired s = Ok st ->
  exists st2, log st = rev (map EvRun (runner_order (normalise repaired s) st2)) ++ log st2
              /\ Forall (fun e => is_run e = false) (log st2)
              /\ (forall n, In n (runner_order (normalise repaired s) st2) -> runner_fails s n = false).
Proof.
  intros s st H. destruct (run_core_log_ok repaired (normalise repaired s) st H) as [_ [st2 [Hl [Hg Hn]]]].
  exists st2. split; [exact Hl|]. split; [|exact Hn].
  eapply Forall_impl; [|exact Hg]. intros e [He _]. exact He.
Qed.

(* the invocation sequence satisfies the ordering contract and contains every injected runner once *)
Theorem c13_order_contract : forall s st a rp cp,
  s_app s = Some (a, rp, cp) ->
  runner_order s st = map pid (sort_participants (runner_participants s (field_of st a rp)))
  /\ contract_ok (sort_participants (runner_participants s (field_of st a rp))) = true
  /\ Permutation (runner_participants s (field_of st a rp))
                 (sort_participants (runner_participants s (field_of st a rp))).
Proof.
  intros s st a rp cp Ha. unfold runner_order. rewrite Ha.
  split; [reflexivity|]. split; [apply sort_participants_contract|apply sort_participants_perm].
Qed.

(* the container is ready: when the first runner runs, every eagerly created component is published
   (its creation, including Init and the after-initialization callbacks, has returned) *)
Theorem c13_after_ready : forall s st,
  run repaired s = Ok st ->
  forall n, In n (eager_names s) -> exists v, alookup n (L1 (reg st)) = Some v.
Proof.
  intros s st H n Hn. unfold run, run_core in H. cbn [normalise s_loader_fail] in H.
  destruct (s_loader_fail s); [discriminate|].
  unfold prepare in H.
  destruct (prepare_loop repaired (normalise repaired s) (sorted_procs (normalise repaired s)) (set_scanned finit))
    as [st1|k st1] eqn:E1; [|discriminate].
  assert (Ht1 : top st1).
  { eapply (prepare_loop_top repaired); [reflexivity| |exact E1]. eapply top_same_core; [|apply top_finit]. repeat split. }
  unfold refresh in H.
  destruct (get_each repaired (normalise repaired s) (eager_names (normalise repaired s)) st1) as [st2|k st2] eqn:E2;
    [|discriminate].
  destruct (get_each_published repaired _ _ eq_refl st1 st2 Ht1 E2) as [_ Hall].
  destruct (Hall n Hn) as [v Hv]. exists v.
  unfold call_runners in H. cbn [normalise s_app] in H.
  destruct (s_app s) as [[[a rp] cp]|]; [|inversion H; subst; exact Hv].
  assert (Hreg : forall ns sta stb, run_each (normalise repaired s) ns sta = Ok stb -> reg stb = reg sta).
  { induction ns as [|m r IH]; intros sta stb Hr; cbn [run_each] in Hr; [inversion Hr; reflexivity|].
    destruct (runner_fails (normalise repaired s) m); [discriminate|]. rewrite (IH _ _ Hr). reflexivity. }
  rewrite (Hreg _ _ _ H). exact Hv.
Qed.

(* a failing runner fails the start and no later runner is invoked *)
Theorem c13_stop : forall s k st,
  run repaired s = Fail k st ->
  Forall (fun e => is_run e = false) (log st) \/
  exists st2 pre n post,
    runner_order (normalise repaired s) st2 = pre ++ n :: post /\ runner_fails s n = true
    /\ (forall m, In m pre -> runner_fails s m = false)
    /\ log st = EvRun n :: rev (map EvRun pre) ++ log st2
    /\ Forall (fun e => is_run e = false) (log st2).
Proof. intros s k st H. exact (run_core_log_fail repaired (normalise repaired s) k st H). Qed.

(* non-vacuity: three runners (priority 5, ordered -1, unordered), the second one on a cycle *)
Definition ex_pop13 (fail2 : bool) : population :=
  [ mkComp 9999 [] false None false false [] [mkPoint true (TIface 1000) SByType None false; mkPoint true (TIface 1001) SByType None false] [] None None None false None;
    mkComp 100 [] false None false true [] [] [] None None None false (Some (Ord 2, PBuiltin BWire));
    mkComp 101 [] false None false true [] [] [] None None None false (Some (Ord 4, PBuiltin BFurther));
    mkComp 0 [1000] false None false false [] [] [] None (Some false) (Some (Unord, false)) false None;
    mkComp 1 [1000; 0] false None false false [] [mkPoint false (TPtr 2) SByType None true] [] None (Some false) (Some (Ord (-1), fail2)) false None;
    mkComp 2 [1000] false None false false [] [mkPoint false (TIface 0) SByType None true] [] None None (Some (Prio 5, false)) false None ].

Example c13_example_ok :
  match run repaired (mkScn (ex_pop13 false) [] false (Some (0, 0, 1)) []) with
  | Ok st => log st = [EvRun 3; EvRun 4; EvRun 5; EvInit 4; EvInit 3]
  | Fail _ _ => False
  end.
Proof. vm_compute. reflexivity. Qed.

Example c13_example_stop :
  match run repaired (mkScn (ex_pop13 true) [] false (Some (0, 0, 1)) []) with
  | Fail (FErr ECallback) st => log st = [EvRun 4; EvRun 5; EvInit 4; EvInit 3]
  | _ => False
  end.
Proof. vm_compute. reflexivity. Qed.

(* the container is ready when the runners are called, also under the extended semantics (Model/FactoryX.v) *)
From IocVerif Require Import Model.FactoryX Proofs.FactoryXInv.
Theorem c13_after_ready_extended : forall s x o st,
  run_xt repaired s x = (o, Ok st) ->
  forall n, In n (eager_names s) -> exists v, alookup n (L1 (reg st)) = Some v.
Proof. intros s x o st H n Hn. exact (run_xt_eager_published repaired s x o st eq_refl H n Hn). Qed.

From IocVerif Require Import Proofs.FactoryXLog.
(* exactly the sorted runners, each once, in order, after every lifecycle event — also with re-entrant lookups
   and short-circuited creations *)
Theorem c13_once_in_order_extended : forall s x o st,
  run_xt repaired s x = (o, Ok st) ->
  exists st2, log st = rev (map EvRun (runner_order (normalise repaired s) st2)) ++ log st2
              /\ Forall (fun e => is_run e = false) (log st2)
              /\ (forall n, In n (runner_order (normalise repaired s) st2) -> runner_fails s n = false).
Proof.
  intros s x o st H. destruct (run_core_xt_log_ok repaired (normalise repaired s) x o st H) as [_ [st2 [Hl [Hg Hn]]]].
  exists st2. split; [exact Hl|]. split; [|exact Hn].
  eapply Forall_impl; [|exact Hg]. intros e [He _]. exact He.
Qed.

Theorem c13_stop_extended : forall s x o k st,
  run_xt repaired s x = (o, Fail k st) ->
  Forall (fun e => is_run e = false) (log st) \/
  exists st2 pre n post,
    runner_order (normalise repaired s) st2 = pre ++ n :: post /\ runner_fails s n = true
    /\ (forall m, In m pre -> runner_fails s m = false)
    /\ log st = EvRun n :: rev (map EvRun pre) ++ log st2
    /\ Forall (fun e => is_run e = false) (log st2).
Proof. intros s x o k st H. exact (run_core_xt_log_fail repaired (normalise repaired s) x o k st H). Qed.
