(* C04 — Singleton cache protocol: one early reference, final publication, clean failure.

   Property theorems only.  Model: Model/Registry.v (container/support/singleton_component_registry.go
   as the state machine rstep/rrun over registry operations, GetSingletonOrCreateByFactory opened up
   into OBegin / OEndOk / OEndErr) and Model/RegistryProto.v (the protocol language and the observers);
   lemmas: Proofs/RegistryProofs.v.

   Quantifier.  Every theorem is about an ARBITRARY op list: all names, all nesting depths (nesting is
   bracketing in the list), any interleaving of lookups with and without early references, nested and
   failing creations, lookups after a failure.  No length or depth bound anywhere.
   [trace vt ops] pairs each op with the output [rrun vt rinit ops] gives it.

   Hypotheses.
   - [conforms_v vt ops] (= [protocol (trace vt ops)]): creations are bracketed, a name is not created
     re-entrantly, OAddFactory n only while n is in creation, ORemove n / OAddSingleton n only while n
     is not in creation.  An OBegin n that finds n published opens no bracket.  This is what
     container/factory/factory.go issues (c04_factory_conforms, proved over Model/Factory.v, uses
     the boolean [conforms]).  Needed by c04_one_early_ref and c04_published_is_final: without it a
     RemoveSingleton or a second publication in the middle of a creation changes what lookups return.
   - [conforms_strict_v] additionally: errors are not swallowed (after a failed early factory or a failed
     creation the innermost open creation fails next).  Needed only to bound ALL early-factory runs by
     one (c04_single_invocation); without it the bound is on runs that return a reference.
   - c04_clean_failure needs no hypothesis on the history at all.
   - vt: c04_one_early_ref, c04_published_is_final, c04_single_invocation hold for both variants of the
     registry; c04_clean_failure, c04_early_ref_fresh, c04_protocol_invariant are about [repaired]
     (RemoveSingleton on the error path of GetSingletonOrCreateByFactory, fix D-C04);
     c04_clean_failure_refuted is about [unrepaired]. *)
From Coq Require Import List Arith Bool.
From IocVerif Require Import Model.Registry Model.RegistryProto Proofs.RegistryProofs.
Import ListNotations.

(* ---- 1. one early reference --------------------------------------------------------------------- *)

(* Between an OBegin n that started a creation and the first exit of a creation of n (in a conforming
   history: the matching one), with w = that part of the trace:
   (a) all lookups of n that return a value return the same one;
   (b) once a lookup of n returned a value no later lookup of n misses;
   (c) at most one early-factory run for n returns a reference, and
   (d) no early factory runs for n after that. *)
Theorem c04_one_early_ref : forall vt ops,
  conforms_v vt ops = true ->
  forall pre n out post,
    trace vt ops = pre ++ (OBegin n, out) :: post -> began out = true ->
    let w := take_window n post in
    (forall v v', In (Some v) (get_results n w) -> In (Some v') (get_results n w) -> v = v') /\
    (forall a v b, get_results n w = a ++ Some v :: b -> ~ In None b) /\
    successes (invocations n w) <= 1 /\
    (forall a f b, invocations n w = a ++ (f, true) :: b -> b = []).
Proof.
  intros vt ops Hc pre n out post Heq Hb w.
  pose proof (one_early_ref_b_spec _ (one_early_ref_from vt ops rinit [] Hc) pre n out post Heq Hb) as H.
  unfold window_ok in H. apply andb_true_iff in H. destruct H as [H1 H2]. fold w in H1, H2.
  split; [exact (results_ok_same _ _ H1)|].
  split; [exact (results_ok_no_miss_after _ _ H1)|].
  split; [exact (inv_ok_successes _ H2)|exact (inv_ok_none_after _ H2)].
Qed.

(* the same as one boolean over the whole trace (the oracle of the correspondence check) *)
Theorem c04_one_early_ref_b : forall vt ops,
  conforms_v vt ops = true -> one_early_ref_b (trace vt ops) = true.
Proof. intros vt ops H. exact (one_early_ref_from vt ops rinit [] H). Qed.

(* Repaired registry, sharper: inside the window a lookup of n misses until the factory installed last
   by OAddFactory n IN THIS WINDOW is run by a lookup that allows early references; from then on every
   lookup returns what that run returned; OIsCreating n is true throughout.  Nothing from before the
   window (an earlier failed attempt) can be observed. *)
Theorem c04_early_ref_fresh : forall ops,
  conforms ops = true -> early_ref_fresh_b (trace repaired ops) = true.
Proof.
  intros ops H. exact (early_ref_fresh_from ops rinit [] (NoDup_nil _) vinv_init H).
Qed.

(* With error propagation: at most one early-factory run per window in total. *)
Theorem c04_single_invocation : forall vt ops,
  conforms_strict_v vt ops = true -> single_invocation_b (trace vt ops) = true.
Proof. intros vt ops H. exact (single_invocation_from vt ops rinit [] false H). Qed.

(* ---- 2. the published instance is final --------------------------------------------------------- *)

(* After OEndOk n v, every later observation of n up to the first ORemove n / OAddSingleton n:
   a lookup (early or not) returns v without running a factory, GetSingletonOrCreateByFactory returns
   v without starting a creation, IsSingletonCurrentlyInCreation n is false ([obs_final]). *)
Theorem c04_published_is_final : forall vt ops,
  conforms_v vt ops = true ->
  forall pre n v out post,
    trace vt ops = pre ++ (OEndOk n v, out) :: post ->
    forall a e b, post = a ++ e :: b ->
      forallb (fun x => negb (republishes n (fst x))) a = true ->
      republishes n (fst e) = false ->
      obs_final n v e = true.
Proof.
  intros vt ops Hc pre n v out post Heq a e b Hpost Ha He.
  pose proof (published_final_b_spec _ (published_final_from vt ops rinit [] (NoDup_nil _) Hc)
                pre n v out post Heq) as H.
  exact (final_from_spec n v post H a e b Hpost Ha He).
Qed.

(* in words, for the three kinds of observation of n (e is any such later entry) *)
Theorem c04_published_lookup : forall vt ops,
  conforms_v vt ops = true ->
  forall pre n v out post a o r b,
    trace vt ops = pre ++ (OEndOk n v, out) :: post ->
    post = a ++ (o, r) :: b ->
    forallb (fun x => negb (republishes n (fst x))) a = true ->
    (forall early fout, o = OGet n early fout -> r = RVal (Some v) None) /\
    (o = OBegin n -> r = RVal (Some v) None) /\
    (o = OIsCreating n -> r = RBool false).
Proof.
  intros vt ops Hc pre n v out post a o r b Heq Hpost Ha.
  assert (H : republishes n o = false -> obs_final n v (o, r) = true).
  { intros He. exact (c04_published_is_final vt ops Hc pre n v out post Heq a (o, r) b Hpost Ha He). }
  split; [|split].
  - intros early fout Ho. subst o. exact (obs_final_get n v early fout r (H eq_refl)).
  - intros Ho. subst o. exact (obs_final_begin n v r (H eq_refl)).
  - intros Ho. subst o. exact (obs_final_creating n v r (H eq_refl)).
Qed.

Theorem c04_published_is_final_b : forall vt ops,
  conforms_v vt ops = true -> published_final_b (trace vt ops) = true.
Proof. intros vt ops H. exact (published_final_from vt ops rinit [] (NoDup_nil _) H). Qed.

(* ---- 3. clean failure ------------------------------------------------------------------------------ *)

(* Repaired registry, ANY history: right after OEndErr n the name is in no cache level and not in
   creation. *)
Theorem c04_clean_failure_state : forall pre n,
  forgotten (state_after repaired (pre ++ [OEndErr n])) n.
Proof. exact clean_failure_state. Qed.

(* ... so, until something is done for n again (OBegin n, OAddFactory n, OAddSingleton n, OEndOk n),
   every lookup of n misses, with or without early references allowed, n is not reported in creation,
   and GetSingletonOrCreateByFactory n starts a fresh attempt: no reference at all, in particular not
   the early reference of the failed attempt, is returned for n ([stale_hits] is empty). *)
Theorem c04_clean_failure : forall ops pre n out post,
  trace repaired ops = pre ++ (OEndErr n, out) :: post ->
  forgotten_from n post = true /\ stale_hits n post = [].
Proof.
  intros ops pre n out post Heq.
  pose proof (clean_failure_b_spec _ (clean_failure_from ops rinit) pre n out post Heq) as H.
  split; [exact H|exact (forgotten_no_stale_hits n post H)].
Qed.

(* in words: a lookup after the failure returns nil without running any factory (doGetComponent then
   re-attempts the creation), the name is not in creation, GetSingletonOrCreateByFactory starts afresh *)
Theorem c04_failed_lookup : forall ops pre n out post a o r b,
  trace repaired ops = pre ++ (OEndErr n, out) :: post ->
  post = a ++ (o, r) :: b ->
  forallb (fun x => negb (introduces n (fst x))) a = true ->
  (forall early fout, o = OGet n early fout -> r = RVal None None) /\
  (o = OBegin n -> r = RVal None None) /\
  (o = OIsCreating n -> r = RBool false).
Proof.
  intros ops pre n out post a o r b Heq Hpost Ha.
  destruct (c04_clean_failure ops pre n out post Heq) as [Hf _].
  pose proof (forgotten_from_spec n post Hf a (o, r) b Hpost Ha) as H.
  split; [|split].
  - intros early fout Ho. subst o. exact (obs_forgotten_get n early fout r H).
  - intros Ho. subst o. exact (obs_forgotten_begin n r H).
  - intros Ho. subst o. exact (obs_forgotten_creating n r H).
Qed.

Theorem c04_clean_failure_b : forall ops, clean_failure_b (trace repaired ops) = true.
Proof. intros ops. exact (clean_failure_from ops rinit). Qed.

(* The unchanged registry (GetSingletonOrCreateByFactory returns on error as is): a history
   factory.go issues (a failing creation, then the next doGetComponent) in which the lookup after
   OEndErr n runs the early factory f installed by the failed attempt and returns its half-built
   instance; n is still reported in creation. *)
Definition d_c04_witness : list rop :=
  [OGet 0 true None; OBegin 0; OIsCreating 0; OAddFactory 0 7; OEndErr 0;
   OGet 0 true (Some (VOrig 0)); OIsCreating 0].

Theorem c04_clean_failure_refuted :
  exists pre n f e post,
    conforms_strict_v unrepaired (pre ++ OEndErr n :: post) = true /\
    In (OAddFactory n f) pre /\
    nth (length pre + 1) (snd (rrun unrepaired rinit (pre ++ OEndErr n :: post))) RUnit
      = RVal (Some e) (Some f) /\
    stale_hits n (trace_from unrepaired (state_after unrepaired (pre ++ [OEndErr n])) post) = [e] /\
    is_creating (state_after unrepaired (pre ++ [OEndErr n])) n = true /\
    clean_failure_b (trace unrepaired (pre ++ OEndErr n :: post)) = false.
Proof.
  exists [OGet 0 true None; OBegin 0; OIsCreating 0; OAddFactory 0 7], 0, 7, (VOrig 0),
         [OGet 0 true (Some (VOrig 0)); OIsCreating 0].
  vm_compute. repeat split; try reflexivity. right. right. right. left. reflexivity.
Qed.

(* ---- state invariant of conforming histories (repaired) ----------------------------------------- *)

(* stk = the open creations after the history, innermost first.  A name that is open is not published
   and is in creation; a name that is not open has no early reference, no early factory, and is not in
   creation ("the name is no longer reported as in creation"). *)
Theorem c04_protocol_invariant : forall ops stk,
  stack_from [] (trace repaired ops) = Some stk ->
  NoDup stk /\ forall n, inv_name (state_after repaired ops) stk n.
Proof. exact protocol_invariant. Qed.

Theorem c04_conforms_prefix : forall vt a b, conforms_v vt (a ++ b) = true -> conforms_v vt a = true.
Proof. exact conforms_prefix. Qed.

(* ---- non-vacuity ------------------------------------------------------------------------------------ *)

(* A history as factory.go issues it (names 0..3).  0 and 1 form a cycle: 1 is created inside 0 and
   looks 0 up twice (first lookup runs 0's early factory 10, second finds the early reference; the fout
   of the second lookup is not used).  Then the lazy 2 is created: it depends on the published 0 and
   on 3, which is created inside 2 and takes 2's early reference (cycle) and is published; 2 then
   fails.  Lookups after the failure; a second attempt fails again; more lookups. *)
Definition c04_history : list rop :=
  [ OGet 0 true None; OBegin 0; OIsCreating 0; OAddFactory 0 10;
      OGet 1 true None; OBegin 1; OIsCreating 1; OAddFactory 1 11;
        OGet 0 true (Some (VOrig 0));
        OGet 0 true (Some (VProxy 0 9));
        OGet 1 false None;
      OEndOk 1 (VOrig 1);
      OGet 0 false None;
    OEndOk 0 (VOrig 0);
    OGet 2 true None; OBegin 2; OIsCreating 2; OAddFactory 2 12;
      OGet 0 true None;
      OGet 3 true None; OBegin 3; OIsCreating 3; OAddFactory 3 13;
        OGet 2 true (Some (VOrig 2));
        OGet 3 false None;
      OEndOk 3 (VOrig 3);
    OEndErr 2;
    OGet 2 true (Some (VOrig 2)); OIsCreating 2;
    OGet 2 true None; OBegin 2; OIsCreating 2; OAddFactory 2 14; OGet 0 true None; OGet 3 true None;
    OEndErr 2;
    OGet 2 false None; OGet 0 true None; OIsCreating 0; OBegin 1 ].

(* the hypotheses hold for it, for both variants *)
Example c04_history_conforms :
  conforms c04_history = true /\ conforms_strict c04_history = true /\
  conforms_v unrepaired c04_history = true /\ conforms_strict_v unrepaired c04_history = true.
Proof. vm_compute. repeat split. Qed.

(* c04_one_early_ref / c04_early_ref_fresh / c04_single_invocation: the window of 0 contains two lookups
   of 0 from inside the nested creation of 1 plus the final one; one factory run, one reference *)
Example c04_example_one_early_ref :
  let w := take_window 0 (skipn 2 (trace repaired c04_history)) in
  get_results 0 w = [Some (VOrig 0); Some (VOrig 0); Some (VOrig 0)] /\
  invocations 0 w = [(10, true)] /\
  one_early_ref_b (trace repaired c04_history) = true /\
  early_ref_fresh_b (trace repaired c04_history) = true /\
  single_invocation_b (trace repaired c04_history) = true.
Proof. vm_compute. repeat split. Qed.

(* c04_published_is_final: after OEndOk 0 (position 13) 0 is looked up three times, asked for its
   in-creation mark once; after OEndOk 1 the last op is a GetSingletonOrCreateByFactory of 1 *)
Example c04_example_published :
  map snd (filter (fun e => Nat.eqb (op_name (fst e)) 0) (skipn 14 (trace repaired c04_history)))
    = [RVal (Some (VOrig 0)) None; RVal (Some (VOrig 0)) None; RVal (Some (VOrig 0)) None; RBool false] /\
  last (map snd (trace repaired c04_history)) RUnit = RVal (Some (VOrig 1)) None /\
  published_final_b (trace repaired c04_history) = true.
Proof. vm_compute. repeat split. Qed.

(* c04_clean_failure: after the first OEndErr 2 (position 26) the lookup of 2 misses although its early
   reference had been taken by 3, 2 is not in creation, the next attempt starts afresh; the unrepaired
   variant returns the failed attempt's early reference to the same lookups *)
Example c04_example_clean_failure :
  map snd (firstn 4 (skipn 27 (trace repaired c04_history)))
    = [RVal None None; RBool false; RVal None None; RVal None None] /\
  map snd (firstn 3 (skipn 27 (trace unrepaired c04_history)))
    = [RVal (Some (VOrig 2)) None; RBool true; RVal (Some (VOrig 2)) None] /\
  clean_failure_b (trace repaired c04_history) = true /\
  clean_failure_b (trace unrepaired c04_history) = false /\
  forgottenb (state_after repaired (firstn 27 c04_history)) 2 = true.
Proof. vm_compute. repeat split. Qed.

(* c04_clean_failure_refuted: the witness is the D-C04 reproduction (lazy component whose Init fails,
   second GetComponentByName) *)
Example c04_example_refuted :
  snd (rrun unrepaired rinit d_c04_witness)
    = [RVal None None; RVal None None; RBool true; RUnit; RUnit; RVal (Some (VOrig 0)) (Some 7); RBool true] /\
  snd (rrun repaired rinit d_c04_witness)
    = [RVal None None; RVal None None; RBool true; RUnit; RUnit; RVal None None; RBool false].
Proof. vm_compute. split; reflexivity. Qed.

(* c04_protocol_invariant: in the middle of the nested creation (0 and 1 open) *)
Example c04_example_invariant :
  stack_from [] (trace repaired (firstn 9 c04_history)) = Some [1; 0].
Proof. vm_compute. reflexivity. Qed.

(* ---- the factory layer keeps the registry inside the protocol ------------------------------------------------
   Model/FactoryTrace.v computes, by the recursion of Model/Factory.v, the HISTORY of registry calls a start
   issues; Proofs/FactoryTraceProofs.v proves that its second component is the untraced model (erasure), that
   replaying the history on the registry model yields the registry the start ends with, and
   [c04_factory_conforms]: for EVERY scenario and BOTH variants of the code the history is in the strict
   protocol language.  So the three parts of C04 proved above for conforming histories hold of every start
   of the container ([c04_start_*]).  The correspondence check compares the model history of every generated
   scenario with the calls traced on the real registry of the real start, op by op (Corr/WiringTrace.v).
   The state-level statement proved earlier is kept: between calls of doGetComponent early references and
   factories exist only for names in creation, names in creation are cached and unpublished, cache entries
   hold versions of their own name, and a call leaves the in-creation set as it found it
   (c04_factory_conforms_partial — "partial" only in that it speaks about states, not histories). *)
From IocVerif Require Import Model.Factory Model.App Proofs.FactoryBasics Proofs.FactoryInvariant.

Theorem c04_factory_conforms_partial : forall s fuel st n st' v,
  Inv st -> do_get repaired s fuel st n = Ok (st', v) ->
  (* bracketing: the in-creation set is restored *)
  creating (reg st') = creating (reg st)
  (* the returned version is what every later lookup of n yields: published, or the one early reference *)
  /\ cur (reg st') n = Some v
  (* the protocol invariant holds again *)
  /\ (forall m, isSome (alookup m (L2 (reg st'))) || isSome (alookup m (L3 (reg st'))) = true -> In m (creating (reg st')))
  /\ (forall m, In m (creating (reg st')) -> cached (reg st') m = true /\ alookup m (L1 (reg st')) = None)
  /\ Inv st'.
Proof.
  intros s fuel st n st' v HI H. destruct (do_get_spec repaired s eq_refl fuel st n st' v HI H) as [HI' [Hc [_ Hv]]].
  split; [exact Hc|]. split; [exact Hv|]. split; [apply (i_early_creating st' HI')|].
  split; [|exact HI']. intros m Hm. split; [apply (i_creating_cached st' HI' m Hm)|apply (i_creating_unpub st' HI' m Hm)].
Qed.

(* after a whole successful start nothing is in creation and no early reference or factory is left *)
Theorem c04_start_leaves_registry_clean : forall s st,
  run repaired s = Ok st ->
  creating (reg st) = [] /\ forall m, alookup m (L2 (reg st)) = None /\ alookup m (L3 (reg st)) = None.
Proof.
  intros s st H. destruct (run_core_top (P:=anyk) repaired (normalise repaired s) st eq_refl H) as [HI Hcr].
  split; [exact Hcr|]. intros m.
  destruct (alookup m (L2 (reg st))) eqn:E2; [exfalso|destruct (alookup m (L3 (reg st))) eqn:E3; [exfalso|split; reflexivity]].
  - assert (Hin : In m (creating (reg st))) by (apply (i_early_creating st HI); rewrite E2; reflexivity). rewrite Hcr in Hin. exact Hin.
  - assert (Hin : In m (creating (reg st))) by (apply (i_early_creating st HI); rewrite E2, E3; reflexivity). rewrite Hcr in Hin. exact Hin.
Qed.

(* ---- histories of whole starts ------------------------------------------------------------------------------ *)
From IocVerif Require Import Model.FactoryTrace Proofs.FactoryTraceProofs.

(* the traced model IS the model: same result, and the history replayed on the registry model gives the
   registry of the final state (the factory touches its registry through these calls only) *)
Theorem c04_factory_history_faithful : forall vt s,
  snd (run_t vt s) = run vt s /\
  state_after vt (fst (run_t vt s)) = match run vt s with Ok st => reg st | Fail _ st => reg st end.
Proof.
  intros vt s. split; [apply run_erase|]. rewrite run_replay. destruct (run vt s); reflexivity.
Qed.

(* every start, successful or failing (errors and panics included), of the repaired and of the unrepaired code *)
Theorem c04_factory_conforms : forall vt s, conforms_strict_v vt (fst (run_t vt s)) = true.
Proof. exact run_conforms_strict. Qed.

(* ... and the GetComponentByName calls that follow it, as long as none of them is aborted by a panic *)
Theorem c04_factory_conforms_lookups : forall vt s ns,
  (forall st, snd (run_t vt s) = Ok st ->
     Forall no_abort (snd (snd (lookups_core_t vt (normalise vt s) ns st)))) ->
  conforms_strict_v vt (start_ops vt s ns) = true.
Proof. exact start_conforms_strict. Qed.

Lemma strict_conforms vt ops : conforms_strict_v vt ops = true -> conforms_v vt ops = true.
Proof. unfold conforms_strict_v, conforms_v, protocol_strict, protocol. apply strict_proto. Qed.

(* the three parts of C04, of every start *)
Theorem c04_start_one_early_ref : forall vt s,
  one_early_ref_b (trace vt (fst (run_t vt s))) = true /\ single_invocation_b (trace vt (fst (run_t vt s))) = true.
Proof.
  intros vt s. split; [apply c04_one_early_ref_b, strict_conforms|apply c04_single_invocation]; apply c04_factory_conforms.
Qed.

Theorem c04_start_early_ref_fresh : forall s, early_ref_fresh_b (trace repaired (fst (run_t repaired s))) = true.
Proof. intros s. apply c04_early_ref_fresh. apply (strict_conforms repaired), c04_factory_conforms. Qed.

Theorem c04_start_published_is_final : forall vt s, published_final_b (trace vt (fst (run_t vt s))) = true.
Proof. intros vt s. apply c04_published_is_final_b, strict_conforms, c04_factory_conforms. Qed.

Theorem c04_start_clean_failure : forall s ns, clean_failure_b (trace repaired (start_ops repaired s ns)) = true.
Proof. intros s ns. apply c04_clean_failure_b. Qed.

(* non-vacuity: a two-cycle (2 <-> 3) behind the built-in wire and further-matching processors; the history
   has a creation nested in another one and an early-factory run *)
Definition ex_cycle : scenario :=
  mkScn [ mkComp 100 [] false None false true [] [] [] None None None false (Some (Ord 2, PBuiltin BWire));
          mkComp 101 [] false None false true [] [] [] None None None false (Some (Ord 4, PBuiltin BFurther));
          mkComp 0 [] false None false false [] [mkPoint false (TPtr 1) SByType None true] [] None (Some false) None false None;
          mkComp 1 [] false None false false [] [mkPoint false (TPtr 0) SByType None true] [] None (Some false) None false None ]
        [] false None [].

Example c04_factory_history_example :
  fst (run_t repaired ex_cycle) =
  [ OGet 2 true None; OBegin 2; OAddFactory 2 2;
      OGet 3 true None; OBegin 3; OAddFactory 3 3;
        OGet 2 true (Some (VOrig 2));
      OGet 3 false None; OEndOk 3 (VOrig 3);
    OGet 2 false None; OEndOk 2 (VOrig 2);
    OGet 3 true None ].
Proof. vm_compute. reflexivity. Qed.

(* ---- extended semantics (Model/FactoryX.v): short-circuiting post-processors and lookups issued from Init ------ *)
From IocVerif Require Import Model.FactoryX Proofs.FactoryXProofs.

(* without such extras the extended model is the model above, result and history *)
Theorem c04_extended_conservative : forall vt s, run_xt vt s no_extras = run_t vt s.
Proof. exact run_xt_none. Qed.

(* with them, the history of every start is still in the strict protocol language and replays to the final
   registry: re-entrant lookups and skipped creations do not take the factory outside the protocol *)
Theorem c04_factory_conforms_extended : forall vt s x,
  conforms_strict_v vt (fst (run_xt vt s x)) = true /\
  state_after vt (fst (run_xt vt s x)) = match snd (run_xt vt s x) with Ok st => reg st | Fail _ st => reg st end.
Proof.
  intros vt s x. split; [apply run_xt_conforms_strict|]. rewrite run_xt_replay. destruct (snd (run_xt vt s x)); reflexivity.
Qed.

(* non-vacuity: component 2's Init looks up the lazy component 3, which is wired with 2 (2 is in creation: 3 gets
   its early reference); processor 4 short-circuits component 5 *)
Definition ex_extras_scn : scenario :=
  mkScn [ mkComp 100 [] false None false true [] [] [] None None None false (Some (Ord 2, PBuiltin BWire));
          mkComp 101 [] false None false true [] [] [] None None None false (Some (Ord 4, PBuiltin BFurther));
          mkComp 0 [] false None false false [] [] [] None (Some false) None false None;
          mkComp 1 [] false None false true [] [mkPoint false (TPtr 0) SByType None true] [] None (Some false) None false None;
          mkComp 7 [] false None false false [] [] [] None None None false (Some (Unord, PUser [] []));
          mkComp 2 [] false None false false [] [] [] None (Some false) None false None ]
        [] false None [].
Definition ex_extras : extras := mkX [(4, 5)] [(2, [3])].

Example c04_extended_example :
  fst (run_xt repaired ex_extras_scn ex_extras) =
  [ OGet 4 true None; OBegin 4; OAddFactory 4 4; OGet 4 false None; OEndOk 4 (VOrig 4);
    OGet 2 true None; OBegin 2; OAddFactory 2 2;
      OGet 3 true None; OBegin 3; OAddFactory 3 3;
        OGet 2 true (Some (VOrig 2));
      OGet 3 false None; OEndOk 3 (VOrig 3);
    OGet 2 false None; OEndOk 2 (VOrig 2);
    OGet 4 true None;
    OGet 5 true None; OBegin 5; OEndOk 5 (VOrig 5) ]
  /\ match snd (run_xt repaired ex_extras_scn ex_extras) with
     | Ok st => field_of st 2 100 = [VOrig 3] /\ log st = [EvAfter 4 5; EvAfter 4 2; EvAfter 4 3; EvInit 3; EvBefore 4 3 [true]; EvEarly 4 2; EvInit 2; EvBefore 4 2 []]
     | Fail _ _ => False
     end.
Proof. vm_compute. repeat split. Qed.

(* ... and a successful start of the extended model leaves the registry clean as well *)
From IocVerif Require Import Proofs.FactoryXInv.
Theorem c04_start_leaves_registry_clean_extended : forall s x o st,
  run_xt repaired s x = (o, Ok st) ->
  creating (reg st) = [] /\ forall m, alookup m (L2 (reg st)) = None /\ alookup m (L3 (reg st)) = None.
Proof. intros s x o st H. exact (run_xt_caches_clean repaired s x o st eq_refl H). Qed.
