(* C15 — Configuration sources merge in loader order; adding a source drops nothing.

   Property theorems only. Model: Model/ConfigMerge.v (configure/configure.go, app/options.go,
   configure/binder/viper.go, configure/loader/*.go; viper's mergeMaps and go-kid/properties' buildMap
   as they really behave); lemmas: Proofs/ConfigMergeProofs.v; loader order: Model/Sorter.v (C12).

   All statements quantify over every list of documents (any number of loaders), every key tree
   (nested maps, lists, scalars; overlapping and disjoint keys) and every path. The only standing
   hypothesis is [wf_doc] — a Go map has each key once — which the correspondence re-checks on every
   generated document.

   Status of the three sub-claims on the faithful model:
     * merge order / survival / nothing dropped / loader sequence: proved without restriction;
     * "the last one wins" for a leaf: proved under [shape_compatible]; without it the statement is
       false of viper ([c15_last_wins_conflict_refuted], known finding KF-C15b);
     * "options that add a source never discard earlier sources": proved for the repaired
       AddConfigLoader ([c15_add_monotone]); false of the unrepaired one
       ([c15_add_monotone_refuted], defect D-C15a, fixes/D-C15a.diff);
     * the command-line source is modelled from the argument STRINGS ([parse_arg], [argv_load]): the value of
       "--app.config=K=V" is everything after the first '=' ([c15_args_value_is_rest_after_first_eq]), typed by
       strconv2.ParseAny (Model/Strconv.v); the string loader is the typed loader on the typed arguments
       ([c15_args_strings_typed]), so the statements above cover it. *)
From Coq Require Import List String ZArith Bool Permutation.
From IocVerif Require Import Model.Sorter Model.ConfigMerge Proofs.ConfigMergeProofs.
From IocVerif Require Model.Strconv.
Import ListNotations.
Local Open Scope string_scope.
Local Open Scope list_scope.

(* The effective configuration is the deep merge of all loader outputs in sequence order: what it
   holds at ANY path is the left-to-right merge of what the documents hold at that path. *)
Theorem c15_deep_merge : forall docs p,
  Forall (fun d => wf_doc d = true) docs -> p <> [] ->
  getd p (effective docs) = fold_left omerge (map (getd p) docs) None.
Proof. exact deep_merge. Qed.

(* For a key supplied by several loaders the last one wins (leaf values), provided no path is a map
   in an earlier source and a non-map in a later one. *)
Theorem c15_last_wins : forall docs p v,
  Forall (fun d => wf_doc d = true) docs -> shape_compatible docs -> p <> [] ->
  last_supplier p docs v -> is_map v = false ->
  getd p (effective docs) = Some v.
Proof. exact last_wins. Qed.

(* the same with the hypothesis only at the path asked for (weaker hypothesis, stronger theorem);
   [compatible_atb] is the boolean the correspondence evaluates *)
Theorem c15_last_wins_at : forall docs p v,
  Forall (fun d => wf_doc d = true) docs -> p <> [] -> compatible_atb p docs = true ->
  last_supplier p docs v -> is_map v = false ->
  getd p (effective docs) = Some v.
Proof.
  intros docs p v Hwf Hp Hc. apply last_wins_at; [exact Hwf|exact Hp|].
  apply compatible_atb_iff, Hc.
Qed.

(* when the last supplier holds a map the result is a map (whose entries obey the same theorems at
   the longer paths): maps are merged, never replaced by an earlier leaf *)
Theorem c15_last_map_merges : forall docs p v,
  Forall (fun d => wf_doc d = true) docs -> p <> [] ->
  last_supplier p docs v -> is_map v = true ->
  exists kids, getd p (effective docs) = Some (CMap kids).
Proof. exact last_map_stays_map. Qed.

(* Keys supplied by only one loader stay visible, with that loader's value. No shape hypothesis. *)
Theorem c15_survives : forall docs p v,
  Forall (fun d => wf_doc d = true) docs -> p <> [] ->
  only_supplier p docs v -> getd p (effective docs) = Some v.
Proof. exact survives. Qed.

(* Nothing is dropped: every path any document supplies is present in the effective configuration. *)
Theorem c15_nothing_dropped : forall docs p d v,
  Forall (fun d => wf_doc d = true) docs -> p <> [] ->
  In d docs -> getd p d = Some v -> exists w, getd p (effective docs) = Some w.
Proof. exact nothing_dropped. Qed.

(* The loader sequence computed by SortOrderedComponents (Model/Sorter.v): the loaders that declare an order
   (priority-ordered ones such as files, then merely ordered ones) first, then every other loader in the
   order it was added; every loader exactly once. *)
Theorem c15_sequence : forall ls,
  (exists fs, Permutation fs (filter has_order ls) /\
              sequence ls = fs ++ filter (fun l => negb (has_order l)) ls)
  /\ Permutation ls (sequence ls).
Proof. intros ls. split; [apply sequence_shape|apply sequence_perm]. Qed.

(* ... the front block obeys the ordering contract of C12: priority before ordered, Order never decreasing ... *)
Theorem c15_sequence_contract : forall ls,
  contract_ok (map (fun l => mkPart 0 (lclass l)) (sequence ls)) = true.
Proof. exact sequence_contract. Qed.

(* ... and loaders of the same class and the same Order — two configuration files, two user loaders with equal
   Order() — are consulted in the order in which they were added, so the one added LAST wins.  (sort.Slice on at
   most 12 elements is an insertion sort with a strict comparison; with the contract above this fixes the
   sequence completely.) *)
Theorem c15_sequence_stable : forall c ls,
  filter (fun l => same_class (lclass l) c) (sequence ls) = filter (fun l => same_class (lclass l) c) ls.
Proof. exact sequence_stable. Qed.

(* with the built-in loader kinds only (raw, file, command line): the files in the order they were added, then the
   others in the order they were added *)
Theorem c15_sequence_builtin : forall ls,
  Forall (fun l => is_user l = false) ls ->
  sequence ls = filter is_file ls ++ filter (fun l => negb (is_file l)) ls.
Proof. exact sequence_builtin. Qed.

(* Initialize = merge of the loaded documents in that sequence (empty outputs skipped) *)
Theorem c15_initialize : forall ls ds,
  docs_of (sequence ls) = Some ds -> initialize ls = ROk (effective ds).
Proof. exact initialize_docs. Qed.

(* One Configure used in several steps (SetLoaders / AddLoaders / Initialize in any sequence).  configure.go stores
   the SORTED list back at every Initialize ([Stored]); the specification keeps the list as the user built it and
   sorts all of it at every Initialize ([AsAdded]).  The two produce the same trace — configuration after every step,
   outcome and consulted loaders of every Initialize — for every history from every state. *)
Theorem c15_history : forall s steps, hist_trace Stored s steps = hist_trace AsAdded s steps.
Proof. exact hist_modes_agree. Qed.

(* Hence an Initialize after ANY history consults [sequence] of ALL loaders configured so far (what SetLoaders /
   AddLoaders built, [loaders_after]) and merges their documents, in that sequence, on top of the configuration
   the earlier passes left. *)
Theorem c15_history_initialize : forall steps s,
  hist_trace Stored s (steps ++ [CInit]) =
  hist_trace Stored s steps ++
  [let s' := hist_final AsAdded s steps in
   let '(cfg, r, used) := run_partial (cs_cfg s') (sequence (loaders_after (cs_loaders s) steps)) in
   (cfg, Some (r, used))].
Proof. exact hist_init_after. Qed.

(* re-sorting the stored list together with later additions is sorting everything added so far *)
Theorem c15_resort : forall l1 l2, sequence (sequence l1 ++ l2) = sequence (l1 ++ l2).
Proof. exact sequence_resort. Qed.

(* the bootstrap scenario: Initialize, AddLoaders, Initialize again (e.g. through app.SetConfigure) *)
Theorem c15_reinitialize : forall l1 l2 ds1 ds2,
  docs_of (sequence l1) = Some ds1 -> docs_of (sequence (l1 ++ l2)) = Some ds2 ->
  hist_trace Stored (mkCState l1 []) [CInit; CAdd l2; CInit] =
  [(effective ds1, Some (SOk, sequence l1));
   (effective ds1, None);
   (effective (ds1 ++ ds2), Some (SOk, sequence (l1 ++ l2)))].
Proof. exact reinitialize. Qed.

(* a pass that fails keeps what was merged before the failure; on passes that succeed it is [run_seq] *)
Theorem c15_partial_pass : forall seq cfg,
  run_seq cfg seq = match run_partial cfg seq with
                    | (c, SOk, _) => ROk c
                    | (_, SErr, _) => RErr
                    | (_, SPanic, _) => RPanic
                    end.
Proof. exact run_seq_partial. Qed.

(* Options that add a source (SetConfig, repaired AddConfigLoader) keep every earlier loader, in
   place, and therefore every path an earlier source supplies stays visible after the start. *)
Theorem c15_add_monotone : forall cur o,
  is_adding o = true ->
  (exists added, apply_opt Repaired cur o = cur ++ added) /\
  (forall ds p l d v,
      docs_of (sequence (apply_opt Repaired cur o)) = Some ds ->
      Forall (fun d => wf_doc d = true) ds -> p <> [] ->
      In l cur -> load l = LoadOk (Some d) -> getd p d = Some v ->
      initialize (apply_opt Repaired cur o) = ROk (effective ds) /\
      exists w, getd p (effective ds) = Some w).
Proof.
  intros cur o Ha. split; [apply add_monotone, Ha|].
  intros ds p l d v. apply add_keeps_paths. exact Ha.
Qed.

(* Process-wide options (app.Settings) are applied by every Run AFTER the options of the call:
   the configured loader list is that of the one sequence ops ++ globals. *)
Theorem c15_process_wide_options_last : forall v osargs ops globals,
  configured_run v osargs ops globals = fold_left (apply_opt v) globals (configured v osargs ops).
Proof. exact configured_run_after. Qed.

(* So a process-wide SetConfigLoader replaces whatever the call configured (os.Args loader included),
   and process-wide options that only add keep every loader of the call, in place. *)
Theorem c15_process_wide_set_replaces : forall v osargs ops g1 ls g2,
  configured_run v osargs ops (g1 ++ OSetConfigLoader ls :: g2) = fold_left (apply_opt v) g2 ls.
Proof. exact configured_run_global_set. Qed.

Theorem c15_process_wide_adding_keeps : forall osargs ops globals,
  Forall (fun o => is_adding o = true) globals ->
  exists added, configured_run Repaired osargs ops globals = configured Repaired osargs ops ++ added.
Proof. exact configured_run_global_adding. Qed.

(* D-C15a: the unrepaired AddConfigLoader (SetLoaders) discards an earlier loader *)
Theorem c15_add_monotone_refuted :
  exists cur o l, is_adding o = true /\ In l cur /\ ~ In l (apply_opt Unrepaired cur o).
Proof. exact add_monotone_unrepaired_refuted. Qed.

(* KF-C15b: without shape compatibility last-wins is false of viper's merge:
   a: {b: 1}  then  a: 5   leaves  a = {b: 1}. *)
Theorem c15_last_wins_conflict_refuted :
  exists docs p v,
    Forall (fun d => wf_doc d = true) docs /\ p <> [] /\
    last_supplier p docs v /\ is_map v = false /\
    getd p (effective docs) <> Some v.
Proof.
  exists [[("a", CMap [("b", CLeaf (AInt 1))])]; [("a", CLeaf (AInt 5))]], ["a"], (CLeaf (AInt 5)).
  split; [repeat constructor|]. split; [discriminate|]. split.
  - exists [[("a", CMap [("b", CLeaf (AInt 1))])]], [("a", CLeaf (AInt 5))], [].
    split; [reflexivity|]. split; [reflexivity|constructor].
  - split; [reflexivity|]. vm_compute. discriminate.
Qed.

(* KF-C15c: inside one ArgsLoader a scalar "k=a" followed by a dotted "k.k2...=b" panics
   (go-kid/properties buildMap), whatever precedes or follows; the opposite order is fine. *)
Theorem c15_args_scalar_then_dotted_panics : forall m k a k2 r b rest,
  args_fold (([k], CLeaf a) :: (k :: k2 :: r, b) :: rest) m = None.
Proof. exact args_scalar_then_dotted_panics. Qed.

(* The command-line source, from the argument strings.  "--app.config=K=V" with no '=' in K supplies the key path
   of K (split at '.') with the value that strconv2.ParseAny reads from V, where V is EVERYTHING after the first
   '=' - further '=' signs, ':' '#' ',' blanks and so on belong to the value; a V that ParseAny reads as a text
   ([Strconv.plain]: not quoted, not bracketed, not a number, not true/false) is supplied unchanged. *)
Theorem c15_args_value_is_rest_after_first_eq : forall k v,
  Strconv.byte_index b_eq k = None ->
  parse_arg (lit_flag_eq ++ k ++ b_eq :: v) =
  Some (Strconv.rbind (Strconv.parse_any v) (fun tv => Strconv.Ok (key_path k, tree_of_cval tv)))
  /\ (Strconv.plain v = true ->
      parse_arg (lit_flag_eq ++ k ++ b_eq :: v) = Some (Strconv.Ok (key_path k, CLeaf (AStr (string_of_bytes v))))).
Proof. intros k v Hk. split; [apply parse_arg_key_value, Hk|apply parse_arg_key_plain, Hk]. Qed.

(* the loader on argument strings = the loader on the typed arguments (so everything proved about loader
   sequences and merges applies to it); arguments that do not start with --app.config are skipped *)
Theorem c15_args_strings_typed : forall argv args,
  argv_typed argv = Strconv.Ok args -> load (mkLoader 0 (LArgv argv)) = load (mkLoader 0 (LArgs args)).
Proof. intros argv args H. cbn [load lk]. apply argv_load_typed, H. Qed.

(* ---- non-vacuity ---------------------------------------------------------------------- *)

Definition ex_d1 : doc := [("db", CMap [("host", CLeaf (AStr "h1")); ("port", CLeaf (AInt 1))]); ("only1", CLeaf (ABool true))].
Definition ex_d2 : doc := [("db", CMap [("port", CLeaf (AInt 2)); ("opts", CList [CLeaf (AInt 1)])]); ("only2", CLeaf (AStr "x"))].
Definition ex_d3 : doc := [("db", CMap [("port", CLeaf (AInt 3))])].

Example c15_deep_merge_example :
  getd ["db"] (effective [ex_d1; ex_d2; ex_d3]) =
  Some (CMap [("host", CLeaf (AStr "h1")); ("port", CLeaf (AInt 3)); ("opts", CList [CLeaf (AInt 1)])]).
Proof. vm_compute. reflexivity. Qed.

Example c15_last_wins_example :
  Forall (fun d => wf_doc d = true) [ex_d1; ex_d2; ex_d3] /\
  compatible_atb ["db"; "port"] [ex_d1; ex_d2; ex_d3] = true /\
  last_supplier ["db"; "port"] [ex_d1; ex_d2; ex_d3] (CLeaf (AInt 3)) /\
  getd ["db"; "port"] (effective [ex_d1; ex_d2; ex_d3]) = Some (CLeaf (AInt 3)).
Proof.
  split; [repeat constructor|]. split; [reflexivity|]. split; [|reflexivity].
  exists [ex_d1; ex_d2], ex_d3, []. split; [reflexivity|]. split; [reflexivity|constructor].
Qed.

Example c15_survives_example :
  only_supplier ["db"; "host"] [ex_d1; ex_d2; ex_d3] (CLeaf (AStr "h1")) /\
  getd ["db"; "host"] (effective [ex_d1; ex_d2; ex_d3]) = Some (CLeaf (AStr "h1")).
Proof.
  split; [|reflexivity]. exists [], ex_d1, [ex_d2; ex_d3].
  split; [reflexivity|]. split; [reflexivity|]. split; repeat constructor.
Qed.

Example c15_nothing_dropped_example :
  getd ["only2"] (effective [ex_d1; ex_d2; ex_d3]) = Some (CLeaf (AStr "x")).
Proof. reflexivity. Qed.

Definition ex_raw := mkLoader 0 (LRaw (Some ex_d1)).
Definition ex_file := mkLoader 1 (LFile (Some (Some ex_d2))).
Definition ex_args := mkLoader 2 (LArgs [(["db"; "port"], CLeaf (AInt 3))]).
Definition ex_file2 := mkLoader 3 (LFile (Some (Some ex_d3))).

Example c15_sequence_example :
  map lid (sequence [ex_raw; ex_file; ex_args; ex_file2]) = [1; 3; 0; 2]%nat.
Proof. vm_compute. reflexivity. Qed.

(* user loaders of every class among the built-in ones; equal Orders keep the order of addition *)
Definition ex_p7 := mkLoader 4 (LUser (Prio 7) (Some ex_d3)).
Definition ex_p0 := mkLoader 5 (LUser (Prio 0) (Some ex_d1)).
Definition ex_o3a := mkLoader 6 (LUser (Ord 3) (Some ex_d1)).
Definition ex_o3b := mkLoader 7 (LUser (Ord 3) (Some ex_d2)).
Definition ex_om := mkLoader 8 (LUser (Ord (-1)) None).
Definition ex_u := mkLoader 9 (LUser Unord (Some ex_d3)).
Definition ex_mixed := [ex_u; ex_o3a; ex_raw; ex_p7; ex_p0; ex_file; ex_o3b; ex_args; ex_om; ex_file2].

Example c15_sequence_mixed_example :
  map lid (sequence ex_mixed) = [5; 1; 3; 4; 8; 6; 7; 9; 0; 2]%nat /\
  contract_ok (map (fun l => mkPart 0 (lclass l)) (sequence ex_mixed)) = true /\
  map lid (filter (fun l => same_class (lclass l) (Prio 0)) ex_mixed) = [5; 1; 3]%nat /\
  map lid (filter (fun l => same_class (lclass l) (Ord 3)) ex_mixed) = [6; 7]%nat.
Proof. vm_compute. repeat split. Qed.

Example c15_sequence_builtin_example :
  Forall (fun l => is_user l = false) [ex_raw; ex_file; ex_args; ex_file2] /\
  sequence [ex_raw; ex_file; ex_args; ex_file2] = [ex_file; ex_file2; ex_raw; ex_args].
Proof. split; [repeat constructor|vm_compute; reflexivity]. Qed.

(* two files with the same key: the file added last wins, whichever way round they are added *)
Example c15_equal_order_last_added_wins_example :
  (match initialize [ex_file; ex_file2] with ROk c => getd ["db"; "port"] c | _ => None end) = Some (CLeaf (AInt 3)) /\
  (match initialize [ex_file2; ex_file] with ROk c => getd ["db"; "port"] c | _ => None end) = Some (CLeaf (AInt 2)).
Proof. vm_compute. split; reflexivity. Qed.

(* histories: a bootstrap raw loader, Initialize, then a file and two user loaders are added, Initialize again:
   the second pass consults file, priority, ordered, raw — not "raw first because it was sorted earlier" *)
Example c15_history_example :
  let steps := [CInit; CAdd [ex_o3a; ex_file]; CAdd [ex_p7]; CInit] in
  map (fun x => match snd x with Some (r, used) => Some (r, map lid used) | None => None end)
      (hist_trace Stored (mkCState [ex_raw] []) steps)
  = [Some (SOk, [0%nat]); None; None; Some (SOk, [1; 4; 6; 0]%nat)] /\
  hist_trace Stored (mkCState [ex_raw] []) steps = hist_trace AsAdded (mkCState [ex_raw] []) steps /\
  loaders_after [ex_raw] steps = [ex_raw; ex_o3a; ex_file; ex_p7].
Proof. vm_compute. repeat split. Qed.

Example c15_reinitialize_example :
  docs_of (sequence [ex_raw]) = Some [ex_d1] /\
  docs_of (sequence ([ex_raw] ++ [ex_file2; ex_file])) = Some [ex_d3; ex_d2; ex_d1] /\
  getd ["db"; "port"] (effective ([ex_d1] ++ [ex_d3; ex_d2; ex_d1])) = Some (CLeaf (AInt 1)).
Proof. vm_compute. repeat split. Qed.

(* a pass that fails half-way keeps what it merged before: unreadable file after a readable one *)
Example c15_partial_pass_example :
  run_partial [] [ex_file; mkLoader 10 (LFile None); ex_raw] = (ex_d2, SErr, [ex_file; mkLoader 10 (LFile None)]) /\
  run_seq [] [ex_file; mkLoader 10 (LFile None); ex_raw] = RErr.
Proof. vm_compute. split; reflexivity. Qed.

Example c15_initialize_example :
  initialize [ex_raw; ex_file; ex_args] =
  ROk (effective [ex_d2; ex_d1; [("db", CMap [("port", CLeaf (AInt 3))])]]).
Proof. vm_compute. reflexivity. Qed.

Example c15_add_monotone_example :
  apply_opt Repaired [ex_args; ex_file] (OAddConfigLoader [ex_raw]) = [ex_args; ex_file; ex_raw] /\
  apply_opt Unrepaired [ex_args; ex_file] (OAddConfigLoader [ex_raw]) = [ex_raw] /\
  configured Repaired ex_args [OSetConfig ex_file; OAddConfigLoader [ex_raw]] = [ex_args; ex_file; ex_raw].
Proof. repeat split. Qed.

Example c15_args_example :
  args_load [(["a"; "b"], CLeaf (AInt 2)); (["a"], CLeaf (AInt 1))] = LoadOk (Some [("a", CLeaf (AInt 1))]) /\
  args_load [(["a"], CLeaf (AInt 1)); (["a"; "b"], CLeaf (AInt 2))] = LoadPanic /\
  args_load [] = LoadOk None.
Proof. repeat split. Qed.

(* prog -x --app.config=db.dsn=user:pw@tcp(h:3306)/db?x=1&y=2 --app.config=db.port=8080 --app.config=db.tags=[a=b,c]
   --app.config=db.name="quoted" --app.config=db.flag *)
Example c15_args_strings_example :
  argv_load (map bytes_of_string
    ["prog"; "-x"; "--app.config=db.dsn=user:pw@tcp(h:3306)/db?x=1&y=2"; "--app.config=db.port=8080";
     "--app.config=db.tags=[a=b,c]"; "--app.config=db.name=""quoted"""; "--app.config=db.flag"]) =
  LoadOk (Some [("db", CMap [("dsn", CLeaf (AStr "user:pw@tcp(h:3306)/db?x=1&y=2")); ("port", CLeaf (AInt 8080));
                             ("tags", CList [CLeaf (AStr "a=b"); CLeaf (AStr "c")]); ("name", CLeaf (AStr "quoted"));
                             ("flag", CLeaf (AStr ""))])]).
Proof. vm_compute. reflexivity. Qed.

Example c15_last_map_merges_example :
  last_supplier ["db"] [ex_d1; ex_d2; ex_d3] (CMap [("port", CLeaf (AInt 3))]) /\
  exists kids, getd ["db"] (effective [ex_d1; ex_d2; ex_d3]) = Some (CMap kids).
Proof.
  split; [|eexists; reflexivity].
  exists [ex_d1; ex_d2], ex_d3, []. split; [reflexivity|]. split; [reflexivity|constructor].
Qed.

(* the hypotheses of the effect half of c15_add_monotone are met by a concrete configuration:
   os.Args loader, then SetConfig(file), then AddConfigLoader(raw) *)
Example c15_add_monotone_effect_example :
  let cur := [ex_args; ex_file] in
  let o := OAddConfigLoader [ex_raw] in
  is_adding o = true /\
  docs_of (sequence (apply_opt Repaired cur o)) = Some [ex_d2; [("db", CMap [("port", CLeaf (AInt 3))])]; ex_d1] /\
  Forall (fun d => wf_doc d = true) [ex_d2; [("db", CMap [("port", CLeaf (AInt 3))])]; ex_d1] /\
  In ex_file cur /\ load ex_file = LoadOk (Some ex_d2) /\ getd ["only2"] ex_d2 = Some (CLeaf (AStr "x")) /\
  getd ["only2"] (effective [ex_d2; [("db", CMap [("port", CLeaf (AInt 3))])]; ex_d1]) = Some (CLeaf (AStr "x")).
Proof.
  cbv zeta. split; [reflexivity|]. split; [vm_compute; reflexivity|]. split; [repeat constructor|].
  split; [right; left; reflexivity|]. repeat split.
Qed.

Example c15_process_wide_example :
  configured_run Repaired ex_args [OSetConfig ex_file] [OAddConfigLoader [ex_raw]] = [ex_args; ex_file; ex_raw] /\
  configured_run Repaired ex_args [OSetConfig ex_file] [OSetConfigLoader [ex_raw]] = [ex_raw].
Proof. split; reflexivity. Qed.
