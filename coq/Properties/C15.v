(* C15 — Configuration sources merge in loader order; adding a source drops nothing.

   Property theorems only. Model: Model/ConfigMerge.v (configure/configure.go, app/options.go,
   configure/binder/viper.go, configure/loader/*.go; viper's mergeMaps and go-kid/properties' buildMap
   as they really behave); lemmas: Proofs/ConfigMergeProofs.v; loader order: Model/Sorter.v (C12).

   All statements quantify over every list of documents (any number of loaders), every key tree
   (nested maps, lists, scalars; overlapping and disjoint keys) and every path. The only standing
   hypothesis is [wf_doc] — a Go map has each key once — which the correspondence re-checks on every
   generated document.

   Status of the three sub-claims on the faithful model:
     * merge order / survival / nothing dropped / loader sequence: proved without restriction;
     * "the last one wins" for a leaf: proved under [shape_compatible]; without it the statement is
       false of viper ([c15_last_wins_conflict_refuted], known finding KF-C15b);
     * "options that add a source never discard earlier sources": proved for the repaired
       AddConfigLoader ([c15_add_monotone]); false of the unrepaired one
       ([c15_add_monotone_refuted], defect D-C15a, fixes/D-C15a.diff). *)
From Coq Require Import List String ZArith Bool Permutation.
From IocVerif Require Import Model.Sorter Model.ConfigMerge Proofs.ConfigMergeProofs.
Import ListNotations.
Local Open Scope string_scope.
Local Open Scope list_scope.

(* The effective configuration is the deep merge of all loader outputs in sequence order: what it
   holds at ANY path is the left-to-right merge of what the documents hold at that path. *)
Theorem c15_deep_merge : forall docs p,
  Forall (fun d => wf_doc d = true) docs -> p <> [] ->
  getd p (effective docs) = fold_left omerge (map (getd p) docs) None.
Proof. exact deep_merge. Qed.

(* For a key supplied by several loaders the last one wins (leaf values), provided no path is a map
   in an earlier source and a non-map in a later one. *)
Theorem c15_last_wins : forall docs p v,
  Forall (fun d => wf_doc d = true) docs -> shape_compatible docs -> p <> [] ->
  last_supplier p docs v -> is_map v = false ->
  getd p (effective docs) = Some v.
Proof. exact last_wins. Qed.

(* the same with the hypothesis only at the path asked for (weaker hypothesis, stronger theorem);
   [compatible_atb] is the boolean the correspondence evaluates *)
Theorem c15_last_wins_at : forall docs p v,
  Forall (fun d => wf_doc d = true) docs -> p <> [] -> compatible_atb p docs = true ->
  last_supplier p docs v -> is_map v = false ->
  getd p (effective docs) = Some v.
Proof.
  intros docs p v Hwf Hp Hc. apply last_wins_at; [exact Hwf|exact Hp|].
  apply compatible_atb_iff, Hc.
Qed.

(* when the last supplier holds a map the result is a map (whose entries obey the same theorems at
   the longer paths): maps are merged, never replaced by an earlier leaf *)
Theorem c15_last_map_merges : forall docs p v,
  Forall (fun d => wf_doc d = true) docs -> p <> [] ->
  last_supplier p docs v -> is_map v = true ->
  exists kids, getd p (effective docs) = Some (CMap kids).
Proof. exact last_map_stays_map. Qed.

(* Keys supplied by only one loader stay visible, with that loader's value. No shape hypothesis. *)
Theorem c15_survives : forall docs p v,
  Forall (fun d => wf_doc d = true) docs -> p <> [] ->
  only_supplier p docs v -> getd p (effective docs) = Some v.
Proof. exact survives. Qed.

(* Nothing is dropped: every path any document supplies is present in the effective configuration. *)
Theorem c15_nothing_dropped : forall docs p d v,
  Forall (fun d => wf_doc d = true) docs -> p <> [] ->
  In d docs -> getd p d = Some v -> exists w, getd p (effective docs) = Some w.
Proof. exact nothing_dropped. Qed.

(* The loader sequence computed by SortOrderedComponents (Model/Sorter.v): the priority-ordered file
   loaders first (all Order 0: in an order the contract leaves open), then every other loader in
   the order it was added; every loader exactly once. *)
Theorem c15_sequence : forall ls,
  (exists fs, Permutation fs (filter is_file ls) /\
              sequence ls = fs ++ filter (fun l => negb (is_file l)) ls)
  /\ Permutation ls (sequence ls).
Proof. intros ls. split; [apply sequence_shape|apply sequence_perm]. Qed.

(* Initialize = merge of the loaded documents in that sequence (empty outputs skipped) *)
Theorem c15_initialize : forall ls ds,
  docs_of (sequence ls) = Some ds -> initialize ls = ROk (effective ds).
Proof. exact initialize_docs. Qed.

(* Options that add a source (SetConfig, repaired AddConfigLoader) keep every earlier loader, in
   place, and therefore every path an earlier source supplies stays visible after the start. *)
Theorem c15_add_monotone : forall cur o,
  is_adding o = true ->
  (exists added, apply_opt Repaired cur o = cur ++ added) /\
  (forall ds p l d v,
      docs_of (sequence (apply_opt Repaired cur o)) = Some ds ->
      Forall (fun d => wf_doc d = true) ds -> p <> [] ->
      In l cur -> load l = LoadOk (Some d) -> getd p d = Some v ->
      initialize (apply_opt Repaired cur o) = ROk (effective ds) /\
      exists w, getd p (effective ds) = Some w).
Proof.
  intros cur o Ha. split; [apply add_monotone, Ha|].
  intros ds p l d v. apply add_keeps_paths. exact Ha.
Qed.

(* D-C15a: the unrepaired AddConfigLoader (SetLoaders) discards an earlier loader *)
Theorem c15_add_monotone_refuted :
  exists cur o l, is_adding o = true /\ In l cur /\ ~ In l (apply_opt Unrepaired cur o).
Proof. exact add_monotone_unrepaired_refuted. Qed.

(* KF-C15b: without shape compatibility last-wins is false of viper's merge:
   a: {b: 1}  then  a: 5   leaves  a = {b: 1}. *)
Theorem c15_last_wins_conflict_refuted :
  exists docs p v,
    Forall (fun d => wf_doc d = true) docs /\ p <> [] /\
    last_supplier p docs v /\ is_map v = false /\
    getd p (effective docs) <> Some v.
Proof.
  exists [[("a", CMap [("b", CLeaf (AInt 1))])]; [("a", CLeaf (AInt 5))]], ["a"], (CLeaf (AInt 5)).
  split; [repeat constructor|]. split; [discriminate|]. split.
  - exists [[("a", CMap [("b", CLeaf (AInt 1))])]], [("a", CLeaf (AInt 5))], [].
    split; [reflexivity|]. split; [reflexivity|constructor].
  - split; [reflexivity|]. vm_compute. discriminate.
Qed.

(* KF-C15c: inside one ArgsLoader a scalar "k=a" followed by a dotted "k.k2...=b" panics
   (go-kid/properties buildMap), whatever precedes or follows; the opposite order is fine. *)
Theorem c15_args_scalar_then_dotted_panics : forall m k a k2 r b rest,
  args_fold (([k], a) :: (k :: k2 :: r, b) :: rest) m = None.
Proof. exact args_scalar_then_dotted_panics. Qed.

(* ---- non-vacuity ---------------------------------------------------------------------- *)

Definition ex_d1 : doc := [("db", CMap [("host", CLeaf (AStr "h1")); ("port", CLeaf (AInt 1))]); ("only1", CLeaf (ABool true))].
Definition ex_d2 : doc := [("db", CMap [("port", CLeaf (AInt 2)); ("opts", CList [CLeaf (AInt 1)])]); ("only2", CLeaf (AStr "x"))].
Definition ex_d3 : doc := [("db", CMap [("port", CLeaf (AInt 3))])].

Example c15_deep_merge_example :
  getd ["db"] (effective [ex_d1; ex_d2; ex_d3]) =
  Some (CMap [("host", CLeaf (AStr "h1")); ("port", CLeaf (AInt 3)); ("opts", CList [CLeaf (AInt 1)])]).
Proof. vm_compute. reflexivity. Qed.

Example c15_last_wins_example :
  Forall (fun d => wf_doc d = true) [ex_d1; ex_d2; ex_d3] /\
  compatible_atb ["db"; "port"] [ex_d1; ex_d2; ex_d3] = true /\
  last_supplier ["db"; "port"] [ex_d1; ex_d2; ex_d3] (CLeaf (AInt 3)) /\
  getd ["db"; "port"] (effective [ex_d1; ex_d2; ex_d3]) = Some (CLeaf (AInt 3)).
Proof.
  split; [repeat constructor|]. split; [reflexivity|]. split; [|reflexivity].
  exists [ex_d1; ex_d2], ex_d3, []. split; [reflexivity|]. split; [reflexivity|constructor].
Qed.

Example c15_survives_example :
  only_supplier ["db"; "host"] [ex_d1; ex_d2; ex_d3] (CLeaf (AStr "h1")) /\
  getd ["db"; "host"] (effective [ex_d1; ex_d2; ex_d3]) = Some (CLeaf (AStr "h1")).
Proof.
  split; [|reflexivity]. exists [], ex_d1, [ex_d2; ex_d3].
  split; [reflexivity|]. split; [reflexivity|]. split; repeat constructor.
Qed.

Example c15_nothing_dropped_example :
  getd ["only2"] (effective [ex_d1; ex_d2; ex_d3]) = Some (CLeaf (AStr "x")).
Proof. reflexivity. Qed.

Definition ex_raw := mkLoader 0 (LRaw (Some ex_d1)).
Definition ex_file := mkLoader 1 (LFile (Some (Some ex_d2))).
Definition ex_args := mkLoader 2 (LArgs [(["db"; "port"], AInt 3)]).
Definition ex_file2 := mkLoader 3 (LFile (Some (Some ex_d3))).

Example c15_sequence_example :
  map lid (sequence [ex_raw; ex_file; ex_args; ex_file2]) = [3; 1; 0; 2]%nat \/
  map lid (sequence [ex_raw; ex_file; ex_args; ex_file2]) = [1; 3; 0; 2]%nat.
Proof. right. vm_compute. reflexivity. Qed.

Example c15_initialize_example :
  initialize [ex_raw; ex_file; ex_args] =
  ROk (effective [ex_d2; ex_d1; [("db", CMap [("port", CLeaf (AInt 3))])]]).
Proof. vm_compute. reflexivity. Qed.

Example c15_add_monotone_example :
  apply_opt Repaired [ex_args; ex_file] (OAddConfigLoader [ex_raw]) = [ex_args; ex_file; ex_raw] /\
  apply_opt Unrepaired [ex_args; ex_file] (OAddConfigLoader [ex_raw]) = [ex_raw] /\
  configured Repaired ex_args [OSetConfig ex_file; OAddConfigLoader [ex_raw]] = [ex_args; ex_file; ex_raw].
Proof. repeat split. Qed.

Example c15_args_example :
  args_load [(["a"; "b"], AInt 2); (["a"], AInt 1)] = LoadOk (Some [("a", CLeaf (AInt 1))]) /\
  args_load [(["a"], AInt 1); (["a"; "b"], AInt 2)] = LoadPanic /\
  args_load [] = LoadOk None.
Proof. repeat split. Qed.

Example c15_last_map_merges_example :
  last_supplier ["db"] [ex_d1; ex_d2; ex_d3] (CMap [("port", CLeaf (AInt 3))]) /\
  exists kids, getd ["db"] (effective [ex_d1; ex_d2; ex_d3]) = Some (CMap kids).
Proof.
  split; [|eexists; reflexivity].
  exists [ex_d1; ex_d2], ex_d3, []. split; [reflexivity|]. split; [reflexivity|constructor].
Qed.

(* the hypotheses of the effect half of c15_add_monotone are met by a concrete configuration:
   os.Args loader, then SetConfig(file), then AddConfigLoader(raw) *)
Example c15_add_monotone_effect_example :
  let cur := [ex_args; ex_file] in
  let o := OAddConfigLoader [ex_raw] in
  is_adding o = true /\
  docs_of (sequence (apply_opt Repaired cur o)) = Some [ex_d2; [("db", CMap [("port", CLeaf (AInt 3))])]; ex_d1] /\
  Forall (fun d => wf_doc d = true) [ex_d2; [("db", CMap [("port", CLeaf (AInt 3))])]; ex_d1] /\
  In ex_file cur /\ load ex_file = LoadOk (Some ex_d2) /\ getd ["only2"] ex_d2 = Some (CLeaf (AStr "x")) /\
  getd ["only2"] (effective [ex_d2; [("db", CMap [("port", CLeaf (AInt 3))])]; ex_d1]) = Some (CLeaf (AStr "x")).
Proof.
  cbv zeta. split; [reflexivity|]. split; [vm_compute; reflexivity|]. split; [repeat constructor|].
  split; [right; left; reflexivity|]. repeat split.
Qed.
