(* Lemmas about Model/ConfigStore.v (the store behind Configure.Get / Configure.Set): what a read returns
   after a Set - on the same key in any letter case, below it, above it, beside it - and that a history of
   resolutions, reads and Sets evaluates every resolution against the store as the Sets before it left it. *)
From Coq Require Import List NArith ZArith Bool Lia Arith.
From IocVerif Require Import Model.Strconv Model.Placeholder Model.ConfigStore Proofs.StrconvProofs.
Import ListNotations.

(* ---- association lists ------------------------------------------------------------------------------ *)

Lemma map_get_set_same : forall k v m, map_get k (map_set k v m) = Some v.
Proof.
  intros k v m. induction m as [|[k' v'] r IH]; cbn [map_set map_get].
  - now rewrite beqb_refl.
  - destruct (beqb k k') eqn:E; cbn [map_get]; [now rewrite beqb_refl|]. now rewrite E.
Qed.

Lemma beqb_sym : forall a b, beqb a b = beqb b a.
Proof.
  intros a b. destruct (beqb a b) eqn:E1, (beqb b a) eqn:E2; try reflexivity.
  - apply beqb_eq in E1. subst. now rewrite beqb_refl in E2.
  - apply beqb_eq in E2. subst. now rewrite beqb_refl in E1.
Qed.

Lemma map_get_set_other : forall k k2 v m, beqb k k2 = false -> map_get k2 (map_set k v m) = map_get k2 m.
Proof.
  intros k k2 v m H. induction m as [|[k' v'] r IH]; cbn [map_set map_get].
  - rewrite beqb_sym, H. reflexivity.
  - destruct (beqb k k') eqn:E; cbn [map_get].
    + apply beqb_eq in E. subst k'. rewrite (beqb_sym k2 k), H. reflexivity.
    + destruct (beqb k2 k'); [reflexivity|exact IH].
Qed.

(* ---- keys ------------------------------------------------------------------------------------------- *)

Lemma lower_ascii_idem : forall c, lower_ascii (lower_ascii c) = lower_ascii c.
Proof.
  intros c. unfold lower_ascii. destruct (N.leb 65 c && N.leb c 90) eqn:E; [|now rewrite E].
  apply andb_true_iff in E. destruct E as [E1 E2]. apply N.leb_le in E1. apply N.leb_le in E2.
  replace (N.leb (c + 32) 90) with false; [now rewrite andb_false_r|].
  symmetry. apply N.leb_gt. lia.
Qed.

Lemma lower_idem : forall s, lower (lower s) = lower s.
Proof. intros s. unfold lower. rewrite map_map. apply map_ext. exact lower_ascii_idem. Qed.

(* Get and Set fold the letter case of the key *)
Lemma key_path_lower : forall k, key_path (lower k) = key_path k.
Proof. intros k. unfold key_path. now rewrite lower_idem. Qed.

Lemma key_path_same_lower : forall k k', lower k = lower k' -> key_path k = key_path k'.
Proof. intros k k' H. unfold key_path. now rewrite H. Qed.

Lemma split_dot_nonempty : forall s, split_dot s <> [].
Proof.
  induction s as [|d r IH]; cbn [split_dot]; [discriminate|].
  destruct (N.eqb b_dot d); [discriminate|]. destruct (split_dot r); discriminate.
Qed.

Lemma key_path_nonempty : forall k, key_path k <> [].
Proof. intros k. apply split_dot_nonempty. Qed.

(* split(a ++ "." ++ c) = split(a) ++ split(c) *)
Lemma split_dot_app : forall a c, split_dot (a ++ b_dot :: c) = split_dot a ++ split_dot c.
Proof.
  induction a as [|d r IH]; intros c.
  - cbn [app split_dot]. rewrite N.eqb_refl. reflexivity.
  - cbn [app split_dot]. destruct (N.eqb b_dot d); [now rewrite IH|].
    rewrite IH. pose proof (split_dot_nonempty r) as Hr. destruct (split_dot r) as [|h t]; [contradiction|]. reflexivity.
Qed.

Lemma key_path_app : forall a c, key_path (a ++ b_dot :: c) = key_path a ++ key_path c.
Proof.
  intros a c. unfold key_path, lower. rewrite map_app. cbn [map].
  change (lower_ascii b_dot) with b_dot. apply split_dot_app.
Qed.

(* ---- searchMap --------------------------------------------------------------------------------------- *)

Lemma search_map_null : forall p, search_map p VNull = VNull.
Proof. destruct p; reflexivity. Qed.

Lemma search_map_app : forall p q v, search_map (p ++ q) v = search_map q (search_map p v).
Proof.
  induction p as [|k r IH]; intros q v; [reflexivity|]. cbn [app search_map].
  destruct v; try (now rewrite search_map_null).
  destruct (map_get k kvs); [apply IH|now rewrite search_map_null].
Qed.

Lemma search_map_cons_set : forall k p x m, search_map (k :: p) (VMap (map_set k x m)) = search_map p x.
Proof. intros k p x m. cbn [search_map]. now rewrite map_get_set_same. Qed.

Definition sub_of (k : bytes) (m : list (bytes * cval)) : list (bytes * cval) :=
  match map_get k m with Some (VMap kvs) => kvs | _ => [] end.

Lemma deep_set_cons : forall k r v m, r <> [] -> deep_set (k :: r) v m = map_set k (VMap (deep_set r v (sub_of k m))) m.
Proof. intros k r v m Hr. destruct r; [contradiction|reflexivity]. Qed.

(* what Set wrote is found at the path it was written to *)
Lemma search_map_deep_set_same : forall p v m, p <> [] -> search_map p (VMap (deep_set p v m)) = v.
Proof.
  induction p as [|k r IH]; intros v m Hp; [contradiction|].
  destruct r as [|k2 r'].
  - cbn [deep_set]. now rewrite search_map_cons_set.
  - rewrite deep_set_cons by discriminate. rewrite search_map_cons_set. apply IH. discriminate.
Qed.

(* the map a path holds in a register ([] when there is none or something else is there) *)
Definition sub_at (p : list bytes) (m : list (bytes * cval)) : list (bytes * cval) :=
  match search_map p (VMap m) with VMap kvs => kvs | _ => [] end.

Lemma sub_at_nil : forall p, p <> [] -> sub_at p [] = [].
Proof. intros p Hp. destruct p; [contradiction|reflexivity]. Qed.

Lemma sub_at_cons : forall k p m, p <> [] -> sub_at (k :: p) m = sub_at p (sub_of k m).
Proof.
  intros k p m Hp. unfold sub_at, sub_of. cbn [search_map].
  destruct (map_get k m) as [x|].
  - destruct x; try reflexivity; destruct p; try contradiction; reflexivity.
  - destruct p; [contradiction|reflexivity].
Qed.

(* above the path that was written: the (possibly fresh) map on the way down, with the new entry in it *)
Lemma search_map_deep_set_parent : forall p c v m, p <> [] -> c <> [] ->
  search_map p (VMap (deep_set (p ++ c) v m)) = VMap (deep_set c v (sub_at p m)).
Proof.
  induction p as [|k r IH]; intros c v m Hp Hc; [contradiction|].
  assert (Hrc : r ++ c <> []) by (destruct r; [exact Hc|discriminate]).
  change ((k :: r) ++ c) with (k :: (r ++ c)).
  rewrite deep_set_cons by exact Hrc. rewrite search_map_cons_set.
  destruct r as [|k2 r'].
  - cbn [app search_map]. unfold sub_at, sub_of. cbn [search_map].
    destruct (map_get k m) as [[]|]; reflexivity.
  - rewrite (IH c v (sub_of k m) ltac:(discriminate) Hc). now rewrite (sub_at_cons k (k2 :: r') m) by discriminate.
Qed.

(* beside it: a path whose first segment differs is not touched *)
Lemma deep_set_head : forall k r v m, exists x, deep_set (k :: r) v m = map_set k x m.
Proof. intros k r v m. destruct r; cbn [deep_set]; eexists; reflexivity. Qed.

Lemma search_map_deep_set_other : forall k r v m k2 q, beqb k k2 = false ->
  search_map (k2 :: q) (VMap (deep_set (k :: r) v m)) = search_map (k2 :: q) (VMap m).
Proof.
  intros k r v m k2 q H. destruct (deep_set_head k r v m) as [x ->].
  cbn [search_map]. now rewrite (map_get_set_other k k2 x m H).
Qed.

Lemma shadowed_deep_set_other : forall k r v m k2 q, beqb k k2 = false ->
  shadowed (k2 :: q) (VMap (deep_set (k :: r) v m)) = shadowed (k2 :: q) (VMap m).
Proof.
  intros k r v m k2 q H. destruct (deep_set_head k r v m) as [x ->].
  destruct q as [|q1 q']; [reflexivity|]. cbn [shadowed]. now rewrite (map_get_set_other k k2 x m H).
Qed.

(* ---- Get after Set ------------------------------------------------------------------------------------ *)

Lemma not_null_match : forall (x : cval) (d : cval), x <> VNull -> match x with VNull => d | v => v end = x.
Proof. intros x d H. destruct x; try reflexivity. contradiction. Qed.

(* the same key, in any spelling of its letter case: the value that was set (maps with lower-case keys) *)
Lemma vget_vset_same : forall s k k' v,
  lower k = lower k' -> lower_keys v <> VNull -> vget (vset s k v) k' = lower_keys v.
Proof.
  intros s k k' v Hk Hv. unfold vget, vset. cbn [st_override st_config].
  rewrite <- (key_path_same_lower k k' Hk).
  rewrite (search_map_deep_set_same (key_path k) (lower_keys v) (st_override s) (key_path_nonempty k)).
  destruct (lower_keys v); try reflexivity; contradiction.
Qed.

(* below it: Set(k, {..}) then Get(k.c) reads inside the map that was set *)
Lemma vget_vset_child : forall s k c v,
  search_map (key_path c) (lower_keys v) <> VNull ->
  vget (vset s k v) (k ++ b_dot :: c) = search_map (key_path c) (lower_keys v).
Proof.
  intros s k c v Hv. unfold vget, vset. cbn [st_override st_config].
  rewrite key_path_app, search_map_app.
  rewrite (search_map_deep_set_same (key_path k) (lower_keys v) (st_override s) (key_path_nonempty k)).
  destruct (search_map (key_path c) (lower_keys v)); try reflexivity; contradiction.
Qed.

(* above it: Set(p.c, v) then Get(p) returns the override's map at p, which now holds c *)
Lemma vget_vset_parent : forall s p c v,
  vget (vset s (p ++ b_dot :: c) v) p =
  VMap (deep_set (key_path c) (lower_keys v) (sub_at (key_path p) (st_override s))).
Proof.
  intros s p c v. unfold vget, vset. cbn [st_override st_config].
  rewrite key_path_app.
  rewrite (search_map_deep_set_parent (key_path p) (key_path c) (lower_keys v) (st_override s)
             (key_path_nonempty p) (key_path_nonempty c)).
  reflexivity.
Qed.

(* beside it: keys whose first segments differ do not see the Set *)
Lemma vget_vset_other : forall s k v k',
  beqb (hd [] (key_path k)) (hd [] (key_path k')) = false -> vget (vset s k v) k' = vget s k'.
Proof.
  intros s k v k' H. unfold vget, vset. cbn [st_override st_config].
  pose proof (key_path_nonempty k) as H1. pose proof (key_path_nonempty k') as H2.
  destruct (key_path k) as [|a r]; [contradiction|]. destruct (key_path k') as [|b q]; [contradiction|].
  cbn [hd] in H. rewrite (search_map_deep_set_other a r _ _ b q H), (shadowed_deep_set_other a r _ _ b q H).
  reflexivity.
Qed.

(* ---- histories ------------------------------------------------------------------------------------------ *)

Lemma hstate_step : forall fx budget fuel s st, fst (hstep_run fx budget fuel s st) = hstate s [st].
Proof. intros fx budget fuel s st. destruct st; reflexivity. Qed.

(* the i-th result of a history is the i-th step evaluated on the store that the Sets among the first i steps
   produced - whatever was resolved or read before *)
Lemma hrun_nth : forall fx budget fuel steps s i st,
  nth_error steps i = Some st ->
  nth_error (hrun fx budget fuel s steps) i = Some (snd (hstep_run fx budget fuel (hstate s (firstn i steps)) st)).
Proof.
  intros fx budget fuel. induction steps as [|st0 r IH]; intros s i st H.
  - destruct i; discriminate.
  - destruct i as [|i].
    + cbn [nth_error] in H. injection H as ->. cbn [hrun firstn hstate nth_error].
      destruct (hstep_run fx budget fuel s st). reflexivity.
    + cbn [nth_error] in H. cbn [hrun firstn].
      destruct (hstep_run fx budget fuel s st0) as [s' o] eqn:E. cbn [nth_error].
      rewrite (IH s' i st H). f_equal. f_equal. f_equal.
      assert (Hs : s' = hstate s [st0]) by (rewrite <- (hstate_step fx budget fuel s st0), E; reflexivity).
      rewrite Hs. destruct st0; reflexivity.
Qed.

Lemma hrun_resolve : forall fx budget fuel steps s i t,
  nth_error steps i = Some (HResolve t) ->
  nth_error (hrun fx budget fuel s steps) i =
  Some (RResolve (quote_stage fx (vget (hstate s (firstn i steps))) budget fuel t)).
Proof. intros. now rewrite (hrun_nth fx budget fuel steps s i (HResolve t)). Qed.

Lemma hrun_get : forall fx budget fuel steps s i k,
  nth_error steps i = Some (HGet k) ->
  nth_error (hrun fx budget fuel s steps) i = Some (RGet (vget (hstate s (firstn i steps)) k)).
Proof. intros. now rewrite (hrun_nth fx budget fuel steps s i (HGet k)). Qed.

(* resolutions and reads do not change the store *)
Lemma hstate_app : forall a b s, hstate s (a ++ b) = hstate (hstate s a) b.
Proof. induction a as [|st r IH]; intros b s; [reflexivity|]. destruct st; cbn [app hstate]; apply IH. Qed.

Fixpoint sets_only (steps : list hstep) : list hstep :=
  match steps with
  | [] => []
  | HSet k v :: r => HSet k v :: sets_only r
  | _ :: r => sets_only r
  end.

Lemma hstate_sets_only : forall steps s, hstate s (sets_only steps) = hstate s steps.
Proof. induction steps as [|st r IH]; intros s; [reflexivity|]. destruct st; cbn [sets_only hstate]; apply IH. Qed.
