(* Termination of the mutual recursion doGetComponent -> createComponent -> populateComponent
   (C02a, and the no-fuel half of C09): with fuel greater than the number of defined names that have
   no cache entry, [do_get] never runs out of fuel; along successful calls cache entries only grow.
   Holds for every variant (repaired or not), every scenario, every state. *)
From Coq Require Import List Arith Bool Lia.
From IocVerif Require Import Model.Registry Model.Resolve Model.Factory Model.App Proofs.FactoryBasics.
Import ListNotations.

Section Term.
  Variable vt : variant.
  Variable s : scenario.
  Let pop := s_pop s.

  Definition rec_ok (f : nat) (rec : fstate -> name -> res (fstate * ver)) : Prop :=
    forall st d, ucount pop (reg st) < f ->
      nofuel (rec st d) /\ forall st' v, rec st d = Ok (st', v) -> mono (reg st) (reg st').

  Variable f : nat.
  Variable rec : fstate -> name -> res (fstate * ver).
  Hypothesis Hrec : rec_ok f rec.

  Lemma get_all_ok : forall cands st, ucount pop (reg st) < f ->
    nofuel (get_all rec st cands) /\
    forall st' vs, get_all rec st cands = Ok (st', vs) -> mono (reg st) (reg st').
  Proof.
    induction cands as [|[d|] r IH]; intros st Hu; cbn [get_all].
    - split; [exact I|]. intros st' vs H. inversion H. apply mono_refl.
    - destruct (Hrec st d Hu) as [Hnf Hm].
      destruct (rec st d) as [[st1 v]|k st1] eqn:E.
      + specialize (Hm st1 v eq_refl).
        assert (Hu1 : ucount pop (reg st1) < f) by (pose proof (ucount_mono pop _ _ Hm); lia).
        destruct (IH st1 Hu1) as [Hnf2 Hm2].
        destruct (get_all rec st1 r) as [[st2 vs]|k2 st2] eqn:E2.
        * split; [exact I|]. intros st' vs' H. inversion H; subst.
          eapply mono_trans; [exact Hm|apply (Hm2 _ _ eq_refl)].
        * split; [exact Hnf2|]. intros st' vs' H; discriminate.
      + split; [exact Hnf|]. intros st' vs' H; discriminate.
    - split; [exact I|]. intros st' vs H; discriminate.
  Qed.

  Lemma inject_points_ok h : forall ps k inj st, ucount pop (reg st) < f ->
    nofuel (inject_points vt s rec h k ps inj st) /\
    forall st', inject_points vt s rec h k ps inj st = Ok st' -> mono (reg st) (reg st').
  Proof.
    induction ps as [|p ps' IH]; intros k inj st Hu; cbn [inject_points].
    - split; [exact I|]. intros st' H; inversion H; apply mono_refl.
    - destruct inj as [|i inj'].
      + split; [exact I|]. intros st' H; inversion H; apply mono_refl.
      + destruct i as [|c0 cr].
        * apply IH. exact Hu.
        * destruct (get_all_ok (c0 :: cr) st Hu) as [Hnf Hm].
          destruct (get_all rec st (c0 :: cr)) as [[st1 vs]|k1 st1] eqn:E.
          -- specialize (Hm st1 vs eq_refl).
             pose proof (inject_nofuel vt s st1 h k p vs) as Hin.
             destruct (inject vt s st1 h k p vs) as [st2|k2 st2] eqn:E2.
             ++ pose proof (inject_reg vt s st1 h k p vs st2 E2) as Hr2.
                assert (Hu2 : ucount pop (reg st2) < f)
                  by (rewrite Hr2; pose proof (ucount_mono pop _ _ Hm); lia).
                destruct (IH (S k) inj' st2 Hu2) as [Hnf3 Hm3]. split; [exact Hnf3|].
                intros st' H. eapply mono_trans; [exact Hm|]. rewrite <- Hr2. apply Hm3. exact H.
             ++ split; [exact Hin|]. intros st' H; discriminate.
          -- split; [exact Hnf|]. intros st' H; discriminate.
  Qed.

  Lemma populate_ok st n c : ucount pop (reg st) < f ->
    nofuel (populate vt s rec st n c) /\
    forall st', populate vt s rec st n c = Ok st' -> mono (reg st) (reg st').
  Proof.
    intros Hu. unfold populate.
    pose proof (pipeline_quiet vt s n c (active st) st (cur_injs st n c)) as Hq.
    destruct (pipeline vt s n c (active st) st (cur_injs st n c)) as [[st1 inj]|k st1] eqn:E.
    - cbn [quiet2] in Hq.
      assert (Hu1 : ucount pop (reg (set_injs st1 n inj)) < f) by (cbn [reg set_injs]; rewrite Hq; exact Hu).
      destruct (inject_points_ok n (c_points c) 0 inj (set_injs st1 n inj) Hu1) as [Hnf Hm].
      split; [exact Hnf|]. intros st' H. specialize (Hm st' H). cbn [reg set_injs] in Hm. rewrite Hq in Hm. exact Hm.
    - split; [|intros st' H; discriminate]. destruct k as [e| |]; [exact I|exact I|exact Hq].
  Qed.

  Lemma do_create_ok st n c : ucount pop (reg (set_reg st (add_factory (reg st) n n))) < f ->
    nofuel (do_create vt s rec st n c) /\
    forall st' v, do_create vt s rec st n c = Ok (st', v) -> mono (reg st) (reg st').
  Proof.
    intros Hu. unfold do_create.
    set (st0 := set_reg st (add_factory (reg st) n n)) in *.
    destruct (populate_ok st0 n c Hu) as [Hnf Hm].
    destruct (populate vt s rec st0 n c) as [st1|k1 st1] eqn:E1; [|split; [exact Hnf|intros ? ? H; discriminate]].
    specialize (Hm st1 eq_refl).
    pose proof (initialize_quiet s st1 n c) as Hq.
    destruct (initialize s st1 n c) as [[st2 w]|k2 st2] eqn:E2.
    - cbn [quiet2] in Hq.
      pose proof (get_singleton_spec s st2 n false) as Hg.
      destruct (get_singleton s st2 n false) as [[st3 ov]|k3 st3] eqn:E3.
      + assert (Hmono : mono (reg st) (reg st2)).
        { rewrite Hq. eapply mono_trans; [|exact Hm]. subst st0. cbn [reg set_reg]. apply mono_add_factory. }
        destruct ov as [e|].
        * destruct w as [v|].
          -- destruct (stale_dependents vt st2 n _); split; try exact I; intros st' v' H; inversion H; subst; exact Hmono.
          -- split; [exact I|]. intros st' v' H; inversion H; subst; exact Hmono.
        * split; [exact I|]. intros st' v' H; inversion H; subst; exact Hmono.
      + split; [|intros ? ? H; discriminate]. destruct k3 as [e| |]; [exact I|exact I|exact Hg].
    - split; [|intros ? ? H; discriminate]. destruct k2 as [e| |]; [exact I|exact I|exact Hq].
  Qed.

  Lemma body_ok : forall st n, ucount pop (reg st) < S f ->
    nofuel (body vt s rec st n) /\ forall st' v, body vt s rec st n = Ok (st', v) -> mono (reg st) (reg st').
  Proof.
    intros st n Hu. unfold body.
    pose proof (get_singleton_spec s st n true) as Hg.
    destruct (get_singleton s st n true) as [[st1 ov]|k st1] eqn:E.
    - destruct Hg as [Hm1 [Hc1 Hov]]. destruct ov as [v|].
      + split; [exact I|]. intros st' v' H; inversion H; subst; exact Hm1.
      + destruct Hov as [Hr1 Hmiss]. pose proof (get_lookup_miss_uncached _ _ Hmiss) as Hunc.
        unfold begin_create. destruct (alookup n (L1 (reg st1))) as [v|] eqn:EL1.
        * split; [exact I|]. intros st' v' H; inversion H; subst; exact Hm1.
        * set (r1 := mkR (L1 (reg st1)) (L2 (reg st1)) (L3 (reg st1)) (set_add n (creating (reg st1)))).
          unfold create. cbn [scanned set_reg].
          destruct (scanned st1); [|split; [exact I|intros ? ? H; discriminate]].
          destruct (get_comp (s_pop s) n) as [c|] eqn:Ec; [|split; [exact I|intros ? ? H; discriminate]].
          assert (Hlt : n < length pop) by (eapply get_comp_lt; exact Ec).
          assert (Hcached_eq : forall m, cached r1 m = cached (reg st1) m) by (intros m; reflexivity).
          assert (Hu0 : ucount pop (reg (set_reg (set_reg st1 r1) (add_factory (reg (set_reg st1 r1)) n n))) < f).
          { cbn [reg set_reg].
            assert (Hs : ucount pop (add_factory r1 n n) < ucount pop (reg st1)).
            { apply (ucount_strict pop (reg st1) (add_factory r1 n n) n).
              - intros m Hm. apply mono_add_factory. rewrite Hcached_eq. exact Hm.
              - exact Hlt.
              - rewrite Hr1. exact Hunc.
              - apply cached_add_factory. }
            rewrite Hr1 in Hs. lia. }
          destruct (do_create_ok (set_reg st1 r1) n c Hu0) as [Hnf Hm].
          destruct (do_create vt s rec (set_reg st1 r1) n c) as [[st2 v]|k2 st2] eqn:E2.
          -- split; [exact I|]. intros st' v' H; inversion H; subst. cbn [reg set_reg].
             eapply mono_trans; [|apply mono_end_create_ok].
             specialize (Hm st2 v' eq_refl). cbn [reg set_reg] in Hm.
             intros m Hc. apply Hm. rewrite Hcached_eq. rewrite Hr1. exact Hc.
          -- split; [|intros ? ? H; destruct k2 as [e| |]; discriminate].
             destruct k2 as [e| |]; [exact I|exact I|exact Hnf].
    - split; [|intros ? ? H; discriminate]. destruct k as [e| |]; [exact I|exact I|exact Hg].
  Qed.
End Term.

Theorem do_get_terminates vt s : forall fuel, rec_ok s fuel (do_get vt s fuel).
Proof.
  induction fuel as [|f IH]; intros st d Hu; [lia|].
  cbn [do_get]. apply (body_ok vt s f (do_get vt s f) IH). exact Hu.
Qed.

Lemma filter_len_le {A} (g : A -> bool) l : length (filter g l) <= length l.
Proof. induction l as [|a r IH]; cbn [filter length]; [lia|]. destruct (g a); cbn [length]; lia. Qed.

Lemma ucount_le_pop pop r : ucount pop r <= length pop.
Proof.
  unfold ucount. etransitivity; [apply filter_len_le|]. unfold names_of. rewrite seq_length. lia.
Qed.

(* with the fuel App.v uses, no call ever runs out of fuel, from any state *)
Theorem do_get_fuel_of vt s st n : nofuel (do_get vt s (fuel_of s) st n).
Proof.
  apply (do_get_terminates vt s (fuel_of s) st n). unfold fuel_of.
  pose proof (ucount_le_pop (s_pop s) (reg st)). lia.
Qed.

Lemma prepare_loop_nofuel vt s ps : forall st, nofuel (prepare_loop vt s ps st).
Proof.
  induction ps as [|p r IH]; intros st; cbn [prepare_loop]; [exact I|].
  destruct (is_lazy (s_pop s) p); [apply IH|].
  pose proof (do_get_fuel_of vt s st p) as H.
  destruct (do_get vt s (fuel_of s) st p) as [[st1 v]|k st1]; [apply IH|exact H].
Qed.

Lemma get_each_nofuel vt s ns : forall st, nofuel (get_each vt s ns st).
Proof.
  induction ns as [|n r IH]; intros st; cbn [get_each]; [exact I|].
  pose proof (do_get_fuel_of vt s st n) as H.
  destruct (do_get vt s (fuel_of s) st n) as [[st1 v]|k st1]; [apply IH|exact H].
Qed.

Lemma run_each_nofuel s ns : forall st, nofuel (run_each s ns st).
Proof.
  induction ns as [|n r IH]; intros st; cbn [run_each]; [exact I|].
  destruct (runner_fails s n); [exact I|apply IH].
Qed.

Theorem run_core_terminates vt s : nofuel (run_core vt s).
Proof.
  unfold run_core. destruct (s_loader_fail s); [exact I|].
  unfold prepare. pose proof (prepare_loop_nofuel vt s (sorted_procs s) (set_scanned finit)) as H1.
  destruct (prepare_loop vt s (sorted_procs s) (set_scanned finit)) as [st1|k st1]; [|exact H1].
  unfold refresh. pose proof (get_each_nofuel vt s (eager_names s) st1) as H2.
  destruct (get_each vt s (eager_names s) st1) as [st2|k st2]; [|exact H2].
  unfold call_runners. destruct (s_app s) as [[[a rp] cp]|]; [apply run_each_nofuel|exact I].
Qed.

Theorem run_terminates vt s : nofuel (run vt s).
Proof. apply run_core_terminates. Qed.
