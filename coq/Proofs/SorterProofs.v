(* Lemmas about Model/Sorter.v (C12). *)
From Coq Require Import List ZArith Bool Lia Permutation Sorted Relations.
From IocVerif Require Import Model.Sorter.
Import ListNotations.
Local Open Scope Z_scope.

(* ---------- insertion sort: permutation ------------------------------------------------ *)

Lemma insert_by_perm p l : Permutation (p :: l) (insert_by p l).
Proof.
  induction l as [|q r IH]; cbn [insert_by]; [reflexivity|].
  destruct (order_of q <? order_of p); [|reflexivity].
  rewrite perm_swap. apply perm_skip. exact IH.
Qed.

Lemma isort_perm l : Permutation l (isort l).
Proof.
  induction l as [|p r IH]; cbn [isort]; [reflexivity|].
  rewrite <- insert_by_perm. apply perm_skip. exact IH.
Qed.

Lemma partition3_perm l :
  Permutation l (filter is_prio l ++ filter is_ord l ++ filter is_unord l).
Proof.
  induction l as [|p r IH]; cbn [filter app]; [reflexivity|].
  unfold is_prio, is_ord, is_unord at 1 2 3.
  destruct (pcls p) as [o|o|]; cbn [app].
  - apply perm_skip. exact IH.
  - rewrite <- Permutation_middle. apply perm_skip. exact IH.
  - rewrite app_assoc. rewrite <- Permutation_middle. rewrite <- app_assoc.
    apply perm_skip. exact IH.
Qed.

Lemma sort_participants_perm l : Permutation l (sort_participants l).
Proof.
  unfold sort_participants.
  rewrite <- !isort_perm. apply partition3_perm.
Qed.

(* ---------- blocks -------------------------------------------------------------------- *)

Lemma Forall_filter_self {A} (f : A -> bool) l : Forall (fun x => f x = true) (filter f l).
Proof.
  apply Forall_forall. intros x Hx. apply filter_In in Hx. tauto.
Qed.

Lemma Forall_perm {A} (P : A -> Prop) l l' : Permutation l l' -> Forall P l -> Forall P l'.
Proof.
  intros Hp Hf. rewrite Forall_forall in *. intros x Hx. apply Hf.
  eapply Permutation_in; [apply Permutation_sym; exact Hp|exact Hx].
Qed.

Lemma isort_Forall (P : participant -> Prop) l : Forall P l -> Forall P (isort l).
Proof. apply Forall_perm. apply isort_perm. Qed.

(* ---------- sortedness ----------------------------------------------------------------- *)

Definition ole (p q : participant) : Prop := order_of p <= order_of q.

Lemma insert_by_HdRel a p l :
  ole a p -> HdRel ole a l -> HdRel ole a (insert_by p l).
Proof.
  intros Hap Hal. destruct l as [|q r]; cbn [insert_by].
  - constructor. exact Hap.
  - destruct (order_of q <? order_of p); constructor.
    + inversion Hal; assumption.
    + exact Hap.
Qed.

Lemma insert_by_sorted p l : Sorted ole l -> Sorted ole (insert_by p l).
Proof.
  induction l as [|q r IH]; cbn [insert_by]; intros Hs.
  - repeat constructor.
  - destruct (Z.ltb_spec (order_of q) (order_of p)) as [Hlt|Hge].
    + inversion Hs as [|? ? Hr Hhd]; subst. constructor.
      * apply IH. exact Hr.
      * apply insert_by_HdRel; [unfold ole; lia|exact Hhd].
    + constructor; [exact Hs|]. constructor. unfold ole. lia.
Qed.

Lemma isort_sorted l : Sorted ole (isort l).
Proof.
  induction l as [|p r IH]; cbn [isort]; [constructor|].
  apply insert_by_sorted. exact IH.
Qed.

(* ---------- the class order ----------------------------------------------------------- *)

Lemma cle_refl a : cle a a = true.
Proof. destruct a; cbn; try reflexivity; apply Z.leb_refl. Qed.

Lemma cle_trans a b c : cle a b = true -> cle b c = true -> cle a c = true.
Proof.
  destruct a, b, c; cbn; intros H1 H2; try reflexivity; try discriminate;
    rewrite ?Z.leb_le in *; lia.
Qed.

Lemma cle_antisym a b : cle a b = true -> cle b a = true -> a = b.
Proof.
  destruct a, b; cbn; intros H1 H2; try reflexivity; try discriminate;
    rewrite ?Z.leb_le in *; f_equal; lia.
Qed.

Definition cleP (a b : pclass) : Prop := cle a b = true.

Lemma contract_ok_Sorted l : contract_ok l = true <-> Sorted cleP (proj l).
Proof.
  induction l as [|p r IH]; cbn [contract_ok proj map].
  - split; [constructor|reflexivity].
  - destruct r as [|q r'].
    + split; [repeat constructor|reflexivity].
    + rewrite andb_true_iff. fold (proj (q :: r')) in *. rewrite IH. split.
      * intros [Hpq Hs]. constructor; [exact Hs|]. cbn [proj map]. constructor. exact Hpq.
      * intros Hs. inversion Hs as [|? ? Hr Hhd]; subst. split; [|exact Hr].
        cbn [proj map] in Hhd. inversion Hhd; assumption.
Qed.

(* two sorted permutations over an antisymmetric transitive order are equal *)
Lemma StronglySorted_perm_eq (l1 l2 : list pclass) :
  StronglySorted cleP l1 -> StronglySorted cleP l2 -> Permutation l1 l2 -> l1 = l2.
Proof.
  revert l2. induction l1 as [|a r1 IH]; intros l2 H1 H2 Hp.
  - apply Permutation_nil in Hp. symmetry. exact Hp.
  - destruct l2 as [|b r2]; [apply Permutation_sym, Permutation_nil in Hp; discriminate|].
    inversion H1 as [|? ? Hs1 Hf1]; subst. inversion H2 as [|? ? Hs2 Hf2]; subst.
    assert (Hab : a = b).
    { assert (Ha : In a (b :: r2)) by (eapply Permutation_in; [exact Hp|left; reflexivity]).
      assert (Hb : In b (a :: r1))
        by (eapply Permutation_in; [apply Permutation_sym; exact Hp|left; reflexivity]).
      destruct Ha as [Ha|Ha]; [symmetry; exact Ha|].
      destruct Hb as [Hb|Hb]; [exact Hb|].
      rewrite Forall_forall in Hf1, Hf2.
      apply cle_antisym; [apply Hf1; exact Hb|apply Hf2; exact Ha]. }
    subst b. f_equal. apply IH; [exact Hs1|exact Hs2|].
    eapply Permutation_cons_inv. exact Hp.
Qed.

Lemma cleP_trans : Relations_1.Transitive cleP.
Proof. intros a b c. apply cle_trans. Qed.

Lemma contract_canonical l l' :
  contract_ok l = true -> contract_ok l' = true -> Permutation l l' -> proj l = proj l'.
Proof.
  intros H1 H2 Hp.
  apply StronglySorted_perm_eq.
  - apply Sorted_StronglySorted; [exact cleP_trans|]. apply contract_ok_Sorted. exact H1.
  - apply Sorted_StronglySorted; [exact cleP_trans|]. apply contract_ok_Sorted. exact H2.
  - unfold proj. apply Permutation_map. exact Hp.
Qed.

(* ---------- sort_participants satisfies the contract ---------------------------------- *)

Lemma Sorted_app_cleP (l1 l2 : list pclass) :
  Sorted cleP l1 -> Sorted cleP l2 ->
  (forall a b, In a l1 -> In b l2 -> cleP a b) -> Sorted cleP (l1 ++ l2).
Proof.
  induction l1 as [|a r IH]; cbn [app]; intros H1 H2 Hx; [exact H2|].
  inversion H1 as [|? ? Hr Hhd]; subst. constructor.
  - apply IH; [exact Hr|exact H2|]. intros x y Hx1 Hy. apply Hx; [right; exact Hx1|exact Hy].
  - destruct r as [|a' r'].
    + cbn [app]. destruct l2 as [|b l2']; constructor.
      apply Hx; left; reflexivity.
    + cbn [app]. constructor. inversion Hhd; assumption.
Qed.

Lemma Sorted_ole_prio l :
  Forall (fun p => is_prio p = true) l -> Sorted ole l -> Sorted cleP (proj l).
Proof.
  induction l as [|p r IH]; intros Hf Hs; cbn [proj map]; [constructor|].
  inversion Hf as [|? ? Hp Hr]; subst. inversion Hs as [|? ? Hsr Hhd]; subst.
  constructor; [apply IH; assumption|].
  destruct r as [|q r']; cbn [map]; constructor.
  inversion Hhd as [|? ? Hpq]; subst. inversion Hr as [|? ? Hq _]; subst.
  unfold cleP, cle, ole, order_of, is_prio in *.
  destruct (pcls p), (pcls q); try discriminate. apply Z.leb_le. exact Hpq.
Qed.

Lemma Sorted_ole_ord l :
  Forall (fun p => is_ord p = true) l -> Sorted ole l -> Sorted cleP (proj l).
Proof.
  induction l as [|p r IH]; intros Hf Hs; cbn [proj map]; [constructor|].
  inversion Hf as [|? ? Hp Hr]; subst. inversion Hs as [|? ? Hsr Hhd]; subst.
  constructor; [apply IH; assumption|].
  destruct r as [|q r']; cbn [map]; constructor.
  inversion Hhd as [|? ? Hpq]; subst. inversion Hr as [|? ? Hq _]; subst.
  unfold cleP, cle, ole, order_of, is_ord in *.
  destruct (pcls p), (pcls q); try discriminate. apply Z.leb_le. exact Hpq.
Qed.

Lemma Sorted_unord l :
  Forall (fun p => is_unord p = true) l -> Sorted cleP (proj l).
Proof.
  induction l as [|p r IH]; intros Hf; cbn [proj map]; [constructor|].
  inversion Hf as [|? ? Hp Hr]; subst. constructor; [apply IH; exact Hr|].
  destruct r as [|q r']; cbn [map]; constructor.
  inversion Hr as [|? ? Hq _]; subst.
  unfold cleP, cle, is_unord in *. destruct (pcls p), (pcls q); try discriminate. reflexivity.
Qed.

Lemma in_proj_class (P : participant -> bool) l a :
  Forall (fun p => P p = true) l -> In a (proj l) -> exists p, pcls p = a /\ P p = true.
Proof.
  intros Hf Ha. unfold proj in Ha. apply in_map_iff in Ha. destruct Ha as [p [Hpa Hin]].
  rewrite Forall_forall in Hf. exists p. split; [exact Hpa|apply Hf; exact Hin].
Qed.

Lemma sort_participants_contract l : contract_ok (sort_participants l) = true.
Proof.
  apply contract_ok_Sorted. unfold sort_participants, proj. rewrite !map_app.
  pose proof (isort_Forall _ _ (Forall_filter_self is_prio l)) as Fp.
  pose proof (isort_Forall _ _ (Forall_filter_self is_ord l)) as Fo.
  pose proof (Forall_filter_self is_unord l) as Fu.
  apply Sorted_app_cleP.
  - apply Sorted_ole_prio; [exact Fp|apply isort_sorted].
  - apply Sorted_app_cleP.
    + apply Sorted_ole_ord; [exact Fo|apply isort_sorted].
    + apply Sorted_unord. exact Fu.
    + intros a b Ha Hb.
      destruct (in_proj_class _ _ _ Fo Ha) as [p [Hp1 Hp2]].
      destruct (in_proj_class _ _ _ Fu Hb) as [q [Hq1 Hq2]].
      subst a b. unfold cleP, cle, is_ord, is_unord in *.
      destruct (pcls p), (pcls q); try discriminate; reflexivity.
  - intros a b Ha Hb.
    destruct (in_proj_class _ _ _ Fp Ha) as [p [Hp1 Hp2]].
    apply in_app_or in Hb. subst a.
    destruct Hb as [Hb|Hb].
    + destruct (in_proj_class _ _ _ Fo Hb) as [q [Hq1 Hq2]]. subst b.
      unfold cleP, cle, is_prio, is_ord in *.
      destruct (pcls p), (pcls q); try discriminate; reflexivity.
    + destruct (in_proj_class _ _ _ Fu Hb) as [q [Hq1 Hq2]]. subst b.
      unfold cleP, cle, is_prio, is_unord in *.
      destruct (pcls p), (pcls q); try discriminate; reflexivity.
Qed.
