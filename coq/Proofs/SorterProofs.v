(* Lemmas about Model/Sorter.v (C12). *)
From Coq Require Import List ZArith Bool Lia Permutation Sorted Relations.
From IocVerif Require Import Model.Sorter.
Import ListNotations.
Local Open Scope Z_scope.

(* ---------- insertion sort: permutation ------------------------------------------------ *)

Lemma insert_by_perm p l : Permutation (p :: l) (insert_by p l).
Proof.
  induction l as [|q r IH]; cbn [insert_by]; [reflexivity|].
  destruct (order_of q <? order_of p); [|reflexivity].
  rewrite perm_swap. apply perm_skip. exact IH.
Qed.

Lemma isort_perm l : Permutation l (isort l).
Proof.
  induction l as [|p r IH]; cbn [isort]; [reflexivity|].
  rewrite <- insert_by_perm. apply perm_skip. exact IH.
Qed.

Lemma partition3_perm l :
  Permutation l (filter is_prio l ++ filter is_ord l ++ filter is_unord l).
Proof.
  induction l as [|p r IH]; cbn [filter app]; [reflexivity|].
  unfold is_prio, is_ord, is_unord at 1 2 3.
  destruct (pcls p) as [o|o|]; cbn [app].
  - apply perm_skip. exact IH.
  - rewrite <- Permutation_middle. apply perm_skip. exact IH.
  - rewrite app_assoc. rewrite <- Permutation_middle. rewrite <- app_assoc.
    apply perm_skip. exact IH.
Qed.

Lemma sort_participants_perm l : Permutation l (sort_participants l).
Proof.
  unfold sort_participants.
  rewrite <- !isort_perm. apply partition3_perm.
Qed.

(* ---------- blocks -------------------------------------------------------------------- *)

Lemma Forall_filter_self {A} (f : A -> bool) l : Forall (fun x => f x = true) (filter f l).
Proof.
  apply Forall_forall. intros x Hx. apply filter_In in Hx. tauto.
Qed.

Lemma Forall_perm {A} (P : A -> Prop) l l' : Permutation l l' -> Forall P l -> Forall P l'.
Proof.
  intros Hp Hf. rewrite Forall_forall in *. intros x Hx. apply Hf.
  eapply Permutation_in; [apply Permutation_sym; exact Hp|exact Hx].
Qed.

Lemma isort_Forall (P : participant -> Prop) l : Forall P l -> Forall P (isort l).
Proof. apply Forall_perm. apply isort_perm. Qed.

(* ---------- sortedness ----------------------------------------------------------------- *)

Definition ole (p q : participant) : Prop := order_of p <= order_of q.

Lemma insert_by_HdRel a p l :
  ole a p -> HdRel ole a l -> HdRel ole a (insert_by p l).
Proof.
  intros Hap Hal. destruct l as [|q r]; cbn [insert_by].
  - constructor. exact Hap.
  - destruct (order_of q <? order_of p); constructor.
    + inversion Hal; assumption.
    + exact Hap.
Qed.

Lemma insert_by_sorted p l : Sorted ole l -> Sorted ole (insert_by p l).
Proof.
  induction l as [|q r IH]; cbn [insert_by]; intros Hs.
  - repeat constructor.
  - destruct (Z.ltb_spec (order_of q) (order_of p)) as [Hlt|Hge].
    + inversion Hs as [|? ? Hr Hhd]; subst. constructor.
      * apply IH. exact Hr.
      * apply insert_by_HdRel; [unfold ole; lia|exact Hhd].
    + constructor; [exact Hs|]. constructor. unfold ole. lia.
Qed.

Lemma isort_sorted l : Sorted ole (isort l).
Proof.
  induction l as [|p r IH]; cbn [isort]; [constructor|].
  apply insert_by_sorted. exact IH.
Qed.

(* ---------- the class order ----------------------------------------------------------- *)

Lemma cle_refl a : cle a a = true.
Proof. destruct a; cbn; try reflexivity; apply Z.leb_refl. Qed.

Lemma cle_trans a b c : cle a b = true -> cle b c = true -> cle a c = true.
Proof.
  destruct a, b, c; cbn; intros H1 H2; try reflexivity; try discriminate;
    rewrite ?Z.leb_le in *; lia.
Qed.

Lemma cle_antisym a b : cle a b = true -> cle b a = true -> a = b.
Proof.
  destruct a, b; cbn; intros H1 H2; try reflexivity; try discriminate;
    rewrite ?Z.leb_le in *; f_equal; lia.
Qed.

Definition cleP (a b : pclass) : Prop := cle a b = true.

Lemma contract_ok_Sorted l : contract_ok l = true <-> Sorted cleP (proj l).
Proof.
  induction l as [|p r IH]; cbn [contract_ok proj map].
  - split; [constructor|reflexivity].
  - destruct r as [|q r'].
    + split; [repeat constructor|reflexivity].
    + rewrite andb_true_iff. fold (proj (q :: r')) in *. rewrite IH. split.
      * intros [Hpq Hs]. constructor; [exact Hs|]. cbn [proj map]. constructor. exact Hpq.
      * intros Hs. inversion Hs as [|? ? Hr Hhd]; subst. split; [|exact Hr].
        cbn [proj map] in Hhd. inversion Hhd; assumption.
Qed.

(* two sorted permutations over an antisymmetric transitive order are equal *)
Lemma StronglySorted_perm_eq (l1 l2 : list pclass) :
  StronglySorted cleP l1 -> StronglySorted cleP l2 -> Permutation l1 l2 -> l1 = l2.
Proof.
  revert l2. induction l1 as [|a r1 IH]; intros l2 H1 H2 Hp.
  - apply Permutation_nil in Hp. symmetry. exact Hp.
  - destruct l2 as [|b r2]; [apply Permutation_sym, Permutation_nil in Hp; discriminate|].
    inversion H1 as [|? ? Hs1 Hf1]; subst. inversion H2 as [|? ? Hs2 Hf2]; subst.
    assert (Hab : a = b).
    { assert (Ha : In a (b :: r2)) by (eapply Permutation_in; [exact Hp|left; reflexivity]).
      assert (Hb : In b (a :: r1))
        by (eapply Permutation_in; [apply Permutation_sym; exact Hp|left; reflexivity]).
      destruct Ha as [Ha|Ha]; [symmetry; exact Ha|].
      destruct Hb as [Hb|Hb]; [exact Hb|].
      rewrite Forall_forall in Hf1, Hf2.
      apply cle_antisym; [apply Hf1; exact Hb|apply Hf2; exact Ha]. }
    subst b. f_equal. apply IH; [exact Hs1|exact Hs2|].
    eapply Permutation_cons_inv. exact Hp.
Qed.

Lemma cleP_trans : Relations_1.Transitive cleP.
Proof. intros a b c. apply cle_trans. Qed.

Lemma contract_canonical l l' :
  contract_ok l = true -> contract_ok l' = true -> Permutation l l' -> proj l = proj l'.
Proof.
  intros H1 H2 Hp.
  apply StronglySorted_perm_eq.
  - apply Sorted_StronglySorted; [exact cleP_trans|]. apply contract_ok_Sorted. exact H1.
  - apply Sorted_StronglySorted; [exact cleP_trans|]. apply contract_ok_Sorted. exact H2.
  - unfold proj. apply Permutation_map. exact Hp.
Qed.

(* ---------- sort_participants satisfies the contract ---------------------------------- *)

Lemma Sorted_app_cleP (l1 l2 : list pclass) :
  Sorted cleP l1 -> Sorted cleP l2 ->
  (forall a b, In a l1 -> In b l2 -> cleP a b) -> Sorted cleP (l1 ++ l2).
Proof.
  induction l1 as [|a r IH]; cbn [app]; intros H1 H2 Hx; [exact H2|].
  inversion H1 as [|? ? Hr Hhd]; subst. constructor.
  - apply IH; [exact Hr|exact H2|]. intros x y Hx1 Hy. apply Hx; [right; exact Hx1|exact Hy].
  - destruct r as [|a' r'].
    + cbn [app]. destruct l2 as [|b l2']; constructor.
      apply Hx; left; reflexivity.
    + cbn [app]. constructor. inversion Hhd; assumption.
Qed.

Lemma Sorted_ole_prio l :
  Forall (fun p => is_prio p = true) l -> Sorted ole l -> Sorted cleP (proj l).
Proof.
  induction l as [|p r IH]; intros Hf Hs; cbn [proj map]; [constructor|].
  inversion Hf as [|? ? Hp Hr]; subst. inversion Hs as [|? ? Hsr Hhd]; subst.
  constructor; [apply IH; assumption|].
  destruct r as [|q r']; cbn [map]; constructor.
  inversion Hhd as [|? ? Hpq]; subst. inversion Hr as [|? ? Hq _]; subst.
  unfold cleP, cle, ole, order_of, is_prio in *.
  destruct (pcls p), (pcls q); try discriminate. apply Z.leb_le. exact Hpq.
Qed.

Lemma Sorted_ole_ord l :
  Forall (fun p => is_ord p = true) l -> Sorted ole l -> Sorted cleP (proj l).
Proof.
  induction l as [|p r IH]; intros Hf Hs; cbn [proj map]; [constructor|].
  inversion Hf as [|? ? Hp Hr]; subst. inversion Hs as [|? ? Hsr Hhd]; subst.
  constructor; [apply IH; assumption|].
  destruct r as [|q r']; cbn [map]; constructor.
  inversion Hhd as [|? ? Hpq]; subst. inversion Hr as [|? ? Hq _]; subst.
  unfold cleP, cle, ole, order_of, is_ord in *.
  destruct (pcls p), (pcls q); try discriminate. apply Z.leb_le. exact Hpq.
Qed.

Lemma Sorted_unord l :
  Forall (fun p => is_unord p = true) l -> Sorted cleP (proj l).
Proof.
  induction l as [|p r IH]; intros Hf; cbn [proj map]; [constructor|].
  inversion Hf as [|? ? Hp Hr]; subst. constructor; [apply IH; exact Hr|].
  destruct r as [|q r']; cbn [map]; constructor.
  inversion Hr as [|? ? Hq _]; subst.
  unfold cleP, cle, is_unord in *. destruct (pcls p), (pcls q); try discriminate. reflexivity.
Qed.

Lemma in_proj_class (P : participant -> bool) l a :
  Forall (fun p => P p = true) l -> In a (proj l) -> exists p, pcls p = a /\ P p = true.
Proof.
  intros Hf Ha. unfold proj in Ha. apply in_map_iff in Ha. destruct Ha as [p [Hpa Hin]].
  rewrite Forall_forall in Hf. exists p. split; [exact Hpa|apply Hf; exact Hin].
Qed.

Lemma sort_participants_contract l : contract_ok (sort_participants l) = true.
Proof.
  apply contract_ok_Sorted. unfold sort_participants, proj. rewrite !map_app.
  pose proof (isort_Forall _ _ (Forall_filter_self is_prio l)) as Fp.
  pose proof (isort_Forall _ _ (Forall_filter_self is_ord l)) as Fo.
  pose proof (Forall_filter_self is_unord l) as Fu.
  apply Sorted_app_cleP.
  - apply Sorted_ole_prio; [exact Fp|apply isort_sorted].
  - apply Sorted_app_cleP.
    + apply Sorted_ole_ord; [exact Fo|apply isort_sorted].
    + apply Sorted_unord. exact Fu.
    + intros a b Ha Hb.
      destruct (in_proj_class _ _ _ Fo Ha) as [p [Hp1 Hp2]].
      destruct (in_proj_class _ _ _ Fu Hb) as [q [Hq1 Hq2]].
      subst a b. unfold cleP, cle, is_ord, is_unord in *.
      destruct (pcls p), (pcls q); try discriminate; reflexivity.
  - intros a b Ha Hb.
    destruct (in_proj_class _ _ _ Fp Ha) as [p [Hp1 Hp2]].
    apply in_app_or in Hb. subst a.
    destruct Hb as [Hb|Hb].
    + destruct (in_proj_class _ _ _ Fo Hb) as [q [Hq1 Hq2]]. subst b.
      unfold cleP, cle, is_prio, is_ord in *.
      destruct (pcls p), (pcls q); try discriminate; reflexivity.
    + destruct (in_proj_class _ _ _ Fu Hb) as [q [Hq1 Hq2]]. subst b.
      unfold cleP, cle, is_prio, is_unord in *.
      destruct (pcls p), (pcls q); try discriminate; reflexivity.
Qed.

(* ---------- the generic sort: permutation, stability, re-sorting, bridge to sort_participants ---- *)

Lemma filter_all_true {A} (f : A -> bool) l : Forall (fun x => f x = true) l -> filter f l = l.
Proof.
  induction l as [|a r IH]; intros H; [reflexivity|].
  inversion H as [|? ? Ha Hr]; subst. cbn [filter]. rewrite Ha, (IH Hr). reflexivity.
Qed.

Lemma filter_all_false {A} (f : A -> bool) l : Forall (fun x => f x = false) l -> filter f l = [].
Proof.
  induction l as [|a r IH]; intros H; [reflexivity|].
  inversion H as [|? ? Ha Hr]; subst. cbn [filter]. rewrite Ha. exact (IH Hr).
Qed.

Lemma filter_filter_sub {A} (f g : A -> bool) l :
  (forall a, f a = true -> g a = true) -> filter f (filter g l) = filter f l.
Proof.
  intros H. induction l as [|a r IH]; [reflexivity|]. cbn [filter].
  destruct (g a) eqn:Eg; cbn [filter]; [rewrite IH; reflexivity|].
  destruct (f a) eqn:Ef; [|exact IH]. rewrite (H a Ef) in Eg. discriminate.
Qed.

Lemma filter_filter_excl {A} (f g : A -> bool) l :
  (forall a, f a = true -> g a = false) -> filter f (filter g l) = [].
Proof.
  intros H. induction l as [|a r IH]; [reflexivity|]. cbn [filter].
  destruct (g a) eqn:Eg; [|exact IH]. cbn [filter].
  destruct (f a) eqn:Ef; [|exact IH]. rewrite (H a Ef) in Eg. discriminate.
Qed.

Lemma filter_map_comm {A B} (f : A -> B) (q : B -> bool) l :
  filter q (map f l) = map f (filter (fun a => q (f a)) l).
Proof.
  induction l as [|a r IH]; [reflexivity|]. cbn [map filter].
  destruct (q (f a)); cbn [map]; rewrite IH; reflexivity.
Qed.

Section GenericSortProofs.
  Context {A : Type} (cls : A -> pclass).

  Lemma g_insert_perm a l : Permutation (a :: l) (g_insert cls a l).
  Proof.
    induction l as [|q r IH]; cbn [g_insert]; [reflexivity|].
    destruct (g_order cls q <? g_order cls a); [|reflexivity].
    rewrite perm_swap. apply perm_skip. exact IH.
  Qed.

  Lemma g_isort_perm l : Permutation l (g_isort cls l).
  Proof.
    induction l as [|p r IH]; cbn [g_isort]; [reflexivity|].
    rewrite <- g_insert_perm. apply perm_skip. exact IH.
  Qed.

  Lemma g_partition3_perm l :
    Permutation l (filter (g_is_prio cls) l ++ filter (g_is_ord cls) l ++ filter (g_is_unord cls) l).
  Proof.
    induction l as [|p r IH]; cbn [filter app]; [reflexivity|].
    unfold g_is_prio, g_is_ord, g_is_unord at 1 2 3.
    destruct (cls p) as [o|o|]; cbn [app].
    - apply perm_skip. exact IH.
    - rewrite <- Permutation_middle. apply perm_skip. exact IH.
    - rewrite app_assoc. rewrite <- Permutation_middle. rewrite <- app_assoc.
      apply perm_skip. exact IH.
  Qed.

  (* every element exactly once *)
  Lemma g_sort_perm l : Permutation l (g_sort cls l).
  Proof. unfold g_sort. rewrite <- !g_isort_perm. apply g_partition3_perm. Qed.

  Lemma g_isort_Forall (P : A -> Prop) l : Forall P l -> Forall P (g_isort cls l).
  Proof. apply Forall_perm. apply g_isort_perm. Qed.

  (* --- inserting in either order, when the Orders differ --- *)
  Lemma g_insert_comm x y l :
    g_order cls y < g_order cls x ->
    g_insert cls y (g_insert cls x l) = g_insert cls x (g_insert cls y l).
  Proof.
    intros Hxy. induction l as [|q r IH]; cbn [g_insert].
    - destruct (Z.ltb_spec (g_order cls x) (g_order cls y)); [lia|].
      destruct (Z.ltb_spec (g_order cls y) (g_order cls x)); [reflexivity|lia].
    - destruct (Z.ltb_spec (g_order cls q) (g_order cls x)) as [Hqx|Hqx];
        destruct (Z.ltb_spec (g_order cls q) (g_order cls y)) as [Hqy|Hqy]; cbn [g_insert].
      + destruct (Z.ltb_spec (g_order cls q) (g_order cls y)); [|lia].
        destruct (Z.ltb_spec (g_order cls q) (g_order cls x)); [|lia].
        rewrite IH. reflexivity.
      + destruct (Z.ltb_spec (g_order cls q) (g_order cls y)); [lia|].
        destruct (Z.ltb_spec (g_order cls y) (g_order cls x)); [|lia].
        cbn [g_insert]. destruct (Z.ltb_spec (g_order cls q) (g_order cls x)); [reflexivity|lia].
      + lia.
      + destruct (Z.ltb_spec (g_order cls x) (g_order cls y)); [lia|].
        destruct (Z.ltb_spec (g_order cls y) (g_order cls x)); [|lia].
        cbn [g_insert]. destruct (Z.ltb_spec (g_order cls q) (g_order cls x)); [lia|reflexivity].
  Qed.

  Lemma g_fold_insert x S T :
    fold_right (g_insert cls) S (g_insert cls x T) = g_insert cls x (fold_right (g_insert cls) S T).
  Proof.
    induction T as [|y T' IH]; [reflexivity|]. cbn [g_insert].
    destruct (Z.ltb_spec (g_order cls y) (g_order cls x)) as [H|H]; [|reflexivity].
    cbn [fold_right]. rewrite IH. apply g_insert_comm, H.
  Qed.

  Lemma g_isort_app a b : g_isort cls (a ++ b) = fold_right (g_insert cls) (g_isort cls b) a.
  Proof. induction a as [|x r IH]; [reflexivity|]. cbn [app g_isort fold_right]. rewrite IH. reflexivity. Qed.

  (* sorting a sorted block followed by new elements = sorting everything *)
  Lemma g_isort_resort a b : g_isort cls (g_isort cls a ++ b) = g_isort cls (a ++ b).
  Proof.
    rewrite !g_isort_app. induction a as [|x r IH]; [reflexivity|].
    cbn [g_isort fold_right]. rewrite g_fold_insert, IH. reflexivity.
  Qed.

  Lemma g_prio_not_ord a : g_is_prio cls a = true -> g_is_ord cls a = false.
  Proof. unfold g_is_prio, g_is_ord. destruct (cls a); congruence. Qed.
  Lemma g_prio_not_unord a : g_is_prio cls a = true -> g_is_unord cls a = false.
  Proof. unfold g_is_prio, g_is_unord. destruct (cls a); congruence. Qed.
  Lemma g_ord_not_prio a : g_is_ord cls a = true -> g_is_prio cls a = false.
  Proof. unfold g_is_prio, g_is_ord. destruct (cls a); congruence. Qed.
  Lemma g_ord_not_unord a : g_is_ord cls a = true -> g_is_unord cls a = false.
  Proof. unfold g_is_ord, g_is_unord. destruct (cls a); congruence. Qed.
  Lemma g_unord_not_prio a : g_is_unord cls a = true -> g_is_prio cls a = false.
  Proof. unfold g_is_prio, g_is_unord. destruct (cls a); congruence. Qed.
  Lemma g_unord_not_ord a : g_is_unord cls a = true -> g_is_ord cls a = false.
  Proof. unfold g_is_ord, g_is_unord. destruct (cls a); congruence. Qed.

  Lemma Forall_impl_bool (f g : A -> bool) (b : bool) l :
    (forall a, f a = true -> g a = b) -> Forall (fun x => f x = true) l -> Forall (fun x => g x = b) l.
  Proof. intros H. apply Forall_impl. exact H. Qed.

  (* the three blocks of the result *)
  Lemma g_sort_filter_prio l : filter (g_is_prio cls) (g_sort cls l) = g_isort cls (filter (g_is_prio cls) l).
  Proof.
    unfold g_sort. rewrite !filter_app.
    rewrite (filter_all_true (g_is_prio cls) (g_isort cls (filter (g_is_prio cls) l)));
      [|apply g_isort_Forall, Forall_filter_self].
    rewrite (filter_all_false (g_is_prio cls) (g_isort cls (filter (g_is_ord cls) l))).
    - rewrite (filter_filter_excl (g_is_prio cls) (g_is_unord cls)); [|apply g_prio_not_unord].
      rewrite !app_nil_r. reflexivity.
    - apply g_isort_Forall. eapply Forall_impl_bool; [apply g_ord_not_prio|apply Forall_filter_self].
  Qed.

  Lemma g_sort_filter_ord l : filter (g_is_ord cls) (g_sort cls l) = g_isort cls (filter (g_is_ord cls) l).
  Proof.
    unfold g_sort. rewrite !filter_app.
    rewrite (filter_all_true (g_is_ord cls) (g_isort cls (filter (g_is_ord cls) l)));
      [|apply g_isort_Forall, Forall_filter_self].
    rewrite (filter_all_false (g_is_ord cls) (g_isort cls (filter (g_is_prio cls) l))).
    - rewrite (filter_filter_excl (g_is_ord cls) (g_is_unord cls)); [|apply g_ord_not_unord].
      rewrite app_nil_r. reflexivity.
    - apply g_isort_Forall. eapply Forall_impl_bool; [apply g_prio_not_ord|apply Forall_filter_self].
  Qed.

  Lemma g_sort_filter_unord l : filter (g_is_unord cls) (g_sort cls l) = filter (g_is_unord cls) l.
  Proof.
    unfold g_sort. rewrite !filter_app.
    rewrite (filter_all_false (g_is_unord cls) (g_isort cls (filter (g_is_prio cls) l))).
    - rewrite (filter_all_false (g_is_unord cls) (g_isort cls (filter (g_is_ord cls) l))).
      + cbn [app]. apply filter_filter_sub. tauto.
      + apply g_isort_Forall. eapply Forall_impl_bool; [apply g_ord_not_unord|apply Forall_filter_self].
    - apply g_isort_Forall. eapply Forall_impl_bool; [apply g_prio_not_unord|apply Forall_filter_self].
  Qed.

  (* Sorting again after appending: the result of an earlier sort followed by newly registered elements sorts
     to the same sequence as all elements in registration order (configure.go stores the sorted loaders back). *)
  Lemma g_sort_resort l1 l2 : g_sort cls (g_sort cls l1 ++ l2) = g_sort cls (l1 ++ l2).
  Proof.
    unfold g_sort at 1 3. rewrite !filter_app.
    rewrite g_sort_filter_prio, g_sort_filter_ord, g_sort_filter_unord, !g_isort_resort.
    reflexivity.
  Qed.

  Lemma g_sort_idem l : g_sort cls (g_sort cls l) = g_sort cls l.
  Proof.
    rewrite <- (app_nil_r (g_sort cls l)) at 1. rewrite g_sort_resort, app_nil_r. reflexivity.
  Qed.

  (* --- stability --- *)
  Lemma g_insert_filter (f : A -> bool) a l :
    (forall q, f q = true -> f a = true -> g_order cls q = g_order cls a) ->
    filter f (g_insert cls a l) = filter f (a :: l).
  Proof.
    intros H. induction l as [|q r IH]; [reflexivity|]. cbn [g_insert].
    destruct (Z.ltb_spec (g_order cls q) (g_order cls a)) as [Hlt|Hge]; [|reflexivity].
    cbn [filter] in *. rewrite IH.
    destruct (f q) eqn:Eq; destruct (f a) eqn:Ea; try reflexivity.
    specialize (H q Eq eq_refl). lia.
  Qed.

  Lemma g_isort_filter (f : A -> bool) l :
    (forall p q, f p = true -> f q = true -> g_order cls p = g_order cls q) ->
    filter f (g_isort cls l) = filter f l.
  Proof.
    intros H. induction l as [|a r IH]; [reflexivity|]. cbn [g_isort].
    rewrite g_insert_filter; [|intros q Hq Ha; apply H; assumption].
    cbn [filter]. rewrite IH. reflexivity.
  Qed.

  Lemma same_class_order a b c :
    same_class (cls a) c = true -> same_class (cls b) c = true -> g_order cls a = g_order cls b.
  Proof.
    unfold g_order, same_class. destruct (cls a), (cls b), c; try discriminate; intros H1 H2;
      try reflexivity; apply Z.eqb_eq in H1, H2; lia.
  Qed.

  (* elements of one class and Order keep their registration order *)
  Lemma g_sort_stable c l :
    filter (fun a => same_class (cls a) c) (g_sort cls l) = filter (fun a => same_class (cls a) c) l.
  Proof.
    set (f := fun a => same_class (cls a) c).
    assert (Hf : forall p q, f p = true -> f q = true -> g_order cls p = g_order cls q)
      by (intros p q; apply same_class_order).
    unfold g_sort. rewrite !filter_app, !(g_isort_filter f) by exact Hf.
    destruct c as [k|k|].
    - rewrite (filter_filter_sub f (g_is_prio cls)), (filter_filter_excl f (g_is_ord cls)),
        (filter_filter_excl f (g_is_unord cls)); [rewrite !app_nil_r; reflexivity| | |];
        intros a; unfold f, same_class, g_is_prio, g_is_ord, g_is_unord; destruct (cls a); congruence.
    - rewrite (filter_filter_excl f (g_is_prio cls)), (filter_filter_sub f (g_is_ord cls)),
        (filter_filter_excl f (g_is_unord cls)); [rewrite !app_nil_r; reflexivity| | |];
        intros a; unfold f, same_class, g_is_prio, g_is_ord, g_is_unord; destruct (cls a); congruence.
    - rewrite (filter_filter_excl f (g_is_prio cls)), (filter_filter_excl f (g_is_ord cls)),
        (filter_filter_sub f (g_is_unord cls)); [reflexivity| | |];
        intros a; unfold f, same_class, g_is_prio, g_is_ord, g_is_unord; destruct (cls a); congruence.
  Qed.

  (* a block whose Orders are all equal is left as it is *)
  Lemma g_isort_equal_keys l :
    (forall p q, In p l -> In q l -> g_order cls p = g_order cls q) -> g_isort cls l = l.
  Proof.
    induction l as [|a r IH]; intros H; [reflexivity|]. cbn [g_isort].
    rewrite IH by (intros p q Hp Hq; apply H; right; assumption).
    destruct r as [|q r']; [reflexivity|]. cbn [g_insert].
    rewrite (H q a) by (cbn; tauto). rewrite Z.ltb_irrefl. reflexivity.
  Qed.

  (* --- the sort commutes with a class-preserving map --- *)
  Lemma g_insert_map {B} (f : A -> B) (clsB : B -> pclass) a l :
    (forall a, cls a = clsB (f a)) ->
    map f (g_insert cls a l) = g_insert clsB (f a) (map f l).
  Proof.
    intros H. induction l as [|q r IH]; [reflexivity|]. cbn [g_insert map].
    replace (g_order clsB (f q)) with (g_order cls q) by (unfold g_order; rewrite H; reflexivity).
    replace (g_order clsB (f a)) with (g_order cls a) by (unfold g_order; rewrite H; reflexivity).
    destruct (g_order cls q <? g_order cls a); cbn [map]; [rewrite IH|]; reflexivity.
  Qed.

  Lemma g_isort_map {B} (f : A -> B) (clsB : B -> pclass) l :
    (forall a, cls a = clsB (f a)) -> map f (g_isort cls l) = g_isort clsB (map f l).
  Proof.
    intros H. induction l as [|a r IH]; [reflexivity|]. cbn [g_isort map].
    rewrite (g_insert_map f clsB) by exact H. rewrite IH. reflexivity.
  Qed.

  Lemma g_sort_map {B} (f : A -> B) (clsB : B -> pclass) l :
    (forall a, cls a = clsB (f a)) -> map f (g_sort cls l) = g_sort clsB (map f l).
  Proof.
    intros H. unfold g_sort. rewrite !map_app, !(g_isort_map f clsB) by exact H.
    rewrite !filter_map_comm.
    assert (E1 : forall l, filter (g_is_prio cls) l = filter (fun a => g_is_prio clsB (f a)) l)
      by (intros l0; apply filter_ext; intros a; unfold g_is_prio; rewrite H; reflexivity).
    assert (E2 : forall l, filter (g_is_ord cls) l = filter (fun a => g_is_ord clsB (f a)) l)
      by (intros l0; apply filter_ext; intros a; unfold g_is_ord; rewrite H; reflexivity).
    assert (E3 : forall l, filter (g_is_unord cls) l = filter (fun a => g_is_unord clsB (f a)) l)
      by (intros l0; apply filter_ext; intros a; unfold g_is_unord; rewrite H; reflexivity).
    rewrite E1, E2, E3. reflexivity.
  Qed.
End GenericSortProofs.

(* on participants the generic sort is the model of SortOrderedComponents *)
Lemma insert_by_generic p l : insert_by p l = g_insert pcls p l.
Proof.
  induction l as [|q r IH]; [reflexivity|]. cbn [insert_by g_insert].
  change (g_order pcls q) with (order_of q). change (g_order pcls p) with (order_of p).
  rewrite IH. reflexivity.
Qed.

Lemma isort_generic l : isort l = g_isort pcls l.
Proof.
  induction l as [|p r IH]; [reflexivity|]. cbn [isort g_isort].
  rewrite insert_by_generic, IH. reflexivity.
Qed.

Lemma sort_participants_generic l : sort_participants l = g_sort pcls l.
Proof. unfold sort_participants, g_sort. rewrite !isort_generic. reflexivity. Qed.

Lemma sort_participants_resort l1 l2 :
  sort_participants (sort_participants l1 ++ l2) = sort_participants (l1 ++ l2).
Proof. rewrite !sort_participants_generic. apply g_sort_resort. Qed.

Lemma sort_participants_stable c l :
  filter (fun p => same_class (pcls p) c) (sort_participants l) = filter (fun p => same_class (pcls p) c) l.
Proof. rewrite sort_participants_generic. apply g_sort_stable. Qed.
