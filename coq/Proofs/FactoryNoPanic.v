(* No Go panic escapes a start on the repaired tree (C09 c09_total, panic half).
   The model's panic sites are: a nil definition reaching populateComponent (dependency.Name() on a
   nil *Meta) and reflect.Value.Set of an unassignable value (removed by fix_c07).  A nil definition is
   what GetMetaByName returns for an unknown name; the further-matching processor removes it, provided
   it runs after the processors that collect candidates.  That ordering is a fact about the built-in
   processors' Order values: [settled] below, re-checked on the facts of every run. *)
From Coq Require Import List Arith Bool Lia.
From IocVerif Require Import Model.Registry Model.Resolve Model.Factory Model.App
  Proofs.FactoryBasics Proofs.FactoryLog.
Import ListNotations.

Definition no_nil (inj : list (list (option name))) : Prop :=
  Forall (Forall (fun o : option name => o <> None)) inj.

(* walking the processor list: collecting candidates makes the Injects "dirty" (may contain nil),
   the further-matching stage cleans them *)
Fixpoint settle (pop : population) (ps : list name) (dirty : bool) : bool :=
  match ps with
  | [] => dirty
  | p :: r =>
    match proc_of pop p with
    | Some (PBuiltin BWire) | Some (PBuiltin BFunc) => settle pop r true
    | Some (PBuiltin BFurther) => settle pop r false
    | _ => settle pop r dirty
    end
  end.

Definition settled (pop : population) (ps : list name) : Prop := settle pop ps false = false.

Lemma no_nil_map_Some (l : list name) : Forall (fun o : option name => o <> None) (map Some l).
Proof. induction l; constructor; [discriminate|assumption]. Qed.

Lemma add_candidates_length s func : forall ps inj, length inj = length ps ->
  length (add_candidates s func ps inj) = length ps.
Proof.
  induction ps as [|p r IH]; intros inj H; destruct inj as [|i inj']; cbn [add_candidates length] in *; try lia.
  rewrite IH; lia.
Qed.

Lemma further_loop_no_nil vt pop h : fix_c08 vt = true -> forall ps inj out,
  length inj = length ps -> further_loop vt pop h ps inj = LOk out -> no_nil out /\ length out = length ps.
Proof.
  intros Hfix. induction ps as [|p r IH]; intros inj out Hlen H.
  - destruct inj; [|discriminate]. cbn in H. inversion H; subst. split; [constructor|reflexivity].
  - destruct inj as [|i inj']; [discriminate|]. cbn [length] in Hlen. cbn [further_loop] in H.
    destruct (filter_dependencies vt pop h p i) as [l|].
    + destruct (further_loop vt pop h r inj') as [rest|] eqn:E; [|discriminate]. inversion H; subst.
      destruct (IH inj' rest ltac:(lia) E) as [Hn Hl]. split; [constructor; [apply no_nil_map_Some|exact Hn]|cbn; lia].
    + destruct (pt_required p); [discriminate|]. rewrite Hfix in H.
      destruct (further_loop vt pop h r inj') as [rest|] eqn:E; [|discriminate]. inversion H; subst.
      destruct (IH inj' rest ltac:(lia) E) as [Hn Hl]. split; [constructor; [constructor|exact Hn]|cbn; lia].
Qed.

Lemma pipeline_no_nil vt s n c : fix_c08 vt = true -> forall ps st inj dirty st' inj',
  length inj = length (c_points c) ->
  (dirty = false -> no_nil inj) ->
  pipeline vt s n c ps st inj = Ok (st', inj') ->
  settle (s_pop s) ps dirty = false ->
  no_nil inj' /\ length inj' = length (c_points c).
Proof.
  intros Hfix. induction ps as [|p r IH]; intros st inj dirty st' inj' Hlen Hd H Hs; cbn [pipeline settle] in *.
  - injection H as <- <-. split; [apply Hd; exact Hs|exact Hlen].
  - destruct (proc_of (s_pop s) p) as [[[]|early after]|]; try (eapply IH; eassumption).
    + destruct (cfg_stage c true); [discriminate|]. eapply IH; eassumption.
    + destruct (cfg_stage c false); [discriminate|]. eapply IH; eassumption.
    + eapply (IH st _ true); [| |exact H|exact Hs]; [apply add_candidates_length; exact Hlen|discriminate].
    + destruct (further_loop vt (s_pop s) n (c_points c) inj) as [out|] eqn:E; [|discriminate].
      destruct (further_loop_no_nil vt (s_pop s) n Hfix _ _ _ Hlen E) as [Hn Hl].
      eapply (IH st out false); [exact Hl|intros _; exact Hn|exact H|exact Hs].
    + eapply (IH st _ true); [| |exact H|exact Hs]; [apply add_candidates_length; exact Hlen|discriminate].
Qed.

Lemma further_loop_length vt pop h : forall ps inj out,
  length inj = length ps -> further_loop vt pop h ps inj = LOk out -> length out = length ps.
Proof.
  induction ps as [|p r IH]; intros inj out Hlen H.
  - destruct inj; [|discriminate]. cbn in H. inversion H; reflexivity.
  - destruct inj as [|i inj']; [discriminate|]. cbn [length] in Hlen. cbn [further_loop] in H.
    destruct (filter_dependencies vt pop h p i) as [l|].
    + destruct (further_loop vt pop h r inj') as [rest|] eqn:E; [|discriminate]. inversion H; subst.
      cbn [length]. rewrite (IH inj' rest ltac:(lia) E). reflexivity.
    + destruct (pt_required p); [discriminate|]. destruct (fix_c08 vt).
      * destruct (further_loop vt pop h r inj') as [rest|] eqn:E; [|discriminate]. inversion H; subst.
        cbn [length]. rewrite (IH inj' rest ltac:(lia) E). reflexivity.
      * inversion H; subst. cbn [length]. lia.
Qed.

Lemma pipeline_length vt s n c : forall ps st inj st' inj',
  length inj = length (c_points c) ->
  pipeline vt s n c ps st inj = Ok (st', inj') -> length inj' = length (c_points c).
Proof.
  induction ps as [|p r IH]; intros st inj st' inj' Hlen H; cbn [pipeline] in *.
  - injection H as <- <-. exact Hlen.
  - destruct (proc_of (s_pop s) p) as [[[]|early after]|]; try (eapply IH; eassumption).
    + destruct (cfg_stage c true); [discriminate|]. eapply IH; eassumption.
    + destruct (cfg_stage c false); [discriminate|]. eapply IH; eassumption.
    + eapply IH; [|exact H]. apply add_candidates_length; exact Hlen.
    + destruct (further_loop vt (s_pop s) n (c_points c) inj) as [out|] eqn:E; [|discriminate].
      eapply IH; [|exact H]. eapply further_loop_length; eauto.
    + eapply IH; [|exact H]. apply add_candidates_length; exact Hlen.
Qed.

(* stored Injects are nil-free and as long as the component's point list *)
Definition NN (s : scenario) (st : fstate) : Prop :=
  forall n i c, alookup n (injs st) = Some i -> get_comp (s_pop s) n = Some c ->
                no_nil i /\ length i = length (c_points c).

Lemma NN_same_injs s st st' : injs st' = injs st -> NN s st -> NN s st'.
Proof. intros H HN n i c Hi Hc. rewrite H in Hi. eapply HN; eauto. Qed.

Lemma cur_injs_NN s st n c : NN s st -> get_comp (s_pop s) n = Some c ->
  no_nil (cur_injs st n c) /\ length (cur_injs st n c) = length (c_points c).
Proof.
  intros HN Hc. unfold cur_injs. destruct (alookup n (injs st)) as [i|] eqn:E; [eapply HN; eauto|].
  split; [|apply map_length]. induction (c_points c); cbn; constructor; [constructor|assumption].
Qed.

Lemma NN_set_injs s st n inj c :
  NN s st -> get_comp (s_pop s) n = Some c -> no_nil inj -> length inj = length (c_points c) ->
  NN s (set_injs st n inj).
Proof.
  intros HN Hc Hn Hl m i c' Hi Hc'. cbn [injs set_injs] in Hi.
  destruct (Nat.eq_dec m n) as [->|Hne].
  - rewrite alookup_aset_eq in Hi. inversion Hi; subst. rewrite Hc in Hc'. inversion Hc'; subst. auto.
  - rewrite (alookup_aset_neq n m inj _ Hne) in Hi. eapply HN; eauto.
Qed.

Section NoPanic.
  Variable vt : variant.
  Hypothesis Hf7 : fix_c07 vt = true.
  Hypothesis Hf8 : fix_c08 vt = true.
  Variable s : scenario.

  (* the pipeline is complete, or the component has no injection point at all (post-processor components
     created during PrepareComponents) *)
  Definition okd (st : fstate) (d : name) : Prop :=
    settled (s_pop s) (active st) \/ (forall c, get_comp (s_pop s) d = Some c -> c_points c = []).

  Definition np_spec (rec : fstate -> name -> res (fstate * ver)) : Prop :=
    forall st d, NN s st -> okd st d ->
      nopanic (rec st d) /\
      forall st' v, rec st d = Ok (st', v) -> NN s st' /\ active st' = active st.

  Variable rec : fstate -> name -> res (fstate * ver).
  Hypothesis Hrec : np_spec rec.

  Lemma get_all_np : forall cands st, NN s st -> settled (s_pop s) (active st) ->
    Forall (fun o : option name => o <> None) cands ->
    nopanic (get_all rec st cands) /\
    forall st' vs, get_all rec st cands = Ok (st', vs) -> NN s st' /\ active st' = active st.
  Proof.
    induction cands as [|[d|] r IH]; intros st HN Hs Hall; cbn [get_all].
    - split; [exact I|]. intros st' vs H; inversion H; subst; auto.
    - inversion Hall as [|? ? _ Hr]; subst.
      destruct (Hrec st d HN (or_introl Hs)) as [Hnp Hok].
      destruct (rec st d) as [[st1 v]|k st1] eqn:E; [|split; [exact Hnp|intros ? ? H; discriminate]].
      destruct (Hok st1 v eq_refl) as [HN1 Ha1].
      assert (Hs1 : settled (s_pop s) (active st1)) by (rewrite Ha1; exact Hs).
      destruct (IH st1 HN1 Hs1 Hr) as [Hnp2 Hok2].
      destruct (get_all rec st1 r) as [[st2 vs]|k2 st2] eqn:E2; [|split; [exact Hnp2|intros ? ? H; discriminate]].
      split; [exact I|]. intros st' vs' H; inversion H; subst.
      destruct (Hok2 _ _ eq_refl) as [HN2 Ha2]. split; [exact HN2|congruence].
    - inversion Hall as [|? ? Hx _]; subst. contradiction.
  Qed.

  Lemma inject_np st h k p vs :
    nopanic (inject vt s st h k p vs) /\
    forall st', inject vt s st h k p vs = Ok st' -> injs st' = injs st /\ active st' = active st.
  Proof.
    unfold inject. destruct vs as [|v0 r].
    - destruct (pt_required p); split; try exact I; intros st' H; inversion H; auto.
    - destruct (filter (fun v => negb (is_self h v)) (v0 :: r)) as [|w t].
      + destruct (pt_required p); split; try exact I; intros st' H; inversion H; auto.
      + destruct (forallb _ _).
        * split; [exact I|]. intros st' H; inversion H; subst. split; reflexivity.
        * rewrite Hf7. destruct (pt_required p); split; try exact I; intros st' H; inversion H; auto.
  Qed.

  Lemma inject_points_np h : forall ps k inj st, NN s st -> settled (s_pop s) (active st) -> no_nil inj ->
    nopanic (inject_points vt s rec h k ps inj st) /\
    forall st', inject_points vt s rec h k ps inj st = Ok st' -> NN s st' /\ active st' = active st.
  Proof.
    induction ps as [|p ps' IH]; intros k inj st HN Hs Hnn; cbn [inject_points].
    - split; [exact I|]. intros st' H; inversion H; subst; auto.
    - destruct inj as [|i inj']; [split; [exact I|intros st' H; inversion H; subst; auto]|].
      inversion Hnn as [|? ? Hi Hr]; subst.
      destruct i as [|c0 c1]; [apply IH; assumption|].
      destruct (get_all_np (c0 :: c1) st HN Hs Hi) as [Hnp Hok].
      destruct (get_all rec st (c0 :: c1)) as [[st1 vs]|k1 st1] eqn:E1; [|split; [exact Hnp|intros ? H; discriminate]].
      destruct (Hok _ _ eq_refl) as [HN1 Ha1].
      destruct (inject_np st1 h k p vs) as [Hnp2 Hok2].
      destruct (inject vt s st1 h k p vs) as [st2|k2 st2] eqn:E2; [|split; [exact Hnp2|intros ? H; discriminate]].
      destruct (Hok2 _ eq_refl) as [Hi2 Ha2].
      assert (HN2 : NN s st2) by (eapply NN_same_injs; eauto).
      assert (Hs2 : settled (s_pop s) (active st2)) by (rewrite Ha2, Ha1; exact Hs).
      destruct (IH (S k) inj' st2 HN2 Hs2 Hr) as [Hnp3 Hok3]. split; [exact Hnp3|].
      intros st' H. destruct (Hok3 st' H) as [HN3 Ha3]. split; [exact HN3|congruence].
  Qed.

  Lemma populate_np st n c : NN s st -> okd st n -> get_comp (s_pop s) n = Some c ->
    nopanic (populate vt s rec st n c) /\
    forall st', populate vt s rec st n c = Ok st' -> NN s st' /\ active st' = active st.
  Proof.
    intros HN Hs Hc. unfold populate.
    destruct (cur_injs_NN s st n c HN Hc) as [Hn0 Hl0].
    pose proof (pipeline_quiet vt s n c (active st) st (cur_injs st n c)) as Hq.
    destruct (pipeline vt s n c (active st) st (cur_injs st n c)) as [[st1 inj]|k st1] eqn:E.
    - pose proof (pipeline_state _ _ _ _ _ _ _ _ _ E) as ->.
      pose proof (pipeline_length vt s n c _ _ _ _ _ Hl0 E) as Hl1.
      destruct Hs as [Hs|Hp].
      + destruct (pipeline_no_nil vt s n c Hf8 _ _ _ false _ _ Hl0 (fun _ => Hn0) E Hs) as [Hn1 _].
        assert (HN1 : NN s (set_injs st n inj)) by (eapply NN_set_injs; eauto).
        apply (inject_points_np n (c_points c) 0 inj (set_injs st n inj) HN1 Hs Hn1).
      + rewrite (Hp c Hc) in *. destruct inj; [|discriminate].
        assert (HN1 : NN s (set_injs st n [])) by (eapply NN_set_injs; eauto; [constructor|rewrite (Hp c Hc); reflexivity]).
        cbn [inject_points]. split; [exact I|]. intros st' H; inversion H; subst. split; [exact HN1|reflexivity].
    - split; [|intros ? H; discriminate]. destruct k as [e| |]; [exact I|exact Hq|exact I].
  Qed.

  Lemma body_np : np_spec (body vt s rec).
  Proof.
    intros st n HN Hs. unfold body, get_singleton.
    destruct (get_lookup (reg st) n true) as [hv|f|].
    - split; [exact I|]. intros st' v H; inversion H; subst; auto.
    - pose proof (early_reference_eff s st n) as He.
      pose proof (early_reference_quiet s st n) as Hq.
      destruct (early_reference s st n) as [[st1 v]|k st1]; cbn [eff2] in He.
      + split; [exact I|]. intros st' v' H; inversion H; subst.
        destruct He as [_ _ _ Hi Ha _ _]. split; [eapply NN_same_injs; [|exact HN]; exact Hi|exact Ha].
      + split; [|intros ? ? H; discriminate]. destruct k as [e| |]; [exact I|exact Hq|exact I].
    - unfold begin_create. destruct (alookup n (L1 (reg st))); [split; [exact I|intros st' v' H; inversion H; subst; auto]|].
      unfold create. cbn [scanned set_reg].
      destruct (scanned st); [|split; [exact I|intros ? ? H; discriminate]].
      destruct (get_comp (s_pop s) n) as [c|] eqn:Ec; [|split; [exact I|intros ? ? H; discriminate]].
      unfold do_create. cbn [reg set_reg].
      match goal with |- context [populate vt s rec ?x n c] => set (st0 := x) end.
      assert (HN0 : NN s st0) by (eapply NN_same_injs; [|exact HN]; reflexivity).
      assert (Hs0 : okd st0 n) by exact Hs.
      destruct (populate_np st0 n c HN0 Hs0 Ec) as [Hnp Hok].
      destruct (populate vt s rec st0 n c) as [st1|k1 st1] eqn:EP.
      2:{ split; [|intros ? ? H; destruct k1; discriminate]. destruct k1 as [e| |]; [exact I|exact Hnp|exact I]. }
      destruct (Hok _ eq_refl) as [HN1 Ha1].
      pose proof (initialize_eff s st1 n c Ec) as Hi.
      pose proof (initialize_quiet s st1 n c) as Hq.
      destruct (initialize s st1 n c) as [[st2 w]|k2 st2] eqn:EI; cbn [eff2] in Hi.
      2:{ split; [|intros ? ? H; destruct k2; discriminate]. destruct k2 as [e| |]; [exact I|exact Hq|exact I]. }
      destruct Hi as [_ _ _ Hi2 Ha2 _ _].
      assert (HN2 : NN s st2) by (eapply NN_same_injs; [|exact HN1]; exact Hi2).
      assert (Hfin : forall v, NN s (set_reg st2 (end_create_ok (reg st2) n v)) /\
                               active (set_reg st2 (end_create_ok (reg st2) n v)) = active st).
      { intros v. split; [eapply NN_same_injs; [|exact HN2]; reflexivity|]. cbn [active set_reg].
        assert (Ha0 : active st0 = active st) by reflexivity. congruence. }
      unfold get_singleton. rewrite (FactoryBasics_get_lookup_false (reg st2) n).
      destruct (match alookup n (L1 (reg st2)) with Some v => Some v | None => alookup n (L2 (reg st2)) end) as [e|].
      + destruct w as [wv|].
        * destruct (stale_dependents vt st2 n _); split; try exact I; intros st' v' H; inversion H; subst; apply Hfin.
        * split; [exact I|]. intros st' v' H; inversion H; subst; apply Hfin.
      + split; [exact I|]. intros st' v' H; inversion H; subst; apply Hfin.
  Qed.
End NoPanic.

Theorem do_get_nopanic vt s : fix_c07 vt = true -> fix_c08 vt = true -> forall fuel, np_spec s (do_get vt s fuel).
Proof.
  intros H7 H8. induction fuel as [|f IH]; intros st d HN Hs; cbn [do_get].
  - split; [exact I|intros ? ? H; discriminate].
  - apply (body_np vt H7 H8 s (do_get vt s f) IH); assumption.
Qed.

(* ---------- a whole start ------------------------------------------------------------------------------- *)

Definition procs_pointless (s : scenario) : Prop :=
  forall p c, In p (sorted_procs s) -> get_comp (s_pop s) p = Some c -> c_points c = [].

Lemma prepare_loop_np vt s : fix_c07 vt = true -> fix_c08 vt = true -> forall ps st,
  NN s st -> (forall p c, In p ps -> get_comp (s_pop s) p = Some c -> c_points c = []) ->
  nopanic (prepare_loop vt s ps st) /\
  forall st', prepare_loop vt s ps st = Ok st' -> NN s st' /\ active st' = active st ++ ps.
Proof.
  intros H7 H8. induction ps as [|p r IH]; intros st HN Hp; cbn [prepare_loop].
  - split; [exact I|]. intros st' H; inversion H; subst. split; [exact HN|rewrite app_nil_r; reflexivity].
  - assert (Hr : forall q c, In q r -> get_comp (s_pop s) q = Some c -> c_points c = [])
      by (intros q c Hq; apply Hp; right; exact Hq).
    destruct (is_lazy (s_pop s) p).
    + assert (HN1 : NN s (set_active st (active st ++ [p]))) by (eapply NN_same_injs; [|exact HN]; reflexivity).
      destruct (IH _ HN1 Hr) as [Hnp Hok]. split; [exact Hnp|]. intros st' H.
      destruct (Hok st' H) as [HN2 Ha2]. split; [exact HN2|]. rewrite Ha2. cbn [active set_active].
      rewrite <- app_assoc. reflexivity.
    + assert (Hokd : okd s st p) by (right; intros c Hc; eapply Hp; [left; reflexivity|exact Hc]).
      destruct (do_get_nopanic vt s H7 H8 (fuel_of s) st p HN Hokd) as [Hnp Hok].
      destruct (do_get vt s (fuel_of s) st p) as [[st1 v]|k st1] eqn:E; [|split; [exact Hnp|intros ? H; discriminate]].
      destruct (Hok _ _ eq_refl) as [HN1 Ha1].
      assert (HN1' : NN s (set_active st1 (active st1 ++ [p]))) by (eapply NN_same_injs; [|exact HN1]; reflexivity).
      destruct (IH _ HN1' Hr) as [Hnp2 Hok2]. split; [exact Hnp2|]. intros st' H.
      destruct (Hok2 st' H) as [HN2 Ha2]. split; [exact HN2|]. rewrite Ha2. cbn [active set_active].
      rewrite Ha1, <- app_assoc. reflexivity.
Qed.

Lemma get_each_np vt s : fix_c07 vt = true -> fix_c08 vt = true -> forall ns st,
  NN s st -> settled (s_pop s) (active st) -> nopanic (get_each vt s ns st).
Proof.
  intros H7 H8. induction ns as [|n r IH]; intros st HN Hs; cbn [get_each]; [exact I|].
  destruct (do_get_nopanic vt s H7 H8 (fuel_of s) st n HN (or_introl Hs)) as [Hnp Hok].
  destruct (do_get vt s (fuel_of s) st n) as [[st1 v]|k st1] eqn:E; [|exact Hnp].
  destruct (Hok _ _ eq_refl) as [HN1 Ha1]. apply IH; [exact HN1|rewrite Ha1; exact Hs].
Qed.

Lemma run_each_np s ns : forall st, nopanic (run_each s ns st).
Proof.
  induction ns as [|n r IH]; intros st; cbn [run_each]; [exact I|].
  destruct (runner_fails s n); [exact I|apply IH].
Qed.

Lemma NN_finit s : NN s (set_scanned finit).
Proof. intros n i c H. cbn in H. discriminate. Qed.

Theorem run_core_nopanic vt s :
  fix_c07 vt = true -> fix_c08 vt = true ->
  procs_pointless s -> settled (s_pop s) (sorted_procs s) ->
  nopanic (run_core vt s).
Proof.
  intros H7 H8 Hp Hs. unfold run_core. destruct (s_loader_fail s); [exact I|].
  unfold prepare.
  destruct (prepare_loop_np vt s H7 H8 (sorted_procs s) (set_scanned finit) (NN_finit s) Hp) as [Hnp Hok].
  destruct (prepare_loop vt s (sorted_procs s) (set_scanned finit)) as [st1|k st1] eqn:E1; [|exact Hnp].
  destruct (Hok _ eq_refl) as [HN1 Ha1]. cbn [active set_scanned finit app] in Ha1.
  unfold refresh.
  pose proof (get_each_np vt s H7 H8 (eager_names s) st1 HN1 ltac:(rewrite Ha1; exact Hs)) as H2.
  destruct (get_each vt s (eager_names s) st1) as [st2|k st2]; [|exact H2].
  unfold call_runners. destruct (s_app s) as [[[a rp] cp]|]; [apply run_each_np|exact I].
Qed.

(* the two side conditions as booleans, evaluated on the facts of every run *)
Definition procs_pointless_b (s : scenario) : bool :=
  forallb (fun p => match get_comp (s_pop s) p with
                    | Some c => match c_points c with [] => true | _ => false end
                    | None => true
                    end) (sorted_procs s).
Definition settled_b (s : scenario) : bool := negb (settle (s_pop s) (sorted_procs s) false).

Lemma procs_pointless_b_sound s : procs_pointless_b s = true -> procs_pointless s.
Proof.
  unfold procs_pointless_b, procs_pointless. rewrite forallb_forall. intros H p c Hin Hc.
  specialize (H p Hin). rewrite Hc in H. destruct (c_points c); [reflexivity|discriminate].
Qed.
Lemma settled_b_sound s : settled_b s = true -> settled (s_pop s) (sorted_procs s).
Proof. unfold settled_b, settled. intros H. apply negb_true_iff in H. exact H. Qed.
