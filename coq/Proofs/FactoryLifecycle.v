(* Lifecycle facts (C05): the shape of one component's initialization in the log, and — along the
   recursion — that nothing is ever done twice for a name that already has a cache entry:
   its fields are not written again and no further Init is logged for it. *)
From Coq Require Import List Arith Bool Lia.
From IocVerif Require Import Model.Registry Model.Resolve Model.Factory Model.App
  Proofs.FactoryBasics Proofs.FactoryLog Proofs.FactoryTermination.
Import ListNotations.

(* ---------- the shape of InitializeComponent --------------------------------------------------------- *)

Definition is_user (pop : population) (p : name) : bool :=
  match proc_of pop p with Some (PUser _ _) => true | _ => false end.

Definition users (pop : population) (ps : list name) : list name := filter (is_user pop) ps.

Lemma before_chain_shape s n c ps : forall st st',
  before_chain s n c ps st = Ok st' ->
  log st' = rev (map (fun p => EvBefore p n (snapshot st n c)) (users (s_pop s) ps)) ++ log st
  /\ flds st' = flds st.
Proof.
  induction ps as [|p r IH]; intros st st' H; cbn [before_chain] in H.
  - inversion H; subst. split; reflexivity.
  - unfold users in *. cbn [filter]. unfold is_user at 1.
    destruct (proc_of (s_pop s) p) as [[k|early after]|] eqn:Ep.
    + apply IH; exact H.
    + destruct (faulty s p PhBefore n); [discriminate|].
      destruct (IH _ _ H) as [Hl Hf]. cbn [flds add_log] in Hf. split; [|exact Hf].
      rewrite Hl. cbn [map rev log add_log].
      assert (Hs : snapshot (add_log st (EvBefore p n (snapshot st n c))) n c = snapshot st n c) by reflexivity.
      rewrite Hs, <- app_assoc. reflexivity.
    + apply IH; exact H.
Qed.

Lemma after_chain_shape s n ps : forall st cur st' w,
  after_chain s n ps st cur = Ok (st', w) ->
  log st' = rev (map (fun p => EvAfter p n) (users (s_pop s) ps)) ++ log st.
Proof.
  induction ps as [|p r IH]; intros st cur st' w H; cbn [after_chain] in H.
  - inversion H; subst. reflexivity.
  - unfold users in *. cbn [filter]. unfold is_user at 1.
    destruct (proc_of (s_pop s) p) as [[k|early after]|] eqn:Ep.
    + eapply IH; exact H.
    + destruct (faulty s p PhAfter n); [discriminate|].
      assert (Hgo : forall st2 cur2, log st2 = EvAfter p n :: log st ->
                      after_chain s n r st2 cur2 = Ok (st', w) ->
                      log st' = rev (map (fun p0 => EvAfter p0 n) (p :: filter (is_user (s_pop s)) r)) ++ log st).
      { intros st2 cur2 Hl2 H2. rewrite (IH _ _ _ _ H2), Hl2. cbn [map rev]. rewrite <- app_assoc. reflexivity. }
      destruct (alookup n after) as [[| | |]|].
      * eapply Hgo; [|exact H]. reflexivity.
      * cbn [new_proxy] in H. eapply Hgo; [|exact H]. reflexivity.
      * destruct (klookup (p, n) (earlymade (add_log st (EvAfter p n)))); eapply Hgo; try exact H; reflexivity.
      * destruct (klookup (p, n) (earlymade (add_log st (EvAfter p n)))); [eapply Hgo; [|exact H]; reflexivity|].
        cbn [new_proxy] in H. eapply Hgo; [|exact H]. reflexivity.
      * eapply Hgo; [|exact H]. reflexivity.
    + eapply IH; exact H.
Qed.

Definition init_events (n : name) (c : comp) : list event :=
  (match c_init c with Some _ => [EvInit n] | None => [] end)
  ++ (match c_aps c with Some _ => [EvAPS n] | None => [] end).

Lemma init_methods_shape n c st st' :
  init_methods n c st = Ok st' -> log st' = init_events n c ++ log st /\ c_aps c <> Some true /\ c_init c <> Some true.
Proof.
  unfold init_methods, init_events.
  destruct (c_aps c) as [[|]|]; [discriminate| |]; (destruct (c_init c) as [[|]|]; [discriminate| |]);
    intros H; inversion H; subst; repeat split; try reflexivity; discriminate.
Qed.

(* populate ... then the before-callbacks of the user processors in invocation order (each seeing the
   fields as they are now), then AfterPropertiesSet, then Init, then the after-callbacks in the same
   order: one contiguous block of the log *)
Theorem initialize_shape s st n c st' w :
  initialize s st n c = Ok (st', w) ->
  log st' = rev (map (fun p => EvAfter p n) (users (s_pop s) (active st)))
            ++ init_events n c
            ++ rev (map (fun p => EvBefore p n (snapshot st n c)) (users (s_pop s) (active st)))
            ++ log st.
Proof.
  unfold initialize.
  destruct (before_chain s n c (active st) st) as [st1|k1 st1] eqn:E1; [|discriminate].
  destruct (before_chain_shape _ _ _ _ _ _ E1) as [Hl1 _].
  pose proof (before_chain_eff s n c (active st) st st (only_log_refl _ st)) as Hb. rewrite E1 in Hb. cbn [eff1] in Hb.
  destruct (init_methods n c st1) as [st2|k2 st2] eqn:E2; [|discriminate].
  destruct (init_methods_shape _ _ _ _ E2) as [Hl2 _].
  assert (Ha2 : active st2 = active st).
  { destruct Hb as [_ _ _ _ Ha _ _]. unfold init_methods in E2.
    destruct (c_aps c) as [[|]|]; [discriminate| |]; (destruct (c_init c) as [[|]|]; [discriminate| |]);
      inversion E2; subst; exact Ha. }
  intros H. rewrite (after_chain_shape _ _ _ _ _ _ _ H), Ha2, Hl2, Hl1. reflexivity.
Qed.

(* ---------- the lifecycle events of one component ------------------------------------------------------ *)

Definition about (m : name) (e : event) : bool :=
  match e with
  | EvBefore _ x _ | EvAfter _ x | EvAPS x | EvInit x => Nat.eqb x m
  | EvEarly _ _ | EvRun _ => false
  end.

Definition sub (m : name) (l : list event) : list event := filter (about m) l.

Lemma sub_app m l1 l2 : sub m (l1 ++ l2) = sub m l1 ++ sub m l2.
Proof. apply filter_app. Qed.

Lemma sub_none m l : Forall (fun e => about m e = false) l -> sub m l = [].
Proof.
  induction 1 as [|e r He _ IH]; [reflexivity|]. cbn [sub filter]. rewrite He. exact IH.
Qed.

Lemma sub_all m l : Forall (fun e => about m e = true) l -> sub m l = l.
Proof.
  induction 1 as [|e r He _ IH]; [reflexivity|]. cbn [sub filter]. rewrite He. f_equal. exact IH.
Qed.

Definition block (n : name) (c : comp) (us : list name) (snap : list bool) : list event :=
  rev (map (fun p => EvAfter p n) us) ++ init_events n c ++ rev (map (fun p => EvBefore p n snap) us).

Lemma block_about n c us snap : Forall (fun e => about n e = true) (block n c us snap).
Proof.
  unfold block, init_events. repeat (apply Forall_app; split).
  - apply Forall_rev. apply Forall_forall. intros e He. apply in_map_iff in He. destruct He as [p [<- _]].
    cbn. apply Nat.eqb_refl.
  - destruct (c_init c); constructor; try constructor. cbn. apply Nat.eqb_refl.
  - destruct (c_aps c); constructor; try constructor. cbn. apply Nat.eqb_refl.
  - apply Forall_rev. apply Forall_forall. intros e He. apply in_map_iff in He. destruct He as [p [<- _]].
    cbn. apply Nat.eqb_refl.
Qed.

Lemma block_other n m c us snap : m <> n -> Forall (fun e => about m e = false) (block n c us snap).
Proof.
  intros Hne. eapply Forall_impl; [|apply block_about]. intros e He.
  destruct e; cbn in *; try reflexivity; apply Nat.eqb_eq in He; subst; apply Nat.eqb_neq; auto.
Qed.

Lemma snapshot_same_fields st st' n c :
  (forall k, field_of st' n k = field_of st n k) -> snapshot st' n c = snapshot st n c.
Proof. intros H. unfold snapshot. apply map_ext. intros k. rewrite H. reflexivity. Qed.

(* ---------- frame: a call changes nothing about names that already have a cache entry ------------------ *)

Definition frame (st st' : fstate) : Prop :=
  forall m, cached (reg st) m = true ->
    sub m (log st') = sub m (log st)
    /\ (forall k, field_of st' m k = field_of st m k)
    /\ (alookup m (L1 (reg st)) = None -> alookup m (L1 (reg st')) = None).

(* frame relative to a fixed set of names C (those cached when the enclosing call started) *)
Definition frameC (C : name -> Prop) (a b : fstate) : Prop :=
  forall m, C m ->
    sub m (log b) = sub m (log a)
    /\ (forall k, field_of b m k = field_of a m k)
    /\ (alookup m (L1 (reg a)) = None -> alookup m (L1 (reg b)) = None).

Lemma frameC_refl C a : frameC C a a.
Proof. intros m _. repeat split; auto. Qed.

Lemma frameC_trans C a b c : frameC C a b -> frameC C b c -> frameC C a c.
Proof.
  intros H1 H2 m Hm. destruct (H1 m Hm) as [A1 [A2 A3]]. destruct (H2 m Hm) as [B1 [B2 B3]].
  split; [congruence|]. split; [intros k; rewrite B2; apply A2|auto].
Qed.

Lemma frameC_same C a b : log b = log a -> flds b = flds a -> L1 (reg b) = L1 (reg a) -> frameC C a b.
Proof.
  intros Hl Hf Hr m _. split; [rewrite Hl; reflexivity|]. split; [intros k; unfold field_of; rewrite Hf; reflexivity|].
  rewrite Hr. auto.
Qed.

(* a helper that only prepends events none of which is a lifecycle event of a name in C *)
Lemma frameC_only_log (C : name -> Prop) (Q : event -> Prop) a b :
  only_log Q a b -> (forall m e, C m -> Q e -> about m e = false) -> frameC C a b.
Proof.
  intros [Hr Hf _ _ _ _ [l [Hl Hq]]] Hno m Hm. split.
  - rewrite Hl, sub_app, (sub_none m l); [reflexivity|]. eapply Forall_impl; [|exact Hq]. intros e He. eapply Hno; eauto.
  - split; [intros k; unfold field_of; rewrite Hf; reflexivity|rewrite Hr; auto].
Qed.

Section Life.
  Variable Bk : name -> comp -> list bool -> list event -> Prop.
  Hypothesis HBk : forall n c us snap, Bk n c snap (block n c us snap).
  Variable vt : variant.
  Variable s : scenario.
  Let pop := s_pop s.

  (* published components have exactly one lifecycle block, whose snapshots are the final set-ness of their
     injection points; unpublished ones have no lifecycle event at all.  What "one lifecycle block" is, is a
     parameter Bk (component, its final snapshot, its events): `full_block` below for the plain model; the
     extended model (Proofs/FactoryXLife.v) also admits the after-callbacks-only block of a short-circuited
     component.  The only thing asked of Bk is that the full block satisfies it. *)
  Definition lifeG (st : fstate) : Prop :=
    forall m c, get_comp pop m = Some c ->
      match alookup m (L1 (reg st)) with
      | None => sub m (log st) = []
      | Some _ => Bk m c (snapshot st m c) (sub m (log st))
      end.
  Local Notation life := lifeG.

  Definition rec_lifeG (rec : fstate -> name -> res (fstate * ver)) : Prop :=
    forall st d st' v, rec st d = Ok (st', v) ->
      frame st st' /\ mono (reg st) (reg st') /\ (life st -> life st').
  Local Notation rec_life := rec_lifeG.

  Variable rec : fstate -> name -> res (fstate * ver).
  Hypothesis Hrec : rec_life rec.

  (* life survives anything that keeps published names' sub-logs and fields *)
  Lemma life_frame a b :
    life a ->
    (forall m, sub m (log b) = sub m (log a)) ->
    (forall m v, alookup m (L1 (reg a)) = Some v -> forall k, field_of b m k = field_of a m k) ->
    L1 (reg b) = L1 (reg a) -> life b.
  Proof.
    intros HL Hs Hf Hr m c Hc. specialize (HL m c Hc). rewrite Hr, Hs.
    destruct (alookup m (L1 (reg a))) as [v|] eqn:E; [|exact HL].
    rewrite (snapshot_same_fields a b m c (Hf m v E)). exact HL.
  Qed.

  Lemma get_all_life (C : name -> Prop) : forall cands a b vs,
    (forall m, C m -> cached (reg a) m = true) ->
    get_all rec a cands = Ok (b, vs) ->
    frameC C a b /\ mono (reg a) (reg b) /\ (life a -> life b).
  Proof.
    induction cands as [|[d|] r IH]; intros a b vs HC H; cbn [get_all] in H.
    - inversion H; subst. split; [apply frameC_refl|]. split; [apply mono_refl|auto].
    - destruct (rec a d) as [[a1 v]|k a1] eqn:E; [|discriminate].
      destruct (Hrec a d a1 v E) as [Hf1 [Hm1 Hl1]].
      destruct (get_all rec a1 r) as [[a2 vs']|k a2] eqn:E2; [|discriminate]. inversion H; subst.
      assert (HC1 : forall m, C m -> cached (reg a1) m = true) by (intros m Hm; apply Hm1, HC, Hm).
      destruct (IH a1 b vs' HC1 E2) as [Hf2 [Hm2 Hl2]].
      split; [|split; [eapply mono_trans; eauto|auto]].
      eapply frameC_trans; [|exact Hf2]. intros m Hm. apply Hf1. apply HC. exact Hm.
    - discriminate.
  Qed.

  Lemma inject_life (C : name -> Prop) a h k p vs b :
    ~ C h -> alookup h (L1 (reg a)) = None ->
    inject vt s a h k p vs = Ok b ->
    frameC C a b /\ reg b = reg a /\ (life a -> life b).
  Proof.
    intros HnC HL1. unfold inject.
    assert (Hsame : frameC C a a /\ reg a = reg a /\ (life a -> life a)) by (split; [apply frameC_refl|auto]).
    destruct vs as [|v0 r]; [destruct (pt_required p); [discriminate|intros H; inversion H; subst; exact Hsame]|].
    destruct (filter (fun v => negb (is_self h v)) (v0 :: r)) as [|w t];
      [destruct (pt_required p); [discriminate|intros H; inversion H; subst; exact Hsame]|].
    destruct (forallb _ _).
    - intros H; inversion H; subst. split; [|split; [reflexivity|]].
      + intros m Hm. split; [reflexivity|]. split; [|auto]. intros k'. rewrite field_of_write_other; [reflexivity|].
        intros ->. contradiction.
      + intros HL. eapply life_frame; [exact HL|reflexivity| |reflexivity].
        intros m v Hv k'. apply field_of_write_other. intros ->. rewrite HL1 in Hv. discriminate.
    - destruct (fix_c07 vt); [|discriminate].
      destruct (pt_required p); [discriminate|intros H; inversion H; subst; exact Hsame].
  Qed.

  Lemma inject_points_life (C : name -> Prop) h : forall ps k inj a b,
    (forall m, C m -> cached (reg a) m = true) -> ~ C h ->
    cached (reg a) h = true -> alookup h (L1 (reg a)) = None ->
    inject_points vt s rec h k ps inj a = Ok b ->
    frameC C a b /\ mono (reg a) (reg b) /\ (life a -> life b)
    /\ alookup h (L1 (reg b)) = None /\ sub h (log b) = sub h (log a).
  Proof.
    induction ps as [|p ps' IH]; intros k inj a b HC HnC Hch HL1 H; cbn [inject_points] in H.
    - inversion H; subst. split; [apply frameC_refl|]. split; [apply mono_refl|]. auto.
    - destruct inj as [|i inj'].
      { inversion H; subst. split; [apply frameC_refl|]. split; [apply mono_refl|]. auto. }
      destruct i as [|c0 c1]; [apply (IH _ _ _ _ HC HnC Hch HL1 H)|].
      destruct (get_all rec a (c0 :: c1)) as [[a1 vs]|k1 a1] eqn:E1; [|discriminate].
      set (C' := fun m => C m \/ m = h).
      assert (HC' : forall m, C' m -> cached (reg a) m = true) by (intros m [Hm| ->]; [apply HC; exact Hm|exact Hch]).
      destruct (get_all_life C' _ _ _ _ HC' E1) as [Hf1 [Hm1 Hl1]].
      destruct (Hf1 h (or_intror eq_refl)) as [Hs1 [_ Hn1]].
      destruct (inject vt s a1 h k p vs) as [a2|k2 a2] eqn:E2; [|discriminate].
      destruct (inject_life C a1 h k p vs a2 HnC (Hn1 HL1) E2) as [Hf2 [Hr2 Hl2]].
      assert (HC2 : forall m, C m -> cached (reg a2) m = true) by (intros m Hm; rewrite Hr2; apply Hm1, HC, Hm).
      assert (Hch2 : cached (reg a2) h = true) by (rewrite Hr2; apply Hm1; exact Hch).
      assert (HL2 : alookup h (L1 (reg a2)) = None) by (rewrite Hr2; apply Hn1; exact HL1).
      destruct (IH (S k) inj' a2 b HC2 HnC Hch2 HL2 H) as [Hf3 [Hm3 [Hl3 [Hn3 Hs3]]]].
      split.
      { eapply frameC_trans; [|exact Hf3]. eapply frameC_trans; [|exact Hf2].
        intros m Hm. apply Hf1. left; exact Hm. }
      split; [eapply mono_trans; [exact Hm1|]; rewrite <- Hr2; exact Hm3|].
      split; [auto|]. split; [exact Hn3|].
      rewrite Hs3. assert (Hlog2 : log a2 = log a1).
      { unfold inject in E2. destruct vs as [|v0 r0]; [destruct (pt_required p); inversion E2; reflexivity|].
        destruct (filter (fun v => negb (is_self h v)) (v0 :: r0)); [destruct (pt_required p); inversion E2; reflexivity|].
        destruct (forallb _ _); [inversion E2; reflexivity|].
        destruct (fix_c07 vt); [destruct (pt_required p); inversion E2; reflexivity|discriminate]. }
      rewrite Hlog2. exact Hs1.
  Qed.

  Lemma populate_life (C : name -> Prop) a n c b :
    (forall m, C m -> cached (reg a) m = true) -> ~ C n ->
    cached (reg a) n = true -> alookup n (L1 (reg a)) = None ->
    populate vt s rec a n c = Ok b ->
    frameC C a b /\ mono (reg a) (reg b) /\ (life a -> life b)
    /\ alookup n (L1 (reg b)) = None /\ sub n (log b) = sub n (log a).
  Proof.
    intros HC HnC Hch HL1. unfold populate.
    destruct (pipeline vt s n c (active a) a (cur_injs a n c)) as [[a1 inj]|k a1] eqn:E; [|discriminate].
    pose proof (pipeline_state _ _ _ _ _ _ _ _ _ E) as ->. intros H.
    destruct (inject_points_life C n (c_points c) 0 inj (set_injs a n inj) b HC HnC Hch HL1 H)
      as [Hf [Hm [Hl [Hn Hs]]]].
    split; [exact Hf|]. split; [exact Hm|]. split; [|split; [exact Hn|exact Hs]].
    intros HL. apply Hl. eapply life_frame; [exact HL| | |]; reflexivity.
  Qed.

  Lemma body_life : rec_life (body vt s rec).
  Proof.
    intros st n st' v H. unfold body, get_singleton in H.
    destruct (get_lookup (reg st) n true) as [hv|f|] eqn:EL.
    - inversion H; subst. split; [intros m _; repeat split; auto|]. split; [apply mono_refl|auto].
    - (* early reference: only EvEarly events, the registry changes in L2/L3 only *)
      unfold early_reference in H.
      pose proof (early_chain_eff s n (active st) st st (VOrig n) (only_log_refl _ st)) as He.
      destruct (early_chain s n (active st) st (VOrig n)) as [[st1 ev]|k st1]; [|discriminate].
      cbn [eff2] in He. inversion H; subst st' v.
      assert (Hfr : frameC (fun _ => True) st st1).
      { eapply frameC_only_log; [exact He|]. intros m e _ [Hq _]. destruct e; cbn in Hq; try contradiction; reflexivity. }
      destruct He as [Hr Hf _ _ _ _ _].
      split.
      { intros m _. destruct (Hfr m I) as [A1 [A2 A3]]. split; [exact A1|]. split; [exact A2|].
        cbn [reg set_reg get_promote L1]. exact A3. }
      split; [cbn [reg set_reg]; rewrite Hr; apply mono_get_promote|].
      intros HL. eapply life_frame; [exact HL| | |].
      + intros m. apply (Hfr m I).
      + intros m v _ k. apply (Hfr m I).
      + cbn [reg set_reg get_promote L1]. rewrite Hr. reflexivity.
    - pose proof (FactoryBasics.get_lookup_miss_uncached _ _ EL) as Hunc.
      assert (HL1 : alookup n (L1 (reg st)) = None).
      { unfold cached in Hunc. destruct (alookup n (L1 (reg st))); [discriminate|reflexivity]. }
      unfold begin_create in H. rewrite HL1 in H. unfold create in H. cbn [scanned set_reg] in H.
      destruct (scanned st); [|discriminate].
      destruct (get_comp (s_pop s) n) as [c|] eqn:Ec; [|discriminate].
      unfold do_create in H. cbn [reg set_reg] in H.
      match type of H with context [populate vt s rec ?x n c] => set (st0 := x) in * end.
      set (C := fun m => cached (reg st) m = true).
      assert (HnC : ~ C n) by (unfold C; rewrite Hunc; discriminate).
      assert (HC0 : forall m, C m -> cached (reg st0) m = true).
      { intros m Hm. unfold st0. cbn [reg set_reg]. apply mono_add_factory. exact Hm. }
      assert (Hch0 : cached (reg st0) n = true) by (unfold st0; cbn [reg set_reg]; apply cached_add_factory).
      assert (HL0 : alookup n (L1 (reg st0)) = None) by exact HL1.
      destruct (populate vt s rec st0 n c) as [st1|k1 st1] eqn:EP; [|destruct k1; discriminate].
      destruct (populate_life C st0 n c st1 HC0 HnC Hch0 HL0 EP) as [Hf1 [Hm1 [Hl1 [Hn1 Hs1]]]].
      destruct (initialize s st1 n c) as [[st2 w]|k2 st2] eqn:EI; [|destruct k2; discriminate].
      pose proof (initialize_shape s st1 n c st2 w EI) as Hshape.
      pose proof (initialize_eff s st1 n c Ec) as Hie. rewrite EI in Hie. cbn [eff2] in Hie.
      destruct Hie as [Hr2 Hfl2 _ _ _ _ _].
      (* whatever gets published, the final state is st2 with n in L1 *)
      assert (Hfin : forall pv,
                frame st (set_reg st2 (end_create_ok (reg st2) n pv)) /\
                mono (reg st) (reg (set_reg st2 (end_create_ok (reg st2) n pv))) /\
                (life st -> life (set_reg st2 (end_create_ok (reg st2) n pv)))).
      { intros pv.
        assert (Hblock : log st2 = block n c (users (s_pop s) (active st1)) (snapshot st1 n c) ++ log st1)
          by (rewrite Hshape; unfold block; rewrite <- !app_assoc; reflexivity).
        assert (Hfo2 : forall m k, field_of st2 m k = field_of st1 m k) by (intros; unfold field_of; rewrite Hfl2; reflexivity).
        assert (Hsub_other : forall m, m <> n -> sub m (log st2) = sub m (log st1)).
        { intros m Hne. rewrite Hblock, sub_app, (sub_none m); [reflexivity|apply block_other; exact Hne]. }
        split; [|split].
        - intros m Hm. assert (Hne : m <> n) by (intros ->; apply HnC; exact Hm).
          destruct (Hf1 m Hm) as [A1 [A2 A3]]. cbn [log set_reg]. split; [rewrite (Hsub_other m Hne); exact A1|].
          split.
          + intros k. change (field_of (set_reg st2 (end_create_ok (reg st2) n pv)) m k) with (field_of st2 m k).
            rewrite Hfo2. apply A2.
          + intros Hn. cbn [reg set_reg]. unfold end_create_ok, add_singleton. cbn [L1].
            rewrite (alookup_aset_neq n m pv _ Hne), Hr2. apply A3. exact Hn.
        - cbn [reg set_reg]. eapply mono_trans; [|apply mono_end_create_ok]. rewrite Hr2.
          intros m Hm. apply Hm1. apply HC0. exact Hm.
        - intros HL.
          assert (HL0' : life st0).
          { eapply life_frame; [exact HL| | |]; reflexivity. }
          pose proof (Hl1 HL0') as HLp.
          intros m cm Hcm. cbn [reg set_reg log]. unfold end_create_ok, add_singleton. cbn [L1].
          destruct (Nat.eq_dec m n) as [->|Hne].
          + rewrite alookup_aset_eq. assert (cm = c) by (unfold pop in Hcm; congruence). subst cm.
            rewrite Hblock, sub_app, (sub_all n _ (block_about n c _ _)).
            assert (Hsn : sub n (log st1) = []).
            { rewrite Hs1. specialize (HL0' n c Hcm). rewrite HL0 in HL0'. exact HL0'. }
            rewrite Hsn, app_nil_r.
            match goal with |- Bk _ _ (snapshot ?b _ _) _ => rewrite (snapshot_same_fields st1 b n c) end.
            * apply HBk.
            * intros k. apply Hfo2.
          + rewrite (alookup_aset_neq n m pv _ Hne), Hr2. specialize (HLp m cm Hcm).
            rewrite (Hsub_other m Hne).
            destruct (alookup m (L1 (reg st1))) as [pm|]; [|exact HLp].
            match goal with |- Bk _ _ (snapshot ?b _ _) _ => rewrite (snapshot_same_fields st1 b m cm) end.
            * exact HLp.
            * intros k. apply Hfo2. }
      unfold get_singleton in H. rewrite (FactoryBasics_get_lookup_false (reg st2) n) in H.
      destruct (match alookup n (L1 (reg st2)) with Some v0 => Some v0 | None => alookup n (L2 (reg st2)) end) as [e|].
      + destruct w as [wv|].
        * destruct (stale_dependents vt st2 n _); [|discriminate]. inversion H; subst. apply Hfin.
        * inversion H; subst. apply Hfin.
      + inversion H; subst. apply Hfin.
  Qed.
End Life.

Definition full_block (n : name) (c : comp) (snap : list bool) (l : list event) : Prop :=
  exists us, l = block n c us snap.
Lemma full_block_ok n c us snap : full_block n c snap (block n c us snap).
Proof. exists us. reflexivity. Qed.

Notation life := (lifeG full_block).
Notation rec_life := (rec_lifeG full_block).

Theorem do_get_life vt s : forall fuel, rec_life s (do_get vt s fuel).
Proof.
  induction fuel as [|f IH]; intros st d st' v H; [discriminate|].
  cbn [do_get] in H. eapply (body_life full_block full_block_ok vt s (do_get vt s f) IH); exact H.
Qed.

(* ---------- a whole start -------------------------------------------------------------------------------- *)

Lemma life_same_core s a b :
  log b = log a -> flds b = flds a -> L1 (reg b) = L1 (reg a) -> life s a -> life s b.
Proof.
  intros Hl Hf Hr HL. eapply life_frame; [exact HL| | |exact Hr].
  - intros m. rewrite Hl. reflexivity.
  - intros m v _ k. unfold field_of. rewrite Hf. reflexivity.
Qed.

Lemma prepare_loop_life vt s ps : forall st st', life s st -> prepare_loop vt s ps st = Ok st' -> life s st'.
Proof.
  induction ps as [|p r IH]; intros st st' HL H; cbn [prepare_loop] in H; [inversion H; subst; exact HL|].
  destruct (is_lazy (s_pop s) p).
  - eapply IH; [|exact H]. eapply life_same_core; [| | |exact HL]; reflexivity.
  - destruct (do_get vt s (fuel_of s) st p) as [[st1 v]|k st1] eqn:E; [|discriminate].
    destruct (do_get_life vt s _ _ _ _ _ E) as [_ [_ Hl]].
    eapply IH; [|exact H]. eapply life_same_core; [| | |apply Hl; exact HL]; reflexivity.
Qed.

Lemma get_each_life vt s ns : forall st st', life s st -> get_each vt s ns st = Ok st' -> life s st'.
Proof.
  induction ns as [|n r IH]; intros st st' HL H; cbn [get_each] in H; [inversion H; subst; exact HL|].
  destruct (do_get vt s (fuel_of s) st n) as [[st1 v]|k st1] eqn:E; [|discriminate].
  destruct (do_get_life vt s _ _ _ _ _ E) as [_ [_ Hl]]. eapply IH; [apply Hl; exact HL|exact H].
Qed.

Lemma run_each_life s ns : forall st st', life s st -> run_each s ns st = Ok st' -> life s st'.
Proof.
  induction ns as [|n r IH]; intros st st' HL H; cbn [run_each] in H; [inversion H; subst; exact HL|].
  destruct (runner_fails s n); [discriminate|]. eapply IH; [|exact H].
  eapply life_frame; [exact HL| | |]; reflexivity.
Qed.

Lemma life_finit s : life s (set_scanned finit).
Proof. intros m c _. cbn. reflexivity. Qed.

Theorem run_core_life vt s st : run_core vt s = Ok st -> life s st.
Proof.
  unfold run_core. destruct (s_loader_fail s); [discriminate|]. unfold prepare.
  destruct (prepare_loop vt s (sorted_procs s) (set_scanned finit)) as [st1|k st1] eqn:E1; [|discriminate].
  pose proof (prepare_loop_life vt s _ _ _ (life_finit s) E1) as H1.
  unfold refresh. destruct (get_each vt s (eager_names s) st1) as [st2|k st2] eqn:E2; [|discriminate].
  pose proof (get_each_life vt s _ _ _ H1 E2) as H2.
  unfold call_runners. destruct (s_app s) as [[[a rp] cp]|]; [|intros H; inversion H; subst; exact H2].
  intros H. eapply run_each_life; eauto.
Qed.

(* counting Init events through the block *)
Definition is_init_of (m : name) (e : event) : bool := match e with EvInit x => Nat.eqb x m | _ => false end.
Definition count_init (m : name) (l : list event) : nat := length (filter (is_init_of m) l).

Lemma count_init_sub m l : count_init m l = count_init m (sub m l).
Proof.
  unfold count_init, sub. induction l as [|e r IH]; [reflexivity|]. cbn [filter].
  destruct (is_init_of m e) eqn:E1.
  - assert (about m e = true) as -> by (destruct e; cbn in *; try discriminate; exact E1).
    cbn [filter length]. rewrite E1. cbn [length]. f_equal. exact IH.
  - destruct (about m e); [cbn [filter]; rewrite E1|]; exact IH.
Qed.

Lemma count_init_block n c us snap :
  count_init n (block n c us snap) = match c_init c with Some _ => 1 | None => 0 end.
Proof.
  unfold count_init, block, init_events. rewrite !filter_app, !app_length.
  assert (H1 : forall l, filter (is_init_of n) (rev (map (fun p => EvAfter p n) l)) = []).
  { intros l. induction l as [|a r IH]; [reflexivity|]. cbn [map rev]. rewrite filter_app, IH. reflexivity. }
  assert (H2 : forall l, filter (is_init_of n) (rev (map (fun p => EvBefore p n snap) l)) = []).
  { intros l. induction l as [|a r IH]; [reflexivity|]. cbn [map rev]. rewrite filter_app, IH. reflexivity. }
  rewrite H1, H2. destruct (c_init c); destruct (c_aps c); cbn; rewrite ?Nat.eqb_refl; reflexivity.
Qed.
