(* Dependencies first (C05 c05_deps_first): when a component c has been initialised and holds a
   component d, then either every lifecycle event of d is older than every lifecycle event of c
   (d completed its initialisation before c's began), or d transitively REQUESTED c — d was still in
   creation, waiting for c, when c was initialised: d depends back on c.

   Created only if needed (C05 c05_lazy_only_if_needed): every component with a cache entry is a root (not
   LazyInit: Refresh or PrepareComponents asks for it) or is reachable through requests from a created root. *)
From Coq Require Import List Arith Bool Lia.
From IocVerif Require Import Model.Registry Model.Resolve Model.Factory Model.App
  Proofs.FactoryBasics Proofs.FactoryLog Proofs.FactoryInvariant Proofs.FactoryLifecycle Proofs.ResolveProofs
  Proofs.FactoryNoPanic Proofs.FactoryWiring.
Import ListNotations.

Section Deps.
  Variable vt : variant.
  Variable s : scenario.
  Let pop := s_pop s.

  (* h requests d: d is among the components the pipeline proposes for some point of h *)
  Definition req (h d : name) : Prop :=
    exists c pl k x, get_comp pop h = Some c /\ plan vt s h c = Some pl /\ nth_error pl k = Some x /\ In d (remove_nil x).

  Inductive dep : name -> name -> Prop :=
  | dep1 h d : req h d -> dep h d
  | depS h m d : req h m -> dep m d -> dep h d.

  Lemma dep_snoc a b n : dep a b -> req b n -> dep a n.
  Proof. induction 1 as [h d Hr|h m d Hr Hd IH]; intros Hn; [eapply depS; [exact Hr|apply dep1; exact Hn]|eapply depS; [exact Hr|apply IH; exact Hn]]. Qed.

  (* the in-creation stack (newest first): every frame was requested by the frame below it *)
  Fixpoint chain (l : list name) : Prop :=
    match l with
    | a :: ((b :: _) as r) => req b a /\ chain r
    | _ => True
    end.

  Lemma chain_below : forall cr n d, chain (n :: cr) -> In d cr -> dep d n.
  Proof.
    induction cr as [|b r IH]; intros n d Hc Hin; [contradiction|].
    cbn [chain] in Hc. destruct Hc as [Hreq Hc']. destruct Hin as [<-|Hin]; [apply dep1; exact Hreq|].
    eapply dep_snoc; [apply (IH b d Hc' Hin)|exact Hreq].
  Qed.

  (* all lifecycle events of d are older than every lifecycle event of c (log is newest first) *)
  Definition older (d c : name) (l : list event) : Prop :=
    forall l1 e l2, l = l1 ++ e :: l2 -> about c e = true -> sub d l1 = [].

  Lemma sub_nil_In m l e : sub m l = [] -> In e l -> about m e = false.
  Proof.
    intros Hs Hin. destruct (about m e) eqn:E; [|reflexivity].
    assert (Hi : In e (sub m l)) by (unfold sub; apply filter_In; split; assumption). rewrite Hs in Hi. contradiction.
  Qed.

  Lemma sub_nil_prefix m l1 l2 : sub m (l1 ++ l2) = [] -> sub m l1 = [].
  Proof. rewrite sub_app. intros H. apply app_eq_nil in H. tauto. Qed.

  Lemma older_extend d c l' l : sub d l' = [] -> sub c l' = [] -> older d c l -> older d c (l' ++ l).
  Proof.
    intros Hd Hc Ho l1 e l2 Heq Hab.
    destruct (app_eq_app _ _ _ _ Heq) as [x [[H1 H2]|[H1 H2]]].
    - (* l' = l1 ++ x, e :: l2 = x ++ l *)
      destruct x as [|y x'].
      + cbn in H2. rewrite app_nil_r in H1. subst l1. rewrite (Ho [] e l2 (eq_sym H2) Hab) || idtac.
        rewrite Hd. reflexivity.
      + cbn in H2. inversion H2; subst y. exfalso.
        assert (Hin : In e l') by (rewrite H1; apply in_or_app; right; left; reflexivity).
        rewrite (sub_nil_In c l' e Hc Hin) in Hab. discriminate.
    - (* l1 = l' ++ x, l = x ++ e :: l2 *)
      subst l1. rewrite sub_app, Hd. cbn [app]. apply (Ho x e l2 H2 Hab).
  Qed.

  Lemma older_block_new d n c us snap l : d <> n -> sub n l = [] -> older d n (block n c us snap ++ l).
  Proof.
    intros Hne Hn l1 e l2 Heq Hab.
    destruct (app_eq_app _ _ _ _ Heq) as [x [[H1 H2]|[H1 H2]]].
    - assert (Hs : sub d (block n c us snap) = []) by (apply sub_none; apply block_other; exact Hne).
      rewrite H1 in Hs. apply (sub_nil_prefix d l1 x Hs).
    - exfalso. assert (Hin : In e l) by (rewrite H2; apply in_or_app; right; left; reflexivity).
      rewrite (sub_nil_In n l e Hn Hin) in Hab. discriminate.
  Qed.

  (* the invariant: every published holder c of a version of d <> c *)
  Definition DF (st : fstate) : Prop :=
    forall c k v, alookup c (L1 (reg st)) <> None -> In v (field_of st c k) -> owner v <> c ->
      (alookup (owner v) (L1 (reg st)) <> None /\ older (owner v) c (log st)) \/ dep (owner v) c.

  (* created only if needed: a root is a component the container itself asks for (not LazyInit) *)
  Definition root (n : name) : Prop := is_lazy pop n = false.
  Definition needed (r : rstate) (n : name) : Prop :=
    root n \/ exists a, root a /\ cached r a = true /\ dep a n.
  Definition ND (st : fstate) : Prop := forall n, cached (reg st) n = true -> needed (reg st) n.

  Lemma needed_mono r r' n : mono r r' -> needed r n -> needed r' n.
  Proof. intros Hm [Hr|[a [Ha [Hc Hd]]]]; [left; exact Hr|right; exists a; split; [exact Ha|split; [apply Hm; exact Hc|exact Hd]]]. Qed.

  Lemma needed_req r h n : cached r h = true -> needed r h -> req h n -> needed r n.
  Proof.
    intros Hc [Hr|[a [Ha [Hca Hd]]]] Hq; right.
    - exists h. split; [exact Hr|]. split; [exact Hc|apply dep1; exact Hq].
    - exists a. split; [exact Ha|]. split; [exact Hca|eapply dep_snoc; eauto].
  Qed.

  Lemma ND_step st st' : mono (reg st) (reg st') ->
    (forall m, cached (reg st') m = true -> cached (reg st) m = true \/ needed (reg st') m) -> ND st -> ND st'.
  Proof.
    intros Hm Hanti Hn m Hc. destruct (Hanti m Hc) as [Hc0|Hnd]; [|exact Hnd].
    eapply needed_mono; [exact Hm|apply Hn; exact Hc0].
  Qed.

  Lemma ND_reg st st' : reg st' = reg st -> ND st -> ND st'.
  Proof. intros Hr Hn m Hc. rewrite Hr in *. apply Hn; exact Hc. Qed.

  Definition DN (st : fstate) : Prop := DF st /\ ND st.

  (* a call is justified: the container asks for a root, or the component in creation requests d *)
  Definition callok (st : fstate) (d : name) : Prop :=
    match creating (reg st) with [] => root d | h :: _ => req h d end.

  Hypothesis H3 : fix_c03 vt = true.
  Hypothesis H7 : fix_c07 vt = true.
  Hypothesis H8 : fix_c08 vt = true.
  Hypothesis H10 : fix_c10 vt = true.

  Variable rec : fstate -> name -> res (fstate * ver).
  Hypothesis Hspec : rec_spec rec.
  Hypothesis Hlife : rec_life s rec.
  Hypothesis Hlog : forall st d, geff2 s st (rec st d).
  Hypothesis HG : forall st d st' v, G vt s st -> full s st -> rec st d = Ok (st', v) -> G vt s st'.
  Hypothesis Hdf : forall st d st' v, G vt s st -> full s st -> life s st -> chain (creating (reg st)) -> callok st d ->
    DN st -> rec st d = Ok (st', v) -> DN st'.

  (* the bundle carried along *)
  Definition B (st : fstate) : Prop := G vt s st /\ life s st /\ chain (creating (reg st)) /\ DN st.

  Lemma rec_B st d st' v : B st -> full s st -> callok st d -> rec st d = Ok (st', v) ->
    B st' /\ creating (reg st') = creating (reg st) /\ full s st'.
  Proof.
    intros [Hg [Hl [Hch Hd]]] Hfu Hco E.
    destruct (Hspec st d st' v (g_inv vt s st Hg) E) as [_ [Hc _]].
    destruct (Hlife st d st' v E) as [_ [_ Hl']].
    pose proof (Hlog st d) as Hlg. rewrite E in Hlg. cbn [geff2] in Hlg. destruct Hlg as [Ha _ _].
    split; [|split; [exact Hc|unfold full; rewrite Ha; exact Hfu]]. split; [eapply HG; eauto|].
    split; [apply Hl'; exact Hl|]. split; [rewrite Hc; exact Hch|]. eapply Hdf; eauto.
  Qed.

  Lemma get_all_B : forall l st st' vs, B st -> full s st -> (forall d, In d l -> callok st d) ->
    get_all rec st (map Some l) = Ok (st', vs) -> B st' /\ creating (reg st') = creating (reg st) /\ full s st'.
  Proof.
    induction l as [|d r IH]; intros st st' vs Hb Hfu Hco H; cbn [map get_all] in H.
    - inversion H; subst. auto.
    - destruct (rec st d) as [[st1 v]|k st1] eqn:E; [|discriminate].
      destruct (rec_B st d st1 v Hb Hfu (Hco d (or_introl eq_refl)) E) as [Hb1 [Hc1 Hfu1]].
      destruct (get_all rec st1 (map Some r)) as [[st2 vs']|k st2] eqn:E2; [|discriminate]. inversion H; subst.
      destruct (IH st1 st' vs' Hb1 Hfu1 ltac:(intros x Hx; unfold callok; rewrite Hc1; apply (Hco x (or_intror Hx))) E2)
        as [Hb2 [Hc2 Hfu2]].
      split; [exact Hb2|]. split; [congruence|exact Hfu2].
  Qed.

  Lemma B_write st h k used cr :
    B st -> creating (reg st) = h :: cr -> Forall (current st) used ->
    (forall v, In v used -> is_self h v = false) -> B (write_field st h k used).
  Proof.
    intros [Hg [Hl [Hch Hd]]] Hcr Hcur Hns.
    assert (HL1 : alookup h (L1 (reg st)) = None)
      by (apply (i_creating_unpub st (g_inv vt s st Hg)); rewrite Hcr; left; reflexivity).
    split; [eapply G_write; eauto|].
    split.
    { eapply life_frame; [exact Hl|reflexivity| |reflexivity]. intros m v Hv k'. apply field_of_write_other.
      intros ->. rewrite HL1 in Hv. discriminate. }
    split; [exact Hch|]. split; [|eapply ND_reg; [|exact (proj2 Hd)]; reflexivity].
    intros c k' v Hp Hin Hne. change (reg (write_field st h k used)) with (reg st) in *.
    assert (Hch' : c <> h) by (intros ->; apply Hp; exact HL1).
    rewrite (field_of_write_other st h k used c k' Hch') in Hin. apply (proj1 Hd c k' v Hp Hin Hne).
  Qed.

  Lemma inject_points_B h cr : forall ps k pl st st',
    B st -> full s st -> creating (reg st) = h :: cr -> length pl = length ps ->
    Forall (fun r => exists l, r = map Some l /\ ~ In h l) pl ->
    Forall (fun x => forall d, In d (remove_nil x) -> req h d) pl ->
    inject_points vt s rec h k ps pl st = Ok st' ->
    B st' /\ creating (reg st') = h :: cr /\ sub h (log st') = sub h (log st).
  Proof.
    induction ps as [|p ps' IH]; intros k pl st st' Hb Hfu Hcr Hlen Hsh Hrq H; cbn [inject_points] in H.
    - inversion H; subst. auto.
    - destruct pl as [|x pl']; [discriminate|]. cbn [length] in Hlen.
      inversion Hsh as [|? ? [l [Hx Hnl]] Hsh']; subst x. inversion Hrq as [|? ? Hrx Hrq']; subst.
      destruct l as [|a t]; [cbn [map] in H; apply (IH (S k) pl' st st' Hb Hfu Hcr ltac:(lia) Hsh' Hrq' H)|].
      change (map Some (a :: t)) with (Some a :: map Some t) in H.
      destruct (get_all rec st (Some a :: map Some t)) as [[st1 vs]|k1 st1] eqn:E1; [|discriminate].
      change (Some a :: map Some t) with (map Some (a :: t)) in E1.
      destruct (get_all_B (a :: t) st st1 vs Hb Hfu
                  ltac:(intros d Hd; unfold callok; rewrite Hcr; apply Hrx; rewrite remove_nil_map_Some; exact Hd) E1)
        as [Hb1 [Hc1 Hfu1]].
      destruct Hb as [Hg [Hl [Hch Hd]]].
      destruct (get_all_spec rec Hspec _ _ _ _ (g_inv vt s st Hg) E1) as [_ [_ [_ Hcur]]].
      assert (Hcr1 : creating (reg st1) = h :: cr) by congruence.
      assert (Hcached : cached (reg st) h = true)
        by (apply (i_creating_cached st (g_inv vt s st Hg)); rewrite Hcr; left; reflexivity).
      destruct (get_all_life full_block s rec Hlife (fun m => m = h) _ _ _ _ ltac:(intros m ->; exact Hcached) E1) as [Hfr _].
      destruct (Hfr h eq_refl) as [Hsub1 _].
      destruct (inject vt s st1 h k p vs) as [st2|k2 st2] eqn:E2; [|discriminate].
      assert (Hb2 : B st2 /\ creating (reg st2) = h :: cr /\ log st2 = log st1).
      { destruct (inject_cases vt s st1 h k p vs st2 E2) as [->|Hw]; [auto|].
        cbv zeta in Hw. destruct Hw as [_ [-> _]]. split; [|split; reflexivity || exact Hcr1].
        eapply B_write; [exact Hb1|exact Hcr1| |].
        - rewrite Forall_forall in *. intros v Hv. apply Hcur.
          assert (Hin : In v (filter (fun v0 => negb (is_self h v0)) vs)).
          { destruct (pt_slice p); [exact Hv|]. destruct (filter (fun v0 => negb (is_self h v0)) vs); [contradiction|].
            cbn [firstn] in Hv. destruct Hv as [<-|[]]. left; reflexivity. }
          apply filter_In in Hin. tauto.
        - intros v Hv.
          assert (Hin : In v (filter (fun v0 => negb (is_self h v0)) vs)).
          { destruct (pt_slice p); [exact Hv|]. destruct (filter (fun v0 => negb (is_self h v0)) vs); [contradiction|].
            cbn [firstn] in Hv. destruct Hv as [<-|[]]. left; reflexivity. }
          apply filter_In in Hin. destruct Hin as [_ Hn]. apply negb_true_iff in Hn. exact Hn. }
      destruct Hb2 as [Hb2 [Hcr2 Hlog2]].
      assert (Hfu2 : full s st2).
      { unfold full. destruct (inject_cases vt s st1 h k p vs st2 E2) as [->|Hw]; [exact Hfu1|].
        cbv zeta in Hw. destruct Hw as [_ [-> _]]. exact Hfu1. }
      destruct (IH (S k) pl' st2 st' Hb2 Hfu2 Hcr2 ltac:(lia) Hsh' Hrq' H) as [Hb' [Hcr' Hsub']].
      split; [exact Hb'|]. split; [exact Hcr'|]. rewrite Hsub', Hlog2. exact Hsub1.
  Qed.

  Lemma DF_log_early st st' :
    reg st' = reg st -> flds st' = flds st ->
    (exists l, log st' = l ++ log st /\ Forall (fun e => forall m, about m e = false) l) ->
    DF st -> DF st'.
  Proof.
    intros Hr Hf [l [Hl Hq]] Hd c k v Hp Hin Hne. rewrite Hr in Hp.
    assert (Hfo : field_of st' c k = field_of st c k) by (unfold field_of; rewrite Hf; reflexivity).
    rewrite Hfo in Hin. destruct (Hd c k v Hp Hin Hne) as [[Hpd Ho]|Hdep]; [|right; exact Hdep].
    left. rewrite Hr. split; [exact Hpd|]. rewrite Hl.
    assert (Hs : forall m, sub m l = []) by (intros m; apply sub_none; eapply Forall_impl; [|exact Hq]; intros e He; apply He).
    apply older_extend; [apply Hs|apply Hs|exact Ho].
  Qed.

  Lemma body_B : forall st n st' v,
    B st -> (full s st \/ (forall c, get_comp pop n = Some c -> c_points c = [])) -> callok st n ->
    body vt s rec st n = Ok (st', v) -> DN st'.
  Proof.
    intros st n st' v [Hg [Hl [Hch Hd]]] Hcase Hco H.
    unfold body, get_singleton in H.
    destruct (get_lookup (reg st) n true) as [hv|f|] eqn:EL.
    - inversion H; subst. exact Hd.
    - unfold early_reference in H.
      pose proof (early_chain_eff s n (active st) st st (VOrig n) (only_log_refl _ st)) as He.
      destruct (early_chain s n (active st) st (VOrig n)) as [[st1 ev]|k st1]; [|discriminate].
      cbn [eff2] in He. inversion H; subst st' v. destruct He as [Hr Hf _ _ _ _ [l [Hlg Hq]]].
      assert (Hd1 : DF st1).
      { eapply DF_log_early; [exact Hr|exact Hf| |exact (proj1 Hd)]. exists l. split; [exact Hlg|].
        eapply Forall_impl; [|exact Hq]. intros e [He _] m. destruct e; cbn in He; try contradiction. reflexivity. }
      split.
      { intros c0 k0 v0 Hp Hin Hne. cbn [reg set_reg get_promote L1] in Hp.
        destruct (Hd1 c0 k0 v0 Hp Hin Hne) as [[Hpd Ho]|Hdep]; [left; split; [exact Hpd|exact Ho]|right; exact Hdep]. }
      destruct (get_lookup_need _ _ _ _ EL) as [_ [_ HL3]].
      eapply (ND_step st); [| |exact (proj2 Hd)]; cbn [reg set_reg]; rewrite Hr.
      { apply mono_get_promote. }
      intros m Hm. left. destruct (Nat.eq_dec m n) as [->|Hmn].
      { unfold cached. rewrite HL3. cbn. rewrite orb_true_r. reflexivity. }
      unfold cached, get_promote in Hm. cbn [L1 L2 L3] in Hm.
      rewrite (alookup_aset_neq n m ev _ Hmn), (alookup_aremove_neq n m _ Hmn) in Hm. exact Hm.
    - pose proof (FactoryBasics.get_lookup_miss_uncached _ _ EL) as Hunc.
      destruct (get_lookup_miss_true _ _ EL) as [HL1 [HL2 HL3]].
      unfold begin_create in H. rewrite HL1 in H.
      destruct (Inv_push st n (g_inv vt s st Hg) Hunc) as [Hadd HI0]. rewrite Hadd in H.
      unfold create in H. cbn [scanned set_reg] in H.
      destruct (scanned st); [|discriminate].
      destruct (get_comp (s_pop s) n) as [c|] eqn:Ec; [|discriminate].
      unfold do_create in H. cbn [reg set_reg] in H.
      match type of H with context [populate vt s rec ?x n c] => set (st0 := x) in * end.
      destruct (g_fresh vt s st Hg n Hunc) as [Hinj0 Hfld0].
      assert (Hnin : ~ In n (creating (reg st))).
      { intros Hin. rewrite (i_creating_cached st (g_inv vt s st Hg) n Hin) in Hunc. discriminate. }
      assert (Hsubn : sub n (log st) = []) by (specialize (Hl n c Ec); rewrite HL1 in Hl; exact Hl).
      assert (Hcr0 : creating (reg st0) = n :: creating (reg st)) by reflexivity.
      assert (Hch0 : chain (n :: creating (reg st))).
      { unfold callok in Hco. destruct (creating (reg st)) as [|b r]; [exact I|]. cbn [chain]. split; [exact Hco|exact Hch]. }
      assert (Hb0 : forall pl, B (set_injs st0 n pl)).
      { intros pl. split; [|split; [|split]].
        - destruct Hg as [Gi Gf Gw]. constructor.
          + eapply Inv_same_core; [|exact HI0]. repeat split.
          + intros m Hm. change (reg (set_injs st0 n pl)) with (reg st0) in Hm.
            assert (Hm0 : cached (reg st) m = false).
            { destruct (cached (reg st) m) eqn:E; [|reflexivity].
              assert (Hc0 : cached (reg st0) m = true) by (unfold st0; cbn [reg set_reg]; apply mono_add_factory; exact E).
              rewrite Hc0 in Hm. discriminate. }
            destruct (Gf m Hm0) as [A1 A2]. split; [|exact A2]. cbn [injs set_injs st0 set_reg].
            assert (Hne : m <> n).
            { intros ->. unfold st0 in Hm. cbn [reg set_reg] in Hm. rewrite cached_add_factory in Hm. discriminate. }
            rewrite (alookup_aset_neq n m pl _ Hne). exact A1.
          + intros h' c' Hp Hc'. exact (Gw h' c' Hp Hc').
        - eapply life_frame; [exact Hl| | |]; reflexivity.
        - exact Hch0.
        - split; [intros c' k0 v0 Hp Hin Hne; exact (proj1 Hd c' k0 v0 Hp Hin Hne)|].
          assert (Hmono0 : mono (reg st) (reg st0)) by (intros m Hm; unfold st0; cbn [reg set_reg]; apply mono_add_factory; exact Hm).
          intros m Hm. change (reg (set_injs st0 n pl)) with (reg st0) in *.
          destruct (Nat.eq_dec m n) as [->|Hmn].
          + apply (needed_mono (reg st)); [exact Hmono0|]. unfold callok in Hco.
            destruct (creating (reg st)) as [|b r] eqn:Ecr; [left; exact Hco|].
            assert (Hcb : cached (reg st) b = true) by (apply (i_creating_cached st (g_inv vt s st Hg)); rewrite Ecr; left; reflexivity).
            apply (needed_req (reg st) b n Hcb (proj2 Hd b Hcb) Hco).
          + apply (needed_mono (reg st)); [exact Hmono0|]. apply (proj2 Hd).
            unfold st0, cached, add_factory in Hm. cbn [reg set_reg L1 L2 L3] in Hm.
            rewrite (alookup_aset_neq n m n _ Hmn) in Hm. exact Hm. }
      destruct (populate vt s rec st0 n c) as [st1|k1 st1] eqn:EP; [|destruct k1; discriminate].
      assert (Hpop : B st1 /\ creating (reg st1) = n :: creating (reg st) /\ sub n (log st1) = []).
      { unfold populate in EP. unfold cur_injs in EP. change (injs st0) with (injs st) in EP. rewrite Hinj0 in EP.
        change (active st0) with (active st) in EP.
        destruct Hcase as [Hfu|Hpl].
        - unfold full in Hfu. rewrite (pipeline_full vt s n c (active st) st0 H8 Hfu) in EP.
          destruct (cfg_stage c true); [discriminate|]. destruct (cfg_stage c false); [discriminate|].
          destruct (plan vt s n c) as [pl|] eqn:Epl; [|discriminate].
          destruct (pointwise_shape vt (s_pop s) n H10 (c_points c) _ pl Epl ltac:(rewrite map_length; reflexivity))
            as [Hlen Hsh].
          assert (Hrq : Forall (fun x => forall d, In d (remove_nil x) -> req n d) pl).
          { apply Forall_forall. intros x Hx d Hdin. destruct (In_nth_error _ _ Hx) as [k Hk].
            exists c, pl, k, x. repeat split; assumption. }
          destruct (inject_points_B n (creating (reg st)) (c_points c) 0 pl (set_injs st0 n pl) st1
                      (Hb0 pl) Hfu Hcr0 Hlen Hsh Hrq EP) as [Hb1 [Hcr1 Hs1]].
          split; [exact Hb1|]. split; [exact Hcr1|]. rewrite Hs1. exact Hsubn.
        - pose proof (Hpl c Ec) as Hnil.
          destruct (pipeline vt s n c (active st) st0 (map (fun _ => []) (c_points c))) as [[stp inj]|kp stp] eqn:Epi;
            [|discriminate].
          pose proof (pipeline_state _ _ _ _ _ _ _ _ _ Epi) as ->.
          pose proof (pipeline_length vt s n c _ _ _ _ _ ltac:(rewrite map_length; reflexivity) Epi) as Hlen.
          rewrite Hnil in Hlen, EP. destruct inj; [|discriminate]. cbn [inject_points] in EP. inversion EP; subst st1.
          split; [apply Hb0|]. split; [reflexivity|exact Hsubn]. }
      destruct Hpop as [[Hg1 [Hl1 [Hch1 Hd1]]] [Hcr1 Hsn1]].
      destruct (initialize s st1 n c) as [[st2 w]|k2 st2] eqn:EI; [|destruct k2; discriminate].
      pose proof (initialize_shape s st1 n c st2 w EI) as Hshape.
      pose proof (initialize_eff s st1 n c Ec) as Hie. rewrite EI in Hie. cbn [eff2] in Hie.
      destruct Hie as [Hr2 Hfl2 Hdp2 _ _ _ _].
      assert (Hblock : log st2 = block n c (users (s_pop s) (active st1)) (snapshot st1 n c) ++ log st1)
        by (rewrite Hshape; unfold block; rewrite <- !app_assoc; reflexivity).
      assert (Hfo2 : forall h k, field_of st2 h k = field_of st1 h k) by (intros; unfold field_of; rewrite Hfl2; reflexivity).
      assert (HI2 : Inv st2) by (eapply Inv_same_core; [|exact (g_inv vt s st1 Hg1)]; repeat split; assumption).
      assert (HL1n : alookup n (L1 (reg st2)) = None).
      { apply (i_creating_unpub st2 HI2). rewrite Hr2, Hcr1. left; reflexivity. }
      (* DF after the block of n has been logged *)
      assert (Hd2 : DF st2).
      { intros c' k0 v0 Hp Hin Hne. rewrite Hr2 in Hp. rewrite Hfo2 in Hin.
        destruct (proj1 Hd1 c' k0 v0 Hp Hin Hne) as [[Hpd Ho]|Hdep]; [|right; exact Hdep].
        left. rewrite Hr2. split; [exact Hpd|]. rewrite Hblock.
        assert (Hcn : c' <> n) by (intros ->; apply Hp; rewrite <- Hr2; exact HL1n).
        assert (Hdn : owner v0 <> n) by (intros Heq; apply Hpd; rewrite Heq, <- Hr2; exact HL1n).
        apply older_extend; [apply sub_none, block_other; exact Hdn|apply sub_none, block_other; exact Hcn|exact Ho]. }
      assert (Hn2 : ND st2) by (eapply ND_reg; [exact Hr2|exact (proj2 Hd1)]).
      assert (Hcn2 : cached (reg st2) n = true) by (apply (i_creating_cached st2 HI2); rewrite Hr2, Hcr1; left; reflexivity).
      assert (Hfin : forall pv, DN (set_reg st2 (end_create_ok (reg st2) n pv))).
      { intros pv. split.
        2:{ eapply (ND_step st2); [| |exact Hn2]; cbn [reg set_reg]; [apply mono_end_create_ok|].
            intros m Hm. left. destruct (Nat.eq_dec m n) as [->|Hmn]; [exact Hcn2|].
            unfold cached, end_create_ok, add_singleton in Hm. cbn [L1 L2 L3] in Hm.
            rewrite (alookup_aset_neq n m pv _ Hmn), !(alookup_aremove_neq n m _ Hmn) in Hm. exact Hm. }
        intros c' k0 v0 Hp Hin Hne. cbn [reg set_reg log] in *.
        change (field_of (set_reg st2 (end_create_ok (reg st2) n pv)) c' k0) with (field_of st2 c' k0) in Hin.
        unfold end_create_ok, add_singleton in *. cbn [L1] in *.
        destruct (Nat.eq_dec c' n) as [->|Hcn].
        - (* the holder is n itself *)
          pose proof (i_current st2 HI2 n k0 v0 I Hin) as Hcur. unfold cur in Hcur.
          destruct (alookup (owner v0) (L1 (reg st2))) as [pv'|] eqn:E1.
          + left. split; [rewrite (alookup_aset_neq n (owner v0) pv _ Hne), E1; discriminate|].
            rewrite Hblock. apply older_block_new; [exact Hne|exact Hsn1].
          + right. assert (Hin' : In (owner v0) (creating (reg st2))) by (apply (i_early_creating st2 HI2); rewrite Hcur; reflexivity).
            rewrite Hr2, Hcr1 in Hin'. destruct Hin' as [Heq|Hin']; [congruence|].
            apply (chain_below (creating (reg st)) n (owner v0) Hch0 Hin').
        - rewrite (alookup_aset_neq n c' pv _ Hcn) in Hp.
          destruct (Hd2 c' k0 v0 Hp Hin Hne) as [[Hpd Ho]|Hdep]; [|right; exact Hdep].
          left. split; [|exact Ho]. destruct (Nat.eq_dec (owner v0) n) as [->|Hon]; [rewrite alookup_aset_eq; discriminate|].
          rewrite (alookup_aset_neq n (owner v0) pv _ Hon). exact Hpd. }
      unfold get_singleton in H. rewrite (FactoryBasics_get_lookup_false (reg st2) n) in H.
      destruct (match alookup n (L1 (reg st2)) with Some v0 => Some v0 | None => alookup n (L2 (reg st2)) end) as [e|].
      + destruct w as [wv|].
        * destruct (stale_dependents vt st2 n _); [|discriminate]. inversion H; subst. apply Hfin.
        * inversion H; subst. apply Hfin.
      + inversion H; subst. apply Hfin.
  Qed.
End Deps.

Theorem do_get_DF vt s :
  fix_c03 vt = true -> fix_c07 vt = true -> fix_c08 vt = true -> fix_c10 vt = true ->
  forall fuel st n st' v, B vt s st ->
    (full s st \/ (forall c, get_comp (s_pop s) n = Some c -> c_points c = [])) -> callok vt s st n ->
    do_get vt s fuel st n = Ok (st', v) -> DN vt s st'.
Proof.
  intros H3 H7 H8 H10. induction fuel as [|f IH]; intros st n st' v Hb Hc Hco H; [discriminate|].
  cbn [do_get] in H.
  assert (HG' : forall st0 d st1 v1, G vt s st0 -> full s st0 -> do_get vt s f st0 d = Ok (st1, v1) -> G vt s st1)
    by (intros st0 d st1 v1 Hg0 Hf0 H0; eapply (do_get_G vt s H3 H7 H8 H10); [exact Hg0|left; exact Hf0|exact H0]).
  assert (Hdf' : forall st0 d st1 v1, G vt s st0 -> full s st0 -> life s st0 -> chain vt s (creating (reg st0)) ->
                   callok vt s st0 d -> DN vt s st0 -> do_get vt s f st0 d = Ok (st1, v1) -> DN vt s st1).
  { intros st0 d st1 v1 Hg0 Hf0 Hl0 Hch0 Hco0 Hd0 H0. eapply IH; [|left; exact Hf0|exact Hco0|exact H0].
    split; [exact Hg0|]. split; [exact Hl0|]. split; [exact Hch0|exact Hd0]. }
  exact (body_B vt s H8 H10 (do_get vt s f) (do_get_spec vt s H3 f) (do_get_life vt s f)
                (fun st0 d => do_get_geff vt s f st0 d) HG' Hdf' st n st' v Hb Hc Hco H).
Qed.

(* ---------- a whole start ------------------------------------------------------------------------------- *)

Lemma do_get_B_top vt s :
  fix_c03 vt = true -> fix_c07 vt = true -> fix_c08 vt = true -> fix_c10 vt = true ->
  forall st n st' v, B vt s st -> creating (reg st) = [] -> is_lazy (s_pop s) n = false ->
    (full s st \/ (forall c, get_comp (s_pop s) n = Some c -> c_points c = [])) ->
    do_get vt s (fuel_of s) st n = Ok (st', v) -> B vt s st' /\ creating (reg st') = [].
Proof.
  intros H3 H7 H8 H10 st n st' v Hb Hcr Hroot Hc H. pose proof Hb as [Hg [Hl [Hch Hd]]].
  destruct (do_get_spec vt s H3 _ st n st' v (g_inv vt s st Hg) H) as [_ [Hc' _]].
  destruct (do_get_life vt s _ _ _ _ _ H) as [_ [_ Hl']].
  assert (Hco : callok vt s st n) by (unfold callok; rewrite Hcr; exact Hroot).
  split; [|congruence]. split; [eapply (do_get_G vt s H3 H7 H8 H10); eauto|]. split; [apply Hl'; exact Hl|].
  split; [rewrite Hc', Hcr; exact I|]. eapply (do_get_DF vt s H3 H7 H8 H10); eauto.
Qed.

Lemma B_core vt s st st' : same_core st st' -> injs st' = injs st -> log st' = log st -> B vt s st -> B vt s st'.
Proof.
  intros Hc Hi Hlg [Hg [Hl [Hch Hd]]]. pose proof Hc as [Hr [Hf Hdp]].
  split; [eapply G_core; eauto|]. split; [eapply life_same_core; [exact Hlg|exact Hf|rewrite Hr; reflexivity|exact Hl]|].
  split; [rewrite Hr; exact Hch|]. split; [|eapply ND_reg; [exact Hr|exact (proj2 Hd)]].
  intros c k v Hp Hin Hne. rewrite Hr in Hp. assert (Hfo : field_of st' c k = field_of st c k) by (unfold field_of; rewrite Hf; reflexivity).
  rewrite Hfo in Hin. rewrite Hr, Hlg. apply (proj1 Hd c k v Hp Hin Hne).
Qed.

Theorem run_core_DN vt s st :
  fix_c03 vt = true -> fix_c07 vt = true -> fix_c08 vt = true -> fix_c10 vt = true ->
  procs_pointless_b s = true -> stages_ok_b s = true ->
  run_core vt s = Ok st -> DN vt s st.
Proof.
  intros H3 H7 H8 H10 Hp Hs. apply procs_pointless_b_sound in Hp. apply stages_eqb_eq in Hs.
  unfold run_core. destruct (s_loader_fail s); [discriminate|]. unfold prepare.
  assert (Hb0 : B vt s (set_scanned finit) /\ creating (reg (set_scanned finit)) = []).
  { split; [|reflexivity]. split; [apply G_finit|]. split; [apply life_finit|]. split; [exact I|].
    split; [intros c k v Hpub; cbn in Hpub; contradiction|intros m Hm; cbn in Hm; discriminate]. }
  (* PrepareComponents *)
  assert (Hprep : forall ps st0 st1,
            (forall p c, In p ps -> get_comp (s_pop s) p = Some c -> c_points c = []) ->
            B vt s st0 -> creating (reg st0) = [] -> prepare_loop vt s ps st0 = Ok st1 ->
            B vt s st1 /\ creating (reg st1) = [] /\ active st1 = active st0 ++ ps).
  { induction ps as [|p r IH]; intros st0 st1 Hpl Hb Hcr H; cbn [prepare_loop] in H.
    - inversion H; subst. rewrite app_nil_r. auto.
    - assert (Hr : forall q c, In q r -> get_comp (s_pop s) q = Some c -> c_points c = [])
        by (intros q c Hq; apply Hpl; right; exact Hq).
      destruct (is_lazy (s_pop s) p) eqn:Elz.
      + destruct (IH _ _ Hr (B_core vt s st0 (set_active st0 (active st0 ++ [p])) ltac:(repeat split) eq_refl eq_refl Hb) Hcr H)
          as [Hb' [Hcr' Ha']].
        split; [exact Hb'|]. split; [exact Hcr'|]. rewrite Ha'. cbn [active set_active]. rewrite <- app_assoc. reflexivity.
      + destruct (do_get vt s (fuel_of s) st0 p) as [[st2 v]|k st2] eqn:E; [|discriminate].
        destruct (do_get_B_top vt s H3 H7 H8 H10 st0 p st2 v Hb Hcr Elz
                    ltac:(right; intros c Hc; eapply Hpl; [left; reflexivity|exact Hc]) E) as [Hb2 Hcr2].
        pose proof (do_get_active _ _ _ _ _ _ _ E) as Ha2.
        destruct (IH _ _ Hr (B_core vt s st2 (set_active st2 (active st2 ++ [p])) ltac:(repeat split) eq_refl eq_refl Hb2) Hcr2 H)
          as [Hb' [Hcr' Ha']].
        split; [exact Hb'|]. split; [exact Hcr'|]. rewrite Ha'. cbn [active set_active]. rewrite Ha2, <- app_assoc. reflexivity. }
  destruct (prepare_loop vt s (sorted_procs s) (set_scanned finit)) as [st1|k st1] eqn:E1; [|discriminate].
  destruct Hb0 as [Hb0 Hcr0].
  destruct (Hprep _ _ _ Hp Hb0 Hcr0 E1) as [Hb1 [Hcr1 Ha1]]. cbn [active set_scanned finit app] in Ha1.
  (* Refresh *)
  assert (Href : forall ns st0 st2, (forall n, In n ns -> is_lazy (s_pop s) n = false) ->
            B vt s st0 -> creating (reg st0) = [] -> full s st0 ->
            get_each vt s ns st0 = Ok st2 -> B vt s st2).
  { induction ns as [|n r IH]; intros st0 st2 Hrt Hb Hcr Hfu H; cbn [get_each] in H; [inversion H; subst; exact Hb|].
    destruct (do_get vt s (fuel_of s) st0 n) as [[st3 v]|k st3] eqn:E; [|discriminate].
    destruct (do_get_B_top vt s H3 H7 H8 H10 st0 n st3 v Hb Hcr (Hrt n (or_introl eq_refl)) (or_introl Hfu) E) as [Hb3 Hcr3].
    eapply IH; [intros m Hm; apply Hrt; right; exact Hm|exact Hb3|exact Hcr3| |exact H].
    unfold full. rewrite (do_get_active _ _ _ _ _ _ _ E). exact Hfu. }
  assert (Heag : forall n, In n (eager_names s) -> is_lazy (s_pop s) n = false).
  { intros n Hn. unfold eager_names in Hn. apply filter_In in Hn. destruct Hn as [_ Hn]. apply negb_true_iff in Hn. exact Hn. }
  unfold refresh. destruct (get_each vt s (eager_names s) st1) as [st2|k st2] eqn:E2; [|discriminate].
  pose proof (Href _ _ _ Heag Hb1 Hcr1 ltac:(unfold full; rewrite Ha1; exact Hs) E2) as Hb2.
  (* runners: only EvRun events, which are about no component *)
  assert (Hrun : forall ns st0 st3, DN vt s st0 -> run_each s ns st0 = Ok st3 -> DN vt s st3).
  { induction ns as [|n r IH]; intros st0 st3 Hd H; cbn [run_each] in H; [inversion H; subst; exact Hd|].
    destruct (runner_fails s n); [discriminate|]. eapply IH; [|exact H].
    split; [|eapply ND_reg; [|exact (proj2 Hd)]; reflexivity].
    eapply (DF_log_early vt s st0 (add_log st0 (EvRun n))); [reflexivity|reflexivity| |exact (proj1 Hd)].
    exists [EvRun n]. split; [reflexivity|]. constructor; [intros m; reflexivity|constructor]. }
  destruct Hb2 as [_ [_ [_ Hd2]]].
  unfold call_runners. destruct (s_app s) as [[[a rp] cp]|]; [|intros H; inversion H; subst; exact Hd2].
  intros H. eapply Hrun; eauto.
Qed.

Theorem run_core_DF vt s st :
  fix_c03 vt = true -> fix_c07 vt = true -> fix_c08 vt = true -> fix_c10 vt = true ->
  procs_pointless_b s = true -> stages_ok_b s = true ->
  run_core vt s = Ok st -> DF vt s st.
Proof. intros H3 H7 H8 H10 Hp Hs H. exact (proj1 (run_core_DN vt s st H3 H7 H8 H10 Hp Hs H)). Qed.

(* created only if needed, for a whole start: every created component is a root or reachable from a
   PUBLISHED root through requests *)
Theorem run_core_needed vt s st :
  fix_c03 vt = true -> fix_c07 vt = true -> fix_c08 vt = true -> fix_c10 vt = true ->
  procs_pointless_b s = true -> stages_ok_b s = true ->
  run_core vt s = Ok st ->
  forall n, cached (reg st) n = true ->
    is_lazy (s_pop s) n = false
    \/ exists a, is_lazy (s_pop s) a = false /\ alookup a (L1 (reg st)) <> None /\ dep vt s a n.
Proof.
  intros H3 H7 H8 H10 Hp Hs H n Hc.
  destruct (proj2 (run_core_DN vt s st H3 H7 H8 H10 Hp Hs H) n Hc) as [Hr|[a [Ha [Hca Hd]]]]; [left; exact Hr|].
  right. exists a. split; [exact Ha|]. split; [|exact Hd].
  destruct (run_core_top (P:=anyk) vt s st H3 H) as [HI Hcr]. unfold cached in Hca.
  destruct (alookup a (L1 (reg st))); [discriminate|]. cbn [isSome orb] in Hca.
  pose proof (i_early_creating st HI a Hca) as Hin. rewrite Hcr in Hin. contradiction.
Qed.
