(* Lemmas about Model/TagGrammar.v (C19). *)
From Coq Require Import List ZArith NArith Bool Lia Arith.
From IocVerif Require Import Model.TagGrammar.
Import ListNotations.
Local Open Scope Z_scope.

(* ---------- lengths, checked slices --------------------------------------------------------- *)

Lemma blen_nil {A} : blen (@nil A) = 0.
Proof. reflexivity. Qed.

Lemma blen_cons {A} (a : A) (r : list A) : blen (a :: r) = blen r + 1.
Proof. unfold blen. cbn [length]. lia. Qed.

Lemma blen_app {A} (a b : list A) : blen (a ++ b) = blen a + blen b.
Proof. unfold blen. rewrite app_length. lia. Qed.

Lemma blen_nonneg {A} (s : list A) : 0 <= blen s.
Proof. unfold blen. lia. Qed.

Lemma blen_to_nat {A} (s : list A) : Z.to_nat (blen s) = length s.
Proof. unfold blen. lia. Qed.

Lemma slice_from_app {A} (pre suf : list A) : slice_from (pre ++ suf) (blen pre) = Ok suf.
Proof.
  unfold slice_from. rewrite blen_app.
  pose proof (blen_nonneg pre) as Hp. pose proof (blen_nonneg suf) as Hs.
  replace (0 <=? blen pre) with true by (symmetry; apply Z.leb_le; lia).
  replace (blen pre <=? blen pre + blen suf) with true by (symmetry; apply Z.leb_le; lia).
  cbn [andb]. rewrite blen_to_nat. rewrite skipn_app, skipn_all, Nat.sub_diag. reflexivity.
Qed.

Lemma slice_to_app {A} (pre suf : list A) : slice_to (pre ++ suf) (blen pre) = Ok pre.
Proof.
  unfold slice_to. rewrite blen_app.
  pose proof (blen_nonneg pre) as Hp. pose proof (blen_nonneg suf) as Hs.
  replace (0 <=? blen pre) with true by (symmetry; apply Z.leb_le; lia).
  replace (blen pre <=? blen pre + blen suf) with true by (symmetry; apply Z.leb_le; lia).
  cbn [andb]. rewrite blen_to_nat. rewrite firstn_app, firstn_all, Nat.sub_diag.
  cbn [firstn]. rewrite app_nil_r. reflexivity.
Qed.

Lemma byte_at_app (pre : bytes) (a : N) (r : bytes) : byte_at (pre ++ a :: r) (blen pre) = Ok a.
Proof.
  unfold byte_at. rewrite blen_app, blen_cons.
  pose proof (blen_nonneg pre) as Hp. pose proof (blen_nonneg r) as Hs.
  replace (0 <=? blen pre) with true by (symmetry; apply Z.leb_le; lia).
  replace (blen pre <? blen pre + (blen r + 1)) with true by (symmetry; apply Z.ltb_lt; lia).
  cbn [andb]. rewrite blen_to_nat. rewrite app_nth2 by lia. rewrite Nat.sub_diag. reflexivity.
Qed.

Lemma slice_from_ok {A} (s : list A) (lo : Z) :
  0 <= lo <= blen s -> exists t, slice_from s lo = Ok t.
Proof.
  intros H. unfold slice_from.
  replace (0 <=? lo) with true by (symmetry; apply Z.leb_le; lia).
  replace (lo <=? blen s) with true by (symmetry; apply Z.leb_le; lia).
  cbn [andb]. eauto.
Qed.

Lemma slice_to_ok {A} (s : list A) (hi : Z) :
  0 <= hi <= blen s -> exists t, slice_to s hi = Ok t /\ blen t = hi.
Proof.
  intros H. unfold slice_to.
  replace (0 <=? hi) with true by (symmetry; apply Z.leb_le; lia).
  replace (hi <=? blen s) with true by (symmetry; apply Z.leb_le; lia).
  cbn [andb]. eexists. split; [reflexivity|].
  unfold blen in *. rewrite firstn_length. lia.
Qed.

Lemma arr_set_ok {A} (a : list A) (i : Z) (x : A) :
  0 <= i < blen a -> exists a', arr_set a i x = Ok a' /\ blen a' = blen a.
Proof.
  intros H. unfold arr_set.
  replace (0 <=? i) with true by (symmetry; apply Z.leb_le; lia).
  replace (i <? blen a) with true by (symmetry; apply Z.ltb_lt; lia).
  cbn [andb]. eexists. split; [reflexivity|].
  unfold blen in *. rewrite app_length. cbn [length]. rewrite firstn_length, skipn_length. lia.
Qed.

Lemma arr_set_app {A} (done : list A) (b x : A) (bl : list A) :
  arr_set (done ++ b :: bl) (blen done) x = Ok (done ++ x :: bl).
Proof.
  unfold arr_set. rewrite blen_app, blen_cons.
  pose proof (blen_nonneg done) as Hp. pose proof (blen_nonneg bl) as Hs.
  replace (0 <=? blen done) with true by (symmetry; apply Z.leb_le; lia).
  replace (blen done <? blen done + (blen bl + 1)) with true by (symmetry; apply Z.ltb_lt; lia).
  cbn [andb]. rewrite blen_to_nat.
  rewrite firstn_app, firstn_all, Nat.sub_diag. cbn [firstn]. rewrite app_nil_r.
  replace (S (length done)) with (length done + 1)%nat by lia.
  rewrite skipn_app. rewrite skipn_all2 by lia.
  replace (length done + 1 - length done)%nat with 1%nat by lia. reflexivity.
Qed.

(* ---------- strings.Index / Count ------------------------------------------------------------ *)

Lemma bindex_range (s : bytes) (sep : N) : bindex s sep = -1 \/ 0 <= bindex s sep < blen s.
Proof.
  induction s as [|a r IH]; cbn [bindex]; [left; reflexivity|].
  rewrite blen_cons. pose proof (blen_nonneg r) as Hr.
  destruct (N.eqb a sep); [right; lia|].
  destruct (Z.eqb_spec (bindex r sep) (-1)) as [E|E]; [left; reflexivity|right; lia].
Qed.

Lemma bindex_cons_ne (a : N) (r : bytes) (sep : N) :
  N.eqb a sep = false ->
  bindex (a :: r) sep = if bindex r sep =? -1 then -1 else bindex r sep + 1.
Proof. intros H. cbn [bindex]. rewrite H. reflexivity. Qed.

Lemma bindex_cons_eq (r : bytes) (sep : N) : bindex (sep :: r) sep = 0.
Proof. cbn [bindex]. rewrite N.eqb_refl. reflexivity. Qed.

Lemma bcount_le_len (s : bytes) (sep : N) : (bcount s sep <= length s)%nat.
Proof.
  induction s as [|a r IH]; cbn [bcount length]; [lia|]. destruct (N.eqb a sep); lia.
Qed.

(* ---------- Index: the loop as a function of the remaining suffix ---------------------------- *)

Fixpoint index_suf (suf : bytes) (sep : N) (left right : list N) (i inn idx : Z) : Z :=
  match suf with
  | [] => idx
  | a :: r =>
    if contains left a then index_suf r sep left right (i + 1) (inn + 1) idx
    else if contains right a then
      let inn' := inn - 1 in
      if inn' =? 0 then
        let k := bindex r sep in
        if k =? -1 then k else index_suf r sep left right (i + 1) inn' (k + i + 1)
      else index_suf r sep left right (i + 1) inn' idx
    else if (inn =? 0) && (idx <=? i) then
      if negb (idx =? i) then index_suf r sep left right (i + 1) inn (bindex (a :: r) sep + i)
      else idx
    else index_suf r sep left right (i + 1) inn idx
  end.

(* no slice or index expression inside the loop can be out of range *)
Lemma index_loop_suf : forall suf pre sep left right inn idx,
  index_loop (length suf) (pre ++ suf) sep left right (blen pre) inn idx
  = Ok (index_suf suf sep left right (blen pre) inn idx).
Proof.
  induction suf as [|a r IH]; intros pre sep left right inn idx.
  - reflexivity.
  - cbn [length index_loop index_suf]. rewrite byte_at_app. cbn [bind].
    assert (E : pre ++ a :: r = (pre ++ [a]) ++ r) by (rewrite <- app_assoc; reflexivity).
    assert (L : blen (pre ++ [a]) = blen pre + 1) by (rewrite blen_app; reflexivity).
    destruct (contains left a).
    { rewrite E, <- L. apply IH. }
    destruct (contains right a).
    { cbv zeta. destruct (inn - 1 =? 0).
      - rewrite E, <- L. rewrite slice_from_app. cbn [bind].
        destruct (bindex r sep =? -1); [reflexivity|]. apply IH.
      - rewrite E, <- L. apply IH. }
    destruct ((inn =? 0) && (idx <=? blen pre)).
    { destruct (negb (idx =? blen pre)); [|reflexivity].
      rewrite slice_from_app. cbn [bind]. rewrite E, <- L. apply IH. }
    rewrite E, <- L. apply IH.
Qed.

Lemma index_skip_suf (s : bytes) (sep : N) (left right : list N) :
  index_skip s sep left right
  = Ok (if bindex s sep =? -1 then bindex s sep else index_suf s sep left right 0 0 (bindex s sep)).
Proof.
  unfold index_skip. destruct (bindex s sep =? -1); [reflexivity|].
  apply (index_loop_suf s [] sep left right 0 (bindex s sep)).
Qed.

(* the result is -1 or a position inside the string *)
Lemma index_suf_range : forall suf sep left right i inn idx,
  0 <= i -> 0 <= idx < i + blen suf ->
  index_suf suf sep left right i inn idx = -1
  \/ 0 <= index_suf suf sep left right i inn idx < i + blen suf.
Proof.
  induction suf as [|a r IH]; intros sep left right i inn idx Hi Hidx.
  - cbn [index_suf]. right. exact Hidx.
  - cbn [index_suf]. rewrite blen_cons in *. pose proof (blen_nonneg r) as Hr.
    assert (W : forall inn' idx', 0 <= idx' < i + 1 + blen r ->
                index_suf r sep left right (i + 1) inn' idx' = -1
                \/ 0 <= index_suf r sep left right (i + 1) inn' idx' < i + (blen r + 1)).
    { intros inn' idx' H. destruct (IH sep left right (i + 1) inn' idx') as [E|E]; try lia. }
    destruct (contains left a); [apply W; lia|].
    destruct (contains right a).
    { cbv zeta. destruct (inn - 1 =? 0); [|apply W; lia].
      destruct (Z.eqb_spec (bindex r sep) (-1)) as [E|E]; [left; exact E|].
      destruct (bindex_range r sep) as [F|F]; [contradiction|]. apply W. lia. }
    destruct (Z.eqb_spec inn 0) as [E0|E0]; cbn [andb]; [|apply W; lia].
    destruct (Z.leb_spec idx i) as [L|L]; [|apply W; lia].
    destruct (Z.eqb_spec idx i) as [E|E]; cbn [negb]; [right; lia|].
    apply W. destruct (bindex_range (a :: r) sep) as [F|F]; rewrite ?blen_cons in F; lia.
Qed.

Lemma index_skip_range (s : bytes) (sep : N) (left right : list N) :
  exists m, index_skip s sep left right = Ok m /\ (m = -1 \/ 0 <= m < blen s).
Proof.
  rewrite index_skip_suf. eexists. split; [reflexivity|].
  destruct (Z.eqb_spec (bindex s sep) (-1)) as [E|E]; [left; exact E|].
  destruct (bindex_range s sep) as [F|F]; [contradiction|].
  destruct (index_suf_range s sep left right 0 0 (bindex s sep)) as [G|G]; try lia.
Qed.

(* ---------- SplitWithConfig is total ----------------------------------------------------------- *)

Lemma split_finish_ok (a : list bytes) (i : Z) (s : bytes) :
  0 <= i < blen a ->
  exists l, bind (arr_set a i s) (fun a' => slice_to a' (i + 1)) = Ok l /\ blen l = i + 1.
Proof.
  intros H. destruct (arr_set_ok a i s H) as (a' & E & L). rewrite E. cbn [bind].
  destruct (slice_to_ok a' (i + 1)) as (l & E2 & L2); [lia|]. eauto.
Qed.

Lemma split_loop_total : forall k s sep left right a i,
  0 <= i -> i + Z.of_nat k < blen a ->
  exists l, split_loop k s sep left right a i = Ok l /\ blen l >= 1.
Proof.
  induction k as [|k IH]; intros s sep left right a i Hi Hk.
  - cbn [split_loop]. destruct (split_finish_ok a i s) as (l & E & L); [lia|].
    exists l. split; [exact E|lia].
  - cbn [split_loop].
    destruct (index_skip_range s sep left right) as (m & E & R). rewrite E. cbn [bind].
    destruct (Z.ltb_spec m 0) as [N|N].
    + destruct (split_finish_ok a i s) as (l & E2 & L); [lia|]. exists l. split; [exact E2|lia].
    + destruct R as [R|R]; [lia|].
      destruct (slice_to_ok s (m + 0)) as (hd & E1 & _); [lia|]. rewrite E1. cbn [bind].
      destruct (arr_set_ok a i hd) as (a' & E2 & L2); [lia|]. rewrite E2. cbn [bind].
      destruct (slice_from_ok s (m + 1)) as (s' & E3); [lia|]. rewrite E3. cbn [bind].
      apply IH; lia.
Qed.

Lemma blen_repeat {A} (x : A) (n : nat) : blen (repeat x n) = Z.of_nat n.
Proof. unfold blen. rewrite repeat_length. reflexivity. Qed.

Lemma split_cfg_total (s : bytes) (sep : N) (left right : list N) :
  exists l, split_cfg s sep left right = Ok l /\ blen l >= 1.
Proof.
  unfold split_cfg. pose proof (blen_nonneg s) as Hs.
  set (n0 := Z.of_nat (bcount s sep) + 1).
  set (n := if n0 >? blen s + 1 then blen s + 1 else n0).
  assert (Hn : 1 <= n). { unfold n, n0. destruct (_ >? _); lia. }
  apply split_loop_total; [lia|]. rewrite blen_repeat. lia.
Qed.

(* ---------- Set / formatArgType / Parse are total ------------------------------------------------ *)

Lemma format_arg_type_cons (b : N) (r : bytes) : format_arg_type (b :: r) = Ok (to_upper1 b ++ r).
Proof.
  unfold format_arg_type.
  change (b :: r) with ([b] ++ r) at 1 2.
  change 1 with (blen [b]). rewrite slice_to_app. cbn [bind]. rewrite slice_from_app. reflexivity.
Qed.

Lemma arg_set_total (m : argmap) (t : bytes) (val : list bytes) : exists m', arg_set m t val = Ok m'.
Proof.
  destruct t as [|b r]; cbn [arg_set]; [eauto|]. rewrite format_arg_type_cons. cbn [bind]. eauto.
Qed.

Lemma parse_exps_total : forall exps m, exists m', parse_exps exps m = Ok m'.
Proof.
  induction exps as [|exp r IH]; intros m; cbn [parse_exps]; [eauto|].
  destruct (Z.eqb_spec (bindex exp 61) (-1)) as [E|E].
  - destruct (arg_set_total m exp [[]]) as (m1 & E1). rewrite E1. cbn [bind]. apply IH.
  - destruct (bindex_range exp 61) as [F|F]; [contradiction|].
    destruct (slice_to_ok exp (bindex exp 61)) as (name & E1 & _); [lia|]. rewrite E1. cbn [bind].
    destruct (slice_from_ok exp (bindex exp 61 + 1)) as (vs & E2); [lia|]. rewrite E2. cbn [bind].
    destruct (split_cfg_total vs 32 left_blocks right_blocks) as (vals & E3 & _).
    unfold split_blocks. rewrite E3. cbn [bind].
    destruct (arg_set_total m name vals) as (m1 & E4). rewrite E4. cbn [bind]. apply IH.
Qed.

Lemma tag_parse_total (tag : bytes) : exists v m, tag_parse tag = Ok (v, m).
Proof.
  unfold tag_parse, split_blocks.
  destruct (split_cfg_total tag 44 left_blocks right_blocks) as (parts & E & L). rewrite E. cbn [bind].
  destruct parts as [|p0 exps]; [rewrite blen_nil in L; lia|].
  destruct (parse_exps_total exps []) as (m & E2). rewrite E2. cbn [bind]. eauto.
Qed.
