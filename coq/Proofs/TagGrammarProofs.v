(* Lemmas about Model/TagGrammar.v (C19). *)
From Coq Require Import List ZArith NArith Bool Lia Arith.
From IocVerif Require Import Model.TagGrammar.
Import ListNotations.
Local Open Scope Z_scope.

(* ---------- lengths, checked slices --------------------------------------------------------- *)

Lemma blen_nil {A} : blen (@nil A) = 0.
Proof. reflexivity. Qed.

Lemma blen_cons {A} (a : A) (r : list A) : blen (a :: r) = blen r + 1.
Proof. unfold blen. cbn [length]. lia. Qed.

Lemma blen_app {A} (a b : list A) : blen (a ++ b) = blen a + blen b.
Proof. unfold blen. rewrite app_length. lia. Qed.

Lemma blen_nonneg {A} (s : list A) : 0 <= blen s.
Proof. unfold blen. lia. Qed.

Lemma blen_to_nat {A} (s : list A) : Z.to_nat (blen s) = length s.
Proof. unfold blen. lia. Qed.

Lemma slice_from_app {A} (pre suf : list A) : slice_from (pre ++ suf) (blen pre) = Ok suf.
Proof.
  unfold slice_from. rewrite blen_app.
  pose proof (blen_nonneg pre) as Hp. pose proof (blen_nonneg suf) as Hs.
  replace (0 <=? blen pre) with true by (symmetry; apply Z.leb_le; lia).
  replace (blen pre <=? blen pre + blen suf) with true by (symmetry; apply Z.leb_le; lia).
  cbn [andb]. rewrite blen_to_nat. rewrite skipn_app, skipn_all, Nat.sub_diag. reflexivity.
Qed.

Lemma slice_to_app {A} (pre suf : list A) : slice_to (pre ++ suf) (blen pre) = Ok pre.
Proof.
  unfold slice_to. rewrite blen_app.
  pose proof (blen_nonneg pre) as Hp. pose proof (blen_nonneg suf) as Hs.
  replace (0 <=? blen pre) with true by (symmetry; apply Z.leb_le; lia).
  replace (blen pre <=? blen pre + blen suf) with true by (symmetry; apply Z.leb_le; lia).
  cbn [andb]. rewrite blen_to_nat. rewrite firstn_app, firstn_all, Nat.sub_diag.
  cbn [firstn]. rewrite app_nil_r. reflexivity.
Qed.

Lemma byte_at_app (pre : bytes) (a : N) (r : bytes) : byte_at (pre ++ a :: r) (blen pre) = Ok a.
Proof.
  unfold byte_at. rewrite blen_app, blen_cons.
  pose proof (blen_nonneg pre) as Hp. pose proof (blen_nonneg r) as Hs.
  replace (0 <=? blen pre) with true by (symmetry; apply Z.leb_le; lia).
  replace (blen pre <? blen pre + (blen r + 1)) with true by (symmetry; apply Z.ltb_lt; lia).
  cbn [andb]. rewrite blen_to_nat. rewrite app_nth2 by lia. rewrite Nat.sub_diag. reflexivity.
Qed.

Lemma slice_from_ok {A} (s : list A) (lo : Z) :
  0 <= lo <= blen s -> exists t, slice_from s lo = Ok t.
Proof.
  intros H. unfold slice_from.
  replace (0 <=? lo) with true by (symmetry; apply Z.leb_le; lia).
  replace (lo <=? blen s) with true by (symmetry; apply Z.leb_le; lia).
  cbn [andb]. eauto.
Qed.

Lemma slice_to_ok {A} (s : list A) (hi : Z) :
  0 <= hi <= blen s -> exists t, slice_to s hi = Ok t /\ blen t = hi.
Proof.
  intros H. unfold slice_to.
  replace (0 <=? hi) with true by (symmetry; apply Z.leb_le; lia).
  replace (hi <=? blen s) with true by (symmetry; apply Z.leb_le; lia).
  cbn [andb]. eexists. split; [reflexivity|].
  unfold blen in *. rewrite firstn_length. lia.
Qed.

Lemma arr_set_ok {A} (a : list A) (i : Z) (x : A) :
  0 <= i < blen a -> exists a', arr_set a i x = Ok a' /\ blen a' = blen a.
Proof.
  intros H. unfold arr_set.
  replace (0 <=? i) with true by (symmetry; apply Z.leb_le; lia).
  replace (i <? blen a) with true by (symmetry; apply Z.ltb_lt; lia).
  cbn [andb]. eexists. split; [reflexivity|].
  unfold blen in *. rewrite app_length. cbn [length]. rewrite firstn_length, skipn_length. lia.
Qed.

Lemma arr_set_app {A} (done : list A) (b x : A) (bl : list A) :
  arr_set (done ++ b :: bl) (blen done) x = Ok (done ++ x :: bl).
Proof.
  unfold arr_set. rewrite blen_app, blen_cons.
  pose proof (blen_nonneg done) as Hp. pose proof (blen_nonneg bl) as Hs.
  replace (0 <=? blen done) with true by (symmetry; apply Z.leb_le; lia).
  replace (blen done <? blen done + (blen bl + 1)) with true by (symmetry; apply Z.ltb_lt; lia).
  cbn [andb]. rewrite blen_to_nat.
  rewrite firstn_app, firstn_all, Nat.sub_diag. cbn [firstn]. rewrite app_nil_r.
  replace (S (length done)) with (length done + 1)%nat by lia.
  rewrite skipn_app. rewrite skipn_all2 by lia.
  replace (length done + 1 - length done)%nat with 1%nat by lia. reflexivity.
Qed.

(* ---------- strings.Index / Count ------------------------------------------------------------ *)

Lemma bindex_range (s : bytes) (sep : N) : bindex s sep = -1 \/ 0 <= bindex s sep < blen s.
Proof.
  induction s as [|a r IH]; cbn [bindex]; [left; reflexivity|].
  rewrite blen_cons. pose proof (blen_nonneg r) as Hr.
  destruct (N.eqb a sep); [right; lia|].
  destruct (Z.eqb_spec (bindex r sep) (-1)) as [E|E]; [left; reflexivity|right; lia].
Qed.

Lemma bindex_cons_ne (a : N) (r : bytes) (sep : N) :
  N.eqb a sep = false ->
  bindex (a :: r) sep = if bindex r sep =? -1 then -1 else bindex r sep + 1.
Proof. intros H. cbn [bindex]. rewrite H. reflexivity. Qed.

Lemma bindex_cons_eq (r : bytes) (sep : N) : bindex (sep :: r) sep = 0.
Proof. cbn [bindex]. rewrite N.eqb_refl. reflexivity. Qed.

Lemma bcount_le_len (s : bytes) (sep : N) : (bcount s sep <= length s)%nat.
Proof.
  induction s as [|a r IH]; cbn [bcount length]; [lia|]. destruct (N.eqb a sep); lia.
Qed.

(* ---------- Index: the loop as a function of the remaining suffix ---------------------------- *)

Fixpoint index_suf (suf : bytes) (sep : N) (left right : list N) (i inn idx : Z) : Z :=
  match suf with
  | [] => idx
  | a :: r =>
    if contains left a then index_suf r sep left right (i + 1) (inn + 1) idx
    else if contains right a then
      let inn' := inn - 1 in
      if inn' =? 0 then
        let k := bindex r sep in
        if k =? -1 then k else index_suf r sep left right (i + 1) inn' (k + i + 1)
      else index_suf r sep left right (i + 1) inn' idx
    else if (inn =? 0) && (idx <=? i) then
      if negb (idx =? i) then index_suf r sep left right (i + 1) inn (bindex (a :: r) sep + i)
      else idx
    else index_suf r sep left right (i + 1) inn idx
  end.

(* no slice or index expression inside the loop can be out of range *)
Lemma index_loop_suf : forall suf pre sep left right inn idx,
  index_loop (length suf) (pre ++ suf) sep left right (blen pre) inn idx
  = Ok (index_suf suf sep left right (blen pre) inn idx).
Proof.
  induction suf as [|a r IH]; intros pre sep left right inn idx.
  - reflexivity.
  - cbn [length index_loop index_suf]. rewrite byte_at_app. cbn [bind].
    assert (E : pre ++ a :: r = (pre ++ [a]) ++ r) by (rewrite <- app_assoc; reflexivity).
    assert (L : blen (pre ++ [a]) = blen pre + 1) by (rewrite blen_app; reflexivity).
    destruct (contains left a).
    { rewrite E, <- L. apply IH. }
    destruct (contains right a).
    { cbv zeta. destruct (inn - 1 =? 0).
      - rewrite E, <- L. rewrite slice_from_app. cbn [bind].
        destruct (bindex r sep =? -1); [reflexivity|]. apply IH.
      - rewrite E, <- L. apply IH. }
    destruct ((inn =? 0) && (idx <=? blen pre)).
    { destruct (negb (idx =? blen pre)); [|reflexivity].
      rewrite slice_from_app. cbn [bind]. rewrite E, <- L. apply IH. }
    rewrite E, <- L. apply IH.
Qed.

Lemma index_skip_suf (s : bytes) (sep : N) (left right : list N) :
  index_skip s sep left right
  = Ok (if bindex s sep =? -1 then bindex s sep else index_suf s sep left right 0 0 (bindex s sep)).
Proof.
  unfold index_skip. destruct (bindex s sep =? -1); [reflexivity|].
  apply (index_loop_suf s [] sep left right 0 (bindex s sep)).
Qed.

(* the result is -1 or a position inside the string *)
Lemma index_suf_range : forall suf sep left right i inn idx,
  0 <= i -> 0 <= idx < i + blen suf ->
  index_suf suf sep left right i inn idx = -1
  \/ 0 <= index_suf suf sep left right i inn idx < i + blen suf.
Proof.
  induction suf as [|a r IH]; intros sep left right i inn idx Hi Hidx.
  - cbn [index_suf]. right. exact Hidx.
  - cbn [index_suf]. rewrite blen_cons in *. pose proof (blen_nonneg r) as Hr.
    assert (W : forall inn' idx', 0 <= idx' < i + 1 + blen r ->
                index_suf r sep left right (i + 1) inn' idx' = -1
                \/ 0 <= index_suf r sep left right (i + 1) inn' idx' < i + (blen r + 1)).
    { intros inn' idx' H. destruct (IH sep left right (i + 1) inn' idx') as [E|E]; try lia. }
    destruct (contains left a); [apply W; lia|].
    destruct (contains right a).
    { cbv zeta. destruct (inn - 1 =? 0); [|apply W; lia].
      destruct (Z.eqb_spec (bindex r sep) (-1)) as [E|E]; [left; exact E|].
      destruct (bindex_range r sep) as [F|F]; [contradiction|]. apply W. lia. }
    destruct (Z.eqb_spec inn 0) as [E0|E0]; cbn [andb]; [|apply W; lia].
    destruct (Z.leb_spec idx i) as [L|L]; [|apply W; lia].
    destruct (Z.eqb_spec idx i) as [E|E]; cbn [negb]; [right; lia|].
    apply W. destruct (bindex_range (a :: r) sep) as [F|F]; rewrite ?blen_cons in F; lia.
Qed.

Lemma index_skip_range (s : bytes) (sep : N) (left right : list N) :
  exists m, index_skip s sep left right = Ok m /\ (m = -1 \/ 0 <= m < blen s).
Proof.
  rewrite index_skip_suf. eexists. split; [reflexivity|].
  destruct (Z.eqb_spec (bindex s sep) (-1)) as [E|E]; [left; exact E|].
  destruct (bindex_range s sep) as [F|F]; [contradiction|].
  destruct (index_suf_range s sep left right 0 0 (bindex s sep)) as [G|G]; try lia.
Qed.

(* ---------- SplitWithConfig is total ----------------------------------------------------------- *)

Lemma split_finish_ok (a : list bytes) (i : Z) (s : bytes) :
  0 <= i < blen a ->
  exists l, bind (arr_set a i s) (fun a' => slice_to a' (i + 1)) = Ok l /\ blen l = i + 1.
Proof.
  intros H. destruct (arr_set_ok a i s H) as (a' & E & L). rewrite E. cbn [bind].
  destruct (slice_to_ok a' (i + 1)) as (l & E2 & L2); [lia|]. eauto.
Qed.

Lemma split_loop_total : forall k s sep left right a i,
  0 <= i -> i + Z.of_nat k < blen a ->
  exists l, split_loop k s sep left right a i = Ok l /\ blen l >= 1.
Proof.
  induction k as [|k IH]; intros s sep left right a i Hi Hk.
  - cbn [split_loop]. destruct (split_finish_ok a i s) as (l & E & L); [lia|].
    exists l. split; [exact E|lia].
  - cbn [split_loop].
    destruct (index_skip_range s sep left right) as (m & E & R). rewrite E. cbn [bind].
    destruct (Z.ltb_spec m 0) as [N|N].
    + destruct (split_finish_ok a i s) as (l & E2 & L); [lia|]. exists l. split; [exact E2|lia].
    + destruct R as [R|R]; [lia|].
      destruct (slice_to_ok s (m + 0)) as (hd & E1 & _); [lia|]. rewrite E1. cbn [bind].
      destruct (arr_set_ok a i hd) as (a' & E2 & L2); [lia|]. rewrite E2. cbn [bind].
      destruct (slice_from_ok s (m + 1)) as (s' & E3); [lia|]. rewrite E3. cbn [bind].
      apply IH; lia.
Qed.

Lemma blen_repeat {A} (x : A) (n : nat) : blen (repeat x n) = Z.of_nat n.
Proof. unfold blen. rewrite repeat_length. reflexivity. Qed.

Lemma split_cfg_total (s : bytes) (sep : N) (left right : list N) :
  exists l, split_cfg s sep left right = Ok l /\ blen l >= 1.
Proof.
  unfold split_cfg. pose proof (blen_nonneg s) as Hs.
  set (n0 := Z.of_nat (bcount s sep) + 1).
  set (n := if n0 >? blen s + 1 then blen s + 1 else n0).
  assert (Hn : 1 <= n). { unfold n, n0. destruct (_ >? _); lia. }
  apply split_loop_total; [lia|]. rewrite blen_repeat. lia.
Qed.

(* ---------- Set / formatArgType / Parse are total ------------------------------------------------ *)

Lemma format_arg_type_cons (b : N) (r : bytes) : format_arg_type (b :: r) = Ok (to_upper1 b ++ r).
Proof.
  unfold format_arg_type.
  change (b :: r) with ([b] ++ r) at 1 2.
  change 1 with (blen [b]). rewrite slice_to_app. cbn [bind]. rewrite slice_from_app. reflexivity.
Qed.

Lemma arg_set_total (m : argmap) (t : bytes) (val : list bytes) : exists m', arg_set m t val = Ok m'.
Proof.
  destruct t as [|b r]; cbn [arg_set]; [eauto|]. rewrite format_arg_type_cons. cbn [bind]. eauto.
Qed.

Lemma parse_exps_total : forall exps m, exists m', parse_exps exps m = Ok m'.
Proof.
  induction exps as [|exp r IH]; intros m; cbn [parse_exps]; [eauto|].
  destruct (Z.eqb_spec (bindex exp 61) (-1)) as [E|E].
  - destruct (arg_set_total m exp [[]]) as (m1 & E1). rewrite E1. cbn [bind]. apply IH.
  - destruct (bindex_range exp 61) as [F|F]; [contradiction|].
    destruct (slice_to_ok exp (bindex exp 61)) as (name & E1 & _); [lia|]. rewrite E1. cbn [bind].
    destruct (slice_from_ok exp (bindex exp 61 + 1)) as (vs & E2); [lia|]. rewrite E2. cbn [bind].
    destruct (split_cfg_total vs 32 left_blocks right_blocks) as (vals & E3 & _).
    unfold split_blocks. rewrite E3. cbn [bind].
    destruct (arg_set_total m name vals) as (m1 & E4). rewrite E4. cbn [bind]. apply IH.
Qed.

Lemma tag_parse_total (tag : bytes) : exists v m, tag_parse tag = Ok (v, m).
Proof.
  unfold tag_parse, split_blocks.
  destruct (split_cfg_total tag 44 left_blocks right_blocks) as (parts & E & L). rewrite E. cbn [bind].
  destruct parts as [|p0 exps]; [rewrite blen_nil in L; lia|].
  destruct (parse_exps_total exps []) as (m & E2). rewrite E2. cbn [bind]. eauto.
Qed.

(* ---------- closed segments: the loop invariant of Index ---------------------------------------- *)

Lemma bindex_ge (s : bytes) (sep : N) : -1 <= bindex s sep.
Proof. destruct (bindex_range s sep); lia. Qed.

Lemma bindex_app_sep (r : bytes) (sep : N) (rest : bytes) : bindex (r ++ sep :: rest) sep <> -1.
Proof.
  induction r as [|a r IH]; cbn [app].
  - rewrite bindex_cons_eq. lia.
  - cbn [bindex]. destruct (N.eqb a sep); [lia|].
    destruct (Z.eqb_spec (bindex (r ++ sep :: rest) sep) (-1)); [contradiction|].
    pose proof (bindex_ge (r ++ sep :: rest) sep). lia.
Qed.

Lemma existsb_eqb_false (a : N) (l : list N) (x : N) :
  existsb (N.eqb a) l = false -> In x l -> N.eqb a x = false.
Proof.
  intros H Hin. destruct (N.eqb a x) eqn:E; [|reflexivity].
  assert (existsb (N.eqb a) l = true) by (apply existsb_exists; eauto). congruence.
Qed.

(* Index on a closed segment followed by nothing or by a top-level separator: the loop invariant is
   "whenever the depth is 0, idx is the first separator at or after i (and there is one)". *)
Lemma index_suf_closed : forall forbid sep,
  In sep forbid -> contains left_blocks sep = false -> contains right_blocks sep = false ->
  forall seg d i idx tail,
  seg_ok forbid d seg = true ->
  (tail = [] \/ exists rest, tail = sep :: rest) ->
  (d = O -> bindex (seg ++ tail) sep <> -1 /\ idx = i + bindex (seg ++ tail) sep) ->
  index_suf (seg ++ tail) sep left_blocks right_blocks i (Z.of_nat d) idx
  = match tail with [] => -1 | _ => i + blen seg end.
Proof.
  intros forbid sep Hin Hl Hr.
  induction seg as [|a r IH]; intros d i idx tail Hok Htail Hinv.
  - cbn [seg_ok] in Hok. apply Nat.eqb_eq in Hok. subst d. cbn [app] in *.
    destruct (Hinv eq_refl) as [Hne Hidx].
    destruct Htail as [->|(rest & ->)]; [cbn [bindex] in Hne; lia|].
    rewrite bindex_cons_eq in Hidx. cbn [index_suf]. rewrite Hl, Hr.
    change (Z.of_nat 0) with 0. rewrite Z.eqb_refl. cbn [andb].
    replace (idx <=? i) with true by (symmetry; apply Z.leb_le; lia).
    replace (idx =? i) with true by (symmetry; apply Z.eqb_eq; lia).
    cbn [negb]. rewrite blen_nil. lia.
  - cbn [seg_ok] in Hok. cbn [app index_suf]. rewrite blen_cons.
    destruct (contains left_blocks a).
    { replace (Z.of_nat d + 1) with (Z.of_nat (S d)) by lia.
      rewrite (IH (S d) (i + 1) idx tail Hok Htail) by (intros; discriminate).
      destruct tail; lia. }
    destruct (contains right_blocks a).
    { destruct d as [|d']; [discriminate|]. cbv zeta.
      replace (Z.of_nat (S d') - 1) with (Z.of_nat d') by lia.
      destruct d' as [|d''].
      - change (Z.of_nat 0 =? 0) with true. cbv iota.
        destruct (Z.eqb_spec (bindex (r ++ tail) sep) (-1)) as [E|E].
        + destruct Htail as [->|(rest & ->)]; [exact E|]. exfalso. exact (bindex_app_sep r sep rest E).
        + rewrite (IH O (i + 1) (bindex (r ++ tail) sep + i + 1) tail Hok Htail).
          * destruct tail; lia.
          * intros _. split; [exact E|lia].
      - replace (Z.of_nat (S d'') =? 0) with false by (symmetry; apply Z.eqb_neq; lia).
        rewrite (IH (S d'') (i + 1) idx tail Hok Htail) by (intros; discriminate).
        destruct tail; lia. }
    apply andb_true_iff in Hok. destruct Hok as [Hnf Hok].
    destruct d as [|d'].
    + cbn [Nat.eqb negb orb] in Hnf. apply negb_true_iff in Hnf.
      pose proof (existsb_eqb_false a forbid sep Hnf Hin) as Hne.
      destruct (Hinv eq_refl) as [Hx Hidx]. cbn [app] in Hx, Hidx.
      rewrite (bindex_cons_ne a (r ++ tail) sep Hne) in Hx, Hidx.
      destruct (Z.eqb_spec (bindex (r ++ tail) sep) (-1)) as [E|E]; [contradiction|].
      pose proof (bindex_ge (r ++ tail) sep) as Hge.
      change (Z.of_nat 0 =? 0) with true. cbn [andb].
      replace (idx <=? i) with false by (symmetry; apply Z.leb_gt; lia).
      rewrite (IH O (i + 1) idx tail Hok Htail).
      * destruct tail; lia.
      * intros _. split; [exact E|lia].
    + replace (Z.of_nat (S d') =? 0) with false by (symmetry; apply Z.eqb_neq; lia).
      cbn [andb].
      rewrite (IH (S d') (i + 1) idx tail Hok Htail) by (intros; discriminate).
      destruct tail; lia.
Qed.

Lemma index_skip_closed (forbid : list N) (sep : N) (seg tail : bytes) :
  In sep forbid -> contains left_blocks sep = false -> contains right_blocks sep = false ->
  seg_ok forbid 0 seg = true ->
  (tail = [] \/ exists rest, tail = sep :: rest) ->
  index_skip (seg ++ tail) sep left_blocks right_blocks
  = Ok (match tail with [] => -1 | _ => blen seg end).
Proof.
  intros Hin Hl Hr Hok Htail. rewrite index_skip_suf.
  destruct (Z.eqb_spec (bindex (seg ++ tail) sep) (-1)) as [E|E].
  - destruct Htail as [->|(rest & ->)]; [rewrite E; reflexivity|].
    exfalso. exact (bindex_app_sep seg sep rest E).
  - change 0 with (Z.of_nat 0) at 2.
    rewrite (index_suf_closed forbid sep Hin Hl Hr seg O 0 (bindex (seg ++ tail) sep) tail Hok Htail).
    + destruct tail; [reflexivity|]. f_equal.
    + intros _. split; [exact E|lia].
Qed.

(* ---------- Split on a separator-joined list of closed segments ------------------------------- *)

Lemma join_cons2 (sep : N) (x y : bytes) (r : list bytes) :
  join sep (x :: y :: r) = x ++ sep :: join sep (y :: r).
Proof. reflexivity. Qed.

Lemma split_loop_segs : forall forbid sep,
  In sep forbid -> contains left_blocks sep = false -> contains right_blocks sep = false ->
  forall more seg k done blanks,
  Forall (fun x => seg_ok forbid 0 x = true) (seg :: more) ->
  (length more <= k)%nat -> (length more < length blanks)%nat ->
  split_loop k (join sep (seg :: more)) sep left_blocks right_blocks (done ++ blanks) (blen done)
  = Ok (done ++ seg :: more).
Proof.
  intros forbid sep Hin Hl Hr.
  assert (FIN : forall seg done (blanks : list bytes), (0 < length blanks)%nat ->
            bind (arr_set (done ++ blanks) (blen done) seg) (fun a' => slice_to a' (blen done + 1))
            = Ok (done ++ [seg])).
  { intros seg done blanks Hb. destruct blanks as [|b bl]; [cbn [length] in Hb; lia|].
    rewrite arr_set_app. cbn [bind].
    replace (done ++ seg :: bl) with ((done ++ [seg]) ++ bl) by (rewrite <- app_assoc; reflexivity).
    replace (blen done + 1) with (blen (done ++ [seg])) by (rewrite blen_app; reflexivity).
    apply slice_to_app. }
  induction more as [|seg2 more' IH]; intros seg k done blanks Hall Hk Hb.
  - cbn [join]. destruct k as [|k']; cbn [split_loop].
    + apply FIN. lia.
    + rewrite <- (app_nil_r seg) at 1.
      rewrite (index_skip_closed forbid sep seg [] Hin Hl Hr); [|inversion Hall; assumption|left; reflexivity].
      cbn [bind]. change (-1 <? 0) with true. cbv iota. apply FIN. lia.
  - destruct k as [|k']; [cbn [length] in Hk; lia|].
    destruct blanks as [|b bl]; [cbn [length] in Hb; lia|].
    rewrite join_cons2. cbn [split_loop].
    inversion Hall as [|? ? Hseg Hrest]; subst.
    rewrite (index_skip_closed forbid sep seg (sep :: join sep (seg2 :: more')) Hin Hl Hr Hseg)
      by (right; eexists; reflexivity).
    cbn [bind]. pose proof (blen_nonneg seg) as Hs.
    replace (blen seg <? 0) with false by (symmetry; apply Z.ltb_ge; lia).
    rewrite Z.add_0_r. rewrite slice_to_app. cbn [bind].
    rewrite arr_set_app. cbn [bind].
    replace (seg ++ sep :: join sep (seg2 :: more')) with ((seg ++ [sep]) ++ join sep (seg2 :: more'))
      by (rewrite <- app_assoc; reflexivity).
    replace (blen seg + 1) with (blen (seg ++ [sep])) by (rewrite blen_app; reflexivity).
    rewrite slice_from_app. cbn [bind].
    replace (done ++ seg :: bl) with ((done ++ [seg]) ++ bl) by (rewrite <- app_assoc; reflexivity).
    replace (blen done + 1) with (blen (done ++ [seg])) by (rewrite blen_app; reflexivity).
    rewrite (IH seg2 k' (done ++ [seg]) bl Hrest); cbn [length] in *; try lia.
    rewrite <- app_assoc. reflexivity.
Qed.

Lemma bcount_app (a b : bytes) (sep : N) : bcount (a ++ b) sep = (bcount a sep + bcount b sep)%nat.
Proof.
  induction a as [|x a IH]; cbn [app bcount]; [reflexivity|]. destruct (N.eqb x sep); lia.
Qed.

Lemma bcount_join (sep : N) : forall more seg, (length more <= bcount (join sep (seg :: more)) sep)%nat.
Proof.
  induction more as [|seg2 more IH]; intros seg; [cbn [length]; lia|].
  rewrite join_cons2, bcount_app. cbn [bcount length]. rewrite N.eqb_refl.
  pose proof (IH seg2). lia.
Qed.

(* Split gives back exactly the segments: bracketed groups are never split *)
Lemma split_cfg_segs (forbid : list N) (sep : N) (seg : bytes) (more : list bytes) :
  In sep forbid -> contains left_blocks sep = false -> contains right_blocks sep = false ->
  Forall (fun x => seg_ok forbid 0 x = true) (seg :: more) ->
  split_cfg (join sep (seg :: more)) sep left_blocks right_blocks = Ok (seg :: more).
Proof.
  intros Hin Hl Hr Hall. unfold split_cfg.
  set (s := join sep (seg :: more)).
  pose proof (bcount_le_len s sep) as Hle. pose proof (bcount_join sep more seg) as Hge. fold s in Hge.
  replace (Z.of_nat (bcount s sep) + 1 >? blen s + 1) with false
    by (symmetry; rewrite Z.gtb_ltb; apply Z.ltb_ge; unfold blen; lia).
  replace (Z.of_nat (bcount s sep) + 1 - 1) with (Z.of_nat (bcount s sep)) by lia.
  rewrite Nat2Z.id.
  change 0 with (blen (@nil bytes)).
  change (repeat [] (Z.to_nat (Z.of_nat (bcount s sep) + 1)))
    with ([] ++ repeat ([] : bytes) (Z.to_nat (Z.of_nat (bcount s sep) + 1))).
  unfold s. rewrite (split_loop_segs forbid sep Hin Hl Hr more seg); [reflexivity|exact Hall|exact Hge|].
  rewrite repeat_length. fold s. lia.
Qed.

(* ---------- seg_ok: composition ------------------------------------------------------------- *)

Lemma seg_ok_app (forbid : list N) : forall a d b,
  seg_ok forbid d a = true -> seg_ok forbid 0 b = true -> seg_ok forbid d (a ++ b) = true.
Proof.
  induction a as [|x a IH]; intros d b Ha Hb; cbn [app seg_ok] in *.
  - apply Nat.eqb_eq in Ha. subst d. exact Hb.
  - destruct (contains left_blocks x); [apply IH; assumption|].
    destruct (contains right_blocks x).
    + destruct d; [discriminate|]. apply IH; assumption.
    + apply andb_true_iff in Ha. destruct Ha as [H1 H2]. rewrite H1. cbn [andb]. apply IH; assumption.
Qed.

Lemma seg_ok_sub (f f' : list N) : (forall x, In x f' -> In x f) -> forall s d,
  seg_ok f d s = true -> seg_ok f' d s = true.
Proof.
  intros Hsub. induction s as [|x s IH]; intros d H; cbn [seg_ok] in *; [exact H|].
  destruct (contains left_blocks x); [apply IH; assumption|].
  destruct (contains right_blocks x).
  - destruct d; [discriminate|]. apply IH; assumption.
  - apply andb_true_iff in H. destruct H as [H1 H2]. rewrite (IH d H2), andb_true_r.
    apply orb_true_iff in H1. apply orb_true_iff. destruct H1 as [H1|H1]; [left; exact H1|right].
    apply negb_true_iff in H1. apply negb_true_iff.
    destruct (existsb (N.eqb x) f') eqn:E; [|reflexivity].
    apply existsb_exists in E. destruct E as (y & Hy & Exy).
    assert (existsb (N.eqb x) f = true) by (apply existsb_exists; exists y; split; [apply Hsub; exact Hy|exact Exy]).
    congruence.
Qed.

(* one plain byte (no bracket, not forbidden) in front of a segment *)
Lemma seg_ok_plain (forbid : list N) (x : N) (s : bytes) :
  contains left_blocks x = false -> contains right_blocks x = false ->
  existsb (N.eqb x) forbid = false ->
  seg_ok forbid 0 (x :: s) = seg_ok forbid 0 s.
Proof. intros Hl Hr Hf. cbn [seg_ok]. rewrite Hl, Hr, Hf. reflexivity. Qed.

Lemma seg_ok_join (forbid : list N) (sep : N) :
  contains left_blocks sep = false -> contains right_blocks sep = false ->
  existsb (N.eqb sep) forbid = false ->
  forall l, Forall (fun x => seg_ok forbid 0 x = true) l -> seg_ok forbid 0 (join sep l) = true.
Proof.
  intros Hl Hr Hf. induction l as [|x l IH]; intros Hall; [reflexivity|].
  destruct l as [|y l].
  - cbn [join]. inversion Hall; assumption.
  - rewrite join_cons2. inversion Hall as [|? ? Hx Hrest]; subst.
    apply seg_ok_app; [exact Hx|]. rewrite seg_ok_plain by assumption. apply IH. exact Hrest.
Qed.

(* ---------- TagArg.Parse on a rendered structured tag ---------------------------------------- *)

Lemma bindex_app_notin (n : bytes) (sep : N) (rest : bytes) :
  forallb (fun b => negb (N.eqb b sep)) n = true -> bindex (n ++ sep :: rest) sep = blen n.
Proof.
  induction n as [|b n IH]; intros H; cbn [app].
  - rewrite bindex_cons_eq. reflexivity.
  - cbn [forallb] in H. apply andb_true_iff in H. destruct H as [H1 H2]. apply negb_true_iff in H1.
    rewrite bindex_cons_ne by exact H1. rewrite (IH H2). rewrite blen_cons.
    pose proof (blen_nonneg n). replace (blen n =? -1) with false by (symmetry; apply Z.eqb_neq; lia).
    reflexivity.
Qed.

Lemma name_ok_parts (n : bytes) : name_ok n = true ->
  n <> [] /\ forallb (fun b => negb (N.eqb b 61)) n = true
  /\ (forall s, seg_ok [44%N] 0 (n ++ s) = seg_ok [44%N] 0 s).
Proof.
  unfold name_ok. intros H. apply andb_true_iff in H. destruct H as [H1 H2].
  split; [destruct n; [discriminate|discriminate]|].
  clear H1. induction n as [|b n IH]; [split; [reflexivity|intros; reflexivity]|].
  cbn [forallb] in H2. apply andb_true_iff in H2. destruct H2 as [Hb Hn].
  destruct (IH Hn) as [I1 I2].
  apply andb_true_iff in Hb. destruct Hb as [Hb H61]. apply andb_true_iff in Hb. destruct Hb as [Hb H44].
  apply andb_true_iff in Hb. destruct Hb as [Hbl Hbr].
  apply negb_true_iff in Hbl. apply negb_true_iff in Hbr. apply negb_true_iff in H44.
  split.
  - cbn [forallb]. rewrite H61, I1. reflexivity.
  - intros s. cbn [app]. rewrite seg_ok_plain; [apply I2|exact Hbl|exact Hbr|].
    cbn [existsb]. rewrite H44. reflexivity.
Qed.

Lemma arg_ok_parts (a : bytes * list bytes) : arg_ok a = true ->
  name_ok (fst a) = true /\ snd a <> [] /\ Forall (fun x => seg_ok [44; 32]%N 0 x = true) (snd a).
Proof.
  unfold arg_ok. intros H. apply andb_true_iff in H. destruct H as [H H3].
  apply andb_true_iff in H. destruct H as [H1 H2].
  split; [exact H1|]. split; [destruct (snd a); [discriminate|discriminate]|].
  apply Forall_forall. intros x Hx. rewrite forallb_forall in H3. apply H3. exact Hx.
Qed.

(* a rendered argument is itself a closed segment without a top-level "," *)
Lemma render_arg_ok (a : bytes * list bytes) : arg_ok a = true -> seg_ok [44%N] 0 (render_arg a) = true.
Proof.
  intros H. destruct (arg_ok_parts a H) as (Hn & _ & Hv).
  destruct (name_ok_parts (fst a) Hn) as (_ & _ & Hpre).
  unfold render_arg. rewrite Hpre. rewrite seg_ok_plain by reflexivity.
  apply seg_ok_join; try reflexivity.
  apply Forall_forall. intros x Hx. rewrite Forall_forall in Hv.
  apply (seg_ok_sub [44; 32]%N [44%N]); [|apply Hv; exact Hx].
  intros y Hy. cbn [In] in *. tauto.
Qed.

Lemma arg_set_cons (m : argmap) (b : N) (r : bytes) (val : list bytes) :
  arg_set m (b :: r) val = Ok (map_put m (upper_first (b :: r)) val).
Proof. cbn [arg_set]. rewrite format_arg_type_cons. reflexivity. Qed.

Definition put_arg (m : argmap) (a : bytes * list bytes) : argmap :=
  map_put m (upper_first (fst a)) (snd a).

Lemma parse_exps_render : forall args m,
  Forall (fun a => arg_ok a = true) args ->
  parse_exps (map render_arg args) m = Ok (fold_left put_arg args m).
Proof.
  induction args as [|a args IH]; intros m Hall; [reflexivity|].
  inversion Hall as [|? ? Ha Hrest]; subst.
  destruct (arg_ok_parts a Ha) as (Hn & Hne & Hv).
  destruct (name_ok_parts (fst a) Hn) as (Hnn & H61 & _).
  cbn [map parse_exps fold_left]. set (rest := map render_arg args). unfold render_arg.
  rewrite (bindex_app_notin (fst a) 61 (join 32 (snd a)) H61).
  pose proof (blen_nonneg (fst a)) as Hl.
  replace (blen (fst a) =? -1) with false by (symmetry; apply Z.eqb_neq; lia).
  rewrite slice_to_app. cbn [bind].
  replace (fst a ++ 61%N :: join 32 (snd a)) with ((fst a ++ [61%N]) ++ join 32 (snd a))
    by (rewrite <- app_assoc; reflexivity).
  replace (blen (fst a) + 1) with (blen (fst a ++ [61%N])) by (rewrite blen_app; reflexivity).
  rewrite slice_from_app. cbn [bind].
  destruct (snd a) as [|v vs] eqn:Ev; [contradiction|].
  unfold split_blocks.
  rewrite (split_cfg_segs [44; 32]%N 32 v vs); [|cbn [In]; tauto|reflexivity|reflexivity|exact Hv].
  cbn [bind].
  destruct (fst a) as [|b r] eqn:En; [contradiction|].
  rewrite arg_set_cons. cbn [bind].
  subst rest. rewrite (IH _ Hrest). unfold put_arg at 3. rewrite En, Ev. reflexivity.
Qed.

Lemma set_all_fold (args : list (bytes * list bytes)) : set_all args = fold_left put_arg args [].
Proof. reflexivity. Qed.

(* c19_faithful *)
Lemma tag_parse_render (v : bytes) (args : list (bytes * list bytes)) :
  value_ok v = true -> Forall (fun a => arg_ok a = true) args ->
  tag_parse (render v args) = Ok (v, set_all args).
Proof.
  intros Hv Hall. unfold tag_parse, split_blocks, render.
  rewrite (split_cfg_segs [44%N] 44 v (map render_arg args)); [|cbn [In]; tauto|reflexivity|reflexivity|].
  - cbn [bind]. rewrite (parse_exps_render args [] Hall). cbn [bind]. rewrite set_all_fold. reflexivity.
  - constructor; [exact Hv|]. apply Forall_forall. intros x Hx. apply in_map_iff in Hx.
    destruct Hx as (a & <- & Ha). apply render_arg_ok. rewrite Forall_forall in Hall. apply Hall. exact Ha.
Qed.

(* ---------- the argument map: later duplicates override ---------------------------------------- *)

Lemma bytes_eqb_eq : forall a b, bytes_eqb a b = true <-> a = b.
Proof.
  induction a as [|x a IH]; destruct b as [|y b]; cbn [bytes_eqb]; split; intros H;
    try reflexivity; try discriminate.
  - apply andb_true_iff in H. destruct H as [H1 H2]. apply N.eqb_eq in H1. apply IH in H2. congruence.
  - inversion H; subst. rewrite N.eqb_refl. cbn [andb]. apply IH. reflexivity.
Qed.

Lemma bytes_eqb_refl (a : bytes) : bytes_eqb a a = true.
Proof. apply bytes_eqb_eq. reflexivity. Qed.

Lemma bytes_eqb_neq (a b : bytes) : a <> b -> bytes_eqb a b = false.
Proof. intros H. destruct (bytes_eqb a b) eqn:E; [apply bytes_eqb_eq in E; contradiction|reflexivity]. Qed.

Lemma map_get_put_same : forall m k v, map_get (map_put m k v) k = Some v.
Proof.
  induction m as [|[k' v'] m IH]; intros k v; cbn [map_put map_get].
  - rewrite bytes_eqb_refl. reflexivity.
  - destruct (bytes_eqb k' k) eqn:E; cbn [map_get].
    + rewrite bytes_eqb_refl. reflexivity.
    + rewrite E. apply IH.
Qed.

Lemma map_get_put_other : forall m k v k2, k <> k2 -> map_get (map_put m k v) k2 = map_get m k2.
Proof.
  induction m as [|[k' v'] m IH]; intros k v k2 Hne; cbn [map_put map_get].
  - rewrite (bytes_eqb_neq k k2 Hne). reflexivity.
  - destruct (bytes_eqb k' k) eqn:E; cbn [map_get].
    + apply bytes_eqb_eq in E. subst k'. rewrite (bytes_eqb_neq k k2 Hne). reflexivity.
    + destruct (bytes_eqb k' k2); [reflexivity|]. apply IH. exact Hne.
Qed.

(* the value a name is bound to by a list of arguments: the LAST argument with that (formatted) name *)
Definition last_val (args : list (bytes * list bytes)) (k : bytes) (init : option (list bytes))
  : option (list bytes) :=
  fold_left (fun acc a => if bytes_eqb (upper_first (fst a)) k then Some (snd a) else acc) args init.

Lemma map_get_fold_put : forall args m k,
  map_get (fold_left put_arg args m) k = last_val args k (map_get m k).
Proof.
  unfold last_val. induction args as [|a args IH]; intros m k; [reflexivity|].
  cbn [fold_left]. rewrite IH. apply f_equal.
  unfold put_arg. destruct (bytes_eqb (upper_first (fst a)) k) eqn:E.
  - apply bytes_eqb_eq in E. subst k. apply map_get_put_same.
  - apply map_get_put_other. intros Heq. rewrite Heq, bytes_eqb_refl in E. discriminate.
Qed.

Lemma map_get_set_all (args : list (bytes * list bytes)) (k : bytes) :
  map_get (set_all args) k = last_val args k None.
Proof. rewrite set_all_fold. apply map_get_fold_put. Qed.

(* ---------- lookups ignore the case of the first letter ------------------------------------------ *)

Lemma to_upper1_flip (c : N) : is_ascii_letter c = true -> to_upper1 (flip_case c) = to_upper1 c.
Proof.
  unfold is_ascii_letter, flip_case, to_upper1. intros H.
  destruct (N.leb 65 c && N.leb c 90) eqn:U.
  - (* upper-case letter: flipped to lower case, upper-cased back *)
    apply andb_true_iff in U. destruct U as [A B]. apply N.leb_le in A, B.
    replace (N.ltb (c + 32) 128) with true by (symmetry; apply N.ltb_lt; lia).
    replace (N.leb 97 (c + 32)) with true by (symmetry; apply N.leb_le; lia).
    replace (N.leb (c + 32) 122) with true by (symmetry; apply N.leb_le; lia).
    replace (N.ltb c 128) with true by (symmetry; apply N.ltb_lt; lia).
    replace (N.leb 97 c) with false by (symmetry; apply N.leb_gt; lia).
    cbn [andb]. f_equal. lia.
  - (* lower-case letter: flipped to upper case, which upper-casing leaves alone *)
    cbn [orb] in H. rewrite H. apply andb_true_iff in H. destruct H as [C D]. apply N.leb_le in C, D.
    replace (N.ltb (c - 32) 128) with true by (symmetry; apply N.ltb_lt; lia).
    replace (N.leb 97 (c - 32)) with false by (symmetry; apply N.leb_gt; lia).
    replace (N.ltb c 128) with true by (symmetry; apply N.ltb_lt; lia).
    cbn [andb]. reflexivity.
Qed.

Lemma format_arg_type_flip (c : N) (rest : bytes) : is_ascii_letter c = true ->
  format_arg_type (flip_case c :: rest) = format_arg_type (c :: rest).
Proof. intros H. rewrite !format_arg_type_cons. rewrite (to_upper1_flip c H). reflexivity. Qed.

Lemma find_flip (m : argmap) (c : N) (rest : bytes) : is_ascii_letter c = true ->
  find m (flip_first (c :: rest)) = find m (c :: rest).
Proof. intros H. unfold find, flip_first. rewrite (format_arg_type_flip c rest H). reflexivity. Qed.

Lemma has_flip (m : argmap) (c : N) (rest : bytes) (wants : list bytes) : is_ascii_letter c = true ->
  has m (flip_first (c :: rest)) wants = has m (c :: rest) wants.
Proof. intros H. unfold has, flip_first. rewrite (format_arg_type_flip c rest H). reflexivity. Qed.

(* looking a rendered argument up under its own name or with the first letter's case flipped *)
Lemma find_upper_first (m : argmap) (n : bytes) : n <> [] -> find m n = Ok (map_get m (upper_first n)).
Proof. intros H. destruct n as [|b r]; [contradiction|]. unfold find. rewrite format_arg_type_cons. reflexivity. Qed.

(* ---------- IsRequired -------------------------------------------------------------------------- *)

Lemma is_intersect_single (args : list bytes) (w : bytes) : is_intersect args [w] = true <-> In w args.
Proof.
  unfold is_intersect. rewrite existsb_exists. split.
  - intros (x & Hx & E). cbn [existsb] in E. rewrite orb_false_r in E. apply bytes_eqb_eq in E. subst. exact Hx.
  - intros H. exists w. split; [exact H|]. cbn [existsb]. rewrite bytes_eqb_refl. reflexivity.
Qed.

Lemma format_required : format_arg_type arg_required = Ok arg_required.
Proof. reflexivity. Qed.

Lemma is_required_ok (m : argmap) : exists b, is_required m = Ok b.
Proof.
  unfold is_required, has. rewrite format_required. cbn [bind].
  destruct (map_get m arg_required); cbn [bind]; eauto.
Qed.

Lemma is_required_false_iff (m : argmap) :
  is_required m = Ok false <-> exists vals, map_get m arg_required = Some vals /\ In lit_false vals.
Proof.
  unfold is_required, has. rewrite format_required. cbn [bind].
  destruct (map_get m arg_required) as [vals|]; cbn [bind].
  - split.
    + intros H. exists vals. split; [reflexivity|]. apply is_intersect_single.
      destruct (is_intersect vals [lit_false]); [reflexivity|discriminate].
    + intros (v & E & Hin). inversion E; subst v. apply is_intersect_single in Hin. rewrite Hin. reflexivity.
  - split; [discriminate|]. intros (v & E & _). discriminate.
Qed.

(* the Required default never makes a point optional and never overrides an explicit argument *)
Lemma required_default_spec (m : argmap) :
  exists m', required_default true m = Ok m' /\
    match map_get m arg_required with
    | Some _ => m' = m
    | None => map_get m' arg_required = Some []
    end.
Proof.
  unfold required_default, has. rewrite format_required. cbn [bind].
  destruct (map_get m arg_required) as [vals|] eqn:E; cbn [bind].
  - exists m. split; reflexivity.
  - exists (map_put m arg_required []). split; [reflexivity|]. apply map_get_put_same.
Qed.

(* ---------- the prop shorthand ------------------------------------------------------------------- *)

Lemma seg_ok_close (forbid : list N) : forall v d,
  seg_ok forbid d v = true -> seg_ok forbid (S d) (v ++ [125%N]) = true.
Proof.
  induction v as [|x v IH]; intros d H; cbn [app seg_ok] in *.
  - apply Nat.eqb_eq in H. subst d. reflexivity.
  - destruct (contains left_blocks x); [apply IH; exact H|].
    destruct (contains right_blocks x).
    + destruct d; [discriminate|]. apply IH. exact H.
    + apply andb_true_iff in H. destruct H as [_ H]. cbn [Nat.eqb negb orb andb]. apply IH. exact H.
Qed.

Lemma wrapped_value_ok (v : bytes) : value_ok v = true -> value_ok ([36; 123]%N ++ v ++ [125]%N) = true.
Proof.
  unfold value_ok. intros H. cbn [app]. rewrite seg_ok_plain by reflexivity.
  change (seg_ok [44%N] 0 (123%N :: v ++ [125%N])) with (seg_ok [44%N] 1 (v ++ [125%N])).
  apply seg_ok_close. exact H.
Qed.

Lemma render_split (v : bytes) (args : list (bytes * list bytes)) :
  render v args = v ++ flat_map (fun a => 44%N :: render_arg a) args.
Proof.
  unfold render. revert v. induction args as [|a args IH]; intros v.
  - cbn [map join flat_map]. rewrite app_nil_r. reflexivity.
  - cbn [map flat_map]. rewrite join_cons2. fold (map render_arg args). rewrite IH.
    reflexivity.
Qed.

Lemma prop_rewrite_render (v : bytes) (args : list (bytes * list bytes)) :
  value_ok v = true ->
  prop_rewrite (render v args) = Ok (render ([36; 123]%N ++ v ++ [125]%N) args).
Proof.
  intros Hv. unfold prop_rewrite, index_skip_blocks. rewrite !render_split.
  destruct args as [|a args].
  - cbn [flat_map]. rewrite !app_nil_r.
    rewrite <- (app_nil_r v) at 1.
    rewrite (index_skip_closed [44%N] 44 v []); [|cbn [In]; tauto|reflexivity|reflexivity|exact Hv|left; reflexivity].
    cbn [bind]. change (negb (-1 =? -1)) with false. cbv iota. reflexivity.
  - cbn [flat_map]. set (tl := flat_map (fun a0 => 44%N :: render_arg a0) args).
    change ((44%N :: render_arg a) ++ tl) with (44%N :: (render_arg a ++ tl)).
    set (rest := render_arg a ++ tl).
    rewrite (index_skip_closed [44%N] 44 v (44%N :: rest)); [|cbn [In]; tauto|reflexivity|reflexivity|exact Hv|right; eexists; reflexivity].
    cbn [bind]. pose proof (blen_nonneg v) as Hl.
    replace (blen v =? -1) with false by (symmetry; apply Z.eqb_neq; lia).
    cbn [negb]. rewrite slice_to_app. cbn [bind]. rewrite slice_from_app. cbn [bind].
    rewrite <- !app_assoc. reflexivity.
Qed.

(* scanning `prop:"<structured tag>"`: the value is wrapped into ${...}, the arguments are untouched *)
Lemma scan_prop_render (v : bytes) (args : list (bytes * list bytes)) :
  value_ok v = true -> Forall (fun a => arg_ok a = true) args ->
  exists m, scan_property true true (render v args) = Ok ([36; 123]%N ++ v ++ [125]%N, m)
    /\ required_default true (set_all args) = Ok m.
Proof.
  intros Hv Hall. unfold scan_property. rewrite (prop_rewrite_render v args Hv). cbn [bind].
  rewrite (tag_parse_render _ args (wrapped_value_ok v Hv) Hall). cbn [bind fst snd].
  destruct (required_default_spec (set_all args)) as (m & E & _). rewrite E. cbn [bind].
  exists m. split; reflexivity.
Qed.

(* ---------- the scan path is total as well ------------------------------------------------------- *)

Lemma prop_rewrite_total (tagVal : bytes) : exists t, prop_rewrite tagVal = Ok t.
Proof.
  unfold prop_rewrite, index_skip_blocks.
  destruct (index_skip_range tagVal 44 left_blocks right_blocks) as (i & E & R). rewrite E. cbn [bind].
  destruct (Z.eqb_spec i (-1)) as [F|F]; cbn [negb]; [eauto|].
  destruct R as [R|R]; [contradiction|].
  destruct (slice_to_ok tagVal i) as (tv & E1 & _); [lia|]. rewrite E1. cbn [bind].
  destruct (slice_from_ok tagVal i) as (rest & E2); [lia|]. rewrite E2. cbn [bind]. eauto.
Qed.

Lemma required_default_total (required : bool) (m : argmap) : exists m', required_default required m = Ok m'.
Proof.
  destruct required; [|cbn [required_default]; eauto].
  destruct (required_default_spec m) as (m' & E & _). eauto.
Qed.

Lemma scan_property_total (shorthand required : bool) (tagVal : bytes) :
  exists v m, scan_property shorthand required tagVal = Ok (v, m).
Proof.
  unfold scan_property.
  assert (exists tv, (if shorthand then prop_rewrite tagVal else Ok tagVal) = Ok tv) as (tv & E).
  { destruct shorthand; [apply prop_rewrite_total|eauto]. }
  rewrite E. cbn [bind]. destruct (tag_parse_total tv) as (v & m & E2). rewrite E2. cbn [bind snd fst].
  destruct (required_default_total required m) as (m' & E3). rewrite E3. cbn [bind]. eauto.
Qed.

(* ---------- the exported argument API: Set replaces, Add appends, one table keyed by the canonical name ------ *)

Lemma arg_add_cons (m : argmap) (b : N) (r : bytes) (val : list bytes) :
  arg_add m (b :: r) val =
  Ok (map_put m (upper_first (b :: r))
        (match map_get m (upper_first (b :: r)) with Some old => old ++ val | None => val end)).
Proof. cbn [arg_add]. rewrite format_arg_type_cons. reflexivity. Qed.

Lemma arg_add_total (m : argmap) (t : bytes) (val : list bytes) : exists m', arg_add m t val = Ok m'.
Proof. destruct t as [|b r]; [cbn [arg_add]; eauto|]. rewrite arg_add_cons. eauto. Qed.

Lemma apply_ops_total : forall ops m, exists m', apply_ops m ops = Ok m'.
Proof.
  induction ops as [|o r IH]; intros m; cbn [apply_ops]; [eauto|].
  assert (exists m1, apply_op m o = Ok m1) as (m1 & E).
  { destruct o as [t v|t v]; cbn [apply_op]; [apply arg_set_total|apply arg_add_total]. }
  rewrite E. cbn [bind]. apply IH.
Qed.

Lemma upper_first_flip (c : N) (rest : bytes) : is_ascii_letter c = true ->
  upper_first (flip_first (c :: rest)) = upper_first (c :: rest).
Proof. intros H. cbn [flip_first upper_first]. rewrite (to_upper1_flip c H). reflexivity. Qed.

Lemma arg_add_flip (m : argmap) (c : N) (rest : bytes) (val : list bytes) : is_ascii_letter c = true ->
  arg_add m (flip_first (c :: rest)) val = arg_add m (c :: rest) val.
Proof.
  intros H. cbn [flip_first]. rewrite !arg_add_cons.
  change (flip_case c :: rest) with (flip_first (c :: rest)). rewrite (upper_first_flip c rest H). reflexivity.
Qed.

(* what a name is bound to, [] when it is not in the table (Go: m[k] of an absent key is the nil slice) *)
Definition stored (o : option (list bytes)) : list bytes := match o with Some x => x | None => [] end.

Lemma find_after_set (m : argmap) (c : N) (rest : bytes) (val : list bytes) :
  exists m', arg_set m (c :: rest) val = Ok m'
    /\ find m' (c :: rest) = Ok (Some val)
    /\ (is_ascii_letter c = true -> find m' (flip_first (c :: rest)) = Ok (Some val)).
Proof.
  rewrite arg_set_cons. eexists. split; [reflexivity|].
  assert (F : find (map_put m (upper_first (c :: rest)) val) (c :: rest) = Ok (Some val)).
  { rewrite find_upper_first by discriminate. rewrite map_get_put_same. reflexivity. }
  split; [exact F|]. intros H. rewrite (find_flip _ c rest H). exact F.
Qed.

Lemma find_after_add (m : argmap) (c : N) (rest : bytes) (val : list bytes) (old : option (list bytes)) :
  find m (c :: rest) = Ok old ->
  exists m', arg_add m (c :: rest) val = Ok m'
    /\ find m' (c :: rest) = Ok (Some (stored old ++ val))
    /\ (is_ascii_letter c = true -> find m' (flip_first (c :: rest)) = Ok (Some (stored old ++ val))).
Proof.
  intros Hold. rewrite find_upper_first in Hold by discriminate. injection Hold as Hold.
  rewrite arg_add_cons. eexists. split; [reflexivity|]. cbn [upper_first] in *. rewrite Hold.
  change (to_upper1 c ++ rest) with (upper_first (c :: rest)).
  assert (E : match old with Some o => o ++ val | None => val end = stored old ++ val).
  { destruct old; reflexivity. }
  rewrite E.
  assert (F : find (map_put m (upper_first (c :: rest)) (stored old ++ val)) (c :: rest) = Ok (Some (stored old ++ val))).
  { rewrite find_upper_first by discriminate. rewrite map_get_put_same. reflexivity. }
  split; [exact F|]. intros H. rewrite (find_flip _ c rest H). exact F.
Qed.

(* a value that was added is seen by Has under either spelling *)
Lemma has_after_add (m : argmap) (c : N) (rest : bytes) (val : list bytes) (w : bytes) :
  In w val ->
  exists m', arg_add m (c :: rest) val = Ok m'
    /\ has m' (c :: rest) [w] = Ok true
    /\ (is_ascii_letter c = true -> has m' (flip_first (c :: rest)) [w] = Ok true).
Proof.
  intros Hin. destruct (find m (c :: rest)) as [old|] eqn:Hold.
  2:{ rewrite find_upper_first in Hold by discriminate. discriminate. }
  destruct (find_after_add m c rest val old Hold) as (m' & E & F & _).
  exists m'. split; [exact E|].
  assert (Hh : has m' (c :: rest) [w] = Ok true).
  { rewrite find_upper_first in F by discriminate. injection F as F.
    unfold has. rewrite format_arg_type_cons. cbn [bind]. cbn [upper_first] in F. rewrite F.
    f_equal. apply is_intersect_single. apply in_or_app. right. exact Hin. }
  split; [exact Hh|]. intros H. rewrite (has_flip _ c rest [w] H). exact Hh.
Qed.

(* names other than the one written are untouched, by Set and by Add *)
Lemma api_frame (m : argmap) (n n2 : bytes) (val : list bytes) (m' : argmap) :
  n2 <> [] -> upper_first n2 <> upper_first n ->
  arg_set m n val = Ok m' \/ arg_add m n val = Ok m' ->
  find m' n2 = find m n2.
Proof.
  intros H2 Hne Hop. rewrite !find_upper_first by exact H2.
  destruct n as [|c rest].
  - cbn [arg_set arg_add] in Hop. destruct Hop as [E|E]; injection E as <-; reflexivity.
  - rewrite arg_set_cons, arg_add_cons in Hop.
    destruct Hop as [E|E]; injection E as <-; rewrite map_get_put_other; auto.
Qed.

Lemma api_empty_name (m : argmap) (val : list bytes) : arg_set m [] val = Ok m /\ arg_add m [] val = Ok m.
Proof. split; reflexivity. Qed.
