(* No panic under the EXTENDED semantics (Model/FactoryX.v), as Proofs/FactoryNoPanic.v for the plain model.

   The plain theorem needs two side conditions: the post-processor components have no injection points
   (`procs_pointless`: they are created while the pipeline is incomplete — the class of known finding KF-C05a) and the
   complete pipeline is settled.  A lookup from an Init method is one more way of creating a component early: when a
   post-processor component's Init looks a component WITH points up during PrepareComponents, that component is
   populated by an incomplete pipeline too.  The extended theorem therefore adds `procs_quiet`: the Init methods of
   the post-processor components issue no lookups.  Everything created after PrepareComponents sees the settled
   pipeline, so re-entrant lookups from there on are harmless. *)
From Coq Require Import List Arith Bool Lia.
From IocVerif Require Import Model.Registry Model.Resolve Model.Factory Model.App Model.FactoryTrace Model.FactoryX
  Proofs.FactoryBasics Proofs.FactoryLog Proofs.FactoryNoPanic Proofs.FactoryTraceProofs Proofs.FactoryXInv.
Import ListNotations.

Section NoPanicX.
  Variable vt : variant.
  Hypothesis Hf7 : fix_c07 vt = true.
  Hypothesis Hf8 : fix_c08 vt = true.
  Variable s : scenario.
  Variable x : extras.

  (* the pipeline is complete, or the component has neither injection points nor Init-time lookups *)
  Definition okdx (st : fstate) (d : name) : Prop :=
    settled (s_pop s) (active st) \/
    ((forall c, get_comp (s_pop s) d = Some c -> c_points c = []) /\ initget_of x d = []).

  Definition npx_spec (rect : fstate -> name -> tres (fstate * ver)) : Prop :=
    forall st d, NN s st -> okdx st d ->
      nopanic (snd (rect st d)) /\
      forall o st' v, rect st d = (o, Ok (st', v)) -> NN s st' /\ active st' = active st.

  Variable rect : fstate -> name -> tres (fstate * ver).
  Hypothesis Hrec : npx_spec rect.

  (* get_all / inject_points are only ever run with a settled pipeline: the plain lemmas need np_spec for settled
     states only, which npx_spec provides *)
  Lemma get_all_t_npx : forall cands st, NN s st -> settled (s_pop s) (active st) ->
    Forall (fun o : option name => o <> None) cands ->
    nopanic (snd (get_all_t rect st cands)) /\
    forall o st' vs, get_all_t rect st cands = (o, Ok (st', vs)) -> NN s st' /\ active st' = active st.
  Proof.
    induction cands as [|[d|] r IH]; intros st HN Hs Hall; cbn [get_all_t].
    - split; [exact I|]. intros o st' vs H; inversion H; subst; auto.
    - inversion Hall as [|? ? _ Hr]; subst.
      destruct (Hrec st d HN (or_introl Hs)) as [Hnp Hok].
      destruct (rect st d) as [o1 [[st1 v]|k st1]] eqn:E; [|split; [exact Hnp|intros ? ? ? H; discriminate]].
      destruct (Hok o1 st1 v eq_refl) as [HN1 Ha1].
      assert (Hs1 : settled (s_pop s) (active st1)) by (rewrite Ha1; exact Hs).
      destruct (IH st1 HN1 Hs1 Hr) as [Hnp2 Hok2].
      destruct (get_all_t rect st1 r) as [o2 [[st2 vs]|k2 st2]] eqn:E2; [|split; [exact Hnp2|intros ? ? ? H; discriminate]].
      split; [exact I|]. intros o st' vs' H; inversion H; subst.
      destruct (Hok2 _ _ _ eq_refl) as [HN2 Ha2]. split; [exact HN2|congruence].
    - inversion Hall as [|? ? Hx _]; subst. contradiction.
  Qed.

  Lemma inject_points_t_npx h : forall ps k inj st, NN s st -> settled (s_pop s) (active st) -> no_nil inj ->
    nopanic (snd (inject_points_t vt s rect h k ps inj st)) /\
    forall o st', inject_points_t vt s rect h k ps inj st = (o, Ok st') -> NN s st' /\ active st' = active st.
  Proof.
    induction ps as [|p ps' IH]; intros k inj st HN Hs Hnn; cbn [inject_points_t].
    - split; [exact I|]. intros o st' H; inversion H; subst; auto.
    - destruct inj as [|i inj']; [split; [exact I|intros o st' H; inversion H; subst; auto]|].
      inversion Hnn as [|? ? Hi Hr]; subst.
      destruct i as [|c0 c1]; [apply IH; assumption|].
      destruct (get_all_t_npx (c0 :: c1) st HN Hs Hi) as [Hnp Hok].
      destruct (get_all_t rect st (c0 :: c1)) as [o1 [[st1 vs]|k1 st1]] eqn:E1; [|split; [exact Hnp|intros ? ? H; discriminate]].
      destruct (Hok _ _ _ eq_refl) as [HN1 Ha1].
      destruct (inject_np vt Hf7 s st1 h k p vs) as [Hnp2 Hok2].
      destruct (inject vt s st1 h k p vs) as [st2|k2 st2] eqn:E2; [|split; [exact Hnp2|intros ? ? H; discriminate]].
      destruct (Hok2 _ eq_refl) as [Hi2 Ha2].
      assert (HN2 : NN s st2) by (eapply NN_same_injs; eauto).
      assert (Hs2 : settled (s_pop s) (active st2)) by (rewrite Ha2, Ha1; exact Hs).
      destruct (IH (S k) inj' st2 HN2 Hs2 Hr) as [Hnp3 Hok3].
      destruct (inject_points_t vt s rect h (S k) ps' inj' st2) as [o3 r3] eqn:E3. cbn [snd] in *.
      split; [exact Hnp3|].
      intros o st' H. inversion H; subst. destruct (Hok3 _ st' eq_refl) as [HN3 Ha3]. split; [exact HN3|congruence].
  Qed.

  Lemma populate_t_npx st n c :
    NN s st -> (settled (s_pop s) (active st) \/ c_points c = []) -> get_comp (s_pop s) n = Some c ->
    nopanic (snd (populate_t vt s rect st n c)) /\
    forall o st', populate_t vt s rect st n c = (o, Ok st') -> NN s st' /\ active st' = active st.
  Proof.
    intros HN Hs Hc. unfold populate_t.
    destruct (cur_injs_NN s st n c HN Hc) as [Hn0 Hl0].
    pose proof (pipeline_quiet vt s n c (active st) st (cur_injs st n c)) as Hq.
    destruct (pipeline vt s n c (active st) st (cur_injs st n c)) as [[st1 inj]|k st1] eqn:E.
    - pose proof (pipeline_state _ _ _ _ _ _ _ _ _ E) as ->.
      pose proof (pipeline_length vt s n c _ _ _ _ _ Hl0 E) as Hl1.
      destruct Hs as [Hs|Hp].
      + destruct (pipeline_no_nil vt s n c Hf8 _ _ _ false _ _ Hl0 (fun _ => Hn0) E Hs) as [Hn1 _].
        assert (HN1 : NN s (set_injs st n inj)) by (eapply NN_set_injs; eauto).
        apply (inject_points_t_npx n (c_points c) 0 inj (set_injs st n inj) HN1 Hs Hn1).
      + rewrite Hp in *. destruct inj; [|discriminate].
        assert (HN1 : NN s (set_injs st n [])) by (eapply NN_set_injs; eauto; [constructor|rewrite Hp; reflexivity]).
        cbn [inject_points_t]. split; [exact I|]. intros o st' H; inversion H; subst. split; [exact HN1|reflexivity].
    - cbn [snd]. split; [|intros ? ? H; discriminate]. destruct k as [e| |]; [exact I|exact Hq|exact I].
  Qed.

  Lemma init_gets_npx n : forall ds j st, NN s st -> settled (s_pop s) (active st) ->
    nopanic (snd (init_gets_t rect n j ds st)) /\
    forall o st', init_gets_t rect n j ds st = (o, Ok st') -> NN s st' /\ active st' = active st.
  Proof.
    induction ds as [|d r IH]; intros j st HN Hs; cbn [init_gets_t].
    - split; [exact I|]. intros o st' H; inversion H; subst; auto.
    - destruct (Hrec st d HN (or_introl Hs)) as [Hnp Hok].
      destruct (rect st d) as [o1 [[st1 v]|k st1]] eqn:E; [|split; [exact Hnp|intros ? ? H; discriminate]].
      destruct (Hok o1 st1 v eq_refl) as [HN1 Ha1].
      assert (HN1' : NN s (write_plain st1 n (100 + j) [v])) by (eapply NN_same_injs; [|exact HN1]; reflexivity).
      assert (Hs1 : settled (s_pop s) (active (write_plain st1 n (100 + j) [v]))) by (cbn [active write_plain]; rewrite Ha1; exact Hs).
      destruct (IH (S j) _ HN1' Hs1) as [Hnp2 Hok2].
      destruct (init_gets_t rect n (S j) r (write_plain st1 n (100 + j) [v])) as [o2 r2] eqn:E2. cbn [snd] in *.
      split; [exact Hnp2|]. intros o st' H. inversion H; subst.
      destruct (Hok2 _ st' eq_refl) as [HN2 Ha2]. split; [exact HN2|]. rewrite Ha2. cbn [active write_plain]. exact Ha1.
  Qed.

  Lemma initialize_xt_npx st n c :
    get_comp (s_pop s) n = Some c -> NN s st ->
    (settled (s_pop s) (active st) \/ initget_of x n = []) ->
    nopanic (snd (initialize_xt s x rect st n c)) /\
    forall o st' w, initialize_xt s x rect st n c = (o, Ok (st', w)) -> NN s st' /\ active st' = active st.
  Proof.
    intros Hc HN Hs. unfold initialize_xt.
    pose proof (before_chain_eff s n c (active st) st st (only_log_refl _ st)) as Hb.
    pose proof (before_chain_quiet s n c (active st) st st eq_refl) as Hbq.
    destruct (before_chain s n c (active st) st) as [st1|k1 st1]; cbn [eff1] in Hb.
    2:{ cbn [snd]. split; [|intros ? ? ? H; discriminate]. destruct k1 as [e| |]; [exact I|exact Hbq|exact I]. }
    destruct Hb as [_ _ _ Hi1 Ha1 _ _].
    unfold init_methods_xt.
    pose proof (init_methods_eff s n c st1 st1 Hc (only_log_refl _ st1)) as Hi.
    pose proof (init_methods_quiet n c st1 st1 eq_refl) as Hiq.
    destruct (init_methods n c st1) as [st2|k2 st2]; cbn [eff1] in Hi.
    2:{ cbn [snd]. split; [|intros ? ? ? H; discriminate]. destruct k2 as [e| |]; [exact I|exact Hiq|exact I]. }
    destruct Hi as [_ _ _ Hi2 Ha2 _ _].
    assert (HN2 : NN s st2) by (eapply NN_same_injs; [|exact HN]; congruence).
    assert (Ha02 : active st2 = active st) by congruence.
    assert (Htail : forall st3, NN s st3 -> active st3 = active st ->
              nopanic (after_chain s n (active st3) st3 None) /\
              forall st' w, after_chain s n (active st3) st3 None = Ok (st', w) -> NN s st' /\ active st' = active st).
    { intros st3 HN3 Ha3.
      pose proof (after_chain_eff s n (active st3) st3 st3 None (only_log_refl _ st3)) as Ha.
      pose proof (after_chain_quiet s n (active st3) st3 st3 None eq_refl) as Haq.
      destruct (after_chain s n (active st3) st3 None) as [[st4 w]|k4 st4]; cbn [eff2] in Ha.
      - split; [exact I|]. intros st' w' H; inversion H; subst. destruct Ha as [_ _ _ Hi4 Ha4 _ _].
        split; [eapply NN_same_injs; [|exact HN3]; exact Hi4|congruence].
      - split; [|intros ? ? H; discriminate]. destruct k4 as [e| |]; [exact I|exact Haq|exact I]. }
    destruct (c_init c) as [ci|].
    - assert (Hg : nopanic (snd (init_gets_t rect n 0 (initget_of x n) st2)) /\
                   forall o st', init_gets_t rect n 0 (initget_of x n) st2 = (o, Ok st') -> NN s st' /\ active st' = active st2).
      { destruct Hs as [Hs|Hs].
        - apply init_gets_npx; [exact HN2|rewrite Ha02; exact Hs].
        - rewrite Hs. cbn [init_gets_t snd]. split; [exact I|]. intros o st' H; inversion H; subst; auto. }
      destruct Hg as [Hnp Hok].
      destruct (init_gets_t rect n 0 (initget_of x n) st2) as [o3 [st3|k3 st3]] eqn:E3.
      + destruct (Hok _ _ eq_refl) as [HN3 Ha3]. assert (Ha03 : active st3 = active st) by congruence.
        destruct (Htail st3 HN3 Ha03) as [Hn4 Hok4]. cbn [snd]. split; [exact Hn4|].
        intros o st' w H. inversion H. eapply Hok4; eauto.
      + cbn [snd] in *. split; [exact Hnp|intros ? ? ? H; discriminate].
    - destruct (Htail st2 HN2 Ha02) as [Hn4 Hok4]. cbn [snd]. split; [exact Hn4|].
      intros o st' w H. inversion H. eapply Hok4; eauto.
  Qed.

  Lemma body_xt_npx : npx_spec (body_xt vt s x rect).
  Proof.
    intros st n HN Hs. unfold body_xt, body_with, get_singleton_t, get_singleton.
    destruct (get_lookup (reg st) n true) as [hv|f|].
    - cbn [snd]. split; [exact I|]. intros o st' v H; inversion H; subst; auto.
    - pose proof (early_reference_eff s st n) as He.
      pose proof (early_reference_quiet s st n) as Hq.
      destruct (early_reference s st n) as [[st1 v]|k st1]; cbn [eff2] in He.
      + cbn [snd]. split; [exact I|]. intros o st' v' H; inversion H; subst.
        destruct He as [_ _ _ Hi Ha _ _]. split; [eapply NN_same_injs; [|exact HN]; exact Hi|exact Ha].
      + cbn [snd]. split; [|intros ? ? ? H; discriminate]. destruct k as [e| |]; [exact I|exact Hq|exact I].
    - unfold begin_create. destruct (alookup n (L1 (reg st))); [cbn [snd]; split; [exact I|intros o st' v' H; inversion H; subst; auto]|].
      unfold create_xt. cbn [scanned set_reg].
      destruct (scanned st); [|cbn [snd]; split; [exact I|intros ? ? ? H; discriminate]].
      destruct (get_comp (s_pop s) n) as [c|] eqn:Ec; [|cbn [snd]; split; [exact I|intros ? ? ? H; discriminate]].
      destruct (shorted x _ n).
      + cbn [active set_reg].
        match goal with |- context [after_chain s n (active st) ?y None] => set (st0 := y) end.
        pose proof (after_chain_eff s n (active st) st0 st0 None (only_log_refl _ st0)) as Ha.
        pose proof (after_chain_quiet s n (active st) st0 st0 None eq_refl) as Haq.
        destruct (after_chain s n (active st) st0 None) as [[st2 w]|k2 st2]; cbn [eff2] in Ha.
        * cbn [snd]. split; [exact I|]. intros o st' v' H; inversion H; subst. destruct Ha as [_ _ _ Hi4 Ha4 _ _].
          split; [eapply NN_same_injs; [|exact HN]; exact Hi4|exact Ha4].
        * split; [|intros ? ? ? H; destruct k2; discriminate]. destruct k2 as [e| |]; [exact I|exact Haq|exact I].
      + unfold do_create_xt. cbn [reg set_reg].
        match goal with |- context [populate_t vt s rect ?y n c] => set (st0 := y) end.
        assert (HN0 : NN s st0) by (eapply NN_same_injs; [|exact HN]; reflexivity).
        assert (Hs0 : settled (s_pop s) (active st0) \/ c_points c = []).
        { destruct Hs as [Hs|[Hp _]]; [left; exact Hs|right; apply Hp; exact Ec]. }
        destruct (populate_t_npx st0 n c HN0 Hs0 Ec) as [Hnp Hok].
        destruct (populate_t vt s rect st0 n c) as [o1 [st1|k1 st1]] eqn:EP.
        2:{ cbn [snd] in *. split; [|intros ? ? ? H; destruct k1; discriminate]. destruct k1 as [e| |]; [exact I|exact Hnp|exact I]. }
        destruct (Hok _ _ eq_refl) as [HN1 Ha1].
        assert (Hs1 : settled (s_pop s) (active st1) \/ initget_of x n = []).
        { destruct Hs as [Hs|[_ Hq]]; [left; rewrite Ha1; exact Hs|right; exact Hq]. }
        destruct (initialize_xt_npx st1 n c Ec HN1 Hs1) as [Hnp2 Hok2].
        destruct (initialize_xt s x rect st1 n c) as [oi [[st2 w]|k2 st2]] eqn:EI.
        2:{ cbn [snd] in *. split; [|intros ? ? ? H; destruct k2; discriminate]. destruct k2 as [e| |]; [exact I|exact Hnp2|exact I]. }
        destruct (Hok2 _ _ _ eq_refl) as [HN2 Ha2].
        assert (Hfin : forall v, NN s (set_reg st2 (end_create_ok (reg st2) n v)) /\
                                 active (set_reg st2 (end_create_ok (reg st2) n v)) = active st).
        { intros v. split; [eapply NN_same_injs; [|exact HN2]; reflexivity|]. cbn [active set_reg].
          assert (Ha0 : active st0 = active st) by reflexivity. congruence. }
        unfold get_singleton_t, get_singleton. rewrite (FactoryBasics_get_lookup_false (reg st2) n).
        destruct (match alookup n (L1 (reg st2)) with Some v => Some v | None => alookup n (L2 (reg st2)) end) as [e|].
        * destruct w as [wv|].
          -- destruct (stale_dependents vt st2 n _); cbn [snd]; split; try exact I; intros o st' v' H; inversion H; subst; apply Hfin.
          -- cbn [snd]. split; [exact I|]. intros o st' v' H; inversion H; subst; apply Hfin.
        * cbn [snd]. split; [exact I|]. intros o st' v' H; inversion H; subst; apply Hfin.
  Qed.
End NoPanicX.

Theorem do_get_xt_nopanic vt s x :
  fix_c07 vt = true -> fix_c08 vt = true -> forall fuel, npx_spec s x (do_get_xt vt s x fuel).
Proof.
  intros H7 H8. induction fuel as [|f IH]; intros st d HN Hs; cbn [do_get_xt].
  - split; [exact I|intros ? ? ? H; discriminate].
  - apply (body_xt_npx vt H7 H8 s x (do_get_xt vt s x f) IH); assumption.
Qed.

(* ---------- a whole start ------------------------------------------------------------------------------- *)

Definition procs_quiet (s : scenario) (x : extras) : Prop :=
  forall p, In p (sorted_procs s) -> initget_of x p = [].

Lemma prepare_loop_xt_np vt s x : fix_c07 vt = true -> fix_c08 vt = true -> forall ps st,
  NN s st ->
  (forall p, In p ps -> (forall c, get_comp (s_pop s) p = Some c -> c_points c = []) /\ initget_of x p = []) ->
  nopanic (snd (prepare_loop_xt vt s x ps st)) /\
  forall o st', prepare_loop_xt vt s x ps st = (o, Ok st') -> NN s st' /\ active st' = active st ++ ps.
Proof.
  intros H7 H8. induction ps as [|p r IH]; intros st HN Hp; cbn [prepare_loop_xt].
  - split; [exact I|]. intros o st' H; inversion H; subst. split; [exact HN|rewrite app_nil_r; reflexivity].
  - assert (Hr : forall q, In q r -> (forall c, get_comp (s_pop s) q = Some c -> c_points c = []) /\ initget_of x q = [])
      by (intros q Hq; apply Hp; right; exact Hq).
    destruct (is_lazy (s_pop s) p).
    + assert (HN1 : NN s (set_active st (active st ++ [p]))) by (eapply NN_same_injs; [|exact HN]; reflexivity).
      destruct (IH _ HN1 Hr) as [Hnp Hok]. split; [exact Hnp|]. intros o st' H.
      destruct (Hok o st' H) as [HN2 Ha2]. split; [exact HN2|]. rewrite Ha2. cbn [active set_active].
      rewrite <- app_assoc. reflexivity.
    + assert (Hokd : okdx s x st p) by (right; apply Hp; left; reflexivity).
      destruct (do_get_xt_nopanic vt s x H7 H8 (fuel_of s) st p HN Hokd) as [Hnp Hok].
      destruct (do_get_xt vt s x (fuel_of s) st p) as [o1 [[st1 v]|k st1]] eqn:E; [|split; [exact Hnp|intros ? ? H; discriminate]].
      destruct (Hok _ _ _ eq_refl) as [HN1 Ha1].
      assert (HN1' : NN s (set_active st1 (active st1 ++ [p]))) by (eapply NN_same_injs; [|exact HN1]; reflexivity).
      destruct (IH _ HN1' Hr) as [Hnp2 Hok2].
      destruct (prepare_loop_xt vt s x r (set_active st1 (active st1 ++ [p]))) as [o2 r2] eqn:E2. cbn [snd] in *.
      split; [exact Hnp2|]. intros o st' H. inversion H; subst.
      destruct (Hok2 _ st' eq_refl) as [HN2 Ha2]. split; [exact HN2|]. rewrite Ha2. cbn [active set_active].
      rewrite Ha1, <- app_assoc. reflexivity.
Qed.

Lemma get_each_xt_np vt s x : fix_c07 vt = true -> fix_c08 vt = true -> forall ns st,
  NN s st -> settled (s_pop s) (active st) -> nopanic (snd (get_each_xt vt s x ns st)).
Proof.
  intros H7 H8. induction ns as [|n r IH]; intros st HN Hs; cbn [get_each_xt]; [exact I|].
  destruct (do_get_xt_nopanic vt s x H7 H8 (fuel_of s) st n HN (or_introl Hs)) as [Hnp Hok].
  destruct (do_get_xt vt s x (fuel_of s) st n) as [o1 [[st1 v]|k st1]] eqn:E; [|exact Hnp].
  destruct (Hok _ _ _ eq_refl) as [HN1 Ha1].
  pose proof (IH st1 HN1 ltac:(rewrite Ha1; exact Hs)) as H2.
  destruct (get_each_xt vt s x r st1) as [o2 r2]. exact H2.
Qed.

Theorem run_core_xt_nopanic vt s x :
  fix_c07 vt = true -> fix_c08 vt = true ->
  procs_pointless s -> procs_quiet s x -> settled (s_pop s) (sorted_procs s) ->
  nopanic (snd (run_core_xt vt s x)).
Proof.
  intros H7 H8 Hp Hq Hs. unfold run_core_xt. destruct (s_loader_fail s); [exact I|].
  assert (Hpq : forall p, In p (sorted_procs s) ->
            (forall c, get_comp (s_pop s) p = Some c -> c_points c = []) /\ initget_of x p = []).
  { intros p Hin. split; [intros c Hc; eapply Hp; eauto|apply Hq; exact Hin]. }
  destruct (prepare_loop_xt_np vt s x H7 H8 (sorted_procs s) (set_scanned finit) (NN_finit s) Hpq) as [Hnp Hok].
  destruct (prepare_loop_xt vt s x (sorted_procs s) (set_scanned finit)) as [o1 [st1|k st1]] eqn:E1; [|exact Hnp].
  destruct (Hok _ _ eq_refl) as [HN1 Ha1]. cbn [active set_scanned finit app] in Ha1.
  pose proof (get_each_xt_np vt s x H7 H8 (eager_names s) st1 HN1 ltac:(rewrite Ha1; exact Hs)) as H2.
  destruct (get_each_xt vt s x (eager_names s) st1) as [o2 [st2|k st2]]; [|exact H2].
  cbn [snd]. unfold call_runners. destruct (s_app s) as [[[a rp] cp]|]; [apply run_each_np|exact I].
Qed.

Definition procs_quiet_b (s : scenario) (x : extras) : bool :=
  forallb (fun p => match initget_of x p with [] => true | _ => false end) (sorted_procs s).

Lemma procs_quiet_b_sound s x : procs_quiet_b s x = true -> procs_quiet s x.
Proof.
  unfold procs_quiet_b, procs_quiet. rewrite forallb_forall. intros H p Hin.
  specialize (H p Hin). destruct (initget_of x p); [reflexivity|discriminate].
Qed.
