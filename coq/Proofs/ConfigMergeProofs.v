(* Lemmas about Model/ConfigMerge.v (C15). *)
From Coq Require Import List String ZArith Bool Lia Permutation.
From IocVerif Require Import Model.Sorter Model.ConfigMerge Proofs.SorterProofs.
From IocVerif Require Model.Strconv Proofs.StrconvProofs.
Import ListNotations.
Local Open Scope list_scope.

(* ---------------------------------------------------------------------------------------- *)
(* induction principle for the nested inductive [ctree] *)

Section ctree_induction.
  Variable P : ctree -> Prop.
  Hypothesis Hleaf : forall a, P (CLeaf a).
  Hypothesis Hlist : forall items, Forall P items -> P (CList items).
  Hypothesis Hmap : forall kids, Forall (fun kv => P (snd kv)) kids -> P (CMap kids).

  Fixpoint ctree_ind' (t : ctree) : P t :=
    match t with
    | CLeaf a => Hleaf a
    | CList items =>
        Hlist items ((fix go (l : list ctree) : Forall P l :=
                        match l with
                        | [] => Forall_nil _
                        | x :: r => Forall_cons x (ctree_ind' x) (go r)
                        end) items)
    | CMap kids =>
        Hmap kids ((fix go (l : list (key * ctree)) : Forall (fun kv => P (snd kv)) l :=
                      match l with
                      | [] => Forall_nil _
                      | kv :: r => Forall_cons kv (ctree_ind' (snd kv)) (go r)
                      end) kids)
    end.
End ctree_induction.

(* ---------------------------------------------------------------------------------------- *)
(* merge_val unfolds to merge_kids *)

Lemma merge_val_map sk tk : merge_val (CMap sk) (CMap tk) = CMap (merge_kids sk tk).
Proof.
  unfold merge_kids. cbn [merge_val]. f_equal.
  revert tk. induction sk as [|[k v] r IH]; intros tk; [reflexivity|].
  cbn [fold_left]. unfold merge_entry at 2. cbn [fst snd]. apply IH.
Qed.

Lemma merge_val_nonmap_tgt sv tv : is_map tv = false -> merge_val sv tv = sv.
Proof. destruct tv; cbn; try discriminate; destruct sv; reflexivity. Qed.

Lemma merge_val_nonmap_src sv tv : is_map tv = true -> is_map sv = false -> merge_val sv tv = tv.
Proof. destruct tv; cbn; try discriminate. destruct sv; cbn; try discriminate; reflexivity. Qed.

Lemma merge_val_is_map sv tv :
  is_map (merge_val sv tv) = is_map tv || is_map sv.
Proof.
  destruct tv as [a|items|tk].
  - rewrite merge_val_nonmap_tgt by reflexivity. reflexivity.
  - rewrite merge_val_nonmap_tgt by reflexivity. reflexivity.
  - destruct sv as [b|items|sk]; [reflexivity|reflexivity|]. rewrite merge_val_map. reflexivity.
Qed.

(* ---------------------------------------------------------------------------------------- *)
(* lookup after upsert / merge_kids *)

Lemma lookup_upsert f k k' v m :
  lookup k (upsert f k' v m) =
  if String.eqb k k'
  then Some (match lookup k m with None => v | Some tv => f tv end)
  else lookup k m.
Proof.
  induction m as [|[k2 tv] r IH]; cbn [upsert lookup].
  - destruct (String.eqb k k'); reflexivity.
  - destruct (String.eqb k' k2) eqn:E2; cbn [lookup].
    + apply String.eqb_eq in E2. subst k2.
      destruct (String.eqb k k') eqn:E; reflexivity.
    + destruct (String.eqb k k2) eqn:E3.
      * destruct (String.eqb k k') eqn:E; [|reflexivity].
        apply String.eqb_eq in E. apply String.eqb_eq in E3. subst.
        rewrite String.eqb_refl in E2. discriminate.
      * exact IH.
Qed.

Lemma mem_key_false_lookup k (m : doc) : mem_key k (map fst m) = false -> lookup k m = None.
Proof.
  induction m as [|[k' v] r IH]; cbn [map fst mem_key lookup]; [reflexivity|].
  intros H. apply orb_false_iff in H. destruct H as [H1 H2]. rewrite H1. apply IH, H2.
Qed.

Lemma lookup_merge_kids_notin k sk tk :
  mem_key k (map fst sk) = false -> lookup k (merge_kids sk tk) = lookup k tk.
Proof.
  unfold merge_kids. revert tk. induction sk as [|[k' v] r IH]; intros tk H; [reflexivity|].
  cbn [map fst mem_key] in H. apply orb_false_iff in H. destruct H as [H1 H2].
  cbn [fold_left]. rewrite IH by exact H2. unfold merge_entry. cbn [fst snd].
  rewrite lookup_upsert, H1. reflexivity.
Qed.

Lemma lookup_merge_kids k sk tk :
  nodup_keys (map fst sk) = true ->
  lookup k (merge_kids sk tk) =
  match lookup k sk with
  | None => lookup k tk
  | Some sv => Some (match lookup k tk with None => sv | Some tv => merge_val sv tv end)
  end.
Proof.
  revert tk. induction sk as [|[k' v] r IH]; intros tk H; [reflexivity|].
  cbn [map fst nodup_keys] in H. apply andb_true_iff in H. destruct H as [H1 H2].
  apply negb_true_iff in H1.
  cbn [lookup]. destruct (String.eqb k k') eqn:E.
  - apply String.eqb_eq in E. subst k'.
    change (merge_kids ((k, v) :: r) tk) with (merge_kids r (merge_entry tk (k, v))).
    rewrite lookup_merge_kids_notin by exact H1.
    unfold merge_entry. cbn [fst snd]. rewrite lookup_upsert, String.eqb_refl. reflexivity.
  - change (merge_kids ((k', v) :: r) tk) with (merge_kids r (merge_entry tk (k', v))).
    rewrite IH by exact H2.
    unfold merge_entry. cbn [fst snd]. rewrite lookup_upsert, E. reflexivity.
Qed.

Lemma lookup_In k (m : doc) v : lookup k m = Some v -> In (k, v) m.
Proof.
  induction m as [|[k' v'] r IH]; cbn [lookup]; [discriminate|].
  destruct (String.eqb k k') eqn:E.
  - intros H. injection H as ->. apply String.eqb_eq in E. subst. left. reflexivity.
  - intros H. right. apply IH, H.
Qed.

(* ---------------------------------------------------------------------------------------- *)
(* well-formedness *)

Lemma wf_map kids :
  wf (CMap kids) = nodup_keys (map fst kids) && forallb (fun kv => wf (snd kv)) kids.
Proof.
  cbn [wf]. f_equal. induction kids as [|[k v] r IH]; [reflexivity|].
  cbn [forallb snd]. rewrite IH. reflexivity.
Qed.

Lemma wf_map_inv kids :
  wf (CMap kids) = true ->
  nodup_keys (map fst kids) = true /\ forall k v, In (k, v) kids -> wf v = true.
Proof.
  rewrite wf_map. intros H. apply andb_true_iff in H. destruct H as [H1 H2]. split; [exact H1|].
  intros k v Hin. rewrite forallb_forall in H2. apply (H2 (k, v) Hin).
Qed.

(* ---------------------------------------------------------------------------------------- *)
(* THE homomorphism: reading a path out of a merge = merging what the two sides have at that path *)

Lemma get_nonmap p t : is_map t = false -> p <> [] -> get p t = None.
Proof. destruct p; [congruence|]. destruct t; cbn; try discriminate; reflexivity. Qed.

Lemma get_merge_val sv :
  wf sv = true -> forall tv p, get p (merge_val sv tv) = omerge (get p tv) (get p sv).
Proof.
  induction sv as [a|items _|sk IH] using ctree_ind'; intros Hwf tv p.
  - destruct p as [|k r]; [reflexivity|].
    rewrite (get_nonmap (k :: r) (CLeaf a)) by (reflexivity || discriminate). cbn [omerge].
    destruct (is_map tv) eqn:Em.
    + rewrite merge_val_nonmap_src by (assumption || reflexivity). reflexivity.
    + rewrite merge_val_nonmap_tgt by assumption.
      rewrite !get_nonmap by (assumption || reflexivity || discriminate). reflexivity.
  - destruct p as [|k r]; [reflexivity|].
    rewrite (get_nonmap (k :: r) (CList items)) by (reflexivity || discriminate). cbn [omerge].
    destruct (is_map tv) eqn:Em.
    + rewrite merge_val_nonmap_src by (assumption || reflexivity). reflexivity.
    + rewrite merge_val_nonmap_tgt by assumption.
      rewrite !get_nonmap by (assumption || reflexivity || discriminate). reflexivity.
  - destruct p as [|k r]; [reflexivity|].
    destruct (is_map tv) eqn:Em.
    2:{ rewrite merge_val_nonmap_tgt by assumption.
        rewrite (get_nonmap (k :: r) tv) by (assumption || discriminate).
        cbn [omerge]. destruct (get (k :: r) (CMap sk)); reflexivity. }
    destruct tv as [|?|tk]; try discriminate.
    rewrite merge_val_map. cbn [get].
    apply wf_map_inv in Hwf. destruct Hwf as [Hnd Hkids].
    rewrite lookup_merge_kids by exact Hnd.
    destruct (lookup k sk) as [sv'|] eqn:Es.
    + assert (Hin : In (k, sv') sk) by (apply lookup_In; exact Es).
      rewrite Forall_forall in IH. specialize (IH (k, sv') Hin). cbn [snd] in IH.
      specialize (IH (Hkids k sv' Hin)).
      destruct (lookup k tk) as [tv'|] eqn:Et.
      * apply IH.
      * cbn [omerge]. destruct (get r sv'); reflexivity.
    + cbn [omerge]. reflexivity.
Qed.

Lemma getd_merge cfg d p :
  wf_doc d = true -> getd p (merge cfg d) = omerge (getd p cfg) (getd p d).
Proof.
  intros Hwf. unfold getd, merge. rewrite <- merge_val_map. apply get_merge_val. exact Hwf.
Qed.

Lemma getd_nil p : p <> [] -> getd p [] = None.
Proof. destruct p; [congruence|reflexivity]. Qed.

(* the deep merge, path by path *)
Lemma getd_fold_merge docs : Forall (fun d => wf_doc d = true) docs ->
  forall cfg p, getd p (fold_left merge docs cfg) = fold_left omerge (map (getd p) docs) (getd p cfg).
Proof.
  induction 1 as [|d r Hd _ IH]; intros cfg p; [reflexivity|].
  cbn [fold_left map]. rewrite IH, getd_merge by exact Hd. reflexivity.
Qed.

Lemma getd_effective docs p :
  Forall (fun d => wf_doc d = true) docs -> p <> [] ->
  getd p (effective docs) = fold_left omerge (map (getd p) docs) None.
Proof.
  intros Hwf Hp. unfold effective. rewrite getd_fold_merge by exact Hwf.
  rewrite getd_nil by exact Hp. reflexivity.
Qed.

(* ---------------------------------------------------------------------------------------- *)
(* folds of omerge over the sequence of optional values at a path *)

Lemma fold_omerge_app l1 l2 acc :
  fold_left omerge (l1 ++ l2) acc = fold_left omerge l2 (fold_left omerge l1 acc).
Proof. apply fold_left_app. Qed.

Lemma fold_omerge_none l acc : Forall (fun x => x = None) l -> fold_left omerge l acc = acc.
Proof.
  revert acc. induction l as [|x r IH]; intros acc H; [reflexivity|].
  inversion H as [|? ? Hx Hr]; subst. cbn [fold_left omerge]. apply IH, Hr.
Qed.

Lemma omerge_some ot s : exists v, omerge ot (Some s) = Some v.
Proof. destruct ot; cbn; eauto. Qed.

Lemma fold_omerge_some l v : exists w, fold_left omerge l (Some v) = Some w.
Proof.
  revert v. induction l as [|x r IH]; intros v.
  - exists v. reflexivity.
  - cbn [fold_left]. destruct x as [s|]; cbn [omerge]; apply IH.
Qed.

(* nothing is dropped: a value anywhere in the sequence leaves a value in the result *)
Lemma fold_omerge_visible l acc x : In (Some x) l -> exists w, fold_left omerge l acc = Some w.
Proof.
  intros Hin. apply in_split in Hin. destruct Hin as [l1 [l2 ->]].
  rewrite fold_omerge_app. cbn [fold_left].
  destruct (omerge_some (fold_left omerge l1 acc) x) as [v ->]. apply fold_omerge_some.
Qed.

(* the accumulated value is a map only if some member was *)
Definition omap (o : option ctree) : bool := match o with Some v => is_map v | None => false end.

Lemma omerge_omap ot os : omap (omerge ot os) = omap ot || omap os.
Proof.
  destruct os as [s|]; destruct ot as [t|]; cbn [omerge omap]; rewrite ?merge_val_is_map, ?orb_false_r; reflexivity.
Qed.

Lemma fold_omerge_omap l acc :
  omap (fold_left omerge l acc) = omap acc || existsb omap l.
Proof.
  revert acc. induction l as [|x r IH]; intros acc; cbn [fold_left existsb]; [rewrite orb_false_r; reflexivity|].
  rewrite IH, omerge_omap, orb_assoc. reflexivity.
Qed.

(* last wins on a leaf unless a map was seen before it *)
Lemma fold_omerge_last l1 v l2 :
  is_map v = false -> existsb omap l1 = false -> Forall (fun x => x = None) l2 ->
  fold_left omerge (l1 ++ Some v :: l2) None = Some v.
Proof.
  intros Hv Hno Hl2. rewrite fold_omerge_app. cbn [fold_left]. rewrite fold_omerge_none by exact Hl2.
  pose proof (fold_omerge_omap l1 None) as Hm. rewrite Hno in Hm. cbn in Hm.
  destruct (fold_left omerge l1 None) as [t|]; cbn [omerge]; [|reflexivity].
  cbn [omap] in Hm. rewrite merge_val_nonmap_tgt by exact Hm. reflexivity.
Qed.

(* with an earlier map the leaf is NOT taken (the refutation direction, used by the oracle's class) *)
Lemma fold_omerge_conflict l1 v l2 :
  is_map v = false -> existsb omap l1 = true -> Forall (fun x => x = None) l2 ->
  omap (fold_left omerge (l1 ++ Some v :: l2) None) = true.
Proof.
  intros Hv Hyes Hl2. rewrite fold_omerge_omap. cbn [omap]. rewrite existsb_app, Hyes. reflexivity.
Qed.

(* one supplier *)
Lemma fold_omerge_only l1 v l2 :
  Forall (fun x => x = None) l1 -> Forall (fun x => x = None) l2 ->
  fold_left omerge (l1 ++ Some v :: l2) None = Some v.
Proof.
  intros H1 H2. rewrite fold_omerge_app. cbn [fold_left].
  rewrite (fold_omerge_none l1) by exact H1. cbn [omerge]. apply fold_omerge_none, H2.
Qed.

(* ---------------------------------------------------------------------------------------- *)
(* property-level lemmas *)

Lemma Forall_map_none (p : path) (l : list doc) :
  Forall (fun d' => getd p d' = None) l -> Forall (fun x => x = None) (map (getd p) l).
Proof. induction 1; cbn; constructor; assumption. Qed.

Lemma deep_merge docs p :
  Forall (fun d => wf_doc d = true) docs -> p <> [] ->
  getd p (effective docs) = fold_left omerge (map (getd p) docs) None.
Proof. exact (getd_effective docs p). Qed.

Lemma survives docs p v :
  Forall (fun d => wf_doc d = true) docs -> p <> [] ->
  only_supplier p docs v -> getd p (effective docs) = Some v.
Proof.
  intros Hwf Hp (l1 & d & l2 & -> & Hd & H1 & H2).
  rewrite getd_effective by assumption.
  rewrite map_app. cbn [map]. rewrite Hd.
  apply fold_omerge_only; apply Forall_map_none; assumption.
Qed.

Lemma nothing_dropped docs p d v :
  Forall (fun d => wf_doc d = true) docs -> p <> [] ->
  In d docs -> getd p d = Some v -> exists w, getd p (effective docs) = Some w.
Proof.
  intros Hwf Hp Hin Hd. rewrite getd_effective by assumption.
  apply fold_omerge_visible with (x := v). rewrite <- Hd. apply in_map, Hin.
Qed.

(* no earlier map at p in l1, from the absence of a conflict *)
Lemma no_conflict_no_earlier_map p l1 d l2 v :
  ~ shape_conflict_at p (l1 ++ d :: l2) -> getd p d = Some v -> is_map v = false ->
  existsb omap (map (getd p) l1) = false.
Proof.
  intros Hnc Hd Hv. destruct (existsb omap (map (getd p) l1)) eqn:E; [|reflexivity].
  exfalso. apply Hnc. apply existsb_exists in E. destruct E as [x [Hin Hx]].
  apply in_map_iff in Hin. destruct Hin as [di [<- Hin]].
  apply in_split in Hin. destruct Hin as [a [b ->]].
  destruct (getd p di) as [vi|] eqn:Ei; [|discriminate]. cbn [omap] in Hx.
  exists a, di, b, d, l2, vi, v. rewrite <- app_assoc. cbn [app]. repeat split; assumption.
Qed.

Lemma last_wins_at docs p v :
  Forall (fun d => wf_doc d = true) docs -> p <> [] -> ~ shape_conflict_at p docs ->
  last_supplier p docs v -> is_map v = false -> getd p (effective docs) = Some v.
Proof.
  intros Hwf Hp Hnc (l1 & d & l2 & -> & Hd & H2) Hv.
  rewrite getd_effective by assumption.
  rewrite map_app. cbn [map]. rewrite Hd.
  apply fold_omerge_last; [exact Hv| |apply Forall_map_none; exact H2].
  eapply no_conflict_no_earlier_map; eassumption.
Qed.

Lemma last_wins docs p v :
  Forall (fun d => wf_doc d = true) docs -> shape_compatible docs -> p <> [] ->
  last_supplier p docs v -> is_map v = false -> getd p (effective docs) = Some v.
Proof. intros Hwf Hc Hp. apply last_wins_at; [exact Hwf|exact Hp|apply Hc]. Qed.

(* a map-valued last supplier under compatibility: the result is a map (its entries follow the
   same theorems at the longer paths) *)
Lemma last_map_stays_map docs p v :
  Forall (fun d => wf_doc d = true) docs -> p <> [] ->
  last_supplier p docs v -> is_map v = true ->
  exists kids, getd p (effective docs) = Some (CMap kids).
Proof.
  intros Hwf Hp (l1 & d & l2 & -> & Hd & H2) Hv.
  pose proof (getd_effective (l1 ++ d :: l2) p Hwf Hp) as E.
  pose proof (fold_omerge_omap (map (getd p) (l1 ++ d :: l2)) None) as Hm.
  rewrite <- E in Hm. rewrite map_app, existsb_app in Hm. cbn [map existsb] in Hm.
  rewrite Hd in Hm. cbn [omap] in Hm. rewrite Hv in Hm. rewrite orb_true_r in Hm. cbn in Hm.
  destruct (getd p (effective (l1 ++ d :: l2))) as [[| |kids]|]; try discriminate. eauto.
Qed.

(* the boolean conflict test used by the correspondence agrees with the proposition *)
Lemma conflictb_true_iff l :
  conflictb true l = true <-> exists v, In (Some v) l /\ is_map v = false.
Proof.
  induction l as [|x r IH]; cbn [conflictb].
  - split; [discriminate|]. intros (v & [] & _).
  - destruct x as [w|].
    + destruct (is_map w) eqn:Ew.
      * rewrite IH. split.
        -- intros (v & Hin & Hv). exists v. split; [right; exact Hin|exact Hv].
        -- intros (v & [Hin|Hin] & Hv); [injection Hin as ->; congruence|]. exists v. split; assumption.
      * cbn [orb]. split; [|reflexivity]. intros _. exists w. split; [left; reflexivity|exact Ew].
    + rewrite IH. split.
      * intros (v & Hin & Hv). exists v. split; [right; exact Hin|exact Hv].
      * intros (v & [Hin|Hin] & Hv); [discriminate|]. exists v. split; assumption.
Qed.

Lemma conflict_cons p d docs : shape_conflict_at p docs -> shape_conflict_at p (d :: docs).
Proof.
  intros (l1 & di & l2 & dj & l3 & vi & vj & -> & H). exists (d :: l1), di, l2, dj, l3, vi, vj.
  split; [reflexivity|exact H].
Qed.

Lemma conflictb_sound p docs :
  conflictb false (map (getd p) docs) = true -> shape_conflict_at p docs.
Proof.
  induction docs as [|d r IH]; cbn [map conflictb]; [discriminate|].
  destruct (getd p d) as [v|] eqn:Ed.
  - destruct (is_map v) eqn:Ev.
    + intros H. apply conflictb_true_iff in H. destruct H as (vj & Hin & Hvj).
      apply in_map_iff in Hin. destruct Hin as (dj & Hj & Hin).
      apply in_split in Hin. destruct Hin as (l2 & l3 & ->).
      exists [], d, l2, dj, l3, v, vj. repeat split; assumption.
    + cbn [orb]. intros H. apply conflict_cons, IH, H.
  - intros H. apply conflict_cons, IH, H.
Qed.

Lemma conflictb_mono l : conflictb false l = true -> conflictb true l = true.
Proof.
  induction l as [|[w|] r IH]; cbn [conflictb]; [discriminate| |exact IH].
  destruct (is_map w); [tauto|]. cbn [orb]. reflexivity.
Qed.

Lemma conflictb_skip seen l1 l :
  conflictb seen l = true -> conflictb seen (l1 ++ l) = true.
Proof.
  revert seen. induction l1 as [|[w|] r IH]; intros seen H; cbn [app conflictb]; [exact H| |apply IH, H].
  destruct (is_map w).
  - apply IH. destruct seen; [exact H|apply conflictb_mono, H].
  - rewrite (IH seen H). apply orb_true_r.
Qed.

Lemma conflictb_complete p docs :
  shape_conflict_at p docs -> conflictb false (map (getd p) docs) = true.
Proof.
  intros (l1 & di & l2 & dj & l3 & vi & vj & -> & Hi & Hvi & Hj & Hvj).
  rewrite map_app. apply conflictb_skip. cbn [map conflictb]. rewrite Hi, Hvi.
  apply conflictb_true_iff. exists vj. split; [|exact Hvj].
  rewrite map_app. apply in_or_app. right. cbn [map]. left. exact Hj.
Qed.

Lemma compatible_atb_iff p docs : compatible_atb p docs = true <-> ~ shape_conflict_at p docs.
Proof.
  unfold compatible_atb. rewrite negb_true_iff. split.
  - intros H Hc. apply conflictb_complete in Hc. congruence.
  - intros H. destruct (conflictb false (map (getd p) docs)) eqn:E; [|reflexivity].
    exfalso. apply H, conflictb_sound, E.
Qed.

(* ---------------------------------------------------------------------------------------- *)
(* the loader sequence (SortOrderedComponents through Model/Sorter.v) *)

Lemma pick_app ls a b : pick ls (a ++ b) = pick ls a ++ pick ls b.
Proof. unfold pick. apply flat_map_app. Qed.

Lemma pick_perm ls a b : Permutation a b -> Permutation (pick ls a) (pick ls b).
Proof. unfold pick. apply Permutation_flat_map. Qed.

Lemma nth_error_pre {A} (pre : list A) x r : nth_error (pre ++ x :: r) (length pre) = Some x.
Proof. induction pre; cbn; [reflexivity|assumption]. Qed.

Lemma pick_filter_parts (q : participant -> bool) (q' : loader -> bool) :
  (forall n l, q (mkPart n (lclass l)) = q' l) ->
  forall ls pre, pick (pre ++ ls) (filter q (parts_from (length pre) ls)) = filter q' ls.
Proof.
  intros Hq. induction ls as [|l r IH]; intros pre; [reflexivity|].
  cbn [parts_from filter]. rewrite Hq.
  assert (E : pre ++ l :: r = (pre ++ [l]) ++ r) by (rewrite <- app_assoc; reflexivity).
  assert (L : S (length pre) = length (pre ++ [l])) by (rewrite app_length; cbn; lia).
  destruct (q' l).
  - change (pick (pre ++ l :: r) (mkPart (length pre) (lclass l) :: filter q (parts_from (S (length pre)) r)))
      with ((match nth_error (pre ++ l :: r) (length pre) with Some x => [x] | None => [] end)
            ++ pick (pre ++ l :: r) (filter q (parts_from (S (length pre)) r))).
    rewrite nth_error_pre. cbn [app]. f_equal. rewrite E, L. apply IH.
  - rewrite E, L. apply IH.
Qed.

Lemma pick_filter_parts0 (q : participant -> bool) (q' : loader -> bool) :
  (forall n l, q (mkPart n (lclass l)) = q' l) ->
  forall ls, pick ls (filter q (parts_from 0 ls)) = filter q' ls.
Proof. intros Hq ls. exact (pick_filter_parts q q' Hq ls []). Qed.

(* a participant of [parts_from] stands for the loader at its position *)
Definition faith (ls : list loader) (p : participant) : Prop :=
  exists l, nth_error ls (pid p) = Some l /\ pcls p = lclass l.

Lemma parts_faith ls : forall pre, Forall (faith (pre ++ ls)) (parts_from (length pre) ls).
Proof.
  induction ls as [|l r IH]; intros pre; [constructor|]. cbn [parts_from]. constructor.
  - exists l. split; [apply nth_error_pre|reflexivity].
  - assert (E : pre ++ l :: r = (pre ++ [l]) ++ r) by (rewrite <- app_assoc; reflexivity).
    assert (L : S (length pre) = length (pre ++ [l])) by (rewrite app_length; cbn; lia).
    rewrite E, L. apply IH.
Qed.

Lemma Forall_filter {A} (P : A -> Prop) (f : A -> bool) l : Forall P l -> Forall P (filter f l).
Proof.
  intros H. apply Forall_forall. intros x Hx. apply filter_In in Hx.
  rewrite Forall_forall in H. apply H. tauto.
Qed.

Lemma pick_insert_by ls p ps l :
  nth_error ls (pid p) = Some l -> pcls p = lclass l -> Forall (faith ls) ps ->
  pick ls (insert_by p ps) = g_insert lclass l (pick ls ps).
Proof.
  intros Hn Hc. induction ps as [|q r IH]; intros Hf.
  - unfold pick. cbn [insert_by flat_map]. rewrite Hn. reflexivity.
  - inversion Hf as [|? ? (lq & Hnq & Hcq) Hr]; subst.
    assert (Eq : order_of q = g_order lclass lq) by (unfold order_of, g_order; rewrite Hcq; reflexivity).
    assert (Ep : order_of p = g_order lclass l) by (unfold order_of, g_order; rewrite Hc; reflexivity).
    assert (Epick : pick ls (q :: r) = lq :: pick ls r)
      by (unfold pick; cbn [flat_map]; rewrite Hnq; reflexivity).
    rewrite Epick. cbn [insert_by g_insert]. rewrite Eq, Ep.
    destruct (g_order lclass lq <? g_order lclass l)%Z.
    + change (pick ls (q :: insert_by p r)) with
        ((match nth_error ls (pid q) with Some x => [x] | None => [] end) ++ pick ls (insert_by p r)).
      rewrite Hnq, (IH Hr). reflexivity.
    + change (pick ls (p :: q :: r)) with
        ((match nth_error ls (pid p) with Some x => [x] | None => [] end) ++ pick ls (q :: r)).
      rewrite Hn, Epick. reflexivity.
Qed.

Lemma isort_faith ls ps : Forall (faith ls) ps -> Forall (faith ls) (isort ps).
Proof. apply isort_Forall. Qed.

Lemma pick_isort ls ps : Forall (faith ls) ps -> pick ls (isort ps) = g_isort lclass (pick ls ps).
Proof.
  induction ps as [|p r IH]; intros Hf; [reflexivity|].
  inversion Hf as [|? ? (l & Hn & Hc) Hr]; subst. cbn [isort].
  rewrite (pick_insert_by ls p (isort r) l Hn Hc (isort_faith ls r Hr)), (IH Hr).
  unfold pick at 2. cbn [flat_map]. rewrite Hn. reflexivity.
Qed.

(* the loader sequence is the generic sort applied to the loaders themselves *)
Lemma sequence_direct ls : sequence ls = g_sort lclass ls.
Proof.
  unfold sequence, sort_participants, g_sort.
  assert (F : Forall (faith ls) (parts_from 0 ls)) by exact (parts_faith ls []).
  rewrite !pick_app, !pick_isort by (apply Forall_filter, F).
  rewrite (pick_filter_parts0 is_prio (g_is_prio lclass)) by reflexivity.
  rewrite (pick_filter_parts0 is_ord (g_is_ord lclass)) by reflexivity.
  rewrite (pick_filter_parts0 is_unord (g_is_unord lclass)) by reflexivity.
  reflexivity.
Qed.

Lemma sequence_perm ls : Permutation ls (sequence ls).
Proof. rewrite sequence_direct. apply g_sort_perm. Qed.

Lemma has_order_perm ls :
  Permutation (filter has_order ls) (filter (g_is_prio lclass) ls ++ filter (g_is_ord lclass) ls).
Proof.
  induction ls as [|a r IH]; [constructor|]. cbn [filter].
  unfold has_order at 1, g_is_prio at 1, g_is_ord at 1. destruct (lclass a); cbn [app].
  - constructor. exact IH.
  - apply Permutation_cons_app. exact IH.
  - exact IH.
Qed.

(* ordered loaders (priority block, then ordered block) first, then the unordered ones as they were added *)
Lemma sequence_shape ls :
  exists fs, Permutation fs (filter has_order ls) /\
             sequence ls = fs ++ filter (fun l => negb (has_order l)) ls.
Proof.
  exists (g_isort lclass (filter (g_is_prio lclass) ls) ++ g_isort lclass (filter (g_is_ord lclass) ls)). split.
  - eapply Permutation_trans; [|apply Permutation_sym, has_order_perm].
    apply Permutation_app; apply Permutation_sym, g_isort_perm.
  - rewrite sequence_direct. unfold g_sort. rewrite <- app_assoc. do 2 f_equal.
    apply filter_ext. intros l. unfold g_is_unord, has_order. destruct (lclass l); reflexivity.
Qed.

Lemma sequence_ordered_first ls :
  exists fs us, sequence ls = fs ++ us /\ Forall (fun l => has_order l = true) fs /\
                Forall (fun l => has_order l = false) us /\ us = filter (fun l => negb (has_order l)) ls.
Proof.
  destruct (sequence_shape ls) as (fs & Hp & E).
  exists fs, (filter (fun l => negb (has_order l)) ls). split; [exact E|]. split; [|split; [|reflexivity]].
  - eapply Forall_perm; [apply Permutation_sym, Hp|]. apply Forall_filter_self.
  - apply Forall_forall. intros l Hin. apply filter_In in Hin. destruct Hin as [_ H].
    apply negb_true_iff in H. exact H.
Qed.

(* loaders of one class and Order are consulted in the order in which they were added *)
Lemma sequence_stable c ls :
  filter (fun l => same_class (lclass l) c) (sequence ls) = filter (fun l => same_class (lclass l) c) ls.
Proof. rewrite sequence_direct. apply g_sort_stable. Qed.

(* the sequence obeys the ordering contract of C12 *)
Lemma sequence_contract ls : contract_ok (map (fun l => mkPart 0 (lclass l)) (sequence ls)) = true.
Proof.
  rewrite sequence_direct.
  rewrite (g_sort_map lclass (fun l => mkPart 0 (lclass l)) pcls) by reflexivity.
  rewrite <- sort_participants_generic. apply sort_participants_contract.
Qed.

(* sorting the stored (sorted) list together with later additions = sorting everything added so far *)
Lemma sequence_resort l1 l2 : sequence (sequence l1 ++ l2) = sequence (l1 ++ l2).
Proof. rewrite !sequence_direct. apply g_sort_resort. Qed.

Lemma builtin_class l : is_user l = false -> lclass l = if is_file l then Prio 0 else Unord.
Proof. unfold is_user, lclass, is_file. destruct (lk l); congruence. Qed.

(* with the built-in loader kinds only: the files in the order they were added, then the others in the order
   they were added *)
Lemma sequence_builtin ls :
  Forall (fun l => is_user l = false) ls ->
  sequence ls = filter is_file ls ++ filter (fun l => negb (is_file l)) ls.
Proof.
  intros H. rewrite sequence_direct. unfold g_sort. rewrite Forall_forall in H.
  assert (Ep : filter (g_is_prio lclass) ls = filter is_file ls).
  { apply filter_ext_in. intros l Hl. unfold g_is_prio. rewrite (builtin_class l (H l Hl)).
    destruct (is_file l); reflexivity. }
  assert (Eo : filter (g_is_ord lclass) ls = []).
  { apply filter_all_false, Forall_forall. intros l Hl. unfold g_is_ord.
    rewrite (builtin_class l (H l Hl)). destruct (is_file l); reflexivity. }
  assert (Eu : filter (g_is_unord lclass) ls = filter (fun l => negb (is_file l)) ls).
  { apply filter_ext_in. intros l Hl. unfold g_is_unord. rewrite (builtin_class l (H l Hl)).
    destruct (is_file l); reflexivity. }
  rewrite Ep, Eo, Eu. cbn [g_isort app]. f_equal.
  apply g_isort_equal_keys. intros p q Hp Hq.
  apply filter_In in Hp, Hq. destruct Hp as [Hp Fp], Hq as [Hq Fq].
  unfold g_order. rewrite (builtin_class p (H p Hp)), (builtin_class q (H q Hq)), Fp, Fq. reflexivity.
Qed.

(* ---------------------------------------------------------------------------------------- *)
(* options *)

Lemma add_monotone cur o :
  is_adding o = true -> exists added, apply_opt Repaired cur o = cur ++ added.
Proof.
  destruct o as [f|ls|ls]; cbn [is_adding apply_opt]; intros H; try discriminate;
    unfold add_loaders; eauto.
Qed.

Lemma add_monotone_in cur o l :
  is_adding o = true -> In l cur -> In l (apply_opt Repaired cur o).
Proof.
  intros H Hin. destruct (add_monotone cur o H) as [added ->]. apply in_or_app. left. exact Hin.
Qed.

Lemma add_monotone_unrepaired_refuted :
  exists cur o l, is_adding o = true /\ In l cur /\ ~ In l (apply_opt Unrepaired cur o).
Proof.
  exists [mkLoader 0 (LRaw None)], (OAddConfigLoader [mkLoader 1 (LRaw None)]), (mkLoader 0 (LRaw None)).
  split; [reflexivity|]. split; [left; reflexivity|].
  cbn. intros [H|[]]. discriminate H.
Qed.

(* ---------------------------------------------------------------------------------------- *)
(* Initialize on a sequence whose loads succeed *)

Lemma run_seq_docs seq : forall ds cfg,
  docs_of seq = Some ds -> run_seq cfg seq = ROk (fold_left merge ds cfg).
Proof.
  induction seq as [|l r IH]; intros ds cfg; cbn [docs_of run_seq].
  - intros H. injection H as <-. reflexivity.
  - destruct (load l) as [[d|]| |]; try discriminate.
    + destruct (docs_of r) as [ds'|]; [|discriminate]. intros H. injection H as <-.
      cbn [fold_left]. apply IH. reflexivity.
    + destruct (docs_of r) as [ds'|]; [|discriminate]. intros H. injection H as <-.
      apply IH. reflexivity.
Qed.

Lemma initialize_docs ls ds :
  docs_of (sequence ls) = Some ds -> initialize ls = ROk (effective ds).
Proof. intros H. unfold initialize, effective. apply run_seq_docs, H. Qed.

Lemma docs_of_in seq : forall ds l d,
  docs_of seq = Some ds -> In l seq -> load l = LoadOk (Some d) -> In d ds.
Proof.
  induction seq as [|x r IH]; intros ds l d; cbn [docs_of]; [intros _ []|].
  destruct (load x) as [[dx|]| |] eqn:Ex; try discriminate;
    (destruct (docs_of r) as [ds'|]; [|discriminate]); intros H; injection H as <-.
  - intros [->|Hin] Hl.
    + rewrite Ex in Hl. injection Hl as ->. left. reflexivity.
    + right. eapply IH; [reflexivity|exact Hin|exact Hl].
  - intros [->|Hin] Hl.
    + rewrite Ex in Hl. discriminate.
    + eapply IH; [reflexivity|exact Hin|exact Hl].
Qed.

(* adding a source drops nothing, at the level of the effective configuration *)
Lemma add_keeps_paths cur o ds p l d v :
  is_adding o = true ->
  docs_of (sequence (apply_opt Repaired cur o)) = Some ds ->
  Forall (fun d => wf_doc d = true) ds -> p <> [] ->
  In l cur -> load l = LoadOk (Some d) -> getd p d = Some v ->
  initialize (apply_opt Repaired cur o) = ROk (effective ds) /\
  exists w, getd p (effective ds) = Some w.
Proof.
  intros Ha Hds Hwf Hp Hin Hl Hd. split; [apply initialize_docs, Hds|].
  apply (nothing_dropped ds p d v Hwf Hp); [|exact Hd].
  eapply docs_of_in; [exact Hds| |exact Hl].
  eapply Permutation_in; [apply sequence_perm|]. apply add_monotone_in; assumption.
Qed.

(* ---------------------------------------------------------------------------------------- *)
(* the args loader: the panic shape *)

Lemma pset_leaf_then_deeper k a k2 r v m :
  lookup k m = Some (CLeaf a) -> pset (k :: k2 :: r) v m = None.
Proof. intros H. cbn [pset]. rewrite H. reflexivity. Qed.

Lemma lookup_set_key k v m : lookup k (set_key k v m) = Some v.
Proof.
  induction m as [|[k' tv] r IH]; cbn [set_key lookup]; [rewrite String.eqb_refl; reflexivity|].
  destruct (String.eqb k k') eqn:E; cbn [lookup]; rewrite E; [reflexivity|exact IH].
Qed.

(* "--app.config=k=a" followed by "--app.config=k.k2...=b" panics, whatever came before *)
Lemma args_scalar_then_dotted_panics m k a k2 r b rest :
  args_fold (([k], CLeaf a) :: (k :: k2 :: r, b) :: rest) m = None.
Proof.
  cbn [args_fold pset]. rewrite lookup_set_key. reflexivity.
Qed.

(* ---------------------------------------------------------------------------------------- *)
(* the args loader from the argument strings: the value is everything after the first '=' *)

Lemma has_prefix_app (p r : Strconv.bytes) : Strconv.has_prefix p (p ++ r) = true.
Proof. induction p as [|a p IH]; cbn; [reflexivity|]. rewrite N.eqb_refl. exact IH. Qed.

Lemma skipn_app_exact {A} (p r : list A) : skipn (length p) (p ++ r) = r.
Proof. induction p as [|a p IH]; cbn; [reflexivity|exact IH]. Qed.

Lemma trim_prefix_app p r : trim_prefix p (p ++ r) = r.
Proof. unfold trim_prefix. rewrite has_prefix_app. apply skipn_app_exact. Qed.

Lemma flag_prefix_of_flag_eq r : Strconv.has_prefix lit_flag (lit_flag_eq ++ r) = true.
Proof. reflexivity. Qed.

(* "--app.config=" ++ k ++ "=" ++ v with no '=' in k: key k, value text v - whatever v contains *)
Lemma parse_arg_key_value k v :
  Strconv.byte_index b_eq k = None ->
  parse_arg (lit_flag_eq ++ k ++ b_eq :: v) =
  Some (Strconv.rbind (Strconv.parse_any v) (fun tv => Strconv.Ok (key_path k, tree_of_cval tv))).
Proof.
  intros Hk. unfold parse_arg. rewrite flag_prefix_of_flag_eq, trim_prefix_app.
  rewrite (StrconvProofs.split_first_app b_eq k v Hk). reflexivity.
Qed.

Lemma parse_arg_key_plain k v :
  Strconv.byte_index b_eq k = None -> Strconv.plain v = true ->
  parse_arg (lit_flag_eq ++ k ++ b_eq :: v) = Some (Strconv.Ok (key_path k, CLeaf (AStr (string_of_bytes v)))).
Proof.
  intros Hk Hp. rewrite (parse_arg_key_value k v Hk), (StrconvProofs.plain_parse v Hp). reflexivity.
Qed.

(* "--app.config=" ++ k without any '=': the value is the empty text *)
Lemma parse_arg_key_only k :
  Strconv.byte_index b_eq k = None ->
  parse_arg (lit_flag_eq ++ k) = Some (Strconv.Ok (key_path k, CLeaf (AStr ""))).
Proof.
  intros Hk. unfold parse_arg. rewrite flag_prefix_of_flag_eq, trim_prefix_app.
  rewrite (StrconvProofs.split_first_none b_eq k Hk). reflexivity.
Qed.

Lemma parse_arg_other a : Strconv.has_prefix lit_flag a = false -> parse_arg a = None.
Proof. intros H. unfold parse_arg. rewrite H. reflexivity. Qed.

(* the string loader is the typed loader on the typed arguments, when every argument types *)
Lemma argv_fold_typed argv : forall args m,
  argv_typed argv = Strconv.Ok args ->
  argv_fold argv m = match args_fold args m with
                     | None => LoadPanic
                     | Some [] => LoadOk None
                     | Some m' => LoadOk (Some m')
                     end.
Proof.
  induction argv as [|a r IH]; intros args m H; cbn [argv_typed argv_fold] in *.
  - injection H as <-. cbn [args_fold]. destruct m; reflexivity.
  - destruct (parse_arg a) as [[[p v]| |]|]; cbn [Strconv.rbind] in H; try discriminate.
    + destruct (argv_typed r) as [xs| |] eqn:E; cbn [Strconv.rbind] in H; try discriminate.
      injection H as <-. cbn [args_fold]. destruct (pset p v m) as [m'|]; [|reflexivity].
      apply IH. reflexivity.
    + apply IH, H.
Qed.

Lemma argv_load_typed argv args : argv_typed argv = Strconv.Ok args -> argv_load argv = args_load args.
Proof. intros H. unfold argv_load, args_load. apply argv_fold_typed, H. Qed.

(* ---------------------------------------------------------------------------------------- *)
(* one Configure used in several steps *)

Lemma consult_docs_of seq : forall ds, docs_of seq = Some ds -> consult seq = (ds, SOk, seq).
Proof.
  induction seq as [|l r IH]; intros ds; cbn [docs_of consult].
  - intros H. injection H as <-. reflexivity.
  - destruct (load l) as [[d|]| |]; try discriminate;
      (destruct (docs_of r) as [ds'|]; [|discriminate]); intros H; injection H as <-;
      rewrite (IH ds' eq_refl); reflexivity.
Qed.

(* the pass of [run_partial] is the pass of [run_seq]; it only keeps what was merged before a failure *)
Lemma run_seq_partial seq : forall cfg,
  run_seq cfg seq = match run_partial cfg seq with
                    | (c, SOk, _) => ROk c
                    | (_, SErr, _) => RErr
                    | (_, SPanic, _) => RPanic
                    end.
Proof.
  unfold run_partial. induction seq as [|l r IH]; intros cfg; cbn [run_seq consult]; [reflexivity|].
  destruct (load l) as [[d|]| |]; try reflexivity.
  - rewrite IH. destruct (consult r) as [[ds st] used]. reflexivity.
  - rewrite IH. destruct (consult r) as [[ds st] used]. reflexivity.
Qed.

Lemma run_partial_docs seq ds cfg :
  docs_of seq = Some ds -> run_partial cfg seq = (fold_left merge ds cfg, SOk, seq).
Proof. intros H. unfold run_partial. rewrite (consult_docs_of seq ds H). reflexivity. Qed.

(* configure.go stores the sorted list back; the specification sorts everything added so far: same histories *)
Lemma hist_modes_agree_gen steps : forall s s',
  cs_cfg s = cs_cfg s' ->
  (forall ext, sequence (cs_loaders s ++ ext) = sequence (cs_loaders s' ++ ext)) ->
  hist_trace Stored s steps = hist_trace AsAdded s' steps.
Proof.
  induction steps as [|st r IH]; intros s s' Hc Hl; [reflexivity|].
  destruct st as [ls|ls|]; cbn [hist_trace cstep_run cs_cfg cs_loaders].
  - rewrite Hc. f_equal. apply IH; reflexivity.
  - rewrite Hc. f_equal. apply IH; [reflexivity|]. cbn [cs_loaders]. unfold add_loaders.
    intros ext. rewrite <- !app_assoc. apply Hl.
  - assert (E : sequence (cs_loaders s) = sequence (cs_loaders s')).
    { specialize (Hl []). rewrite !app_nil_r in Hl. exact Hl. }
    rewrite <- E, <- Hc.
    destruct (run_partial (cs_cfg s) (sequence (cs_loaders s))) as [[cfg2 res] used].
    cbn [cs_cfg]. f_equal. apply IH; [reflexivity|]. cbn [cs_loaders].
    intros ext. rewrite sequence_resort. apply Hl.
Qed.

Lemma hist_modes_agree s steps : hist_trace Stored s steps = hist_trace AsAdded s steps.
Proof. apply hist_modes_agree_gen; reflexivity. Qed.

(* in the specification's view the loader list is what SetLoaders / AddLoaders built; Initialize leaves it alone *)
Definition loaders_after (cur : list loader) (steps : list cstep) : list loader :=
  fold_left (fun cur st => match st with CSet ls => ls | CAdd ls => add_loaders cur ls | CInit => cur end) steps cur.

Lemma asadded_loaders steps : forall s,
  cs_loaders (hist_final AsAdded s steps) = loaders_after (cs_loaders s) steps.
Proof.
  induction steps as [|st r IH]; intros s; [reflexivity|].
  cbn [hist_final]. rewrite IH. unfold loaders_after. cbn [fold_left]. f_equal.
  destruct st as [ls|ls|]; cbn [cstep_run fst cs_loaders]; try reflexivity.
  destruct (run_partial (cs_cfg s) (sequence (cs_loaders s))) as [[cfg2 res] used]. reflexivity.
Qed.

(* every Initialize of a history consults [sequence] of ALL loaders configured so far, and merges on top of
   the configuration already present: stated on the trace of the code's own (Stored) model *)
Lemma hist_trace_app m steps1 : forall s steps2,
  hist_trace m s (steps1 ++ steps2) = hist_trace m s steps1 ++ hist_trace m (hist_final m s steps1) steps2.
Proof.
  induction steps1 as [|st r IH]; intros s steps2; [reflexivity|].
  cbn [app hist_trace hist_final]. destruct (cstep_run m s st) as [s' o]. cbn [fst app].
  rewrite IH. reflexivity.
Qed.

Lemma hist_init_after steps s :
  hist_trace Stored s (steps ++ [CInit]) =
  hist_trace Stored s steps ++
  [let s' := hist_final AsAdded s steps in
   let '(cfg, r, used) := run_partial (cs_cfg s') (sequence (loaders_after (cs_loaders s) steps)) in
   (cfg, Some (r, used))].
Proof.
  rewrite !hist_modes_agree, hist_trace_app. f_equal.
  cbn [hist_trace cstep_run]. rewrite asadded_loaders.
  destruct (run_partial _ _) as [[cfg2 res] used]. reflexivity.
Qed.

(* the scenario of a bootstrap configuration: Initialize, add loaders, Initialize again *)
Lemma reinitialize l1 l2 ds1 ds2 :
  docs_of (sequence l1) = Some ds1 -> docs_of (sequence (l1 ++ l2)) = Some ds2 ->
  hist_trace Stored (mkCState l1 []) [CInit; CAdd l2; CInit] =
  [(effective ds1, Some (SOk, sequence l1));
   (effective ds1, None);
   (effective (ds1 ++ ds2), Some (SOk, sequence (l1 ++ l2)))].
Proof.
  intros H1 H2. rewrite hist_modes_agree.
  cbn [hist_trace cstep_run cs_cfg cs_loaders]. rewrite (run_partial_docs _ ds1 [] H1).
  cbn [cs_cfg cs_loaders]. unfold add_loaders. rewrite (run_partial_docs _ ds2 _ H2).
  unfold effective. rewrite fold_left_app. reflexivity.
Qed.

(* --- process-wide options (app.Settings) -------------------------------------------------------- *)

Lemma configured_run_after : forall v osargs ops globals,
  configured_run v osargs ops globals = fold_left (apply_opt v) globals (configured v osargs ops).
Proof. intros. unfold configured_run, configured. apply fold_left_app. Qed.

Lemma fold_adding_keeps : forall gs cur,
  Forall (fun o => is_adding o = true) gs ->
  exists added, fold_left (apply_opt Repaired) gs cur = cur ++ added.
Proof.
  induction gs as [|g gs IH]; intros cur Hall.
  - exists []. cbn. now rewrite app_nil_r.
  - inversion Hall as [|? ? Hg Hgs]; subst. cbn [fold_left].
    destruct (add_monotone cur g Hg) as [a Ha]. rewrite Ha.
    destruct (IH (cur ++ a) Hgs) as [b Hb]. exists (a ++ b). now rewrite Hb, app_assoc.
Qed.

(* a process-wide SetConfigLoader replaces whatever the options of the Run call configured; only
   process-wide options behind it still count *)
Lemma configured_run_global_set : forall v osargs ops g1 ls g2,
  configured_run v osargs ops (g1 ++ OSetConfigLoader ls :: g2) = fold_left (apply_opt v) g2 ls.
Proof.
  intros. rewrite configured_run_after, fold_left_app. cbn [fold_left apply_opt]. reflexivity.
Qed.

(* process-wide options that only add keep every loader the Run call configured, in place *)
Lemma configured_run_global_adding : forall osargs ops globals,
  Forall (fun o => is_adding o = true) globals ->
  exists added, configured_run Repaired osargs ops globals = configured Repaired osargs ops ++ added.
Proof. intros. rewrite configured_run_after. now apply fold_adding_keeps. Qed.
