(* What every injection point ends up holding (C06 C07 C08 at the level of a whole start) under the EXTENDED
   semantics of Model/FactoryX.v, as Proofs/FactoryWiring.v for the plain model: every published component that no
   post-processor is listed as short-circuiting has every point wired according to the plan of the complete pipeline
   (`wired_all`).  A short-circuited component is not populated at all, so the statement excludes it; the lookups an
   Init method issues create other components in the middle of the caller's creation but touch neither the caller's
   injection points (they are kept in the pseudo-fields from 100 on: `small_points`) nor anybody else's. *)
From Coq Require Import List Arith Bool Lia.
From IocVerif Require Import Model.Registry Model.Resolve Model.Factory Model.App Model.FactoryTrace Model.FactoryX
  Proofs.FactoryBasics Proofs.FactoryLog Proofs.FactoryInvariant Proofs.FactoryLifecycle Proofs.ResolveProofs
  Proofs.FactoryNoPanic Proofs.FactoryWiring Proofs.FactoryTraceProofs Proofs.FactoryXInv Proofs.FactoryXLife.
Import ListNotations.

Definition never_short (x : extras) (h : name) : Prop := forall p, ~ In (p, h) (x_short x).

Section WiringX.
  Variable vt : variant.
  Hypothesis H3 : fix_c03 vt = true.
  Hypothesis H7 : fix_c07 vt = true.
  Hypothesis H8 : fix_c08 vt = true.
  Hypothesis H10 : fix_c10 vt = true.
  Variable s : scenario.
  Variable x : extras.
  Hypothesis Hsmall : small_points s.
  Let pop := s_pop s.

  Record GX (st : fstate) : Prop := mkGX {
    gx_inv : InvX st;
    gx_fresh : forall n, cached (reg st) n = false -> alookup n (injs st) = None /\ forall k, field_of st n k = [];
    gx_wired : forall h c, alookup h (L1 (reg st)) <> None -> get_comp pop h = Some c -> never_short x h ->
                           wired_all vt s st h c
  }.

  Variable rect : fstate -> name -> tres (fstate * ver).
  Let rec := erase rect.
  Hypothesis Hspec : rec_specG (P := injk) rec.
  Hypothesis Hlife : rec_lifeX s x rec.
  Hypothesis HG : forall st d st' v, GX st -> full s st -> rec st d = Ok (st', v) -> GX st'.

  Lemma rec_activeX st d st' v : InvX st -> rec st d = Ok (st', v) -> active st' = active st.
  Proof. intros HI H. destruct (Hlife st d st' v H HI) as [_ [_ [Ha _]]]. exact Ha. Qed.

  Lemma get_all_GX : forall cands st st' vs, GX st -> full s st -> get_all rec st cands = Ok (st', vs) ->
    GX st' /\ active st' = active st.
  Proof.
    induction cands as [|[d|] r IH]; intros st st' vs Hg Hfu H; cbn [get_all] in H.
    - inversion H; subst; auto.
    - destruct (rec st d) as [[st1 v]|k st1] eqn:E; [|discriminate].
      destruct (get_all rec st1 r) as [[st2 vs']|k st2] eqn:E2; [|discriminate]. inversion H; subst.
      pose proof (rec_activeX _ _ _ _ (gx_inv st Hg) E) as Ha1.
      destruct (IH st1 st' vs' (HG _ _ _ _ Hg Hfu E) ltac:(unfold full; rewrite Ha1; exact Hfu) E2) as [Hg2 Ha2].
      split; [exact Hg2|congruence].
    - discriminate.
  Qed.

  Lemma get_all_ownersX : forall l st st' vs, InvX st -> get_all rec st (map Some l) = Ok (st', vs) -> map owner vs = l.
  Proof.
    induction l as [|d r IH]; intros st st' vs HI H; cbn [map get_all] in H.
    - inversion H; reflexivity.
    - destruct (rec st d) as [[st1 v]|k st1] eqn:E; [|discriminate].
      destruct (Hspec st d st1 v HI E) as [HI1 [_ [_ Hv]]].
      destruct (get_all rec st1 (map Some r)) as [[st2 vs']|k st2] eqn:E2; [|discriminate]. inversion H; subst.
      cbn [map]. rewrite (IH _ _ _ HI1 E2), (cur_owner st1 d v HI1 Hv). reflexivity.
  Qed.

  Lemma GX_write st h k used cr :
    GX st -> creating (reg st) = h :: cr -> Forall (current st) used ->
    (forall v, In v used -> is_self h v = false) -> GX (write_field st h k used).
  Proof.
    intros [Gi Gf Gw] Hcr Hcur Hns.
    assert (Hcached : cached (reg st) h = true) by (apply (i_creating_cached st Gi); rewrite Hcr; left; reflexivity).
    assert (HL1 : alookup h (L1 (reg st)) = None) by (apply (i_creating_unpub st Gi); rewrite Hcr; left; reflexivity).
    constructor.
    - eapply Inv_write; eauto.
    - intros n Hn. change (reg (write_field st h k used)) with (reg st) in Hn.
      destruct (Gf n Hn) as [A1 A2]. split; [exact A1|]. intros k'.
      rewrite field_of_write_other; [apply A2|]. intros ->. rewrite Hcached in Hn. discriminate.
    - intros h' c Hp Hc Hns'. change (reg (write_field st h k used)) with (reg st) in Hp.
      assert (Hne : h' <> h) by (intros ->; apply Hp; exact HL1).
      destruct (Gw h' c Hp Hc Hns') as [pl [Hpl Hall]]. exists pl. split; [exact Hpl|].
      intros k' p y Hk Hy. specialize (Hall k' p y Hk Hy). unfold wired_point in *.
      rewrite !(field_of_write_other st h k used h' k' Hne). exact Hall.
  Qed.

  Lemma inject_points_wiredX h cr : forall ps k pl st st',
    GX st -> full s st -> creating (reg st) = h :: cr -> length pl = length ps ->
    Forall (fun r => exists l, r = map Some l /\ ~ In h l) pl ->
    (forall j, k <= j -> field_of st h j = []) ->
    inject_points vt s rec h k ps pl st = Ok st' ->
    GX st' /\ creating (reg st') = h :: cr
    /\ (forall j, j < k -> field_of st' h j = field_of st h j)
    /\ forall i p y, nth_error ps i = Some p -> nth_error pl i = Some y -> wired_point pop st' h (k + i) p y.
  Proof.
    induction ps as [|p ps' IH]; intros k pl st st' Hg Hfu Hcr Hlen Hsh Hemp H; cbn [inject_points] in H.
    - inversion H; subst. split; [exact Hg|]. split; [exact Hcr|]. split; [auto|]. intros i q y Hq; destruct i; discriminate.
    - destruct pl as [|y0 pl']; [discriminate|]. cbn [length] in Hlen.
      inversion Hsh as [|? ? [l [Hx Hnl]] Hsh']; subst y0.
      assert (Hcached : cached (reg st) h = true)
        by (apply (i_creating_cached st (gx_inv st Hg)); rewrite Hcr; left; reflexivity).
      destruct l as [|a t].
      + cbn [map] in H.
        destruct (IH (S k) pl' st st' Hg Hfu Hcr ltac:(lia) Hsh' ltac:(intros j Hj; apply Hemp; lia) H) as [Hg' [Hcr' [Hun Hw]]].
        split; [exact Hg'|]. split; [exact Hcr'|]. split; [intros j Hj; apply Hun; lia|].
        intros i q y Hq Hyy. destruct i as [|i'].
        * cbn in Hq, Hyy. inversion Hq; inversion Hyy; subst. unfold wired_point. cbn [remove_nil map].
          rewrite Nat.add_0_r, (Hun k ltac:(lia)). apply Hemp. lia.
        * cbn in Hq, Hyy. replace (k + S i') with (S k + i') by lia. apply Hw; assumption.
      + change (map Some (a :: t)) with (Some a :: map Some t) in H.
        destruct (get_all rec st (Some a :: map Some t)) as [[st1 vs]|k1 st1] eqn:E1; [|discriminate].
        change (Some a :: map Some t) with (map Some (a :: t)) in E1.
        destruct (get_all_GX _ _ _ _ Hg Hfu E1) as [Hg1 Hact1].
        destruct (get_all_spec rec Hspec _ _ _ _ (gx_inv st Hg) E1) as [_ [Hc1 [_ Hcur]]].
        pose proof (get_all_ownersX _ _ _ _ (gx_inv st Hg) E1) as Hown.
        assert (Hcr1 : creating (reg st1) = h :: cr) by congruence.
        (* the holder's fields are untouched by the nested creations *)
        destruct (get_all_lifeX s x rect Hspec Hlife (fun m => m = h) _ _ _ _ (gx_inv st Hg)
                    ltac:(intros m ->; exact Hcached) E1) as [_ [_ [_ [Hfr _]]]].
        destruct (Hfr h eq_refl) as [_ [Hfh _]].
        destruct (inject vt s st1 h k p vs) as [st2|k2 st2] eqn:E2; [|discriminate].
        assert (Hvs1 : filter (fun v => negb (is_self h v)) vs = vs) by (apply nonself_all; rewrite Hown; exact Hnl).
        assert (Hvsne : vs <> []) by (intros ->; discriminate Hown).
        destruct (inject_spec vt s st1 h k p vs st2 cr (gx_inv st1 Hg1) Hcr1 Hcur E2) as [HI2 Hr2].
        assert (Hcr2 : creating (reg st2) = h :: cr) by (rewrite Hr2; exact Hcr1).
        assert (Hfield : (field_of st2 h k = (if pt_slice p then vs else firstn 1 vs)
                          /\ forallb (fun v => assignable pop v (pt_target p)) (field_of st2 h k) = true
                          /\ GX st2 /\ (forall j, j <> k -> field_of st2 h j = field_of st1 h j))
                         \/ (st2 = st1 /\ pt_required p = false)).
        { destruct (inject_cases vt s st1 h k p vs st2 E2) as [->|Hw].
          - right. split; [reflexivity|].
            unfold inject in E2. destruct vs as [|v0 r0]; [contradiction|].
            rewrite Hvs1 in E2. destruct (forallb _ _) eqn:Ea.
            + exfalso. inversion E2 as [Heq]. apply (f_equal flds) in Heq. cbn [flds write_field] in Heq.
              apply (f_equal (@length _)) in Heq. cbn [length] in Heq. lia.
            + rewrite H7 in E2. destruct (pt_required p); [discriminate|reflexivity].
          - cbv zeta in Hw. rewrite Hvs1 in Hw. destruct Hw as [_ [-> Hass]]. left.
            assert (Hkk : key_eqb (h, k) (h, k) = true) by (unfold key_eqb; cbn [fst snd]; rewrite !Nat.eqb_refl; reflexivity).
            rewrite field_of_write, Hkk.
            split; [reflexivity|]. split; [exact Hass|]. split.
            + eapply GX_write; [exact Hg1|exact Hcr1| |].
              * rewrite Forall_forall in *. intros v Hv. apply Hcur. destruct (pt_slice p); [exact Hv|].
                destruct vs; [contradiction|]. destruct Hv as [<-|[]]. left; reflexivity.
              * intros v Hv. assert (Hin : In v vs).
                { destruct (pt_slice p); [exact Hv|]. destruct vs; [contradiction|]. destruct Hv as [<-|[]]. left; reflexivity. }
                rewrite <- Hvs1 in Hin. apply filter_In in Hin. destruct Hin as [_ Hn]. apply negb_true_iff in Hn. exact Hn.
            + intros j Hj. rewrite field_of_write. unfold key_eqb. cbn [fst snd]. rewrite Nat.eqb_refl. cbn [andb].
              destruct (Nat.eqb_spec k j); [subst; contradiction|reflexivity]. }
        assert (Hg2 : GX st2) by (destruct Hfield as [[_ [_ [Hg2 _]]]|[-> _]]; [exact Hg2|exact Hg1]).
        assert (Hoth : forall j, j <> k -> field_of st2 h j = field_of st h j).
        { intros j Hj. destruct Hfield as [[_ [_ [_ Ho]]]|[-> _]]; [rewrite (Ho j Hj)|]; apply Hfh. }
        assert (Hfu2 : full s st2).
        { unfold full. destruct Hfield as [[_ [_ [_ _]]]|[-> _]].
          - destruct (inject_cases vt s st1 h k p vs st2 E2) as [->|Hw0]; [rewrite Hact1; exact Hfu|].
            cbv zeta in Hw0. destruct Hw0 as [_ [-> _]]. cbn [active write_field]. rewrite Hact1. exact Hfu.
          - rewrite Hact1. exact Hfu. }
        destruct (IH (S k) pl' st2 st' Hg2 Hfu2 Hcr2 ltac:(lia) Hsh'
                     ltac:(intros j Hj; rewrite (Hoth j ltac:(lia)); apply Hemp; lia) H) as [Hg' [Hcr' [Hun Hw]]].
        split; [exact Hg'|]. split; [exact Hcr'|].
        split; [intros j Hj; rewrite (Hun j ltac:(lia)); apply Hoth; lia|].
        intros i q y Hq Hyy. destruct i as [|i'].
        * cbn in Hq, Hyy. injection Hq as <-. injection Hyy as <-. unfold wired_point. cbn [map remove_nil].
          rewrite remove_nil_map_Some.
          rewrite Nat.add_0_r, (Hun k ltac:(lia)).
          destruct Hfield as [[Hf [Hass _]]|[-> Hopt]].
          -- left. rewrite Hf. split; [|rewrite <- Hf; exact Hass].
             destruct (pt_slice p); [exact Hown|]. rewrite <- Hown. destruct vs; reflexivity.
          -- right. split; [rewrite Hfh; apply Hemp; lia|exact Hopt].
        * cbn in Hq, Hyy. replace (k + S i') with (S k + i') by lia. apply Hw; assumption.
  Qed.

  (* GX across steps that keep the registry-independent parts *)
  Lemma GX_same st st' :
    InvX st' -> injs st' = injs st -> flds st' = flds st ->
    L1 (reg st') = L1 (reg st) -> (forall m, cached (reg st') m = false -> cached (reg st) m = false) ->
    GX st -> GX st'.
  Proof.
    intros HI Hi Hf HL Hc [Gi Gf Gw].
    assert (Hfo : forall h k, field_of st' h k = field_of st h k) by (intros; unfold field_of; rewrite Hf; reflexivity).
    constructor.
    - exact HI.
    - intros n Hn. destruct (Gf n (Hc n Hn)) as [A1 A2]. split; [rewrite Hi; exact A1|intros k; rewrite Hfo; apply A2].
    - intros h c Hp Hcm Hns. rewrite HL in Hp. destruct (Gw h c Hp Hcm Hns) as [pl [Hpl Hall]]. exists pl. split; [exact Hpl|].
      intros k p y Hk Hy. specialize (Hall k p y Hk Hy). unfold wired_point in *. rewrite !Hfo. exact Hall.
  Qed.

  Lemma GX_only_log (Q : event -> Prop) st st' : only_log Q st st' -> GX st -> GX st'.
  Proof.
    intros [Hr Hf Hd Hi _ _ _] Hg. eapply GX_same; [| | | | |exact Hg].
    - eapply Inv_same_core; [|exact (gx_inv st Hg)]. repeat split; assumption.
    - exact Hi.
    - exact Hf.
    - rewrite Hr. reflexivity.
    - intros m Hm. rewrite Hr in Hm. exact Hm.
  Qed.

  (* an Init-time result kept in a pseudo-field of a component in creation *)
  Lemma GX_write_plain st n j vs cr :
    GX st -> creating (reg st) = n :: cr -> GX (write_plain st n (100 + j) vs).
  Proof.
    intros [Gi Gf Gw] Hcr.
    assert (Hcached : cached (reg st) n = true) by (apply (i_creating_cached st Gi); rewrite Hcr; left; reflexivity).
    assert (HL1 : alookup n (L1 (reg st)) = None) by (apply (i_creating_unpub st Gi); rewrite Hcr; left; reflexivity).
    assert (Hoth : forall h k, h <> n -> field_of (write_plain st n (100 + j) vs) h k = field_of st h k).
    { intros h k Hne. rewrite field_of_write_plain. destruct (key_eqb (n, 100 + j) (h, k)) eqn:E; [|reflexivity].
      apply key_eqb_true in E. inversion E; subst. contradiction. }
    constructor.
    - apply InvX_write_plain. exact Gi.
    - intros m Hm. change (reg (write_plain st n (100 + j) vs)) with (reg st) in Hm.
      destruct (Gf m Hm) as [A1 A2]. split; [exact A1|]. intros k. rewrite Hoth; [apply A2|].
      intros ->. rewrite Hcached in Hm. discriminate.
    - intros h c Hp Hc Hns. change (reg (write_plain st n (100 + j) vs)) with (reg st) in Hp.
      assert (Hne : h <> n) by (intros ->; apply Hp; exact HL1).
      destruct (Gw h c Hp Hc Hns) as [pl [Hpl Hall]]. exists pl. split; [exact Hpl|].
      intros k p y Hk Hy. specialize (Hall k p y Hk Hy). unfold wired_point in *. rewrite !(Hoth h k Hne). exact Hall.
  Qed.

  Lemma init_gets_GX n cr : forall ds j st o st',
    GX st -> full s st -> creating (reg st) = n :: cr ->
    init_gets_t rect n j ds st = (o, Ok st') -> GX st' /\ active st' = active st.
  Proof.
    induction ds as [|d r IH]; intros j st o st' Hg Hfu Hcr H; cbn [init_gets_t] in H.
    - inversion H; subst; auto.
    - destruct (rect st d) as [o1 [[st1 v]|k st1]] eqn:E; [|discriminate].
      assert (E' : rec st d = Ok (st1, v)) by (unfold rec, erase; rewrite E; reflexivity).
      pose proof (HG st d st1 v Hg Hfu E') as Hg1.
      pose proof (rec_activeX _ _ _ _ (gx_inv st Hg) E') as Ha1.
      destruct (Hspec st d st1 v (gx_inv st Hg) E') as [_ [Hc1 _]].
      assert (Hcr1 : creating (reg st1) = n :: cr) by congruence.
      destruct (init_gets_t rect n (S j) r (write_plain st1 n (100 + j) [v])) as [o2 r2] eqn:E2.
      inversion H; subst o r2. clear H.
      destruct (IH (S j) _ o2 st' (GX_write_plain st1 n j [v] cr Hg1 Hcr1)
                  ltac:(unfold full; cbn [active write_plain]; rewrite Ha1; exact Hfu) Hcr1 E2) as [Hg2 Ha2].
      split; [exact Hg2|]. rewrite Ha2. cbn [active write_plain]. exact Ha1.
  Qed.

  Lemma initialize_xt_GX st n c cr o st' w :
    get_comp pop n = Some c -> GX st -> (full s st \/ initget_of x n = []) -> creating (reg st) = n :: cr ->
    initialize_xt s x rect st n c = (o, Ok (st', w)) -> GX st'.
  Proof.
    intros Hc Hg Hfu Hcr. unfold initialize_xt.
    pose proof (before_chain_eff s n c (active st) st st (only_log_refl _ st)) as Hb.
    destruct (before_chain s n c (active st) st) as [sa|k sa]; [|discriminate]. cbn [eff1] in Hb.
    pose proof (GX_only_log _ _ _ Hb Hg) as Hga.
    unfold init_methods_xt.
    pose proof (init_methods_eff s n c sa sa Hc (only_log_refl _ sa)) as Hi.
    destruct (init_methods n c sa) as [sb|k sb]; [|discriminate]. cbn [eff1] in Hi.
    pose proof (GX_only_log _ _ _ Hi Hga) as Hgb.
    assert (Hab : active sb = active st /\ reg sb = reg st).
    { destruct Hi as [Hr2 _ _ _ Ha2 _ _]. destruct Hb as [Hr1 _ _ _ Ha1 _ _]. split; congruence. }
    destruct Hab as [Hab Hrb].
    assert (Hgets : forall o3 sc, (match c_init c with
                                   | Some _ => init_gets_t rect n 0 (initget_of x n) sb
                                   | None => ([], Ok sb) end) = (o3, Ok sc) -> GX sc).
    { intros o3 sc H3'. destruct (c_init c); [|inversion H3'; subst; exact Hgb].
      destruct Hfu as [Hfu|Hq].
      - apply (init_gets_GX n cr _ 0 sb o3 sc Hgb ltac:(unfold full; rewrite Hab; exact Hfu) ltac:(rewrite Hrb; exact Hcr) H3').
      - rewrite Hq in H3'. cbn [init_gets_t] in H3'. inversion H3'; subst. exact Hgb. }
    destruct (match c_init c with
              | Some _ => init_gets_t rect n 0 (initget_of x n) sb
              | None => ([], Ok sb) end) as [o3 [sc|k sc]] eqn:E3; [|discriminate].
    pose proof (Hgets o3 sc eq_refl) as Hgc.
    intros H. injection H as _ H.
    pose proof (after_chain_eff s n (active sc) sc sc None (only_log_refl _ sc)) as Ha. rewrite H in Ha. cbn [eff2] in Ha.
    apply (GX_only_log _ _ _ Ha Hgc).
  Qed.

  Lemma body_xt_GX : forall st n st' v,
    GX st ->
    (full s st \/ ((forall c, get_comp pop n = Some c -> c_points c = []) /\ initget_of x n = [])) ->
    erase (body_xt vt s x rect) st n = Ok (st', v) -> GX st'.
  Proof.
    intros st n st' v Hg Hcase H.
    pose proof (body_xt_spec vt H3 s x rect Hspec st n st' v (gx_inv st Hg) H) as [HI' _].
    unfold erase, body_xt, body_with, get_singleton_t in H. unfold get_singleton in H.
    destruct (get_lookup (reg st) n true) as [hv|f|] eqn:EL.
    - cbn [snd] in H. inversion H; subst. exact Hg.
    - unfold early_reference in H.
      pose proof (early_chain_eff s n (active st) st st (VOrig n) (only_log_refl _ st)) as He.
      destruct (early_chain s n (active st) st (VOrig n)) as [[st1 ev]|k st1]; [|discriminate].
      cbn [eff2] in He. cbn [snd] in H. inversion H; subst st' v. destruct He as [Hr Hf _ Hi Ha _ _].
      eapply GX_same; [exact HI'|exact Hi|exact Hf| | |exact Hg].
      + cbn [reg set_reg get_promote L1]. rewrite Hr. reflexivity.
      + intros m Hm. cbn [reg set_reg] in Hm. rewrite Hr in Hm.
        destruct (cached (reg st) m) eqn:E; [|reflexivity]. rewrite (mono_get_promote (reg st) n ev m E) in Hm. discriminate.
    - pose proof (FactoryBasics.get_lookup_miss_uncached _ _ EL) as Hunc.
      destruct (get_lookup_miss_true _ _ EL) as [HL1 [HL2 HL3]].
      unfold begin_create in H. rewrite HL1 in H.
      destruct (Inv_push st n (gx_inv st Hg) Hunc) as [Hadd HI0]. rewrite Hadd in H.
      unfold create_xt in H. cbn [scanned set_reg] in H.
      destruct (scanned st); [|discriminate].
      destruct (get_comp (s_pop s) n) as [c|] eqn:Ec; [|discriminate].
      destruct (gx_fresh st Hg n Hunc) as [Hinj0 Hfld0].
      destruct (shorted x _ n) eqn:Esh.
      + (* short-circuited: published without being populated; it is listed, so nothing is claimed of it *)
        cbn [active set_reg] in H.
        set (st0 := set_reg st (mkR (L1 (reg st)) (L2 (reg st)) (L3 (reg st)) (n :: creating (reg st)))) in *.
        pose proof (after_chain_eff s n (active st) st0 st0 None (only_log_refl _ st0)) as Ha.
        destruct (after_chain s n (active st) st0 None) as [[st2 w]|k2 st2] eqn:EA; [|destruct k2; discriminate].
        cbn [eff2] in Ha. cbn [snd app] in H. inversion H; subst st' v. clear H.
        destruct Ha as [Hr2 Hf2 _ Hi2 _ _ _].
        assert (Hfo2 : forall h k, field_of st2 h k = field_of st h k) by (intros; unfold field_of; rewrite Hf2; reflexivity).
        destruct Hg as [Gi Gf Gw]. constructor.
        * exact HI'.
        * intros m Hm. cbn [reg set_reg] in Hm.
          assert (Hm0 : cached (reg st) m = false).
          { destruct (cached (reg st) m) eqn:E; [|reflexivity].
            assert (E2 : cached (reg st2) m = true) by (rewrite Hr2; unfold cached in *; exact E).
            rewrite (mono_end_create_ok (reg st2) n _ m E2) in Hm. discriminate. }
          destruct (Gf m Hm0) as [A1 A2]. split; [cbn [injs set_reg]; rewrite Hi2; exact A1|].
          intros k. change (field_of (set_reg st2 (end_create_ok (reg st2) n
                      match w with Some v0 => v0 | None => VOrig n end)) m k) with (field_of st2 m k).
          rewrite Hfo2. apply A2.
        * intros h' c' Hp Hc' Hns. cbn [reg set_reg] in Hp. unfold end_create_ok, add_singleton in Hp. cbn [L1] in Hp.
          destruct (Nat.eq_dec h' n) as [->|Hne].
          -- exfalso. destruct (shorted_listed x _ n Esh) as [p Hp']. apply (Hns p Hp').
          -- rewrite (alookup_aset_neq n h' _ _ Hne), Hr2 in Hp.
             destruct (Gw h' c' Hp Hc' Hns) as [pl' [Hpl' Hall]]. exists pl'. split; [exact Hpl'|].
             intros k p y Hk Hy. specialize (Hall k p y Hk Hy). unfold wired_point in *.
             change (field_of (set_reg st2 (end_create_ok (reg st2) n
                      match w with Some v0 => v0 | None => VOrig n end)) h' k) with (field_of st2 h' k).
             rewrite Hfo2. exact Hall.
      + unfold do_create_xt in H. cbn [reg set_reg] in H.
        match type of H with context [populate_t vt s rect ?y n c] => set (st0 := y) in * end.
        assert (Hg0 : GX st0).
        { destruct Hg as [Gi Gf Gw]. constructor.
          - exact HI0.
          - intros m Hm. apply Gf. destruct (cached (reg st) m) eqn:E; [|reflexivity].
            assert (Hc0 : cached (reg st0) m = true).
            { unfold st0. cbn [reg set_reg]. apply mono_add_factory. exact E. }
            rewrite Hc0 in Hm. discriminate.
          - intros h' c' Hp Hc' Hns. exact (Gw h' c' Hp Hc' Hns). }
        assert (Hcr0 : creating (reg st0) = n :: creating (reg st)) by reflexivity.
        destruct (populate_t vt s rect st0 n c) as [o1 [st1|k1 st1]] eqn:EP0; [|destruct k1; discriminate].
        assert (EP : populate vt s rec st0 n c = Ok st1).
        { unfold rec. rewrite <- (populate_erase vt s rect (erase rect) (fun _ _ => eq_refl)). rewrite EP0. reflexivity. }
        destruct (populate_lifeX vt s x rect Hspec Hlife (fun _ => False) st0 n c _ o1 st1 (gx_inv st0 Hg0) Hcr0
                    ltac:(intros m []) ltac:(intros []) EP0) as [HI1 [Hcr1 [_ [_ [Ha1 _]]]]].
        (* populate: the pipeline yields the plan, inject_points wires it *)
        assert (Hpop : exists pl, plan vt s n c = Some pl /\ GX st1 /\
                  forall k p y, nth_error (c_points c) k = Some p -> nth_error pl k = Some y ->
                                wired_point pop st1 n k p y).
        { unfold populate in EP. unfold cur_injs in EP. change (injs st0) with (injs st) in EP. rewrite Hinj0 in EP.
          change (active st0) with (active st) in EP.
          assert (HG0' : forall pl, GX (set_injs st0 n pl)).
          { intros pl. destruct Hg0 as [Gi Gf Gw]. constructor.
            - eapply Inv_same_core; [|exact Gi]. repeat split.
            - intros m Hm. change (reg (set_injs st0 n pl)) with (reg st0) in Hm.
              destruct (Gf m Hm) as [A1 A2]. split; [|exact A2]. cbn [injs set_injs].
              assert (Hne : m <> n).
              { intros ->. unfold st0 in Hm. cbn [reg set_reg] in Hm. rewrite cached_add_factory in Hm. discriminate. }
              rewrite (alookup_aset_neq n m pl _ Hne). exact A1.
            - exact Gw. }
          destruct Hcase as [Hfu|[Hpl _]].
          - unfold full in Hfu. rewrite (pipeline_full vt s n c (active st) st0 H8 Hfu) in EP.
            destruct (cfg_stage c true); [discriminate|]. destruct (cfg_stage c false); [discriminate|].
            destruct (plan vt s n c) as [pl|] eqn:Epl; [|discriminate].
            destruct (pointwise_shape vt (s_pop s) n H10 (c_points c) _ pl Epl ltac:(rewrite map_length; reflexivity))
              as [Hlen Hsh].
            destruct (inject_points_wiredX n (creating (reg st)) (c_points c) 0 pl (set_injs st0 n pl) st1
                        (HG0' pl) Hfu Hcr0 Hlen Hsh ltac:(intros j _; apply Hfld0) EP) as [Hg1 [_ [_ Hw1]]].
            exists pl. split; [reflexivity|]. split; [exact Hg1|]. intros k p y Hk Hy. apply (Hw1 k p y Hk Hy).
          - pose proof (Hpl c Ec) as Hnil. exists []. unfold plan. rewrite Hnil. cbn [map pointwise].
            split; [reflexivity|].
            destruct (pipeline vt s n c (active st) st0 (map (fun _ => []) (c_points c))) as [[stp inj]|kp stp] eqn:Epi;
              [|discriminate].
            pose proof (pipeline_state _ _ _ _ _ _ _ _ _ Epi) as ->.
            pose proof (pipeline_length vt s n c _ _ _ _ _ ltac:(rewrite map_length; reflexivity) Epi) as Hl.
            rewrite Hnil in Hl, EP. destruct inj; [|discriminate]. cbn [inject_points] in EP. inversion EP; subst st1.
            split; [apply HG0'|]. intros k p y Hk. destruct k; discriminate. }
        destruct Hpop as [pl [Epl [Hg1 Hw1]]].
        destruct (initialize_xt s x rect st1 n c) as [oi [[st2 w]|k2 st2]] eqn:EI; [|destruct k2; discriminate].
        assert (Hfu1 : full s st1 \/ initget_of x n = []).
        { destruct Hcase as [Hfu|[_ Hq]]; [left; unfold full; rewrite Ha1; exact Hfu|right; exact Hq]. }
        pose proof (initialize_xt_GX st1 n c _ oi st2 w Ec Hg1 Hfu1 Hcr1 EI) as Hg2.
        destruct (initialize_xt_lifeX s x rect Hspec Hlife (fun _ => False) st1 n c _ oi st2 w Ec HI1 Hcr1
                    ltac:(intros m []) ltac:(intros []) EI) as [_ [_ [_ [_ [_ Hfl2]]]]].
        (* the final state is st2 with n published *)
        assert (Hfin : forall pv, st' = set_reg st2 (end_create_ok (reg st2) n pv) -> GX st').
        { intros pv ->. destruct Hg2 as [Gi2 Gf2 Gw2]. constructor.
          - exact HI'.
          - intros m Hm. cbn [reg set_reg] in Hm.
            assert (Hm2 : cached (reg st2) m = false).
            { destruct (cached (reg st2) m) eqn:E; [|reflexivity].
              rewrite (mono_end_create_ok (reg st2) n pv m E) in Hm. discriminate. }
            apply (Gf2 m Hm2).
          - intros h' c' Hp Hc' Hns. cbn [reg set_reg] in Hp. unfold end_create_ok, add_singleton in Hp. cbn [L1] in Hp.
            destruct (Nat.eq_dec h' n) as [->|Hne].
            + assert (c' = c) by (unfold pop in Hc'; congruence). subst c'.
              exists pl. split; [exact Epl|]. intros k p y Hk Hy. specialize (Hw1 k p y Hk Hy).
              unfold wired_point in *.
              change (field_of (set_reg st2 (end_create_ok (reg st2) n pv)) n k) with (field_of st2 n k).
              assert (Hk100 : k < 100).
              { pose proof (Hsmall n c Ec) as Hle. assert (Hlt : k < length (c_points c)) by (apply nth_error_Some; rewrite Hk; discriminate). lia. }
              rewrite (Hfl2 k Hk100). exact Hw1.
            + rewrite (alookup_aset_neq n h' pv _ Hne) in Hp.
              destruct (Gw2 h' c' Hp Hc' Hns) as [pl' [Hpl' Hall]]. exists pl'. split; [exact Hpl'|].
              intros k p y Hk Hy. specialize (Hall k p y Hk Hy). unfold wired_point in *.
              change (field_of (set_reg st2 (end_create_ok (reg st2) n pv)) h' k) with (field_of st2 h' k). exact Hall. }
        unfold get_singleton_t, get_singleton in H. rewrite (FactoryBasics_get_lookup_false (reg st2) n) in H.
        destruct (match alookup n (L1 (reg st2)) with Some v0 => Some v0 | None => alookup n (L2 (reg st2)) end) as [e|].
        * destruct w as [wv|].
          -- destruct (stale_dependents vt st2 n _); [|cbn [snd] in H; discriminate]. cbn [snd] in H. inversion H; subst. eapply Hfin; reflexivity.
          -- cbn [snd] in H. inversion H; subst. eapply Hfin; reflexivity.
        * cbn [snd] in H. inversion H; subst. eapply Hfin; reflexivity.
  Qed.
End WiringX.

Theorem do_get_xt_GX vt s x :
  fix_c03 vt = true -> fix_c07 vt = true -> fix_c08 vt = true -> fix_c10 vt = true -> small_points s ->
  forall fuel st n st' v, GX vt s x st ->
    (full s st \/ ((forall c, get_comp (s_pop s) n = Some c -> c_points c = []) /\ initget_of x n = [])) ->
    erase (do_get_xt vt s x fuel) st n = Ok (st', v) -> GX vt s x st'.
Proof.
  intros H3 H7 H8 H10 Hs. induction fuel as [|f IH]; intros st n st' v Hg Hc H; [discriminate|].
  unfold erase in H. cbn [do_get_xt] in H.
  assert (HG' : forall st0 d st1 v1, GX vt s x st0 -> full s st0 ->
            erase (do_get_xt vt s x f) st0 d = Ok (st1, v1) -> GX vt s x st1)
    by (intros st0 d st1 v1 Hg0 Hf0 H0; eapply IH; [exact Hg0|left; exact Hf0|exact H0]).
  eapply (body_xt_GX vt H3 H7 H8 H10 s x Hs (do_get_xt vt s x f) (do_get_xt_spec vt s x H3 f)
            (do_get_xt_lifeX vt s x H3 Hs f) HG'); eauto.
Qed.

(* ---------- a whole start ------------------------------------------------------------------------------- *)

Lemma GX_core vt s x st st' : same_core st st' -> injs st' = injs st -> GX vt s x st -> GX vt s x st'.
Proof.
  intros [Hr [Hf Hd]] Hi Hg. eapply GX_same; [| | | | |exact Hg].
  - eapply Inv_same_core; [|exact (gx_inv vt s x st Hg)]. repeat split; assumption.
  - exact Hi.
  - exact Hf.
  - rewrite Hr. reflexivity.
  - intros m Hm. rewrite Hr in Hm. exact Hm.
Qed.

Lemma GX_finit vt s x : GX vt s x (set_scanned finit).
Proof.
  constructor.
  - eapply Inv_same_core; [|apply Inv_finit]. repeat split.
  - intros n _. split; reflexivity.
  - intros h c Hp. cbn in Hp. contradiction.
Qed.

Lemma do_get_xt_active vt s x fuel st n o st' v :
  fix_c03 vt = true -> small_points s -> InvX st ->
  do_get_xt vt s x fuel st n = (o, Ok (st', v)) -> active st' = active st.
Proof.
  intros H3 Hs HI H.
  assert (H' : erase (do_get_xt vt s x fuel) st n = Ok (st', v)) by (unfold erase; rewrite H; reflexivity).
  destruct (do_get_xt_lifeX vt s x H3 Hs fuel st n st' v H' HI) as [_ [_ [Ha _]]]. exact Ha.
Qed.

Lemma prepare_loop_xt_GX vt s x :
  fix_c03 vt = true -> fix_c07 vt = true -> fix_c08 vt = true -> fix_c10 vt = true -> small_points s ->
  forall ps st o st',
  (forall p, In p ps -> (forall c, get_comp (s_pop s) p = Some c -> c_points c = []) /\ initget_of x p = []) ->
  GX vt s x st -> prepare_loop_xt vt s x ps st = (o, Ok st') -> GX vt s x st' /\ active st' = active st ++ ps.
Proof.
  intros H3 H7 H8 H10 Hs. induction ps as [|p r IH]; intros st o st' Hp Hg H; cbn [prepare_loop_xt] in H.
  - inversion H; subst. split; [exact Hg|rewrite app_nil_r; reflexivity].
  - assert (Hr : forall q, In q r -> (forall c, get_comp (s_pop s) q = Some c -> c_points c = []) /\ initget_of x q = [])
      by (intros q Hq; apply Hp; right; exact Hq).
    destruct (is_lazy (s_pop s) p).
    + destruct (IH _ _ _ Hr (GX_core vt s x st (set_active st (active st ++ [p])) ltac:(repeat split) eq_refl Hg) H) as [Hg' Ha'].
      split; [exact Hg'|]. rewrite Ha'. cbn [active set_active]. rewrite <- app_assoc. reflexivity.
    + destruct (do_get_xt vt s x (fuel_of s) st p) as [o1 [[st1 v]|k st1]] eqn:E; [|discriminate].
      assert (E' : erase (do_get_xt vt s x (fuel_of s)) st p = Ok (st1, v)) by (unfold erase; rewrite E; reflexivity).
      assert (Hg1 : GX vt s x st1).
      { eapply (do_get_xt_GX vt s x H3 H7 H8 H10 Hs); [exact Hg| |exact E']. right. apply Hp. left; reflexivity. }
      pose proof (do_get_xt_active vt s x _ _ _ _ _ _ H3 Hs (gx_inv vt s x st Hg) E) as Ha1.
      destruct (prepare_loop_xt vt s x r (set_active st1 (active st1 ++ [p]))) as [o2 r2] eqn:E2.
      inversion H; subst o r2.
      destruct (IH _ _ _ Hr (GX_core vt s x st1 (set_active st1 (active st1 ++ [p])) ltac:(repeat split) eq_refl Hg1) E2) as [Hg' Ha'].
      split; [exact Hg'|]. rewrite Ha'. cbn [active set_active]. rewrite Ha1, <- app_assoc. reflexivity.
Qed.

Lemma get_each_xt_GX vt s x :
  fix_c03 vt = true -> fix_c07 vt = true -> fix_c08 vt = true -> fix_c10 vt = true -> small_points s ->
  forall ns st o st', GX vt s x st -> full s st -> get_each_xt vt s x ns st = (o, Ok st') -> GX vt s x st'.
Proof.
  intros H3 H7 H8 H10 Hs. induction ns as [|n r IH]; intros st o st' Hg Hf H; cbn [get_each_xt] in H; [inversion H; subst; exact Hg|].
  destruct (do_get_xt vt s x (fuel_of s) st n) as [o1 [[st1 v]|k st1]] eqn:E; [|discriminate].
  assert (E' : erase (do_get_xt vt s x (fuel_of s)) st n = Ok (st1, v)) by (unfold erase; rewrite E; reflexivity).
  destruct (get_each_xt vt s x r st1) as [o2 r2] eqn:E2. inversion H; subst o r2.
  eapply IH; [| |exact E2].
  - eapply (do_get_xt_GX vt s x H3 H7 H8 H10 Hs); [exact Hg|left; exact Hf|exact E'].
  - unfold full. rewrite (do_get_xt_active vt s x _ _ _ _ _ _ H3 Hs (gx_inv vt s x st Hg) E). exact Hf.
Qed.

Lemma run_each_GX vt s x ns : forall st st', GX vt s x st -> run_each s ns st = Ok st' -> GX vt s x st'.
Proof.
  induction ns as [|n r IH]; intros st st' Hg H; cbn [run_each] in H; [inversion H; subst; exact Hg|].
  destruct (runner_fails s n); [discriminate|]. eapply IH; [|exact H].
  eapply GX_core; [| |exact Hg]; [repeat split|reflexivity].
Qed.

Theorem run_core_xt_GX vt s x o st :
  fix_c03 vt = true -> fix_c07 vt = true -> fix_c08 vt = true -> fix_c10 vt = true -> small_points s ->
  procs_pointless_b s = true -> (forall p, In p (sorted_procs s) -> initget_of x p = []) -> stages_ok_b s = true ->
  run_core_xt vt s x = (o, Ok st) -> GX vt s x st.
Proof.
  intros H3 H7 H8 H10 Hsm Hp Hq Hs. apply procs_pointless_b_sound in Hp. apply stages_eqb_eq in Hs.
  unfold run_core_xt. destruct (s_loader_fail s); [discriminate|].
  assert (Hpq : forall p, In p (sorted_procs s) ->
            (forall c, get_comp (s_pop s) p = Some c -> c_points c = []) /\ initget_of x p = []).
  { intros p Hin. split; [intros c Hc; eapply Hp; eauto|apply Hq; exact Hin]. }
  destruct (prepare_loop_xt vt s x (sorted_procs s) (set_scanned finit)) as [o1 [st1|k st1]] eqn:E1; [|discriminate].
  destruct (prepare_loop_xt_GX vt s x H3 H7 H8 H10 Hsm _ _ _ _ Hpq (GX_finit vt s x) E1) as [Hg1 Ha1].
  cbn [active set_scanned finit app] in Ha1.
  destruct (get_each_xt vt s x (eager_names s) st1) as [o2 [st2|k st2]] eqn:E2; [|discriminate].
  assert (Hg2 : GX vt s x st2).
  { eapply (get_each_xt_GX vt s x H3 H7 H8 H10 Hsm); [exact Hg1| |exact E2]. unfold full. rewrite Ha1. exact Hs. }
  intros H. injection H as _ H. revert H.
  unfold call_runners. destruct (s_app s) as [[[a rp] cp]|]; [|intros H; inversion H; subst; exact Hg2].
  intros H. eapply run_each_GX; eauto.
Qed.

(* the statement per point: every point of a published component that is not listed as short-circuited holds what
   the complete pipeline plans for it *)
Theorem run_core_xt_wired vt s x o st :
  fix_c03 vt = true -> fix_c07 vt = true -> fix_c08 vt = true -> fix_c10 vt = true -> small_points s ->
  procs_pointless_b s = true -> (forall p, In p (sorted_procs s) -> initget_of x p = []) -> stages_ok_b s = true ->
  run_core_xt vt s x = (o, Ok st) ->
  forall h c k p, alookup h (L1 (reg st)) <> None -> get_comp (s_pop s) h = Some c -> never_short x h ->
    nth_error (c_points c) k = Some p ->
    exists y, further_one vt (s_pop s) h p (candidates (s_oracle s) (s_pop s) p) = Some y
              /\ wired_point (s_pop s) st h k p y.
Proof.
  intros H3 H7 H8 H10 Hsm Hp Hq Hs H h c k p Hpub Hc Hns Hk.
  pose proof (run_core_xt_GX vt s x o st H3 H7 H8 H10 Hsm Hp Hq Hs H) as Hg.
  destruct (gx_wired vt s x st Hg h c Hpub Hc Hns) as [pl [Hpl Hall]]. unfold plan in Hpl.
  assert (Hk2 : nth_error (map (fun p0 => candidates (s_oracle s) (s_pop s) p0) (c_points c)) k
                = Some (candidates (s_oracle s) (s_pop s) p)) by (rewrite nth_error_map, Hk; reflexivity).
  destruct (pointwise_nth vt (s_pop s) h _ _ _ k p _ Hpl Hk Hk2) as [y [Hy Hny]].
  exists y. split; [exact Hy|]. apply (Hall k p y Hk Hny).
Qed.

(* the form the property files use: the repaired tree, the enumeration order normalised away *)
From IocVerif Require Import Proofs.FactoryXNoPanic.
Theorem run_xt_wired s x o st :
  small_points s -> run_xt repaired s x = (o, Ok st) ->
  procs_pointless_b (normalise repaired s) = true -> procs_quiet_b (normalise repaired s) x = true ->
  stages_ok_b (normalise repaired s) = true ->
  forall h c k p, alookup h (L1 (reg st)) <> None -> get_comp (s_pop s) h = Some c -> never_short x h ->
    nth_error (c_points c) k = Some p ->
    exists y, further_one repaired (s_pop s) h p (candidates (names_of (s_pop s)) (s_pop s) p) = Some y
              /\ wired_point (s_pop s) st h k p y.
Proof.
  intros Hsm H Hpp Hq Hso h c k p Hpub Hc Hns Hk.
  assert (Hsm' : small_points (normalise repaired s)) by exact Hsm.
  destruct (run_core_xt_wired repaired (normalise repaired s) x o st eq_refl eq_refl eq_refl eq_refl Hsm' Hpp
              (procs_quiet_b_sound _ _ Hq) Hso H h c k p Hpub Hc Hns Hk) as [y [Hy Hw]].
  cbn [normalise s_pop s_oracle enum_order fix_c10 repaired] in Hy, Hw.
  exists y. split; assumption.
Qed.
