(* Model/FactoryX.v without extras IS Model/FactoryTrace.v (and so, by erasure, Model/Factory.v):
   the theorems about Model/Factory.v hold of the extended model for every scenario without extras. *)
From Coq Require Import List Arith Bool.
From IocVerif Require Import Model.Registry Model.Resolve Model.Factory Model.App Model.FactoryTrace Model.FactoryX
  Proofs.FactoryTraceProofs.
Import ListNotations.

Section Conservative.
  Variable vt : variant.
  Variable s : scenario.
  Variable recx rect : fstate -> name -> tres (fstate * ver).
  Hypothesis Hrec : forall st d, recx st d = rect st d.

  Lemma get_all_t_ext : forall c st, get_all_t recx st c = get_all_t rect st c.
  Proof.
    induction c as [|[d|] r IH]; intros st; cbn [get_all_t]; try reflexivity.
    rewrite Hrec. destruct (rect st d) as [o1 [[st1 v]|k st1]]; [|reflexivity]. rewrite IH. reflexivity.
  Qed.

  Lemma inject_points_t_ext h : forall ps k inj st,
    inject_points_t vt s recx h k ps inj st = inject_points_t vt s rect h k ps inj st.
  Proof.
    induction ps as [|p ps' IH]; intros k inj st; cbn [inject_points_t]; [reflexivity|].
    destruct inj as [|i inj']; [reflexivity|]. destruct i as [|c0 c1]; [apply IH|].
    rewrite get_all_t_ext. destruct (get_all_t rect st (c0 :: c1)) as [o1 [[st1 vs]|k1 st1]]; [|reflexivity].
    destruct (inject vt s st1 h k p vs) as [st2|k2 st2]; [|reflexivity]. rewrite IH. reflexivity.
  Qed.

  Lemma populate_t_ext st n c : populate_t vt s recx st n c = populate_t vt s rect st n c.
  Proof.
    unfold populate_t. destruct (pipeline vt s n c (active st) st (cur_injs st n c)) as [[st1 inj]|k st1];
      [apply inject_points_t_ext|reflexivity].
  Qed.

  Lemma shorted_none st n : shorted no_extras st n = false.
  Proof. unfold shorted. induction (active st) as [|p r IH]; [reflexivity|exact IH]. Qed.

  Lemma init_methods_xt_none n c st :
    init_methods_xt no_extras recx n c st = ([], init_methods n c st).
  Proof.
    unfold init_methods_xt. destruct (init_methods n c st) as [st2|k st2]; [|reflexivity].
    destruct (c_init c); reflexivity.
  Qed.

  Lemma initialize_xt_none st n c :
    initialize_xt s no_extras recx st n c = ([], initialize s st n c).
  Proof.
    unfold initialize_xt, initialize. destruct (before_chain s n c (active st) st) as [st1|k st1]; [|reflexivity].
    rewrite init_methods_xt_none. destruct (init_methods n c st1) as [st2|k st2]; reflexivity.
  Qed.

  Lemma do_create_xt_none st n c :
    do_create_xt vt s no_extras recx st n c = do_create_t vt s rect st n c.
  Proof.
    unfold do_create_xt, do_create_t. cbv zeta. rewrite populate_t_ext.
    destruct (populate_t vt s rect (set_reg st (add_factory (reg st) n n)) n c) as [o1 [st1|k st1]]; [|reflexivity].
    rewrite initialize_xt_none. destruct (initialize s st1 n c) as [[st2 w]|k st2].
    - cbn [app]. reflexivity.
    - rewrite app_nil_r. reflexivity.
  Qed.

  Lemma create_xt_none st n : create_xt vt s no_extras recx st n = create_t vt s rect st n.
  Proof.
    unfold create_xt, create_t. destruct (scanned st); [|reflexivity].
    destruct (get_comp (s_pop s) n); [|reflexivity]. rewrite shorted_none. apply do_create_xt_none.
  Qed.

  Lemma body_xt_none st n : body_xt vt s no_extras recx st n = body_t vt s rect st n.
  Proof.
    unfold body_xt, body_t, body_with. destruct (get_singleton_t s st n true) as [o0 [[st1 [v|]]|k st1]]; try reflexivity.
    destruct (begin_create (reg st1) n) as [r1 [v|]]; [reflexivity|]. rewrite create_xt_none. reflexivity.
  Qed.
End Conservative.

Lemma do_get_xt_none vt s : forall fuel st n, do_get_xt vt s no_extras fuel st n = do_get_t vt s fuel st n.
Proof.
  induction fuel as [|f IH]; intros st n; [reflexivity|]. cbn [do_get_xt do_get_t].
  apply body_xt_none. exact IH.
Qed.

Lemma prepare_loop_xt_none vt s : forall ps st, prepare_loop_xt vt s no_extras ps st = prepare_loop_t vt s ps st.
Proof.
  induction ps as [|p r IH]; intros st; cbn [prepare_loop_xt prepare_loop_t]; [reflexivity|].
  destruct (is_lazy (s_pop s) p); [apply IH|]. rewrite do_get_xt_none.
  destruct (do_get_t vt s (fuel_of s) st p) as [o1 [[st1 v]|k st1]]; [|reflexivity]. rewrite IH. reflexivity.
Qed.

Lemma get_each_xt_none vt s : forall ns st, get_each_xt vt s no_extras ns st = get_each_t vt s ns st.
Proof.
  induction ns as [|n r IH]; intros st; cbn [get_each_xt get_each_t]; [reflexivity|].
  rewrite do_get_xt_none. destruct (do_get_t vt s (fuel_of s) st n) as [o1 [[st1 v]|k st1]]; [|reflexivity].
  rewrite IH. reflexivity.
Qed.

Theorem run_xt_none vt s : run_xt vt s no_extras = run_t vt s.
Proof.
  unfold run_xt, run_t, run_core_xt, run_core_t. destruct (s_loader_fail (normalise vt s)); [reflexivity|].
  rewrite prepare_loop_xt_none.
  destruct (prepare_loop_t vt (normalise vt s) (sorted_procs (normalise vt s)) (set_scanned finit)) as [o1 [st1|k st1]];
    [|reflexivity].
  rewrite get_each_xt_none. reflexivity.
Qed.

Theorem lookups_xt_none vt s : forall ns st, lookups_core_xt vt s no_extras ns st = lookups_core_t vt s ns st.
Proof.
  induction ns as [|n r IH]; intros st; cbn [lookups_core_xt lookups_core_t]; [reflexivity|].
  rewrite do_get_xt_none. destruct (do_get_t vt s (fuel_of s) st n) as [o1 [[st1 v]|k st1]]; rewrite IH; reflexivity.
Qed.

(* so: result and history of the extended model = those of Model/Factory.v and Model/FactoryTrace.v *)
Corollary run_xt_conservative vt s :
  snd (run_xt vt s no_extras) = run vt s /\ fst (run_xt vt s no_extras) = fst (run_t vt s).
Proof. rewrite run_xt_none. split; [apply run_erase|reflexivity]. Qed.

(* ---- the registry history of the EXTENDED semantics is in the strict protocol language as well ---------------
   (short-circuited creations and lookups issued from inside Init included): same argument as
   Proofs/FactoryTraceProofs.v, whose lemmas are parametric in the recursive call and in the creation function. *)
From IocVerif Require Import Model.RegistryProto Proofs.RegistryProofs Proofs.FactoryBasics Proofs.FactoryLog.

Section ProtoX.
  Variable vt : variant.
  Variable s : scenario.
  Variable x : extras.
  Variable rect : fstate -> name -> tres (fstate * ver).
  Hypothesis Hgood : forall st d stk, Cov stk (reg st) -> FactoryTraceProofs.good vt pj2 stk (reg st) (rect st d).

  (* a computation that issues no call and leaves the registry alone *)
  Lemma good_nil_any {A : Type} (pj : A -> fstate) stk r0 (r : res A) : rreg pj r = r0 -> FactoryTraceProofs.good vt pj stk r0 ([], r).
  Proof.
    intros H. destruct r as [a|k st]; [apply good_nil_ok; exact H|apply good_nil_fail; exact H].
  Qed.

  (* ... appended to a successful one *)
  Lemma good_ok_then_any {A B : Type} (pjA : A -> fstate) (pjB : B -> fstate) stk r0 o a (r : res B) :
    rreg pjB r = reg (pjA a) -> FactoryTraceProofs.good vt pjA stk r0 (o, Ok a) -> FactoryTraceProofs.good vt pjB stk r0 (o, r).
  Proof.
    intros He H. destruct r as [b|k st]; cbn [rreg] in He.
    - apply (good_ok_retag vt pjA pjB stk r0 o a b He H).
    - apply (good_ok_then_fail vt pjA pjB stk r0 o a k st He H).
  Qed.

  Lemma init_gets_good n : forall ds j st stk,
    Cov stk (reg st) -> FactoryTraceProofs.good vt pj1 stk (reg st) (init_gets_t rect n j ds st).
  Proof.
    induction ds as [|d r IH]; intros j st stk HS; cbn [init_gets_t]; [apply good_nil_ok; reflexivity|].
    pose proof (Hgood st d stk HS) as H1.
    destruct (rect st d) as [o1 [[st1 v]|k st1]]; [|exact H1].
    assert (HS1 : Cov stk (reg (write_plain st1 n (100 + j) [v]))).
    { destruct H1 as [_ [Hm _]]. exact (Cov_mono stk _ _ Hm HS). }
    pose proof (IH (S j) (write_plain st1 n (100 + j) [v]) stk HS1) as H2.
    destruct (init_gets_t rect n (S j) r (write_plain st1 n (100 + j) [v])) as [o2 r2].
    apply (good_seq vt pj2 pj1 stk (reg st) o1 (st1, v) o2 r2 H1 H2).
  Qed.

  Lemma before_chain_rreg n c st : rreg pj1 (before_chain s n c (active st) st) = reg st.
  Proof.
    pose proof (before_chain_eff s n c (active st) st st (only_log_refl _ st)) as He.
    destruct (before_chain s n c (active st) st) as [st1|k st1]; cbn [eff1] in He; destruct He as [Hr _ _ _ _ _ _]; exact Hr.
  Qed.

  Lemma after_chain_rreg n st cur : rreg pj2 (after_chain s n (active st) st cur) = reg st.
  Proof.
    pose proof (after_chain_eff s n (active st) st st cur (only_log_refl _ st)) as He.
    destruct (after_chain s n (active st) st cur) as [[st1 w]|k st1]; cbn [eff2] in He; destruct He as [Hr _ _ _ _ _ _]; exact Hr.
  Qed.

  Lemma init_methods_rreg n c st : get_comp (s_pop s) n = Some c -> rreg pj1 (init_methods n c st) = reg st.
  Proof.
    intros Hc. pose proof (init_methods_eff s n c st st Hc (only_log_refl _ st)) as He.
    destruct (init_methods n c st) as [st1|k st1]; cbn [eff1] in He; destruct He as [Hr _ _ _ _ _ _]; exact Hr.
  Qed.

  Lemma initialize_xt_good st n c stk :
    get_comp (s_pop s) n = Some c -> Cov stk (reg st) ->
    FactoryTraceProofs.good vt pj2 stk (reg st) (initialize_xt s x rect st n c).
  Proof.
    intros Hc HS. unfold initialize_xt. pose proof (before_chain_rreg n c st) as Hb.
    destruct (before_chain s n c (active st) st) as [st1|k st1]; unfold rreg, pj1 in Hb; [|apply good_nil_fail; exact Hb].
    assert (H1 : FactoryTraceProofs.good vt pj1 stk (reg st) (init_methods_xt x rect n c st1)).
    { unfold init_methods_xt. pose proof (init_methods_rreg n c st1 Hc) as Hi.
      destruct (init_methods n c st1) as [st2|k st2]; unfold rreg, pj1 in Hi; [|apply good_nil_fail; congruence].
      destruct (c_init c); [|apply good_nil_ok; unfold pj1; congruence].
      rewrite <- Hb, <- Hi. apply init_gets_good. rewrite Hi, Hb. exact HS. }
    destruct (init_methods_xt x rect n c st1) as [o [st2|k st2]]; [|exact H1].
    apply (good_ok_then_any pj1 pj2 stk (reg st) o st2 _ (after_chain_rreg n st2 None) H1).
  Qed.

  Lemma do_create_xt_good st n c stk :
    get_comp (s_pop s) n = Some c -> Cov stk (reg st) ->
    FactoryTraceProofs.good vt pj2 (n :: stk) (reg st) (do_create_xt vt s x rect st n c).
  Proof.
    intros Hc HS. unfold do_create_xt. cbv zeta.
    set (st0 := set_reg st (add_factory (reg st) n n)).
    assert (HS0 : Cov (n :: stk) (reg st0)).
    { intros m [<-|Hm]; [apply cached_add_factory|apply mono_add_factory, HS, Hm]. }
    pose proof (populate_good vt s rect Hgood st0 n c (n :: stk) HS0) as H1.
    destruct (populate_t vt s rect st0 n c) as [o1 [st1|k1 st1]].
    2:{ apply good_cons_addfactory. exact H1. }
    assert (HS1 : Cov (n :: stk) (reg st1)) by (destruct H1 as [_ [Hm _]]; exact (Cov_mono _ _ _ Hm HS0)).
    pose proof (initialize_xt_good st1 n c (n :: stk) Hc HS1) as Hi.
    destruct (initialize_xt s x rect st1 n c) as [oi [[st2 w]|k2 st2]].
    2:{ apply good_cons_addfactory. apply (good_seq vt pj1 pj2 (n :: stk) _ o1 st1 oi _ H1 Hi). }
    pose proof (good_seq vt pj1 pj2 (n :: stk) _ o1 st1 oi _ H1 Hi) as H12.
    pose proof (get_singleton_good vt s (n :: stk) st2 n false) as H2.
    unfold get_singleton_t in H2 |- *. cbn [fst snd] in H2.
    match goal with |- context [OGet n false ?f] => set (fo := f) in * end.
    change (OAddFactory n n :: o1 ++ oi ++ [OGet n false fo]) with (OAddFactory n n :: (o1 ++ (oi ++ [OGet n false fo]))).
    apply good_cons_addfactory. rewrite app_assoc.
    pose proof (good_seq vt pj2 pj2 (n :: stk) (reg st0) (o1 ++ oi) (st2, w) [OGet n false fo] _ H12 H2) as H3.
    destruct (get_singleton s st2 n false) as [[st3 [e|]]|k3 st3] eqn:EG.
    - pose proof (get_singleton_false_state _ _ _ _ _ EG) as ->.
      destruct w as [wv|].
      + destruct (stale_dependents vt st2 n _).
        * apply (good_ok_retag vt pj2 pj2 _ _ _ (st2, Some e) (st2, wv) eq_refl H3).
        * apply (good_ok_then_fail vt pj2 pj2 _ _ _ (st2, Some e) (FErr EStale) st2 eq_refl H3).
      + apply (good_ok_retag vt pj2 pj2 _ _ _ (st2, Some e) (st2, e) eq_refl H3).
    - pose proof (get_singleton_false_state _ _ _ _ _ EG) as ->.
      apply (good_ok_retag vt pj2 pj2 _ _ _ (st2, None) (st2, match w with Some v => v | None => VOrig n end) eq_refl H3).
    - exact H3.
  Qed.

  Lemma create_xt_good st n stk :
    Cov stk (reg st) -> FactoryTraceProofs.good vt pj2 (n :: stk) (reg st) (create_xt vt s x rect st n).
  Proof.
    intros HS. unfold create_xt. destruct (scanned st); [|apply good_nil_fail; reflexivity].
    destruct (get_comp (s_pop s) n) as [c|] eqn:Ec; [|apply good_nil_fail; reflexivity].
    destruct (shorted x st n); [|apply do_create_xt_good; assumption].
    apply good_nil_any. pose proof (after_chain_rreg n st None) as Ha.
    destruct (after_chain s n (active st) st None) as [[st2 w]|k st2]; exact Ha.
  Qed.
End ProtoX.

Theorem do_get_xt_good vt s x : forall fuel st n stk,
  Cov stk (reg st) -> FactoryTraceProofs.good vt pj2 stk (reg st) (do_get_xt vt s x fuel st n).
Proof.
  induction fuel as [|f IH]; intros st n stk HS; cbn [do_get_xt].
  - apply good_nil_fail. reflexivity.
  - unfold body_xt. apply body_with_good; [|exact HS].
    intros st0 n0 stk0 H0. apply create_xt_good; [intros st1 d stk1 H1; apply IH; exact H1|exact H0].
Qed.

Lemma prepare_loop_xt_good vt s x : forall ps st, FactoryTraceProofs.good vt pj1 [] (reg st) (prepare_loop_xt vt s x ps st).
Proof.
  induction ps as [|p r IH]; intros st; cbn [prepare_loop_xt]; [apply good_nil_ok; reflexivity|].
  destruct (is_lazy (s_pop s) p); [apply (IH (set_active st (active st ++ [p])))|].
  pose proof (do_get_xt_good vt s x (fuel_of s) st p [] (Cov_nil _)) as H1.
  destruct (do_get_xt vt s x (fuel_of s) st p) as [o1 [[st1 v]|k st1]]; [|exact H1].
  pose proof (IH (set_active st1 (active st1 ++ [p]))) as H2.
  destruct (prepare_loop_xt vt s x r (set_active st1 (active st1 ++ [p]))) as [o2 r2].
  apply (good_seq vt pj2 pj1 [] (reg st) o1 (st1, v) o2 r2 H1 H2).
Qed.

Lemma get_each_xt_good vt s x : forall ns st, FactoryTraceProofs.good vt pj1 [] (reg st) (get_each_xt vt s x ns st).
Proof.
  induction ns as [|n r IH]; intros st; cbn [get_each_xt]; [apply good_nil_ok; reflexivity|].
  pose proof (do_get_xt_good vt s x (fuel_of s) st n [] (Cov_nil _)) as H1.
  destruct (do_get_xt vt s x (fuel_of s) st n) as [o1 [[st1 v]|k st1]]; [|exact H1].
  pose proof (IH st1) as H2. destruct (get_each_xt vt s x r st1) as [o2 r2].
  apply (good_seq vt pj2 pj1 [] (reg st) o1 (st1, v) o2 r2 H1 H2).
Qed.

Theorem run_core_xt_good vt s x : FactoryTraceProofs.good vt pj1 [] rinit (run_core_xt vt s x).
Proof.
  unfold run_core_xt. destruct (s_loader_fail s); [apply good_nil_fail; reflexivity|].
  pose proof (prepare_loop_xt_good vt s x (sorted_procs s) (set_scanned finit)) as H1.
  change (reg (set_scanned finit)) with rinit in H1.
  destruct (prepare_loop_xt vt s x (sorted_procs s) (set_scanned finit)) as [o1 [st1|k st1]]; [|exact H1].
  pose proof (get_each_xt_good vt s x (eager_names s) st1) as H2.
  destruct (get_each_xt vt s x (eager_names s) st1) as [o2 [st2|k st2]].
  - pose proof (good_seq vt pj1 pj1 [] rinit o1 st1 o2 _ H1 H2) as H3.
    apply (good_ok_then_any vt pj1 pj1 [] rinit (o1 ++ o2) st2 _ (call_runners_rreg s st2) H3).
  - apply (good_seq vt pj1 pj1 [] rinit o1 st1 o2 _ H1 H2).
Qed.

(* every start of the extended semantics: strict protocol language, and the history replays to the final registry *)
Theorem run_xt_conforms_strict vt s x : conforms_strict_v vt (fst (run_xt vt s x)) = true.
Proof.
  unfold conforms_strict_v, protocol_strict, trace, run_xt. rewrite strict_run_from.
  pose proof (run_core_xt_good vt (normalise vt s) x) as [_ H].
  destruct (snd (run_core_xt vt (normalise vt s) x)) as [a|[e| |] st]; [destruct H as [_ ->]|destruct H as [fl ->]
    |destruct H as [stk' [fl ->]]|destruct H as [stk' [fl ->]]]; reflexivity.
Qed.

Theorem run_xt_replay vt s x : state_after vt (fst (run_xt vt s x)) = rreg pj1 (snd (run_xt vt s x)).
Proof. unfold state_after, run_xt. exact (proj1 (run_core_xt_good vt (normalise vt s) x)). Qed.

(* ---- the extended semantics never runs out of fuel --------------------------------------------------------------
   Re-entrant lookups do not break the termination argument of Proofs/FactoryTermination.v: a nested call either
   finds a cache entry, or short-circuits without recursion, or creates a defined name that had no cache entry
   (which it caches before recursing). *)
From Coq Require Import Lia.
From IocVerif Require Import Proofs.FactoryTermination.

Section TermX.
  Variable vt : variant.
  Variable s : scenario.
  Variable x : extras.
  Let pop := s_pop s.
  Variable f : nat.
  Variable rect : fstate -> name -> tres (fstate * ver).
  Hypothesis Hgood : forall st d stk, Cov stk (reg st) -> FactoryTraceProofs.good vt pj2 stk (reg st) (rect st d).
  Hypothesis Hnf : forall st d, ucount pop (reg st) < f -> nofuel (snd (rect st d)).

  Lemma good_mono {A : Type} (pj : A -> fstate) r0 o a : FactoryTraceProofs.good vt pj [] r0 (o, Ok a) -> mono r0 (reg (pj a)).
  Proof. intros [_ [Hm _]]. exact Hm. Qed.

  Lemma get_all_nf : forall c st, ucount pop (reg st) < f -> nofuel (snd (get_all_t rect st c)).
  Proof.
    induction c as [|[d|] r IH]; intros st Hu; cbn [get_all_t]; try exact I.
    pose proof (Hnf st d Hu) as H1. pose proof (Hgood st d [] (Cov_nil _)) as Hg.
    destruct (rect st d) as [o1 [[st1 v]|k st1]]; [|exact H1].
    pose proof (good_mono pj2 _ _ _ Hg) as Hm. cbn [pj2 fst] in Hm.
    assert (Hu1 : ucount pop (reg st1) < f) by (pose proof (ucount_mono pop _ _ Hm); lia).
    specialize (IH st1 Hu1). destruct (get_all_t rect st1 r) as [o2 [[st2 vs]|k st2]]; [exact I|exact IH].
  Qed.

  Lemma inject_points_nf h : forall ps k inj st, ucount pop (reg st) < f ->
    nofuel (snd (inject_points_t vt s rect h k ps inj st)).
  Proof.
    induction ps as [|p ps' IH]; intros k inj st Hu; cbn [inject_points_t]; [exact I|].
    destruct inj as [|i inj']; [exact I|]. destruct i as [|c0 c1]; [apply IH; exact Hu|].
    pose proof (get_all_nf (c0 :: c1) st Hu) as H1.
    pose proof (get_all_good vt rect Hgood (c0 :: c1) st [] (Cov_nil _)) as Hg.
    destruct (get_all_t rect st (c0 :: c1)) as [o1 [[st1 vs]|k1 st1]]; [|exact H1].
    pose proof (good_mono pj2 _ _ _ Hg) as Hm. cbn [pj2 fst] in Hm.
    pose proof (inject_nofuel vt s st1 h k p vs) as Hin. pose proof (FactoryTraceProofs.inject_reg vt s st1 h k p vs) as Hir.
    destruct (inject vt s st1 h k p vs) as [st2|k2 st2]; [|exact Hin]. unfold rreg, pj1 in Hir.
    assert (Hu2 : ucount pop (reg st2) < f) by (rewrite Hir; pose proof (ucount_mono pop _ _ Hm); lia).
    specialize (IH (S k) inj' st2 Hu2). destruct (inject_points_t vt s rect h (S k) ps' inj' st2). exact IH.
  Qed.

  Lemma populate_nf st n c : ucount pop (reg st) < f -> nofuel (snd (populate_t vt s rect st n c)).
  Proof.
    intros Hu. unfold populate_t. pose proof (pipeline_quiet vt s n c (active st) st (cur_injs st n c)) as Hq.
    destruct (pipeline vt s n c (active st) st (cur_injs st n c)) as [[st1 inj]|k st1].
    - cbn [quiet2] in Hq. apply inject_points_nf. cbn [reg set_injs]. rewrite Hq. exact Hu.
    - destruct k as [e| |]; [exact I|exact I|exact Hq].
  Qed.

  Lemma init_gets_nf n : forall ds j st, ucount pop (reg st) < f -> nofuel (snd (init_gets_t rect n j ds st)).
  Proof.
    induction ds as [|d r IH]; intros j st Hu; cbn [init_gets_t]; [exact I|].
    pose proof (Hnf st d Hu) as H1. pose proof (Hgood st d [] (Cov_nil _)) as Hg.
    destruct (rect st d) as [o1 [[st1 v]|k st1]]; [|exact H1].
    pose proof (good_mono pj2 _ _ _ Hg) as Hm. cbn [pj2 fst] in Hm.
    assert (Hu1 : ucount pop (reg (write_plain st1 n (100 + j) [v])) < f)
      by (change (reg (write_plain st1 n (100 + j) [v])) with (reg st1); pose proof (ucount_mono pop _ _ Hm); lia).
    specialize (IH (S j) _ Hu1). destruct (init_gets_t rect n (S j) r (write_plain st1 n (100 + j) [v])). exact IH.
  Qed.

  Lemma initialize_xt_nf st n c : ucount pop (reg st) < f -> nofuel (snd (initialize_xt s x rect st n c)).
  Proof.
    intros Hu. unfold initialize_xt.
    pose proof (before_chain_quiet s n c (active st) st st eq_refl) as Hb.
    destruct (before_chain s n c (active st) st) as [st1|[e| |] st1]; try exact I; try exact Hb. cbn [quiet1] in Hb.
    unfold init_methods_xt. pose proof (init_methods_quiet n c st1 st1 eq_refl) as Hi.
    destruct (init_methods n c st1) as [st2|[e| |] st2]; try exact I; try exact Hi. cbn [quiet1] in Hi.
    assert (Hu2 : ucount pop (reg st2) < f) by (rewrite Hi, Hb; exact Hu).
    assert (Hq : forall st3, reg st3 = reg st2 -> nofuel (after_chain s n (active st3) st3 None)).
    { intros st3 _. pose proof (after_chain_quiet s n (active st3) st3 st3 None eq_refl) as Ha.
      destruct (after_chain s n (active st3) st3 None) as [[st4 w]|[e| |] st4]; try exact I. exact Ha. }
    destruct (c_init c).
    - pose proof (init_gets_nf n (initget_of x n) 0 st2 Hu2) as Hg.
      destruct (init_gets_t rect n 0 (initget_of x n) st2) as [o [st3|k st3]]; [|exact Hg].
      cbn [snd]. pose proof (after_chain_quiet s n (active st3) st3 st3 None eq_refl) as Ha.
      destruct (after_chain s n (active st3) st3 None) as [[st4 w]|[e| |] st4]; try exact I. exact Ha.
    - cbn [snd]. apply (Hq st2 eq_refl).
  Qed.

  Lemma do_create_xt_nf st n c :
    ucount pop (reg (set_reg st (add_factory (reg st) n n))) < f -> nofuel (snd (do_create_xt vt s x rect st n c)).
  Proof.
    intros Hu. unfold do_create_xt. cbv zeta. set (st0 := set_reg st (add_factory (reg st) n n)) in *.
    pose proof (populate_nf st0 n c Hu) as H1.
    pose proof (populate_good vt s rect Hgood st0 n c [] (Cov_nil _)) as Hg.
    destruct (populate_t vt s rect st0 n c) as [o1 [st1|k1 st1]]; [|exact H1].
    pose proof (good_mono pj1 _ _ _ Hg) as Hm. unfold pj1 in Hm.
    assert (Hu1 : ucount pop (reg st1) < f) by (pose proof (ucount_mono pop _ _ Hm); lia).
    pose proof (initialize_xt_nf st1 n c Hu1) as H2.
    destruct (initialize_xt s x rect st1 n c) as [oi [[st2 w]|k2 st2]]; [|exact H2].
    unfold get_singleton_t. cbn [snd].
    pose proof (get_singleton_spec s st2 n false) as Hgs.
    destruct (get_singleton s st2 n false) as [[st3 [e|]]|[e| |] st3]; try exact I.
    - destruct w; [destruct (stale_dependents vt st2 n _)|]; exact I.
    - exact Hgs.
  Qed.

  Lemma create_xt_nf st n :
    cached (reg st) n = false -> ucount pop (reg st) < S f -> nofuel (snd (create_xt vt s x rect st n)).
  Proof.
    intros Hunc Hu. unfold create_xt. destruct (scanned st); [|exact I].
    destruct (get_comp (s_pop s) n) as [c|] eqn:Ec; [|exact I].
    destruct (shorted x st n).
    - cbn [snd]. pose proof (after_chain_quiet s n (active st) st st None eq_refl) as Ha.
      destruct (after_chain s n (active st) st None) as [[st4 w]|[e| |] st4]; try exact I. exact Ha.
    - apply do_create_xt_nf. cbn [reg set_reg].
      assert (Hs : ucount pop (add_factory (reg st) n n) < ucount pop (reg st)).
      { apply (ucount_strict pop (reg st) (add_factory (reg st) n n) n).
        - apply mono_add_factory.
        - eapply get_comp_lt; exact Ec.
        - exact Hunc.
        - apply cached_add_factory. }
      unfold pop in *. lia.
  Qed.
End TermX.

Lemma body_with_nf vt s crt st n (pop := s_pop s) f :
  (forall st0 n0, cached (reg st0) n0 = false -> ucount pop (reg st0) < S f -> nofuel (snd (crt st0 n0))) ->
  ucount pop (reg st) < S f -> nofuel (snd (body_with vt s crt st n)).
Proof.
  intros Hcrt Hu. unfold body_with, get_singleton_t.
  pose proof (get_singleton_spec s st n true) as Hg.
  destruct (get_singleton s st n true) as [[st1 [v|]]|[e| |] st1]; try exact I; [|exact Hg].
  destruct Hg as [_ [_ [Hr1 Hmiss]]]. pose proof (get_lookup_miss_uncached _ _ Hmiss) as Hunc.
  unfold begin_create. destruct (alookup n (L1 (reg st1))) as [v|]; [exact I|].
  set (r1 := mkR (L1 (reg st1)) (L2 (reg st1)) (L3 (reg st1)) (set_add n (creating (reg st1)))).
  assert (H1 : nofuel (snd (crt (set_reg st1 r1) n))).
  { apply Hcrt; cbn [reg set_reg].
    - change (cached r1 n) with (cached (reg st1) n). rewrite Hr1. exact Hunc.
    - change (ucount pop r1) with (ucount pop (reg st1)). rewrite Hr1. exact Hu. }
  destruct (crt (set_reg st1 r1) n) as [o1 [[st2 v]|[e| |] st2]]; try exact I. exact H1.
Qed.

Theorem do_get_xt_terminates vt s x : forall fuel st n,
  ucount (s_pop s) (reg st) < fuel -> nofuel (snd (do_get_xt vt s x fuel st n)).
Proof.
  induction fuel as [|f IH]; intros st n Hu; [lia|]. cbn [do_get_xt]. unfold body_xt.
  apply (body_with_nf vt s _ st n f); [|exact Hu].
  intros st0 n0 Hunc Hu0.
  apply (create_xt_nf vt s x f (do_get_xt vt s x f)
           (fun st1 d stk H1 => do_get_xt_good vt s x f st1 d stk H1) (fun st1 d H1 => IH st1 d H1) st0 n0 Hunc Hu0).
Qed.

Lemma do_get_xt_fuel_of vt s x st n : nofuel (snd (do_get_xt vt s x (fuel_of s) st n)).
Proof.
  apply do_get_xt_terminates. unfold fuel_of. pose proof (ucount_le_pop (s_pop s) (reg st)). lia.
Qed.

Lemma prepare_loop_xt_nf vt s x : forall ps st, nofuel (snd (prepare_loop_xt vt s x ps st)).
Proof.
  induction ps as [|p r IH]; intros st; cbn [prepare_loop_xt]; [exact I|].
  destruct (is_lazy (s_pop s) p); [apply IH|].
  pose proof (do_get_xt_fuel_of vt s x st p) as H.
  destruct (do_get_xt vt s x (fuel_of s) st p) as [o1 [[st1 v]|k st1]]; [|exact H].
  specialize (IH (set_active st1 (active st1 ++ [p]))).
  destruct (prepare_loop_xt vt s x r (set_active st1 (active st1 ++ [p]))). exact IH.
Qed.

Lemma get_each_xt_nf vt s x : forall ns st, nofuel (snd (get_each_xt vt s x ns st)).
Proof.
  induction ns as [|n r IH]; intros st; cbn [get_each_xt]; [exact I|].
  pose proof (do_get_xt_fuel_of vt s x st n) as H.
  destruct (do_get_xt vt s x (fuel_of s) st n) as [o1 [[st1 v]|k st1]]; [|exact H].
  specialize (IH st1). destruct (get_each_xt vt s x r st1). exact IH.
Qed.

(* a start of the extended semantics always terminates within the model's fuel, whatever the callbacks look up *)
Theorem run_xt_terminates vt s x : nofuel (snd (run_xt vt s x)).
Proof.
  unfold run_xt, run_core_xt. destruct (s_loader_fail (normalise vt s)); [exact I|].
  pose proof (prepare_loop_xt_nf vt (normalise vt s) x (sorted_procs (normalise vt s)) (set_scanned finit)) as H1.
  destruct (prepare_loop_xt vt (normalise vt s) x (sorted_procs (normalise vt s)) (set_scanned finit)) as [o1 [st1|k st1]];
    [|exact H1].
  pose proof (get_each_xt_nf vt (normalise vt s) x (eager_names (normalise vt s)) st1) as H2.
  destruct (get_each_xt vt (normalise vt s) x (eager_names (normalise vt s)) st1) as [o2 [st2|k st2]]; [|exact H2].
  cbn [snd]. unfold call_runners. destruct (s_app (normalise vt s)) as [[[a rp] cp]|]; [apply run_each_nofuel|exact I].
Qed.
