(* Model/FactoryX.v without extras IS Model/FactoryTrace.v (and so, by erasure, Model/Factory.v):
   the theorems about Model/Factory.v hold of the extended model for every scenario without extras. *)
From Coq Require Import List Arith Bool.
From IocVerif Require Import Model.Registry Model.Resolve Model.Factory Model.App Model.FactoryTrace Model.FactoryX
  Proofs.FactoryTraceProofs.
Import ListNotations.

Section Conservative.
  Variable vt : variant.
  Variable s : scenario.
  Variable recx rect : fstate -> name -> tres (fstate * ver).
  Hypothesis Hrec : forall st d, recx st d = rect st d.

  Lemma get_all_t_ext : forall c st, get_all_t recx st c = get_all_t rect st c.
  Proof.
    induction c as [|[d|] r IH]; intros st; cbn [get_all_t]; try reflexivity.
    rewrite Hrec. destruct (rect st d) as [o1 [[st1 v]|k st1]]; [|reflexivity]. rewrite IH. reflexivity.
  Qed.

  Lemma inject_points_t_ext h : forall ps k inj st,
    inject_points_t vt s recx h k ps inj st = inject_points_t vt s rect h k ps inj st.
  Proof.
    induction ps as [|p ps' IH]; intros k inj st; cbn [inject_points_t]; [reflexivity|].
    destruct inj as [|i inj']; [reflexivity|]. destruct i as [|c0 c1]; [apply IH|].
    rewrite get_all_t_ext. destruct (get_all_t rect st (c0 :: c1)) as [o1 [[st1 vs]|k1 st1]]; [|reflexivity].
    destruct (inject vt s st1 h k p vs) as [st2|k2 st2]; [|reflexivity]. rewrite IH. reflexivity.
  Qed.

  Lemma populate_t_ext st n c : populate_t vt s recx st n c = populate_t vt s rect st n c.
  Proof.
    unfold populate_t. destruct (pipeline vt s n c (active st) st (cur_injs st n c)) as [[st1 inj]|k st1];
      [apply inject_points_t_ext|reflexivity].
  Qed.

  Lemma shorted_none st n : shorted no_extras st n = false.
  Proof. unfold shorted. induction (active st) as [|p r IH]; [reflexivity|exact IH]. Qed.

  Lemma init_methods_xt_none n c st :
    init_methods_xt no_extras recx n c st = ([], init_methods n c st).
  Proof.
    unfold init_methods_xt. destruct (init_methods n c st) as [st2|k st2]; [|reflexivity].
    destruct (c_init c); reflexivity.
  Qed.

  Lemma initialize_xt_none st n c :
    initialize_xt s no_extras recx st n c = ([], initialize s st n c).
  Proof.
    unfold initialize_xt, initialize. destruct (before_chain s n c (active st) st) as [st1|k st1]; [|reflexivity].
    rewrite init_methods_xt_none. destruct (init_methods n c st1) as [st2|k st2]; reflexivity.
  Qed.

  Lemma do_create_xt_none st n c :
    do_create_xt vt s no_extras recx st n c = do_create_t vt s rect st n c.
  Proof.
    unfold do_create_xt, do_create_t. cbv zeta. rewrite populate_t_ext.
    destruct (populate_t vt s rect (set_reg st (add_factory (reg st) n n)) n c) as [o1 [st1|k st1]]; [|reflexivity].
    rewrite initialize_xt_none. destruct (initialize s st1 n c) as [[st2 w]|k st2].
    - cbn [app]. reflexivity.
    - rewrite app_nil_r. reflexivity.
  Qed.

  Lemma create_xt_none st n : create_xt vt s no_extras recx st n = create_t vt s rect st n.
  Proof.
    unfold create_xt, create_t. destruct (scanned st); [|reflexivity].
    destruct (get_comp (s_pop s) n); [|reflexivity]. rewrite shorted_none. apply do_create_xt_none.
  Qed.

  Lemma body_xt_none st n : body_xt vt s no_extras recx st n = body_t vt s rect st n.
  Proof.
    unfold body_xt, body_t. destruct (get_singleton_t s st n true) as [o0 [[st1 [v|]]|k st1]]; try reflexivity.
    destruct (begin_create (reg st1) n) as [r1 [v|]]; [reflexivity|]. rewrite create_xt_none. reflexivity.
  Qed.
End Conservative.

Lemma do_get_xt_none vt s : forall fuel st n, do_get_xt vt s no_extras fuel st n = do_get_t vt s fuel st n.
Proof.
  induction fuel as [|f IH]; intros st n; [reflexivity|]. cbn [do_get_xt do_get_t].
  apply body_xt_none. exact IH.
Qed.

Lemma prepare_loop_xt_none vt s : forall ps st, prepare_loop_xt vt s no_extras ps st = prepare_loop_t vt s ps st.
Proof.
  induction ps as [|p r IH]; intros st; cbn [prepare_loop_xt prepare_loop_t]; [reflexivity|].
  destruct (is_lazy (s_pop s) p); [apply IH|]. rewrite do_get_xt_none.
  destruct (do_get_t vt s (fuel_of s) st p) as [o1 [[st1 v]|k st1]]; [|reflexivity]. rewrite IH. reflexivity.
Qed.

Lemma get_each_xt_none vt s : forall ns st, get_each_xt vt s no_extras ns st = get_each_t vt s ns st.
Proof.
  induction ns as [|n r IH]; intros st; cbn [get_each_xt get_each_t]; [reflexivity|].
  rewrite do_get_xt_none. destruct (do_get_t vt s (fuel_of s) st n) as [o1 [[st1 v]|k st1]]; [|reflexivity].
  rewrite IH. reflexivity.
Qed.

Theorem run_xt_none vt s : run_xt vt s no_extras = run_t vt s.
Proof.
  unfold run_xt, run_t, run_core_xt, run_core_t. destruct (s_loader_fail (normalise vt s)); [reflexivity|].
  rewrite prepare_loop_xt_none.
  destruct (prepare_loop_t vt (normalise vt s) (sorted_procs (normalise vt s)) (set_scanned finit)) as [o1 [st1|k st1]];
    [|reflexivity].
  rewrite get_each_xt_none. reflexivity.
Qed.

Theorem lookups_xt_none vt s : forall ns st, lookups_core_xt vt s no_extras ns st = lookups_core_t vt s ns st.
Proof.
  induction ns as [|n r IH]; intros st; cbn [lookups_core_xt lookups_core_t]; [reflexivity|].
  rewrite do_get_xt_none. destruct (do_get_t vt s (fuel_of s) st n) as [o1 [[st1 v]|k st1]]; rewrite IH; reflexivity.
Qed.

(* so: result and history of the extended model = those of Model/Factory.v and Model/FactoryTrace.v *)
Corollary run_xt_conservative vt s :
  snd (run_xt vt s no_extras) = run vt s /\ fst (run_xt vt s no_extras) = fst (run_t vt s).
Proof. rewrite run_xt_none. split; [apply run_erase|reflexivity]. Qed.
