(* What the container actually writes into the fields (run-level C06 / C07 / C08 / C09):
   for every component created with the complete property pipeline, every injection point holds
   exactly what the resolution functions of Model/Resolve.v propose for it (or stays empty when the
   proposed object cannot be assigned to an optional point).  Connects the Resolve-level theorems
   (candidates, qualifier filter, ranking, the further-matching loop) to the state after a start. *)
From Coq Require Import List Arith Bool Lia.
From IocVerif Require Import Model.Registry Model.Resolve Model.Factory Model.App
  Proofs.FactoryBasics Proofs.FactoryLog Proofs.FactoryInvariant Proofs.FactoryLifecycle Proofs.ResolveProofs
  Proofs.FactoryNoPanic.
Import ListNotations.

(* ---------- the property pipeline in normal form ------------------------------------------------------- *)

Inductive stage : Type := SProps | SValue | SWire | SFunc | SFurther.

Definition stage_of (pop : population) (p : name) : option stage :=
  match proc_of pop p with
  | Some (PBuiltin BProps) => Some SProps
  | Some (PBuiltin BValue) => Some SValue
  | Some (PBuiltin BWire) => Some SWire
  | Some (PBuiltin BFunc) => Some SFunc
  | Some (PBuiltin BFurther) => Some SFurther
  | _ => None
  end.

Definition stages (pop : population) (ps : list name) : list stage :=
  flat_map (fun p => match stage_of pop p with Some k => [k] | None => [] end) ps.

Definition full_stages : list stage := [SProps; SValue; SWire; SFunc; SFurther].

Definition stage_eqb (a b : stage) : bool :=
  match a, b with
  | SProps, SProps | SValue, SValue | SWire, SWire | SFunc, SFunc | SFurther, SFurther => true
  | _, _ => false
  end.

Fixpoint stages_eqb (a b : list stage) : bool :=
  match a, b with
  | [], [] => true
  | x :: a', y :: b' => stage_eqb x y && stages_eqb a' b'
  | _, _ => false
  end.

Lemma stages_eqb_eq a : forall b, stages_eqb a b = true -> a = b.
Proof.
  induction a as [|x a' IH]; intros [|y b'] H; cbn in H; try discriminate; [reflexivity|].
  apply andb_true_iff in H. destruct H as [H1 H2]. rewrite (IH _ H2). destruct x, y; try discriminate; reflexivity.
Qed.

Fixpoint run_stages (vt : variant) (s : scenario) (n : name) (c : comp) (ks : list stage)
  (st : fstate) (inj : list (list (option name))) : res (fstate * list (list (option name))) :=
  match ks with
  | [] => Ok (st, inj)
  | SProps :: r => if cfg_stage c true then Fail (FErr ECfg) st else run_stages vt s n c r st inj
  | SValue :: r => if cfg_stage c false then Fail (FErr ECfg) st else run_stages vt s n c r st inj
  | SWire :: r => run_stages vt s n c r st (add_candidates s false (c_points c) inj)
  | SFunc :: r => run_stages vt s n c r st (add_candidates s true (c_points c) inj)
  | SFurther :: r =>
    match further_loop vt (s_pop s) n (c_points c) inj with
    | LOk inj' => run_stages vt s n c r st inj'
    | LErr => Fail (FErr EFurther) st
    end
  end.

Lemma pipeline_stages vt s n c ps : forall st inj,
  pipeline vt s n c ps st inj = run_stages vt s n c (stages (s_pop s) ps) st inj.
Proof.
  induction ps as [|p r IH]; intros st inj; cbn [pipeline stages flat_map]; [reflexivity|].
  fold (stages (s_pop s) r). unfold stage_of.
  destruct (proc_of (s_pop s) p) as [[[]|early after]|]; cbn [app run_stages]; try apply IH.
  - destruct (cfg_stage c true); [reflexivity|apply IH].
  - destruct (cfg_stage c false); [reflexivity|apply IH].
  - destruct (further_loop vt (s_pop s) n (c_points c) inj); [apply IH|reflexivity].
Qed.

(* candidates are added to empty Injects: each point gets the candidates of its own tag kind *)
Lemma add_candidates_fresh s : forall ps,
  add_candidates s true ps (add_candidates s false ps (map (fun _ => []) ps))
  = map (fun p => candidates (s_oracle s) (s_pop s) p) ps.
Proof.
  induction ps as [|p r IH]; [reflexivity|]. cbn [map add_candidates]. rewrite IH. f_equal.
  destruct (is_func_point p); cbn [Bool.eqb]; rewrite ?app_nil_r; reflexivity.
Qed.

(* what the pipeline proposes for every point of holder n *)
Definition plan (vt : variant) (s : scenario) (n : name) (c : comp) : option (list (list (option name))) :=
  pointwise vt (s_pop s) n (c_points c) (map (fun p => candidates (s_oracle s) (s_pop s) p) (c_points c)).

Lemma pipeline_full vt s n c ps st :
  fix_c08 vt = true -> stages (s_pop s) ps = full_stages ->
  pipeline vt s n c ps st (map (fun _ => []) (c_points c)) =
  if cfg_stage c true then Fail (FErr ECfg) st
  else if cfg_stage c false then Fail (FErr ECfg) st
  else match plan vt s n c with Some out => Ok (st, out) | None => Fail (FErr EFurther) st end.
Proof.
  intros Hfix Hst. rewrite pipeline_stages, Hst. unfold full_stages. cbn [run_stages].
  destruct (cfg_stage c true); [reflexivity|]. destruct (cfg_stage c false); [reflexivity|].
  rewrite add_candidates_fresh, (further_loop_pointwise vt (s_pop s) n (c_points c) Hfix). unfold plan.
  destruct (pointwise vt (s_pop s) n (c_points c) _); reflexivity.
Qed.

(* every planned entry is a list of real names that excludes the holder *)
Lemma further_one_shape vt pop h p i r :
  fix_c10 vt = true -> further_one vt pop h p i = Some r ->
  exists l, r = map Some l /\ ~ In h l.
Proof.
  intros Hfix. unfold further_one. rewrite filter_dependencies_repaired by exact Hfix.
  destruct (survivors pop h p i) as [|a t] eqn:E.
  - destruct (pt_required p); [discriminate|]. intros H; inversion H; subst. exists []. split; [reflexivity|intros []].
  - intros H; inversion H; subst. eexists. split; [reflexivity|].
    intros Hin. assert (Hs : In h (survivors pop h p i)).
    { rewrite E. destruct (pt_slice p); [exact Hin|apply (rank_single_subset pop (a :: t) h); exact Hin]. }
    apply survivors_In in Hs. destruct Hs as [_ Ha]. unfold admitted in Ha. rewrite Nat.eqb_refl in Ha. discriminate.
Qed.

Lemma pointwise_shape vt pop h : fix_c10 vt = true -> forall ps inj out,
  pointwise vt pop h ps inj = Some out -> length inj = length ps ->
  length out = length ps /\ Forall (fun r => exists l, r = map Some l /\ ~ In h l) out.
Proof.
  intros Hfix. induction ps as [|p r IH]; intros inj out H Hlen.
  - destruct inj; [|discriminate]. cbn in H. inversion H; subst. split; [reflexivity|constructor].
  - destruct inj as [|i inj']; [discriminate|]. cbn [pointwise] in H.
    destruct (further_one vt pop h p i) as [r0|] eqn:E0; [|discriminate].
    destruct (pointwise vt pop h r inj') as [rest|] eqn:E1; [|discriminate]. inversion H; subst.
    cbn [length] in Hlen. destruct (IH inj' rest E1 ltac:(lia)) as [Hl Hf].
    split; [cbn; lia|]. constructor; [eapply further_one_shape; eauto|exact Hf].
Qed.

(* ---------- what one point ends up holding ---------------------------------------------------------------- *)

Definition wired_point (pop : population) (st : fstate) (h : name) (k : nat) (p : point)
  (planned : list (option name)) : Prop :=
  match remove_nil planned with
  | [] => field_of st h k = []
  | l => (map owner (field_of st h k) = (if pt_slice p then l else firstn 1 l)
          /\ forallb (fun v => assignable pop v (pt_target p)) (field_of st h k) = true)
         \/ (field_of st h k = [] /\ pt_required p = false)
  end.

Definition wired_all (vt : variant) (s : scenario) (st : fstate) (h : name) (c : comp) : Prop :=
  exists pl, plan vt s h c = Some pl /\
    forall k p x, nth_error (c_points c) k = Some p -> nth_error pl k = Some x -> wired_point (s_pop s) st h k p x.

(* ---------- along the recursion ----------------------------------------------------------------------------- *)

Lemma inject_cases vt s st h k p vs st' :
  inject vt s st h k p vs = Ok st' ->
  st' = st \/
  (let vs1 := filter (fun v => negb (is_self h v)) vs in
   let used := if pt_slice p then vs1 else firstn 1 vs1 in
   vs1 <> [] /\ st' = write_field st h k used /\ forallb (fun v => assignable (s_pop s) v (pt_target p)) used = true).
Proof.
  unfold inject. destruct vs as [|v0 r]; [destruct (pt_required p); [discriminate|intros H; inversion H; auto]|].
  destruct (filter (fun v => negb (is_self h v)) (v0 :: r)) as [|w t] eqn:Ef;
    [destruct (pt_required p); [discriminate|intros H; inversion H; auto]|].
  destruct (forallb _ _) eqn:Ea.
  - intros H; inversion H; subst. right. cbv zeta. split; [discriminate|]. split; [|].
    + destruct (pt_slice p); reflexivity.
    + first [exact Ea | reflexivity | (destruct (pt_slice p); first [exact Ea | reflexivity])].
  - destruct (fix_c07 vt); [|discriminate]. destruct (pt_required p); [discriminate|intros H; inversion H; auto].
Qed.

Lemma inject_optional_or_assignable vt s st h k p vs st' :
  inject vt s st h k p vs = Ok st' -> st' = st ->
  filter (fun v => negb (is_self h v)) vs <> [] -> pt_required p = false \/ flds st' <> flds st.
Proof.
  unfold inject. destruct vs as [|v0 r]; [intros _ _ H; contradiction|].
  destruct (filter (fun v => negb (is_self h v)) (v0 :: r)) as [|w t]; [intros _ _ H; contradiction|].
  destruct (forallb _ _).
  - intros H Heq _. right. inversion H; subst. intros Hf. rewrite <- H1 in Hf at 1. cbn [flds write_field] in Hf.
    apply (f_equal (@length _)) in Hf. cbn [length] in Hf. lia.
  - destruct (fix_c07 vt); [|discriminate]. destruct (pt_required p); [discriminate|]. intros; left; reflexivity.
Qed.

Section Wiring.
  Variable vt : variant.
  Hypothesis H3 : fix_c03 vt = true.
  Hypothesis H7 : fix_c07 vt = true.
  Hypothesis H8 : fix_c08 vt = true.
  Hypothesis H10 : fix_c10 vt = true.
  Variable s : scenario.
  Let pop := s_pop s.

  Definition full (st : fstate) : Prop := stages pop (active st) = full_stages.

  Record G (st : fstate) : Prop := mkG {
    g_inv : Inv st;
    g_fresh : forall n, cached (reg st) n = false -> alookup n (injs st) = None /\ forall k, field_of st n k = [];
    g_wired : forall h c, alookup h (L1 (reg st)) <> None -> get_comp pop h = Some c -> wired_all vt s st h c
  }.

  Variable rec : fstate -> name -> res (fstate * ver).
  Hypothesis Hspec : rec_spec rec.
  Hypothesis Hlife : rec_life s rec.
  Hypothesis Hlog : forall st d, geff2 s st (rec st d).
  Hypothesis HG : forall st d st' v, G st -> full st -> rec st d = Ok (st', v) -> G st'.

  Lemma rec_active st d st' v : rec st d = Ok (st', v) -> active st' = active st.
  Proof. intros H. pose proof (Hlog st d) as Hl. rewrite H in Hl. cbn [geff2] in Hl. destruct Hl as [Ha _ _]. exact Ha. Qed.

  Lemma get_all_G : forall cands st st' vs, G st -> full st -> get_all rec st cands = Ok (st', vs) ->
    G st' /\ active st' = active st.
  Proof.
    induction cands as [|[d|] r IH]; intros st st' vs Hg Hfu H; cbn [get_all] in H.
    - inversion H; subst; auto.
    - destruct (rec st d) as [[st1 v]|k st1] eqn:E; [|discriminate].
      destruct (get_all rec st1 r) as [[st2 vs']|k st2] eqn:E2; [|discriminate]. inversion H; subst.
      pose proof (rec_active _ _ _ _ E) as Ha1.
      destruct (IH st1 st' vs' (HG _ _ _ _ Hg Hfu E) ltac:(unfold full; rewrite Ha1; exact Hfu) E2) as [Hg2 Ha2].
      split; [exact Hg2|congruence].
    - discriminate.
  Qed.

  Lemma get_all_owners : forall l st st' vs, Inv st -> get_all rec st (map Some l) = Ok (st', vs) -> map owner vs = l.
  Proof.
    induction l as [|d r IH]; intros st st' vs HI H; cbn [map get_all] in H.
    - inversion H; reflexivity.
    - destruct (rec st d) as [[st1 v]|k st1] eqn:E; [|discriminate].
      destruct (Hspec st d st1 v HI E) as [HI1 [_ [_ Hv]]].
      destruct (get_all rec st1 (map Some r)) as [[st2 vs']|k st2] eqn:E2; [|discriminate]. inversion H; subst.
      cbn [map]. rewrite (IH _ _ _ HI1 E2), (cur_owner st1 d v HI1 Hv). reflexivity.
  Qed.

  Lemma nonself_all h vs : ~ In h (map owner vs) -> filter (fun v => negb (is_self h v)) vs = vs.
  Proof.
    induction vs as [|v r IH]; intros Hn; [reflexivity|]. cbn [filter].
    assert (Hs : is_self h v = false).
    { destruct v as [m|m j]; [|reflexivity]. cbn [is_self]. apply Nat.eqb_neq. intros ->. apply Hn. left; reflexivity. }
    rewrite Hs. cbn [negb]. f_equal. apply IH. intros Hin. apply Hn. right; exact Hin.
  Qed.

  Lemma G_write st h k used cr :
    G st -> creating (reg st) = h :: cr -> Forall (current st) used ->
    (forall v, In v used -> is_self h v = false) -> G (write_field st h k used).
  Proof.
    intros [Gi Gf Gw] Hcr Hcur Hns.
    assert (Hcached : cached (reg st) h = true) by (apply (i_creating_cached st Gi); rewrite Hcr; left; reflexivity).
    assert (HL1 : alookup h (L1 (reg st)) = None) by (apply (i_creating_unpub st Gi); rewrite Hcr; left; reflexivity).
    constructor.
    - eapply Inv_write; eauto.
    - intros n Hn. change (reg (write_field st h k used)) with (reg st) in Hn.
      destruct (Gf n Hn) as [A1 A2]. split; [exact A1|]. intros k'.
      rewrite field_of_write_other; [apply A2|]. intros ->. rewrite Hcached in Hn. discriminate.
    - intros h' c Hp Hc. change (reg (write_field st h k used)) with (reg st) in Hp.
      assert (Hne : h' <> h) by (intros ->; apply Hp; exact HL1).
      destruct (Gw h' c Hp Hc) as [pl [Hpl Hall]]. exists pl. split; [exact Hpl|].
      intros k' p x Hk Hx. specialize (Hall k' p x Hk Hx). unfold wired_point in *.
      rewrite !(field_of_write_other st h k used h' k' Hne). exact Hall.
  Qed.

  Lemma inject_points_wired h cr : forall ps k pl st st',
    G st -> full st -> creating (reg st) = h :: cr -> length pl = length ps ->
    Forall (fun r => exists l, r = map Some l /\ ~ In h l) pl ->
    (forall j, k <= j -> field_of st h j = []) ->
    inject_points vt s rec h k ps pl st = Ok st' ->
    G st' /\ creating (reg st') = h :: cr
    /\ (forall j, j < k -> field_of st' h j = field_of st h j)
    /\ forall i p x, nth_error ps i = Some p -> nth_error pl i = Some x -> wired_point pop st' h (k + i) p x.
  Proof.
    induction ps as [|p ps' IH]; intros k pl st st' Hg Hfu Hcr Hlen Hsh Hemp H; cbn [inject_points] in H.
    - inversion H; subst. split; [exact Hg|]. split; [exact Hcr|]. split; [auto|]. intros i q x Hq; destruct i; discriminate.
    - destruct pl as [|x pl']; [discriminate|]. cbn [length] in Hlen.
      inversion Hsh as [|? ? [l [Hx Hnl]] Hsh']; subst x.
      assert (Hcached : cached (reg st) h = true)
        by (apply (i_creating_cached st (g_inv st Hg)); rewrite Hcr; left; reflexivity).
      destruct l as [|a t].
      + (* nothing proposed for this point *)
        cbn [map] in H.
        destruct (IH (S k) pl' st st' Hg Hfu Hcr ltac:(lia) Hsh' ltac:(intros j Hj; apply Hemp; lia) H) as [Hg' [Hcr' [Hun Hw]]].
        split; [exact Hg'|]. split; [exact Hcr'|]. split; [intros j Hj; apply Hun; lia|].
        intros i q x Hq Hxx. destruct i as [|i'].
        * cbn in Hq, Hxx. inversion Hq; inversion Hxx; subst. unfold wired_point. cbn [remove_nil map].
          rewrite Nat.add_0_r, (Hun k ltac:(lia)). apply Hemp. lia.
        * cbn in Hq, Hxx. replace (k + S i') with (S k + i') by lia. apply Hw; assumption.
      + (* candidates a :: t: create them, then inject *)
        change (map Some (a :: t)) with (Some a :: map Some t) in H.
        destruct (get_all rec st (Some a :: map Some t)) as [[st1 vs]|k1 st1] eqn:E1; [|discriminate].
        change (Some a :: map Some t) with (map Some (a :: t)) in E1.
        destruct (get_all_G _ _ _ _ Hg Hfu E1) as [Hg1 Hact1].
        destruct (get_all_spec rec Hspec _ _ _ _ (g_inv st Hg) E1) as [_ [Hc1 [_ Hcur]]].
        pose proof (get_all_owners _ _ _ _ (g_inv st Hg) E1) as Hown.
        assert (Hcr1 : creating (reg st1) = h :: cr) by congruence.
        (* the holder's fields are untouched by the nested creations *)
        destruct (get_all_life full_block s rec Hlife (fun m => m = h) _ _ _ _ ltac:(intros m ->; exact Hcached) E1) as [Hfr _].
        destruct (Hfr h eq_refl) as [_ [Hfh _]].
        destruct (inject vt s st1 h k p vs) as [st2|k2 st2] eqn:E2; [|discriminate].
        assert (Hvs1 : filter (fun v => negb (is_self h v)) vs = vs) by (apply nonself_all; rewrite Hown; exact Hnl).
        assert (Hvsne : vs <> []) by (intros ->; discriminate Hown).
        destruct (inject_spec vt s st1 h k p vs st2 cr (g_inv st1 Hg1) Hcr1 Hcur E2) as [HI2 Hr2].
        assert (Hcr2 : creating (reg st2) = h :: cr) by (rewrite Hr2; exact Hcr1).
        (* the two ways inject can succeed *)
        assert (Hfield : (field_of st2 h k = (if pt_slice p then vs else firstn 1 vs)
                          /\ forallb (fun v => assignable pop v (pt_target p)) (field_of st2 h k) = true
                          /\ G st2 /\ (forall j, j <> k -> field_of st2 h j = field_of st1 h j))
                         \/ (st2 = st1 /\ pt_required p = false)).
        { destruct (inject_cases vt s st1 h k p vs st2 E2) as [->|Hw].
          - right. split; [reflexivity|].
            unfold inject in E2. destruct vs as [|v0 r0]; [contradiction|].
            rewrite Hvs1 in E2. destruct (forallb _ _) eqn:Ea.
            + exfalso. inversion E2 as [Heq]. apply (f_equal flds) in Heq. cbn [flds write_field] in Heq.
              apply (f_equal (@length _)) in Heq. cbn [length] in Heq. lia.
            + rewrite H7 in E2. destruct (pt_required p); [discriminate|reflexivity].
          - cbv zeta in Hw. rewrite Hvs1 in Hw. destruct Hw as [_ [-> Hass]]. left.
            assert (Hkk : key_eqb (h, k) (h, k) = true) by (unfold key_eqb; cbn [fst snd]; rewrite !Nat.eqb_refl; reflexivity).
            rewrite field_of_write, Hkk.
            split; [reflexivity|]. split; [exact Hass|]. split.
            + eapply G_write; [exact Hg1|exact Hcr1| |].
              * rewrite Forall_forall in *. intros v Hv. apply Hcur. destruct (pt_slice p); [exact Hv|].
                destruct vs; [contradiction|]. destruct Hv as [<-|[]]. left; reflexivity.
              * intros v Hv. assert (Hin : In v vs).
                { destruct (pt_slice p); [exact Hv|]. destruct vs; [contradiction|]. destruct Hv as [<-|[]]. left; reflexivity. }
                rewrite <- Hvs1 in Hin. apply filter_In in Hin. destruct Hin as [_ Hn]. apply negb_true_iff in Hn. exact Hn.
            + intros j Hj. rewrite field_of_write. unfold key_eqb. cbn [fst snd]. rewrite Nat.eqb_refl. cbn [andb].
              destruct (Nat.eqb_spec k j); [subst; contradiction|reflexivity]. }
        assert (Hg2 : G st2) by (destruct Hfield as [[_ [_ [Hg2 _]]]|[-> _]]; [exact Hg2|exact Hg1]).
        assert (Hoth : forall j, j <> k -> field_of st2 h j = field_of st h j).
        { intros j Hj. destruct Hfield as [[_ [_ [_ Ho]]]|[-> _]]; [rewrite (Ho j Hj)|]; apply Hfh. }
        assert (Hfu2 : full st2).
        { unfold full. destruct Hfield as [[_ [_ [_ _]]]|[-> _]].
          - destruct (inject_cases vt s st1 h k p vs st2 E2) as [->|Hw0]; [rewrite Hact1; exact Hfu|].
            cbv zeta in Hw0. destruct Hw0 as [_ [-> _]]. cbn [active write_field]. rewrite Hact1. exact Hfu.
          - rewrite Hact1. exact Hfu. }
        destruct (IH (S k) pl' st2 st' Hg2 Hfu2 Hcr2 ltac:(lia) Hsh'
                     ltac:(intros j Hj; rewrite (Hoth j ltac:(lia)); apply Hemp; lia) H) as [Hg' [Hcr' [Hun Hw]]].
        split; [exact Hg'|]. split; [exact Hcr'|].
        split; [intros j Hj; rewrite (Hun j ltac:(lia)); apply Hoth; lia|].
        intros i q x Hq Hxx. destruct i as [|i'].
        * cbn in Hq, Hxx. injection Hq as <-. injection Hxx as <-. unfold wired_point. cbn [map remove_nil].
          rewrite remove_nil_map_Some.
          rewrite Nat.add_0_r, (Hun k ltac:(lia)).
          destruct Hfield as [[Hf [Hass _]]|[-> Hopt]].
          -- left. rewrite Hf. split; [|rewrite <- Hf; exact Hass].
             destruct (pt_slice p); [exact Hown|]. rewrite <- Hown. destruct vs; reflexivity.
          -- right. split; [rewrite Hfh; apply Hemp; lia|exact Hopt].
        * cbn in Hq, Hxx. replace (k + S i') with (S k + i') by lia. apply Hw; assumption.
  Qed.

  (* G across steps that keep registry-independent parts *)
  Lemma G_same st st' :
    Inv st' -> injs st' = injs st -> flds st' = flds st ->
    L1 (reg st') = L1 (reg st) -> (forall m, cached (reg st') m = false -> cached (reg st) m = false) ->
    G st -> G st'.
  Proof.
    intros HI Hi Hf HL Hc [Gi Gf Gw].
    assert (Hfo : forall h k, field_of st' h k = field_of st h k) by (intros; unfold field_of; rewrite Hf; reflexivity).
    constructor.
    - exact HI.
    - intros n Hn. destruct (Gf n (Hc n Hn)) as [A1 A2]. split; [rewrite Hi; exact A1|intros k; rewrite Hfo; apply A2].
    - intros h c Hp Hcm. rewrite HL in Hp. destruct (Gw h c Hp Hcm) as [pl [Hpl Hall]]. exists pl. split; [exact Hpl|].
      intros k p x Hk Hx. specialize (Hall k p x Hk Hx). unfold wired_point in *. rewrite !Hfo. exact Hall.
  Qed.

  Lemma body_G : forall st n st' v,
    G st -> (full st \/ (forall c, get_comp pop n = Some c -> c_points c = [])) ->
    body vt s rec st n = Ok (st', v) -> G st'.
  Proof.
    intros st n st' v Hg Hcase H.
    pose proof (body_spec vt H3 s rec Hspec st n st' v (g_inv st Hg) H) as [HI' _].
    unfold body, get_singleton in H.
    destruct (get_lookup (reg st) n true) as [hv|f|] eqn:EL.
    - inversion H; subst. exact Hg.
    - unfold early_reference in H.
      pose proof (early_chain_eff s n (active st) st st (VOrig n) (only_log_refl _ st)) as He.
      destruct (early_chain s n (active st) st (VOrig n)) as [[st1 ev]|k st1]; [|discriminate].
      cbn [eff2] in He. inversion H; subst st' v. destruct He as [Hr Hf _ Hi Ha _ _].
      eapply G_same; [exact HI'|exact Hi|exact Hf| | |exact Hg].
      + cbn [reg set_reg get_promote L1]. rewrite Hr. reflexivity.
      + intros m Hm. cbn [reg set_reg] in Hm. rewrite Hr in Hm.
        destruct (cached (reg st) m) eqn:E; [|reflexivity]. rewrite (mono_get_promote (reg st) n ev m E) in Hm. discriminate.
    - pose proof (FactoryBasics.get_lookup_miss_uncached _ _ EL) as Hunc.
      destruct (get_lookup_miss_true _ _ EL) as [HL1 [HL2 HL3]].
      unfold begin_create in H. rewrite HL1 in H.
      destruct (Inv_push st n (g_inv st Hg) Hunc) as [Hadd HI0]. rewrite Hadd in H.
      unfold create in H. cbn [scanned set_reg] in H.
      destruct (scanned st); [|discriminate].
      destruct (get_comp (s_pop s) n) as [c|] eqn:Ec; [|discriminate].
      unfold do_create in H. cbn [reg set_reg] in H.
      match type of H with context [populate vt s rec ?x n c] => set (st0 := x) in * end.
      destruct (g_fresh st Hg n Hunc) as [Hinj0 Hfld0].
      assert (Hg0 : G st0).
      { destruct Hg as [Gi Gf Gw]. constructor.
        - exact HI0.
        - intros m Hm. apply Gf. destruct (cached (reg st) m) eqn:E; [|reflexivity].
          assert (Hc0 : cached (reg st0) m = true).
          { unfold st0. cbn [reg set_reg]. apply mono_add_factory. exact E. }
          rewrite Hc0 in Hm. discriminate.
        - intros h' c' Hp Hc'. exact (Gw h' c' Hp Hc'). }
      assert (Hcr0 : creating (reg st0) = n :: creating (reg st)) by reflexivity.
      destruct (populate vt s rec st0 n c) as [st1|k1 st1] eqn:EP; [|destruct k1; discriminate].
      (* populate: the pipeline yields the plan, inject_points wires it *)
      assert (Hpop : exists pl, plan vt s n c = Some pl /\ G st1 /\
                forall k p x, nth_error (c_points c) k = Some p -> nth_error pl k = Some x ->
                              wired_point pop st1 n k p x).
      { unfold populate in EP. unfold cur_injs in EP. change (injs st0) with (injs st) in EP. rewrite Hinj0 in EP.
        change (active st0) with (active st) in EP.
        assert (HG0' : forall pl, G (set_injs st0 n pl)).
        { intros pl. destruct Hg0 as [Gi Gf Gw]. constructor.
          - eapply Inv_same_core; [|exact Gi]. repeat split.
          - intros m Hm. change (reg (set_injs st0 n pl)) with (reg st0) in Hm.
            destruct (Gf m Hm) as [A1 A2]. split; [|exact A2]. cbn [injs set_injs].
            assert (Hne : m <> n).
            { intros ->. unfold st0 in Hm. cbn [reg set_reg] in Hm. rewrite cached_add_factory in Hm. discriminate. }
            rewrite (alookup_aset_neq n m pl _ Hne). exact A1.
          - exact Gw. }
        destruct Hcase as [Hfu|Hpl].
        - unfold full in Hfu. rewrite (pipeline_full vt s n c (active st) st0 H8 Hfu) in EP.
          destruct (cfg_stage c true); [discriminate|]. destruct (cfg_stage c false); [discriminate|].
          destruct (plan vt s n c) as [pl|] eqn:Epl; [|discriminate].
          destruct (pointwise_shape vt (s_pop s) n H10 (c_points c) _ pl Epl ltac:(rewrite map_length; reflexivity))
            as [Hlen Hsh].
          destruct (inject_points_wired n (creating (reg st)) (c_points c) 0 pl (set_injs st0 n pl) st1
                      (HG0' pl) Hfu Hcr0 Hlen Hsh ltac:(intros j _; apply Hfld0) EP) as [Hg1 [_ [_ Hw1]]].
          exists pl. split; [reflexivity|]. split; [exact Hg1|]. intros k p x Hk Hx. apply (Hw1 k p x Hk Hx).
        - pose proof (Hpl c Ec) as Hnil. exists []. unfold plan. rewrite Hnil. cbn [map pointwise].
          split; [reflexivity|].
          destruct (pipeline vt s n c (active st) st0 (map (fun _ => []) (c_points c))) as [[stp inj]|kp stp] eqn:Epi;
            [|discriminate].
          pose proof (pipeline_state _ _ _ _ _ _ _ _ _ Epi) as ->.
          pose proof (pipeline_length vt s n c _ _ _ _ _ ltac:(rewrite map_length; reflexivity) Epi) as Hl.
          rewrite Hnil in Hl, EP. destruct inj; [|discriminate]. cbn [inject_points] in EP. inversion EP; subst st1.
          split; [apply HG0'|]. intros k p x Hk. destruct k; discriminate. }
      destruct Hpop as [pl [Epl [Hg1 Hw1]]].
      destruct (initialize s st1 n c) as [[st2 w]|k2 st2] eqn:EI; [|destruct k2; discriminate].
      pose proof (initialize_eff s st1 n c Ec) as Hie. rewrite EI in Hie. cbn [eff2] in Hie.
      destruct Hie as [Hr2 Hfl2 _ Hi2 Ha2 _ _].
      assert (Hfo2 : forall h k, field_of st2 h k = field_of st1 h k) by (intros; unfold field_of; rewrite Hfl2; reflexivity).
      (* the final state is st2 with n published *)
      assert (Hfin : forall pv, st' = set_reg st2 (end_create_ok (reg st2) n pv) -> G st').
      { intros pv ->. destruct Hg1 as [Gi1 Gf1 Gw1]. constructor.
        - exact HI'.
        - intros m Hm. cbn [reg set_reg] in Hm.
          assert (Hm1 : cached (reg st1) m = false).
          { destruct (cached (reg st1) m) eqn:E; [|reflexivity]. rewrite <- Hr2 in E.
            rewrite (mono_end_create_ok (reg st2) n pv m E) in Hm. discriminate. }
          destruct (Gf1 m Hm1) as [A1 A2]. split; [cbn [injs set_reg]; rewrite Hi2; exact A1|].
          intros k. change (field_of (set_reg st2 (end_create_ok (reg st2) n pv)) m k) with (field_of st2 m k).
          rewrite Hfo2. apply A2.
        - intros h' c' Hp Hc'. cbn [reg set_reg] in Hp. unfold end_create_ok, add_singleton in Hp. cbn [L1] in Hp.
          destruct (Nat.eq_dec h' n) as [->|Hne].
          + assert (c' = c) by (unfold pop in Hc'; congruence). subst c'.
            exists pl. split; [exact Epl|]. intros k p x Hk Hx. specialize (Hw1 k p x Hk Hx).
            unfold wired_point in *.
            change (field_of (set_reg st2 (end_create_ok (reg st2) n pv)) n k) with (field_of st2 n k).
            rewrite Hfo2. exact Hw1.
          + rewrite (alookup_aset_neq n h' pv _ Hne), Hr2 in Hp.
            destruct (Gw1 h' c' Hp Hc') as [pl' [Hpl' Hall]]. exists pl'. split; [exact Hpl'|].
            intros k p x Hk Hx. specialize (Hall k p x Hk Hx). unfold wired_point in *.
            change (field_of (set_reg st2 (end_create_ok (reg st2) n pv)) h' k) with (field_of st2 h' k).
            rewrite Hfo2. exact Hall. }
      unfold get_singleton in H. rewrite (FactoryBasics_get_lookup_false (reg st2) n) in H.
      destruct (match alookup n (L1 (reg st2)) with Some v0 => Some v0 | None => alookup n (L2 (reg st2)) end) as [e|].
      + destruct w as [wv|].
        * destruct (stale_dependents vt st2 n _); [|discriminate]. inversion H; subst. eapply Hfin; reflexivity.
        * inversion H; subst. eapply Hfin; reflexivity.
      + inversion H; subst. eapply Hfin; reflexivity.
  Qed.
End Wiring.

Theorem do_get_G vt s :
  fix_c03 vt = true -> fix_c07 vt = true -> fix_c08 vt = true -> fix_c10 vt = true ->
  forall fuel st n st' v, G vt s st ->
    (full s st \/ (forall c, get_comp (s_pop s) n = Some c -> c_points c = [])) ->
    do_get vt s fuel st n = Ok (st', v) -> G vt s st'.
Proof.
  intros H3 H7 H8 H10. induction fuel as [|f IH]; intros st n st' v Hg Hc H; [discriminate|].
  cbn [do_get] in H.
  assert (HG' : forall st0 d st1 v1, G vt s st0 -> full s st0 -> do_get vt s f st0 d = Ok (st1, v1) -> G vt s st1)
    by (intros st0 d st1 v1 Hg0 Hf0 H0; eapply IH; [exact Hg0|left; exact Hf0|exact H0]).
  eapply (body_G vt H3 H7 H8 H10 s (do_get vt s f)); try eassumption.
  all: try (apply do_get_spec; exact H3); try apply do_get_life; try (intros; apply do_get_geff).
Qed.

(* ---------- a whole start ------------------------------------------------------------------------------- *)

Lemma G_core vt s st st' : same_core st st' -> injs st' = injs st -> G vt s st -> G vt s st'.
Proof.
  intros [Hr [Hf Hd]] Hi Hg. eapply G_same; [| | | | |exact Hg].
  - eapply Inv_same_core; [|exact (g_inv vt s st Hg)]. repeat split; assumption.
  - exact Hi.
  - exact Hf.
  - rewrite Hr. reflexivity.
  - intros m Hm. rewrite Hr in Hm. exact Hm.
Qed.

Lemma G_finit vt s : G vt s (set_scanned finit).
Proof.
  constructor.
  - eapply Inv_same_core; [|apply Inv_finit]. repeat split.
  - intros n _. split; reflexivity.
  - intros h c Hp. cbn in Hp. contradiction.
Qed.

Lemma do_get_active vt s fuel st n st' v : do_get vt s fuel st n = Ok (st', v) -> active st' = active st.
Proof. intros H. pose proof (do_get_geff vt s fuel st n) as Hg. rewrite H in Hg. cbn [geff2] in Hg. destruct Hg as [Ha _ _]. exact Ha. Qed.

Lemma prepare_loop_G vt s :
  fix_c03 vt = true -> fix_c07 vt = true -> fix_c08 vt = true -> fix_c10 vt = true ->
  forall ps st st',
  (forall p c, In p ps -> get_comp (s_pop s) p = Some c -> c_points c = []) ->
  G vt s st -> prepare_loop vt s ps st = Ok st' -> G vt s st' /\ active st' = active st ++ ps.
Proof.
  intros H3 H7 H8 H10. induction ps as [|p r IH]; intros st st' Hp Hg H; cbn [prepare_loop] in H.
  - inversion H; subst. split; [exact Hg|rewrite app_nil_r; reflexivity].
  - assert (Hr : forall q c, In q r -> get_comp (s_pop s) q = Some c -> c_points c = [])
      by (intros q c Hq; apply Hp; right; exact Hq).
    destruct (is_lazy (s_pop s) p).
    + destruct (IH _ _ Hr (G_core vt s st (set_active st (active st ++ [p])) ltac:(repeat split) eq_refl Hg) H) as [Hg' Ha'].
      split; [exact Hg'|]. rewrite Ha'. cbn [active set_active]. rewrite <- app_assoc. reflexivity.
    + destruct (do_get vt s (fuel_of s) st p) as [[st1 v]|k st1] eqn:E; [|discriminate].
      assert (Hg1 : G vt s st1).
      { eapply (do_get_G vt s H3 H7 H8 H10); [exact Hg| |exact E]. right. intros c Hc. eapply Hp; [left; reflexivity|exact Hc]. }
      pose proof (do_get_active _ _ _ _ _ _ _ E) as Ha1.
      destruct (IH _ _ Hr (G_core vt s st1 (set_active st1 (active st1 ++ [p])) ltac:(repeat split) eq_refl Hg1) H) as [Hg' Ha'].
      split; [exact Hg'|]. rewrite Ha'. cbn [active set_active]. rewrite Ha1, <- app_assoc. reflexivity.
Qed.

Lemma get_each_G vt s :
  fix_c03 vt = true -> fix_c07 vt = true -> fix_c08 vt = true -> fix_c10 vt = true ->
  forall ns st st', G vt s st -> full s st -> get_each vt s ns st = Ok st' -> G vt s st'.
Proof.
  intros H3 H7 H8 H10. induction ns as [|n r IH]; intros st st' Hg Hf H; cbn [get_each] in H; [inversion H; subst; exact Hg|].
  destruct (do_get vt s (fuel_of s) st n) as [[st1 v]|k st1] eqn:E; [|discriminate].
  eapply IH; [| |exact H].
  - eapply (do_get_G vt s H3 H7 H8 H10); [exact Hg|left; exact Hf|exact E].
  - unfold full. rewrite (do_get_active _ _ _ _ _ _ _ E). exact Hf.
Qed.

Lemma run_each_G vt s ns : forall st st', G vt s st -> run_each s ns st = Ok st' -> G vt s st'.
Proof.
  induction ns as [|n r IH]; intros st st' Hg H; cbn [run_each] in H; [inversion H; subst; exact Hg|].
  destruct (runner_fails s n); [discriminate|]. eapply IH; [|exact H].
  eapply G_core; [| |exact Hg]; [repeat split|reflexivity].
Qed.

Definition stages_ok_b (s : scenario) : bool := stages_eqb (stages (s_pop s) (sorted_procs s)) full_stages.

Theorem run_core_G vt s st :
  fix_c03 vt = true -> fix_c07 vt = true -> fix_c08 vt = true -> fix_c10 vt = true ->
  procs_pointless_b s = true -> stages_ok_b s = true ->
  run_core vt s = Ok st -> G vt s st.
Proof.
  intros H3 H7 H8 H10 Hp Hs. apply procs_pointless_b_sound in Hp. apply stages_eqb_eq in Hs.
  unfold run_core. destruct (s_loader_fail s); [discriminate|]. unfold prepare.
  destruct (prepare_loop vt s (sorted_procs s) (set_scanned finit)) as [st1|k st1] eqn:E1; [|discriminate].
  destruct (prepare_loop_G vt s H3 H7 H8 H10 _ _ _ Hp (G_finit vt s) E1) as [Hg1 Ha1].
  cbn [active set_scanned finit app] in Ha1.
  unfold refresh. destruct (get_each vt s (eager_names s) st1) as [st2|k st2] eqn:E2; [|discriminate].
  assert (Hg2 : G vt s st2).
  { eapply (get_each_G vt s H3 H7 H8 H10); [exact Hg1| |exact E2]. unfold full. rewrite Ha1. exact Hs. }
  unfold call_runners. destruct (s_app s) as [[[a rp] cp]|]; [|intros H; inversion H; subst; exact Hg2].
  intros H. eapply run_each_G; eauto.
Qed.

(* the statement per point *)
Theorem run_core_wired vt s st :
  fix_c03 vt = true -> fix_c07 vt = true -> fix_c08 vt = true -> fix_c10 vt = true ->
  procs_pointless_b s = true -> stages_ok_b s = true ->
  run_core vt s = Ok st ->
  forall h c k p, alookup h (L1 (reg st)) <> None -> get_comp (s_pop s) h = Some c -> nth_error (c_points c) k = Some p ->
    exists x, further_one vt (s_pop s) h p (candidates (s_oracle s) (s_pop s) p) = Some x
              /\ wired_point (s_pop s) st h k p x.
Proof.
  intros H3 H7 H8 H10 Hp Hs H h c k p Hpub Hc Hk.
  pose proof (run_core_G vt s st H3 H7 H8 H10 Hp Hs H) as Hg.
  destruct (g_wired vt s st Hg h c Hpub Hc) as [pl [Hpl Hall]]. unfold plan in Hpl.
  assert (Hk2 : nth_error (map (fun p0 => candidates (s_oracle s) (s_pop s) p0) (c_points c)) k
                = Some (candidates (s_oracle s) (s_pop s) p)) by (rewrite nth_error_map, Hk; reflexivity).
  destruct (pointwise_nth vt (s_pop s) h _ _ _ k p _ Hpl Hk Hk2) as [x [Hx Hnx]].
  exists x. split; [exact Hx|]. apply (Hall k p x Hk Hnx).
Qed.

Lemma wired_point_owners pop st h k p x n :
  wired_point pop st h k p x -> In n (map owner (field_of st h k)) -> In n (remove_nil x).
Proof.
  unfold wired_point. destruct (remove_nil x) as [|a t] eqn:E.
  - intros -> Hin. contradiction.
  - intros [[Ho _]|[-> _]] Hin; [|contradiction]. rewrite Ho in Hin.
    destruct (pt_slice p); [exact Hin|]. cbn [firstn] in Hin. destruct Hin as [<-|[]]. left; reflexivity.
Qed.

Lemma wired_point_required pop st h k p x :
  wired_point pop st h k p x -> pt_required p = true -> remove_nil x <> [] ->
  map owner (field_of st h k) = (if pt_slice p then remove_nil x else firstn 1 (remove_nil x))
  /\ field_of st h k <> [].
Proof.
  unfold wired_point. destruct (remove_nil x) as [|a t] eqn:E; [intros _ _ H; contradiction|].
  intros [[Ho Ha]|[_ Hopt]] Hr _; [|congruence]. split; [exact Ho|].
  intros Hf. rewrite Hf in Ho. cbn in Ho. destruct (pt_slice p); discriminate.
Qed.
