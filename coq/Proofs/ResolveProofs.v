(* Lemmas about Model/Resolve.v and Model/SingletonRegistry.v (C06, C07, C08). *)
From Coq Require Import List Arith Bool Lia.
From IocVerif Require Import Model.Registry Model.Resolve Model.SingletonRegistry.
Import ListNotations.

(* ---------- remove_nil / filters -------------------------------------------------------------------- *)

Lemma remove_nil_In l n : In n (remove_nil l) <-> In (Some n) l.
Proof.
  induction l as [|[m|] r IH]; cbn [remove_nil In].
  - tauto.
  - rewrite IH. split; intros [H|H]; [left; congruence|right; exact H|left; congruence|right; exact H].
  - rewrite IH. split; [intros H; right; exact H|intros [H|H]; [discriminate|exact H]].
Qed.

Lemma remove_nil_map_Some l : remove_nil (map Some l) = l.
Proof. induction l as [|a r IH]; cbn; [reflexivity|rewrite IH; reflexivity]. Qed.

Lemma NoDup_filter {A} (f : A -> bool) l : NoDup l -> NoDup (filter f l).
Proof.
  induction 1 as [|a l Hn Hd IH]; cbn [filter]; [constructor|].
  destruct (f a); [constructor; [|exact IH]|exact IH].
  intros Hin. apply filter_In in Hin. tauto.
Qed.

Lemma filter_names_In pop f ns n :
  In n (filter_names pop f ns) <-> In n ns /\ exists c, get_comp pop n = Some c /\ f c = true.
Proof.
  unfold filter_names. rewrite filter_In. split; intros [H1 H2]; split; try exact H1.
  - destruct (get_comp pop n) as [c|]; [exists c; auto|discriminate].
  - destruct H2 as [c [Hc Hf]]. rewrite Hc. exact Hf.
Qed.

Lemma filter_names_NoDup pop f ns : NoDup ns -> NoDup (filter_names pop f ns).
Proof. apply NoDup_filter. Qed.

(* ---------- ranking ------------------------------------------------------------------------------------ *)

Lemma rank_loop_in pop cur l : In (rank_loop pop cur l) (cur :: l).
Proof.
  revert cur. induction l as [|m r IH]; intros cur; cbn [rank_loop]; [left; reflexivity|].
  destruct (is_primary pop m); [right; left; reflexivity|].
  specialize (IH (if is_alias pop m then cur else m)).
  destruct (is_alias pop m); destruct IH as [H|H]; cbn [In]; auto.
Qed.

Lemma rank_single_subset pop l n : In n (rank_single pop l) -> In n l.
Proof.
  destruct l as [|x [|y r]]; cbn [rank_single]; intros H; [contradiction|exact H|].
  destruct H as [H|[]]. subst n.
  pose proof (rank_loop_in pop x (x :: y :: r)) as Hin. destruct Hin as [Hin|Hin]; [left; exact Hin|exact Hin].
Qed.

Lemma rank_single_length pop l : l <> [] -> length (rank_single pop l) = 1.
Proof. destruct l as [|x [|y r]]; cbn; intros H; [contradiction|reflexivity|reflexivity]. Qed.

(* the first Primary wins *)
Lemma rank_loop_primary pop l : forall cur x rest,
  filter (is_primary pop) l = x :: rest -> rank_loop pop cur l = x.
Proof.
  induction l as [|m r IH]; intros cur x rest Hf; cbn [filter] in Hf; [discriminate|].
  cbn [rank_loop]. destruct (is_primary pop m) eqn:Hm.
  - inversion Hf; reflexivity.
  - eapply IH. exact Hf.
Qed.

Lemma last_cons_indep {A} (a : A) l d d' : last (a :: l) d = last (a :: l) d'.
Proof.
  revert a. induction l as [|b r IH]; intros a; [reflexivity|].
  change (last (a :: b :: r) d) with (last (b :: r) d).
  change (last (a :: b :: r) d') with (last (b :: r) d'). apply IH.
Qed.

(* without a Primary, the last component without a custom name wins *)
Lemma rank_loop_plain pop l : forall cur,
  filter (is_primary pop) l = [] ->
  rank_loop pop cur l = last (filter (fun n => negb (is_alias pop n)) l) cur.
Proof.
  induction l as [|m r IH]; intros cur Hf; cbn [filter rank_loop last]; [reflexivity|].
  cbn [filter] in Hf. destruct (is_primary pop m) eqn:Hm; [discriminate|].
  rewrite (IH _ Hf). destruct (is_alias pop m); cbn [negb].
  - reflexivity.
  - destruct (filter (fun n => negb (is_alias pop n)) r) as [|a l'] eqn:E; [reflexivity|].
    change (last (m :: a :: l') cur) with (last (a :: l') cur). apply last_cons_indep.
Qed.

(* ---------- filter_dependencies -------------------------------------------------------------------------- *)

Definition admitted (pop : population) (h : name) (p : point) (n : name) : bool :=
  negb (Nat.eqb n h)
  && match pt_quals p with Some qs => qual_ok pop qs n | None => true end.

(* the list that survives nil-removal, self-removal and the qualifier filter *)
Definition survivors (pop : population) (h : name) (p : point) (inj : list (option name)) : list name :=
  filter (admitted pop h p) (remove_nil inj).

Lemma filter_filter {A} (f g : A -> bool) l : filter g (filter f l) = filter (fun x => f x && g x) l.
Proof.
  induction l as [|a r IH]; cbn [filter]; [reflexivity|].
  destruct (f a); cbn [filter andb]; [destruct (g a); rewrite IH; reflexivity|exact IH].
Qed.

Lemma survivors_spec pop h p inj :
  survivors pop h p inj =
  match pt_quals p with
  | Some qs => filter (qual_ok pop qs) (filter (fun m => negb (Nat.eqb m h)) (remove_nil inj))
  | None => filter (fun m => negb (Nat.eqb m h)) (remove_nil inj)
  end.
Proof.
  unfold survivors, admitted. destruct (pt_quals p) as [qs|].
  - rewrite filter_filter. reflexivity.
  - apply filter_ext. intros a. rewrite andb_true_r. reflexivity.
Qed.

Lemma filter_nil_of_nil {A} (f : A -> bool) l : l = [] -> filter f l = [].
Proof. intros ->; reflexivity. Qed.

(* the repaired function in closed form *)
Lemma filter_dependencies_repaired vt pop h p inj :
  fix_c10 vt = true ->
  filter_dependencies vt pop h p inj =
  match survivors pop h p inj with
  | [] => FErr
  | l => FOk (if pt_slice p then l else rank_single pop l)
  end.
Proof.
  intros Hfix. unfold filter_dependencies. rewrite Hfix, survivors_spec.
  destruct (remove_nil inj) as [|a r] eqn:E0.
  - cbn. destruct (pt_quals p); reflexivity.
  - set (r1 := filter (fun m => negb (Nat.eqb m h)) (a :: r)).
    destruct r1 as [|b r1'] eqn:E1.
    + destruct (pt_quals p); reflexivity.
    + destruct (pt_quals p) as [qs|]; [|reflexivity].
      destruct (filter (qual_ok pop qs) (b :: r1')); reflexivity.
Qed.

Lemma survivors_In pop h p inj n :
  In n (survivors pop h p inj) <-> In (Some n) inj /\ admitted pop h p n = true.
Proof. unfold survivors. rewrite filter_In, remove_nil_In. tauto. Qed.

(* ---------- the loop -------------------------------------------------------------------------------------- *)

Fixpoint pointwise (vt : variant) (pop : population) (h : name) (ps : list point)
  (inj : list (list (option name))) : option (list (list (option name))) :=
  match ps, inj with
  | p :: ps', i :: inj' =>
    match further_one vt pop h p i with
    | None => None
    | Some r => match pointwise vt pop h ps' inj' with
                | Some rest => Some (r :: rest)
                | None => None
                end
    end
  | _, _ => Some inj
  end.

Lemma further_loop_pointwise vt pop h ps : fix_c08 vt = true -> forall inj,
  further_loop vt pop h ps inj =
  match pointwise vt pop h ps inj with Some out => LOk out | None => LErr end.
Proof.
  intros Hfix. induction ps as [|p ps' IH]; intros inj; cbn [further_loop pointwise]; [reflexivity|].
  destruct inj as [|i inj']; [reflexivity|].
  unfold further_one. destruct (filter_dependencies vt pop h p i) as [l|].
  - rewrite IH. destruct (pointwise vt pop h ps' inj'); reflexivity.
  - destruct (pt_required p); [reflexivity|]. rewrite Hfix, IH.
    destruct (pointwise vt pop h ps' inj'); reflexivity.
Qed.

Lemma pointwise_nth vt pop h : forall ps inj out i p x,
  pointwise vt pop h ps inj = Some out ->
  nth_error ps i = Some p -> nth_error inj i = Some x ->
  exists r, further_one vt pop h p x = Some r /\ nth_error out i = Some r.
Proof.
  induction ps as [|p0 ps' IH]; intros inj out i p x Hpw Hp Hx.
  - destruct i; discriminate.
  - destruct inj as [|i0 inj']; [destruct i; discriminate|].
    cbn [pointwise] in Hpw.
    destruct (further_one vt pop h p0 i0) as [r0|] eqn:E0; [|discriminate].
    destruct (pointwise vt pop h ps' inj') as [rest|] eqn:E1; [|discriminate].
    inversion Hpw; subst out. destruct i as [|i'].
    + cbn in Hp, Hx. inversion Hp; inversion Hx; subst. exists r0. split; [exact E0|reflexivity].
    + cbn in Hp, Hx. cbn [nth_error]. eapply IH; eauto.
Qed.

Lemma pointwise_none vt pop h : forall ps inj,
  length ps = length inj ->
  pointwise vt pop h ps inj = None ->
  exists i p x, nth_error ps i = Some p /\ nth_error inj i = Some x /\ further_one vt pop h p x = None.
Proof.
  induction ps as [|p0 ps' IH]; intros inj Hlen Hpw; [discriminate|].
  destruct inj as [|i0 inj']; [discriminate|]. cbn [pointwise] in Hpw.
  destruct (further_one vt pop h p0 i0) as [r0|] eqn:E0.
  - destruct (pointwise vt pop h ps' inj') as [rest|] eqn:E1; [discriminate|].
    cbn in Hlen. destruct (IH inj' ltac:(lia) E1) as [i [p [x [H1 [H2 H3]]]]].
    exists (S i), p, x. auto.
  - exists 0, p0, i0. auto.
Qed.

(* ---------- registration ---------------------------------------------------------------------------------- *)

Lemma sfind_In n s i : sfind n s = Some i -> In (n, i) s.
Proof.
  induction s as [|[m j] r IH]; cbn [sfind]; [discriminate|].
  destruct (Nat.eqb_spec m n) as [->|Hne]; intros H; [inversion H; left; reflexivity|right; auto].
Qed.

Lemma sfind_None n s : sfind n s = None -> ~ In n (map fst s).
Proof.
  induction s as [|[m j] r IH]; cbn [sfind map fst In]; [tauto|].
  destruct (Nat.eqb_spec m n) as [->|Hne]; [discriminate|]. intros H [Heq|Hin]; [contradiction|].
  exact (IH H Hin).
Qed.

Lemma NoDup_rev_snoc {A} (l : list A) (a : A) : NoDup l -> ~ In a l -> NoDup (l ++ [a]).
Proof.
  induction l as [|b r IH]; intros Hnd Hn; cbn [app]; [constructor; [intros []|constructor]|].
  inversion Hnd as [|? ? Hb Hr]; subst. constructor.
  - intros Hin. apply in_app_or in Hin. destruct Hin as [Hin|[Hin|[]]]; [exact (Hb Hin)|].
    subst. apply Hn. left; reflexivity.
  - apply IH; [exact Hr|]. intros Hin. apply Hn. right; exact Hin.
Qed.

Lemma register_NoDup s r : NoDup (map fst s) -> NoDup (map fst (fst (register s r))).
Proof.
  intros Hnd. unfold register. destruct (sfind (reg_name r) s) as [i|] eqn:E.
  - destruct (Nat.eqb i (rq_inst r)); exact Hnd.
  - cbn [fst]. rewrite map_app. cbn [map fst].
    apply NoDup_rev_snoc; [exact Hnd|]. exact (sfind_None _ _ E).
Qed.

(* ---------- candidates by type / by func / by name ------------------------------------------------------- *)

Definition by_type_pred (p : point) (c : comp) : bool :=
  type_ok c (pt_target p)
  && match pt_sel p with SFunc m rets => func_ok c m rets | _ => true end.

Lemma candidates_unnamed enum pop p :
  (match pt_sel p with SByName _ => False | _ => True end) ->
  pt_target p <> TOther ->
  candidates enum pop p = map Some (filter_names pop (by_type_pred p) enum).
Proof.
  intros Hsel Ht. unfold candidates, by_type_pred.
  destruct (pt_sel p) as [|n|m rets]; [|contradiction|].
  - destruct (pt_target p); try contradiction; f_equal; unfold filter_names; apply filter_ext;
      intros a; destruct (get_comp pop a); try reflexivity; rewrite andb_true_r; reflexivity.
  - destruct (pt_target p); try contradiction; reflexivity.
Qed.

Lemma candidates_named enum pop p n :
  pt_sel p = SByName n -> pt_slice p = false -> pt_target p <> TOther ->
  candidates enum pop p = [n].
Proof.
  intros Hs Hsl Ht. unfold candidates. rewrite Hs, Hsl. destruct (pt_target p); try contradiction; reflexivity.
Qed.

(* what is finally proposed for an unnamed point on the repaired tree: every compatible, admitted
   component of the enumeration, in enumeration order *)
Definition resolved (enum : list name) (pop : population) (h : name) (p : point) : fres :=
  filter_dependencies repaired pop h p (candidates enum pop p).

Definition providers_of (enum : list name) (pop : population) (h : name) (p : point) : list name :=
  filter (admitted pop h p) (filter_names pop (by_type_pred p) enum).

Lemma resolved_unnamed enum pop h p :
  (match pt_sel p with SByName _ => False | _ => True end) ->
  pt_target p <> TOther ->
  resolved enum pop h p =
  match providers_of enum pop h p with
  | [] => FErr
  | l => FOk (if pt_slice p then l else rank_single pop l)
  end.
Proof.
  intros Hsel Ht. unfold resolved. rewrite filter_dependencies_repaired by reflexivity.
  unfold survivors. rewrite (candidates_unnamed enum pop p Hsel Ht), remove_nil_map_Some. reflexivity.
Qed.

Lemma providers_of_In enum pop h p n :
  In n (providers_of enum pop h p) <->
  In n enum /\ n <> h /\ (exists c, get_comp pop n = Some c /\ by_type_pred p c = true)
  /\ match pt_quals p with Some qs => qual_ok pop qs n = true | None => True end.
Proof.
  unfold providers_of, admitted. rewrite filter_In, filter_names_In, andb_true_iff, negb_true_iff, Nat.eqb_neq.
  destruct (pt_quals p); intuition.
Qed.

Lemma providers_of_NoDup enum pop h p : NoDup enum -> NoDup (providers_of enum pop h p).
Proof. intros H. apply NoDup_filter, filter_names_NoDup, H. Qed.

Lemma register_all_NoDup rs : forall s, NoDup (map fst s) -> NoDup (map fst (fst (register_all s rs))).
Proof.
  induction rs as [|r rest IH]; intros s Hnd; cbn [register_all]; [exact Hnd|].
  pose proof (register_NoDup s r Hnd) as H1.
  destruct (register s r) as [s' o] eqn:E. cbn [fst] in H1.
  destruct o.
  - specialize (IH s' H1). destruct (register_all s' rest) as [s2 outs]. exact IH.
  - specialize (IH s' H1). destruct (register_all s' rest) as [s2 outs]. exact IH.
  - exact H1.
Qed.

Lemma register_all_q_NoDup rs : forall s, NoDup (map fst s) -> NoDup (map fst (fst (register_all_q s rs))).
Proof.
  induction rs as [|r rest IH]; intros s Hnd; cbn [register_all_q]; [exact Hnd|].
  pose proof (register_NoDup s r Hnd) as H1. destruct (register s r) as [s' o]. cbn [fst] in H1.
  specialize (IH s' H1). destruct (register_all_q s' rest) as [s2 outs]. exact IH.
Qed.

Lemma further_loop_total vt pop h ps inj :
  fix_c08 vt = true ->
  (exists out, further_loop vt pop h ps inj = LOk out) \/ further_loop vt pop h ps inj = LErr.
Proof.
  intros Hfix. rewrite (further_loop_pointwise vt pop h ps Hfix).
  destruct (pointwise vt pop h ps inj); [left; eexists; reflexivity|right; reflexivity].
Qed.
