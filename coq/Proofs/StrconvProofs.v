(* Lemmas about Model/Strconv.v used by C16/C17/C18: byte-string equality, the literal lemma
   (a plain text parses to itself as a string) and the round trip on canonical texts. *)
From Coq Require Import List NArith ZArith Bool Lia Arith.
From IocVerif Require Import Model.Strconv.
Import ListNotations.

Lemma beqb_eq : forall a b, beqb a b = true <-> a = b.
Proof.
  induction a as [|x a IH]; intros [|y b]; cbn [beqb]; split; intros H; try reflexivity; try discriminate.
  - apply andb_true_iff in H. destruct H as [Hx Hr]. apply N.eqb_eq in Hx. apply IH in Hr. now subst.
  - injection H as -> ->. rewrite N.eqb_refl. now apply IH.
Qed.

Lemma beqb_refl : forall a, beqb a a = true.
Proof. intros a. now apply beqb_eq. Qed.

Lemma byte_index_app_notin : forall c k d, byte_index c k = None ->
  byte_index c (k ++ c :: d) = Some (length k).
Proof.
  induction k as [|a k IH]; intros d H.
  - cbn [app byte_index length]. now rewrite N.eqb_refl.
  - cbn [app byte_index length] in H |- *. destruct (N.eqb c a); [discriminate|].
    destruct (byte_index c k) eqn:E; [discriminate|]. now rewrite (IH d eq_refl).
Qed.

Lemma firstn_len_app' : forall (A : Type) (p x : list A), firstn (length p) (p ++ x) = p.
Proof. induction p as [|a p IH]; intros x; cbn [length firstn app]; [destruct x; reflexivity|]. now rewrite IH. Qed.

Lemma skipn_S_len_app : forall (A : Type) (p : list A) c x, skipn (S (length p)) (p ++ c :: x) = x.
Proof. induction p as [|a p IH]; intros c x; [reflexivity|]. cbn [length app]. change (skipn (S (S (length p))) (a :: p ++ c :: x)) with (skipn (S (length p)) (p ++ c :: x)). apply IH. Qed.

(* strings.SplitN(key ++ ":" ++ d, ":", 2) = [key, d] when the key has no colon *)
Lemma split_first_app : forall c k d, byte_index c k = None -> split_first c (k ++ c :: d) = (k, Some d).
Proof.
  intros c k d H. unfold split_first. rewrite (byte_index_app_notin c k d H).
  now rewrite firstn_len_app', skipn_S_len_app.
Qed.

Lemma split_first_none : forall c k, byte_index c k = None -> split_first c k = (k, None).
Proof. intros c k H. unfold split_first. now rewrite H. Qed.

(* ---- the literal lemma ------------------------------------------------------------- *)

Lemma parse_any_default : forall c r,
  beqb (map lower_ascii (c :: r)) lit_true = false ->
  beqb (map lower_ascii (c :: r)) lit_false = false ->
  is_number (c :: r) = false -> is_map (c :: r) = false -> is_slice (c :: r) = false ->
  is_quoted (c :: r) = false ->
  parse_any (c :: r) = Ok (VStr (c :: r)).
Proof.
  intros c r H1 H2 H3 H4 H5 H6. unfold parse_any. cbn [length parse_any_fuel].
  rewrite H1, H2, H3, H4, H5, H6. reflexivity.
Qed.

Lemma all_digits1_head : forall c r, is_digit c = false -> all_digits1 (c :: r) = false.
Proof. intros c r H. unfold all_digits1. cbn [forallb]. now rewrite H. Qed.

Lemma is_number_plain : forall c r,
  N.eqb c b_plus = false -> N.eqb c b_minus = false -> is_digit c = false -> is_number (c :: r) = false.
Proof.
  intros c r Hp Hm Hd. unfold is_number, unsign. rewrite Hm, Hp. cbn [snd].
  unfold split_first. cbn [byte_index]. destruct (N.eqb b_dot c) eqn:Edot.
  - cbn [firstn]. reflexivity.
  - destruct (byte_index b_dot r) as [k|]; cbn [option_map].
    + cbn [firstn]. rewrite all_digits1_head by exact Hd. reflexivity.
    + apply all_digits1_head, Hd.
Qed.

Theorem plain_parse : forall s, plain s = true -> parse_any s = Ok (VStr s).
Proof.
  intros [|c r] H; [reflexivity|].
  unfold plain in H. apply andb_true_iff in H. destruct H as [H Hmap].
  apply andb_true_iff in H. destruct H as [H Hfalse].
  apply andb_true_iff in H. destruct H as [Hc Htrue].
  apply negb_true_iff in Hc, Htrue, Hfalse, Hmap.
  repeat (apply orb_false_iff in Hc; destruct Hc as [Hc ?]).
  apply parse_any_default; try assumption.
  - apply is_number_plain; assumption.
  - unfold is_map. rewrite <- andb_assoc, Hmap, andb_false_r.
    unfold starts_with. rewrite (N.eqb_sym b_lbrace c).
    match goal with H : N.eqb c b_lbrace = false |- _ => rewrite H end.
    now rewrite !andb_false_r.
  - unfold is_slice, starts_with. rewrite (N.eqb_sym b_lbrack c).
    match goal with H : N.eqb c b_lbrack = false |- _ => rewrite H end.
    now rewrite andb_false_r.
  - unfold is_quoted, starts_with. rewrite (N.eqb_sym b_squote c), (N.eqb_sym b_dquote c), Hc.
    match goal with H : N.eqb c b_dquote = false |- _ => rewrite H end. reflexivity.
Qed.

Theorem plain_roundtrip : forall s, plain s = true ->
  rbind (parse_any s) format_any = Ok s.
Proof. intros s H. rewrite (plain_parse s H). reflexivity. Qed.

Theorem canonical_text_spec : forall s, canonical_text s = true ->
  exists v, parse_any s = Ok v /\ format_any v = Ok s.
Proof.
  intros s H. unfold canonical_text in H.
  destruct (parse_any s) as [v| |]; try discriminate.
  destruct (format_any v) as [t| |] eqn:E; try discriminate.
  apply beqb_eq in H. subst t. exists v. auto.
Qed.

Lemma plain_canonical : forall s, plain s = true -> canonical_text s = true.
Proof. intros s H. unfold canonical_text. rewrite (plain_parse s H). cbn [format_any]. apply beqb_refl. Qed.
