(* Registration and order: whether SetComponents refuses a set of components (two different instances under one
   name) does not depend on the order in which they are registered.  [refused] is the model of the real
   RegisterSingleton loop (it stops at the first panic, so WHICH registration panics does depend on the order);
   it equals [has_clash], which looks at the requests as a set. *)
From Coq Require Import List Arith Bool Permutation.
From IocVerif Require Import Model.SingletonRegistry.
Import ListNotations.

Definition pair_of (r : reg_req) : nat * nat := (reg_name r, rq_inst r).

(* two entries with one name and different instances *)
Definition conflict (l : list (nat * nat)) : Prop :=
  exists p q, In p l /\ In q l /\ fst p = fst q /\ snd p <> snd q.

Lemma sfind_some n s i : sfind n s = Some i -> In (n, i) s.
Proof.
  induction s as [|[m j] r IH]; cbn [sfind]; [discriminate|].
  destruct (Nat.eqb m n) eqn:E; intros H.
  - apply Nat.eqb_eq in E. injection H as H. subst. left. reflexivity.
  - right. apply IH. exact H.
Qed.

Lemma sfind_none n s : sfind n s = None -> forall i, ~ In (n, i) s.
Proof.
  induction s as [|[m j] r IH]; cbn [sfind]; intros H i Hin; [exact Hin|].
  destruct (Nat.eqb m n) eqn:E; [discriminate|].
  destruct Hin as [Heq|Hin].
  - injection Heq as H1 H2. subst. rewrite Nat.eqb_refl in E. discriminate.
  - exact (IH H i Hin).
Qed.

Lemma conflict_incl l l' : (forall p, In p l -> In p l') -> conflict l -> conflict l'.
Proof.
  intros Hinc (p & q & Hp & Hq & Hn & Hi). exists p, q. repeat split; auto.
Qed.

Lemma refused_from_spec rs : forall s,
  ~ conflict s -> (refused_from s rs = true <-> conflict (s ++ map pair_of rs)).
Proof.
  unfold refused_from.
  induction rs as [|r rest IH]; intros s Hs.
  - cbn [register_all snd existsb map]. rewrite app_nil_r. split; [discriminate|]. intros H. destruct (Hs H).
  - cbn [register_all map]. unfold register.
    destruct (sfind (reg_name r) s) as [i|] eqn:E.
    + destruct (Nat.eqb i (rq_inst r)) eqn:Ei.
      * (* the same instance again *)
        apply Nat.eqb_eq in Ei. subst i. apply sfind_some in E.
        specialize (IH s Hs).
        destruct (register_all s rest) as [s2 outs] eqn:Er. cbn [snd existsb is_panic orb] in *.
        rewrite IH. split; apply conflict_incl; intros p Hp; apply in_app_or in Hp; apply in_or_app.
        -- destruct Hp as [Hp|Hp]; [left; exact Hp|right; right; exact Hp].
        -- destruct Hp as [Hp|[Hp|Hp]]; [left; exact Hp| |right; exact Hp].
           left. rewrite <- Hp. exact E.
      * (* a different instance under a taken name *)
        cbn [snd existsb is_panic orb]. split; [intros _|reflexivity].
        apply sfind_some in E. apply Nat.eqb_neq in Ei.
        exists (reg_name r, i), (pair_of r). repeat split.
        -- apply in_or_app. left. exact E.
        -- apply in_or_app. right. left. reflexivity.
        -- exact Ei.
    + (* a new name *)
      assert (Hs' : ~ conflict (s ++ [pair_of r])).
      { intros (p & q & Hp & Hq & Hn & Hi).
        apply in_app_or in Hp. apply in_app_or in Hq.
        destruct Hp as [Hp|[Hp|[]]]; destruct Hq as [Hq|[Hq|[]]].
        - apply Hs. exists p, q. repeat split; assumption.
        - subst q. destruct p as [pn pi_]. cbn [fst pair_of] in Hn. subst pn.
          exact (sfind_none _ _ E pi_ Hp).
        - subst p. destruct q as [qn qi]. cbn [fst pair_of] in Hn. subst qn.
          exact (sfind_none _ _ E qi Hq).
        - subst p q. apply Hi. reflexivity. }
      specialize (IH (s ++ [pair_of r]) Hs').
      change (s ++ [(reg_name r, rq_inst r)]) with (s ++ [pair_of r]).
      destruct (register_all (s ++ [pair_of r]) rest) as [s2 outs] eqn:Er.
      cbn [snd existsb is_panic orb] in *. rewrite IH. rewrite <- app_assoc. reflexivity.
Qed.

Lemma no_conflict_nil : ~ conflict [].
Proof. intros (p & q & Hp & _). exact Hp. Qed.

Lemma refused_spec rs : refused rs = true <-> conflict (map pair_of rs).
Proof. unfold refused. rewrite (refused_from_spec rs [] no_conflict_nil). reflexivity. Qed.

Lemma has_clash_spec rs : has_clash rs = true <-> conflict (map pair_of rs).
Proof.
  unfold has_clash. rewrite existsb_exists. split.
  - intros (a & Ha & Hb). apply existsb_exists in Hb. destruct Hb as (b & Hb & Hc).
    unfold clash in Hc. apply andb_true_iff in Hc. destruct Hc as [Hn Hi].
    apply Nat.eqb_eq in Hn. apply negb_true_iff in Hi. apply Nat.eqb_neq in Hi.
    exists (pair_of a), (pair_of b). repeat split; try (apply in_map; assumption); assumption.
  - intros (p & q & Hp & Hq & Hn & Hi).
    apply in_map_iff in Hp. destruct Hp as (a & Hpa & Ha).
    apply in_map_iff in Hq. destruct Hq as (b & Hqb & Hb). subst p q.
    exists a. split; [exact Ha|]. apply existsb_exists. exists b. split; [exact Hb|].
    unfold clash. cbn [pair_of fst snd] in Hn, Hi. apply andb_true_iff. split.
    + apply Nat.eqb_eq. exact Hn.
    + apply negb_true_iff. apply Nat.eqb_neq. exact Hi.
Qed.

Lemma refused_is_has_clash rs : refused rs = has_clash rs.
Proof.
  destruct (refused rs) eqn:E1; destruct (has_clash rs) eqn:E2; try reflexivity.
  - apply refused_spec in E1. apply has_clash_spec in E1. congruence.
  - apply has_clash_spec in E2. apply refused_spec in E2. congruence.
Qed.

Lemma conflict_perm l l' : Permutation l l' -> conflict l -> conflict l'.
Proof. intros HP. apply conflict_incl. intros p. apply Permutation_in. exact HP. Qed.

Lemma refused_perm rs rs' : Permutation rs rs' -> refused rs = refused rs'.
Proof.
  intros HP.
  assert (HP' : Permutation (map pair_of rs) (map pair_of rs')) by (apply Permutation_map; exact HP).
  destruct (refused rs) eqn:E1; destruct (refused rs') eqn:E2; try reflexivity.
  - apply refused_spec in E1. apply (conflict_perm _ _ HP') in E1. apply refused_spec in E1. congruence.
  - apply refused_spec in E2. apply (conflict_perm _ _ (Permutation_sym HP')) in E2. apply refused_spec in E2. congruence.
Qed.

(* ---------- the quiet log level: duplicates are dropped, not refused ------------------------------------------ *)

(* whoever registers a name first keeps it, at either level *)
Lemma register_keeps s r n i : sfind n s = Some i -> sfind n (fst (register s r)) = Some i.
Proof.
  intros H. unfold register. destruct (sfind (reg_name r) s) as [j|] eqn:E.
  - destruct (Nat.eqb j (rq_inst r)); exact H.
  - cbn [fst]. clear E. induction s as [|[m k] t IH]; cbn [sfind app] in *; [discriminate|].
    destruct (Nat.eqb m n); [exact H|apply IH; exact H].
Qed.

Lemma register_all_q_keeps rs : forall s n i, sfind n s = Some i -> sfind n (fst (register_all_q s rs)) = Some i.
Proof.
  induction rs as [|r rest IH]; intros s n i H; cbn [register_all_q]; [exact H|].
  pose proof (register_keeps s r n i H) as H1. destruct (register s r) as [s' o]. cbn [fst] in H1.
  specialize (IH s' n i H1). destruct (register_all_q s' rest) as [s2 outs]. exact IH.
Qed.

(* without a refusal the two levels do exactly the same *)
Lemma register_all_q_agrees rs : forall s, refused_from s rs = false -> register_all_q s rs = register_all s rs.
Proof.
  unfold refused_from. induction rs as [|r rest IH]; intros s H; cbn [register_all_q register_all] in *; [reflexivity|].
  destruct (register s r) as [s' o] eqn:E. destruct o.
  - destruct (register_all s' rest) as [s2 outs] eqn:E2. cbn [snd existsb is_panic orb] in H.
    rewrite (IH s'); [rewrite E2; reflexivity|rewrite E2; exact H].
  - destruct (register_all s' rest) as [s2 outs] eqn:E2. cbn [snd existsb is_panic orb] in H.
    rewrite (IH s'); [rewrite E2; reflexivity|rewrite E2; exact H].
  - cbn [snd existsb is_panic orb] in H. discriminate.
Qed.
