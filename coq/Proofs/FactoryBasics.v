(* Basic lemmas about Model/Registry.v and the state updates of Model/Factory.v:
   association lists, what each helper does to the registry part of the state, and which
   failure kinds the non-recursive helpers can produce. Used by the termination proof (C02),
   the no-panic proof (C09) and the version invariant (C01, C03). *)
From Coq Require Import List Arith Bool Lia.
From IocVerif Require Import Model.Registry Model.Resolve Model.Factory.
Import ListNotations.

(* ---------- association lists ------------------------------------------------------------------ *)

Lemma alookup_aremove_eq {A} n (l : list (name * A)) : alookup n (aremove n l) = None.
Proof.
  induction l as [|[m a] r IH]; cbn [aremove alookup]; [reflexivity|].
  destruct (Nat.eqb_spec m n) as [->|Hne]; [exact IH|].
  cbn [alookup]. destruct (Nat.eqb_spec m n); [contradiction|exact IH].
Qed.

Lemma alookup_aremove_neq {A} n m (l : list (name * A)) : m <> n -> alookup m (aremove n l) = alookup m l.
Proof.
  intros Hne. induction l as [|[k a] r IH]; cbn [aremove alookup]; [reflexivity|].
  destruct (Nat.eqb_spec k n) as [->|Hkn].
  - destruct (Nat.eqb_spec n m); [subst; contradiction|exact IH].
  - cbn [alookup]. destruct (Nat.eqb_spec k m); [reflexivity|exact IH].
Qed.

Lemma alookup_aset_eq {A} n (a : A) l : alookup n (aset n a l) = Some a.
Proof. unfold aset. cbn [alookup]. rewrite Nat.eqb_refl. reflexivity. Qed.

Lemma alookup_aset_neq {A} n m (a : A) l : m <> n -> alookup m (aset n a l) = alookup m l.
Proof.
  intros Hne. unfold aset. cbn [alookup]. destruct (Nat.eqb_spec n m); [subst; contradiction|].
  apply alookup_aremove_neq. exact Hne.
Qed.

Lemma mem_In n s : mem n s = true <-> In n s.
Proof.
  unfold mem. rewrite existsb_exists. split.
  - intros [x [Hx He]]. apply Nat.eqb_eq in He. subst. exact Hx.
  - intros H. exists n. split; [exact H|apply Nat.eqb_refl].
Qed.

Lemma set_remove_In n m s : In m (set_remove n s) <-> In m s /\ m <> n.
Proof. unfold set_remove. rewrite filter_In, negb_true_iff, Nat.eqb_neq. tauto. Qed.

Lemma set_add_In n m s : In m (set_add n s) <-> m = n \/ In m s.
Proof.
  unfold set_add. destruct (mem n s) eqn:E.
  - apply mem_In in E. split; [auto|intros [->|H]; assumption].
  - cbn [In]. split; intros [H|H]; auto.
Qed.

(* ---------- "cached": the name has an entry in some cache level --------------------------------- *)

Definition isSome {A} (o : option A) : bool := match o with Some _ => true | None => false end.

Definition cached (r : rstate) (n : name) : bool :=
  isSome (alookup n (L1 r)) || isSome (alookup n (L2 r)) || isSome (alookup n (L3 r)).

Definition mono (r r' : rstate) : Prop := forall m, cached r m = true -> cached r' m = true.

Lemma mono_refl r : mono r r.
Proof. intros m H; exact H. Qed.
Lemma mono_trans r1 r2 r3 : mono r1 r2 -> mono r2 r3 -> mono r1 r3.
Proof. intros H1 H2 m H. apply H2, H1, H. Qed.

Lemma cached_add_factory r n f : cached (add_factory r n f) n = true.
Proof. unfold cached, add_factory. cbn [L1 L2 L3]. rewrite alookup_aset_eq. cbn. rewrite !orb_true_r. reflexivity. Qed.

Lemma mono_add_factory r n f : mono r (add_factory r n f).
Proof.
  intros m H. destruct (Nat.eq_dec m n) as [->|Hne]; [apply cached_add_factory|].
  unfold cached, add_factory in *. cbn [L1 L2 L3] in *. rewrite (alookup_aset_neq n m f _ Hne). exact H.
Qed.

Lemma mono_get_promote r n v : mono r (get_promote r n v).
Proof.
  intros m H. unfold cached, get_promote in *. cbn [L1 L2 L3] in *.
  destruct (Nat.eq_dec m n) as [->|Hne].
  - rewrite alookup_aset_eq. cbn. rewrite orb_true_r. reflexivity.
  - rewrite (alookup_aset_neq n m v _ Hne), (alookup_aremove_neq n m _ Hne). exact H.
Qed.

Lemma mono_end_create_ok r n v : mono r (end_create_ok r n v).
Proof.
  intros m H. unfold cached, end_create_ok, add_singleton in *. cbn [L1 L2 L3] in *.
  destruct (Nat.eq_dec m n) as [->|Hne].
  - rewrite alookup_aset_eq. reflexivity.
  - rewrite (alookup_aset_neq n m v _ Hne), !(alookup_aremove_neq n m _ Hne). exact H.
Qed.

Lemma cached_creating_irrelevant l1 l2 l3 c c' m :
  cached (mkR l1 l2 l3 c) m = cached (mkR l1 l2 l3 c') m.
Proof. reflexivity. Qed.

(* number of defined names without any cache entry: the termination measure *)
Definition ucount (pop : population) (r : rstate) : nat :=
  length (filter (fun m => negb (cached r m)) (names_of pop)).

Lemma filter_len_mono (f g : name -> bool) l :
  (forall x, g x = true -> f x = true) -> length (filter g l) <= length (filter f l).
Proof.
  intros H. induction l as [|a r IH]; cbn [filter]; [lia|].
  destruct (g a) eqn:Eg.
  - rewrite (H a Eg). cbn [length]. lia.
  - destruct (f a); cbn [length]; lia.
Qed.

Lemma filter_len_strict (f g : name -> bool) l n :
  (forall x, g x = true -> f x = true) -> In n l -> f n = true -> g n = false ->
  length (filter g l) < length (filter f l).
Proof.
  intros H Hin Hf Hg. induction l as [|a r IH]; [contradiction|]. cbn [filter].
  destruct Hin as [->|Hin].
  - rewrite Hf, Hg. cbn [length]. pose proof (filter_len_mono f g r H). lia.
  - specialize (IH Hin). destruct (g a) eqn:Eg.
    + rewrite (H a Eg). cbn [length]. lia.
    + destruct (f a); cbn [length]; lia.
Qed.

Lemma ucount_mono pop r r' : mono r r' -> ucount pop r' <= ucount pop r.
Proof.
  intros Hm. unfold ucount. apply filter_len_mono. intros x Hx.
  apply negb_true_iff in Hx. apply negb_true_iff.
  destruct (cached r x) eqn:E; [|reflexivity]. rewrite (Hm x E) in Hx. discriminate.
Qed.

Lemma names_of_In pop n : In n (names_of pop) <-> n < length pop.
Proof. unfold names_of. rewrite in_seq. lia. Qed.

Lemma get_comp_lt pop n c : get_comp pop n = Some c -> n < length pop.
Proof. unfold get_comp. intros H. apply nth_error_Some. congruence. Qed.

Lemma ucount_strict pop r r' n :
  mono r r' -> n < length pop -> cached r n = false -> cached r' n = true ->
  ucount pop r' < ucount pop r.
Proof.
  intros Hm Hn H0 H1. unfold ucount. apply (filter_len_strict _ _ _ n).
  - intros x Hx. apply negb_true_iff in Hx. apply negb_true_iff.
    destruct (cached r x) eqn:E; [|reflexivity]. rewrite (Hm x E) in Hx. discriminate.
  - apply names_of_In. exact Hn.
  - rewrite H0. reflexivity.
  - rewrite H1. reflexivity.
Qed.

(* ---------- state updates leave the registry alone --------------------------------------------- *)

Lemma reg_add_log st e : reg (add_log st e) = reg st. Proof. reflexivity. Qed.
Lemma reg_set_injs st h i : reg (set_injs st h i) = reg st. Proof. reflexivity. Qed.
Lemma reg_write_field st h k vs : reg (write_field st h k vs) = reg st. Proof. reflexivity. Qed.
Lemma reg_new_proxy st n : reg (fst (new_proxy st n)) = reg st. Proof. reflexivity. Qed.
Lemma reg_note_early st p c k : reg (note_early st p c k) = reg st. Proof. reflexivity. Qed.
Lemma reg_set_active st a : reg (set_active st a) = reg st. Proof. reflexivity. Qed.
Lemma reg_set_scanned st : reg (set_scanned st) = reg st. Proof. reflexivity. Qed.
Lemma reg_set_reg st r : reg (set_reg st r) = r. Proof. reflexivity. Qed.

(* ---------- failure kinds ------------------------------------------------------------------------- *)

Definition nofuel {A} (r : res A) : Prop := match r with Fail FFuel _ => False | _ => True end.
Definition nopanic {A} (r : res A) : Prop := match r with Fail FPanic _ => False | _ => True end.

(* a helper that does not touch the registry and fails only with error values *)
Definition quiet1 (st : fstate) (r : res fstate) : Prop :=
  match r with
  | Ok st' => reg st' = reg st
  | Fail (FErr _) _ => True
  | Fail _ _ => False
  end.
Definition quiet2 {X} (st : fstate) (r : res (fstate * X)) : Prop :=
  match r with
  | Ok (st', _) => reg st' = reg st
  | Fail (FErr _) _ => True
  | Fail _ _ => False
  end.

Lemma early_chain_quiet s n ps : forall st cur, quiet2 st (early_chain s n ps st cur).
Proof.
  induction ps as [|p r IH]; intros st cur; cbn [early_chain]; [reflexivity|].
  destruct (proc_of (s_pop s) p) as [[k|early after]|]; [apply IH| |apply IH].
  destruct (faulty s p PhEarly n); [exact I|].
  destruct (alookup n early) as [[|]|].
  - exact (IH (add_log st (EvEarly p n)) cur).
  - cbn [new_proxy].
    exact (IH (note_early
                 (mkF (reg (add_log st (EvEarly p n))) (flds (add_log st (EvEarly p n)))
                      (deps (add_log st (EvEarly p n))) (injs (add_log st (EvEarly p n)))
                      (S (nextp (add_log st (EvEarly p n)))) (earlymade (add_log st (EvEarly p n)))
                      (active (add_log st (EvEarly p n))) (log (add_log st (EvEarly p n)))
                      (scanned (add_log st (EvEarly p n))))
                 p n (nextp (add_log st (EvEarly p n))))
              (VProxy n (nextp (add_log st (EvEarly p n))))).
  - exact (IH (add_log st (EvEarly p n)) cur).
Qed.

Lemma quiet1_of_reg st0 st r : reg st = reg st0 -> quiet1 st r -> quiet1 st0 r.
Proof. intros H. unfold quiet1. destruct r as [st'|[e| |] st']; try tauto. intros H'; congruence. Qed.
Lemma quiet2_of_reg {X} st0 st (r : res (fstate * X)) : reg st = reg st0 -> quiet2 st r -> quiet2 st0 r.
Proof. intros H. unfold quiet2. destruct r as [[st' x]|[e| |] st']; try tauto. intros H'; congruence. Qed.

Lemma pipeline_quiet vt s n c ps : forall st inj, quiet2 st (pipeline vt s n c ps st inj).
Proof.
  induction ps as [|p r IH]; intros st inj; cbn [pipeline]; [reflexivity|].
  destruct (proc_of (s_pop s) p) as [[[]|early after]|]; try apply IH.
  - destruct (cfg_stage c true); [exact I|apply IH].
  - destruct (cfg_stage c false); [exact I|apply IH].
  - destruct (further_loop vt (s_pop s) n (c_points c) inj); [apply IH|exact I].
Qed.

Lemma pipeline_state vt s n c ps : forall st inj st' inj',
  pipeline vt s n c ps st inj = Ok (st', inj') -> st' = st.
Proof.
  induction ps as [|p r IH]; intros st inj st' inj'; cbn [pipeline]; [intros H; inversion H; reflexivity|].
  destruct (proc_of (s_pop s) p) as [[[]|early after]|]; try apply IH.
  - destruct (cfg_stage c true); [discriminate|apply IH].
  - destruct (cfg_stage c false); [discriminate|apply IH].
  - destruct (further_loop vt (s_pop s) n (c_points c) inj); [apply IH|discriminate].
Qed.

(* Property.Inject: quiet on the repaired tree; the unrepaired one may panic *)
Lemma inject_quiet vt s st h k p vs : fix_c07 vt = true -> quiet1 st (inject vt s st h k p vs).
Proof.
  intros Hfix. unfold inject. destruct vs as [|v0 r]; [destruct (pt_required p); [exact I|reflexivity]|].
  destruct (filter (fun v => negb (is_self h v)) (v0 :: r)) as [|w t]; [destruct (pt_required p); [exact I|reflexivity]|].
  destruct (forallb _ _); [reflexivity|]. rewrite Hfix. destruct (pt_required p); [exact I|reflexivity].
Qed.

Lemma inject_nofuel vt s st h k p vs : nofuel (inject vt s st h k p vs).
Proof.
  unfold inject. destruct vs as [|v0 r]; [destruct (pt_required p); exact I|].
  destruct (filter (fun v => negb (is_self h v)) (v0 :: r)) as [|w t]; [destruct (pt_required p); exact I|].
  destruct (forallb _ _); [exact I|]. destruct (fix_c07 vt); [destruct (pt_required p); exact I|exact I].
Qed.

Lemma inject_reg vt s st h k p vs st' : inject vt s st h k p vs = Ok st' -> reg st' = reg st.
Proof.
  unfold inject. destruct vs as [|v0 r]; [destruct (pt_required p); [discriminate|intros H; inversion H; reflexivity]|].
  destruct (filter (fun v => negb (is_self h v)) (v0 :: r)) as [|w t];
    [destruct (pt_required p); [discriminate|intros H; inversion H; reflexivity]|].
  destruct (forallb _ _); [intros H; inversion H; reflexivity|].
  destruct (fix_c07 vt); [destruct (pt_required p); [discriminate|intros H; inversion H; reflexivity]|discriminate].
Qed.

Lemma before_chain_quiet s n c ps : forall st0 st, reg st = reg st0 -> quiet1 st0 (before_chain s n c ps st).
Proof.
  induction ps as [|p r IH]; intros st0 st Hr; cbn [before_chain]; [exact Hr|].
  destruct (proc_of (s_pop s) p) as [[k|early after]|]; [apply IH; exact Hr| |apply IH; exact Hr].
  destruct (faulty s p PhBefore n); [exact I|apply IH; exact Hr].
Qed.

Lemma after_chain_quiet s n ps : forall st0 st cur, reg st = reg st0 -> quiet2 st0 (after_chain s n ps st cur).
Proof.
  induction ps as [|p r IH]; intros st0 st cur Hr; cbn [after_chain]; [exact Hr|].
  destruct (proc_of (s_pop s) p) as [[k|early after]|]; [apply IH; exact Hr| |apply IH; exact Hr].
  destruct (faulty s p PhAfter n); [exact I|].
  destruct (alookup n after) as [[| | |]|]; try (apply IH; exact Hr).
  - destruct (klookup (p, n) (earlymade (add_log st (EvAfter p n)))); apply IH; exact Hr.
  - destruct (klookup (p, n) (earlymade (add_log st (EvAfter p n)))); apply IH; exact Hr.
Qed.

Lemma init_methods_quiet n c st0 st : reg st = reg st0 -> quiet1 st0 (init_methods n c st).
Proof.
  intros Hr. unfold init_methods.
  destruct (c_aps c) as [[|]|]; [exact I| |]; (destruct (c_init c) as [[|]|]; [exact I|exact Hr|exact Hr]).
Qed.

Lemma initialize_quiet s st n c : quiet2 st (initialize s st n c).
Proof.
  unfold initialize.
  pose proof (before_chain_quiet s n c (active st) st st eq_refl) as Hb.
  destruct (before_chain s n c (active st) st) as [st1|[e| |] st1]; try exact Hb; cbn [quiet1] in Hb.
  pose proof (init_methods_quiet n c st st1 Hb) as Hi.
  destruct (init_methods n c st1) as [st2|[e| |] st2]; try exact Hi; cbn [quiet1] in Hi.
  apply after_chain_quiet. exact Hi.
Qed.

Lemma early_reference_quiet s st n : quiet2 st (early_reference s st n).
Proof. apply early_chain_quiet. Qed.

(* GetSingleton with the early factory computed *)
Lemma get_singleton_spec s st n early :
  match get_singleton s st n early with
  | Ok (st', ov) =>
    mono (reg st) (reg st') /\ creating (reg st') = creating (reg st) /\
    match ov with
    | None => reg st' = reg st /\ get_lookup (reg st) n early = Miss
    | Some _ => True
    end
  | Fail (FErr _) _ => True
  | Fail _ _ => False
  end.
Proof.
  unfold get_singleton. destruct (get_lookup (reg st) n early) eqn:E.
  - split; [apply mono_refl|split; [reflexivity|exact I]].
  - pose proof (early_reference_quiet s st n) as Hq.
    destruct (early_reference s st n) as [[st1 v]|[e| |] st1]; try exact Hq. cbn [quiet2] in Hq.
    cbn [reg set_reg]. rewrite Hq. split; [apply mono_get_promote|split; [reflexivity|exact I]].
  - split; [apply mono_refl|split; [reflexivity|split; reflexivity]].
Qed.

Lemma get_lookup_miss_uncached r n : get_lookup r n true = Miss -> cached r n = false.
Proof.
  unfold get_lookup, cached.
  destruct (alookup n (L1 r)); [discriminate|]. destruct (alookup n (L2 r)); [discriminate|].
  destruct (alookup n (L3 r)); [discriminate|]. reflexivity.
Qed.

Lemma FactoryBasics_get_lookup_false r n : get_lookup r n false =
  match (match alookup n (L1 r) with Some v => Some v | None => alookup n (L2 r) end) with
  | Some v => Hit v | None => Miss end.
Proof. unfold get_lookup. destruct (alookup n (L1 r)); [reflexivity|]. destruct (alookup n (L2 r)); reflexivity. Qed.

Lemma field_of_write_other st h k vs h' k' : h' <> h -> field_of (write_field st h k vs) h' k' = field_of st h' k'.
Proof.
  intros Hne. unfold field_of, write_field. cbn [flds klookup]. unfold key_eqb. cbn [fst snd].
  destruct (Nat.eqb_spec h h'); [subst; contradiction|]. reflexivity.
Qed.
