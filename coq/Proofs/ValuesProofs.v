(* Lemmas about Model/Values.v for C17:
     - induction principles for the nested inductives ftype and cval
     - prefix binding: a value that already has the field's type is decoded unchanged (embed)
     - decimal digit arithmetic: FormatInt / ParseFloat / FormatFloat 'f' on integers
     - encoding/json print -> parse round trip on the safe fragment (ints come back as floats)
     - decoding the floatified value gives the same field wherever no integer reaches an interface
     - the three routes agree on [safe]; key-level and prop-level liftings *)
From Coq Require Import List NArith ZArith Bool Lia Arith DecimalN DecimalPos DecimalFacts Decimal.
From IocVerif Require Import Model.Values Proofs.StrconvProofs Proofs.PlaceholderProofs.
Import ListNotations.

(* ---- induction principles ---------------------------------------------------------------- *)

Section FtypeInd.
  Variable P : ftype -> Prop.
  Hypothesis HString : P TString.
  Hypothesis HBool : P TBool.
  Hypothesis HInt : forall b, P (TInt b).
  Hypothesis HUint : forall b, P (TUint b).
  Hypothesis HFloat : forall b, P (TFloat b).
  Hypothesis HAny : P TAny.
  Hypothesis HPtr : forall t, P t -> P (TPtr t).
  Hypothesis HSlice : forall t, P t -> P (TSlice t).
  Hypothesis HMap : forall t, P t -> P (TMap t).
  Hypothesis HStruct : forall fs, Forall (fun nt : bytes * ftype => P (snd nt)) fs -> P (TStruct fs).

  Fixpoint ftype_ind' (T : ftype) : P T :=
    match T with
    | TString => HString
    | TBool => HBool
    | TInt b => HInt b
    | TUint b => HUint b
    | TFloat b => HFloat b
    | TAny => HAny
    | TPtr t => HPtr t (ftype_ind' t)
    | TSlice t => HSlice t (ftype_ind' t)
    | TMap t => HMap t (ftype_ind' t)
    | TStruct fs =>
      HStruct fs ((fix go (fs : list (bytes * ftype)) : Forall (fun nt : bytes * ftype => P (snd nt)) fs :=
                     match fs with
                     | [] => Forall_nil _
                     | nt :: r => Forall_cons nt (ftype_ind' (snd nt)) (go r)
                     end) fs)
    end.
End FtypeInd.

Section CvalInd.
  Variable P : cval -> Prop.
  Hypothesis HNull : P VNull.
  Hypothesis HBool : forall b, P (VBool b).
  Hypothesis HInt : forall z, P (VInt z).
  Hypothesis HDec : forall m e, P (VDec m e).
  Hypothesis HStr : forall s, P (VStr s).
  Hypothesis HList : forall l, Forall P l -> P (VList l).
  Hypothesis HMap : forall kvs, Forall (fun kv : bytes * cval => P (snd kv)) kvs -> P (VMap kvs).

  Fixpoint cval_ind' (v : cval) : P v :=
    match v with
    | VNull => HNull
    | VBool b => HBool b
    | VInt z => HInt z
    | VDec m e => HDec m e
    | VStr s => HStr s
    | VList l =>
      HList l ((fix go (l : list cval) : Forall P l :=
                  match l with [] => Forall_nil _ | x :: r => Forall_cons x (cval_ind' x) (go r) end) l)
    | VMap kvs =>
      HMap kvs ((fix go (kvs : list (bytes * cval)) : Forall (fun kv : bytes * cval => P (snd kv)) kvs :=
                   match kvs with [] => Forall_nil _ | kv :: r => Forall_cons kv (cval_ind' (snd kv)) (go r) end) kvs)
    end.
End CvalInd.

(* ---- small arithmetic ------------------------------------------------------------------------ *)

Local Open Scope Z_scope.

Lemma wrap_int_id : forall z, int_ok z = true -> wrap_int 64 z = z.
Proof.
  intros z H. unfold int_ok in H. apply andb_true_iff in H. destruct H as [Hlo Hhi].
  apply Z.leb_le in Hlo, Hhi. unfold wrap_int.
  change (2 ^ 64) with 18446744073709551616. change (2 ^ (64 - 1)) with 9223372036854775808.
  destruct (Z_lt_le_dec z 0) as [Hneg|Hpos].
  - assert (Hm : z mod 18446744073709551616 = z + 18446744073709551616).
    { symmetry. apply (Z.mod_unique z 18446744073709551616 (-1)); lia. }
    rewrite Hm. destruct (Z.ltb_spec (z + 18446744073709551616) 9223372036854775808); lia.
  - rewrite Z.mod_small by lia. destruct (Z.ltb_spec z 9223372036854775808); lia.
Qed.

(* ---- prefix binding: values already of the field's type ----------------------------------------- *)

Lemma res_all_of_opt_all : forall (A B : Type) (f : A -> res B) (g : A -> option B) (l : list A) (fl : list B),
  (forall x y, In x l -> g x = Some y -> f x = Ok y) ->
  opt_all (map g l) = Some fl -> res_all (map f l) = Ok fl.
Proof.
  intros A B f g. induction l as [|x l IH]; intros fl Hfg H.
  - cbn in H. injection H as <-. reflexivity.
  - cbn [map opt_all] in H. destruct (g x) as [y|] eqn:Ex; [|discriminate].
    destruct (opt_all (map g l)) as [ys|] eqn:El; [|discriminate]. injection H as <-.
    cbn [map res_all]. rewrite (Hfg x y (or_introl eq_refl) Ex).
    rewrite (IH ys (fun x0 y0 Hin => Hfg x0 y0 (or_intror Hin)) eq_refl). reflexivity.
Qed.

Lemma field_lookup_exact : forall n kvs fv, map_get n kvs = Some fv -> field_lookup n kvs = Some fv.
Proof. intros n kvs fv H. unfold field_lookup. now rewrite H. Qed.

Theorem embed_decode : forall T v f, embed T v = Some f -> decode_weak v T = Ok f.
Proof.
  unfold decode_weak.
  induction T as [| | b | b | b | | t IH | t IH | t IH | fs IH] using ftype_ind'; intros v f H.
  - destruct v; try discriminate. injection H as <-. reflexivity.
  - destruct v; try discriminate. injection H as <-. reflexivity.
  - destruct v; try discriminate. cbn [embed] in H.
    destruct (b =? 64) eqn:Eb; [|discriminate]. destruct (int_ok z) eqn:Ez; [|discriminate].
    cbn [andb] in H. injection H as <-. apply Z.eqb_eq in Eb. subst b.
    cbn [dw to_int]. now rewrite (wrap_int_id z Ez).
  - discriminate.
  - destruct v; try discriminate. cbn [embed] in H. destruct (b =? 64); [|discriminate].
    injection H as <-. reflexivity.
  - destruct v; try discriminate; injection H as <-; reflexivity.
  - destruct v; try discriminate; cbn [embed] in H;
      (destruct (embed t _) as [a|] eqn:Ea; [|discriminate]); injection H as <-;
      cbn [dw]; rewrite (IH _ _ Ea); reflexivity.
  - destruct v; try discriminate. cbn [embed] in H.
    destruct (opt_all (map (embed t) l)) as [fl|] eqn:El; [|discriminate]. injection H as <-.
    cbn [dw]. rewrite (res_all_of_opt_all _ _ (dw t) (embed t) l fl (fun x y _ => IH x y) El). reflexivity.
  - destruct v; try discriminate. cbn [embed] in H.
    match type of H with option_map _ ?o = _ => destruct o as [fl|] eqn:El; [|discriminate] end.
    injection H as <-. cbn [dw].
    rewrite (res_all_of_opt_all _ _
               (fun kv : bytes * cval => rmap (fun x => (fst kv, x)) (dw t (snd kv)))
               (fun kv : bytes * cval => option_map (fun x => (fst kv, x)) (embed t (snd kv))) kvs fl); [reflexivity| |exact El].
    intros kv y _ Hy. destruct (embed t (snd kv)) as [a|] eqn:Ea; [|discriminate].
    injection Hy as <-. rewrite (IH _ _ Ea). reflexivity.
  - destruct v; try discriminate. cbn [embed] in H. cbn [dw].
    match type of H with option_map _ ?o = _ => destruct o as [fl|] eqn:El; [|discriminate] end.
    injection H as <-.
    match goal with |- rmap FStruct ?g = _ => assert (Hg : g = Ok fl); [|now rewrite Hg] end.
    clear - IH El. revert fl El. induction fs as [|[n t] fs IHfs]; intros fl El.
    + injection El as <-. reflexivity.
    + inversion IH as [|? ? Ht Hrest]; subst. cbn [snd] in Ht.
      destruct (map_get n kvs) as [fv|] eqn:Eg; [|discriminate].
      destruct (embed t fv) as [a|] eqn:Ea; [|discriminate].
      match type of El with match ?o with _ => _ end = _ => destruct o as [l'|] eqn:El'; [|discriminate] end.
      injection El as <-. rewrite (field_lookup_exact _ _ _ Eg), (Ht _ _ Ea), (IHfs Hrest l' eq_refl). reflexivity.
Qed.

Local Close Scope Z_scope.

(* ---- decimal digits ------------------------------------------------------------------------ *)

Lemma uint_bytes_digits : forall u, forallb is_digit (uint_bytes u) = true.
Proof. induction u; cbn [uint_bytes forallb]; try reflexivity; rewrite IHu; reflexivity. Qed.

Definition dstep (acc d : N) : N := N.add (N.mul acc 10) (N.sub d 48).

Lemma N_of_digits_fold : forall s, N_of_digits s = fold_left dstep s 0%N.
Proof. reflexivity. Qed.

Lemma of_uint_acc_fold : forall u acc,
  N.pos (Pos.of_uint_acc u acc) = fold_left dstep (uint_bytes u) (N.pos acc).
Proof.
  induction u; intros acc; cbn [Pos.of_uint_acc uint_bytes fold_left]; try reflexivity;
    rewrite IHu; f_equal; unfold dstep; lia.
Qed.

Lemma of_uint_fold : forall u, N.of_uint u = fold_left dstep (uint_bytes u) 0%N.
Proof.
  unfold N.of_uint.
  induction u; cbn [Pos.of_uint uint_bytes fold_left]; try reflexivity;
    try (rewrite of_uint_acc_fold; reflexivity).
  exact IHu.
Qed.

Lemma N_of_digits_of_N : forall n, N_of_digits (digits_of_N n) = n.
Proof.
  intros n. unfold digits_of_N. rewrite N_of_digits_fold, <- of_uint_fold. apply DecimalN.Unsigned.of_to.
Qed.

Lemma nzhead_not_D0 : forall u u', nzhead u <> D0 u'.
Proof. induction u; intros u'; cbn [nzhead]; try discriminate. apply IHu. Qed.

Lemma to_uint_norm : forall n, unorm (N.to_uint n) = N.to_uint n.
Proof. intros n. rewrite <- (DecimalN.Unsigned.of_to n) at 2. symmetry. apply DecimalN.Unsigned.to_of. Qed.

(* a normalised numeral is "0" or starts with a non-zero digit *)
Lemma unorm_shape : forall u, unorm u = u ->
  u = D0 Nil \/ exists c r, uint_bytes u = c :: r /\ N.eqb c 48 = false.
Proof.
  intros u H. destruct u; try (right; eexists _, _; split; [reflexivity|reflexivity]).
  - discriminate H.
  - left. unfold unorm in H. cbn [nzhead] in H. destruct (nzhead u) eqn:E; try discriminate H.
    + injection H as <-. reflexivity.
    + exfalso. exact (nzhead_not_D0 _ _ E).
Qed.

Lemma digits_of_N_shape : forall n,
  (n = 0%N /\ digits_of_N n = [48%N]) \/
  (n <> 0%N /\ exists c r, digits_of_N n = c :: r /\ N.eqb c 48 = false).
Proof.
  intros n. destruct (unorm_shape _ (to_uint_norm n)) as [H | (c & r & H & Hc)].
  - left. assert (n = 0%N). { rewrite <- (DecimalN.Unsigned.of_to n), H. reflexivity. }
    subst n. split; reflexivity.
  - right. split; [|exists c, r; split; assumption].
    intros ->. cbv in H. injection H as <- <-. discriminate Hc.
Qed.

Lemma digits_of_N_digits : forall n, forallb is_digit (digits_of_N n) = true.
Proof. intros n. apply uint_bytes_digits. Qed.

Lemma digits_of_N_nonnil : forall n, digits_of_N n <> [].
Proof. intros n. destruct (digits_of_N_shape n) as [[_ H]|[_ (c & r & H & _)]]; rewrite H; discriminate. Qed.

(* ---- stripping zeros ---------------------------------------------------------------------------- *)

Lemma strip_front_spec : forall s, exists k, s = repeat 48%N k ++ strip_zeros_front s /\
  (strip_zeros_front s = [] \/ exists c r, strip_zeros_front s = c :: r /\ N.eqb c 48 = false).
Proof.
  induction s as [|c s IH].
  - exists O. split; [reflexivity|left; reflexivity].
  - cbn [strip_zeros_front]. destruct (N.eqb c 48) eqn:E.
    + apply N.eqb_eq in E. subst c. destruct IH as (k & Hk & Hs). exists (S k). split; [|exact Hs].
      cbn [repeat app]. now rewrite <- Hk.
    + exists O. split; [reflexivity|]. right. exists c, s. split; [reflexivity|exact E].
Qed.

Lemma rev_repeat : forall (A : Type) (a : A) k, rev (repeat a k) = repeat a k.
Proof.
  intros A a. induction k as [|k IH]; [reflexivity|].
  cbn [repeat rev]. rewrite IH. clear IH. induction k as [|k IH]; [reflexivity|]. cbn [repeat app]. now rewrite IH.
Qed.

Lemma strip_back_spec : forall s, exists k, s = strip_zeros_back s ++ repeat 48%N k.
Proof.
  intros s. unfold strip_zeros_back. destruct (strip_front_spec (rev s)) as (k & Hk & _).
  exists k. remember (strip_zeros_front (rev s)) as sf. rewrite <- (rev_involutive s), Hk, rev_app_distr, rev_repeat. reflexivity.
Qed.

Lemma fold_dstep_zeros : forall k acc, fold_left dstep (repeat 48%N k) acc = (acc * 10 ^ N.of_nat k)%N.
Proof.
  induction k as [|k IH]; intros acc.
  - cbn. lia.
  - cbn [repeat fold_left]. rewrite IH. unfold dstep. rewrite Nat2N.inj_succ, N.pow_succ_r'. lia.
Qed.

Lemma N_of_digits_app_zeros : forall s k, N_of_digits (s ++ repeat 48%N k) = (N_of_digits s * 10 ^ N.of_nat k)%N.
Proof. intros s k. rewrite !N_of_digits_fold, fold_left_app. apply fold_dstep_zeros. Qed.

(* ---- digits back from a number ------------------------------------------------------------------- *)

Definition digit_uint (c : N) (r : uint) : uint :=
  match (c - 48)%N with
  | 0 => D0 r | 1 => D1 r | 2 => D2 r | 3 => D3 r | 4 => D4 r
  | 5 => D5 r | 6 => D6 r | 7 => D7 r | 8 => D8 r | _ => D9 r
  end%N.
Fixpoint uint_of_bytes (s : bytes) : uint :=
  match s with [] => Nil | c :: r => digit_uint c (uint_of_bytes r) end.

Lemma is_digit_cases : forall c, is_digit c = true ->
  c = 48%N \/ c = 49%N \/ c = 50%N \/ c = 51%N \/ c = 52%N \/ c = 53%N \/ c = 54%N \/ c = 55%N \/ c = 56%N \/ c = 57%N.
Proof.
  intros c H. unfold is_digit in H. apply andb_true_iff in H. destruct H as [H1 H2].
  apply N.leb_le in H1, H2. lia.
Qed.

Lemma uint_bytes_of_bytes : forall s, forallb is_digit s = true -> uint_bytes (uint_of_bytes s) = s.
Proof.
  induction s as [|c s IH]; intros H; [reflexivity|].
  cbn [forallb] in H. apply andb_true_iff in H. destruct H as [Hc Hs].
  cbn [uint_of_bytes]. destruct (is_digit_cases c Hc) as [->|[->|[->|[->|[->|[->|[->|[->|[->| ->]]]]]]]]];
    cbn; now rewrite (IH Hs).
Qed.

Lemma digits_of_N_of_digits : forall c r, forallb is_digit (c :: r) = true -> N.eqb c 48 = false ->
  digits_of_N (N_of_digits (c :: r)) = c :: r.
Proof.
  intros c r Hd Hc.
  pose proof (uint_bytes_of_bytes (c :: r) Hd) as Hu.
  rewrite N_of_digits_fold, <- Hu, <- of_uint_fold. unfold digits_of_N.
  rewrite DecimalN.Unsigned.to_of.
  assert (Hn : unorm (uint_of_bytes (c :: r)) = uint_of_bytes (c :: r)).
  { cbn [forallb] in Hd. apply andb_true_iff in Hd. destruct Hd as [Hdc _].
    cbn [uint_of_bytes].
    destruct (is_digit_cases c Hdc) as [->|[->|[->|[->|[->|[->|[->|[->|[->| ->]]]]]]]]]; try discriminate Hc; reflexivity. }
  now rewrite Hn.
Qed.

Local Open Scope Z_scope.

Lemma forallb_app_l : forall (A : Type) (g : A -> bool) (a b : list A), forallb g (a ++ b) = true -> forallb g a = true.
Proof. intros A g a b H. rewrite forallb_app in H. now apply andb_true_iff in H. Qed.

Lemma dec_of_Z_spec : forall z, z <> 0 -> exists m k,
  dec_of_Z z = VDec m (Z.of_nat k) /\ m <> 0 /\ z = m * 10 ^ Z.of_nat k /\ (m <? 0) = (z <? 0)
  /\ digits_of_N (Z.to_N (Z.abs m)) ++ repeat 48%N k = digits_of_N (Z.to_N (Z.abs z)).
Proof.
  intros z Hz. set (a := Z.to_N (Z.abs z)). assert (Ha : a <> 0%N) by (unfold a; lia).
  unfold dec_of_Z, mk_dec. fold a. set (ds := digits_of_N a).
  destruct (strip_back_spec ds) as (k & Hk). set (ds' := strip_zeros_back ds) in *.
  assert (Hlen : (length ds - length ds')%nat = k).
  { rewrite Hk at 1. rewrite app_length, repeat_length. lia. }
  rewrite Hlen.
  assert (Hval : (N_of_digits ds' * 10 ^ N.of_nat k)%N = a).
  { rewrite <- N_of_digits_app_zeros, <- Hk. apply N_of_digits_of_N. }
  assert (Hm0 : N_of_digits ds' <> 0%N) by (intros E; rewrite E in Hval; lia).
  (* the shape of ds' *)
  destruct (digits_of_N_shape a) as [[E _]|[_ (c & r & Hds & Hc)]]; [contradiction|]. fold ds in Hds.
  assert (Hds' : exists r', ds' = c :: r').
  { destruct ds' as [|c' r'].
    - exfalso. cbn [app] in Hk. rewrite Hds in Hk. destruct k; [discriminate|]. cbn [repeat] in Hk.
      injection Hk as -> _. discriminate Hc.
    - exists r'. rewrite Hds in Hk. cbn [app] in Hk. now injection Hk as -> _. }
  destruct Hds' as (r' & Hr').
  assert (Hdig : forallb is_digit ds' = true).
  { apply (forallb_app_l _ _ _ (repeat 48%N k)). rewrite <- Hk. apply digits_of_N_digits. }
  assert (Hback : digits_of_N (N_of_digits ds') = ds').
  { rewrite Hr' in *. now apply digits_of_N_of_digits. }
  destruct (Z.eqb_spec (Z.of_N (N_of_digits ds')) 0) as [E|_]; [lia|].
  exists (if z <? 0 then - Z.of_N (N_of_digits ds') else Z.of_N (N_of_digits ds')), k.
  split; [f_equal; lia|].
  assert (Habs : Z.abs z = Z.of_N (N_of_digits ds') * 10 ^ Z.of_nat k).
  { assert (E : Z.of_N a = Z.abs z) by (unfold a; rewrite Z2N.id; lia). rewrite <- E, <- Hval.
    rewrite N2Z.inj_mul, N2Z.inj_pow. f_equal. f_equal. lia. }
  assert (Hp : 0 < 10 ^ Z.of_nat k) by (apply Z.pow_pos_nonneg; lia).
  destruct (Z.ltb_spec z 0) as [Hneg|Hpos].
  - repeat split; try lia.
    replace (Z.to_N (Z.abs (- Z.of_N (N_of_digits ds')))) with (N_of_digits ds') by lia.
      rewrite Hback. fold a. fold ds. now rewrite <- Hk.
  - repeat split; try lia.
    replace (Z.to_N (Z.abs (Z.of_N (N_of_digits ds')))) with (N_of_digits ds') by lia.
      rewrite Hback. fold a. fold ds. now rewrite <- Hk.
Qed.

Lemma round53_small : forall z, int_safe z = true -> round53 z = z.
Proof. intros z H. unfold round53. unfold int_safe in H. now rewrite H. Qed.

Lemma digits_of_Z_abs : forall z,
  digits_of_Z z = (if z <? 0 then [b_minus] else []) ++ digits_of_N (Z.to_N (Z.abs z)).
Proof.
  intros z. unfold digits_of_Z. destruct (Z.ltb_spec z 0).
  - cbn [app]. do 2 f_equal. lia.
  - cbn [app]. f_equal. lia.
Qed.

(* the five scalar conversions do not see whether an integer arrives as int or as float64 *)
Lemma scalar_dec_of_Z : forall z, int_safe z = true ->
  to_string (dec_of_Z z) = to_string (VInt z) /\
  to_bool (dec_of_Z z) = to_bool (VInt z) /\
  (forall b, to_int b (dec_of_Z z) = to_int b (VInt z)) /\
  (forall b, to_uint b (dec_of_Z z) = to_uint b (VInt z)) /\
  to_float (dec_of_Z z) = to_float (VInt z).
Proof.
  intros z Hs. destruct (Z.eq_dec z 0) as [->|Hz].
  - repeat split; reflexivity.
  - destruct (dec_of_Z_spec z Hz) as (m & k & Hd & Hm & Hv & Hsign & Hdig).
    assert (Htr : dec_trunc m (Z.of_nat k) = z).
    { unfold dec_trunc. destruct (Z.leb_spec 0 (Z.of_nat k)); [|lia]. rewrite <- Hv. now apply round53_small. }
    split; [|split; [|split; [|split]]].
    + rewrite Hd. cbn [to_string]. do 2 f_equal. unfold fmt_float_f.
      destruct (Z.eqb_spec m 0); [contradiction|]. rewrite Hsign, digits_of_Z_abs. f_equal.
      set (ds := digits_of_N (Z.to_N (Z.abs m))) in *.
      assert (Hl : (0 < length ds)%nat).
      { destruct ds eqn:E; [exfalso; exact (digits_of_N_nonnil _ E)|cbn; lia]. }
      unfold fmt_f. destruct (Z.leb_spec (Z.of_nat (length ds) + Z.of_nat k) 0); [lia|].
      destruct (Z.leb_spec (Z.of_nat (length ds)) (Z.of_nat (length ds) + Z.of_nat k)); [|lia].
      rewrite <- Hdig. f_equal. f_equal. lia.
    + rewrite Hd. cbn [to_bool]. do 2 f_equal. destruct (Z.eqb_spec m 0), (Z.eqb_spec z 0); try reflexivity; contradiction.
    + intros b. rewrite Hd. cbn [to_int]. now rewrite Htr.
    + intros b. rewrite Hd. cbn [to_uint]. now rewrite Htr.
    + rewrite Hd. cbn [to_float]. rewrite Hd. reflexivity.
Qed.

(* ---- ParseAny on the text of an integer -------------------------------------------------------------- *)

Lemma digit_not : forall c k, is_digit c = true -> is_digit k = false -> N.eqb c k = false.
Proof. intros c k Hc Hk. apply N.eqb_neq. intros ->. congruence. Qed.

Lemma byte_index_nondigit : forall k s, is_digit k = false -> forallb is_digit s = true -> byte_index k s = None.
Proof.
  intros k. induction s as [|c s IH]; intros Hk H; [reflexivity|].
  cbn [forallb] in H. apply andb_true_iff in H. destruct H as [Hc Hs].
  cbn [byte_index]. rewrite N.eqb_sym, (digit_not c k Hc Hk), (IH Hk Hs). reflexivity.
Qed.

Lemma unsign_digit : forall c r, is_digit c = true -> unsign (c :: r) = (false, c :: r).
Proof. intros c r H. unfold unsign. now rewrite (digit_not c b_minus H eq_refl), (digit_not c b_plus H eq_refl). Qed.

Lemma number_digits : forall (c : N) (r : bytes) (neg : bool), forallb is_digit (c :: r) = true ->
  let s := (if neg then [b_minus] else []) ++ c :: r in
  is_number s = true /\ parse_number s = mk_dec neg (c :: r) 0.
Proof.
  intros c r neg H. pose proof H as H0. cbn [forallb] in H0. apply andb_true_iff in H0. destruct H0 as [Hc _].
  assert (Hu : unsign ((if neg then [b_minus] else []) ++ c :: r) = (neg, c :: r)).
  { destruct neg; [reflexivity|]. cbn [app]. now apply unsign_digit. }
  assert (Hsp : split_first b_dot (c :: r) = (c :: r, None)).
  { apply split_first_none. now apply byte_index_nondigit. }
  cbv zeta. unfold is_number, parse_number. rewrite Hu. cbn [snd]. rewrite Hsp. split; [|reflexivity].
  unfold all_digits1. exact H.
Qed.

Lemma lower_first_not_letter : forall c r, N.ltb c 65 = true ->
  beqb (map lower_ascii (c :: r)) lit_true = false /\ beqb (map lower_ascii (c :: r)) lit_false = false.
Proof.
  intros c r H. apply N.ltb_lt in H.
  assert (Hl : lower_ascii c = c).
  { unfold lower_ascii. destruct (N.leb_spec 65 c); [lia|reflexivity]. }
  cbn [map beqb lit_true lit_false]. rewrite Hl.
  destruct (N.eqb_spec c 116); [lia|]. destruct (N.eqb_spec c 102); [lia|]. split; reflexivity.
Qed.

Lemma digit_lt_65 : forall c, is_digit c = true -> N.ltb c 65 = true.
Proof. intros c H. destruct (is_digit_cases c H) as [->|[->|[->|[->|[->|[->|[->|[->|[->| ->]]]]]]]]]; reflexivity. Qed.

Lemma parse_any_number : forall c r, N.ltb c 65 = true -> is_number (c :: r) = true ->
  parse_any (c :: r) = Ok (parse_number (c :: r)).
Proof.
  intros c r Hc Hn. destruct (lower_first_not_letter c r Hc) as [H1 H2].
  unfold parse_any. cbn [length parse_any_fuel]. now rewrite H1, H2, Hn.
Qed.

Lemma digits_of_Z_nonnil : forall z, digits_of_Z z <> [].
Proof.
  intros z. unfold digits_of_Z. destruct (z <? 0)%Z; [discriminate|]. apply digits_of_N_nonnil.
Qed.

Theorem parse_any_digits : forall z, parse_any (digits_of_Z z) = Ok (dec_of_Z z).
Proof.
  intros z. rewrite digits_of_Z_abs. unfold dec_of_Z.
  set (ds := digits_of_N (Z.to_N (Z.abs z))).
  pose proof (digits_of_N_digits (Z.to_N (Z.abs z))) as Hd. fold ds in Hd.
  destruct ds as [|c r] eqn:E; [exfalso; exact (digits_of_N_nonnil _ E)|].
  destruct (number_digits c r (z <? 0)%Z Hd) as [Hn Hp]. cbv zeta in Hn, Hp.
  assert (Hc : is_digit c = true) by (cbn [forallb] in Hd; now apply andb_true_iff in Hd).
  destruct (z <? 0)%Z.
  - cbn [app] in *. rewrite parse_any_number; [now rewrite Hp|reflexivity|exact Hn].
  - cbn [app] in *. rewrite parse_any_number; [now rewrite Hp|now apply digit_lt_65|exact Hn].
Qed.

(* ---- encoding/json: print, then parse --------------------------------------------------------------- *)

Local Close Scope Z_scope.

(* the two loops of jvalue, named so that lemmas can be stated about them *)
Definition elems_of (jv : bytes -> option (cval * bytes)) :=
  fix elems (n : nat) (s : bytes) (acc : list cval) {struct n} : option (cval * bytes) :=
    match n with
    | O => None
    | S n' =>
      match jv s with
      | Some (v, r) =>
        match skip_ws r with
        | c :: r' => if N.eqb c b_comma then elems n' r' (v :: acc)
                     else if N.eqb c b_rbrack then Some (VList (rev (v :: acc)), r')
                     else None
        | [] => None
        end
      | None => None
      end
    end.

Definition members_of (jv : bytes -> option (cval * bytes)) :=
  fix members (n : nat) (s : bytes) (acc : list (bytes * cval)) {struct n} : option (cval * bytes) :=
    match n with
    | O => None
    | S n' =>
      match skip_ws s with
      | q :: r0 =>
        if negb (N.eqb q b_dquote) then None else
        match jstring r0 with
        | Some (key, r1) =>
          match skip_ws r1 with
          | c :: r2 =>
            if negb (N.eqb c b_colon) then None else
            match jv r2 with
            | Some (v, r3) =>
              match skip_ws r3 with
              | c' :: r4 => if N.eqb c' b_comma then members n' r4 (map_set key v acc)
                            else if N.eqb c' b_rbrace then Some (VMap (map_set key v acc), r4)
                            else None
              | [] => None
              end
            | None => None
            end
          | [] => None
          end
        | None => None
        end
      | [] => None
      end
    end.

Lemma jvalue_S : forall k s, jvalue (S k) s =
  match skip_ws s with
  | [] => None
  | c :: r =>
    if N.eqb c b_dquote then
      match jstring r with Some (t, r') => Some (VStr t, r') | None => None end
    else if N.eqb c b_lbrack then
      match skip_ws r with
      | c' :: r' => if N.eqb c' b_rbrack then Some (VList [], r') else elems_of (jvalue k) (length r) r []
      | [] => None
      end
    else if N.eqb c b_lbrace then
      match skip_ws r with
      | c' :: r' => if N.eqb c' b_rbrace then Some (VMap [], r') else members_of (jvalue k) (length r) r []
      | [] => None
      end
    else if has_prefix lit_true (c :: r) then Some (VBool true, skipn 4 (c :: r))
    else if has_prefix lit_false (c :: r) then Some (VBool false, skipn 5 (c :: r))
    else if has_prefix lit_null (c :: r) then Some (VNull, skipn 4 (c :: r))
    else jnumber (c :: r)
  end.
Proof. reflexivity. Qed.

(* what may follow a value inside a list or map, or the end of the text *)
Definition rest_ok (rest : bytes) : bool :=
  match rest with
  | [] => true
  | c :: _ => N.eqb c b_comma || N.eqb c b_rbrack || N.eqb c b_rbrace
  end.

Lemma skip_ws_nonws : forall c r, is_ws c = false -> skip_ws (c :: r) = c :: r.
Proof. intros c r H. cbn [skip_ws]. now rewrite H. Qed.

Lemma rest_ok_skip_ws : forall rest, rest_ok rest = true -> skip_ws rest = rest.
Proof.
  intros [|c r] H; [reflexivity|]. apply skip_ws_nonws. cbn [rest_ok] in H.
  apply orb_true_iff in H. destruct H as [H|H]; [apply orb_true_iff in H; destruct H as [H|H]|];
    apply N.eqb_eq in H; subst c; reflexivity.
Qed.

(* ---- strings ---- *)

Lemma json_plain_escape : forall c, json_plain_byte c = true -> json_escape_byte c = [c].
Proof.
  intros c H. unfold json_plain_byte in H. apply andb_true_iff in H. destruct H as [Hp Hn].
  apply negb_true_iff in Hn. repeat (apply orb_false_iff in Hn; destruct Hn as [Hn ?]).
  unfold printable in Hp. apply andb_true_iff in Hp. destruct Hp as [Hlo _]. apply N.leb_le in Hlo.
  unfold json_escape_byte.
  rewrite Hn. match goal with H : N.eqb c b_bslash = false |- _ => rewrite H end.
  destruct (N.eqb_spec c 8); [lia|]. destruct (N.eqb_spec c 12); [lia|]. destruct (N.eqb_spec c 10); [lia|].
  destruct (N.eqb_spec c 13); [lia|]. destruct (N.eqb_spec c 9); [lia|].
  destruct (N.ltb_spec c 32); [lia|].
  repeat match goal with H : N.eqb c _ = false |- _ => rewrite H; clear H end. reflexivity.
Qed.

Lemma json_plain_flat : forall s, json_plain s = true -> flat_map json_escape_byte s = s.
Proof.
  induction s as [|c s IH]; intros H; [reflexivity|].
  cbn [json_plain forallb] in H. apply andb_true_iff in H. destruct H as [Hc Hs].
  cbn [flat_map]. rewrite (json_plain_escape c Hc), (IH Hs). reflexivity.
Qed.

Lemma json_string_plain : forall s, json_plain s = true -> json_string s = b_dquote :: s ++ [b_dquote].
Proof. intros s H. unfold json_string. now rewrite (json_plain_flat s H). Qed.

Lemma jstring_plain : forall s rest, json_plain s = true -> jstring (s ++ b_dquote :: rest) = Some (s, rest).
Proof.
  induction s as [|c s IH]; intros rest H.
  - reflexivity.
  - cbn [json_plain forallb] in H. apply andb_true_iff in H. destruct H as [Hc Hs].
    unfold json_plain_byte in Hc. apply andb_true_iff in Hc. destruct Hc as [Hp Hn].
    apply negb_true_iff in Hn. repeat (apply orb_false_iff in Hn; destruct Hn as [Hn ?]).
    unfold printable in Hp. apply andb_true_iff in Hp. destruct Hp as [Hlo _]. apply N.leb_le in Hlo.
    cbn [app jstring]. rewrite Hn.
    match goal with H : N.eqb c b_bslash = false |- _ => rewrite H end.
    destruct (N.ltb_spec c 32); [lia|]. cbn [orb]. now rewrite (IH rest Hs).
Qed.

(* ---- numbers ---- *)

Lemma rest_ok_cases : forall c r, rest_ok (c :: r) = true -> c = b_comma \/ c = b_rbrack \/ c = b_rbrace.
Proof.
  intros c r H. cbn [rest_ok] in H. apply orb_true_iff in H. destruct H as [H|H].
  - apply orb_true_iff in H. destruct H as [H|H]; apply N.eqb_eq in H; auto.
  - apply N.eqb_eq in H; auto.
Qed.

Lemma span_digits_app : forall ds rest, forallb is_digit ds = true -> rest_ok rest = true ->
  span_digits (ds ++ rest) = (ds, rest).
Proof.
  induction ds as [|c ds IH]; intros rest Hd Hr.
  - cbn [app]. destruct rest as [|c r]; [reflexivity|].
    destruct (rest_ok_cases c r Hr) as [->|[->| ->]]; reflexivity.
  - cbn [forallb] in Hd. apply andb_true_iff in Hd. destruct Hd as [Hc Hds].
    cbn [app span_digits]. rewrite Hc, (IH rest Hds Hr). reflexivity.
Qed.

Lemma jnumber_tail : forall neg c ip' rest, rest_ok rest = true ->
  (N.eqb c 48 && negb (match ip' with [] => true | _ => false end)) = false ->
  span_digits (c :: ip' ++ rest) = (c :: ip', rest) ->
  (let (ip, s2) := span_digits (c :: ip' ++ rest) in
   match ip with
   | [] => None
   | dd :: ip0 =>
     if N.eqb dd 48 && negb (match ip0 with [] => true | _ => false end) then None else
     let frac := match s2 with
                 | c :: r => if N.eqb c b_dot then
                               let (f, r') := span_digits r in
                               match f with [] => None | _ => Some (f, r') end
                             else Some ([], s2)
                 | [] => Some ([], s2)
                 end in
     match frac with
     | None => None
     | Some (f, s3) =>
       let expo := match s3 with
                   | c :: r =>
                     if N.eqb c 101 || N.eqb c 69 then
                       let (eneg, r1) := match r with
                                         | c2 :: r2 => if N.eqb c2 b_minus then (true, r2)
                                                       else if N.eqb c2 b_plus then (false, r2) else (false, r)
                                         | [] => (false, r)
                                         end in
                       let (ed, r3) := span_digits r1 in
                       match ed with
                       | [] => None
                       | _ => let ev := Z.of_N (N_of_digits ed) in Some (if eneg then (- ev)%Z else ev, r3)
                       end
                     else Some (0%Z, s3)
                   | [] => Some (0%Z, s3)
                   end in
       match expo with
       | None => None
       | Some (ev, s4) => Some (mk_dec neg (ip ++ f) (ev - Z.of_nat (length f))%Z, s4)
       end
     end
   end) = Some (mk_dec neg (c :: ip') 0, rest).
Proof.
  intros neg c ip' rest Hr Hz Hsp. rewrite Hsp, Hz.
  destruct rest as [|x r].
  - cbv beta iota zeta. rewrite app_nil_r. reflexivity.
  - destruct (rest_ok_cases x r Hr) as [->|[->| ->]]; cbv beta iota zeta;
      cbn [N.eqb orb b_dot b_comma b_rbrack b_rbrace Pos.eqb]; cbv beta iota zeta;
      rewrite app_nil_r; reflexivity.
Qed.

Lemma jnumber_int : forall z rest, rest_ok rest = true ->
  jnumber (digits_of_Z z ++ rest) = Some (dec_of_Z z, rest).
Proof.
  intros z rest Hr. rewrite digits_of_Z_abs. unfold dec_of_Z.
  set (a := Z.to_N (Z.abs z)). set (ds := digits_of_N a).
  pose proof (digits_of_N_digits a) as Hd. fold ds in Hd.
  assert (Hshape : exists c ip', ds = c :: ip' /\
            (N.eqb c 48 && negb (match ip' with [] => true | _ => false end)) = false).
  { destruct (digits_of_N_shape a) as [[_ H]|[_ (c & r & H & Hc)]]; fold ds in H; rewrite H.
    - exists 48%N, []. split; reflexivity.
    - exists c, r. split; [reflexivity|]. now rewrite Hc. }
  destruct Hshape as (c & ip' & Hds & Hz). rewrite Hds in *.
  assert (Hc : is_digit c = true) by (cbn [forallb] in Hd; now apply andb_true_iff in Hd).
  pose proof (span_digits_app (c :: ip') rest Hd Hr) as Hsp. cbn [app] in Hsp.
  unfold jnumber. destruct (z <? 0)%Z.
  - cbn [app]. change (N.eqb b_minus b_minus) with true. cbv iota beta.
    exact (jnumber_tail true c ip' rest Hr Hz Hsp).
  - cbn [app]. rewrite (digit_not c b_minus Hc eq_refl).
    exact (jnumber_tail false c ip' rest Hr Hz Hsp).
Qed.

Local Open Scope nat_scope.
(* ---- floats: FormatFloat, then ParseFloat / the JSON number reader ------------------------------------- *)

Definition all_zero (s : bytes) : bool := forallb (N.eqb 48) s.

Lemma all_zero_repeat : forall k, all_zero (repeat 48%N k) = true.
Proof. induction k; [reflexivity|]. cbn [repeat all_zero forallb]. exact IHk. Qed.

Lemma fold_dstep_lead : forall z, all_zero z = true -> fold_left dstep z 0%N = 0%N.
Proof.
  induction z as [|c z IH]; intros H; [reflexivity|].
  cbn [all_zero forallb] in H. apply andb_true_iff in H. destruct H as [Hc Hz]. apply N.eqb_eq in Hc. subst c.
  cbn [fold_left]. change (dstep 0 48) with 0%N. exact (IH Hz).
Qed.

Lemma N_of_digits_lead : forall z ds, all_zero z = true -> N_of_digits (z ++ ds) = N_of_digits ds.
Proof. intros z ds H. rewrite !N_of_digits_fold, fold_left_app, (fold_dstep_lead z H). reflexivity. Qed.

Lemma strip_front_zeros : forall k d x, N.eqb d 48 = false ->
  strip_zeros_front (repeat 48%N k ++ d :: x) = d :: x.
Proof.
  induction k as [|k IH]; intros d x H.
  - cbn [repeat app strip_zeros_front]. now rewrite H.
  - cbn [repeat app strip_zeros_front]. change (N.eqb 48 48) with true. cbv iota. now apply IH.
Qed.

Lemma strip_back_general : forall z ds' d k, N.eqb d 48 = false ->
  strip_zeros_back (z ++ (ds' ++ [d]) ++ repeat 48%N k) = z ++ ds' ++ [d].
Proof.
  intros z ds' d k H. unfold strip_zeros_back.
  rewrite !rev_app_distr, rev_repeat. cbn [rev app]. rewrite <- !app_assoc. cbn [app].
  rewrite (strip_front_zeros k d _ H). cbn [rev]. rewrite rev_app_distr, !rev_involutive. now rewrite <- app_assoc.
Qed.

(* the last digit of a number not divisible by ten is not zero *)
Lemma digits_last_nonzero : forall n, (n mod 10 <> 0)%N ->
  exists ds' d, digits_of_N n = ds' ++ [d] /\ N.eqb d 48 = false.
Proof.
  intros n Hn. destruct (exists_last (digits_of_N_nonnil n)) as (ds' & d & E).
  exists ds', d. split; [exact E|]. apply N.eqb_neq. intros ->.
  apply Hn. rewrite <- (N_of_digits_of_N n), E, N_of_digits_fold, fold_left_app. cbn [fold_left].
  unfold dstep at 1. change (48 - 48)%N with 0%N. rewrite N.add_0_r. apply N.mod_mul. discriminate.
Qed.

Local Open Scope Z_scope.


Lemma abs_mod10 : forall m, m mod 10 <> 0 -> (Z.to_N (Z.abs m) mod 10 <> 0)%N.
Proof.
  intros m H E. apply H. clear H.
  assert (H : Z.of_N (Z.to_N (Z.abs m) mod 10) = 0) by (rewrite E; reflexivity).
  rewrite N2Z.inj_mod, Z2N.id in H by lia. change (Z.of_N 10) with 10 in H.
  destruct (Z.abs_eq_or_opp m) as [Ea|Ea]; rewrite Ea in H; [exact H|].
  apply Z.mod_divide in H; [|lia]. apply Z.mod_divide; [lia|].
  destruct H as [q Hq]. exists (- q). lia.
Qed.

(* mk_dec on the digit strings FormatFloat writes for m * 10^e *)
Lemma mk_dec_shape : forall neg m z k x, m <> 0 -> m mod 10 <> 0 -> all_zero z = true ->
  mk_dec neg (z ++ digits_of_N (Z.to_N (Z.abs m)) ++ repeat 48%N k) x
  = VDec (if neg then - Z.abs m else Z.abs m) (x + Z.of_nat k).
Proof.
  intros neg m z k x Hm Hm10 Hz.
  destruct (digits_last_nonzero _ (abs_mod10 m Hm10)) as (ds' & d & E & Hd).
  unfold mk_dec. rewrite E, (strip_back_general z ds' d k Hd), <- E.
  rewrite (N_of_digits_lead z _ Hz), N_of_digits_of_N, Z2N.id by lia.
  destruct (Z.eqb_spec (Z.abs m) 0); [lia|]. f_equal. f_equal.
  rewrite !app_length, repeat_length. lia.
Qed.

Lemma forallb_firstn : forall (A : Type) (g : A -> bool) n (l : list A), forallb g l = true -> forallb g (firstn n l) = true.
Proof.
  intros A g n l H. rewrite <- (firstn_skipn n l) in H. rewrite forallb_app in H. now apply andb_true_iff in H.
Qed.
Lemma forallb_skipn : forall (A : Type) (g : A -> bool) n (l : list A), forallb g l = true -> forallb g (skipn n l) = true.
Proof.
  intros A g n l H. rewrite <- (firstn_skipn n l) in H. rewrite forallb_app in H. now apply andb_true_iff in H.
Qed.
Lemma forallb_digit_zeros : forall k, forallb is_digit (repeat 48%N k) = true.
Proof. induction k; [reflexivity|]. cbn [repeat forallb]. exact IHk. Qed.

(* the digit string and the exponent that strconv reads off the text  ip [ . f ] *)
Definition frac_text (f : bytes) : bytes := match f with [] => [] | _ => b_dot :: f end.

(* [fmt_f ds dp] as integer part and fraction part *)
Definition fmt_parts (ds : bytes) (dp : Z) : bytes * bytes :=
  if dp <=? 0 then ([b_zero], repeat b_zero (Z.to_nat (- dp)) ++ ds)
  else if Z.of_nat (length ds) <=? dp then (ds ++ repeat b_zero (Z.to_nat dp - length ds), [])
  else (firstn (Z.to_nat dp) ds, skipn (Z.to_nat dp) ds).

Lemma fmt_f_parts : forall ds dp, ds <> [] ->
  fmt_f ds dp = fst (fmt_parts ds dp) ++ frac_text (snd (fmt_parts ds dp)).
Proof.
  intros ds dp Hne. unfold fmt_f, fmt_parts.
  destruct (Z.leb_spec dp 0).
  - cbn [fst snd]. destruct (repeat b_zero (Z.to_nat (- dp)) ++ ds) eqn:E.
    + apply app_eq_nil in E. destruct E as [_ E]. contradiction.
    + cbn [frac_text app]. reflexivity.
  - destruct (Z.leb_spec (Z.of_nat (length ds)) dp).
    + cbn [fst snd frac_text]. now rewrite app_nil_r.
    + cbn [fst snd]. destruct (skipn (Z.to_nat dp) ds) eqn:E.
      * exfalso. assert (Hl : length (skipn (Z.to_nat dp) ds) = O) by (rewrite E; reflexivity).
        rewrite skipn_length in Hl. lia.
      * cbn [frac_text app]. reflexivity.
Qed.

(* what the parts denote *)
Lemma fmt_parts_spec : forall neg m e, m <> 0 -> m mod 10 <> 0 ->
  let ds := digits_of_N (Z.to_N (Z.abs m)) in
  let p := fmt_parts ds (Z.of_nat (length ds) + e) in
  forallb is_digit (fst p) = true /\ fst p <> [] /\ forallb is_digit (snd p) = true /\
  (exists c r, fst p = c :: r /\ (N.eqb c 48 && negb (match r with [] => true | _ => false end)) = false) /\
  mk_dec neg (fst p ++ snd p) (0 - Z.of_nat (length (snd p))) = VDec (if neg then - Z.abs m else Z.abs m) e.
Proof.
  intros neg m e Hm Hm10 ds p.
  pose proof (digits_of_N_digits (Z.to_N (Z.abs m))) as Hd. fold ds in Hd.
  assert (Hne : ds <> []) by apply digits_of_N_nonnil.
  assert (Hhead : exists c r, ds = c :: r /\ N.eqb c 48 = false).
  { destruct (digits_of_N_shape (Z.to_N (Z.abs m))) as [[E _]|[_ H]]; [lia|exact H]. }
  destruct Hhead as (c & r & Eds & Hc).
  assert (Hlen : (0 < length ds)%nat) by (rewrite Eds; cbn; lia).
  unfold p, fmt_parts. destruct (Z.leb_spec (Z.of_nat (length ds) + e) 0) as [H1|H1].
  - cbn [fst snd]. split; [reflexivity|]. split; [discriminate|]. split.
    { rewrite forallb_app, forallb_digit_zeros, Hd. reflexivity. }
    split; [exists 48%N, []; split; reflexivity|].
    pose proof (mk_dec_shape neg m ([b_zero] ++ repeat b_zero (Z.to_nat (- (Z.of_nat (length ds) + e)))) O
                  (0 - Z.of_nat (length (repeat b_zero (Z.to_nat (- (Z.of_nat (length ds) + e))) ++ ds))) Hm Hm10) as Hk.
    fold ds in Hk. cbn [repeat] in Hk. rewrite app_nil_r in Hk. rewrite <- app_assoc in Hk. rewrite Hk.
    + f_equal. rewrite app_length, repeat_length. lia.
    + cbn [app all_zero forallb]. change (N.eqb 48 b_zero) with true. exact (all_zero_repeat _).
  - destruct (Z.leb_spec (Z.of_nat (length ds)) (Z.of_nat (length ds) + e)) as [H2|H2].
    + cbn [fst snd]. split; [rewrite forallb_app, forallb_digit_zeros, Hd; reflexivity|].
      split; [intros E; apply app_eq_nil in E; destruct E; contradiction|]. split; [reflexivity|].
      split.
      { rewrite Eds. cbn [app]. eexists _, _. split; [reflexivity|]. now rewrite Hc. }
      rewrite app_nil_r.
      pose proof (mk_dec_shape neg m [] (Z.to_nat (Z.of_nat (length ds) + e) - length ds) (0 - Z.of_nat (length (@nil N))) Hm Hm10 eq_refl) as Hk.
      fold ds in Hk. cbn [app] in Hk. change b_zero with 48%N. rewrite Hk. f_equal. cbn [length]. lia.
    + cbn [fst snd]. set (n := Z.to_nat (Z.of_nat (length ds) + e)).
      assert (Hn : (0 < n < length ds)%nat) by (unfold n; lia).
      split; [now apply forallb_firstn|]. split.
      { rewrite Eds. destruct n; [lia|]. discriminate. }
      split; [now apply forallb_skipn|]. split.
      { rewrite Eds. destruct n as [|n']; [lia|]. cbn [firstn]. eexists _, _. split; [reflexivity|]. now rewrite Hc. }
      rewrite firstn_skipn.
      pose proof (mk_dec_shape neg m [] O (0 - Z.of_nat (length (skipn n ds))) Hm Hm10 eq_refl) as Hk.
      fold ds in Hk. cbn [app repeat] in Hk. rewrite app_nil_r in Hk. rewrite Hk. f_equal.
      rewrite skipn_length. unfold n. lia.
Qed.

Definition sign_text (neg : bool) : bytes := if neg then [b_minus] else [].

Lemma number_parts : forall neg ip f, forallb is_digit ip = true -> ip <> [] -> forallb is_digit f = true ->
  is_number (sign_text neg ++ ip ++ frac_text f) = true /\
  parse_number (sign_text neg ++ ip ++ frac_text f) = mk_dec neg (ip ++ f) (0 - Z.of_nat (length f)).
Proof.
  intros neg ip f Hip Hne Hf. destruct ip as [|c r]; [congruence|].
  assert (Hc : is_digit c = true) by (cbn [forallb] in Hip; now apply andb_true_iff in Hip).
  assert (Hu : unsign (sign_text neg ++ (c :: r) ++ frac_text f) = (neg, (c :: r) ++ frac_text f)).
  { destruct neg; [reflexivity|]. cbn [sign_text app]. now apply unsign_digit. }
  unfold is_number, parse_number. rewrite Hu. cbn [snd].
  destruct f as [|d f'].
  - cbn [frac_text]. rewrite !app_nil_r.
    rewrite (split_first_none b_dot (c :: r) (byte_index_nondigit b_dot _ eq_refl Hip)).
    split; [exact Hip|reflexivity].
  - cbn [frac_text].
    rewrite (split_first_app b_dot (c :: r) (d :: f') (byte_index_nondigit b_dot _ eq_refl Hip)).
    split; [|f_equal; lia]. unfold all_digits1 at 1. rewrite Hip. exact Hf.
Qed.


Lemma dec_normal_nz : forall m e, dec_normal m e = true -> m <> 0 -> m mod 10 <> 0.
Proof.
  intros m e H Hm. unfold dec_normal in H. destruct (Z.eqb_spec m 0); [contradiction|].
  apply negb_true_iff in H. now apply Z.eqb_neq in H.
Qed.

Lemma signed_abs : forall m, (if m <? 0 then - Z.abs m else Z.abs m) = m.
Proof. intros m. destruct (Z.ltb_spec m 0); lia. Qed.

(* a float64 of everyday magnitude: %v writes plain digits, ParseAny reads the same float64 back *)
Theorem parse_any_float_v : forall m e, dec_normal m e = true ->
  (m = 0 \/ (-4 <= dec_exp m e < 6)) ->
  parse_any (fmt_float_v m e) = Ok (VDec m e).
Proof.
  intros m e Hn Hr. destruct (Z.eq_dec m 0) as [->|Hm].
  - unfold dec_normal in Hn. cbn in Hn. apply Z.eqb_eq in Hn. subst e. reflexivity.
  - destruct Hr as [Hr|Hr]; [contradiction|].
    pose proof (dec_normal_nz m e Hn Hm) as Hm10.
    unfold fmt_float_v. destruct (Z.eqb_spec m 0); [contradiction|].
    set (ds := digits_of_N (Z.to_N (Z.abs m))) in *.
    assert (Hex : ((Z.of_nat (length ds) + e - 1 <? -4) || (6 <=? Z.of_nat (length ds) + e - 1)) = false).
    { unfold dec_exp, sig_digits in Hr. fold ds in Hr. apply orb_false_iff. split; [apply Z.ltb_ge|apply Z.leb_gt]; lia. }
    rewrite Hex.
    destruct (fmt_parts_spec (m <? 0) m e Hm Hm10) as (Hip & Hne & Hf & _ & Hmk). fold ds in Hip, Hne, Hf, Hmk.
    rewrite (fmt_f_parts ds _ (digits_of_N_nonnil _)).
    set (p := fmt_parts ds (Z.of_nat (length ds) + e)) in *.
    destruct (number_parts (m <? 0) (fst p) (snd p) Hip Hne Hf) as [Hnum Hpar].
    change (if m <? 0 then [b_minus] else []) with (sign_text (m <? 0)).
    destruct (sign_text (m <? 0) ++ fst p ++ frac_text (snd p)) as [|c t] eqn:Etext.
    { destruct (m <? 0); [discriminate Etext|]. cbn [sign_text app] in Etext. apply app_eq_nil in Etext.
      destruct Etext; contradiction. }
    rewrite parse_any_number; [|..].
    + rewrite Hpar, Hmk, signed_abs. reflexivity.
    + destruct (m <? 0).
      * cbn [sign_text app] in Etext. injection Etext as <- _. reflexivity.
      * cbn [sign_text app] in Etext. destruct (fst p) as [|c' r'] eqn:Ep; [congruence|].
        cbn [app] in Etext. injection Etext as <- _. apply digit_lt_65.
        cbn [forallb] in Hip. now apply andb_true_iff in Hip.
    + exact Hnum.
Qed.

(* with the repair D-C17g every float64 is written in plain digits: any magnitude reads back *)
Theorem parse_any_float_f : forall m e, dec_normal m e = true ->
  parse_any (fmt_float_f m e) = Ok (VDec m e).
Proof.
  intros m e Hn. destruct (Z.eq_dec m 0) as [->|Hm].
  - unfold dec_normal in Hn. cbn in Hn. apply Z.eqb_eq in Hn. subst e. reflexivity.
  - pose proof (dec_normal_nz m e Hn Hm) as Hm10.
    unfold fmt_float_f. destruct (Z.eqb_spec m 0); [contradiction|].
    set (ds := digits_of_N (Z.to_N (Z.abs m))) in *.
    destruct (fmt_parts_spec (m <? 0) m e Hm Hm10) as (Hip & Hne & Hf & _ & Hmk). fold ds in Hip, Hne, Hf, Hmk.
    rewrite (fmt_f_parts ds _ (digits_of_N_nonnil _)).
    set (p := fmt_parts ds (Z.of_nat (length ds) + e)) in *.
    destruct (number_parts (m <? 0) (fst p) (snd p) Hip Hne Hf) as [Hnum Hpar].
    change (if m <? 0 then [b_minus] else []) with (sign_text (m <? 0)).
    destruct (sign_text (m <? 0) ++ fst p ++ frac_text (snd p)) as [|c t] eqn:Etext.
    { destruct (m <? 0); [discriminate Etext|]. cbn [sign_text app] in Etext. apply app_eq_nil in Etext.
      destruct Etext; contradiction. }
    rewrite parse_any_number; [|..].
    + rewrite Hpar, Hmk, signed_abs. reflexivity.
    + destruct (m <? 0).
      * cbn [sign_text app] in Etext. injection Etext as <- _. reflexivity.
      * cbn [sign_text app] in Etext. destruct (fst p) as [|c' r'] eqn:Ep; [congruence|].
        cbn [app] in Etext. injection Etext as <- _. apply digit_lt_65.
        cbn [forallb] in Hip. now apply andb_true_iff in Hip.
    + exact Hnum.
Qed.

(* ---- the JSON number reader on  [-] ip [ . f ] ---------------------------------------------------------- *)

Lemma span_digits_stop : forall ds x, forallb is_digit ds = true ->
  match x with [] => True | c :: _ => is_digit c = false end ->
  span_digits (ds ++ x) = (ds, x).
Proof.
  induction ds as [|c ds IH]; intros x Hd Hx.
  - cbn [app]. destruct x as [|c r]; [reflexivity|]. cbn [span_digits]. now rewrite Hx.
  - cbn [forallb] in Hd. apply andb_true_iff in Hd. destruct Hd as [Hc Hds].
    cbn [app span_digits]. rewrite Hc, (IH x Hds Hx). reflexivity.
Qed.

Lemma rest_ok_nondigit : forall rest, rest_ok rest = true ->
  match rest with [] => True | c :: _ => is_digit c = false end.
Proof.
  intros [|c r] H; [exact I|]. destruct (rest_ok_cases c r H) as [->|[->| ->]]; reflexivity.
Qed.

Lemma jnumber_shape : forall neg ip f rest,
  forallb is_digit ip = true -> forallb is_digit f = true -> rest_ok rest = true ->
  (exists c r, ip = c :: r /\ (N.eqb c 48 && negb (match r with [] => true | _ => false end)) = false) ->
  jnumber (sign_text neg ++ ip ++ frac_text f ++ rest) = Some (mk_dec neg (ip ++ f) (0 - Z.of_nat (length f)), rest).
Proof.
  intros neg ip f rest Hip Hf Hr (c & r & Eip & Hz). subst ip.
  assert (Hc : is_digit c = true) by (cbn [forallb] in Hip; now apply andb_true_iff in Hip).
  assert (Hsp : span_digits ((c :: r) ++ frac_text f ++ rest) = (c :: r, frac_text f ++ rest)).
  { apply span_digits_stop; [exact Hip|]. destruct f as [|d f']; [apply rest_ok_nondigit, Hr|reflexivity]. }
  unfold jnumber. destruct neg; cbn [sign_text app];
    [change (N.eqb b_minus b_minus) with true | rewrite (digit_not c b_minus Hc eq_refl)]; cbv beta iota;
    cbn [app] in Hsp; rewrite Hsp, Hz; clear Hsp.
  all: destruct f as [|d f'].
  all: try (cbn [frac_text app]; rewrite ?app_nil_r;
            destruct rest as [|x rr];
            [cbv beta iota zeta; rewrite ?app_nil_r; reflexivity
            |destruct (rest_ok_cases x rr Hr) as [->|[->| ->]]; cbv beta iota zeta;
               cbn [N.eqb orb b_dot b_comma b_rbrack b_rbrace Pos.eqb]; cbv beta iota zeta; rewrite ?app_nil_r; reflexivity]).
  all: cbn [frac_text app]; change (N.eqb b_dot b_dot) with true; cbv beta iota zeta;
       change (d :: f' ++ rest) with ((d :: f') ++ rest);
       rewrite (span_digits_stop (d :: f') rest Hf (rest_ok_nondigit rest Hr));
       destruct rest as [|x rr];
       [cbv beta iota zeta; rewrite ?app_nil_r; reflexivity
       |destruct (rest_ok_cases x rr Hr) as [->|[->| ->]]; cbv beta iota zeta;
          cbn [N.eqb orb b_dot b_comma b_rbrack b_rbrace Pos.eqb]; cbv beta iota zeta; rewrite ?app_nil_r; reflexivity].
Qed.

(* encoding/json writes a float64 of magnitude 1e-6 .. 1e21 in plain digits; the reader gets the same float64 *)
Theorem jnumber_float : forall m e rest, dec_normal m e = true ->
  (m = 0 \/ (-6 <= dec_exp m e < 21)) -> rest_ok rest = true ->
  jnumber (fmt_float_json m e ++ rest) = Some (VDec m e, rest).
Proof.
  intros m e rest Hn Hr Hrest. destruct (Z.eq_dec m 0) as [->|Hm].
  - unfold dec_normal in Hn. cbn in Hn. apply Z.eqb_eq in Hn. subst e.
    change (fmt_float_json 0 0) with (sign_text false ++ [b_zero] ++ frac_text []).
    rewrite <- !app_assoc.
    rewrite (jnumber_shape false [b_zero] [] rest eq_refl eq_refl Hrest); [reflexivity|].
    exists b_zero, []. split; reflexivity.
  - destruct Hr as [Hr|Hr]; [contradiction|].
    pose proof (dec_normal_nz m e Hn Hm) as Hm10.
    unfold fmt_float_json. destruct (Z.eqb_spec m 0); [contradiction|].
    set (ds := digits_of_N (Z.to_N (Z.abs m))) in *.
    assert (Hex : ((Z.of_nat (length ds) + e - 1 <? -6) || (21 <=? Z.of_nat (length ds) + e - 1)) = false).
    { unfold dec_exp, sig_digits in Hr. fold ds in Hr. apply orb_false_iff. split; [apply Z.ltb_ge|apply Z.leb_gt]; lia. }
    rewrite Hex.
    destruct (fmt_parts_spec (m <? 0) m e Hm Hm10) as (Hip & Hne & Hf & Hlead & Hmk). fold ds in Hip, Hne, Hf, Hlead, Hmk.
    rewrite (fmt_f_parts ds _ (digits_of_N_nonnil _)).
    set (p := fmt_parts ds (Z.of_nat (length ds) + e)) in *.
    change (if m <? 0 then [b_minus] else []) with (sign_text (m <? 0)).
    rewrite <- !app_assoc.
    rewrite (jnumber_shape (m <? 0) (fst p) (snd p) rest Hip Hf Hrest Hlead), Hmk, signed_abs. reflexivity.
Qed.

Local Close Scope Z_scope.

(* ---- lists and maps ---- *)

Lemma elems_of_S : forall jv n s acc, elems_of jv (S n) s acc =
  match jv s with
  | Some (v, r) =>
    match skip_ws r with
    | c :: r' => if N.eqb c b_comma then elems_of jv n r' (v :: acc)
                 else if N.eqb c b_rbrack then Some (VList (rev (v :: acc)), r')
                 else None
    | [] => None
    end
  | None => None
  end.
Proof. reflexivity. Qed.

Lemma members_of_S : forall jv n s acc, members_of jv (S n) s acc =
  match skip_ws s with
  | q :: r0 =>
    if negb (N.eqb q b_dquote) then None else
    match jstring r0 with
    | Some (key, r1) =>
      match skip_ws r1 with
      | c :: r2 =>
        if negb (N.eqb c b_colon) then None else
        match jv r2 with
        | Some (v, r3) =>
          match skip_ws r3 with
          | c' :: r4 => if N.eqb c' b_comma then members_of jv n r4 (map_set key v acc)
                        else if N.eqb c' b_rbrace then Some (VMap (map_set key v acc), r4)
                        else None
          | [] => None
          end
        | None => None
        end
      | [] => None
      end
    | None => None
    end
  | [] => None
  end.
Proof. reflexivity. Qed.

Definition RT (v : cval) : Prop :=
  jsafe v = true -> forall fuel rest, length (json_marshal v) < fuel -> rest_ok rest = true ->
  jvalue fuel (json_marshal v ++ rest) = Some (floatify v, rest).

Lemma join_comma_cons2 : forall x y r, join_comma (x :: y :: r) = x ++ b_comma :: join_comma (y :: r).
Proof. reflexivity. Qed.

Lemma json_marshal_list_eq : forall l,
  json_marshal (VList l) = b_lbrack :: join_comma (map json_marshal l) ++ [b_rbrack].
Proof. reflexivity. Qed.

Lemma json_marshal_map_eq : forall kvs,
  json_marshal (VMap kvs) =
  b_lbrace :: join_comma (map (fun kt : bytes * bytes => json_string (fst kt) ++ b_colon :: snd kt)
                              (sort_kvs (map (fun kv : bytes * cval => let (k, x) := kv in (k, json_marshal x)) kvs)))
           ++ [b_rbrace].
Proof. reflexivity. Qed.

Lemma length_join_comma_in : forall x l, In x l -> length x <= length (join_comma l).
Proof.
  intros x. induction l as [|y l IH]; intros H; [contradiction|].
  destruct l as [|z l].
  - destruct H as [->|[]]. cbn [join_comma]. lia.
  - rewrite join_comma_cons2, app_length. cbn [length]. destruct H as [->|H]; [lia|].
    specialize (IH H). unfold bytes in *. lia.
Qed.

Lemma elems_marshal : forall k l, l <> [] -> Forall RT l -> forallb jsafe l = true ->
  (forall x, In x l -> length (json_marshal x) < k) ->
  forall n acc rest, length (join_comma (map json_marshal l) ++ b_rbrack :: rest) <= n ->
  elems_of (jvalue k) n (join_comma (map json_marshal l) ++ b_rbrack :: rest) acc
  = Some (VList (rev acc ++ map floatify l), rest).
Proof.
  intros k. induction l as [|x l IH]; intros Hne HRT Hsafe Hlen n acc rest Hn; [congruence|].
  inversion HRT as [|? ? Hx Hl]; subst. cbn [forallb] in Hsafe. apply andb_true_iff in Hsafe.
  destruct Hsafe as [Sx Sl].
  destruct n as [|n]; [rewrite app_length in Hn; cbn [length] in Hn; lia|].
  rewrite elems_of_S. destruct l as [|y l].
  - cbn [map join_comma].
    rewrite (Hx Sx k (b_rbrack :: rest) (Hlen x (or_introl eq_refl)) eq_refl).
    rewrite skip_ws_nonws by reflexivity. change (N.eqb b_rbrack b_comma) with false.
    change (N.eqb b_rbrack b_rbrack) with true. cbv iota. cbn [rev map]. reflexivity.
  - cbn [map]. rewrite join_comma_cons2, <- app_assoc. cbn [app].
    rewrite (Hx Sx k (b_comma :: _) (Hlen x (or_introl eq_refl)) eq_refl).
    rewrite skip_ws_nonws by reflexivity. change (N.eqb b_comma b_comma) with true. cbv iota.
    change (json_marshal y :: map json_marshal l) with (map json_marshal (y :: l)).
    rewrite (IH ltac:(discriminate) Hl Sl (fun z Hz => Hlen z (or_intror Hz)) n (floatify x :: acc) rest).
    + cbn [rev]. rewrite <- app_assoc. reflexivity.
    + cbn [map] in Hn. rewrite join_comma_cons2, <- app_assoc in Hn. cbn [app] in Hn.
      rewrite app_length in Hn. cbn [length] in Hn. cbn [map]. lia.
Qed.

(* ---- maps ---- *)

Definition entry (kv : bytes * cval) : bytes := json_string (fst kv) ++ b_colon :: json_marshal (snd kv).

Lemma sort_kvs_sorted : forall (A : Type) (l : list (bytes * A)), keys_sorted (map fst l) = true -> sort_kvs l = l.
Proof.
  intros A. induction l as [|a l IH]; intros H; [reflexivity|].
  cbn [map keys_sorted] in H. apply andb_true_iff in H. destruct H as [Hh Ht].
  unfold sort_kvs in *. cbn [fold_right]. rewrite (IH Ht).
  destruct l as [|b l]; [reflexivity|].
  cbn [map forallb] in Hh. apply andb_true_iff in Hh. destruct Hh as [Hab _].
  apply andb_true_iff in Hab. destruct Hab as [Hle _]. cbn [ins_kv]. now rewrite Hle.
Qed.

Lemma marshal_map_sorted : forall kvs, keys_sorted (map fst kvs) = true ->
  json_marshal (VMap kvs) = b_lbrace :: join_comma (map entry kvs) ++ [b_rbrace].
Proof.
  intros kvs H. rewrite json_marshal_map_eq, sort_kvs_sorted.
  - rewrite map_map. do 3 f_equal. apply map_ext. intros [k x]. reflexivity.
  - rewrite map_map. erewrite map_ext; [exact H|]. intros [k x]. reflexivity.
Qed.

Lemma beqb_sym : forall a b, beqb a b = beqb b a.
Proof.
  intros a b. destruct (beqb a b) eqn:E1, (beqb b a) eqn:E2; try reflexivity.
  - apply beqb_eq in E1. subst. now rewrite beqb_refl in E2.
  - apply beqb_eq in E2. subst. now rewrite beqb_refl in E1.
Qed.

Lemma keys_sorted_app_notin : forall A k B, keys_sorted (A ++ k :: B) = true ->
  forallb (fun a => negb (beqb k a)) A = true.
Proof.
  induction A as [|a A IH]; intros k B H; [reflexivity|].
  cbn [app keys_sorted] in H. apply andb_true_iff in H. destruct H as [Hh Ht].
  cbn [forallb]. rewrite (IH k B Ht), andb_true_r.
  rewrite forallb_app in Hh. apply andb_true_iff in Hh. destruct Hh as [_ Hh]. cbn [forallb] in Hh.
  apply andb_true_iff in Hh. destruct Hh as [Hak _]. apply andb_true_iff in Hak. destruct Hak as [_ Hne].
  now rewrite beqb_sym.
Qed.

Lemma map_set_fresh : forall k v acc, forallb (fun a => negb (beqb k a)) (map fst acc) = true ->
  map_set k v acc = acc ++ [(k, v)].
Proof.
  intros k v. induction acc as [|[k' v'] acc IH]; intros H; [reflexivity|].
  cbn [map forallb fst] in H. apply andb_true_iff in H. destruct H as [Hk Hr]. apply negb_true_iff in Hk.
  cbn [map_set app]. rewrite Hk, (IH Hr). reflexivity.
Qed.

Lemma entry_app : forall kv tail, json_plain (fst kv) = true ->
  entry kv ++ tail = b_dquote :: fst kv ++ b_dquote :: b_colon :: json_marshal (snd kv) ++ tail.
Proof.
  intros kv tail H. unfold entry. rewrite (json_string_plain _ H). cbn [app].
  rewrite <- !app_assoc. cbn [app]. reflexivity.
Qed.

Definition fkv (kv : bytes * cval) : bytes * cval := (fst kv, floatify (snd kv)).

Lemma members_marshal : forall k kvs, kvs <> [] ->
  Forall (fun kv : bytes * cval => RT (snd kv)) kvs ->
  forallb (fun kv : bytes * cval => json_plain (fst kv) && jsafe (snd kv)) kvs = true ->
  (forall kv, In kv kvs -> length (json_marshal (snd kv)) < k) ->
  forall n acc rest, keys_sorted (map fst acc ++ map fst kvs) = true ->
  length (join_comma (map entry kvs) ++ b_rbrace :: rest) <= n ->
  members_of (jvalue k) n (join_comma (map entry kvs) ++ b_rbrace :: rest) acc
  = Some (VMap (acc ++ map fkv kvs), rest).
Proof.
  intros k. induction kvs as [|kv kvs IH]; intros Hne HRT Hsafe Hlen n acc rest Hkeys Hn; [congruence|].
  inversion HRT as [|? ? Hx Hl]; subst. cbn [forallb] in Hsafe. apply andb_true_iff in Hsafe.
  destruct Hsafe as [Sx Sl]. apply andb_true_iff in Sx. destruct Sx as [Pk Sx].
  destruct n as [|n]; [rewrite app_length in Hn; cbn [length] in Hn; lia|].
  rewrite members_of_S.
  assert (Hfresh : map_set (fst kv) (floatify (snd kv)) acc = acc ++ [fkv kv]).
  { apply map_set_fresh. cbn [map] in Hkeys. exact (keys_sorted_app_notin _ _ _ Hkeys). }
  destruct kvs as [|kv2 kvs].
  - cbn [map join_comma]. rewrite (entry_app kv _ Pk).
    rewrite skip_ws_nonws by reflexivity. change (negb (N.eqb b_dquote b_dquote)) with false. cbv iota.
    rewrite (jstring_plain _ _ Pk). rewrite skip_ws_nonws by reflexivity.
    change (negb (N.eqb b_colon b_colon)) with false. cbv iota.
    rewrite (Hx Sx k (b_rbrace :: rest) (Hlen kv (or_introl eq_refl)) eq_refl).
    rewrite skip_ws_nonws by reflexivity. change (N.eqb b_rbrace b_comma) with false.
    change (N.eqb b_rbrace b_rbrace) with true. cbv iota. rewrite Hfresh. reflexivity.
  - cbn [map]. rewrite join_comma_cons2, <- app_assoc. cbn [app]. rewrite (entry_app kv _ Pk).
    rewrite skip_ws_nonws by reflexivity. change (negb (N.eqb b_dquote b_dquote)) with false. cbv iota.
    rewrite (jstring_plain _ _ Pk). rewrite skip_ws_nonws by reflexivity.
    change (negb (N.eqb b_colon b_colon)) with false. cbv iota.
    rewrite (Hx Sx k (b_comma :: _) (Hlen kv (or_introl eq_refl)) eq_refl).
    rewrite skip_ws_nonws by reflexivity. change (N.eqb b_comma b_comma) with true. cbv iota.
    rewrite Hfresh.
    change (entry kv2 :: map entry kvs) with (map entry (kv2 :: kvs)).
    rewrite (IH ltac:(discriminate) Hl Sl (fun z Hz => Hlen z (or_intror Hz)) n (acc ++ [fkv kv]) rest).
    + rewrite <- app_assoc. reflexivity.
    + rewrite map_app, <- app_assoc. cbn [map app fkv fst]. exact Hkeys.
    + cbn [map] in Hn. rewrite join_comma_cons2, <- app_assoc in Hn. cbn [app] in Hn.
      rewrite app_length in Hn. cbn [length] in Hn. cbn [map]. lia.
Qed.

(* ---- the round trip ---- *)

Lemma digits_of_Z_head : forall z, exists c t, digits_of_Z z = c :: t /\ (is_digit c = true \/ c = b_minus).
Proof.
  intros z. unfold digits_of_Z. destruct (z <? 0)%Z.
  - eexists _, _. split; [reflexivity|now right].
  - pose proof (digits_of_N_digits (Z.to_N z)) as H.
    destruct (digits_of_N (Z.to_N z)) as [|c t] eqn:E; [exfalso; exact (digits_of_N_nonnil _ E)|].
    exists c, t. split; [reflexivity|left]. cbn [forallb] in H. now apply andb_true_iff in H.
Qed.

Lemma jvalue_number_head : forall k c r, is_digit c = true \/ c = b_minus ->
  jvalue (S k) (c :: r) = jnumber (c :: r).
Proof.
  intros k c r [H| ->]; rewrite jvalue_S.
  - destruct (is_digit_cases c H) as [->|[->|[->|[->|[->|[->|[->|[->|[->| ->]]]]]]]]]; reflexivity.
  - reflexivity.
Qed.

Lemma head_not_ws : forall c, is_digit c = true \/ c = b_minus -> is_ws c = false /\ N.eqb c b_rbrack = false.
Proof.
  intros c [H| ->]; [|split; reflexivity].
  destruct (is_digit_cases c H) as [->|[->|[->|[->|[->|[->|[->|[->|[->| ->]]]]]]]]]; split; reflexivity.
Qed.

Lemma dec_json_safe_spec : forall m e, dec_json_safe m e = true ->
  dec_normal m e = true /\ (m = 0 \/ (-6 <= dec_exp m e < 21))%Z.
Proof.
  intros m e H. unfold dec_json_safe in H. apply andb_true_iff in H. destruct H as [Hn H]. split; [exact Hn|].
  apply orb_true_iff in H. destruct H as [H|H]; [left; now apply Z.eqb_eq in H|right].
  apply andb_true_iff in H. destruct H as [H1 H2]. apply Z.leb_le in H1. apply Z.ltb_lt in H2. lia.
Qed.

Lemma dec_top_safe_spec : forall m e, dec_top_safe m e = true ->
  dec_normal m e = true /\ (m = 0 \/ (-4 <= dec_exp m e < 6))%Z.
Proof.
  intros m e H. unfold dec_top_safe in H. apply andb_true_iff in H. destruct H as [Hn H]. split; [exact Hn|].
  apply orb_true_iff in H. destruct H as [H|H]; [left; now apply Z.eqb_eq in H|right].
  apply andb_true_iff in H. destruct H as [H1 H2]. apply Z.leb_le in H1. apply Z.ltb_lt in H2. lia.
Qed.

(* the text of a float starts with a digit or the sign (read off the reader's own success) *)
Lemma fmt_float_json_head : forall m e, dec_json_safe m e = true ->
  exists c t, fmt_float_json m e = c :: t /\ (is_digit c = true \/ c = b_minus).
Proof.
  intros m e H. destruct (dec_json_safe_spec m e H) as [Hn Hr].
  pose proof (jnumber_float m e [] Hn Hr eq_refl) as Hj. rewrite app_nil_r in Hj.
  destruct (fmt_float_json m e) as [|c t]; [discriminate Hj|]. exists c, t. split; [reflexivity|].
  unfold jnumber in Hj. destruct (N.eqb_spec c b_minus) as [->|Hc]; [now right|left].
  cbn [span_digits] in Hj. destruct (is_digit c); [reflexivity|discriminate Hj].
Qed.

Lemma marshal_head : forall v, jsafe v = true ->
  exists c t, json_marshal v = c :: t /\ is_ws c = false /\ N.eqb c b_rbrack = false.
Proof.
  intros v H. destruct v as [|b|z|m e|s|l|kvs].
  - eexists _, _. repeat split; reflexivity.
  - destruct b; eexists _, _; repeat split; reflexivity.
  - destruct (digits_of_Z_head z) as (c & t & E & Hc). exists c, t. cbn [json_marshal]. split; [exact E|].
    now apply head_not_ws.
  - destruct (fmt_float_json_head m e H) as (c & t & E & Hc). exists c, t. cbn [json_marshal]. split; [exact E|].
    now apply head_not_ws.
  - eexists _, _. repeat split; reflexivity.
  - eexists _, _. rewrite json_marshal_list_eq. repeat split; reflexivity.
  - eexists _, _. rewrite json_marshal_map_eq. repeat split; reflexivity.
Qed.

Lemma join_head : forall x l, exists tl, join_comma (x :: l) = x ++ tl.
Proof.
  intros x [|y l]; [exists []; cbn [join_comma]; now rewrite app_nil_r|].
  eexists. apply join_comma_cons2.
Qed.

Theorem jvalue_marshal : forall v, RT v.
Proof.
  induction v as [|b|z|m e|s|l IH|kvs IH] using cval_ind'; intros Hs fuel rest Hf Hr.
  - destruct fuel; [cbn in Hf; lia|]. reflexivity.
  - destruct fuel; [destruct b; cbn in Hf; lia|]. destruct b; reflexivity.
  - destruct fuel; [lia|]. cbn [json_marshal floatify].
    destruct (digits_of_Z_head z) as (c & t & E & Hc). rewrite E. cbn [app].
    rewrite (jvalue_number_head fuel c (t ++ rest) Hc).
    change (c :: t ++ rest) with ((c :: t) ++ rest). rewrite <- E. now apply jnumber_int.
  - destruct fuel; [lia|]. cbn [jsafe] in Hs. cbn [json_marshal floatify].
    destruct (fmt_float_json_head m e Hs) as (c & t & E & Hc). rewrite E. cbn [app].
    rewrite (jvalue_number_head fuel c (t ++ rest) Hc).
    change (c :: t ++ rest) with ((c :: t) ++ rest). rewrite <- E.
    destruct (dec_json_safe_spec m e Hs) as [Hn Hrg]. now apply jnumber_float.
  - destruct fuel; [lia|]. cbn [jsafe] in Hs. cbn [json_marshal floatify].
    rewrite (json_string_plain s Hs). cbn [app]. rewrite <- app_assoc. cbn [app].
    rewrite jvalue_S, skip_ws_nonws by reflexivity. change (N.eqb b_dquote b_dquote) with true. cbv iota.
    now rewrite (jstring_plain s rest Hs).
  - (* lists *)
    destruct fuel as [|k]; [lia|]. cbn [jsafe] in Hs. rewrite json_marshal_list_eq in *.
    cbn [app]. rewrite <- app_assoc. cbn [app].
    rewrite jvalue_S, skip_ws_nonws by reflexivity.
    change (N.eqb b_lbrack b_dquote) with false. change (N.eqb b_lbrack b_lbrack) with true. cbv iota.
    destruct l as [|x l]; [reflexivity|].
    set (r := join_comma (map json_marshal (x :: l)) ++ b_rbrack :: rest).
    assert (Hrh : exists c t, r = c :: t /\ is_ws c = false /\ N.eqb c b_rbrack = false).
    { cbn [forallb] in Hs. apply andb_true_iff in Hs. destruct Hs as [Sx _].
      destruct (marshal_head x Sx) as (c & t & E & Hw & Hb).
      destruct (join_head (json_marshal x) (map json_marshal l)) as (tl & Ej).
      exists c, (t ++ tl ++ b_rbrack :: rest). split; [|split; assumption].
      unfold r. cbn [map]. rewrite Ej, E. cbn [app]. now rewrite <- app_assoc. }
    destruct Hrh as (c & t & Er & Hw & Hb). rewrite Er at 1. rewrite (skip_ws_nonws c t Hw), Hb.
    unfold r at 1 2.
    rewrite (elems_marshal k (x :: l) ltac:(discriminate) IH Hs).
    + reflexivity.
    + intros y Hy. cbn [length] in Hf. rewrite app_length in Hf. cbn [length] in Hf.
      pose proof (length_join_comma_in (json_marshal y) (map json_marshal (x :: l)) (in_map _ _ _ Hy)). lia.
    + apply le_n.
  - (* maps *)
    destruct fuel as [|k]; [lia|]. cbn [jsafe] in Hs. apply andb_true_iff in Hs. destruct Hs as [Hkeys Hs].
    rewrite (marshal_map_sorted kvs Hkeys) in *.
    cbn [app]. rewrite <- app_assoc. cbn [app].
    rewrite jvalue_S, skip_ws_nonws by reflexivity.
    change (N.eqb b_lbrace b_dquote) with false. change (N.eqb b_lbrace b_lbrack) with false.
    change (N.eqb b_lbrace b_lbrace) with true. cbv iota.
    destruct kvs as [|kv kvs]; [reflexivity|].
    set (r := join_comma (map entry (kv :: kvs)) ++ b_rbrace :: rest).
    assert (Hrh : exists t, r = b_dquote :: t).
    { destruct (join_head (entry kv) (map entry kvs)) as (tl & Ej).
      unfold r. cbn [map]. rewrite Ej. unfold entry at 1, json_string. cbn [app]. eexists. reflexivity. }
    destruct Hrh as (t & Er). rewrite Er at 1. rewrite skip_ws_nonws by reflexivity.
    change (N.eqb b_dquote b_rbrace) with false. cbv iota.
    unfold r at 1 2.
    rewrite (members_marshal k (kv :: kvs) ltac:(discriminate) IH Hs).
    + reflexivity.
    + intros y Hy. cbn [length] in Hf. rewrite app_length in Hf. cbn [length] in Hf.
      pose proof (length_join_comma_in (entry y) (map entry (kv :: kvs)) (in_map _ _ _ Hy)) as Hle.
      unfold entry at 1 in Hle. rewrite app_length in Hle. cbn [length] in Hle. lia.
    + exact Hkeys.
    + apply le_n.
Qed.

(* ---- ParseAny on the JSON text of a list / map ------------------------------------------------------- *)

Lemma json_parse_marshal : forall v, jsafe v = true -> json_parse (json_marshal v) = Some (floatify v).
Proof.
  intros v Hs. unfold json_parse.
  pose proof (jvalue_marshal v Hs (S (length (json_marshal v))) [] (le_n _) eq_refl) as H.
  rewrite app_nil_r in H. rewrite H. reflexivity.
Qed.

Lemma ends_with_snoc : forall c x, ends_with c (x ++ [c]) = true.
Proof. intros c x. unfold ends_with, last_byte. rewrite rev_app_distr. cbn [rev app]. apply N.eqb_refl. Qed.

Lemma ends_with_cons_snoc : forall a c x, ends_with c (a :: x ++ [c]) = true.
Proof. intros a c x. change (a :: x ++ [c]) with ((a :: x) ++ [c]). apply ends_with_snoc. Qed.

Lemma parse_any_list_text : forall J v,
  json_parse (b_lbrack :: J ++ [b_rbrack]) = Some v ->
  parse_any (b_lbrack :: J ++ [b_rbrack]) = Ok v.
Proof.
  intros J v H. unfold parse_any. cbn [length parse_any_fuel].
  set (s := b_lbrack :: J ++ [b_rbrack]) in *.
  assert (H1 : beqb (map lower_ascii s) lit_true = false) by reflexivity.
  assert (H2 : beqb (map lower_ascii s) lit_false = false) by reflexivity.
  assert (H3 : is_number s = false) by (apply is_number_plain; reflexivity).
  assert (H4 : is_map s = false).
  { unfold is_map, s. cbn [has_prefix lit_mapopen starts_with]. 
    change (N.eqb 109 b_lbrack) with false. change (N.eqb b_lbrace b_lbrack) with false.
    cbn [andb]. now rewrite !andb_false_r. }
  assert (H5 : is_slice s = true).
  { unfold is_slice, s. rewrite ends_with_cons_snoc. cbn [length starts_with]. rewrite app_length. cbn [length].
    change (N.eqb b_lbrack b_lbrack) with true. rewrite !andb_true_r. apply Nat.ltb_lt. lia. }
  rewrite H1, H2, H3, H4, H5, H. reflexivity.
Qed.

Lemma parse_any_map_text : forall J v,
  json_parse (b_lbrace :: J ++ [b_rbrace]) = Some v ->
  parse_any (b_lbrace :: J ++ [b_rbrace]) = Ok v.
Proof.
  intros J v H. unfold parse_any. cbn [length parse_any_fuel].
  set (s := b_lbrace :: J ++ [b_rbrace]) in *.
  assert (H1 : beqb (map lower_ascii s) lit_true = false) by reflexivity.
  assert (H2 : beqb (map lower_ascii s) lit_false = false) by reflexivity.
  assert (H3 : is_number s = false) by (apply is_number_plain; reflexivity).
  assert (H4 : is_map s = true).
  { unfold is_map. rewrite H. unfold s at 4 5 6. rewrite ends_with_cons_snoc. cbn [length starts_with].
    rewrite app_length. cbn [length]. change (N.eqb b_lbrace b_lbrace) with true. rewrite !andb_true_r.
    apply orb_true_iff. right. apply Nat.ltb_lt. lia. }
  rewrite H1, H2, H3, H4, H. reflexivity.
Qed.

Theorem parse_any_marshal : forall v, jsafe v = true ->
  match v with VList _ | VMap _ => parse_any (json_marshal v) = Ok (floatify v) | _ => True end.
Proof.
  intros v Hs. destruct v as [| | | | |l|kvs]; try exact I.
  - pose proof (json_parse_marshal _ Hs) as H. rewrite json_marshal_list_eq in *. now apply parse_any_list_text.
  - pose proof (json_parse_marshal _ Hs) as H. rewrite json_marshal_map_eq in *. now apply parse_any_map_text.
Qed.

(* ---- decoding the floatified value -------------------------------------------------------------------- *)

Lemma dec_of_Z_is_dec : forall z, exists m e, dec_of_Z z = VDec m e.
Proof. intros z. unfold dec_of_Z, mk_dec. destruct (_ =? 0)%Z; eauto. Qed.

Lemma floatify_map_eq : forall kvs, floatify (VMap kvs) = VMap (map fkv kvs).
Proof. reflexivity. Qed.

Lemma no_int_floatify : forall v, no_int v = true -> floatify v = v.
Proof.
  induction v as [|b|z|m e|s|l IH|kvs IH] using cval_ind'; intros H; try reflexivity.
  - discriminate H.
  - cbn [floatify]. f_equal. cbn [no_int] in H. induction l as [|x l IHl]; [reflexivity|].
    inversion IH; subst. cbn [forallb] in H. apply andb_true_iff in H. destruct H as [Hx Hl].
    cbn [map]. f_equal; auto.
  - cbn [floatify]. f_equal. cbn [no_int] in H. induction kvs as [|[k x] kvs IHl]; [reflexivity|].
    inversion IH; subst. cbn [forallb snd] in H. apply andb_true_iff in H. destruct H as [Hx Hl].
    cbn [map fst snd]. f_equal; [f_equal; auto|auto].
Qed.

Lemma map_get_fkv : forall n kvs, map_get n (map fkv kvs) = option_map floatify (map_get n kvs).
Proof.
  intros n. induction kvs as [|[k x] kvs IH]; [reflexivity|].
  cbn [map fkv fst snd map_get]. destruct (beqb n k); [reflexivity|exact IH].
Qed.

Lemma map_get_fold_fkv : forall n kvs, map_get_fold n (map fkv kvs) = option_map floatify (map_get_fold n kvs).
Proof.
  intros n. induction kvs as [|[k x] kvs IH]; [reflexivity|].
  cbn [map fkv fst snd map_get_fold]. destruct (beqb _ _); [reflexivity|exact IH].
Qed.

Lemma field_lookup_fkv : forall n kvs, field_lookup n (map fkv kvs) = option_map floatify (field_lookup n kvs).
Proof.
  intros n kvs. unfold field_lookup. rewrite map_get_fkv, map_get_fold_fkv.
  destruct (map_get n kvs); reflexivity.
Qed.

Lemma map_get_in : forall n kvs fv, map_get n kvs = Some fv -> exists k, In (k, fv) kvs.
Proof.
  intros n. induction kvs as [|[k x] kvs IH]; intros fv H; [discriminate|].
  cbn [map_get] in H. destruct (beqb n k).
  - injection H as <-. exists k. now left.
  - destruct (IH fv H) as (k' & Hin). exists k'. now right.
Qed.

Lemma map_get_fold_in : forall n kvs fv, map_get_fold n kvs = Some fv -> exists k, In (k, fv) kvs.
Proof.
  intros n. induction kvs as [|[k x] kvs IH]; intros fv H; [discriminate|].
  cbn [map_get_fold] in H. destruct (beqb _ _).
  - injection H as <-. exists k. now left.
  - destruct (IH fv H) as (k' & Hin). exists k'. now right.
Qed.

Lemma field_lookup_in : forall n kvs fv, field_lookup n kvs = Some fv -> exists k, In (k, fv) kvs.
Proof.
  intros n kvs fv H. unfold field_lookup in H. destruct (map_get n kvs) as [x|] eqn:E.
  - injection H as <-. exact (map_get_in _ _ _ E).
  - exact (map_get_fold_in _ _ _ H).
Qed.

Definition FL (T : ftype) : Prop :=
  forall v, jsafe v = true -> nsafe T v = true -> dw T (floatify v) = dw T v.

Lemma FL_scalar_int : forall T z, int_safe z = true ->
  match T with TString | TBool | TInt _ | TUint _ | TFloat _ | TMap _ | TStruct _ => True | _ => False end ->
  dw T (dec_of_Z z) = dw T (VInt z).
Proof.
  intros T z Hs HT. destruct (dec_of_Z_is_dec z) as (m & e & E).
  destruct (scalar_dec_of_Z z Hs) as (H1 & H2 & H3 & H4 & H5).
  destruct T; try contradiction; rewrite E; cbn [dw]; try rewrite <- E; auto.
Qed.

Lemma map_ext_in' : forall (A B : Type) (f g : A -> B) (l : list A),
  (forall a, In a l -> f a = g a) -> map f l = map g l.
Proof. intros. now apply map_ext_in. Qed.

Lemma nsafe_int : forall T z, nsafe T (VInt z) = int_target T.
Proof. intros T z. destruct T; reflexivity. Qed.

Theorem dw_floatify : forall T, FL T.
Proof.
  induction T as [| | b | b | b | | t IH | t IH | t IH | fs IH] using ftype_ind'; intros v Hj Hn;
    (destruct v as [|bb|z|m e|s|l|kvs]; [reflexivity|reflexivity| |reflexivity|reflexivity| | ]);
    try (cbn [floatify]; apply FL_scalar_int; [exact Hj|exact I]);
    try (rewrite (no_int_floatify _ Hn); reflexivity).
  - (* TAny, VInt *) discriminate Hn.
  - (* TPtr, VInt *) cbn [floatify]. destruct (dec_of_Z_is_dec z) as (m & e & E). rewrite E. cbn [dw]. rewrite <- E.
    f_equal. apply (IH (VInt z) Hj). rewrite nsafe_int in *. exact Hn.
  - (* TPtr, VList *) cbn [nsafe] in Hn. change (dw (TPtr t) (floatify (VList l))) with (rmap FPtr (dw t (floatify (VList l)))).
    cbn [dw]. f_equal. exact (IH _ Hj Hn).
  - (* TPtr, VMap *) cbn [nsafe] in Hn. rewrite floatify_map_eq.
    change (dw (TPtr t) (VMap (map fkv kvs))) with (rmap FPtr (dw t (VMap (map fkv kvs)))).
    cbn [dw]. f_equal. rewrite <- floatify_map_eq. exact (IH _ Hj Hn).
  - (* TSlice, VInt *) cbn [floatify]. destruct (dec_of_Z_is_dec z) as (m & e & E). rewrite E. cbn [dw]. rewrite <- E.
    f_equal. apply (IH (VInt z) Hj). rewrite nsafe_int in *. exact Hn.
  - (* TSlice, VList *) cbn [nsafe] in Hn. cbn [jsafe] in Hj. cbn [floatify dw]. rewrite map_map. do 2 f_equal.
    apply map_ext_in'. intros x Hx. apply IH.
    + exact (proj1 (forallb_forall _ _) Hj x Hx).
    + exact (proj1 (forallb_forall _ _) Hn x Hx).
  - (* TSlice, VMap *) destruct kvs as [|kv kvs]; [reflexivity|].
    cbn [nsafe] in Hn. rewrite floatify_map_eq. cbn [map].
    change (dw (TSlice t) (VMap (fkv kv :: map fkv kvs)))
      with (rmap (fun x => FSlice [x]) (dw t (VMap (map fkv (kv :: kvs))))).
    change (dw (TSlice t) (VMap (kv :: kvs))) with (rmap (fun x => FSlice [x]) (dw t (VMap (kv :: kvs)))).
    f_equal. rewrite <- floatify_map_eq. exact (IH _ Hj Hn).
  - (* TMap, VMap *) cbn [nsafe] in Hn. cbn [jsafe] in Hj. apply andb_true_iff in Hj. destruct Hj as [_ Hj].
    rewrite floatify_map_eq. cbn [dw]. rewrite map_map. do 2 f_equal.
    apply map_ext_in'. intros kv Hkv. cbn [fkv fst snd]. f_equal. apply IH.
    + pose proof (proj1 (forallb_forall _ _) Hj kv Hkv) as H. now apply andb_true_iff in H.
    + exact (proj1 (forallb_forall _ _) Hn kv Hkv).
  - (* TStruct, VMap *) cbn [nsafe] in Hn. cbn [jsafe] in Hj. apply andb_true_iff in Hj. destruct Hj as [_ Hj].
    rewrite floatify_map_eq. cbn [dw]. f_equal.
    induction fs as [|[n t] fs IHfs]; [reflexivity|].
    inversion IH as [|? ? Ht Hrest]; subst. cbn [snd] in Ht.
    apply andb_true_iff in Hn. destruct Hn as [Hn1 Hn2].
    rewrite (IHfs Hrest Hn2). rewrite field_lookup_fkv.
    destruct (field_lookup n kvs) as [fv|] eqn:El; [|reflexivity].
    cbn [option_map]. rewrite Ht; [reflexivity| |exact Hn1].
    destruct (field_lookup_in _ _ _ El) as (k & Hin).
    pose proof (proj1 (forallb_forall _ _) Hj _ Hin) as H. cbn [fst snd] in H. now apply andb_true_iff in H.
Qed.

(* ---- the routes agree on [safe] ------------------------------------------------------------------------- *)

Lemma bind_value_cons : forall c t T,
  bind_value (c :: t) T = rbind (parse_any (c :: t)) (fun v => decode_weak v T).
Proof. reflexivity. Qed.

Lemma json_marshal_nonnil : forall v, jsafe v = true -> exists c t, json_marshal v = c :: t.
Proof. intros v H. destruct (marshal_head v H) as (c & t & E & _). eauto. Qed.

Theorem paths_agree : forall fx v T, safe fx v T = true -> bind_formatted fx v T = bind_prefix v T.
Proof.
  intros fx v T H. destruct v as [|b|z|m e|s|l|kvs]; try discriminate H.
  - destruct b; reflexivity.
  - cbn [safe] in H. apply andb_true_iff in H. destruct H as [Hs Hi].
    unfold bind_formatted. cbn [format_cfg format_any rbind].
    destruct (digits_of_Z z) as [|c t] eqn:E; [exfalso; exact (digits_of_Z_nonnil _ E)|].
    rewrite bind_value_cons, <- E, parse_any_digits. cbn [rbind]. unfold decode_weak, bind_prefix, bind_prefix_r.
    apply (dw_floatify T (VInt z)); [exact Hs|now rewrite nsafe_int].
  - cbn [safe] in H. unfold bind_formatted. cbn [format_cfg]. destruct fx.
    + pose proof (parse_any_float_f m e H) as Hp. cbn [rbind].
      destruct (fmt_float_f m e) as [|c t]; [discriminate Hp|].
      rewrite bind_value_cons, Hp. reflexivity.
    + destruct (dec_top_safe_spec m e H) as [Hn Hr].
      pose proof (parse_any_float_v m e Hn Hr) as Hp. cbn [format_any rbind].
      destruct (fmt_float_v m e) as [|c t]; [discriminate Hp|].
      rewrite bind_value_cons, Hp. reflexivity.
  - cbn [safe] in H. apply andb_true_iff in H. destruct H as [Hp Hne].
    unfold bind_formatted. cbn [format_cfg format_any rbind]. destruct s as [|c t]; [discriminate Hne|].
    rewrite bind_value_cons, (plain_parse _ Hp). reflexivity.
  - cbn [safe] in H. apply andb_true_iff in H. destruct H as [Hj Hn].
    unfold bind_formatted. cbn [format_cfg format_any rbind].
    destruct (json_marshal_nonnil _ Hj) as (c & t & E). rewrite E, bind_value_cons, <- E.
    rewrite (parse_any_marshal (VList l) Hj). cbn [rbind]. exact (dw_floatify T _ Hj Hn).
  - cbn [safe] in H. apply andb_true_iff in H. destruct H as [Hj Hn].
    unfold bind_formatted. cbn [format_cfg format_any rbind].
    destruct (json_marshal_nonnil _ Hj) as (c & t & E). rewrite E, bind_value_cons, <- E.
    rewrite (parse_any_marshal (VMap kvs) Hj). cbn [rbind]. exact (dw_floatify T _ Hj Hn).
Qed.

(* ---- through the placeholder stage ---------------------------------------------------------------------- *)

Lemma find_first_absent : forall sig s, forallb (fun c => negb (N.eqb c sig)) s = true -> find_first sig s = None.
Proof.
  intros sig. induction s as [|a s IH]; intros H; [reflexivity|].
  cbn [forallb] in H. apply andb_true_iff in H. destruct H as [Ha Hs]. apply negb_true_iff in Ha.
  cbn [find_first]. assert (Hm : match_at sig (a :: s) = None).
  { unfold match_at. destruct s as [|b r]; [reflexivity|]. now rewrite Ha. }
  rewrite Hm, (IH Hs). reflexivity.
Qed.

Lemma inert_split : forall s, inert s = true ->
  forallb (fun c => negb (N.eqb c b_dollar)) s = true /\ forallb (fun c => negb (N.eqb c b_hash)) s = true.
Proof.
  induction s as [|a s IH]; intros H; [split; reflexivity|].
  cbn [inert forallb] in H. apply andb_true_iff in H. destruct H as [Ha Hs].
  apply negb_true_iff, orb_false_iff in Ha. destruct Ha as [H1 H2].
  destruct (IH Hs) as [I1 I2]. cbn [forallb]. rewrite H1, H2, I1, I2. split; reflexivity.
Qed.

Definition key_ok (key : bytes) : bool :=
  brace_free key && match byte_index b_colon key with None => true | Some _ => false end.

Lemma ph_mtext : forall key, ph key = [] ++ mtext b_dollar key ++ [].
Proof. intros key. unfold ph, mtext. cbn [app]. now rewrite app_nil_r. Qed.

Lemma format_cfg_false : forall v, format_cfg false v = format_any v.
Proof. intros v. destruct v; reflexivity. Qed.

(* [resolve_fx] is Placeholder.resolve (Model/Values.v keeps the name as an abbreviation); its unrepaired
   variant is the callback that splices FormatAny's text for every value *)
Lemma resolve_fx_false : forall cfg exp,
  resolve_fx false cfg exp =
  (let (key, dflt) := split_first b_colon exp in
   let v := cfg key in
   rbind (if absent v then
            match dflt with
            | Some (c :: d) => parse_any (c :: d)
            | _ => Ok v
            end
          else Ok v)
         (fun v' => match v' with VNull => Ok [] | _ => format_any v' end)).
Proof. exact resolve_unrepaired. Qed.

Lemma resolve_fx_key : forall fx cfg key, byte_index b_colon key = None -> cfg key <> VNull ->
  resolve fx cfg key = format_cfg fx (cfg key).
Proof.
  intros fx cfg key Hc Hnn. unfold resolve. rewrite (split_first_none _ _ Hc).
  assert (H : (if absent (cfg key) then Ok (cfg key) else Ok (cfg key)) = @Ok cval (cfg key)) by (destruct (absent (cfg key)); reflexivity).
  rewrite H. cbn [rbind]. destruct (cfg key); try reflexivity. congruence.
Qed.

Lemma quote_stage_key : forall fx cfg key text, key_ok key = true -> cfg key <> VNull ->
  format_cfg fx (cfg key) = Ok text -> inert text = true ->
  find_first b_dollar (ph key) <> None /\
  replace_all_content b_dollar (resolve fx cfg) (Some repo_budget) O (ph key) = Done text.
Proof.
  intros fx cfg key text Hk Hnn Hf Hi. unfold key_ok in Hk. apply andb_true_iff in Hk. destruct Hk as [Hb Hc].
  destruct (byte_index b_colon key) eqn:Ec; [discriminate|].
  split.
  - rewrite ph_mtext, (find_first_at b_dollar eq_refl eq_refl [] key [] eq_refl Hb). discriminate.
  - unfold replace_all_content. change repo_budget with (S 1023).
    rewrite ph_mtext, (rac_step_at b_dollar eq_refl eq_refl (resolve fx cfg) Exhausted 1023 [] key [] eq_refl Hb).
    rewrite (resolve_fx_key fx cfg key Ec Hnn), Hf. cbn [app]. rewrite app_nil_r, rac_loop_eq.
    destruct (inert_split text Hi) as [I1 _]. now rewrite (find_first_absent _ _ I1).
Qed.

Theorem paths_agree_key : forall fx cfg key T text,
  key_ok key = true -> safe fx (cfg key) T = true -> format_cfg fx (cfg key) = Ok text -> inert text = true ->
  bind_key_value fx cfg key T = Some (bind_prefix (cfg key) T).
Proof.
  intros fx cfg key T text Hk Hs Hf Hi.
  assert (Hnn : cfg key <> VNull) by (intros E; rewrite E in Hs; discriminate Hs).
  destruct (quote_stage_key fx cfg key text Hk Hnn Hf Hi) as [Hff Hq].
  unfold bind_key_value, bind_tag_value. destruct (find_first b_dollar (ph key)); [|congruence].
  rewrite Hq. unfold expr_free. destruct (inert_split text Hi) as [_ I2]. rewrite (find_first_absent _ _ I2).
  f_equal. rewrite <- (paths_agree _ _ _ Hs). unfold bind_formatted. rewrite Hf. reflexivity.
Qed.

(* ---- a default is for absent keys only ------------------------------------------------------------------------ *)

(* one placeholder whose body resolves to an inert text: the ${} stage leaves exactly that text *)
Lemma quote_stage_body : forall fx cfg body text, brace_free body = true ->
  resolve fx cfg body = Ok text -> inert text = true ->
  find_first b_dollar (ph body) <> None /\
  replace_all_content b_dollar (resolve fx cfg) (Some repo_budget) O (ph body) = Done text.
Proof.
  intros fx cfg body text Hb Hr Hi. split.
  - rewrite ph_mtext, (find_first_at b_dollar eq_refl eq_refl [] body [] eq_refl Hb). discriminate.
  - unfold replace_all_content. change repo_budget with (S 1023).
    rewrite ph_mtext, (rac_step_at b_dollar eq_refl eq_refl (resolve fx cfg) Exhausted 1023 [] body [] eq_refl Hb).
    rewrite Hr. cbn [app]. rewrite app_nil_r, rac_loop_eq.
    destruct (inert_split text Hi) as [I1 _]. now rewrite (find_first_absent _ _ I1).
Qed.

Lemma bind_tag_value_body : forall fx cfg req body text T, brace_free body = true ->
  resolve fx cfg body = Ok text -> inert text = true ->
  bind_tag_value fx cfg req (ph body) T = Some (bind_value_r req text T).
Proof.
  intros fx cfg req body text T Hb Hr Hi.
  destruct (quote_stage_body fx cfg body text Hb Hr Hi) as [Hff Hq].
  unfold bind_tag_value. destruct (find_first b_dollar (ph body)); [|congruence].
  rewrite Hq. unfold expr_free. destruct (inert_split text Hi) as [_ I2]. now rewrite (find_first_absent _ _ I2).
Qed.

(* value:"${key:d}" on a key that is PRESENT (not nil / empty map / empty list - the empty string is present) binds
   what value:"${key}" binds: the text the callback renders for the configured value, for every field type and with
   or without required=false *)
Theorem default_ignored_when_present : forall fx cfg key d req T text,
  key_ok key = true -> brace_free d = true -> absent (cfg key) = false ->
  format_cfg fx (cfg key) = Ok text -> inert text = true ->
  bind_tag_value fx cfg req (ph (key_dflt key (Some d))) T = bind_tag_value fx cfg req (ph key) T /\
  bind_tag_value fx cfg req (ph key) T = Some (bind_value_r req text T).
Proof.
  intros fx cfg key d req T text Hk Hd Ha Hf Hi. unfold key_ok in Hk. apply andb_true_iff in Hk. destruct Hk as [Hb Hc].
  destruct (byte_index b_colon key) eqn:Ec; [discriminate|].
  assert (R1 : resolve fx cfg (key ++ b_colon :: d) = Ok text).
  { rewrite (resolve_present fx cfg key (b_colon :: d) Ec (or_intror (ex_intro _ d eq_refl)) Ha). exact Hf. }
  assert (R0 : resolve fx cfg key = Ok text).
  { rewrite <- (app_nil_r key) at 1. rewrite (resolve_present fx cfg key [] Ec (or_introl eq_refl) Ha). exact Hf. }
  assert (Hbd : brace_free (key ++ b_colon :: d) = true).
  { apply brace_free_app. split; [exact Hb|].
    change (brace_free (b_colon :: d)) with (negb (is_brace b_colon) && brace_free d). rewrite Hd. reflexivity. }
  unfold key_dflt.
  rewrite (bind_tag_value_body fx cfg req _ text T Hbd R1 Hi), (bind_tag_value_body fx cfg req _ text T Hb R0 Hi).
  split; reflexivity.
Qed.

(* ---- literals ---------------------------------------------------------------------------------------------- *)

Theorem literal_string : forall s, plain s = true -> s <> [] -> bind_value s TString = Ok (FStr s).
Proof.
  intros [|c t] Hp Hne; [congruence|]. rewrite bind_value_cons, (plain_parse _ Hp). reflexivity.
Qed.

Theorem literal_string_optional : forall s, plain s = true -> bind_value_r false s TString = Ok (FStr s).
Proof.
  intros [|c t] Hp; [reflexivity|]. unfold bind_value_r. rewrite (plain_parse _ Hp). reflexivity.
Qed.

Theorem literal_tag : forall fx cfg req s T, inert s = true ->
  bind_tag_value fx cfg req s T = Some (bind_value_r req s T).
Proof.
  intros fx cfg req s T Hi. destruct (inert_split s Hi) as [I1 I2]. unfold bind_tag_value, expr_free.
  now rewrite (find_first_absent _ _ I1), (find_first_absent _ _ I2).
Qed.

(* ---- the prop shorthand ------------------------------------------------------------------------------------- *)

Local Open Scope Z_scope.

(* bytes that neither separate arguments nor open / close a bracket group *)
Definition simple_byte (c : N) : bool := negb (N.eqb c b_comma || is_left c || is_right c).
Definition simple_key (key : bytes) : bool := forallb simple_byte key.

Lemma simple_byte_spec : forall c, simple_byte c = true ->
  N.eqb b_comma c = false /\ is_left c = false /\ is_right c = false.
Proof.
  intros c H. unfold simple_byte in H. apply negb_true_iff in H.
  apply orb_false_iff in H. destruct H as [H Hr]. apply orb_false_iff in H. destruct H as [Hc Hl].
  rewrite N.eqb_sym. auto.
Qed.

Lemma byte_index_simple : forall key, simple_key key = true -> byte_index b_comma key = None.
Proof.
  induction key as [|c key IH]; intros H; [reflexivity|].
  cbn [simple_key forallb] in H. apply andb_true_iff in H. destruct H as [Hc Hk].
  destruct (simple_byte_spec c Hc) as (E & _ & _). cbn [byte_index]. now rewrite E, (IH Hk).
Qed.

(* outside every bracket group the loop walks to the separator it already knows *)
Lemma index_loop_walk : forall p rest i, simple_key p = true ->
  index_loop b_comma (p ++ b_comma :: rest) i 0 (i + Z.of_nat (length p)) = i + Z.of_nat (length p).
Proof.
  induction p as [|c p IH]; intros rest i H.
  - cbn [app length index_loop]. change (is_left b_comma) with false. change (is_right b_comma) with false.
    cbv iota. replace (i + Z.of_nat 0) with i by lia. rewrite !Z.eqb_refl, Z.leb_refl. reflexivity.
  - cbn [simple_key forallb] in H. apply andb_true_iff in H. destruct H as [Hc Hp].
    destruct (simple_byte_spec c Hc) as (_ & Hl & Hr).
    cbn [app index_loop]. rewrite Hl, Hr. cbn [length].
    destruct (Z.leb_spec (i + Z.of_nat (S (length p))) i); [lia|]. rewrite andb_false_r.
    replace (i + Z.of_nat (S (length p))) with ((i + 1) + Z.of_nat (length p)) by lia.
    apply IH, Hp.
Qed.

(* inside a bracket group nothing happens *)
Lemma index_loop_inside : forall p rest i inn idx, simple_key p = true -> inn <> 0 ->
  index_loop b_comma (p ++ rest) i inn idx = index_loop b_comma rest (i + Z.of_nat (length p)) inn idx.
Proof.
  induction p as [|c p IH]; intros rest i inn idx H Hinn.
  - cbn [app length]. f_equal. lia.
  - cbn [simple_key forallb] in H. apply andb_true_iff in H. destruct H as [Hc Hp].
    destruct (simple_byte_spec c Hc) as (_ & Hl & Hr).
    cbn [app index_loop]. rewrite Hl, Hr. destruct (Z.eqb_spec inn 0); [contradiction|]. cbn [andb].
    rewrite (IH rest (i + 1) inn idx Hp Hinn). f_equal. cbn [length]. lia.
Qed.

Lemma index_skip_key : forall key a, simple_key key = true ->
  index_skip b_comma (key ++ b_comma :: a) = Z.of_nat (length key).
Proof.
  intros key a H. unfold index_skip.
  rewrite (byte_index_app_notin b_comma key a (byte_index_simple key H)).
  exact (index_loop_walk key a 0 H).
Qed.

Lemma index_skip_nocomma : forall s, byte_index b_comma s = None -> index_skip b_comma s = -1.
Proof. intros s H. unfold index_skip. now rewrite H. Qed.

Lemma index_skip_ph : forall key a, simple_key key = true ->
  index_skip b_comma (ph key ++ b_comma :: a) = Z.of_nat (length key) + 3.
Proof.
  intros key a H. unfold index_skip, ph.
  assert (Hbi : byte_index b_comma ((b_dollar :: b_lbrace :: key ++ [b_rbrace]) ++ b_comma :: a)
                = Some (S (S (S (length key))))).
  { change (b_dollar :: b_lbrace :: key ++ [b_rbrace]) with ([b_dollar; b_lbrace] ++ key ++ [b_rbrace]).
    rewrite <- !app_assoc. cbn [app byte_index]. change (N.eqb b_comma b_dollar) with false.
    change (N.eqb b_comma b_lbrace) with false. cbv iota.
    pose proof (byte_index_app_notin b_comma (key ++ [b_rbrace]) a) as Hx.
    rewrite <- app_assoc in Hx. cbn [app] in Hx. rewrite Hx.
    - rewrite app_length. cbn [length option_map]. f_equal. lia.
    - clear Hx. induction key as [|c key IH]; [reflexivity|].
      cbn [simple_key forallb] in H. apply andb_true_iff in H. destruct H as [Hc Hk].
      destruct (simple_byte_spec c Hc) as (E & _ & _). cbn [app byte_index]. now rewrite E, (IH Hk). }
  rewrite Hbi. cbn [app]. rewrite <- app_assoc. cbn [app].
  (* '$' *)
  cbn [index_loop]. change (is_left b_dollar) with false. change (is_right b_dollar) with false. cbv iota.
  change (0 =? 0) with true. destruct (Z.leb_spec (Z.of_nat (S (S (S (length key))))) 0); [lia|]. cbn [andb].
  (* '{' *)
  change (is_left b_lbrace) with true. cbv iota.
  (* the key, inside the braces *)
  rewrite (index_loop_inside key _ (0 + 1 + 1) (0 + 1) _ H ltac:(lia)).
  (* '}' closes the group: the separator is looked up again, right behind it *)
  cbn [index_loop]. change (is_left b_rbrace) with false. change (is_right b_rbrace) with true. cbv iota.
  change (0 + 1 - 1 =? 0) with true. cbv iota. cbn [byte_index]. change (N.eqb b_comma b_comma) with true. cbv iota.
  change (is_left b_comma) with false. change (is_right b_comma) with false. cbv iota.
  replace (Z.of_nat 0 + (0 + 1 + 1 + Z.of_nat (length key)) + 1) with (0 + 1 + 1 + Z.of_nat (length key) + 1) by lia.
  rewrite Z.leb_refl, !Z.eqb_refl. cbn [andb]. lia.
Qed.

Lemma firstn_Z_len_app : forall (p x : bytes), firstn (Z.to_nat (Z.of_nat (length p))) (p ++ x) = p.
Proof. intros p x. rewrite Nat2Z.id. apply firstn_len_app. Qed.

Lemma skipn_Z_len_app : forall (p x : bytes), skipn (Z.to_nat (Z.of_nat (length p))) (p ++ x) = x.
Proof. intros p x. rewrite Nat2Z.id. apply skipn_len_app. Qed.

Lemma prop_rewrite_args : forall key a, simple_key key = true ->
  prop_rewrite (key ++ b_comma :: a) = ph key ++ b_comma :: a.
Proof.
  intros key a H. unfold prop_rewrite. rewrite (index_skip_key key a H).
  destruct (Z.ltb_spec (Z.of_nat (length key)) 0); [lia|].
  rewrite firstn_Z_len_app, skipn_Z_len_app. unfold ph. cbn [app]. now rewrite <- app_assoc.
Qed.

Lemma prop_rewrite_noargs : forall key, simple_key key = true -> prop_rewrite key = ph key.
Proof.
  intros key H. unfold prop_rewrite. now rewrite (index_skip_nocomma key (byte_index_simple key H)).
Qed.

Lemma count_comma_simple : forall key, simple_key key = true -> count_byte b_comma key = O.
Proof.
  induction key as [|c key IH]; intros H; [reflexivity|].
  cbn [simple_key forallb] in H. apply andb_true_iff in H. destruct H as [Hc Hk].
  destruct (simple_byte_spec c Hc) as (E & _ & _). unfold count_byte in *. cbn [filter]. rewrite E. now apply IH.
Qed.

Lemma tag_value_part_ph : forall key, simple_key key = true -> tag_value_part (ph key) = ph key.
Proof.
  intros key H. unfold tag_value_part, split_blocks.
  assert (Hc : count_byte b_comma (ph key) = O).
  { unfold ph, count_byte. cbn [filter]. change (N.eqb b_comma b_dollar) with false.
    change (N.eqb b_comma b_lbrace) with false. cbv iota. rewrite filter_app. cbn [filter].
    change (N.eqb b_comma b_rbrace) with false. cbv iota. rewrite app_nil_r. exact (count_comma_simple key H). }
  rewrite Hc. reflexivity.
Qed.

Lemma tag_value_part_ph_args : forall key a, simple_key key = true ->
  tag_value_part (ph key ++ b_comma :: a) = ph key.
Proof.
  intros key a H. unfold tag_value_part, split_blocks.
  assert (Hc : exists n, count_byte b_comma (ph key ++ b_comma :: a) = S n).
  { unfold count_byte. rewrite filter_app. cbn [filter]. rewrite N.eqb_refl, app_length. cbn [length].
    eexists. rewrite Nat.add_succ_r. reflexivity. }
  destruct Hc as (n & Hc). rewrite Hc. cbn [split_loop]. rewrite (index_skip_ph key a H).
  destruct (Z.ltb_spec (Z.of_nat (length key) + 3) 0); [lia|].
  replace (Z.of_nat (length key) + 3) with (Z.of_nat (length (ph key))).
  - now rewrite firstn_Z_len_app.
  - unfold ph. cbn [length]. rewrite app_length. cbn [length]. lia.
Qed.

Theorem prop_is_value : forall fx cfg req key args T,
  simple_key key = true -> args = [] \/ (exists a, args = b_comma :: a) ->
  bind_prop fx cfg req (key ++ args) T = bind_tag_value fx cfg req (tag_value_part (ph key ++ args)) T
  /\ tag_value_part (ph key ++ args) = ph key.
Proof.
  intros fx cfg req key args T H [-> | (a & ->)]; unfold bind_prop.
  - rewrite !app_nil_r, (prop_rewrite_noargs key H). split; [reflexivity|apply tag_value_part_ph, H].
  - rewrite (prop_rewrite_args key a H). split; [reflexivity|apply tag_value_part_ph_args, H].
Qed.


(* ---- the shape of the conversion (for c17_prefix_exact) ------------------------------------------------------ *)

Lemma embed_null : forall T, embed T VNull = None.
Proof. destruct T; reflexivity. Qed.

Lemma bind_prefix_nonnull : forall v T, v <> VNull -> bind_prefix v T = decode_weak v T.
Proof. intros v T H. destruct v; try reflexivity. congruence. Qed.

Theorem embed_bind_prefix : forall T v f, embed T v = Some f -> bind_prefix v T = Ok f.
Proof.
  intros T v f H. rewrite bind_prefix_nonnull; [now apply embed_decode|].
  intros ->. rewrite embed_null in H. discriminate.
Qed.

Definition decode_field (kvs : list (bytes * cval)) (nt : bytes * ftype) : res (bytes * fval) :=
  rmap (fun x => (fst nt, x))
       (match field_lookup (fst nt) kvs with
        | Some fv => decode_weak fv (snd nt)
        | None => Ok (zero_of (snd nt))
        end).

Lemma decode_struct_eq : forall kvs fs,
  decode_weak (VMap kvs) (TStruct fs) = rmap FStruct (res_all (map (decode_field kvs) fs)).
Proof.
  intros kvs fs. unfold decode_weak. cbn [dw]. f_equal.
  induction fs as [|[n t] fs IH]; [reflexivity|].
  cbn [map res_all]. rewrite <- IH. unfold decode_field, decode_weak. cbn [fst snd].
  destruct (field_lookup n kvs) as [fv|]; [destruct (dw t fv)|]; reflexivity.
Qed.

Theorem decode_shape :
  (forall l T, decode_weak (VList l) (TSlice T) = rmap FSlice (res_all (map (fun x => decode_weak x T) l))) /\
  (forall kvs T, decode_weak (VMap kvs) (TMap T) =
     rmap (fun l => FMap (fmap_of l))
          (res_all (map (fun kv : bytes * cval => rmap (fun x => (fst kv, x)) (decode_weak (snd kv) T)) kvs))) /\
  (forall kvs fs, decode_weak (VMap kvs) (TStruct fs) = rmap FStruct (res_all (map (decode_field kvs) fs))) /\
  (forall v T, v <> VNull -> decode_weak v (TPtr T) = rmap FPtr (decode_weak v T)) /\
  (forall T, decode_weak VNull T = Ok (zero_of T)).
Proof.
  split; [reflexivity|]. split; [reflexivity|]. split; [exact decode_struct_eq|].
  split; [intros v T H; destruct v; try reflexivity; congruence|].
  intros T. destruct T; reflexivity.
Qed.
