(* The registry history of a start (Model/FactoryTrace.v):
     1. erasure: the traced functions compute exactly the untraced ones (their second component);
     2. replay: running the history on the registry model from the registry of the start state yields the
        registry of the final state — the factory changes its registry through these calls only;
     3. protocol: the history is in the strict protocol language of Model/RegistryProto.v (creations are
        bracketed, no re-entrant creation, factories only for names in creation, and after an error every open
        creation fails in turn), for EVERY scenario and every variant of the code. *)
From Coq Require Import List Arith Bool Lia.
From IocVerif Require Import Model.Registry Model.Resolve Model.Factory Model.App Model.FactoryTrace
  Model.RegistryProto Proofs.RegistryProofs Proofs.FactoryBasics Proofs.FactoryLog Proofs.FactoryInvariant.
Import ListNotations.

(* ---- 1. erasure ------------------------------------------------------------------------------------ *)

Section Erase.
  Variable vt : variant.
  Variable s : scenario.
  Variable rect : fstate -> name -> tres (fstate * ver).
  Variable rec : fstate -> name -> res (fstate * ver).
  Hypothesis Hrec : forall st d, snd (rect st d) = rec st d.

  Lemma get_all_erase : forall c st, snd (get_all_t rect st c) = get_all rec st c.
  Proof.
    induction c as [|[d|] r IH]; intros st; cbn [get_all_t get_all]; try reflexivity.
    rewrite <- Hrec. destruct (rect st d) as [o1 [[st1 v]|k st1]]; cbn [snd]; [|reflexivity].
    rewrite <- IH. destruct (get_all_t rect st1 r) as [o2 [[st2 vs]|k st2]]; reflexivity.
  Qed.

  Lemma inject_points_erase h : forall ps k inj st,
    snd (inject_points_t vt s rect h k ps inj st) = inject_points vt s rec h k ps inj st.
  Proof.
    induction ps as [|p ps' IH]; intros k inj st; cbn [inject_points_t inject_points]; [reflexivity|].
    destruct inj as [|i inj']; [reflexivity|]. destruct i as [|c0 c1]; [apply IH|].
    rewrite <- get_all_erase. destruct (get_all_t rect st (c0 :: c1)) as [o1 [[st1 vs]|k1 st1]]; cbn [snd]; [|reflexivity].
    destruct (inject vt s st1 h k p vs) as [st2|k2 st2]; [|reflexivity].
    rewrite <- IH. destruct (inject_points_t vt s rect h (S k) ps' inj' st2); reflexivity.
  Qed.

  Lemma populate_erase st n c : snd (populate_t vt s rect st n c) = populate vt s rec st n c.
  Proof.
    unfold populate_t, populate. destruct (pipeline vt s n c (active st) st (cur_injs st n c)) as [[st1 inj]|k st1];
      [apply inject_points_erase|reflexivity].
  Qed.

  Lemma do_create_erase st n c : snd (do_create_t vt s rect st n c) = do_create vt s rec st n c.
  Proof.
    unfold do_create_t, do_create. cbv zeta. rewrite <- populate_erase.
    destruct (populate_t vt s rect (set_reg st (add_factory (reg st) n n)) n c) as [o1 [st1|k st1]]; cbn [snd]; [|reflexivity].
    destruct (initialize s st1 n c) as [[st2 w]|k st2]; [|reflexivity]. reflexivity.
  Qed.

  Lemma create_erase st n : snd (create_t vt s rect st n) = create vt s rec st n.
  Proof.
    unfold create_t, create. destruct (scanned st); [|reflexivity].
    destruct (get_comp (s_pop s) n); [apply do_create_erase|reflexivity].
  Qed.

  Lemma body_erase st n : snd (body_t vt s rect st n) = body vt s rec st n.
  Proof.
    unfold body_t, body_with, body, get_singleton_t.
    destruct (get_singleton s st n true) as [[st1 [v|]]|k st1]; [reflexivity| |reflexivity].
    destruct (begin_create (reg st1) n) as [r1 [v|]]; [reflexivity|].
    rewrite <- create_erase. destruct (create_t vt s rect (set_reg st1 r1) n) as [o1 [[st2 v]|[e| |] st2]]; reflexivity.
  Qed.
End Erase.

Lemma do_get_erase vt s : forall fuel st n, snd (do_get_t vt s fuel st n) = do_get vt s fuel st n.
Proof.
  induction fuel as [|f IH]; intros st n; [reflexivity|]. cbn [do_get_t do_get].
  apply body_erase. exact IH.
Qed.

Lemma prepare_loop_erase vt s : forall ps st, snd (prepare_loop_t vt s ps st) = prepare_loop vt s ps st.
Proof.
  induction ps as [|p r IH]; intros st; cbn [prepare_loop_t prepare_loop]; [reflexivity|].
  destruct (is_lazy (s_pop s) p); [apply IH|].
  rewrite <- do_get_erase. destruct (do_get_t vt s (fuel_of s) st p) as [o1 [[st1 v]|k st1]]; cbn [snd]; [|reflexivity].
  rewrite <- IH. destruct (prepare_loop_t vt s r (set_active st1 (active st1 ++ [p]))); reflexivity.
Qed.

Lemma get_each_erase vt s : forall ns st, snd (get_each_t vt s ns st) = get_each vt s ns st.
Proof.
  induction ns as [|n r IH]; intros st; cbn [get_each_t get_each]; [reflexivity|].
  rewrite <- do_get_erase. destruct (do_get_t vt s (fuel_of s) st n) as [o1 [[st1 v]|k st1]]; cbn [snd]; [|reflexivity].
  rewrite <- IH. destruct (get_each_t vt s r st1); reflexivity.
Qed.

Theorem run_core_erase vt s : snd (run_core_t vt s) = run_core vt s.
Proof.
  unfold run_core_t, run_core, prepare, refresh. destruct (s_loader_fail s); [reflexivity|].
  rewrite <- prepare_loop_erase.
  destruct (prepare_loop_t vt s (sorted_procs s) (set_scanned finit)) as [o1 [st1|k st1]]; cbn [snd]; [|reflexivity].
  rewrite <- get_each_erase. destruct (get_each_t vt s (eager_names s) st1) as [o2 [st2|k st2]]; reflexivity.
Qed.

Theorem run_erase vt s : snd (run_t vt s) = run vt s.
Proof. apply run_core_erase. Qed.

Lemma lookups_erase vt s : forall ns st, snd (lookups_core_t vt s ns st) = lookups_core vt s ns st.
Proof.
  induction ns as [|n r IH]; intros st; cbn [lookups_core_t lookups_core]; [reflexivity|].
  rewrite <- do_get_erase. destruct (do_get_t vt s (fuel_of s) st n) as [o1 [[st1 v]|k st1]]; cbn [snd].
  - rewrite <- IH. destruct (lookups_core_t vt s r st1) as [o2 [st2 outs]]. reflexivity.
  - rewrite <- IH. destruct (lookups_core_t vt s r st1) as [o2 [st2 outs]]. reflexivity.
Qed.

(* ---- 2./3. replay and protocol ----------------------------------------------------------------------- *)

(* strict_from as a state machine over (open creations, error-is-propagating) *)
Fixpoint strict_run (stk : list name) (fl : bool) (tr : rtrace) : option (list name * bool) :=
  match tr with
  | [] => Some (stk, fl)
  | e :: r =>
    match proto_step stk e with
    | None => None
    | Some stk' =>
      if (if fl then match fst e with OEndErr _ => true | _ => false end else true)
      then strict_run stk' (match stk' with [] => false | _ :: _ => fl || is_fail e end) r
      else None
    end
  end.

Lemma strict_run_from : forall tr stk fl,
  strict_from stk fl tr = match strict_run stk fl tr with Some _ => true | None => false end.
Proof.
  induction tr as [|e r IH]; intros stk fl; [reflexivity|]. cbn [strict_from strict_run].
  destruct (proto_step stk e) as [stk'|]; [|reflexivity].
  destruct (if fl then match fst e with OEndErr _ => true | _ => false end else true); [|reflexivity].
  cbn [andb]. apply IH.
Qed.

Lemma strict_run_app : forall a b stk fl,
  strict_run stk fl (a ++ b) =
  match strict_run stk fl a with Some (stk', fl') => strict_run stk' fl' b | None => None end.
Proof.
  induction a as [|e r IH]; intros b stk fl; [reflexivity|]. cbn [app strict_run].
  destruct (proto_step stk e) as [stk'|]; [|reflexivity].
  destruct (if fl then match fst e with OEndErr _ => true | _ => false end else true); [|reflexivity].
  apply IH.
Qed.

(* the flag is only ever raised while a creation is open *)
Lemma strict_run_flag : forall tr stk fl stk' fl',
  (fl = true -> stk <> []) -> strict_run stk fl tr = Some (stk', fl') -> fl' = true -> stk' <> [].
Proof.
  induction tr as [|e r IH]; intros stk fl stk' fl' H0 H Hf; cbn [strict_run] in H.
  - injection H as <- <-. apply H0. exact Hf.
  - destruct (proto_step stk e) as [stk1|]; [|discriminate].
    destruct (if fl then match fst e with OEndErr _ => true | _ => false end else true); [|discriminate].
    eapply IH; [|exact H|exact Hf]. destruct stk1; [discriminate|intros _; discriminate].
Qed.

Definition rreg {A : Type} (pj : A -> fstate) (r : res A) : rstate :=
  match r with Ok a => reg (pj a) | Fail _ st => reg st end.

Definition pj2 {X : Type} (a : fstate * X) : fstate := fst a.
Definition pj1 (a : fstate) : fstate := a.

Section Proto.
  Variable vt : variant.
  Variable s : scenario.

  (* every open creation has a cache entry *)
  Definition Cov (stk : list name) (r : rstate) : Prop := forall m, In m stk -> cached r m = true.

  Lemma Cov_mono stk r r' : mono r r' -> Cov stk r -> Cov stk r'.
  Proof. intros Hm Hs m Hin. apply Hm, Hs, Hin. Qed.

  (* what a traced computation started with registry r0 and open creations stk guarantees *)
  Definition good {A : Type} (pj : A -> fstate) (stk : list name) (r0 : rstate) (x : tres A) : Prop :=
    fst (rrun vt r0 (fst x)) = rreg pj (snd x) /\
    match snd x with
    | Ok a => mono r0 (reg (pj a)) /\ strict_run stk false (trace_from vt r0 (fst x)) = Some (stk, false)
    | Fail (FErr _) _ => exists fl, strict_run stk false (trace_from vt r0 (fst x)) = Some (stk, fl)
    | Fail _ _ => exists stk' fl, strict_run stk false (trace_from vt r0 (fst x)) = Some (stk', fl)
    end.

  Lemma good_nil_ok {A : Type} (pj : A -> fstate) stk r0 a : reg (pj a) = r0 -> good pj stk r0 ([], Ok a).
  Proof. intros H. split; [cbn; symmetry; exact H|]. cbn [snd fst]. rewrite H. split; [apply mono_refl|reflexivity]. Qed.

  Lemma good_nil_fail {A : Type} (pj : A -> fstate) stk r0 k st : reg st = r0 -> good pj stk r0 ([], @Fail A k st).
  Proof.
    intros H. split; [cbn; symmetry; exact H|]. cbn [snd fst].
    destruct k as [e| |]; [exists false|exists stk, false|exists stk, false]; reflexivity.
  Qed.

  (* a failure only changes the result type *)
  Lemma good_fail_cast {A B : Type} (pjA : A -> fstate) (pjB : B -> fstate) stk r0 o k st :
    good pjA stk r0 (o, @Fail A k st) -> good pjB stk r0 (o, @Fail B k st).
  Proof. intros H. exact H. Qed.

  Lemma good_seq {A B : Type} (pjA : A -> fstate) (pjB : B -> fstate) stk r0 o1 a o2 (r2 : res B) :
    good pjA stk r0 (o1, Ok a) -> good pjB stk (reg (pjA a)) (o2, r2) -> good pjB stk r0 (o1 ++ o2, r2).
  Proof.
    intros [Hr1 [Hm1 Hs1]] [Hr2 Hs2]. unfold good. cbn [fst snd rreg] in *.
    split; [rewrite rrun_app; cbn [fst]; rewrite Hr1; exact Hr2|].
    rewrite trace_from_app, strict_run_app, Hs1, Hr1.
    destruct r2 as [b|[e| |] st2]; [|exact Hs2|exact Hs2|exact Hs2].
    destruct Hs2 as [Hm2 Hs2]. split; [eapply mono_trans; eauto|exact Hs2].
  Qed.

  (* the same with a result that is rebuilt from the second one without touching its state *)
  Lemma good_ok_retag {A B : Type} (pjA : A -> fstate) (pjB : B -> fstate) stk r0 o a b :
    reg (pjB b) = reg (pjA a) -> good pjA stk r0 (o, Ok a) -> good pjB stk r0 (o, Ok b).
  Proof. intros He [Hr [Hm Hs]]. unfold good. cbn [fst snd rreg] in *. rewrite He. repeat split; assumption. Qed.

  (* ---- single operations ---- *)

  Lemma strict_one_plain stk e :
    proto_step stk e = Some stk -> is_fail e = false -> strict_run stk false [e] = Some (stk, false).
  Proof. intros Hp Hf. cbn [strict_run]. rewrite Hp, Hf. destruct stk; reflexivity. Qed.

  Lemma early_reference_reg st n : rreg pj2 (early_reference s st n) = reg st.
  Proof.
    unfold early_reference.
    pose proof (early_chain_eff s n (active st) st st (VOrig n) (only_log_refl _ st)) as He.
    destruct (early_chain s n (active st) st (VOrig n)) as [[st1 v]|k st1]; cbn [eff2] in He;
      destruct He as [Hr _ _ _ _ _ _]; exact Hr.
  Qed.

  Lemma get_singleton_good stk st n early :
    good pj2 stk (reg st) (get_singleton_t s st n early).
  Proof.
    unfold get_singleton_t, get_singleton. pose proof (early_reference_reg st n) as Her.
    split.
    - cbn [fst snd rrun rstep]. destruct (get_lookup (reg st) n early) as [v|f|]; [reflexivity| |reflexivity].
      destruct (early_reference s st n) as [[st1 v]|k st1]; cbn [rreg pj2 fst] in *; [|symmetry; exact Her].
      cbn [reg set_reg]. rewrite Her. reflexivity.
    - cbn [fst snd]. rewrite trace_from_cons, trace_from_nil. cbn [rstep].
      destruct (get_lookup (reg st) n early) as [v|f|].
      + cbn [snd pj2 fst]. split; [apply mono_refl|]. apply strict_one_plain; reflexivity.
      + destruct (early_reference s st n) as [[st1 v]|k st1]; cbn [rreg pj2 fst snd] in *.
        * cbn [reg set_reg]. rewrite Her. split; [apply mono_get_promote|]. apply strict_one_plain; reflexivity.
        * assert (Hrun : exists fl, strict_run stk false [(OGet n early None, RErr f)] = Some (stk, fl)).
          { cbn [strict_run proto_step fst]. eexists. reflexivity. }
          destruct k as [e| |]; [exact Hrun|destruct Hrun as [fl Hf]; exists stk, fl; exact Hf
                                |destruct Hrun as [fl Hf]; exists stk, fl; exact Hf].
      + cbn [snd pj2 fst]. split; [apply mono_refl|]. apply strict_one_plain; reflexivity.
  Qed.
End Proto.

Section ProtoRec.
  Variable vt : variant.
  Variable s : scenario.
  Variable rect : fstate -> name -> tres (fstate * ver).
  Hypothesis Hgood : forall st d stk, Cov stk (reg st) -> good vt pj2 stk (reg st) (rect st d).

  Lemma good_ok_then_fail {A B : Type} (pjA : A -> fstate) (pjB : B -> fstate) stk r0 o a k st :
    reg st = reg (pjA a) -> good vt pjA stk r0 (o, Ok a) -> good vt pjB stk r0 (o, @Fail B k st).
  Proof.
    intros He [Hr [Hm Hs]]. unfold good. cbn [fst snd rreg] in *. rewrite He. split; [exact Hr|].
    destruct k as [e| |]; [exists false|exists stk, false|exists stk, false]; exact Hs.
  Qed.

  Lemma get_all_good : forall c st stk, Cov stk (reg st) -> good vt pj2 stk (reg st) (get_all_t rect st c).
  Proof.
    induction c as [|[d|] r IH]; intros st stk HS; cbn [get_all_t].
    - apply good_nil_ok. reflexivity.
    - pose proof (Hgood st d stk HS) as H1.
      destruct (rect st d) as [o1 [[st1 v]|k st1]]; [|exact H1].
      assert (HS1 : Cov stk (reg st1)) by (destruct H1 as [_ [Hm _]]; eapply Cov_mono; [exact Hm|exact HS]).
      pose proof (IH st1 stk HS1) as H2.
      destruct (get_all_t rect st1 r) as [o2 [[st2 vs]|k st2]].
      + apply (good_ok_retag vt pj2 pj2 stk (reg st) (o1 ++ o2) (st2, vs) (st2, v :: vs) eq_refl).
        apply (good_seq vt pj2 pj2 stk (reg st) o1 (st1, v) o2 _ H1 H2).
      + apply (good_seq vt pj2 pj2 stk (reg st) o1 (st1, v) o2 _ H1 H2).
    - apply good_nil_fail. reflexivity.
  Qed.

  Lemma inject_reg st h k p vs : rreg pj1 (inject vt s st h k p vs) = reg st.
  Proof.
    unfold inject. destruct vs as [|v0 r]; [destruct (pt_required p); reflexivity|].
    destruct (filter (fun v => negb (is_self h v)) (v0 :: r)); [destruct (pt_required p); reflexivity|].
    destruct (forallb _ _); [reflexivity|]. destruct (fix_c07 vt); [destruct (pt_required p)|]; reflexivity.
  Qed.

  Lemma inject_points_good h : forall ps k inj st stk,
    Cov stk (reg st) -> good vt pj1 stk (reg st) (inject_points_t vt s rect h k ps inj st).
  Proof.
    induction ps as [|p ps' IH]; intros k inj st stk HS; cbn [inject_points_t]; [apply good_nil_ok; reflexivity|].
    destruct inj as [|i inj']; [apply good_nil_ok; reflexivity|]. destruct i as [|c0 c1]; [apply IH; exact HS|].
    pose proof (get_all_good (c0 :: c1) st stk HS) as H1.
    destruct (get_all_t rect st (c0 :: c1)) as [o1 [[st1 vs]|k1 st1]]; [|exact H1].
    pose proof (inject_reg st1 h k p vs) as Hir.
    destruct (inject vt s st1 h k p vs) as [st2|k2 st2]; unfold rreg, pj1 in Hir.
    - assert (HS2 : Cov stk (reg st2)).
      { rewrite Hir. destruct H1 as [_ [Hm _]]. eapply Cov_mono; [exact Hm|exact HS]. }
      pose proof (IH (S k) inj' st2 stk HS2) as H2.
      destruct (inject_points_t vt s rect h (S k) ps' inj' st2) as [o2 r2]. rewrite Hir in H2.
      apply (good_seq vt pj2 pj1 stk (reg st) o1 (st1, vs) o2 r2 H1 H2).
    - apply (good_ok_then_fail pj2 pj1 stk (reg st) o1 (st1, vs) k2 st2 Hir H1).
  Qed.

  Lemma pipeline_rreg n c ps : forall st inj, rreg pj2 (pipeline vt s n c ps st inj) = reg st.
  Proof.
    induction ps as [|p r IH]; intros st inj; cbn [pipeline]; [reflexivity|].
    destruct (proc_of (s_pop s) p) as [[[]|early after]|]; try apply IH.
    - destruct (cfg_stage c true); [reflexivity|apply IH].
    - destruct (cfg_stage c false); [reflexivity|apply IH].
    - destruct (further_loop vt (s_pop s) n (c_points c) inj); [apply IH|reflexivity].
  Qed.

  Lemma populate_good st n c stk :
    Cov stk (reg st) -> good vt pj1 stk (reg st) (populate_t vt s rect st n c).
  Proof.
    intros HS. unfold populate_t. pose proof (pipeline_rreg n c (active st) st (cur_injs st n c)) as Hp.
    destruct (pipeline vt s n c (active st) st (cur_injs st n c)) as [[st1 inj]|k st1]; cbn [rreg pj2 fst] in Hp.
    - rewrite <- Hp. apply (inject_points_good n (c_points c) 0 inj (set_injs st1 n inj) stk).
      change (Cov stk (reg st1)). rewrite Hp. exact HS.
    - apply good_nil_fail. exact Hp.
  Qed.

  Lemma initialize_rreg st n c : get_comp (s_pop s) n = Some c -> rreg pj2 (initialize s st n c) = reg st.
  Proof.
    intros Hc. pose proof (initialize_eff s st n c Hc) as He.
    destruct (initialize s st n c) as [[st2 w]|k st2]; cbn [eff2] in He; destruct He as [Hr _ _ _ _ _ _]; exact Hr.
  Qed.

  Lemma get_singleton_false_state st n st' o : get_singleton s st n false = Ok (st', o) -> st' = st.
  Proof.
    unfold get_singleton. rewrite FactoryBasics_get_lookup_false.
    destruct (match alookup n (L1 (reg st)) with Some v => Some v | None => alookup n (L2 (reg st)) end);
      intros H; inversion H; reflexivity.
  Qed.

  Lemma good_cons_addfactory {A : Type} (pj : A -> fstate) stk r0 n o (r : res A) :
    good vt pj (n :: stk) (add_factory r0 n n) (o, r) -> good vt pj (n :: stk) r0 (OAddFactory n n :: o, r).
  Proof.
    intros [Hr Hs]. unfold good. cbn [fst snd] in *. rewrite rrun_cons, trace_from_cons. cbn [fst snd rstep].
    split; [exact Hr|].
    assert (Hstep : forall tr, strict_run (n :: stk) false ((OAddFactory n n, RUnit) :: tr) = strict_run (n :: stk) false tr).
    { intros tr. cbn [strict_run proto_step fst]. rewrite mem_cons, Nat.eqb_refl. reflexivity. }
    rewrite Hstep. destruct r as [a|[e| |] st2]; [|exact Hs|exact Hs|exact Hs].
    destruct Hs as [Hm Hs]. split; [|exact Hs]. eapply mono_trans; [apply mono_add_factory|exact Hm].
  Qed.

  Lemma do_create_good st n c stk :
    get_comp (s_pop s) n = Some c -> Cov stk (reg st) ->
    good vt pj2 (n :: stk) (reg st) (do_create_t vt s rect st n c).
  Proof.
    intros Hc HS. unfold do_create_t. cbv zeta.
    set (st0 := set_reg st (add_factory (reg st) n n)).
    assert (HS0 : Cov (n :: stk) (reg st0)).
    { intros m [<-|Hm]; [apply cached_add_factory|apply mono_add_factory, HS, Hm]. }
    pose proof (populate_good st0 n c (n :: stk) HS0) as H1.
    destruct (populate_t vt s rect st0 n c) as [o1 [st1|k1 st1]].
    2:{ apply good_cons_addfactory. exact H1. }
    pose proof (initialize_rreg st1 n c Hc) as Hi.
    destruct (initialize s st1 n c) as [[st2 w]|k2 st2]; cbn [rreg pj2 fst] in Hi.
    2:{ apply good_cons_addfactory. apply (good_ok_then_fail pj1 pj2 (n :: stk) _ o1 st1 k2 st2 Hi H1). }
    pose proof (get_singleton_good vt s (n :: stk) st2 n false) as H2. rewrite Hi in H2.
    unfold get_singleton_t in H2 |- *. cbn [fst snd] in H2.
    match goal with |- context [OGet n false ?f] => set (fo := f) in * end.
    change (OAddFactory n n :: o1 ++ [OGet n false fo]) with (OAddFactory n n :: (o1 ++ [OGet n false fo])).
    apply good_cons_addfactory.
    pose proof (good_seq vt pj1 pj2 (n :: stk) (reg st0) o1 st1 [OGet n false fo] _ H1 H2) as H3.
    destruct (get_singleton s st2 n false) as [[st3 [e|]]|k3 st3] eqn:EG.
    - pose proof (get_singleton_false_state _ _ _ _ EG) as ->.
      destruct w as [wv|].
      + destruct (stale_dependents vt st2 n _).
        * apply (good_ok_retag vt pj2 pj2 _ _ _ (st2, Some e) (st2, wv) eq_refl H3).
        * apply (good_ok_then_fail pj2 pj2 _ _ _ (st2, Some e) (FErr EStale) st2 eq_refl H3).
      + apply (good_ok_retag vt pj2 pj2 _ _ _ (st2, Some e) (st2, e) eq_refl H3).
    - pose proof (get_singleton_false_state _ _ _ _ EG) as ->.
      apply (good_ok_retag vt pj2 pj2 _ _ _ (st2, None) (st2, match w with Some v => v | None => VOrig n end) eq_refl H3).
    - exact H3.
  Qed.

  Lemma create_good st n stk :
    Cov stk (reg st) -> good vt pj2 (n :: stk) (reg st) (create_t vt s rect st n).
  Proof.
    intros HS. unfold create_t. destruct (scanned st); [|apply good_nil_fail; reflexivity].
    destruct (get_comp (s_pop s) n) as [c|] eqn:Ec; [apply do_create_good; assumption|apply good_nil_fail; reflexivity].
  Qed.
End ProtoRec.

Section ProtoBody.
  Variable vt : variant.
  Variable s : scenario.
  (* any creation function that, entered with its own name on top of the open creations, behaves *)
  Variable crt : fstate -> name -> tres (fstate * ver).
  Hypothesis Hcrt : forall st n stk, Cov stk (reg st) -> good vt pj2 (n :: stk) (reg st) (crt st n).

  Lemma get_singleton_none st n early st1 :
    get_singleton s st n early = Ok (st1, None) -> st1 = st /\ get_lookup (reg st) n early = Miss.
  Proof.
    unfold get_singleton. destruct (get_lookup (reg st) n early) as [v|f|]; [discriminate| |intros H; inversion H; auto].
    destruct (early_reference s st n) as [[st2 v]|k st2]; discriminate.
  Qed.

  Lemma strict_begin stk n r0 tr :
    mem n stk = false -> alookup n (L1 r0) = None ->
    strict_run stk false ((OBegin n, snd (rstep vt r0 (OBegin n))) :: tr) = strict_run (n :: stk) false tr.
  Proof.
    intros Hm HL. cbn [rstep]. unfold begin_create. rewrite HL. cbn [snd strict_run proto_step fst began].
    rewrite Hm. reflexivity.
  Qed.

  Lemma strict_endok stk n v out : strict_run (n :: stk) false [(OEndOk n v, out)] = Some (stk, false).
  Proof. cbn [strict_run proto_step fst]. rewrite Nat.eqb_refl. destruct stk; reflexivity. Qed.

  Lemma strict_enderr stk n fl out : exists fl', strict_run (n :: stk) fl [(OEndErr n, out)] = Some (stk, fl').
  Proof. cbn [strict_run proto_step fst]. rewrite Nat.eqb_refl. destruct fl; eexists; reflexivity. Qed.

  Lemma body_with_good st n stk : Cov stk (reg st) -> good vt pj2 stk (reg st) (body_with vt s crt st n).
  Proof.
    intros HS. unfold body_with.
    pose proof (get_singleton_good vt s stk st n true) as H0. unfold get_singleton_t in H0 |- *.
    match goal with |- context [OGet n true ?f] => set (fo := f) in * end.
    destruct (get_singleton s st n true) as [[st1 [v|]]|k st1] eqn:EG.
    - apply (good_ok_retag vt pj2 pj2 _ _ _ (st1, Some v) (st1, v) eq_refl H0).
    - destruct (get_singleton_none _ _ _ _ EG) as [-> EL].
      destruct (get_lookup_miss_true _ _ EL) as [HL1 [HL2 HL3]].
      assert (Hunc : cached (reg st) n = false) by (unfold cached; rewrite HL1, HL2, HL3; reflexivity).
      assert (Hmem : mem n stk = false).
      { destruct (mem n stk) eqn:E; [|reflexivity]. apply mem_In in E. rewrite (HS n E) in Hunc. discriminate. }
      unfold begin_create. rewrite HL1.
      set (r1 := mkR (L1 (reg st)) (L2 (reg st)) (L3 (reg st)) (set_add n (creating (reg st)))).
      assert (Hstep : rstep vt (reg st) (OBegin n) = (r1, RVal None None)).
      { cbn [rstep]. unfold begin_create. rewrite HL1. reflexivity. }
      assert (HS1 : Cov stk (reg (set_reg st r1))) by (intros m Hm; exact (HS m Hm)).
      pose proof (Hcrt (set_reg st r1) n stk HS1) as H1. cbn [reg set_reg] in H1.
      assert (Hm01 : mono (reg st) r1) by (intros m Hm; exact Hm).
      destruct (crt (set_reg st r1) n) as [o1 [[st2 v]|k st2]].
      + (* the creation succeeded: publish *)
        destruct H1 as [Hr1 [Hm1 Hs1]]. cbn [fst snd rreg pj2] in Hr1, Hm1, Hs1.
        apply (good_seq vt pj2 pj2 stk (reg st) [OGet n true fo] (st, None)
                        (OBegin n :: o1 ++ [OEndOk n v]) _ H0).
        unfold good. cbn [fst snd rreg pj2 reg set_reg].
        split; [|split].
        * rewrite rrun_cons. cbn [fst]. rewrite Hstep. cbn [fst]. rewrite rrun_app. cbn [fst]. rewrite Hr1. reflexivity.
        * eapply mono_trans; [exact Hm01|]. eapply mono_trans; [exact Hm1|apply mono_end_create_ok].
        * rewrite trace_from_cons, (strict_begin stk n (reg st) _ Hmem HL1), Hstep. cbn [fst].
          rewrite trace_from_app, strict_run_app, Hs1, Hr1. apply strict_endok.
      + (* the creation failed *)
        destruct k as [e| |]; apply (good_seq vt pj2 pj2 stk (reg st) [OGet n true fo] (st, None) _ _ H0).
        * destruct H1 as [Hr1 [fl1 Hs1]]. cbn [fst snd rreg] in Hr1, Hs1.
          unfold good. cbn [fst snd rreg pj2 reg set_reg].
          split.
          -- rewrite rrun_cons. cbn [fst]. rewrite Hstep. cbn [fst]. rewrite rrun_app. cbn [fst]. rewrite Hr1. reflexivity.
          -- rewrite trace_from_cons, (strict_begin stk n (reg st) _ Hmem HL1), Hstep. cbn [fst].
             rewrite trace_from_app, strict_run_app, Hs1, Hr1. apply strict_enderr.
        * destruct H1 as [Hr1 [stk1 [fl1 Hs1]]]. cbn [fst snd rreg] in Hr1, Hs1.
          unfold good. cbn [fst snd rreg pj2].
          split; [rewrite rrun_cons; cbn [fst]; rewrite Hstep; exact Hr1|]. exists stk1, fl1.
          rewrite trace_from_cons, (strict_begin stk n (reg st) _ Hmem HL1), Hstep. exact Hs1.
        * destruct H1 as [Hr1 [stk1 [fl1 Hs1]]]. cbn [fst snd rreg] in Hr1, Hs1.
          unfold good. cbn [fst snd rreg pj2].
          split; [rewrite rrun_cons; cbn [fst]; rewrite Hstep; exact Hr1|]. exists stk1, fl1.
          rewrite trace_from_cons, (strict_begin stk n (reg st) _ Hmem HL1), Hstep. exact Hs1.
    - exact H0.
  Qed.
End ProtoBody.

Theorem do_get_good vt s : forall fuel st n stk,
  Cov stk (reg st) -> good vt pj2 stk (reg st) (do_get_t vt s fuel st n).
Proof.
  induction fuel as [|f IH]; intros st n stk HS; cbn [do_get_t].
  - apply good_nil_fail. reflexivity.
  - unfold body_t. apply body_with_good; [|exact HS].
    intros st0 n0 stk0 H0. apply create_good; [intros st1 d stk1 H1; apply IH; exact H1|exact H0].
Qed.

(* ---- a whole start -------------------------------------------------------------------------------------- *)

Lemma Cov_nil r : Cov [] r.
Proof. intros m []. Qed.

Lemma prepare_loop_good vt s : forall ps st, good vt pj1 [] (reg st) (prepare_loop_t vt s ps st).
Proof.
  induction ps as [|p r IH]; intros st; cbn [prepare_loop_t]; [apply good_nil_ok; reflexivity|].
  destruct (is_lazy (s_pop s) p); [apply (IH (set_active st (active st ++ [p])))|].
  pose proof (do_get_good vt s (fuel_of s) st p [] (Cov_nil _)) as H1.
  destruct (do_get_t vt s (fuel_of s) st p) as [o1 [[st1 v]|k st1]]; [|exact H1].
  pose proof (IH (set_active st1 (active st1 ++ [p]))) as H2.
  destruct (prepare_loop_t vt s r (set_active st1 (active st1 ++ [p]))) as [o2 r2].
  apply (good_seq vt pj2 pj1 [] (reg st) o1 (st1, v) o2 r2 H1 H2).
Qed.

Lemma get_each_good vt s : forall ns st, good vt pj1 [] (reg st) (get_each_t vt s ns st).
Proof.
  induction ns as [|n r IH]; intros st; cbn [get_each_t]; [apply good_nil_ok; reflexivity|].
  pose proof (do_get_good vt s (fuel_of s) st n [] (Cov_nil _)) as H1.
  destruct (do_get_t vt s (fuel_of s) st n) as [o1 [[st1 v]|k st1]]; [|exact H1].
  pose proof (IH st1) as H2. destruct (get_each_t vt s r st1) as [o2 r2].
  apply (good_seq vt pj2 pj1 [] (reg st) o1 (st1, v) o2 r2 H1 H2).
Qed.

Lemma run_each_rreg s : forall ns st, rreg pj1 (run_each s ns st) = reg st.
Proof.
  induction ns as [|n r IH]; intros st; cbn [run_each]; [reflexivity|].
  destruct (runner_fails s n); [reflexivity|]. rewrite IH. reflexivity.
Qed.

Lemma call_runners_rreg s st : rreg pj1 (call_runners s st) = reg st.
Proof. unfold call_runners. destruct (s_app s) as [[[a rp] cp]|]; [apply run_each_rreg|reflexivity]. Qed.

Theorem run_core_good vt s : good vt pj1 [] rinit (run_core_t vt s).
Proof.
  unfold run_core_t. destruct (s_loader_fail s); [apply good_nil_fail; reflexivity|].
  pose proof (prepare_loop_good vt s (sorted_procs s) (set_scanned finit)) as H1.
  change (reg (set_scanned finit)) with rinit in H1.
  destruct (prepare_loop_t vt s (sorted_procs s) (set_scanned finit)) as [o1 [st1|k st1]]; [|exact H1].
  pose proof (get_each_good vt s (eager_names s) st1) as H2.
  destruct (get_each_t vt s (eager_names s) st1) as [o2 [st2|k st2]].
  - pose proof (good_seq vt pj1 pj1 [] rinit o1 st1 o2 _ H1 H2) as H3.
    pose proof (call_runners_rreg s st2) as Hc.
    destruct (call_runners s st2) as [st3|k st3]; unfold rreg, pj1 in Hc.
    + apply (good_ok_retag vt pj1 pj1 [] rinit (o1 ++ o2) st2 st3 Hc H3).
    + destruct H3 as [Hr [Hm Hs]]. unfold good. cbn [fst snd rreg] in *. unfold pj1 in *. rewrite Hc.
      split; [exact Hr|]. destruct k as [e| |]; [exists false|exists [], false|exists [], false]; exact Hs.
  - apply (good_seq vt pj1 pj1 [] rinit o1 st1 o2 _ H1 H2).
Qed.

(* the history of a start is in the strict protocol language: every scenario, every variant of the code *)
Theorem run_conforms_strict vt s : conforms_strict_v vt (fst (run_t vt s)) = true.
Proof.
  unfold conforms_strict_v, protocol_strict, trace, run_t. rewrite strict_run_from.
  pose proof (run_core_good vt (normalise vt s)) as [_ H].
  destruct (snd (run_core_t vt (normalise vt s))) as [a|[e| |] st]; [destruct H as [_ ->]|destruct H as [fl ->]
    |destruct H as [stk' [fl ->]]|destruct H as [stk' [fl ->]]]; reflexivity.
Qed.

(* replaying the history on the registry model gives the registry the start ends with *)
Theorem run_replay vt s : state_after vt (fst (run_t vt s)) = rreg pj1 (run vt s).
Proof.
  unfold state_after. rewrite <- run_erase. unfold run_t. exact (proj1 (run_core_good vt (normalise vt s))).
Qed.

(* the lookups that follow a start (none of which is aborted by a panic) *)
Definition no_abort (o : lookup_out) : Prop :=
  match o with LFail FPanic | LFail FFuel => False | _ => True end.

Lemma lookups_good vt s : forall ns st,
  Forall no_abort (snd (snd (lookups_core_t vt s ns st))) ->
  strict_run [] false (trace_from vt (reg st) (fst (lookups_core_t vt s ns st))) = Some ([], false) /\
  fst (rrun vt (reg st) (fst (lookups_core_t vt s ns st))) = reg (fst (snd (lookups_core_t vt s ns st))).
Proof.
  induction ns as [|n r IH]; intros st Hna; cbn [lookups_core_t] in *; [split; reflexivity|].
  pose proof (do_get_good vt s (fuel_of s) st n [] (Cov_nil _)) as H1.
  destruct (do_get_t vt s (fuel_of s) st n) as [o1 [[st1 v]|k st1]].
  - specialize (IH st1). destruct (lookups_core_t vt s r st1) as [o2 [st2 outs]]. cbn [fst snd] in *.
    inversion Hna as [|? ? _ Hna']; subst. destruct (IH Hna') as [Hs2 Hr2].
    destruct H1 as [Hr1 [_ Hs1]]. cbn [fst snd rreg pj2] in Hr1, Hs1.
    rewrite trace_from_app, strict_run_app, Hs1, rrun_app, Hr1. cbn [fst]. split; assumption.
  - specialize (IH st1). destruct (lookups_core_t vt s r st1) as [o2 [st2 outs]]. cbn [fst snd] in *.
    inversion Hna as [|? ? Hk Hna']; subst. destruct (IH Hna') as [Hs2 Hr2].
    destruct k as [e| |]; [|contradiction|contradiction].
    destruct H1 as [Hr1 [fl Hs1]]. cbn [fst snd rreg] in Hr1, Hs1.
    assert (Hfl : fl = false).
    { destruct fl; [|reflexivity]. exfalso.
      apply (strict_run_flag _ [] false [] true ltac:(discriminate) Hs1 eq_refl). reflexivity. }
    subst fl. rewrite trace_from_app, strict_run_app, Hs1, rrun_app, Hr1. cbn [fst]. split; assumption.
Qed.

Theorem start_conforms_strict vt s ns :
  (forall st, snd (run_t vt s) = Ok st ->
     Forall no_abort (snd (snd (lookups_core_t vt (normalise vt s) ns st)))) ->
  conforms_strict_v vt (start_ops vt s ns) = true.
Proof.
  intros Hna. unfold start_ops. pose proof (run_conforms_strict vt s) as Hrun.
  pose proof (run_core_good vt (normalise vt s)) as Hg. unfold run_t in *.
  destruct (run_core_t vt (normalise vt s)) as [o1 [st|k st]]; [|exact Hrun].
  destruct Hg as [Hr [_ Hs]]. cbn [fst snd rreg] in Hr, Hs. unfold pj1 in Hr.
  destruct (lookups_good vt (normalise vt s) ns st (Hna st eq_refl)) as [Hs2 _].
  unfold conforms_strict_v, protocol_strict, trace. rewrite strict_run_from, trace_from_app, strict_run_app, Hs, Hr, Hs2.
  reflexivity.
Qed.
