(* Liveness under the EXTENDED semantics (Model/FactoryX.v), as Proofs/FactoryLiveness.v for the plain model: when no
   post-processor substitutes components, no callback fails, every required point has an assignable provider and every
   name an Init method looks up is registered, start-up succeeds — whatever the cycles, whichever components Init
   methods look up in the middle of their own creation (a component in creation hands out its early reference), and
   whichever components are short-circuited.  As there: under these hypotheses no step can fail with an error value
   or a panic, and fuel exhaustion is excluded by the termination theorem of Proofs/FactoryXProofs.v. *)
From Coq Require Import List Arith Bool Lia Permutation.
From IocVerif Require Import Model.Registry Model.Resolve Model.Factory Model.App Model.FactoryTrace Model.FactoryX
  Proofs.FactoryBasics Proofs.FactoryLog Proofs.FactoryInvariant Proofs.FactoryLifecycle Proofs.ResolveProofs
  Proofs.FactoryNoPanic Proofs.FactoryWiring Proofs.FactoryTermination Proofs.SorterProofs Proofs.FactoryLiveness
  Proofs.FactoryTraceProofs Proofs.FactoryXProofs Proofs.FactoryXInv Proofs.FactoryXLife Proofs.FactoryXNoPanic
  Proofs.FactoryXWiring.
Import ListNotations.

Section LiveX.
  Variable vt : variant.
  Hypothesis H3 : fix_c03 vt = true.
  Hypothesis H7 : fix_c07 vt = true.
  Hypothesis H8 : fix_c08 vt = true.
  Hypothesis H10 : fix_c10 vt = true.
  Variable s : scenario.
  Variable x : extras.
  Hypothesis Hsmall : small_points s.
  Let pop := s_pop s.

  Hypothesis Hns : forall p e a, proc_of pop p = Some (PUser e a) ->
    (forall n, alookup n e <> Some EFresh) /\ (forall n, alookup n a = None \/ alookup n a = Some ANone).
  Hypothesis Hnf : forall p ph n, faulty s p ph n = false.
  Hypothesis Hcomp : forall n c, get_comp pop n = Some c ->
    c_aps c <> Some true /\ c_init c <> Some true /\ cfg_stage c true = false /\ cfg_stage c false = false.
  Hypothesis Hsat : forall n c, get_comp pop n = Some c ->
    exists pl, plan vt s n c = Some pl /\
      forall k p y, nth_error (c_points c) k = Some p -> nth_error pl k = Some y ->
        forall d, In d (used_of p (remove_nil y)) -> exists cd, get_comp pop d = Some cd /\ type_ok cd (pt_target p) = true.
  Hypothesis Hdef : forall n c k p y d, get_comp pop n = Some c -> plan vt s n c = Some y ->
    nth_error (c_points c) k = Some p -> forall pl, nth_error y k = Some pl -> In d (remove_nil pl) -> d < length pop.
  (* every name an Init method looks up is registered *)
  Hypothesis Hxdef : forall n d, In d (initget_of x n) -> d < length pop.

  Variable rect : fstate -> name -> tres (fstate * ver).
  Let rec := erase rect.
  Hypothesis Hspec : rec_specG (P := injk) rec.
  Hypothesis Hlife : rec_lifeX s x rec.
  Hypothesis HG : forall st d st' v, GX vt s x st -> full s st -> rec st d = Ok (st', v) -> GX vt s x st'.
  Hypothesis Hlive : forall st d, GX vt s x st -> VO st -> full s st -> d < length pop ->
    okf (rec st d) /\ forall st' v, rec st d = Ok (st', v) -> VO st'.

  Lemma get_all_liveX : forall l st, GX vt s x st -> VO st -> full s st -> (forall d, In d l -> d < length pop) ->
    okf (get_all rec st (map Some l)) /\
    forall st' vs, get_all rec st (map Some l) = Ok (st', vs) -> VO st' /\ vs = map VOrig l.
  Proof.
    induction l as [|d r IH]; intros st Hg Hvo Hfu Hd; cbn [map get_all].
    - split; [exact I|]. intros st' vs H; inversion H; subst. split; [exact Hvo|reflexivity].
    - destruct (Hlive st d Hg Hvo Hfu (Hd d (or_introl eq_refl))) as [Hok Hvo1].
      destruct (rec st d) as [[st1 v]|k st1] eqn:E; [|split; [exact Hok|intros ? ? H; discriminate]].
      specialize (Hvo1 st1 v eq_refl).
      pose proof (HG _ _ _ _ Hg Hfu E) as Hg1.
      assert (Hfu1 : full s st1).
      { unfold full. rewrite (rec_activeX s x rect Hlife _ _ _ _ (gx_inv vt s x st Hg) E). exact Hfu. }
      destruct (Hspec st d st1 v (gx_inv vt s x st Hg) E) as [_ [_ [_ Hcur]]].
      assert (Hv : v = VOrig d) by (apply (proj2 Hvo1); exact Hcur).
      destruct (IH st1 Hg1 Hvo1 Hfu1 (fun y Hy => Hd y (or_intror Hy))) as [Hok2 Hres].
      destruct (get_all rec st1 (map Some r)) as [[st2 vs]|k2 st2] eqn:E2; [|split; [exact Hok2|intros ? ? H; discriminate]].
      split; [exact I|]. intros st' vs' H; inversion H; subst.
      destruct (Hres _ _ eq_refl) as [Hvo2 ->]. split; [exact Hvo2|reflexivity].
  Qed.

  Lemma inject_points_liveX h cr : forall ps k pl st,
    GX vt s x st -> VO st -> full s st -> creating (reg st) = h :: cr -> length pl = length ps ->
    Forall (fun r => exists l, r = map Some l /\ ~ In h l) pl ->
    (forall i p y d, nth_error ps i = Some p -> nth_error pl i = Some y -> In d (remove_nil y) -> d < length pop) ->
    (forall i p y d, nth_error ps i = Some p -> nth_error pl i = Some y -> In d (used_of p (remove_nil y)) ->
        exists cd, get_comp pop d = Some cd /\ type_ok cd (pt_target p) = true) ->
    okf (inject_points vt s rec h k ps pl st) /\
    forall st', inject_points vt s rec h k ps pl st = Ok st' -> VO st'.
  Proof.
    induction ps as [|p ps' IH]; intros k pl st Hg Hvo Hfu Hcr Hlen Hsh Hd Hass; cbn [inject_points].
    - split; [exact I|]. intros st' H; inversion H; subst; exact Hvo.
    - destruct pl as [|y0 pl']; [discriminate|]. cbn [length] in Hlen.
      inversion Hsh as [|? ? [l [Hx Hnl]] Hsh']; subst y0.
      assert (Hd' : forall i q y d, nth_error ps' i = Some q -> nth_error pl' i = Some y -> In d (remove_nil y) -> d < length pop)
        by (intros i q y d Hq Hy; apply (Hd (S i) q y d Hq Hy)).
      assert (Hass' : forall i q y d, nth_error ps' i = Some q -> nth_error pl' i = Some y -> In d (used_of q (remove_nil y)) ->
                        exists cd, get_comp pop d = Some cd /\ type_ok cd (pt_target q) = true)
        by (intros i q y d Hq Hy; apply (Hass (S i) q y d Hq Hy)).
      destruct l as [|a t].
      + cbn [map]. apply (IH (S k) pl' st Hg Hvo Hfu Hcr ltac:(lia) Hsh' Hd' Hass').
      + change (map Some (a :: t)) with (Some a :: map Some t).
        assert (Hdl : forall d, In d (a :: t) -> d < length pop).
        { intros d Hin. apply (Hd 0 p (map Some (a :: t)) d eq_refl eq_refl). rewrite remove_nil_map_Some. exact Hin. }
        destruct (get_all_liveX (a :: t) st Hg Hvo Hfu Hdl) as [Hok Hres]. change (map Some (a :: t)) with (Some a :: map Some t) in *.
        destruct (get_all rec st (Some a :: map Some t)) as [[st1 vs]|k1 st1] eqn:E1; [|split; [exact Hok|intros ? HH; discriminate HH]].
        destruct (Hres _ _ eq_refl) as [Hvo1 ->].
        change (Some a :: map Some t) with (map Some (a :: t)) in E1.
        destruct (get_all_GX vt s x rect Hlife HG _ _ _ _ Hg Hfu E1) as [Hg1 Hact1].
        destruct (get_all_spec rec Hspec _ _ _ _ (gx_inv vt s x st Hg) E1) as [_ [Hc1 [_ Hcur]]].
        assert (Hcr1 : creating (reg st1) = h :: cr) by congruence.
        assert (Hassp : forall d, In d (used_of p (a :: t)) -> exists cd, get_comp pop d = Some cd /\ type_ok cd (pt_target p) = true).
        { intros d Hin. apply (Hass 0 p (map Some (a :: t)) d eq_refl eq_refl). rewrite remove_nil_map_Some. exact Hin. }
        rewrite (inject_live vt s st1 h k p (a :: t) ltac:(discriminate) Hnl Hassp).
        set (st2 := write_field st1 h k (map VOrig (used_of p (a :: t)))).
        assert (Hg2 : GX vt s x st2).
        { eapply GX_write; [exact Hg1|exact Hcr1| |].
          - rewrite Forall_forall in *. intros v Hv. apply Hcur. apply in_map_iff in Hv. destruct Hv as [d [<- Hdin]].
            apply in_map. unfold used_of in Hdin. destruct (pt_slice p); [exact Hdin|]. cbn [firstn] in Hdin.
            destruct Hdin as [<-|[]]. left; reflexivity.
          - intros v Hv. apply in_map_iff in Hv. destruct Hv as [d [<- Hdin]]. cbn [is_self]. apply Nat.eqb_neq.
            intros ->. apply Hnl. unfold used_of in Hdin. destruct (pt_slice p); [exact Hdin|]. cbn [firstn] in Hdin.
            destruct Hdin as [<-|[]]. left; reflexivity. }
        apply (IH (S k) pl' st2 Hg2 (VO_same st1 st2 eq_refl eq_refl Hvo1) ltac:(unfold full; cbn [active write_field st2]; rewrite Hact1; exact Hfu)
                  Hcr1 ltac:(lia) Hsh' Hd' Hass').
  Qed.

  (* the lookups of an Init method: every target is registered, so none fails *)
  Lemma init_gets_liveX n cr : forall ds j st,
    GX vt s x st -> VO st -> full s st -> creating (reg st) = n :: cr -> (forall d, In d ds -> d < length pop) ->
    okf (snd (init_gets_t rect n j ds st)) /\
    forall o st', init_gets_t rect n j ds st = (o, Ok st') -> VO st' /\ active st' = active st.
  Proof.
    induction ds as [|d r IH]; intros j st Hg Hvo Hfu Hcr Hd; cbn [init_gets_t].
    - split; [exact I|]. intros o st' H; inversion H; subst; auto.
    - destruct (Hlive st d Hg Hvo Hfu (Hd d (or_introl eq_refl))) as [Hok Hvo1]. unfold rec, erase in Hok, Hvo1.
      destruct (rect st d) as [o1 [[st1 v]|k st1]] eqn:E; [|cbn [snd] in *; split; [exact Hok|intros ? ? H; discriminate]].
      cbn [snd] in Hvo1. specialize (Hvo1 st1 v eq_refl).
      assert (E' : rec st d = Ok (st1, v)) by (unfold rec, erase; rewrite E; reflexivity).
      pose proof (HG _ _ _ _ Hg Hfu E') as Hg1.
      pose proof (rec_activeX s x rect Hlife _ _ _ _ (gx_inv vt s x st Hg) E') as Ha1.
      destruct (Hspec st d st1 v (gx_inv vt s x st Hg) E') as [_ [Hc1 _]].
      assert (Hcr1 : creating (reg st1) = n :: cr) by congruence.
      set (st2 := write_plain st1 n (100 + j) [v]).
      destruct (IH (S j) st2 (GX_write_plain vt s x st1 n j [v] cr Hg1 Hcr1)
                  (VO_same st1 st2 eq_refl eq_refl Hvo1)
                  ltac:(unfold full; cbn [active write_plain st2]; rewrite Ha1; exact Hfu) Hcr1
                  (fun y Hy => Hd y (or_intror Hy))) as [Hok2 Hres2].
      destruct (init_gets_t rect n (S j) r st2) as [o2 r2] eqn:E2. cbn [snd] in *.
      split; [exact Hok2|]. intros o st' H. inversion H; subst.
      destruct (Hres2 _ st' eq_refl) as [Hvo2 Ha2]. split; [exact Hvo2|]. rewrite Ha2. cbn [active write_plain st2]. exact Ha1.
  Qed.

  Lemma body_xt_liveX : forall st n, GX vt s x st -> VO st ->
    (full s st \/ ((forall c, get_comp pop n = Some c -> c_points c = []) /\ initget_of x n = [])) -> n < length pop ->
    okf (snd (body_xt vt s x rect st n)) /\ forall o st' v, body_xt vt s x rect st n = (o, Ok (st', v)) -> VO st'.
  Proof.
    intros st n Hg [Hsc Hvo] Hcase Hlt. unfold body_xt, body_with, get_singleton_t, get_singleton.
    destruct (get_lookup (reg st) n true) as [hv|f|] eqn:EL.
    - cbn [snd]. split; [exact I|]. intros o st' v H; inversion H; subst. split; assumption.
    - unfold early_reference. destruct (early_chain_nosubst s Hns Hnf n (active st) st) as [st1 E]. rewrite E.
      cbn [snd]. split; [exact I|]. intros o st' v H; inversion H; subst st' v.
      pose proof (early_chain_eff s n (active st) st st (VOrig n) (only_log_refl _ st)) as He. rewrite E in He.
      cbn [eff2] in He. destruct He as [Hr _ _ _ _ Hs1 _].
      destruct (get_lookup_need _ _ _ _ EL) as [HL1 _].
      split; [cbn [scanned set_reg]; congruence|]. intros m v Hm. cbn [reg set_reg] in Hm. rewrite Hr in Hm.
      destruct (Nat.eq_dec m n) as [->|Hne].
      + rewrite (cur_promote_eq (reg st) n (VOrig n) HL1) in Hm. inversion Hm; reflexivity.
      + rewrite (cur_promote_neq (reg st) n (VOrig n) m Hne) in Hm. apply Hvo. exact Hm.
    - pose proof (FactoryBasics.get_lookup_miss_uncached _ _ EL) as Hunc.
      destruct (get_lookup_miss_true _ _ EL) as [HL1 [HL2 HL3]].
      unfold begin_create. rewrite HL1.
      destruct (Inv_push st n (gx_inv vt s x st Hg) Hunc) as [Hadd HI0]. rewrite Hadd.
      unfold create_xt. cbn [scanned set_reg]. rewrite Hsc.
      assert (Hex : exists c, get_comp (s_pop s) n = Some c).
      { unfold get_comp. destruct (nth_error (s_pop s) n) eqn:E; [eexists; reflexivity|].
        apply nth_error_None in E. unfold pop in Hlt. lia. }
      destruct Hex as [c Ec]. rewrite Ec.
      assert (Hfinal : forall st2 pv, scanned st2 = true -> (forall m v, m <> n -> cur (reg st2) m = Some v -> v = VOrig m) ->
                pv = VOrig n -> VO (set_reg st2 (end_create_ok (reg st2) n pv))).
      { intros st2 pv Hs2 Hv2 ->. split; [exact Hs2|]. intros m v Hm. cbn [reg set_reg] in Hm.
        destruct (Nat.eq_dec m n) as [->|Hne].
        - rewrite cur_publish_eq in Hm. inversion Hm; reflexivity.
        - rewrite (cur_publish_neq (reg st2) n (VOrig n) m Hne) in Hm. apply (Hv2 m v Hne Hm). }
      destruct (shorted x _ n).
      + (* short-circuited: the after-callbacks cannot fail and substitute nothing *)
        cbn [active set_reg].
        match goal with |- context [after_chain s n (active st) ?y None] => set (st0 := y) end.
        destruct (after_chain_ok s Hns Hnf n (active st) st0) as [st2 EA]. rewrite EA. cbn [snd app].
        split; [exact I|]. intros o st' v H. inversion H; subst st' v.
        pose proof (after_chain_eff s n (active st) st0 st0 None (only_log_refl _ st0)) as Ha. rewrite EA in Ha.
        cbn [eff2] in Ha. destruct Ha as [Hr2 _ _ _ _ Hs2 _].
        apply Hfinal; [rewrite Hs2; exact Hsc| |reflexivity].
        intros m v _ Hm. rewrite Hr2 in Hm. apply Hvo. exact Hm.
      + unfold do_create_xt. cbn [reg set_reg].
        match goal with |- context [populate_t vt s rect ?y n c] => set (st0 := y) end.
        destruct (gx_fresh vt s x st Hg n Hunc) as [Hinj0 Hfld0].
        destruct (Hcomp n c Ec) as [_ [_ [Hcf1 Hcf2]]].
        assert (Hg0 : forall pl, GX vt s x (set_injs st0 n pl)).
        { intros pl. destruct Hg as [Gi Gf Gw]. constructor.
          - eapply Inv_same_core; [|exact HI0]. repeat split.
          - intros m Hm. change (reg (set_injs st0 n pl)) with (reg st0) in Hm.
            assert (Hm0 : cached (reg st) m = false).
            { destruct (cached (reg st) m) eqn:E; [|reflexivity].
              assert (Hc0 : cached (reg st0) m = true) by (unfold st0; cbn [reg set_reg]; apply mono_add_factory; exact E).
              rewrite Hc0 in Hm. discriminate. }
            destruct (Gf m Hm0) as [A1 A2]. split; [|exact A2]. cbn [injs set_injs st0 set_reg].
            assert (Hne : m <> n).
            { intros ->. unfold st0 in Hm. cbn [reg set_reg] in Hm. rewrite cached_add_factory in Hm. discriminate. }
            rewrite (alookup_aset_neq n m pl _ Hne). exact A1.
          - intros h' c' Hp Hc' Hns'. exact (Gw h' c' Hp Hc' Hns'). }
        assert (Hcr0 : forall pl, creating (reg (set_injs st0 n pl)) = n :: creating (reg st)) by reflexivity.
        assert (Hvo0 : forall pl, VO (set_injs st0 n pl)).
        { intros pl. split; [exact Hsc|]. intros m v Hm. apply Hvo. exact Hm. }
        (* populate *)
        assert (Hpop : okf (populate vt s rec st0 n c) /\ forall st1, populate vt s rec st0 n c = Ok st1 -> VO st1).
        { unfold populate, cur_injs. change (injs st0) with (injs st). rewrite Hinj0.
          change (active st0) with (active st).
          destruct Hcase as [Hfu|[Hpl _]].
          - unfold full in Hfu. rewrite (pipeline_full vt s n c (active st) st0 H8 Hfu), Hcf1, Hcf2.
            destruct (Hsat n c Ec) as [pl [Epl Hass]]. rewrite Epl.
            destruct (pointwise_shape vt (s_pop s) n H10 (c_points c) _ pl Epl ltac:(rewrite map_length; reflexivity))
              as [Hlen Hsh].
            destruct (inject_points_liveX n (creating (reg st)) (c_points c) 0 pl (set_injs st0 n pl)
                        (Hg0 pl) (Hvo0 pl) Hfu (Hcr0 pl) Hlen Hsh
                        ltac:(intros i p y d Hp Hy Hd; eapply (Hdef n c i p pl d Ec Epl Hp y Hy Hd))
                        ltac:(intros i p y d Hp Hy Hd; eapply (Hass i p y Hp Hy d Hd))) as [Hok Hv].
            split; [exact Hok|exact Hv].
          - pose proof (Hpl c Ec) as Hnil. rewrite Hnil. cbn [map].
            rewrite (pipeline_pointless vt s n c (active st) st0 Hnil Hcf1 Hcf2). cbn [inject_points].
            split; [exact I|]. intros st1 E1; inversion E1; subst. apply Hvo0. }
        destruct Hpop as [Hokp Hvop].
        assert (EPe : snd (populate_t vt s rect st0 n c) = populate vt s rec st0 n c)
          by (unfold rec; apply (populate_erase vt s rect (erase rect) (fun _ _ => eq_refl))).
        destruct (populate_t vt s rect st0 n c) as [o1 [st1|k1 st1]] eqn:EP; cbn [snd] in EPe.
        2:{ cbn [snd]. rewrite <- EPe in Hokp. split; [|intros ? ? ? HH; destruct k1; discriminate HH].
            destruct k1 as [e| |]; [exact Hokp|exact Hokp|exact I]. }
        symmetry in EPe. pose proof (Hvop st1 EPe) as [Hsc1 Hvo1].
        (* GX, creating and active after populate *)
        assert (Hg0' : GX vt s x st0).
        { destruct Hg as [Gi Gf Gw]. constructor.
          - exact HI0.
          - intros m Hm. apply Gf. destruct (cached (reg st) m) eqn:E; [|reflexivity].
            assert (Hc0 : cached (reg st0) m = true) by (unfold st0; cbn [reg set_reg]; apply mono_add_factory; exact E).
            rewrite Hc0 in Hm. discriminate.
          - intros h' c' Hp Hc' Hns'. exact (Gw h' c' Hp Hc' Hns'). }
        destruct (populate_lifeX vt s x rect Hspec Hlife (fun _ => False) st0 n c _ o1 st1 (gx_inv vt s x st0 Hg0') (Hcr0 [])
                    ltac:(intros m []) ltac:(intros []) EP) as [HI1 [Hcr1 [_ [_ [Ha1 _]]]]].
        (* GX st1: from the step lemma of FactoryXWiring through body_xt_GX is not needed here; initialize needs GX only
           for its own nested calls, which happen under a full pipeline *)
        assert (Hg1 : full s st -> GX vt s x st1).
        { intros Hfu. unfold populate, cur_injs in EPe. change (injs st0) with (injs st) in EPe. rewrite Hinj0 in EPe.
          change (active st0) with (active st) in EPe. unfold full in Hfu.
          rewrite (pipeline_full vt s n c (active st) st0 H8 Hfu), Hcf1, Hcf2 in EPe.
          destruct (plan vt s n c) as [pl|] eqn:Epl; [|discriminate].
          destruct (pointwise_shape vt (s_pop s) n H10 (c_points c) _ pl Epl ltac:(rewrite map_length; reflexivity))
            as [Hlen Hsh].
          destruct (inject_points_wiredX vt H7 s x rect Hspec Hlife HG n (creating (reg st)) (c_points c) 0 pl
                      (set_injs st0 n pl) st1 (Hg0 pl) Hfu (Hcr0 pl) Hlen Hsh ltac:(intros j _; apply Hfld0) EPe) as [Hg1 _].
          exact Hg1. }
        (* initialize *)
        unfold initialize_xt.
        destruct (before_chain_ok s Hnf n c (active st1) st1) as [sa Eb]. rewrite Eb.
        pose proof (before_chain_eff s n c (active st1) st1 st1 (only_log_refl _ st1)) as Hb. rewrite Eb in Hb. cbn [eff1] in Hb.
        unfold init_methods_xt.
        assert (Him : exists sb, init_methods n c sa = Ok sb).
        { destruct (Hcomp n c Ec) as [Hap [Hin _]]. unfold init_methods.
          destruct (c_aps c) as [[|]|]; [contradiction| |];
            (destruct (c_init c) as [[|]|]; [contradiction|eexists; reflexivity|eexists; reflexivity]). }
        destruct Him as [sb Ei]. rewrite Ei.
        pose proof (init_methods_eff s n c sa sa Ec (only_log_refl _ sa)) as Hi. rewrite Ei in Hi. cbn [eff1] in Hi.
        assert (Hfacts : reg sb = reg st1 /\ active sb = active st1 /\ scanned sb = scanned st1).
        { destruct Hb as [Hrb _ _ _ Hab Hsb _]. destruct Hi as [Hri _ _ _ Hai Hsi _]. repeat split; congruence. }
        destruct Hfacts as [Hrsb [Hasb Hssb]].
        assert (Hvob : VO sb) by (apply (VO_same st1 sb Hrsb Hssb); split; assumption).
        assert (Htail : forall sc, VO sc ->
                  okf (after_chain s n (active sc) sc None) /\
                  forall st2 w, after_chain s n (active sc) sc None = Ok (st2, w) -> w = None /\ VO st2).
        { intros sc [Hscc Hvoc]. destruct (after_chain_ok s Hns Hnf n (active sc) sc) as [st2 EA]. rewrite EA.
          split; [exact I|]. intros st2' w H. inversion H; subst.
          pose proof (after_chain_eff s n (active sc) sc sc None (only_log_refl _ sc)) as Ha. rewrite EA in Ha.
          cbn [eff2] in Ha. destruct Ha as [Hr2 _ _ _ _ Hs2 _].
          split; [reflexivity|]. split; [congruence|]. intros m v Hm. rewrite Hr2 in Hm. apply Hvoc. exact Hm. }
        assert (Hgets : (forall o3 k3 sc, (match c_init c with
                                       | Some _ => init_gets_t rect n 0 (initget_of x n) sb
                                       | None => ([], Ok sb) end) = (o3, Fail k3 sc) -> okf (@Fail fstate k3 sc)) /\
                        forall o3 sc, (match c_init c with
                                       | Some _ => init_gets_t rect n 0 (initget_of x n) sb
                                       | None => ([], Ok sb) end) = (o3, Ok sc) -> VO sc).
        { destruct (c_init c); [|split; [intros o3 k3 sc H; discriminate H|intros o3 sc H; inversion H; subst; exact Hvob]].
          destruct Hcase as [Hfu|[_ Hq]].
          - assert (Hgb : GX vt s x sb) by (apply (GX_only_log vt s x _ sa sb Hi); apply (GX_only_log vt s x _ st1 sa Hb); exact (Hg1 Hfu)).
            assert (Hfub : full s sb) by (unfold full; rewrite Hasb, Ha1; exact Hfu).
            assert (Hcrb : creating (reg sb) = n :: creating (reg st)) by (rewrite Hrsb; exact Hcr1).
            destruct (init_gets_liveX n (creating (reg st)) (initget_of x n) 0 sb Hgb Hvob Hfub Hcrb (Hxdef n)) as [Hok Hres].
            split; [|intros o3 sc H; apply (Hres o3 sc H)].
            intros o3 k3 sc H. rewrite H in Hok. exact Hok.
          - rewrite Hq. cbn [init_gets_t]. split; [intros o3 k3 sc H; discriminate H|]. intros o3 sc H; inversion H; subst; exact Hvob. }
        destruct Hgets as [Hokg Hvog].
        destruct (match c_init c with
                  | Some _ => init_gets_t rect n 0 (initget_of x n) sb
                  | None => ([], Ok sb) end) as [o3 [sc|k3 sc]] eqn:E3.
        2:{ pose proof (Hokg o3 k3 sc eq_refl) as Hk. cbn [snd]. split; [|intros ? ? ? HH; destruct k3; discriminate HH].
            destruct k3 as [e| |]; [exact Hk|exact Hk|exact I]. }
        pose proof (Hvog o3 sc eq_refl) as Hvoc.
        destruct (Htail sc Hvoc) as [Hokt Hrest].
        destruct (after_chain s n (active sc) sc None) as [[st2 w]|k4 st2] eqn:EA.
        2:{ cbn [snd]. split; [|intros ? ? ? HH; destruct k4; discriminate HH]. destruct k4 as [e| |]; [exact Hokt|exact Hokt|exact I]. }
        destruct (Hrest st2 w eq_refl) as [-> [Hsc2 Hvo2]].
        unfold get_singleton_t, get_singleton. rewrite (FactoryBasics_get_lookup_false (reg st2) n).
        destruct (match alookup n (L1 (reg st2)) with Some v0 => Some v0 | None => alookup n (L2 (reg st2)) end) as [e|] eqn:Ecur.
        * cbn [snd]. split; [exact I|]. intros o st' v H; inversion H; subst. apply Hfinal; [exact Hsc2| |].
          -- intros m v0 _ Hm. apply Hvo2. exact Hm.
          -- apply Hvo2. unfold cur. exact Ecur.
        * cbn [snd]. split; [exact I|]. intros o st' v H; inversion H; subst. apply Hfinal; [exact Hsc2| |reflexivity].
          intros m v0 _ Hm. apply Hvo2. exact Hm.
  Qed.
End LiveX.

(* ---------- closing the recursion ------------------------------------------------------------------------- *)

Section LiveXTop.
  Variable vt : variant.
  Hypothesis H3 : fix_c03 vt = true.
  Hypothesis H7 : fix_c07 vt = true.
  Hypothesis H8 : fix_c08 vt = true.
  Hypothesis H10 : fix_c10 vt = true.
  Variable s : scenario.
  Variable x : extras.
  Hypothesis Hsmall : small_points s.
  Let pop := s_pop s.
  Hypothesis Hns : forall p e a, proc_of pop p = Some (PUser e a) ->
    (forall n, alookup n e <> Some EFresh) /\ (forall n, alookup n a = None \/ alookup n a = Some ANone).
  Hypothesis Hnf : forall p ph n, faulty s p ph n = false.
  Hypothesis Hcomp : forall n c, get_comp pop n = Some c ->
    c_aps c <> Some true /\ c_init c <> Some true /\ cfg_stage c true = false /\ cfg_stage c false = false.
  Hypothesis Hsat : forall n c, get_comp pop n = Some c ->
    exists pl, plan vt s n c = Some pl /\
      forall k p y, nth_error (c_points c) k = Some p -> nth_error pl k = Some y ->
        forall d, In d (used_of p (remove_nil y)) -> exists cd, get_comp pop d = Some cd /\ type_ok cd (pt_target p) = true.
  Hypothesis Hdef : forall n c k p y d, get_comp pop n = Some c -> plan vt s n c = Some y ->
    nth_error (c_points c) k = Some p -> forall pl, nth_error y k = Some pl -> In d (remove_nil pl) -> d < length pop.
  Hypothesis Hxdef : forall n d, In d (initget_of x n) -> d < length pop.

  Theorem do_get_xt_live : forall fuel st n, GX vt s x st -> VO st ->
    (full s st \/ ((forall c, get_comp pop n = Some c -> c_points c = []) /\ initget_of x n = [])) -> n < length pop ->
    okf (snd (do_get_xt vt s x fuel st n)) /\ forall o st' v, do_get_xt vt s x fuel st n = (o, Ok (st', v)) -> VO st'.
  Proof.
    induction fuel as [|f IH]; intros st n Hg Hvo Hc Hlt; cbn [do_get_xt].
    - split; [exact I|intros ? ? ? HH; discriminate HH].
    - assert (HG' : forall st0 d st1 v1, GX vt s x st0 -> full s st0 ->
                erase (do_get_xt vt s x f) st0 d = Ok (st1, v1) -> GX vt s x st1)
        by (intros st0 d st1 v1 Hg0 Hf0 H0; eapply (do_get_xt_GX vt s x H3 H7 H8 H10 Hsmall); [exact Hg0|left; exact Hf0|exact H0]).
      assert (Hl' : forall st0 d, GX vt s x st0 -> VO st0 -> full s st0 -> d < length (s_pop s) ->
                      okf (erase (do_get_xt vt s x f) st0 d) /\
                      forall st' v, erase (do_get_xt vt s x f) st0 d = Ok (st', v) -> VO st').
      { intros st0 d Hg0 Hvo0 Hf0 Hd0. destruct (IH st0 d Hg0 Hvo0 (or_introl Hf0) Hd0) as [Hok Hv]. unfold erase.
        split; [exact Hok|]. intros st' v H. destruct (do_get_xt vt s x f st0 d) as [o r] eqn:E. cbn [snd] in H. subst r.
        apply (Hv o st' v eq_refl). }
      exact (body_xt_liveX vt H7 H8 H10 s x Hns Hnf Hcomp Hsat Hdef Hxdef (do_get_xt vt s x f)
               (do_get_xt_spec vt s x H3 f) (do_get_xt_lifeX vt s x H3 Hsmall f) HG' Hl' st n Hg Hvo Hc Hlt).
  Qed.

  Lemma prepare_loop_xt_live : forall ps st,
    (forall p, In p ps -> p < length pop /\ (forall c, get_comp pop p = Some c -> c_points c = []) /\ initget_of x p = []) ->
    GX vt s x st -> VO st ->
    okf (snd (prepare_loop_xt vt s x ps st)) /\
    forall o st', prepare_loop_xt vt s x ps st = (o, Ok st') -> GX vt s x st' /\ VO st' /\ active st' = active st ++ ps.
  Proof.
    induction ps as [|p r IH]; intros st Hp Hg Hvo; cbn [prepare_loop_xt].
    - split; [exact I|]. intros o st' H; inversion H; subst. rewrite app_nil_r. auto.
    - assert (Hr : forall q, In q r -> q < length pop /\ (forall c, get_comp pop q = Some c -> c_points c = []) /\ initget_of x q = [])
        by (intros q Hq; apply Hp; right; exact Hq).
      destruct (Hp p (or_introl eq_refl)) as [Hlt [Hpl Hq]].
      destruct (is_lazy (s_pop s) p).
      + destruct (IH (set_active st (active st ++ [p])) Hr
                    (GX_core vt s x st (set_active st (active st ++ [p])) ltac:(repeat split) eq_refl Hg)
                    ltac:(destruct Hvo as [A B]; split; [exact A|exact B])) as [Hok Hres].
        split; [exact Hok|]. intros o st' H. destruct (Hres o st' H) as [Hg' [Hvo' Ha']].
        split; [exact Hg'|]. split; [exact Hvo'|]. rewrite Ha'. cbn [active set_active]. rewrite <- app_assoc. reflexivity.
      + destruct (do_get_xt_live (fuel_of s) st p Hg Hvo (or_intror (conj Hpl Hq)) Hlt) as [Hok Hv].
        destruct (do_get_xt vt s x (fuel_of s) st p) as [o1 [[st1 v]|k st1]] eqn:E1; [|cbn [snd] in *; split; [exact Hok|intros ? ? HH; discriminate HH]].
        pose proof (Hv o1 st1 v eq_refl) as Hvo1.
        assert (E1' : erase (do_get_xt vt s x (fuel_of s)) st p = Ok (st1, v)) by (unfold erase; rewrite E1; reflexivity).
        assert (Hg1 : GX vt s x st1)
          by (eapply (do_get_xt_GX vt s x H3 H7 H8 H10 Hsmall); [exact Hg|right; split; [exact Hpl|exact Hq]|exact E1']).
        pose proof (do_get_xt_active vt s x _ _ _ _ _ _ H3 Hsmall (gx_inv vt s x st Hg) E1) as Ha1.
        destruct (IH (set_active st1 (active st1 ++ [p])) Hr
                    (GX_core vt s x st1 (set_active st1 (active st1 ++ [p])) ltac:(repeat split) eq_refl Hg1)
                    ltac:(destruct Hvo1 as [A B]; split; [exact A|exact B])) as [Hok2 Hres2].
        match goal with |- context [let (_, _) := ?t in _] => destruct t as [o2 r2] eqn:E2 end. cbn [snd].
        split; [change r2 with (snd (o2, r2)); rewrite <- E2; exact Hok2|]. intros o st' H. inversion H; subst.
        destruct (Hres2 o2 st' E2) as [Hg' [Hvo' Ha']].
        split; [exact Hg'|]. split; [exact Hvo'|]. rewrite Ha'. cbn [active set_active]. rewrite Ha1, <- app_assoc. reflexivity.
  Qed.

  Lemma get_each_xt_live : forall ns st, (forall n, In n ns -> n < length pop) ->
    GX vt s x st -> VO st -> full s st -> okf (snd (get_each_xt vt s x ns st)).
  Proof.
    induction ns as [|n r IH]; intros st Hn Hg Hvo Hfu; cbn [get_each_xt]; [exact I|].
    destruct (do_get_xt_live (fuel_of s) st n Hg Hvo (or_introl Hfu) (Hn n (or_introl eq_refl))) as [Hok Hv].
    destruct (do_get_xt vt s x (fuel_of s) st n) as [o1 [[st1 v]|k st1]] eqn:E1; [|exact Hok].
    assert (E1' : erase (do_get_xt vt s x (fuel_of s)) st n = Ok (st1, v)) by (unfold erase; rewrite E1; reflexivity).
    pose proof (IH st1 (fun m Hm => Hn m (or_intror Hm))
                 ltac:(eapply (do_get_xt_GX vt s x H3 H7 H8 H10 Hsmall); [exact Hg|left; exact Hfu|exact E1'])
                 (Hv o1 st1 v eq_refl)
                 ltac:(unfold full; rewrite (do_get_xt_active vt s x _ _ _ _ _ _ H3 Hsmall (gx_inv vt s x st Hg) E1); exact Hfu)) as H2.
    destruct (get_each_xt vt s x r st1) as [o2 [st2|k2 st2]]; exact H2.
  Qed.

  Theorem run_core_xt_live :
    s_loader_fail s = false -> (forall n, runner_fails s n = false) ->
    (forall p, In p (sorted_procs s) -> p < length pop /\ (forall c, get_comp pop p = Some c -> c_points c = []) /\ initget_of x p = []) ->
    stages pop (sorted_procs s) = full_stages ->
    exists o st, run_core_xt vt s x = (o, Ok st).
  Proof.
    intros Hl Hr Hp Hs.
    assert (Hokf : okf (snd (run_core_xt vt s x))).
    { unfold run_core_xt. rewrite Hl.
      destruct (prepare_loop_xt_live (sorted_procs s) (set_scanned finit) Hp (GX_finit vt s x)
                  ltac:(split; [reflexivity|intros m v Hm; cbn in Hm; discriminate])) as [Hok1 Hres1].
      destruct (prepare_loop_xt vt s x (sorted_procs s) (set_scanned finit)) as [o1 [st1|k st1]] eqn:E1; [|exact Hok1].
      destruct (Hres1 o1 st1 eq_refl) as [Hg1 [Hvo1 Ha1]]. cbn [active set_scanned finit app] in Ha1.
      pose proof (get_each_xt_live (eager_names s) st1
                  ltac:(intros n Hn; unfold eager_names in Hn; apply filter_In in Hn; destruct Hn as [Hn _]; apply names_of_In; exact Hn)
                  Hg1 Hvo1 ltac:(unfold full; rewrite Ha1; exact Hs)) as H2.
      destruct (get_each_xt vt s x (eager_names s) st1) as [o2 [st2|k2 st2]]; [|exact H2].
      cbn [snd]. unfold call_runners. destruct (s_app s) as [[[a rp] cp]|]; [|exact I].
      match goal with |- context [run_each s ?ns st2] => destruct (run_each_live s ns Hr st2) as [st3 ->] end. exact I. }
    assert (Hnf2 : nofuel (snd (run_core_xt vt s x))).
    { unfold run_core_xt. rewrite Hl.
      pose proof (prepare_loop_xt_nf vt s x (sorted_procs s) (set_scanned finit)) as H1.
      destruct (prepare_loop_xt vt s x (sorted_procs s) (set_scanned finit)) as [o1 [st1|k st1]]; [|exact H1].
      pose proof (get_each_xt_nf vt s x (eager_names s) st1) as H2.
      destruct (get_each_xt vt s x (eager_names s) st1) as [o2 [st2|k2 st2]]; [|exact H2].
      cbn [snd]. unfold call_runners. destruct (s_app s) as [[[a rp] cp]|]; [|exact I].
      match goal with |- context [run_each s ?ns st2] => destruct (run_each_live s ns Hr st2) as [st3 ->] end. exact I. }
    destruct (run_core_xt vt s x) as [o [st|k st]]; [exists o, st; reflexivity|].
    cbn [snd] in *. destruct k; contradiction.
  Qed.
End LiveXTop.

Definition initgets_defined_b (s : scenario) (x : extras) : bool :=
  forallb (fun e => forallb (fun d => Nat.ltb d (length (s_pop s))) (snd e)) (x_initget x).

Lemma alookup_In' {A} n (l : list (name * A)) a : alookup n l = Some a -> In (n, a) l.
Proof.
  induction l as [|[m b] r IH]; cbn [alookup]; [discriminate|].
  destruct (Nat.eqb_spec m n) as [->|Hne]; intros H; [inversion H; left; reflexivity|right; apply IH; exact H].
Qed.

Lemma initgets_defined_sound s x : initgets_defined_b s x = true ->
  forall n d, In d (initget_of x n) -> d < length (s_pop s).
Proof.
  unfold initgets_defined_b. rewrite forallb_forall. intros H n d Hd. unfold initget_of in Hd.
  destruct (alookup n (x_initget x)) as [l|] eqn:E; [|contradiction].
  specialize (H (n, l) (alookup_In' _ _ _ E)). cbn [snd] in H. rewrite forallb_forall in H.
  apply Nat.ltb_lt. apply H. exact Hd.
Qed.

Theorem run_core_xt_succeeds vt s x :
  fix_c03 vt = true -> fix_c07 vt = true -> fix_c08 vt = true -> fix_c10 vt = true -> small_points s ->
  no_subst_b s = true -> no_faults_b s = true -> satisfiable_b vt s = true ->
  procs_pointless_b s = true -> procs_quiet_b s x = true -> initgets_defined_b s x = true -> stages_ok_b s = true ->
  exists o st, run_core_xt vt s x = (o, Ok st).
Proof.
  intros H3 H7 H8 H10 Hsm Hns Hnf Hsat Hpp Hpq Hxd Hso.
  destruct (no_faults_sound s Hnf) as [Hf [Hl [Hr Hc]]].
  destruct (satisfiable_sound vt s Hsat) as [Hs1 Hs2].
  apply (run_core_xt_live vt H3 H7 H8 H10 s x Hsm (no_subst_sound s Hns) Hf Hc Hs1 Hs2 (initgets_defined_sound s x Hxd) Hl Hr).
  - intros p Hp. destruct (sorted_procs_defined s p Hp) as [c Ec]. split; [eapply get_comp_lt; exact Ec|]. split.
    + intros c' Ec'. eapply (procs_pointless_b_sound s Hpp); eauto.
    + apply (procs_quiet_b_sound s x Hpq p Hp).
  - apply stages_eqb_eq. exact Hso.
Qed.
