(* ScanCheckProofs.v — the scan checker (Model/ScanCheck.v) never rejects a linearizable history.

   A "sequential witness" of a timed history is a list W of the same records such that
     - the operations of W, executed one after the other from the empty map, return the recorded results
       (SyncMap.legal: every operation, Range included, takes effect atomically at its place in W), and
     - W respects the tickets: no record of W returned before an EARLIER record of W was invoked ([rt_ok]).
   That is linearizability of a complete history with every scan atomic (the strongest reading).  Theorem
   [scan_check_complete]: a history that has such a witness passes [scan_check]; [partial_scan_ok]: so does a scan
   that was stopped early and reported some of the pairs present at its place in W. *)
From Coq Require Import List Arith Bool NArith Lia.
From IocVerif Require Import Model.SyncMap Model.ScanCheck Proofs.SyncMapProofs.
Import ListNotations.

(* ---------- lazy boolean searches ---------- *)
Lemma lforallb_intro : forall A (f : A -> bool) l, (forall x, In x l -> f x = true) -> lforallb f l = true.
Proof.
  induction l as [|a r IH]; simpl; intros Hf; [reflexivity|].
  rewrite (Hf a (or_introl eq_refl)). apply IH. intros x Hx. apply Hf. right. exact Hx.
Qed.

Lemma lforallb_elim : forall A (f : A -> bool) l, lforallb f l = true -> forall x, In x l -> f x = true.
Proof.
  induction l as [|a r IH]; simpl; intros Hf x Hx; [contradiction|].
  destruct (f a) eqn:Ea; [|discriminate]. destruct Hx as [<-|Hx]; [exact Ea|apply IH; assumption].
Qed.

Lemma lexistsb_none : forall A (f : A -> bool) l, (forall x, In x l -> f x = false) -> lexistsb f l = false.
Proof.
  induction l as [|a r IH]; simpl; intros Hf; [reflexivity|].
  rewrite (Hf a (or_introl eq_refl)). apply IH. intros x Hx. apply Hf. right. exact Hx.
Qed.

(* ---------- canonical maps: keys strictly increasing ---------- *)
Fixpoint lb (lo : nat) (m : smap) : Prop :=
  match m with [] => True | (k, _) :: r => lo <= k /\ lb (S k) r end.

Lemma lb_weaken : forall m lo lo', lb lo m -> lo' <= lo -> lb lo' m.
Proof. destruct m as [|[k v] r]; simpl; intros lo lo' Hl Hle; [exact I|]. destruct Hl. split; [lia|assumption]. Qed.

Lemma lb_put : forall m lo k v, lb lo m -> lo <= k -> lb lo (put m k v).
Proof.
  induction m as [|[k' v'] r IH]; simpl; intros lo k v Hl Hle; [split; [assumption|exact I]|].
  destruct Hl as [Hlo Hr].
  destruct (Nat.ltb k k') eqn:E1.
  - apply Nat.ltb_lt in E1. simpl. split; [assumption|]. split; [lia|assumption].
  - apply Nat.ltb_ge in E1. destruct (Nat.eqb k k') eqn:E2.
    + apply Nat.eqb_eq in E2. subst k'. simpl. split; assumption.
    + apply Nat.eqb_neq in E2. simpl. split; [assumption|]. apply IH; [assumption|lia].
Qed.

Lemma lb_del : forall m lo k, lb lo m -> lb lo (del m k).
Proof.
  induction m as [|[k' v'] r IH]; simpl; intros lo k Hl; [exact I|].
  destruct Hl as [Hlo Hr]. destruct (Nat.eqb k k').
  - apply (lb_weaken _ (S k')); [apply IH; assumption|lia].
  - simpl. split; [assumption|apply IH; assumption].
Qed.

Lemma lb_in_ge : forall m lo k v, lb lo m -> In (k, v) m -> lo <= k.
Proof.
  induction m as [|[k' v'] r IH]; simpl; intros lo k v Hl Hin; [contradiction|].
  destruct Hl as [Hlo Hr]. destruct Hin as [E|Hin]; [inversion E; subst; assumption|].
  specialize (IH _ _ _ Hr Hin). lia.
Qed.

Lemma lb_in_get : forall m lo k v, lb lo m -> In (k, v) m -> get m k = Some v.
Proof.
  induction m as [|[k' v'] r IH]; simpl; intros lo k v Hl Hin; [contradiction|].
  destruct Hl as [Hlo Hr]. destruct Hin as [E|Hin].
  - inversion E; subst. rewrite Nat.eqb_refl. reflexivity.
  - pose proof (lb_in_ge _ _ _ _ Hr Hin) as Hge.
    destruct (Nat.eqb k k') eqn:E; [apply Nat.eqb_eq in E; lia|]. apply (IH _ _ _ Hr Hin).
Qed.

Lemma lb_sorted : forall m lo, lb lo m -> sorted_from lo m = true.
Proof.
  induction m as [|[k v] r IH]; simpl; intros lo Hl; [reflexivity|].
  destruct Hl as [Hlo Hr]. apply Nat.leb_le in Hlo. rewrite Hlo. apply IH. assumption.
Qed.

Lemma spec_lb : forall m o, lb 0 m -> lb 0 (fst (spec m o)).
Proof.
  intros m o Hl. destruct o; simpl; try assumption;
    try (apply lb_put; [assumption|lia]); try (apply lb_del; assumption);
    (destruct (get m k); simpl; [assumption|apply lb_put; [assumption|lia]]).
Qed.

Lemma final_lb : forall L m, lb 0 m -> lb 0 (final m L).
Proof.
  induction L as [|[o r] L IH]; simpl; intros m Hl; [assumption|]. apply IH. apply spec_lb. assumption.
Qed.

(* ---------- what one legal operation does to one key ---------- *)
Lemma get_del_same : forall m k, get (del m k) k = None.
Proof.
  induction m as [|[k' v'] r IH]; simpl; intros k; [reflexivity|].
  destruct (Nat.eqb k k') eqn:E; [apply IH|]. simpl. rewrite E. apply IH.
Qed.

Definition seqh (l : list trec) : list (op * ret) := map (fun a => (t_op a, t_ret a)) l.

Lemma seqh_app : forall a b, seqh (a ++ b) = seqh a ++ seqh b.
Proof. intros. apply map_app. Qed.

Lemma spec_eff : forall m a k, snd (spec m (t_op a)) = t_ret a ->
  get (fst (spec m (t_op a))) k =
  match eff a with Some (k', x) => if Nat.eqb k k' then x else get m k | None => get m k end.
Proof.
  intros m [o r i j] k. unfold eff. simpl t_op. simpl t_ret. intros Hr.
  assert (Hput : forall k0 v, get (put m k0 v) k = if Nat.eqb k k0 then Some v else get m k).
  { intros k0 v. destruct (Nat.eqb k k0) eqn:E.
    - apply Nat.eqb_eq in E. subst. apply get_put_same.
    - apply Nat.eqb_neq in E. apply get_put_other. assumption. }
  assert (Hdel : forall k0, get (del m k0) k = if Nat.eqb k k0 then None else get m k).
  { intros k0. destruct (Nat.eqb k k0) eqn:E.
    - apply Nat.eqb_eq in E. subst. apply get_del_same.
    - apply Nat.eqb_neq in E. apply get_del_other. assumption. }
  destruct o; simpl in *; try reflexivity; try apply Hput; try apply Hdel.
  - destruct (get m k0) eqn:G; simpl in *; subst r; [reflexivity|apply Hput].
  - destruct (get m k0) eqn:G; simpl in *; subst r; [reflexivity|apply Hput].
Qed.

(* the mapping of k in the state reached by a legal sequence was written by its last operation that touches k *)
Lemma provenance : forall pre k v, legal [] (seqh pre) -> get (final [] (seqh pre)) k = Some v ->
  exists p1 w p2, pre = p1 ++ w :: p2 /\ eff w = Some (k, Some v) /\ forall u, In u p2 -> muts k u = false.
Proof.
  induction pre as [|a pre IH] using rev_ind; intros k v Hl Hg; [discriminate|].
  rewrite seqh_app in Hl, Hg. apply legal_app in Hl. destruct Hl as [Hl1 Hl2].
  rewrite final_app in Hg. simpl in Hl2, Hg. destruct Hl2 as [Hr _].
  rewrite (spec_eff _ a k Hr) in Hg.
  assert (Hkeep : get (final [] (seqh pre)) k = Some v -> muts k a = false ->
                  exists p1 w p2, pre ++ [a] = p1 ++ w :: p2 /\ eff w = Some (k, Some v)
                                  /\ forall u, In u p2 -> muts k u = false).
  { intros Hg' Hm. destruct (IH k v Hl1 Hg') as [p1 [w [p2 [E [Hw Hp2]]]]].
    exists p1, w, (p2 ++ [a]). split; [rewrite E, <- app_assoc; reflexivity|]. split; [assumption|].
    intros u Hu. apply in_app_or in Hu. destruct Hu as [Hu|[<-|[]]]; [apply Hp2; assumption|assumption]. }
  destruct (eff a) as [[k' x]|] eqn:Ea.
  - destruct (Nat.eqb k k') eqn:E.
    + apply Nat.eqb_eq in E. subst k' x. exists pre, a, []. split; [reflexivity|]. split; [assumption|].
      intros u [].
    + apply Hkeep; [assumption|]. unfold muts. rewrite Ea. assumption.
  - apply Hkeep; [assumption|]. unfold muts. rewrite Ea. reflexivity.
Qed.

(* a mapping survives operations that do not touch the key or write the same pair again *)
Lemma stable_state : forall p2 m k v, legal m (seqh p2) -> get m k = Some v ->
  (forall u, In u p2 -> muts k u = true -> eff u = Some (k, Some v)) -> get (final m (seqh p2)) k = Some v.
Proof.
  induction p2 as [|a p2 IH]; simpl; intros m k v Hl Hg Hu; [assumption|].
  destruct Hl as [Hr Hl]. apply IH; [assumption| |intros u Hin; apply Hu; right; assumption].
  rewrite (spec_eff _ a k Hr). pose proof (Hu a (or_introl eq_refl)) as Ha. unfold muts in Ha.
  destruct (eff a) as [[k' x]|]; [|assumption].
  destruct (Nat.eqb k k') eqn:E; [|assumption]. specialize (Ha eq_refl). inversion Ha. reflexivity.
Qed.

(* ---------- the witness respects the tickets ---------- *)
Fixpoint rt_ok (l : list trec) : Prop :=
  match l with
  | [] => True
  | a :: r => bef a a = false /\ (forall b, In b r -> bef b a = false) /\ rt_ok r
  end.

Lemma rt_ok_split : forall l1 x l2, rt_ok (l1 ++ x :: l2) ->
  bef x x = false /\ (forall b, In b l2 -> bef b x = false) /\ (forall b, In b l1 -> bef x b = false).
Proof.
  induction l1 as [|a l1 IH]; simpl; intros x l2 [Hs [Hl Hr]].
  - split; [assumption|]. split; [assumption|intros b []].
  - destruct (IH _ _ Hr) as [H1 [H2 H3]]. split; [assumption|]. split; [assumption|].
    intros b [<-|Hb]; [apply Hl; apply in_or_app; right; left; reflexivity|apply H3; assumption].
Qed.

Lemma rt_ok_app_r : forall l1 l2, rt_ok (l1 ++ l2) -> rt_ok l2.
Proof. induction l1 as [|a l1 IH]; simpl; intros l2 Hr; [assumption|]. apply IH. apply Hr. Qed.

Lemma rt_ok_later : forall l1 l2, rt_ok (l1 ++ l2) -> forall a b, In a l1 -> In b l2 -> bef b a = false.
Proof.
  induction l1 as [|x l1 IH]; simpl; intros l2 Hr a b Ha Hb; [contradiction|].
  destruct Hr as [_ [Hl Hr]]. destruct Ha as [<-|Ha]; [apply Hl; apply in_or_app; right; assumption|].
  apply (IH _ Hr); assumption.
Qed.

(* ---------- an observer placed at a point of the witness ---------- *)
Section Point.
  Variables (recs W p q : list trec) (inv res : N).
  Hypothesis Hsame : forall x, In x recs <-> In x W.
  Hypothesis HW : W = p ++ q.
  Hypothesis Hlegal : legal [] (seqh W).
  Hypothesis Hrt : rt_ok W.
  (* the observer's interval lies at that point: it did not return before an earlier operation was invoked, and no
     later operation returned before it was invoked *)
  Hypothesis Hp : forall a, In a p -> N.ltb res (t_inv a) = false.
  Hypothesis Hq : forall b, In b q -> N.ltb (t_res b) inv = false.

  Let st := final [] (seqh p).

  Lemma legal_p : legal [] (seqh p).
  Proof. rewrite HW, seqh_app in Hlegal. apply legal_app in Hlegal. apply Hlegal. Qed.

  Lemma in_effects : forall x, In x W -> has_eff x = true -> In x (effects recs).
  Proof. intros x Hx He. unfold effects. apply filter_In. split; [apply Hsame; assumption|assumption]. Qed.

  Lemma effects_in : forall x, In x (effects recs) -> In x W.
  Proof. intros x Hx. unfold effects in Hx. apply filter_In in Hx. apply Hsame. apply Hx. Qed.

  Lemma point_pair_ok : forall k v, get st k = Some v -> pair_ok (effects recs) inv res (k, v) = true.
  Proof.
    intros k v Hg. destruct (provenance p k v legal_p Hg) as [p1 [w [p2 [Ep [Hw Hp2]]]]].
    assert (HwW : In w W). { rewrite HW, Ep. apply in_or_app. left. apply in_or_app. right. left. reflexivity. }
    unfold pair_ok. apply lexistsb_exists. exists w. split.
    - apply in_effects; [assumption|]. unfold has_eff. rewrite Hw. reflexivity.
    - simpl. unfold wrote_b. rewrite Hw, !Nat.eqb_refl.
      rewrite (Hp w) by (rewrite Ep; apply in_or_app; right; left; reflexivity).
      apply negb_true_iff. unfold overwritten. apply lexistsb_none. intros u Hu.
      apply effects_in in Hu.
      destruct (muts k u) eqn:Em; [|reflexivity].
      destruct (N.ltb (t_res w) (t_inv u)) eqn:E1; [|reflexivity].
      (* u lies after w in the witness ... *)
      assert (HWs : W = p1 ++ w :: (p2 ++ q)). { rewrite HW, Ep, <- app_assoc. reflexivity. }
      pose proof Hrt as Hrt'. rewrite HWs in Hrt'. destruct (rt_ok_split _ _ _ Hrt') as [Hww [_ Hbefore]].
      rewrite HWs in Hu. apply in_app_or in Hu. destruct Hu as [Hu|[<-|Hu]].
      + specialize (Hbefore u Hu). unfold bef in Hbefore. congruence.
      + unfold bef in Hww. congruence.
      + apply in_app_or in Hu. destruct Hu as [Hu|Hu].
        * rewrite (Hp2 u Hu) in Em. discriminate.
        * apply Hq. assumption.
  Qed.

  Lemma point_pairs_ok : forall l, (forall pr, In pr l -> get st (fst pr) = Some (snd pr)) ->
    lforallb (pair_ok (effects recs) inv res) l = true.
  Proof.
    intros l Hl. apply lforallb_intro. intros [k v] Hin. apply point_pair_ok. apply (Hl (k, v) Hin).
  Qed.

  Lemma point_complete_ok : forall scope l, (forall k, scope k = true -> get l k = get st k) ->
    complete_ok (effects recs) inv res scope l = true.
  Proof.
    intros scope l Hl. unfold complete_ok. apply lforallb_intro. intros w Hw.
    destruct (eff w) as [[k [v|]]|] eqn:Ew; try reflexivity.
    destruct (scope k) eqn:Es; [|reflexivity].
    destruct (stable_w (effects recs) inv res k v w) eqn:Est; [|reflexivity].
    unfold stable_w in Est. destruct (N.ltb (t_res w) inv) eqn:Ewi; [|discriminate].
    pose proof (lforallb_elim _ _ _ Est) as Hall. clear Est.
    apply effects_in in Hw. rewrite HW in Hw. apply in_app_or in Hw. destruct Hw as [Hw|Hw].
    2:{ rewrite (Hq w Hw) in Ewi. discriminate. }
    destruct (in_split _ _ Hw) as [p1 [p2 Ep]].
    assert (Hst : get st k = Some v).
    { unfold st. rewrite Ep. replace (p1 ++ w :: p2) with ((p1 ++ [w]) ++ p2) by (rewrite <- app_assoc; reflexivity).
      pose proof legal_p as Hlp. rewrite Ep in Hlp.
      replace (p1 ++ w :: p2) with ((p1 ++ [w]) ++ p2) in Hlp by (rewrite <- app_assoc; reflexivity).
      rewrite seqh_app in *. apply legal_app in Hlp. destruct Hlp as [Hl1 Hl2]. rewrite final_app.
      apply stable_state; [assumption| |].
      - rewrite seqh_app in *. apply legal_app in Hl1. destruct Hl1 as [_ [Hr _]]. rewrite final_app. simpl.
        simpl in Hr. rewrite (spec_eff _ w k Hr), Ew, Nat.eqb_refl. reflexivity.
      - intros u Hu Hm.
        assert (HuW : In u W). { rewrite HW, Ep. apply in_or_app. left. apply in_or_app. right. right. assumption. }
        assert (Hue : has_eff u = true).
        { unfold has_eff. unfold muts in Hm. destruct (eff u); [reflexivity|discriminate]. }
        specialize (Hall u (in_effects u HuW Hue)). simpl in Hall. rewrite Hm in Hall.
        (* u lies after w and before the observer in the witness *)
        assert (HWs : W = p1 ++ w :: (p2 ++ q)). { rewrite HW, Ep, <- app_assoc. reflexivity. }
        pose proof Hrt as Hrt'. rewrite HWs in Hrt'. destruct (rt_ok_split _ _ _ Hrt') as [_ [Hafter _]].
        assert (E1 : N.ltb (t_res u) (t_inv w) = false).
        { apply (Hafter u). apply in_or_app. left. assumption. }
        rewrite E1 in Hall.
        rewrite (Hp u) in Hall by (rewrite Ep; apply in_or_app; right; right; assumption).
        unfold wrote_b in Hall. unfold muts in Hm.
        destruct (eff u) as [[k' [v'|]]|]; try discriminate.
        rewrite Hm in Hall. apply Nat.eqb_eq in Hm. apply Nat.eqb_eq in Hall. subst. reflexivity. }
    rewrite (Hl k Es), Hst. simpl. apply Nat.eqb_refl.
  Qed.
End Point.

(* ---------- the theorems ---------- *)

Lemma obs_ok_intro : forall H inv res scope full l,
  sorted_from 0 l = true -> lforallb (pair_ok H inv res) l = true ->
  (full = true -> complete_ok H inv res scope l = true) -> obs_ok H inv res scope full l = true.
Proof.
  intros H inv res scope full l Hs Hp Hc. unfold obs_ok. rewrite Hs, Hp. destruct full; [apply Hc|]; reflexivity.
Qed.

(* a scan that was stopped early: an interval placed at a point of the witness, reporting (without repetition)
   pairs that are in the map at that point *)
Theorem partial_scan_ok : forall recs W p q inv res l,
  (forall x, In x recs <-> In x W) -> W = p ++ q -> legal [] (seqh W) -> rt_ok W ->
  (forall a, In a p -> N.ltb res (t_inv a) = false) -> (forall b, In b q -> N.ltb (t_res b) inv = false) ->
  sorted_from 0 l = true -> (forall pr, In pr l -> get (final [] (seqh p)) (fst pr) = Some (snd pr)) ->
  obs_ok (effects recs) inv res (fun _ => true) false l = true.
Proof.
  intros recs W p q inv res l Hsame HW Hl Hrt Hp Hq Hs Hin. apply obs_ok_intro; [assumption| |discriminate].
  exact (point_pairs_ok recs W p q inv res Hsame HW Hl Hrt Hp Hq l Hin).
Qed.

(* every observer among the records of a history that has a sequential witness passes *)
Theorem scan_check_complete : forall recs W,
  (forall x, In x recs <-> In x W) -> legal [] (seqh W) -> rt_ok W -> scan_check recs [] = true.
Proof.
  intros recs W Hsame Hl Hrt. unfold scan_check.
  assert (Hall : forall a, In a recs ->
            match observer a with
            | Some (scope, full, l) => obs_ok (effects recs) (t_inv a) (t_res a) scope full l
            | None => true
            end = true).
  { intros a Ha. apply Hsame in Ha. destruct (in_split _ _ Ha) as [p [q EW]].
    pose proof Hrt as Hrt'. rewrite EW in Hrt'. destruct (rt_ok_split _ _ _ Hrt') as [Haa [Hafter Hbefore]].
    assert (Hp : forall x, In x p -> N.ltb (t_res a) (t_inv x) = false) by exact Hbefore.
    assert (Hq : forall b, In b (a :: q) -> N.ltb (t_res b) (t_inv a) = false).
    { intros b [<-|Hb]; [exact Haa|exact (Hafter b Hb)]. }
    pose proof Hl as Hl'. rewrite EW, seqh_app in Hl'. apply legal_app in Hl'. destruct Hl' as [Hlp [Hr _]].
    simpl in Hr. set (st := final [] (seqh p)) in *.
    assert (Hlb : lb 0 st) by (apply final_lb; exact I).
    pose proof (point_pairs_ok recs W p (a :: q) (t_inv a) (t_res a) Hsame EW Hl Hrt Hp Hq) as HA.
    pose proof (point_complete_ok recs W p (a :: q) (t_inv a) (t_res a) Hsame EW Hl Hrt Hp Hq) as HB.
    fold st in HA, HB.
    destruct a as [o r i j]. unfold observer. simpl t_op in *. simpl t_ret in *. simpl t_inv in *. simpl t_res in *.
    destruct o; simpl in Hr; try (subst r; simpl); try reflexivity.
    - (* Load k *)
      destruct (get st k) as [v|] eqn:G; apply obs_ok_intro; try reflexivity.
      + apply HA. intros pr [<-|[]]. exact G.
      + intros _. apply HB. intros k' Hk. apply Nat.eqb_eq in Hk. subst k'. simpl. rewrite Nat.eqb_refl.
        symmetry. exact G.
      + intros _. apply HB. intros k' Hk. apply Nat.eqb_eq in Hk. subst k'. simpl. symmetry. exact G.
    - (* LoadOrStore k v *)
      destruct (get st k) as [x|] eqn:G; simpl; [|reflexivity]. apply obs_ok_intro; try reflexivity.
      + apply HA. intros pr [<-|[]]. exact G.
      + intros _. apply HB. intros k' Hk. apply Nat.eqb_eq in Hk. subst k'. simpl. rewrite Nat.eqb_refl.
        symmetry. exact G.
    - (* LoadOrStoreFn k v *)
      destruct (get st k) as [x|] eqn:G; simpl; [|reflexivity]. apply obs_ok_intro; try reflexivity.
      + apply HA. intros pr [<-|[]]. exact G.
      + intros _. apply HB. intros k' Hk. apply Nat.eqb_eq in Hk. subst k'. simpl. rewrite Nat.eqb_refl.
        symmetry. exact G.
    - (* Range *)
      apply obs_ok_intro.
      + apply lb_sorted. exact Hlb.
      + apply HA. intros [k v] Hin. apply (lb_in_get _ _ _ _ Hlb Hin).
      + intros _. apply HB. reflexivity.
    - (* Exists k *)
      destruct (get st k) as [x|] eqn:G; simpl; [reflexivity|]. apply obs_ok_intro; try reflexivity.
      intros _. apply HB. intros k' Hk. apply Nat.eqb_eq in Hk. subst k'. simpl. symmetry. exact G. }
  rewrite (lforallb_intro _ _ _ Hall). reflexivity.
Qed.
