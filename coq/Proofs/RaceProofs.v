(* Race freedom of the phase programs generated from a closure footprint (C20).
   Part 1: generic facts about happens-before, mutexes and positions in traces. *)
From Coq Require Import List Arith Bool Lia.
From IocVerif Require Import Model.Conc Proofs.ConcProofs.
Import ListNotations.

(* ---------- positions ------------------------------------------------------------------------- *)

Lemma nth_error_mid : forall A (X : list A) x Y, nth_error (X ++ x :: Y) (length X) = Some x.
Proof. intros A X x Y. induction X as [|y X IH]; [reflexivity|exact IH]. Qed.

Lemma nth_error_decomp : forall A (l : list A) i x, nth_error l i = Some x ->
  exists X Y, l = X ++ x :: Y /\ length X = i.
Proof.
  intros A l. induction l as [|y l IH]; intros i x H; [destruct i; discriminate|].
  destruct i as [|i].
  - inversion H; subst. exists [], l. split; reflexivity.
  - destruct (IH i x H) as [X [Y [-> Hl]]]. exists (y :: X), Y. split; [reflexivity|cbn; lia].
Qed.

Lemma two_decomp : forall A (l : list A) i j x y, i < j -> nth_error l i = Some x -> nth_error l j = Some y ->
  exists X Y Z, l = X ++ x :: Y ++ y :: Z /\ length X = i /\ length X + 1 + length Y = j.
Proof.
  intros A l i j x y Hij Hi Hj.
  destruct (nth_error_decomp _ _ _ _ Hi) as [X [R [-> HX]]].
  assert (Hj' : nth_error R (j - S i) = Some y).
  { rewrite nth_error_app2 in Hj by lia. rewrite HX in Hj.
    replace (j - i) with (S (j - S i)) in Hj by lia. exact Hj. }
  destruct (nth_error_decomp _ _ _ _ Hj') as [Y [Z [-> HY]]].
  exists X, Y, Z. repeat split; [assumption|lia].
Qed.

(* building happens-before from decompositions *)
Lemma hb_decomp : forall tr X e1 Y e2 Z,
  tr = X ++ e1 :: Y ++ e2 :: Z -> sync_edge e1 e2 = true ->
  hb tr (length X) (length X + 1 + length Y).
Proof.
  intros tr X e1 Y e2 Z -> He. apply (hb_edge _ _ _ e1 e2); [lia| | |assumption].
  - apply nth_error_mid.
  - replace (X ++ e1 :: Y ++ e2 :: Z) with ((X ++ e1 :: Y) ++ e2 :: Z) by (rewrite <- app_assoc; reflexivity).
    replace (length X + 1 + length Y) with (length (X ++ e1 :: Y)) by (rewrite app_length; cbn; lia).
    apply nth_error_mid.
Qed.

Lemma edge_po : forall t a b, sync_edge (t, a) (t, b) = true.
Proof. intros. unfold sync_edge. cbn. rewrite Nat.eqb_refl. reflexivity. Qed.
Lemma edge_go : forall s t b, sync_edge (s, AGo t) (t, b) = true.
Proof. intros. unfold sync_edge. cbn. rewrite Nat.eqb_refl. apply orb_true_r. Qed.
Lemma edge_dw : forall s t, sync_edge (s, ADone) (t, AWait) = true.
Proof. intros. unfold sync_edge. cbn. apply orb_true_r. Qed.
Lemma edge_ul : forall s t m, sync_edge (s, AUnlock m) (t, ALock m) = true.
Proof. intros. unfold sync_edge. cbn. rewrite Nat.eqb_refl. apply orb_true_r. Qed.

(* ---------- reach: states along the trace -------------------------------------------------------- *)

Lemma reach_at : forall prog c tr X e Y, reach prog c tr -> tr = X ++ e :: Y ->
  exists c1 c1', reach prog c1 X /\ step c1 (fst e) = Some (c1', snd e) /\ reach prog c1' (X ++ [e]).
Proof.
  intros prog c tr X e Y Hr Heq. destruct (reach_split _ _ _ Hr _ _ _ Heq) as [c1 [c1' [H1 H2]]].
  exists c1, c1'. repeat split; try assumption. destruct e as [t a]. eapply reach_step; eassumption.
Qed.

(* an event of thread t is an action of its program *)
Lemma event_in_prog : forall prog c tr t a, reach prog c tr -> In (t, a) tr -> In a (prog t).
Proof.
  intros prog c tr t a Hr Hin. rewrite <- (reach_prefix _ _ _ Hr t). apply in_or_app. left.
  unfold proj. apply in_map_iff. exists (t, a). split; [reflexivity|]. apply filter_In. split; [assumption|].
  cbn. apply Nat.eqb_refl.
Qed.

(* a thread that has finished takes no further step *)
Lemma finished_no_more : forall prog c tr X Y t a, reach prog c tr -> tr = X ++ Y ->
  (exists c1, reach prog c1 X /\ thr c1 t = []) -> ~ In (t, a) Y.
Proof.
  intros prog c tr X Y t a Hr -> [c1 [Hr1 Hnil]] Hin.
  pose proof (reach_prefix _ _ _ Hr t) as H1. pose proof (reach_prefix _ _ _ Hr1 t) as H2.
  rewrite Hnil, app_nil_r in H2. rewrite proj_app, H2 in H1.
  rewrite <- app_assoc in H1. rewrite <- (app_nil_r (prog t)) in H1 at 2. apply app_inv_head in H1.
  apply app_eq_nil in H1. destruct H1 as [H1 _].
  assert (Hp : In a (proj t Y)).
  { unfold proj. apply in_map_iff. exists (t, a). split; [reflexivity|]. apply filter_In. split; [assumption|].
    cbn. apply Nat.eqb_refl. }
  rewrite H1 in Hp. destruct Hp.
Qed.

Lemma proj_snoc_split : forall t tr l x,
  proj t tr = l ++ [x] -> exists X Y, tr = X ++ (t, x) :: Y /\ proj t Y = [] /\ proj t X = l.
Proof.
  intros t tr. induction tr as [|[u a] tr IH] using rev_ind; intros l x H.
  - destruct l; discriminate.
  - rewrite proj_app in H. destruct (Nat.eq_dec u t) as [->|Hne].
    + rewrite proj_single_same in H. apply app_inj_tail in H. destruct H as [H ->].
      exists tr, []. repeat split; [assumption].
    + rewrite proj_single_other, app_nil_r in H by congruence.
      destruct (IH _ _ H) as [X [Y [-> [HY HX]]]]. exists X, (Y ++ [(u, a)]). repeat split.
      * rewrite <- app_assoc. reflexivity.
      * rewrite proj_app, HY, proj_single_other by congruence. reflexivity.
      * assumption.
Qed.

(* ---------- mutexes ------------------------------------------------------------------------------- *)

Definition hstep (L : nat) (h : option nat) (e : event) : option nat :=
  match snd e with
  | ALock m => if Nat.eqb m L then Some (fst e) else h
  | AUnlock m => if Nat.eqb m L then None else h
  | _ => h
  end.
Definition holder_of (L : nat) (tr : list event) : option nat := fold_left (hstep L) tr None.

Lemma holder_snoc : forall L tr e, holder_of L (tr ++ [e]) = hstep L (holder_of L tr) e.
Proof. intros. unfold holder_of. rewrite fold_left_app. reflexivity. Qed.

Lemma reach_holder : forall prog c tr, reach prog c tr -> forall L, held c L = holder_of L tr.
Proof.
  intros prog c tr H. induction H as [|c tr t c' a Hr IH Hs]; intros L; [reflexivity|].
  apply step_inv in Hs. destruct Hs as [_ [rest [_ [_ ->]]]]. rewrite holder_snoc. unfold hstep. cbn [fst snd].
  destruct a as [u|k| | |m|m|v|v|v| |o]; cbn [apply held]; try apply IH.
  - unfold upd. rewrite (Nat.eqb_sym L m). destruct (Nat.eqb m L); [reflexivity|apply IH].
  - unfold upd. rewrite (Nat.eqb_sym L m). destruct (Nat.eqb m L); [reflexivity|apply IH].
Qed.

(* Lock fires only on a free mutex, Unlock only by the owner *)
Lemma lock_event_valid : forall prog c tr X s L Y, reach prog c tr -> tr = X ++ (s, ALock L) :: Y ->
  holder_of L X = None.
Proof.
  intros prog c tr X s L Y Hr Heq. destruct (reach_at _ _ _ _ _ _ Hr Heq) as [c1 [c1' [H1 [Hs _]]]].
  cbn [fst snd] in Hs. apply step_inv in Hs. destruct Hs as [_ [rest [_ [He _]]]]. cbn [enabled] in He.
  rewrite <- (reach_holder _ _ _ H1 L). destruct (held c1 L); [discriminate|reflexivity].
Qed.
Lemma unlock_event_valid : forall prog c tr X s L Y, reach prog c tr -> tr = X ++ (s, AUnlock L) :: Y ->
  holder_of L X = Some s.
Proof.
  intros prog c tr X s L Y Hr Heq. destruct (reach_at _ _ _ _ _ _ Hr Heq) as [c1 [c1' [H1 [Hs _]]]].
  cbn [fst snd] in Hs. apply step_inv in Hs. destruct Hs as [_ [rest [_ [He _]]]]. cbn [enabled] in He.
  rewrite <- (reach_holder _ _ _ H1 L). destruct (held c1 L) as [o|]; [|discriminate].
  apply Nat.eqb_eq in He. subst. reflexivity.
Qed.

Definition fold_holder (L : nat) (h : option nat) (B : list event) : option nat := fold_left (hstep L) B h.

Lemma hstep_cases : forall L h s a,
  (a = ALock L /\ hstep L h (s, a) = Some s) \/ (a = AUnlock L /\ hstep L h (s, a) = None) \/ hstep L h (s, a) = h.
Proof.
  intros L h s a. unfold hstep. cbn [fst snd]. destruct a as [u|k| | |m|m|v|v|v| |o]; auto.
  - destruct (Nat.eqb m L) eqn:E; [|auto]. apply Nat.eqb_eq in E. subst. auto.
  - destruct (Nat.eqb m L) eqn:E; [|auto]. apply Nat.eqb_eq in E. subst. auto.
Qed.

(* if the holder ends as Some t2 and did not start so, t2 locked in between *)
Lemma lock_found : forall L t2 B h, fold_holder L h B = Some t2 -> h <> Some t2 ->
  exists B1 B2, B = B1 ++ (t2, ALock L) :: B2.
Proof.
  intros L t2 B. induction B as [|[s a] B IH] using rev_ind; intros h H Hne.
  - cbn in H. congruence.
  - unfold fold_holder in *. rewrite fold_left_app in H. cbn [fold_left] in H.
    destruct (hstep_cases L (fold_left (hstep L) B h) s a) as [[-> Hc]|[[-> Hc]|Hc]]; rewrite Hc in H.
    + inversion H; subst. exists B, []. reflexivity.
    + discriminate.
    + destruct (IH h H Hne) as [B1 [B2 ->]]. exists B1, (B2 ++ [(s, a)]). rewrite <- app_assoc. reflexivity.
Qed.

(* hand-over: the mutex goes from t1 to t2 only through an Unlock by t1 followed by a Lock by t2 *)
Lemma handover : forall prog c tr L t1 t2, reach prog c tr -> t1 <> t2 ->
  forall B X Z, tr = X ++ B ++ Z ->
  holder_of L X = Some t1 -> holder_of L (X ++ B) = Some t2 ->
  exists B1 B2 B3, B = B1 ++ (t1, AUnlock L) :: B2 ++ (t2, ALock L) :: B3.
Proof.
  intros prog c tr L t1 t2 Hr Hne B. induction B as [|[s a] B IH]; intros X Z Heq H1 H2.
  - rewrite app_nil_r in H2. congruence.
  - assert (Hcase : (a = AUnlock L /\ s = t1) \/ holder_of L (X ++ [(s, a)]) = Some t1).
    { rewrite holder_snoc, H1. unfold hstep. cbn [fst snd]. destruct a as [u|k| | |m|m|v|v|v| |o]; auto.
      - destruct (Nat.eqb m L) eqn:E; [|auto]. apply Nat.eqb_eq in E. subst m.
        assert (Hx : holder_of L X = None) by (eapply lock_event_valid; [exact Hr|]; rewrite Heq; reflexivity).
        congruence.
      - destruct (Nat.eqb m L) eqn:E; [|auto]. apply Nat.eqb_eq in E. subst m. left. split; [reflexivity|].
        assert (Hx : holder_of L X = Some s) by (eapply unlock_event_valid; [exact Hr|]; rewrite Heq; reflexivity).
        congruence. }
    destruct Hcase as [[-> ->]|Hh].
    + assert (Hf : fold_holder L None B = Some t2).
      { unfold holder_of in H2. rewrite fold_left_app in H2. cbn [fold_left] in H2.
        fold (holder_of L X) in H2. rewrite H1 in H2. unfold hstep at 2 in H2. cbn [fst snd] in H2.
        rewrite Nat.eqb_refl in H2. exact H2. }
      destruct (lock_found _ _ _ _ Hf) as [B2 [B3 ->]]; [discriminate|].
      exists [], B2, B3. reflexivity.
    + destruct (IH (X ++ [(s, a)]) Z) as [B1 [B2 [B3 ->]]].
      * rewrite Heq, <- app_assoc. reflexivity.
      * exact Hh.
      * rewrite <- app_assoc. exact H2.
      * exists ((s, a) :: B1), B2, B3. reflexivity.
Qed.

(* the locks a thread holds, read off the actions it has executed *)
Fixpoint remove_nat (x : nat) (l : list nat) : list nat :=
  match l with [] => [] | y :: r => if Nat.eqb x y then remove_nat x r else y :: remove_nat x r end.

Definition lstep (hl : list nat) (a : act) : list nat :=
  match a with ALock m => m :: hl | AUnlock m => remove_nat m hl | _ => hl end.
Definition locks_after (l : list act) : list nat := fold_left lstep l [].

Lemma in_remove_nat : forall x y l, In y (remove_nat x l) -> In y l /\ y <> x.
Proof.
  intros x y l. induction l as [|z l IH]; intros H; [destruct H|].
  cbn [remove_nat] in H. destruct (Nat.eqb x z) eqn:E.
  - destruct (IH H) as [H1 H2]. split; [right; assumption|assumption].
  - destruct H as [->|H].
    + split; [left; reflexivity|]. apply Nat.eqb_neq in E. congruence.
    + destruct (IH H) as [H1 H2]. split; [right; assumption|assumption].
Qed.

Lemma reach_locks_held : forall prog c tr, reach prog c tr ->
  forall t L, In L (locks_after (proj t tr)) -> held c L = Some t.
Proof.
  intros prog c tr H. induction H as [|c tr s c' a Hr IH Hs]; intros t L Hin; [destruct Hin|].
  apply step_inv in Hs. destruct Hs as [_ [rest [_ [He ->]]]].
  rewrite proj_app in Hin. destruct (Nat.eq_dec t s) as [->|Hne].
  - rewrite proj_single_same in Hin. unfold locks_after in Hin. rewrite fold_left_app in Hin. cbn [fold_left] in Hin.
    fold (locks_after (proj s tr)) in Hin. unfold lstep in Hin.
    destruct a as [u|k| | |m|m|v|v|v| |o]; cbn [apply held]; try (apply IH; exact Hin).
    + destruct Hin as [->|Hin]; [apply upd_same|].
      destruct (Nat.eq_dec L m) as [->|Hm]; [apply upd_same|]. rewrite upd_other by assumption. apply IH. exact Hin.
    + apply in_remove_nat in Hin. destruct Hin as [Hin Hm]. rewrite upd_other by assumption. apply IH. exact Hin.
  - rewrite proj_single_other, app_nil_r in Hin by assumption. specialize (IH t L Hin).
    destruct a as [u|k| | |m|m|v|v|v| |o]; cbn [apply held]; try exact IH.
    + destruct (Nat.eq_dec L m) as [->|Hm]; [|rewrite upd_other by assumption; exact IH].
      cbn [enabled] in He. rewrite IH in He. discriminate.
    + destruct (Nat.eq_dec L m) as [->|Hm]; [|rewrite upd_other by assumption; exact IH].
      cbn [enabled] in He. rewrite IH in He. apply Nat.eqb_eq in He. congruence.
Qed.

(* ---------- Part 2: fork / join --------------------------------------------------------------------- *)

Definition is_go (a : act) : bool := match a with AGo _ => true | _ => false end.
Definition is_go_to (u : nat) (a : act) : bool := match a with AGo v => Nat.eqb v u | _ => false end.

Lemma sumf_le : forall f g N, (forall u, u < N -> g u <= f u) -> sumf g N <= sumf f N.
Proof.
  intros f g N. induction N as [|k IH]; intros H; [cbn; lia|].
  cbn [sumf]. assert (g k <= f k) by (apply H; lia). assert (sumf g k <= sumf f k) by (apply IH; intros; apply H; lia). lia.
Qed.

Lemma sumf_le_eq : forall f g N, (forall u, u < N -> g u <= f u) -> sumf f N = sumf g N ->
  forall u, u < N -> f u = g u.
Proof.
  intros f g N. induction N as [|k IH]; intros Hle Heq u Hu; [lia|].
  cbn [sumf] in Heq. assert (g k <= f k) by (apply Hle; lia).
  assert (sumf g k <= sumf f k) by (apply sumf_le; intros; apply Hle; lia).
  destruct (Nat.eq_dec u k) as [->|Hne]; [lia|]. apply IH; try lia. intros; apply Hle; lia.
Qed.

Lemma sumf_eqb_one : forall N v, v < N -> sumf (fun u => if Nat.eqb v u then 1 else 0) N = 1.
Proof.
  intros N v Hv. apply (sumf_single _ _ v); [assumption|rewrite Nat.eqb_refl; reflexivity|].
  intros u _ Hne. destruct (Nat.eqb v u) eqn:E; [apply Nat.eqb_eq in E; congruence|reflexivity].
Qed.

Lemma sumf_plus : forall f g N, sumf (fun u => f u + g u) N = sumf f N + sumf g N.
Proof. intros f g N. induction N as [|k IH]; [reflexivity|]. cbn [sumf]. rewrite IH. lia. Qed.

(* the pending go statements, counted per target, add up to the number of pending go statements *)
Lemma sum_go_targets : forall N l, (forall v, In (AGo v) l -> v < N) ->
  sumf (fun u => countf (is_go_to u) l) N = countf is_go l.
Proof.
  intros N l. induction l as [|a l IH]; intros H.
  - cbn. apply sumf_all_zero. reflexivity.
  - assert (H' : forall v, In (AGo v) l -> v < N) by (intros; apply H; right; assumption).
    rewrite (sumf_ext _ (fun u => ind (is_go_to u) a + countf (is_go_to u) l)) by reflexivity.
    rewrite sumf_plus, (IH H'), countf_cons. f_equal.
    destruct a; try (apply sumf_all_zero; reflexivity).
    unfold ind, is_go_to, is_go. apply sumf_eqb_one. apply H. left. reflexivity.
Qed.

Section ForkJoin.
Variable prog : nat -> list act.
Variable N : nat.
Hypothesis H_out : forall u, S N <= u -> prog u = [].
Hypothesis H_child : forall u, 1 <= u <= N ->
  exists body, prog u = body ++ [ADone] /\ countf is_done body = 0 /\ adds body = 0 /\ countf is_go body = 0.
Hypothesis H_main_nodone : countf is_done (prog 0) = 0.
Hypothesis H_go_once : forall u, 1 <= u <= N -> countf (is_go_to u) (prog 0) = 1.
Hypothesis H_go_range : forall v, In (AGo v) (prog 0) -> 1 <= v <= N.
Hypothesis H_go_total : countf is_go (prog 0) = N.
Hypothesis H_bal : forall P S, prog 0 = P ++ AWait :: S -> adds P = countf is_go P.

Lemma child_w : forall (w : act -> nat) u, 1 <= u <= N -> w ADone = 0 ->
  (forall body, prog u = body ++ [ADone] -> wsum w body = 0) -> wsum w (prog u) = 0.
Proof.
  intros w u Hu Hd Hb. destruct (H_child u Hu) as [body [Heq _]]. rewrite Heq, wsum_app, (Hb body Heq). cbn. lia.
Qed.

Lemma child_adds : forall u, 1 <= u <= N -> adds (prog u) = 0.
Proof.
  intros u Hu. destruct (H_child u Hu) as [body [Heq [_ [Ha _]]]]. rewrite Heq. unfold adds in *.
  rewrite wsum_app, Ha. reflexivity.
Qed.
Lemma child_gos : forall u, 1 <= u <= N -> countf is_go (prog u) = 0.
Proof.
  intros u Hu. destruct (H_child u Hu) as [body [Heq [_ [_ Hg]]]]. rewrite Heq, countf_app, Hg. reflexivity.
Qed.
Lemma child_dones : forall u, 1 <= u <= N -> countf is_done (prog u) = 1.
Proof.
  intros u Hu. destruct (H_child u Hu) as [body [Heq [Hd _]]]. rewrite Heq, countf_app, Hd. reflexivity.
Qed.
Lemma child_go_to : forall u v, 1 <= u <= N -> countf (is_go_to v) (prog u) = 0.
Proof.
  intros u v Hu. pose proof (child_gos u Hu) as Hg. revert Hg. generalize (prog u). intros l.
  induction l as [|a l IH]; intros Hg; [reflexivity|].
  rewrite countf_cons in *. destruct a; cbn [ind is_go is_go_to] in *; try (apply IH; lia). lia.
Qed.

(* sums over all threads reduce to main's part when the children contribute nothing / one each *)
Lemma sum_main_only : forall (g : nat -> nat), (forall u, 1 <= u <= N -> g u = 0) -> sumf g (S N) = g 0.
Proof. intros g H. rewrite (sumf_const g 0 N H). lia. Qed.

Lemma thr_w_le : forall (w : act -> nat) c tr u, reach prog c tr -> wsum w (thr c u) <= wsum w (prog u).
Proof. intros w c tr u Hr. rewrite <- (reach_prefix _ _ _ Hr u), wsum_app. lia. Qed.

Lemma exec_plus_rest : forall (w : act -> nat) c tr u, reach prog c tr ->
  wsum w (proj u tr) + wsum w (thr c u) = wsum w (prog u).
Proof. intros w c tr u Hr. rewrite <- (reach_prefix _ _ _ Hr u), wsum_app. reflexivity. Qed.

(* only main executes Add and go: the trace's totals are those of main's executed prefix *)
Lemma trace_total_main : forall (w : act -> nat) c tr, reach prog c tr ->
  (forall u, 1 <= u <= N -> wsum w (prog u) = 0) -> wsum w (acts_of tr) = wsum w (proj 0 tr).
Proof.
  intros w c tr Hr Hz.
  pose proof (reach_conservation prog (S N) H_out w c tr Hr) as Hc.
  rewrite (sum_main_only (fun u => wsum w (prog u)) Hz) in Hc.
  rewrite (sum_main_only (fun u => wsum w (thr c u))) in Hc.
  - pose proof (exec_plus_rest w c tr 0 Hr). lia.
  - intros u Hu. pose proof (thr_w_le w c tr u Hr). rewrite (Hz u Hu) in H. lia.
Qed.

Lemma pending_go_unstarted : forall c tr u, reach prog c tr -> 1 <= u <= N ->
  started c u = true -> countf (is_go_to u) (thr c 0) = 0.
Proof.
  intros c tr u Hr Hu Hst.
  destruct (reach_started_go _ _ _ Hr u Hst) as [->|[s Hin]]; [lia|].
  assert (Hge : 1 <= countf (is_go_to u) (acts_of tr)).
  { apply in_split in Hin. destruct Hin as [l1 [l2 ->]]. unfold acts_of. rewrite map_app, countf_app. cbn [map snd].
    rewrite countf_cons. unfold ind, is_go_to. rewrite Nat.eqb_refl. lia. }
  pose proof (trace_total_main (ind (is_go_to u)) c tr Hr) as Ht. fold (countf (is_go_to u)) in Ht.
  rewrite Ht in Hge by (intros v Hv; apply child_go_to; assumption).
  pose proof (exec_plus_rest (ind (is_go_to u)) c tr 0 Hr) as He. fold (countf (is_go_to u)) in He.
  rewrite (H_go_once u Hu) in He. lia.
Qed.

(* when Wait can fire, every goroutine that has been started has finished *)
Lemma join_at_wait : forall c tr rest, reach prog c tr -> thr c 0 = AWait :: rest -> wg c = 0 ->
  forall u, 1 <= u <= N -> started c u = true -> thr c u = [].
Proof.
  intros c tr rest Hr Ht Hwg u Hu Hst.
  pose proof (reach_prefix _ _ _ Hr 0) as Hp. rewrite Ht in Hp. symmetry in Hp.
  pose proof (H_bal _ _ Hp) as Hbal.
  pose proof (reach_wg_balance _ _ _ Hr) as Hb. rewrite Hwg in Hb. cbn [plus] in Hb.
  assert (Ha : adds (acts_of tr) = adds (proj 0 tr)) by (apply (trace_total_main add_w c tr Hr); apply child_adds).
  assert (Hg : countf is_go (acts_of tr) = countf is_go (proj 0 tr))
    by (apply (trace_total_main (ind is_go) c tr Hr); apply child_gos).
  (* dones executed = gos executed *)
  assert (Hdg : countf is_done (acts_of tr) = countf is_go (proj 0 tr)) by lia.
  (* remaining dones = remaining gos *)
  pose proof (reach_conservation prog (S N) H_out (ind is_done) c tr Hr) as Hd. fold (countf is_done) in Hd.
  rewrite (sumf_const (fun v => countf is_done (prog v)) 1 N) in Hd by (intros; apply child_dones; assumption).
  rewrite H_main_nodone in Hd.
  pose proof (exec_plus_rest (ind is_go) c tr 0 Hr) as Hgo. fold (countf is_go) in Hgo. rewrite H_go_total in Hgo.
  assert (Hsum : sumf (fun v => countf is_done (thr c v)) (S N) = countf is_go (thr c 0)) by lia.
  rewrite <- (sum_go_targets (S N) (thr c 0)) in Hsum.
  2:{ intros v Hv. assert (Hin : In (AGo v) (prog 0)) by (rewrite Hp, <- Ht; apply in_or_app; right; assumption).
      apply H_go_range in Hin. lia. }
  (* pointwise: pending go of v => v still holds its Done *)
  assert (Hle : forall v, v < S N -> countf (is_go_to v) (thr c 0) <= countf is_done (thr c v)).
  { intros v Hv. destruct (Nat.eq_dec v 0) as [->|Hv0].
    - assert (Hz : countf (is_go_to 0) (thr c 0) = 0); [|lia].
      destruct (countf (is_go_to 0) (thr c 0)) eqn:E; [reflexivity|exfalso].
      assert (Hin : exists a, In a (thr c 0) /\ is_go_to 0 a = true).
      { clear -E. induction (thr c 0) as [|a l IH]; [discriminate|]. rewrite countf_cons in E. unfold ind in E.
        destruct (is_go_to 0 a) eqn:Ea; [exists a; split; [left; reflexivity|assumption]|].
        destruct IH as [b [Hb1 Hb2]]; [assumption|]. exists b. split; [right; assumption|assumption]. }
      destruct Hin as [a [Hin Ha0]]. destruct a; try discriminate. cbn in Ha0. apply Nat.eqb_eq in Ha0. subst.
      assert (Hin0 : In (AGo 0) (prog 0)) by (rewrite Hp, <- Ht; apply in_or_app; right; assumption).
      apply H_go_range in Hin0. lia.
    - assert (Hvi : 1 <= v <= N) by lia. destruct (started c v) eqn:Esv.
      + rewrite (pending_go_unstarted c tr v Hr Hvi Esv). lia.
      + destruct (reach_unstarted _ _ _ Hr v Esv) as [_ Hth]. rewrite Hth, (child_dones v Hvi).
        pose proof (thr_w_le (ind (is_go_to v)) c tr 0 Hr) as Hle. fold (countf (is_go_to v)) in Hle.
        rewrite (H_go_once v Hvi) in Hle. exact Hle. }
  pose proof (sumf_le_eq _ _ (S N) Hle Hsum u) as Heq. cbv beta in Heq.
  rewrite (pending_go_unstarted c tr u Hr Hu Hst) in Heq.
  destruct (H_child u Hu) as [body [Hbody _]].
  pose proof (reach_prefix _ _ _ Hr u) as Hpu. rewrite Hbody in Hpu.
  eapply suffix_done_nil; [exact Hpu|apply Heq; lia].
Qed.

End ForkJoin.

(* ---------- Part 3: race freedom from three properties of the program text ---------------------------- *)

Definition gstep (st : bool) (a : act) : bool := match a with AGo _ => true | AWait => false | _ => st end.
(* has main executed a go statement since its last Wait? *)
Definition after_go (l : list act) : bool := fold_left gstep l false.

Lemma hb_chain2 : forall tr X e1 A m1 B e2 Z,
  tr = X ++ e1 :: A ++ m1 :: B ++ e2 :: Z ->
  sync_edge e1 m1 = true -> sync_edge m1 e2 = true ->
  hb tr (length X) (length X + 1 + length (A ++ m1 :: B)).
Proof.
  intros tr X e1 A m1 B e2 Z Heq H1 H2. eapply hb_trans.
  - eapply (hb_decomp tr X e1 A m1); [exact Heq|assumption].
  - replace (length X + 1 + length (A ++ m1 :: B)) with (length (X ++ e1 :: A) + 1 + length B)
      by (rewrite !app_length; cbn [length]; rewrite ?app_length; cbn [length]; lia).
    replace (length X + 1 + length A) with (length (X ++ e1 :: A)) by (rewrite app_length; cbn; lia).
    eapply (hb_decomp tr (X ++ e1 :: A) m1 B e2 Z); [|assumption].
    rewrite Heq, <- app_assoc. reflexivity.
Qed.

Lemma hb_chain3 : forall tr X e1 A m1 B m2 C e2 Z,
  tr = X ++ e1 :: A ++ m1 :: B ++ m2 :: C ++ e2 :: Z ->
  sync_edge e1 m1 = true -> sync_edge m1 m2 = true -> sync_edge m2 e2 = true ->
  hb tr (length X) (length X + 1 + length (A ++ m1 :: B ++ m2 :: C)).
Proof.
  intros tr X e1 A m1 B m2 C e2 Z Heq H1 H2 H3. eapply hb_trans.
  - eapply (hb_decomp tr X e1 A m1); [exact Heq|assumption].
  - replace (length X + 1 + length (A ++ m1 :: B ++ m2 :: C))
      with (length (X ++ e1 :: A) + 1 + length (B ++ m2 :: C))
      by (rewrite !app_length; cbn [length]; rewrite !app_length; cbn [length]; lia).
    replace (length X + 1 + length A) with (length (X ++ e1 :: A)) by (rewrite app_length; cbn; lia).
    eapply (hb_chain2 tr (X ++ e1 :: A) m1 B m2 C e2 Z); [|assumption|assumption].
    rewrite Heq, <- app_assoc. reflexivity.
Qed.

Lemma after_go_stays : forall l st, st = true -> countf is_wait l = 0 -> fold_left gstep l st = true.
Proof.
  induction l as [|a l IH]; intros st Hst Hw; [assumption|].
  rewrite countf_cons in Hw. cbn [fold_left]. apply IH; [|lia].
  destruct a; cbn [gstep]; try assumption; try reflexivity. cbn in Hw. lia.
Qed.

Lemma go_started : forall prog c tr s u, reach prog c tr -> In (s, AGo u) tr -> started c u = true.
Proof.
  intros prog c tr s u H. induction H as [|c tr t c' a Hr IH Hs]; intros Hin; [destruct Hin|].
  apply step_inv in Hs. destruct Hs as [_ [rest [_ [_ ->]]]].
  apply in_app_or in Hin. destruct Hin as [Hin|[Heq|[]]].
  - apply started_apply_mono, IH, Hin.
  - inversion Heq; subst. cbn [apply started]. apply upd_same.
Qed.

Lemma countf_in_pos : forall f l a, In a l -> f a = true -> 1 <= countf f l.
Proof.
  intros f l a Hin Hf. induction l as [|b l IH]; [destruct Hin|].
  rewrite countf_cons. destruct Hin as [->|Hin]; [unfold ind; rewrite Hf; lia|]. specialize (IH Hin). lia.
Qed.

Definition is_main_wait (e : event) : bool :=
  Nat.eqb (fst e) 0 && match snd e with AWait => true | _ => false end.

Lemma main_wait_split : forall l, existsb is_main_wait l = true -> exists l1 l2, l = l1 ++ (0, AWait) :: l2.
Proof.
  intros l H. apply existsb_exists in H. destruct H as [[t a] [Hin He]]. unfold is_main_wait in He. cbn [fst snd] in He.
  apply andb_true_iff in He. destruct He as [Ht Ha]. apply Nat.eqb_eq in Ht. subst t.
  destruct a; try discriminate. apply in_split in Hin. exact Hin.
Qed.

Lemma no_main_wait_proj : forall l, existsb is_main_wait l = false -> countf is_wait (proj 0 l) = 0.
Proof.
  induction l as [|[t a] l IH]; intros H; [reflexivity|].
  cbn [existsb] in H. apply orb_false_iff in H. destruct H as [H1 H2].
  unfold proj. cbn [filter fst]. destruct (Nat.eqb t 0) eqn:E.
  - cbn [map snd]. rewrite countf_cons. fold (proj 0 l). rewrite (IH H2).
    unfold is_main_wait in H1. cbn [fst snd] in H1. rewrite E in H1. cbn [andb] in H1.
    unfold ind, is_wait. destruct a; try reflexivity. discriminate.
  - fold (proj 0 l). apply IH. assumption.
Qed.

Section DRF.
Variable prog : nat -> list act.
Variable N : nat.
Hypothesis H_out : forall u, S N <= u -> prog u = [].
Hypothesis H_child : forall u, 1 <= u <= N ->
  exists body, prog u = body ++ [ADone] /\ countf is_done body = 0 /\ adds body = 0 /\ countf is_go body = 0.
Hypothesis H_main_nodone : countf is_done (prog 0) = 0.
Hypothesis H_go_once : forall u, 1 <= u <= N -> countf (is_go_to u) (prog 0) = 1.
Hypothesis H_go_range : forall v, In (AGo v) (prog 0) -> 1 <= v <= N.
Hypothesis H_go_total : countf is_go (prog 0) = N.
Hypothesis H_bal : forall P S, prog 0 = P ++ AWait :: S -> adds P = countf is_go P.
(* main's accesses between a go statement and the next Wait conflict with no goroutine access *)
Hypothesis H_mid : forall P a S, prog 0 = P ++ a :: S -> after_go P = true ->
  forall u a', 1 <= u <= N -> In a' (prog u) -> conflict a a' = false /\ conflict a' a = false.
(* conflicting accesses of two goroutines sit under a common mutex *)
Hypothesis H_lock : forall u1 u2 P1 a1 S1 P2 a2 S2, 1 <= u1 <= N -> 1 <= u2 <= N ->
  prog u1 = P1 ++ a1 :: S1 -> prog u2 = P2 ++ a2 :: S2 -> conflict a1 a2 = true ->
  exists L, In L (locks_after P1) /\ In L (locks_after P2).

Lemma tid_bound : forall c tr t a, reach prog c tr -> In (t, a) tr -> t <= N.
Proof.
  intros c tr t a Hr Hin. destruct (le_lt_dec t N) as [H|H]; [assumption|exfalso].
  pose proof (event_in_prog _ _ _ _ _ Hr Hin) as Hp. rewrite H_out in Hp by lia. destruct Hp.
Qed.

Lemma go_by_main : forall c tr s u, reach prog c tr -> In (s, AGo u) tr -> s = 0.
Proof.
  intros c tr s u Hr Hin. destruct (Nat.eq_dec s 0) as [|Hne]; [assumption|exfalso].
  pose proof (tid_bound _ _ _ _ Hr Hin) as Hb.
  pose proof (event_in_prog _ _ _ _ _ Hr Hin) as Hp.
  assert (Hs : 1 <= s <= N) by lia.
  pose proof (child_gos prog N H_child s Hs) as Hg.
  pose proof (countf_in_pos is_go _ _ Hp eq_refl). lia.
Qed.

(* state before an event *)
Lemma before_event : forall c tr X t a Y, reach prog c tr -> tr = X ++ (t, a) :: Y ->
  exists c1 rest, reach prog c1 X /\ started c1 t = true /\ thr c1 t = a :: rest /\ enabled c1 t a = true
    /\ prog t = proj t X ++ a :: rest.
Proof.
  intros c tr X t a Y Hr Heq. destruct (reach_at _ _ _ _ _ _ Hr Heq) as [c1 [c1' [H1 [Hs _]]]].
  cbn [fst snd] in Hs. apply step_inv in Hs. destruct Hs as [Hst [rest [Ht [He _]]]].
  exists c1, rest. repeat split; try assumption. rewrite <- Ht. symmetry. apply (reach_prefix _ _ _ H1).
Qed.

(* a goroutine started before a Wait of main has finished when that Wait fires *)
Lemma joined : forall c tr W Y u a, reach prog c tr -> tr = W ++ (0, AWait) :: Y -> 1 <= u <= N ->
  (exists s, In (s, AGo u) W) -> ~ In (u, a) ((0, AWait) :: Y).
Proof.
  intros c tr W Y u a Hr Heq Hu [s Hgo].
  destruct (before_event _ _ _ _ _ _ Hr Heq) as [cw [rest [Hrw [_ [Htw [Hew _]]]]]].
  cbn [enabled] in Hew. apply Nat.eqb_eq in Hew.
  pose proof (go_started _ _ _ _ _ Hrw Hgo) as Hst.
  pose proof (join_at_wait prog N H_out H_child H_main_nodone H_go_once H_go_range H_go_total H_bal
                cw W rest Hrw Htw Hew u Hu Hst) as Hnil.
  eapply finished_no_more; [exact Hr|exact Heq|]. exists cw. split; assumption.
Qed.

Lemma is_access_of_conflict : forall a b, conflict a b = true ->
  (exists v, a = ARd v \/ a = AWr v) /\ (exists v, b = ARd v \/ b = AWr v).
Proof.
  intros a b H. destruct a; try discriminate; destruct b; try discriminate; split; eexists; eauto.
Qed.

Theorem drf : forall c tr, reach prog c tr -> ~ race tr.
Proof.
  intros c tr Hr [i [j [[t1 a1] [[t2 a2] [Hij [Hi [Hj [Hne [Hconf Hnhb]]]]]]]]].
  cbn [fst snd] in Hne, Hconf. apply Hnhb. clear Hnhb.
  destruct (two_decomp _ _ _ _ _ _ Hij Hi Hj) as [X [Y [Z [Heq [HX HY]]]]]. subst i j.
  destruct (is_access_of_conflict _ _ Hconf) as [Hacc1 Hacc2].
  assert (Hin1 : In (t1, a1) tr) by (rewrite Heq; apply in_or_app; right; left; reflexivity).
  assert (Hin2 : In (t2, a2) tr).
  { rewrite Heq. apply in_or_app. right. right. apply in_or_app. right. left. reflexivity. }
  pose proof (tid_bound _ _ _ _ Hr Hin1) as Hb1. pose proof (tid_bound _ _ _ _ Hr Hin2) as Hb2.
  assert (Heq2 : tr = (X ++ (t1, a1) :: Y) ++ (t2, a2) :: Z) by (rewrite Heq, <- app_assoc; reflexivity).
  destruct (before_event _ _ _ _ _ _ Hr Heq) as [c1 [rest1 [Hr1 [Hst1 [Hth1 [_ Hp1]]]]]].
  destruct (before_event _ _ _ _ _ _ Hr Heq2) as [c2 [rest2 [Hr2 [Hst2 [Hth2 [_ Hp2]]]]]].
  destruct (Nat.eq_dec t1 0) as [->|Ht1]; [|destruct (Nat.eq_dec t2 0) as [->|Ht2]].
  - (* main first, goroutine second *)
    assert (Hu : 1 <= t2 <= N) by lia.
    destruct (reach_started_go _ _ _ Hr2 t2 Hst2) as [->|[s Hgo]]; [lia|].
    assert (s = 0) by (eapply (go_by_main c2); [exact Hr2|exact Hgo]). subst s.
    apply in_app_or in Hgo. destruct Hgo as [Hgo|[Hgo|Hgo]].
    + (* the go statement precedes main's access *)
      apply in_split in Hgo. destruct Hgo as [X1 [X2 HXeq]].
      destruct (existsb is_main_wait X2) eqn:Ew.
      * exfalso. destruct (main_wait_split _ Ew) as [X2a [X2b ->]].
        eapply (joined c tr (X1 ++ (0, AGo t2) :: X2a) (X2b ++ (0, a1) :: Y ++ (t2, a2) :: Z) t2 a2); try eassumption.
        -- rewrite Heq, HXeq, <- ?app_assoc. cbn [app]. rewrite <- ?app_assoc. cbn [app]. reflexivity.
        -- exists 0. apply in_or_app. right. left. reflexivity.
        -- right. apply in_or_app. right. right. apply in_or_app. right. left. reflexivity.
      * exfalso. assert (Hag : after_go (proj 0 X) = true).
        { rewrite HXeq, proj_app. unfold after_go. rewrite fold_left_app.
          replace (proj 0 ((0, AGo t2) :: X2)) with (AGo t2 :: proj 0 X2) by (unfold proj; cbn; reflexivity).
          cbn [fold_left gstep]. apply after_go_stays; [reflexivity|apply no_main_wait_proj; assumption]. }
        assert (Ha2 : In a2 (prog t2)) by exact (event_in_prog _ _ _ _ _ Hr Hin2).
        destruct (H_mid _ _ _ Hp1 Hag t2 a2 Hu Ha2) as [Hc _]. congruence.
    + inversion Hgo; subst. destruct Hacc1 as [v [?|?]]; discriminate.
    + apply in_split in Hgo. destruct Hgo as [Y1 [Y2 HYeq]]. rewrite HYeq.
      eapply (hb_chain2 tr X (0, a1) Y1 (0, AGo t2) Y2 (t2, a2) Z).
      * rewrite Heq, HYeq, <- app_assoc. reflexivity.
      * apply edge_po.
      * apply edge_go.
  - (* goroutine first, main second *)
    assert (Hu : 1 <= t1 <= N) by lia.
    destruct (reach_started_go _ _ _ Hr1 t1 Hst1) as [->|[s Hgo]]; [lia|].
    assert (s = 0) by (eapply (go_by_main c1); [exact Hr1|exact Hgo]). subst s.
    apply in_split in Hgo. destruct Hgo as [X1 [X2 HXeq]].
    destruct (existsb is_main_wait X2) eqn:Ew.
    + exfalso. destruct (main_wait_split _ Ew) as [X2a [X2b ->]].
      eapply (joined c tr (X1 ++ (0, AGo t1) :: X2a) (X2b ++ (t1, a1) :: Y ++ (0, a2) :: Z) t1 a1); try eassumption.
      * rewrite Heq, HXeq, <- ?app_assoc. cbn [app]. rewrite <- ?app_assoc. cbn [app]. reflexivity.
      * exists 0. apply in_or_app. right. left. reflexivity.
      * right. apply in_or_app. right. left. reflexivity.
    + destruct (existsb is_main_wait Y) eqn:Ewy.
      * destruct (main_wait_split _ Ewy) as [Y1 [Y2 HYeq]].
        (* at that Wait the goroutine has finished: its Done lies between its access and the Wait *)
        assert (HeqW : tr = (X ++ (t1, a1) :: Y1) ++ (0, AWait) :: Y2 ++ (0, a2) :: Z).
        { rewrite Heq, HYeq, <- ?app_assoc. cbn [app]. rewrite <- ?app_assoc. cbn [app]. reflexivity. }
        destruct (before_event _ _ _ _ _ _ Hr HeqW) as [cw [restw [Hrw [_ [Htw [Hew _]]]]]].
        cbn [enabled] in Hew. apply Nat.eqb_eq in Hew.
        assert (Hstw : started cw t1 = true).
        { eapply go_started; [exact Hrw|]. rewrite HXeq. apply in_or_app. left. apply in_or_app. right. left. reflexivity. }
        pose proof (join_at_wait prog N H_out H_child H_main_nodone H_go_once H_go_range H_go_total H_bal
                      cw _ restw Hrw Htw Hew t1 Hu Hstw) as Hnil.
        pose proof (reach_prefix _ _ _ Hrw t1) as Hpw. rewrite Hnil, app_nil_r in Hpw.
        destruct (H_child t1 Hu) as [body [Hbody _]]. rewrite Hbody in Hpw.
        replace (X ++ (t1, a1) :: Y1) with ((X ++ [(t1, a1)]) ++ Y1) in Hpw by (rewrite <- app_assoc; reflexivity).
        rewrite proj_app in Hpw.
        destruct (snoc_case _ (proj t1 Y1)) as [Hemp|[l [x Hl]]].
        -- exfalso. rewrite Hemp, app_nil_r, proj_app, proj_single_same in Hpw. apply app_inj_tail in Hpw.
           destruct Hpw as [_ ->]. destruct Hacc1 as [v [?|?]]; discriminate.
        -- rewrite Hl, app_assoc in Hpw. apply app_inj_tail in Hpw. destruct Hpw as [_ ->].
           destruct (proj_snoc_split _ _ _ _ Hl) as [Y1a [Y1b [HY1 _]]].
           rewrite HYeq, HY1.
           replace ((Y1a ++ (t1, ADone) :: Y1b) ++ (0, AWait) :: Y2) with (Y1a ++ (t1, ADone) :: Y1b ++ (0, AWait) :: Y2)
             by (rewrite <- app_assoc; reflexivity).
           eapply (hb_chain3 tr X (t1, a1) Y1a (t1, ADone) Y1b (0, AWait) Y2 (0, a2) Z).
           ++ rewrite Heq, HYeq, HY1, <- ?app_assoc. cbn [app]. rewrite <- ?app_assoc. cbn [app]. reflexivity.
           ++ apply edge_po.
           ++ apply edge_dw.
           ++ apply edge_po.
      * exfalso. assert (Hag : after_go (proj 0 (X ++ (t1, a1) :: Y)) = true).
        { rewrite HXeq, <- app_assoc, proj_app. unfold after_go. rewrite fold_left_app.
          replace (proj 0 (((0, AGo t1) :: X2) ++ (t1, a1) :: Y)) with (AGo t1 :: proj 0 (X2 ++ (t1, a1) :: Y))
            by (unfold proj; cbn; reflexivity).
          cbn [fold_left gstep]. apply after_go_stays; [reflexivity|]. apply no_main_wait_proj.
          rewrite existsb_app, Ew. cbn [existsb orb]. rewrite Ewy.
          unfold is_main_wait. cbn [fst snd]. apply Nat.eqb_neq in Ht1. rewrite Ht1. reflexivity. }
        assert (Ha1 : In a1 (prog t1)) by exact (event_in_prog _ _ _ _ _ Hr Hin1).
        destruct (H_mid _ _ _ Hp2 Hag t1 a1 Hu Ha1) as [_ Hc]. congruence.
  - (* two goroutines: a common mutex *)
    assert (Hu1 : 1 <= t1 <= N) by lia. assert (Hu2 : 1 <= t2 <= N) by lia.
    destruct (H_lock t1 t2 _ _ _ _ _ _ Hu1 Hu2 Hp1 Hp2 Hconf) as [L [HL1 HL2]].
    pose proof (reach_locks_held _ _ _ Hr1 t1 L HL1) as Hh1. rewrite (reach_holder _ _ _ Hr1 L) in Hh1.
    pose proof (reach_locks_held _ _ _ Hr2 t2 L HL2) as Hh2. rewrite (reach_holder _ _ _ Hr2 L) in Hh2.
    destruct (handover prog c tr L t1 t2 Hr Hne ((t1, a1) :: Y) X ((t2, a2) :: Z)) as [B1 [B2 [B3 HB]]].
    + rewrite Heq. reflexivity.
    + exact Hh1.
    + exact Hh2.
    + destruct B1 as [|b B1].
      * cbn [app] in HB. inversion HB; subst. destruct Hacc1 as [v [?|?]]; discriminate.
      * cbn [app] in HB. injection HB as Hb HY'. subst b Y.
        eapply (hb_chain3 tr X (t1, a1) B1 (t1, AUnlock L) B2 (t2, ALock L) B3 (t2, a2) Z).
        -- rewrite Heq, <- ?app_assoc. cbn [app]. rewrite <- ?app_assoc. cbn [app]. reflexivity.
        -- apply edge_po.
        -- apply edge_ul.
        -- apply edge_po.
Qed.

End DRF.

(* ---------- Part 4: the phase programs generated from a footprint ------------------------------------- *)

Definition neutral (a : act) : bool :=
  match a with ARd _ => true | AWr _ => true | AAtom _ => true | ATau => true | ALock _ => true | AUnlock _ => true
  | _ => false end.

Lemma wsum_neutral : forall (w : act -> nat) l, (forall a, neutral a = true -> w a = 0) ->
  forallb neutral l = true -> wsum w l = 0.
Proof.
  intros w l Hw. induction l as [|a l IH]; intros H; [reflexivity|].
  cbn [forallb] in H. apply andb_true_iff in H. destruct H as [Ha Hl]. cbn [wsum]. rewrite (Hw a Ha), (IH Hl). reflexivity.
Qed.

Lemma forallb_flat_map : forall A (p : act -> bool) (f : A -> list act) l,
  (forall x, In x l -> forallb p (f x) = true) -> forallb p (flat_map f l) = true.
Proof.
  intros A p f l H. induction l as [|x l IH]; [reflexivity|]. cbn [flat_map]. rewrite forallb_app.
  rewrite (H x) by (left; reflexivity). apply IH. intros; apply H; right; assumption.
Qed.

Lemma neutral_acc : forall w v, neutral (acc_of w v) = true.
Proof. intros [] v; reflexivity. Qed.

Lemma main_accs_neutral : forall sel fp, forallb neutral (main_accs sel fp) = true.
Proof.
  intros sel fp. unfold main_accs. apply forallb_flat_map. intros cv _. destruct (cv_sync cv); [reflexivity|].
  apply forallb_forall. intros a Ha. apply in_map_iff in Ha. destruct Ha as [w [<- _]]. apply neutral_acc.
Qed.

Lemma child_access_neutral : forall v x b, forallb neutral (child_access v x b) = true.
Proof.
  intros v [[w l] onfail] b. unfold child_access. destruct (onfail && negb b); [reflexivity|].
  destruct l; cbn [forallb]; rewrite neutral_acc; reflexivity.
Qed.

Lemma child_body_neutral : forall fp b, forallb neutral (child_body fp b) = true.
Proof.
  intros fp b. unfold child_body. apply forallb_flat_map. intros cv _. destruct (cv_sync cv); [reflexivity|].
  apply forallb_flat_map. intros x _. apply child_access_neutral.
Qed.

Lemma wsum_flat_map_const : forall A (w : act -> nat) (f : A -> list act) k l,
  (forall x, In x l -> wsum w (f x) = k) -> wsum w (flat_map f l) = k * length l.
Proof.
  intros A w f k l H. induction l as [|x l IH]; [cbn; lia|].
  cbn [flat_map length]. rewrite wsum_app, (H x) by (left; reflexivity). rewrite IH by (intros; apply H; right; assumption). lia.
Qed.

Lemma wsum_map_go_len : forall l, wsum (ind is_go) (map AGo l) = length l.
Proof. induction l as [|x l IH]; [reflexivity|]. cbn [map wsum length]. rewrite IH. reflexivity. Qed.

Lemma count_go_seq : forall u k a,
  countf (is_go_to u) (map AGo (seq a k)) = if Nat.leb a u && Nat.ltb u (a + k) then 1 else 0.
Proof.
  intros u k. induction k as [|k IH]; intros a.
  - cbn [seq map]. destruct (Nat.leb_spec a u), (Nat.ltb_spec u (a + 0)); cbn; try reflexivity; lia.
  - cbn [seq map]. rewrite countf_cons, IH. unfold ind, is_go_to.
    destruct (Nat.eqb_spec a u), (Nat.leb_spec (S a) u), (Nat.ltb_spec u (S a + k)), (Nat.leb_spec a u), (Nat.ltb_spec u (a + S k));
      cbn; try reflexivity; lia.
Qed.

Section Phase.
Variable fp : footprint.
Variables n passes : nat.
Variable fails : nat -> bool.
Hypothesis Hfp : footprint_race_free fp = true.
Let N := n * passes.
Let prog := phase_prog fp n passes fails.

Lemma fp_flags : fp_add_before_go fp = true /\ fp_done_deferred fp = true /\ fp_wait_after fp = true
  /\ nodupb (map cv_id (fp_vars fp)) = true /\ forallb cvar_ok (fp_vars fp) = true.
Proof.
  pose proof Hfp as H. unfold footprint_race_free in H.
  apply andb_true_iff in H. destruct H as [H H5]. apply andb_true_iff in H. destruct H as [H H4].
  apply andb_true_iff in H. destruct H as [H H3]. apply andb_true_iff in H. destruct H as [H1 H2].
  repeat split; assumption.
Qed.

Definition round (p : nat) : list act :=
  main_accs cv_pre fp ++ [AAdd n] ++ map AGo (round_tids n p) ++ main_accs cv_mid fp ++ [AWait] ++ main_accs cv_post fp.

Lemma round_eq : forall p, phase_round fp n p = round p.
Proof. intros p. destruct fp_flags as [H1 [_ [H3 _]]]. unfold phase_round, round. rewrite H1, H3. reflexivity. Qed.

Lemma main_eq : prog 0 = flat_map round (seq 0 passes).
Proof.
  unfold prog, phase_prog, phase_main. cbn [Nat.eqb]. apply flat_map_ext. intros p. apply round_eq.
Qed.

Lemma child_eq : forall u, 1 <= u <= N -> prog u = (child_body fp (fails u) ++ [ATau]) ++ [ADone].
Proof.
  intros u [H1 H2]. destruct fp_flags as [_ [Hd _]]. unfold prog, phase_prog, phase_child.
  destruct (Nat.eqb u 0) eqn:E; [apply Nat.eqb_eq in E; lia|].
  fold N. apply Nat.leb_le in H2. rewrite H2, Hd. rewrite <- app_assoc. reflexivity.
Qed.

Lemma P_out' : forall u, S N <= u -> prog u = [].
Proof.
  intros u H. unfold prog, phase_prog. destruct (Nat.eqb u 0) eqn:E; [apply Nat.eqb_eq in E; lia|].
  fold N. destruct (Nat.leb u N) eqn:E2; [apply Nat.leb_le in E2; lia|reflexivity].
Qed.

(* weights of a round for weights that vanish on neutral actions *)
Lemma round_w : forall (w : act -> nat) p, (forall a, neutral a = true -> w a = 0) ->
  wsum w (round p) = w (AAdd n) + wsum w (map AGo (round_tids n p)) + w AWait.
Proof.
  intros w p Hw. unfold round. rewrite !wsum_app.
  rewrite !(wsum_neutral w (main_accs _ fp) Hw (main_accs_neutral _ fp)). cbn [wsum]. lia.
Qed.

Lemma body_w : forall (w : act -> nat) b, (forall a, neutral a = true -> w a = 0) ->
  wsum w (child_body fp b ++ [ATau]) = 0.
Proof.
  intros w b Hw. rewrite wsum_app, (wsum_neutral w _ Hw (child_body_neutral fp b)). cbn [wsum]. rewrite (Hw ATau eq_refl). reflexivity.
Qed.

Lemma ind_neutral : forall f, (forall a, neutral a = true -> f a = false) -> forall a, neutral a = true -> ind f a = 0.
Proof. intros f H a Ha. unfold ind. rewrite (H a Ha). reflexivity. Qed.

Lemma neutral_not_done : forall a, neutral a = true -> is_done a = false. Proof. destruct a; cbn; congruence. Qed.
Lemma neutral_not_go : forall a, neutral a = true -> is_go a = false. Proof. destruct a; cbn; congruence. Qed.
Lemma neutral_not_go_to : forall u a, neutral a = true -> is_go_to u a = false. Proof. destruct a; cbn; congruence. Qed.
Lemma neutral_not_wait : forall a, neutral a = true -> is_wait a = false. Proof. destruct a; cbn; congruence. Qed.
Lemma neutral_no_add : forall a, neutral a = true -> add_w a = 0. Proof. destruct a; cbn; congruence. Qed.

Lemma H_child' : forall u, 1 <= u <= N ->
  exists body, prog u = body ++ [ADone] /\ countf is_done body = 0 /\ adds body = 0 /\ countf is_go body = 0.
Proof.
  intros u Hu. exists (child_body fp (fails u) ++ [ATau]). split; [apply child_eq; assumption|].
  repeat split.
  - apply body_w. apply ind_neutral, neutral_not_done.
  - apply body_w. apply neutral_no_add.
  - apply body_w. apply ind_neutral, neutral_not_go.
Qed.

Lemma H_main_nodone' : countf is_done (prog 0) = 0.
Proof.
  rewrite main_eq. unfold countf. rewrite (wsum_flat_map_const _ _ _ 0); [lia|].
  intros p _. rewrite round_w by (apply ind_neutral, neutral_not_done). cbn [ind is_done].
  rewrite wsum_map_go by reflexivity. reflexivity.
Qed.

Lemma H_go_total' : countf is_go (prog 0) = N.
Proof.
  rewrite main_eq. unfold countf. rewrite (wsum_flat_map_const _ _ _ n).
  - rewrite seq_length. reflexivity.
  - intros p _. rewrite round_w by (apply ind_neutral, neutral_not_go). cbn [ind is_go].
    rewrite wsum_map_go_len. unfold round_tids. rewrite seq_length. lia.
Qed.

Lemma adds_total : adds (prog 0) = N.
Proof.
  rewrite main_eq. unfold adds. rewrite (wsum_flat_map_const _ _ _ n).
  - rewrite seq_length. reflexivity.
  - intros p _. rewrite round_w by apply neutral_no_add. cbn [add_w]. rewrite wsum_map_go by reflexivity. lia.
Qed.

Lemma H_go_range' : forall v, In (AGo v) (prog 0) -> 1 <= v <= N.
Proof.
  intros v H. rewrite main_eq in H. apply in_flat_map in H. destruct H as [p [Hp Hin]].
  apply in_seq in Hp. unfold round in Hin.
  assert (Hnot : forall sel, ~ In (AGo v) (main_accs sel fp)).
  { intros sel Hx. pose proof (main_accs_neutral sel fp) as Hn. rewrite forallb_forall in Hn. specialize (Hn _ Hx). discriminate. }
  apply in_app_or in Hin. destruct Hin as [Hin|Hin]; [exfalso; eapply Hnot; eassumption|].
  apply in_app_or in Hin. destruct Hin as [[Hin|[]]|Hin]; [discriminate|].
  apply in_app_or in Hin. destruct Hin as [Hin|Hin].
  - apply in_map_iff in Hin. destruct Hin as [x [Hx Hs]]. inversion Hx; subst x. unfold round_tids in Hs.
    apply in_seq in Hs. unfold N. assert (p * n + n <= passes * n).
    { replace (p * n + n) with (S p * n) by (cbn; lia). apply Nat.mul_le_mono_r. lia. }
    lia.
  - apply in_app_or in Hin. destruct Hin as [Hin|Hin]; [exfalso; eapply Hnot; eassumption|].
    apply in_app_or in Hin. destruct Hin as [[Hin|[]]|Hin]; [discriminate|exfalso; eapply Hnot; eassumption].
Qed.

Lemma go_to_rounds : forall u k p0,
  countf (is_go_to u) (flat_map round (seq p0 k)) =
  if Nat.leb (1 + p0 * n) u && Nat.ltb u (1 + (p0 + k) * n) then 1 else 0.
Proof.
  intros u k. induction k as [|k IH]; intros p0.
  - cbn [seq flat_map]. replace (p0 + 0) with p0 by lia.
    destruct (Nat.leb_spec (1 + p0 * n) u), (Nat.ltb_spec u (1 + p0 * n)); cbn; try reflexivity; lia.
  - cbn [seq flat_map]. rewrite countf_app, IH. unfold countf at 1.
    rewrite round_w by (apply ind_neutral, neutral_not_go_to). cbn [ind is_go_to].
    fold (countf (is_go_to u)). unfold round_tids. rewrite count_go_seq.
    assert (E1 : S p0 * n = n + p0 * n) by (cbn; lia).
    assert (E2 : (S p0 + k) * n = (p0 + S k) * n) by (f_equal; lia).
    assert (E3 : (p0 + S k) * n = p0 * n + n + k * n) by lia.
    rewrite E2.
    destruct (Nat.leb_spec (1 + p0 * n) u), (Nat.ltb_spec u (1 + p0 * n + n)), (Nat.leb_spec (1 + S p0 * n) u),
      (Nat.ltb_spec u (1 + (p0 + S k) * n)); cbn; try reflexivity; lia.
Qed.

Lemma H_go_once' : forall u, 1 <= u <= N -> countf (is_go_to u) (prog 0) = 1.
Proof.
  intros u [H1 H2]. rewrite main_eq, go_to_rounds. cbn [Nat.mul Nat.add]. unfold N in H2.
  replace (passes * n) with (n * passes) by lia.
  destruct (Nat.leb_spec 1 u), (Nat.ltb_spec u (S (n * passes))); cbn; try reflexivity; lia.
Qed.


(* --- Wait balance ------------------------------------------------------------------------------- *)

Fixpoint bal_ok (l : list act) (a g : nat) : bool :=
  match l with
  | [] => true
  | AAdd k :: r => bal_ok r (a + k) g
  | AGo _ :: r => bal_ok r a (S g)
  | AWait :: r => Nat.eqb a g && bal_ok r a g
  | _ :: r => bal_ok r a g
  end.

Lemma bal_ok_decomp : forall P l a g S, bal_ok l a g = true -> l = P ++ AWait :: S ->
  a + adds P = g + countf is_go P.
Proof.
  induction P as [|x P IH]; intros l a g S H Heq; subst l.
  - cbn in H. apply andb_true_iff in H. destruct H as [H _]. apply Nat.eqb_eq in H. cbn. lia.
  - unfold adds, countf in *. cbn [app wsum]. destruct x; cbn [bal_ok app] in H;
      try (apply andb_true_iff in H; destruct H as [_ H]);
      specialize (IH _ _ _ _ H eq_refl); cbn [add_w ind is_go]; lia.
Qed.

Lemma bal_neutral : forall l r a g, forallb neutral l = true -> bal_ok (l ++ r) a g = bal_ok r a g.
Proof.
  induction l as [|x l IH]; intros r a g H; [reflexivity|].
  cbn [forallb] in H. apply andb_true_iff in H. destruct H as [Hx Hl].
  destruct x; try discriminate; cbn [app bal_ok]; apply IH; assumption.
Qed.

Lemma bal_gos : forall l r a g, bal_ok (map AGo l ++ r) a g = bal_ok r a (length l + g).
Proof.
  induction l as [|x l IH]; intros r a g; [reflexivity|].
  cbn [map app bal_ok length]. rewrite IH. f_equal. lia.
Qed.

Lemma bal_rounds : forall ps a, bal_ok (flat_map round ps) a a = true.
Proof.
  induction ps as [|p ps IH]; intros a; [reflexivity|].
  cbn [flat_map]. unfold round. rewrite <- !app_assoc.
  rewrite bal_neutral by apply main_accs_neutral. cbn [app bal_ok].
  rewrite bal_gos, bal_neutral by apply main_accs_neutral. cbn [app bal_ok].
  unfold round_tids. rewrite seq_length.
  replace (Nat.eqb (a + n) (n + a)) with true by (symmetry; apply Nat.eqb_eq; lia). cbn [andb].
  rewrite bal_neutral by apply main_accs_neutral.
  replace (n + a) with (a + n) by lia. apply IH.
Qed.

Lemma H_bal' : forall P S, prog 0 = P ++ AWait :: S -> adds P = countf is_go P.
Proof.
  intros P S H. rewrite main_eq in H.
  pose proof (bal_ok_decomp P _ 0 0 S (bal_rounds (seq 0 passes) 0) H). lia.
Qed.

(* --- nodup ids -------------------------------------------------------------------------------- *)

Lemma mem_nat_In : forall x l, mem_nat x l = true <-> In x l.
Proof.
  intros x l. induction l as [|y l IH]; cbn [mem_nat In]; [split; [discriminate|tauto]|].
  rewrite orb_true_iff, IH, Nat.eqb_eq. split; intros [H|H]; auto.
Qed.

Lemma nodup_ids : forall (l : list cvar) cv cv', nodupb (map cv_id l) = true ->
  In cv l -> In cv' l -> cv_id cv = cv_id cv' -> cv = cv'.
Proof.
  induction l as [|x l IH]; intros cv cv' Hn H1 H2 Hid; [destruct H1|].
  cbn [map nodupb] in Hn. apply andb_true_iff in Hn. destruct Hn as [Hx Hn].
  apply negb_true_iff in Hx.
  assert (Hnot : forall y, In y l -> cv_id y <> cv_id x).
  { intros y Hy Heq. assert (mem_nat (cv_id x) (map cv_id l) = true); [|congruence].
    apply mem_nat_In. rewrite <- Heq. apply in_map. assumption. }
  destruct H1 as [->|H1], H2 as [->|H2]; try reflexivity.
  - exfalso. apply (Hnot cv' H2). congruence.
  - exfalso. apply (Hnot cv H1). congruence.
  - apply IH; assumption.
Qed.

Lemma cv_ok : forall cv, In cv (fp_vars fp) -> cvar_ok cv = true.
Proof. intros cv H. destruct fp_flags as [_ [_ [_ [_ Hall]]]]. rewrite forallb_forall in Hall. apply Hall. assumption. Qed.

Lemma cv_unique : forall cv cv', In cv (fp_vars fp) -> In cv' (fp_vars fp) -> cv_id cv = cv_id cv' -> cv = cv'.
Proof. intros. destruct fp_flags as [_ [_ [_ [Hn _]]]]. eapply nodup_ids; eassumption. Qed.

(* where the accesses of a goroutine come from *)
Definition is_acc (a : act) : bool := match a with ARd _ => true | AWr _ => true | _ => false end.

Lemma child_access_acc : forall v x b a, In a (child_access v x b) -> is_acc a = true -> a = acc_of (fst (fst x)) v.
Proof.
  intros v [[w l] onfail] b a H Ha. unfold child_access in H. destruct (onfail && negb b); [destruct H|].
  destruct l.
  - destruct H as [<-|[]]. reflexivity.
  - destruct H as [<-|[<-|[<-|[]]]]; try discriminate. reflexivity.
Qed.

Lemma child_body_acc : forall b a, In a (child_body fp b) -> is_acc a = true ->
  exists cv x, In cv (fp_vars fp) /\ cv_sync cv = false /\ In x (cv_child cv) /\ a = acc_of (fst (fst x)) (cv_id cv).
Proof.
  intros b a H Ha. unfold child_body in H. apply in_flat_map in H. destruct H as [cv [Hcv Hin]].
  destruct (cv_sync cv) eqn:Es.
  - destruct Hin as [<-|[]]. discriminate.
  - apply in_flat_map in Hin. destruct Hin as [x [Hx Hin]]. exists cv, x. repeat split; try assumption.
    eapply child_access_acc; eassumption.
Qed.

Lemma prog_child_acc : forall u a, 1 <= u <= N -> In a (prog u) -> is_acc a = true -> In a (child_body fp (fails u)).
Proof.
  intros u a Hu Hin Ha. rewrite (child_eq u Hu) in Hin. apply in_app_or in Hin. destruct Hin as [Hin|[<-|[]]]; [|discriminate].
  apply in_app_or in Hin. destruct Hin as [Hin|[<-|[]]]; [assumption|discriminate].
Qed.

Lemma child_writes_intro : forall cv x, In x (cv_child cv) -> fst (fst x) = true -> child_writes cv = true.
Proof. intros cv x Hx Hw. unfold child_writes. apply existsb_exists. exists x. split; assumption. Qed.

(* --- main's accesses between go and Wait ------------------------------------------------------------ *)

Definition var_child_writes (v : nat) : bool :=
  existsb (fun cv => Nat.eqb (cv_id cv) v && negb (cv_sync cv) && child_writes cv) (fp_vars fp).
Definition var_has_child (v : nat) : bool :=
  existsb (fun cv => Nat.eqb (cv_id cv) v && negb (cv_sync cv)
                     && negb (match cv_child cv with [] => true | _ => false end)) (fp_vars fp).
Definition safe (a : act) : bool :=
  match a with ARd v => negb (var_child_writes v) | AWr v => negb (var_has_child v) | _ => true end.

Lemma mid_safe : forall a, In a (main_accs cv_mid fp) -> safe a = true.
Proof.
  intros a H. unfold main_accs in H. apply in_flat_map in H. destruct H as [cv [Hcv Hin]].
  destruct (cv_sync cv) eqn:Es; [destruct Hin|]. apply in_map_iff in Hin. destruct Hin as [w [<- Hw]].
  pose proof (cv_ok cv Hcv) as Hok. unfold cvar_ok in Hok. rewrite Es in Hok. cbn [orb] in Hok.
  apply andb_true_iff in Hok. destruct Hok as [_ Hmid].
  destruct w; cbn [acc_of safe]; apply negb_true_iff; apply not_true_iff_false; intros Hex;
    apply existsb_exists in Hex; destruct Hex as [cv' [Hcv' Hp]];
    apply andb_true_iff in Hp; destruct Hp as [Hp Hc]; apply andb_true_iff in Hp; destruct Hp as [Hid _];
    apply Nat.eqb_eq in Hid; assert (cv' = cv) by (apply cv_unique; assumption); subst cv'.
  - destruct (cv_child cv) eqn:Ec; [discriminate|]. rewrite forallb_forall in Hmid. specialize (Hmid true Hw). discriminate.
  - destruct (cv_child cv) eqn:Ec; [unfold child_writes in Hc; rewrite Ec in Hc; discriminate|].
    rewrite forallb_forall in Hmid. specialize (Hmid false Hw). rewrite Hc in Hmid. discriminate.
Qed.

Lemma safe_no_conflict : forall a u a', safe a = true -> 1 <= u <= N -> In a' (prog u) ->
  conflict a a' = false /\ conflict a' a = false.
Proof.
  intros a u a' Hs Hu Hin.
  assert (Hgen : forall v, (a = ARd v \/ a = AWr v) -> is_acc a' = true ->
            forall v', (a' = ARd v' \/ a' = AWr v') -> v = v' -> (a = AWr v \/ a' = AWr v') -> False).
  { intros v Hav Ha' v' Hav' <- Hwr.
    destruct (child_body_acc _ _ (prog_child_acc u a' Hu Hin Ha') Ha') as [cv [x [Hcv [Hsy [Hx Heq]]]]].
    assert (Hid : cv_id cv = v) by (destruct Hav' as [->| ->]; destruct (fst (fst x)); cbn in Heq; congruence).
    destruct Hav as [->| ->]; cbn [safe] in Hs; apply negb_true_iff in Hs.
    - (* a reads: a' must write *)
      destruct Hwr as [Hx0|Hx0]; [discriminate|]. subst a'.
      assert (Hw : fst (fst x) = true) by (destruct (fst (fst x)); [reflexivity|discriminate]).
      assert (var_child_writes v = true); [|congruence].
      apply existsb_exists. exists cv. split; [assumption|]. rewrite Hid, Nat.eqb_refl, Hsy.
      rewrite (child_writes_intro cv x Hx Hw). reflexivity.
    - assert (var_has_child v = true); [|congruence].
      apply existsb_exists. exists cv. split; [assumption|]. rewrite Hid, Nat.eqb_refl, Hsy.
      destruct (cv_child cv); [destruct Hx|reflexivity]. }
  split.
  - destruct (conflict a a') eqn:E; [exfalso|reflexivity].
    destruct a; try discriminate; destruct a'; try discriminate; cbn [conflict] in E; apply Nat.eqb_eq in E;
      eapply Hgen; eauto.
  - destruct (conflict a' a) eqn:E; [exfalso|reflexivity].
    destruct a'; try discriminate; destruct a; try discriminate; cbn [conflict] in E; apply Nat.eqb_eq in E; symmetry in E;
      eapply Hgen; eauto.
Qed.

Fixpoint mid_scan (l : list act) (st : bool) : bool :=
  match l with
  | [] => true
  | a :: r => (if is_acc a && st then safe a else true) && mid_scan r (gstep st a)
  end.

Lemma mid_scan_decomp : forall P l st a S, mid_scan l st = true -> l = P ++ a :: S -> is_acc a = true ->
  fold_left gstep P st = true -> safe a = true.
Proof.
  induction P as [|x P IH]; intros l st a S H Heq Ha Hst; subst l.
  - cbn in Hst. subst st. cbn [app mid_scan] in H. rewrite Ha in H. cbn [andb] in H.
    apply andb_true_iff in H. apply H.
  - cbn [app mid_scan] in H. apply andb_true_iff in H. destruct H as [_ H]. cbn [fold_left] in Hst.
    eapply IH; [exact H|reflexivity|assumption|assumption].
Qed.

Lemma ms_neutral : forall l r st, forallb neutral l = true -> (st = true -> forall a, In a l -> safe a = true) ->
  mid_scan (l ++ r) st = mid_scan r st.
Proof.
  induction l as [|x l IH]; intros r st Hn Hs; [reflexivity|].
  cbn [forallb] in Hn. apply andb_true_iff in Hn. destruct Hn as [Hx Hl].
  cbn [app mid_scan].
  assert (Hg : gstep st x = st) by (destruct x; try discriminate; reflexivity). rewrite Hg.
  rewrite (IH r st Hl) by (intros Hst a Ha; apply Hs; [exact Hst|right; exact Ha]).
  destruct st.
  - rewrite andb_true_r. destruct (is_acc x); [rewrite Hs by (try reflexivity; left; reflexivity)|]; reflexivity.
  - rewrite andb_false_r. reflexivity.
Qed.

Lemma ms_gos : forall l r st, mid_scan (map AGo l ++ r) st = mid_scan r (match l with [] => st | _ => true end).
Proof.
  induction l as [|x l IH]; intros r st; [reflexivity|].
  cbn [map app mid_scan is_acc andb gstep]. rewrite IH. destruct l; reflexivity.
Qed.

Lemma ms_rounds : forall ps, mid_scan (flat_map round ps) false = true.
Proof.
  induction ps as [|p ps IH]; [reflexivity|].
  cbn [flat_map]. unfold round. rewrite <- !app_assoc.
  rewrite ms_neutral by (try apply main_accs_neutral; discriminate).
  cbn [app mid_scan is_acc andb gstep]. rewrite ms_gos.
  rewrite ms_neutral by (try apply main_accs_neutral; intros _ a Ha; apply mid_safe; assumption).
  cbn [app mid_scan is_acc andb gstep].
  rewrite ms_neutral by (try apply main_accs_neutral; discriminate). exact IH.
Qed.

Lemma H_mid' : forall P a S, prog 0 = P ++ a :: S -> after_go P = true ->
  forall u a', 1 <= u <= N -> In a' (prog u) -> conflict a a' = false /\ conflict a' a = false.
Proof.
  intros P a S Heq Hag u a' Hu Hin. rewrite main_eq in Heq.
  destruct (is_acc a) eqn:Ha.
  - apply (safe_no_conflict a u a'); try assumption.
    eapply mid_scan_decomp; [apply (ms_rounds (seq 0 passes))|exact Heq|assumption|exact Hag].
  - split; destruct a; try discriminate; try reflexivity; destruct a'; reflexivity.
Qed.

(* --- goroutine accesses under the variable's lock --------------------------------------------------- *)

Definition wpred (v : nat) (cv : cvar) : bool := Nat.eqb (cv_id cv) v && negb (cv_sync cv) && child_writes cv.
Definition var_lock (v : nat) : nat :=
  match find (wpred v) (fp_vars fp) with Some cv => lock_of cv | None => 0 end.
Definition req (a : act) (hl : list nat) : bool :=
  match a with
  | ARd v => Nat.eqb (var_lock v) 0 || mem_nat (var_lock v) hl
  | AWr v => Nat.eqb (var_lock v) 0 || mem_nat (var_lock v) hl
  | _ => true
  end.
Fixpoint lock_scan (l : list act) (hl : list nat) : bool :=
  match l with [] => true | a :: r => req a hl && lock_scan r (lstep hl a) end.

Lemma lock_scan_decomp : forall P l hl a S, lock_scan l hl = true -> l = P ++ a :: S ->
  req a (fold_left lstep P hl) = true.
Proof.
  induction P as [|x P IH]; intros l hl a S H Heq; subst l.
  - cbn [app lock_scan] in H. apply andb_true_iff in H. apply H.
  - cbn [app lock_scan] in H. apply andb_true_iff in H. destruct H as [_ H]. cbn [fold_left].
    eapply IH; [exact H|reflexivity].
Qed.

Lemma lock_scan_app : forall l r hl, lock_scan (l ++ r) hl = lock_scan l hl && lock_scan r (fold_left lstep l hl).
Proof.
  induction l as [|x l IH]; intros r hl; [reflexivity|].
  cbn [app lock_scan fold_left]. rewrite IH, andb_assoc. reflexivity.
Qed.

Lemma var_lock_cases : forall cv, In cv (fp_vars fp) -> cv_sync cv = false ->
  (child_writes cv = false /\ var_lock (cv_id cv) = 0)
  \/ (child_writes cv = true /\ var_lock (cv_id cv) = lock_of cv /\ lock_of cv <> 0
      /\ forall x, In x (cv_child cv) -> snd (fst x) = lock_of cv).
Proof.
  intros cv Hcv Hsy. unfold var_lock. destruct (find (wpred (cv_id cv)) (fp_vars fp)) as [cv'|] eqn:Ef.
  - apply find_some in Ef. destruct Ef as [Hcv' Hp]. unfold wpred in Hp.
    apply andb_true_iff in Hp. destruct Hp as [Hp Hw]. apply andb_true_iff in Hp. destruct Hp as [Hid _].
    apply Nat.eqb_eq in Hid. assert (cv' = cv) by (apply cv_unique; assumption). subst cv'. right.
    pose proof (cv_ok cv Hcv) as Hok. unfold cvar_ok in Hok. rewrite Hsy, Hw in Hok. cbn [orb negb] in Hok.
    apply andb_true_iff in Hok. destruct Hok as [Hl _]. unfold child_locked in Hl.
    apply andb_true_iff in Hl. destruct Hl as [Hnz Hall]. apply negb_true_iff, Nat.eqb_neq in Hnz.
    repeat split; try assumption. intros x Hx. rewrite forallb_forall in Hall. apply Nat.eqb_eq, Hall, Hx.
  - destruct (child_writes cv) eqn:Ew; [|left; split; reflexivity].
    pose proof (find_none _ _ Ef cv Hcv) as Hn. unfold wpred in Hn. rewrite Nat.eqb_refl, Hsy, Ew in Hn. discriminate.
Qed.

Lemma child_access_scan : forall cv x b, In cv (fp_vars fp) -> cv_sync cv = false -> In x (cv_child cv) ->
  lock_scan (child_access (cv_id cv) x b) [] = true /\ fold_left lstep (child_access (cv_id cv) x b) [] = [].
Proof.
  intros cv [[w l] onfail] b Hcv Hsy Hx. unfold child_access. destruct (onfail && negb b); [split; reflexivity|].
  destruct (var_lock_cases cv Hcv Hsy) as [[Hw Hv]|[Hw [Hv [Hnz Hall]]]].
  - destruct l, w; cbn [acc_of lock_scan fold_left lstep req remove_nat andb]; rewrite ?Hv, ?Nat.eqb_refl;
      cbn [Nat.eqb orb andb]; split; reflexivity.
  - specialize (Hall _ Hx). cbn [fst snd] in Hall. subst l. destruct (lock_of cv) as [|l'] eqn:El; [congruence|].
    destruct w; cbn [acc_of lock_scan fold_left lstep req remove_nat andb mem_nat]; rewrite ?Hv, ?Nat.eqb_refl;
      cbn [Nat.eqb orb andb]; rewrite ?Nat.eqb_refl, ?orb_true_r; split; reflexivity.
Qed.

Lemma flat_scan : forall A (f : A -> list act) l,
  (forall x, In x l -> lock_scan (f x) [] = true /\ fold_left lstep (f x) [] = []) ->
  lock_scan (flat_map f l) [] = true /\ fold_left lstep (flat_map f l) [] = [].
Proof.
  intros A f l H. induction l as [|x l IH]; [split; reflexivity|].
  cbn [flat_map]. destruct (H x (or_introl eq_refl)) as [H1 H2].
  destruct IH as [I1 I2]; [intros; apply H; right; assumption|].
  rewrite lock_scan_app, fold_left_app, H1, H2, I1, I2. split; reflexivity.
Qed.

Lemma child_scan : forall b, lock_scan (child_body fp b) [] = true.
Proof.
  intros b. unfold child_body. apply flat_scan. intros cv Hcv. destruct (cv_sync cv) eqn:Es; [split; reflexivity|].
  apply flat_scan. intros x Hx. apply child_access_scan; assumption.
Qed.

Lemma H_lock' : forall u1 u2 P1 a1 S1 P2 a2 S2, 1 <= u1 <= N -> 1 <= u2 <= N ->
  prog u1 = P1 ++ a1 :: S1 -> prog u2 = P2 ++ a2 :: S2 -> conflict a1 a2 = true ->
  exists L, In L (locks_after P1) /\ In L (locks_after P2).
Proof.
  intros u1 u2 P1 a1 S1 P2 a2 S2 Hu1 Hu2 He1 He2 Hc.
  assert (Hscan : forall u, 1 <= u <= N -> lock_scan (prog u) [] = true).
  { intros u Hu. rewrite (child_eq u Hu), !lock_scan_app, child_scan. reflexivity. }
  pose proof (lock_scan_decomp _ _ _ _ _ (Hscan u1 Hu1) He1) as R1.
  pose proof (lock_scan_decomp _ _ _ _ _ (Hscan u2 Hu2) He2) as R2.
  fold (locks_after P1) in R1. fold (locks_after P2) in R2.
  (* the variable has a writing goroutine access: its lock is not 0 *)
  assert (Hv : exists v, (a1 = ARd v \/ a1 = AWr v) /\ (a2 = ARd v \/ a2 = AWr v) /\ var_lock v <> 0).
  { assert (Hw : forall u a v, 1 <= u <= N -> In a (prog u) -> a = AWr v -> var_lock v <> 0).
    { intros u a v Hu Hin ->.
      destruct (child_body_acc _ _ (prog_child_acc u _ Hu Hin eq_refl) eq_refl) as [cv [x [Hcv [Hsy [Hx Heq]]]]].
      assert (Hwx : fst (fst x) = true) by (destruct (fst (fst x)); [reflexivity|discriminate]).
      rewrite Hwx in Heq. cbn in Heq. inversion Heq; subst v.
      destruct (var_lock_cases cv Hcv Hsy) as [[Hcw _]|[_ [Hvl [Hnz _]]]]; [|congruence].
      rewrite (child_writes_intro cv x Hx Hwx) in Hcw. discriminate. }
    assert (Hi1 : In a1 (prog u1)) by (rewrite He1; apply in_or_app; right; left; reflexivity).
    assert (Hi2 : In a2 (prog u2)) by (rewrite He2; apply in_or_app; right; left; reflexivity).
    destruct a1; try discriminate; destruct a2; try discriminate; cbn [conflict] in Hc; apply Nat.eqb_eq in Hc; subst;
      eexists; (split; [eauto|split; [eauto|]]); eauto. }
  destruct Hv as [v [H1 [H2 Hnz]]]. exists (var_lock v).
  apply Nat.eqb_neq in Hnz.
  split; apply mem_nat_In.
  - destruct H1 as [->| ->]; cbn [req] in R1; rewrite Hnz in R1; exact R1.
  - destruct H2 as [->| ->]; cbn [req] in R2; rewrite Hnz in R2; exact R2.
Qed.

(* --- the theorem ------------------------------------------------------------------------------------ *)

Theorem phase_race_free : forall c tr, reach prog c tr -> ~ race tr.
Proof.
  apply (drf prog N P_out' H_child' H_main_nodone' H_go_once' H_go_range' H_go_total' H_bal' H_mid' H_lock').
Qed.

End Phase.

(* ---------- refuting happens-before on a concrete trace -------------------------------------------- *)

Lemma hb_closed : forall tr (R : nat -> nat -> bool),
  (forall i j e1 e2, i < j -> nth_error tr i = Some e1 -> nth_error tr j = Some e2 -> sync_edge e1 e2 = true -> R i j = true) ->
  (forall i j k, R i j = true -> R j k = true -> R i k = true) ->
  forall i j, hb tr i j -> R i j = true.
Proof.
  intros tr R He Ht i j H. induction H as [i j e1 e2 Hij H1 H2 Hs|i j k _ IH1 _ IH2].
  - eapply He; eassumption.
  - eapply Ht; eassumption.
Qed.

Definition hb_rel (tr : list event) (i j : nat) : bool :=
  Nat.ltb i (length tr) && Nat.ltb j (length tr) && hb_b tr i j.

Definition edge_at (tr : list event) (i j : nat) : bool :=
  match nth_error tr i, nth_error tr j with
  | Some e1, Some e2 => Nat.ltb i j && sync_edge e1 e2
  | _, _ => false
  end.

Definition hb_check (tr : list event) : bool :=
  let idx := seq 0 (length tr) in
  forallb (fun i => forallb (fun j => implb (edge_at tr i j) (hb_rel tr i j)) idx) idx
  && forallb (fun i => forallb (fun j => forallb (fun k =>
       implb (hb_rel tr i j && hb_rel tr j k) (hb_rel tr i k)) idx) idx) idx.

Lemma hb_rel_complete : forall tr, hb_check tr = true -> forall i j, hb tr i j -> hb_rel tr i j = true.
Proof.
  intros tr Hc. unfold hb_check in Hc. apply andb_true_iff in Hc. destruct Hc as [C1 C2].
  assert (Hidx : forall i, i < length tr -> In i (seq 0 (length tr))) by (intros; apply in_seq; lia).
  apply hb_closed.
  - intros i j e1 e2 Hij H1 H2 Hs.
    assert (Hi : i < length tr) by (apply nth_error_Some; congruence).
    assert (Hj : j < length tr) by (apply nth_error_Some; congruence).
    rewrite forallb_forall in C1. specialize (C1 i (Hidx i Hi)). rewrite forallb_forall in C1. specialize (C1 j (Hidx j Hj)).
    unfold edge_at in C1. rewrite H1, H2, Hs in C1. apply Nat.ltb_lt in Hij. rewrite Hij in C1. exact C1.
  - intros i j k H1 H2.
    assert (Hb : forall a b, hb_rel tr a b = true -> a < length tr /\ b < length tr).
    { intros a b H. unfold hb_rel in H. apply andb_true_iff in H. destruct H as [H _]. apply andb_true_iff in H.
      destruct H as [Ha Hb]. apply Nat.ltb_lt in Ha, Hb. split; assumption. }
    destruct (Hb _ _ H1) as [Hi Hj]. destruct (Hb _ _ H2) as [_ Hk].
    rewrite forallb_forall in C2. specialize (C2 i (Hidx i Hi)). rewrite forallb_forall in C2. specialize (C2 j (Hidx j Hj)).
    rewrite forallb_forall in C2. specialize (C2 k (Hidx k Hk)). rewrite H1, H2 in C2. exact C2.
Qed.

(* D-C20b: the footprint of the unrepaired scanning closure - `errs = append(errs, ...)` without a lock *)
Definition fp_unlocked : footprint :=
  mkFp true true true
    [mkCvar 1 false [(false, 0, true); (true, 0, true)] [true] [] [false; false];   (* errs *)
     mkCvar 2 true [] [true] [] []].                                                 (* wg *)

Definition unlocked_sched : list nat := [0; 0; 0; 0; 1; 1; 2; 2].
Definition unlocked_trace : list event :=
  Eval vm_compute in
    match run (init (phase_prog fp_unlocked 2 1 (fun _ => true))) unlocked_sched with Some (_, tr) => tr | None => [] end.

Lemma unlocked_run : exists c, run (init (phase_prog fp_unlocked 2 1 (fun _ => true))) unlocked_sched = Some (c, unlocked_trace).
Proof. eexists. vm_compute. reflexivity. Qed.

Lemma unlocked_race : race unlocked_trace.
Proof.
  exists 5, 6, (1, AWr 1), (2, ARd 1).
  split; [lia|]. split; [reflexivity|]. split; [reflexivity|]. split; [cbn; discriminate|]. split; [reflexivity|].
  intros H. apply (hb_rel_complete unlocked_trace) in H; [|vm_compute; reflexivity]. vm_compute in H. discriminate.
Qed.
