(* Lemmas about Model/Pipeline.v: the computed stage order, the pipeline as the composition
   ${} ; #{} ; binding ; validation, the text handed to the evaluator, the validate stage. *)
From Coq Require Import List NArith ZArith Bool Lia Arith Permutation Sorted.
From IocVerif Require Import Model.Pipeline Proofs.SorterProofs Proofs.StrconvProofs Proofs.PlaceholderProofs.
Import ListNotations.

(* ---- the stage order from class / Order facts ------------------------------------------- *)

Lemma cls_lt_not_cle : forall x y, cls_lt x y = true -> cle y x = false.
Proof.
  intros [a| a |] [b| b |] H; cbn [cls_lt cle] in *; try reflexivity; try discriminate.
  - apply Z.ltb_lt in H. apply Z.leb_gt. exact H.
  - apply Z.ltb_lt in H. apply Z.leb_gt. exact H.
Qed.

Lemma sorted_strong : forall facts, StronglySorted cleP (proj (sort_participants facts)).
Proof.
  intros facts. apply Sorted_StronglySorted; [exact cleP_trans|].
  apply contract_ok_Sorted, sort_participants_contract.
Qed.

Lemma SS_never_after : forall (l1 l2 : list participant) q p,
  StronglySorted cleP (proj (l1 ++ q :: l2)) -> In p l2 -> cle (pcls q) (pcls p) = true.
Proof.
  induction l1 as [|a l1 IH]; intros l2 q p H Hin.
  - unfold proj in H. cbn [app map] in H. apply StronglySorted_inv in H. destruct H as [_ HF].
    rewrite Forall_forall in HF. apply HF. apply in_map. exact Hin.
  - unfold proj in H. cbn [app map] in H. apply StronglySorted_inv in H. destruct H as [H _].
    apply (IH l2 q p H Hin).
Qed.

Lemma count_pid_perm : forall i l l', Permutation l l' -> count_pid i l = count_pid i l'.
Proof.
  intros i l l' H. unfold count_pid. induction H; cbn [filter].
  - reflexivity.
  - destruct (Nat.eqb (pid x) i); cbn [length]; now rewrite IHPermutation.
  - destruct (Nat.eqb (pid x) i), (Nat.eqb (pid y) i); reflexivity.
  - now rewrite IHPermutation1.
Qed.

Lemma find_pid_in : forall i l p, find_pid i l = Some p -> In p l /\ pid p = i.
Proof.
  induction l as [|x l IH]; intros p H; [discriminate|].
  cbn [find_pid] in H. destruct (Nat.eqb (pid x) i) eqn:E.
  - injection H as <-. apply Nat.eqb_eq in E. split; [left; reflexivity|exact E].
  - destruct (IH p H) as [Hin Hp]. split; [right; exact Hin|exact Hp].
Qed.

Lemma count_pid_zero_notin : forall i l, count_pid i l = O -> forall q, In q l -> pid q <> i.
Proof.
  induction l as [|x l IH]; intros H q Hq; [destruct Hq|].
  unfold count_pid in H. cbn [filter] in H. destruct (Nat.eqb (pid x) i) eqn:E; [discriminate|].
  destruct Hq as [<-|Hq]; [apply Nat.eqb_neq, E|]. apply IH; assumption.
Qed.

Lemma count_pid_one_unique : forall i l p, count_pid i l = 1%nat -> find_pid i l = Some p ->
  forall q, In q l -> pid q = i -> q = p.
Proof.
  induction l as [|x l IH]; intros p Hc Hf q Hq Hp; [destruct Hq|].
  unfold count_pid in Hc. cbn [filter] in Hc. cbn [find_pid] in Hf. destruct (Nat.eqb (pid x) i) eqn:E.
  - injection Hf as <-. cbn [length] in Hc. injection Hc as Hc.
    destruct Hq as [<-|Hq]; [reflexivity|]. exfalso. exact (count_pid_zero_notin i l Hc q Hq Hp).
  - destruct Hq as [<-|Hq]; [apply Nat.eqb_neq in E; congruence|]. apply (IH p Hc Hf q Hq Hp).
Qed.

Lemma count_pid_pos_find : forall i l, (1 <= count_pid i l)%nat -> exists p, find_pid i l = Some p.
Proof.
  induction l as [|x l IH]; intros H; [cbn in H; lia|].
  unfold count_pid in H. cbn [filter find_pid] in *. destruct (Nat.eqb (pid x) i); [eexists; reflexivity|].
  apply IH, H.
Qed.

Lemma index_of_map_find : forall i l p, find_pid i l = Some p -> exists j, index_of i (map pid l) = Some j.
Proof.
  induction l as [|x l IH]; intros p H; [discriminate|].
  cbn [find_pid map index_of] in *. destruct (Nat.eqb (pid x) i); [eexists; reflexivity|].
  destruct (IH p H) as [j ->]. eexists. reflexivity.
Qed.

(* b's participant is never followed by a's: then a's position is smaller *)
Lemma before_from_never_after : forall a b out pa pb,
  a <> b -> find_pid a out = Some pa -> find_pid b out = Some pb ->
  (forall l1 l2, out = l1 ++ pb :: l2 -> ~ In pa l2) ->
  before_b a b (map pid out) = true.
Proof.
  intros a b. induction out as [|x r IH]; intros pa pb Hab Ha Hb Hna; [discriminate|].
  unfold before_b. cbn [map index_of]. cbn [find_pid] in Ha, Hb.
  destruct (Nat.eqb (pid x) a) eqn:Ea.
  - apply Nat.eqb_eq in Ea. destruct (Nat.eqb (pid x) b) eqn:Eb; [apply Nat.eqb_eq in Eb; congruence|].
    destruct (index_of_map_find b r pb Hb) as [j ->]. reflexivity.
  - destruct (Nat.eqb (pid x) b) eqn:Eb.
    + injection Hb as <-. exfalso. apply (Hna [] r eq_refl). apply (find_pid_in a r pa Ha).
    + assert (IH' : before_b a b (map pid r) = true).
      { apply (IH pa pb Hab Ha Hb). intros l1 l2 E. apply (Hna (x :: l1) l2). now rewrite E. }
      unfold before_b in IH'. destruct (index_of a (map pid r)) as [i|]; [|discriminate].
      destruct (index_of b (map pid r)) as [j|]; [|discriminate]. exact IH'.
Qed.

Lemma lt_ids_before : forall a b facts,
  a <> b -> count_pid a facts = 1%nat -> count_pid b facts = 1%nat -> lt_ids a b facts = true ->
  before_b a b (map pid (sort_participants facts)) = true.
Proof.
  intros a b facts Hab Hca Hcb Hlt. unfold lt_ids in Hlt.
  destruct (find_pid a facts) as [pa|] eqn:Fa; [|discriminate].
  destruct (find_pid b facts) as [pb|] eqn:Fb; [|discriminate].
  set (out := sort_participants facts).
  assert (Hperm : Permutation facts out) by apply sort_participants_perm.
  assert (Hca' : count_pid a out = 1%nat) by (rewrite <- (count_pid_perm a _ _ Hperm); exact Hca).
  assert (Hcb' : count_pid b out = 1%nat) by (rewrite <- (count_pid_perm b _ _ Hperm); exact Hcb).
  destruct (count_pid_pos_find a out) as [pa' Fa']; [lia|].
  destruct (count_pid_pos_find b out) as [pb' Fb']; [lia|].
  assert (pa' = pa).
  { destruct (find_pid_in _ _ _ Fa') as [Hin Hp]. apply (count_pid_one_unique a facts pa Hca Fa); [|exact Hp].
    eapply Permutation_in; [apply Permutation_sym, Hperm|exact Hin]. }
  assert (pb' = pb).
  { destruct (find_pid_in _ _ _ Fb') as [Hin Hp]. apply (count_pid_one_unique b facts pb Hcb Fb); [|exact Hp].
    eapply Permutation_in; [apply Permutation_sym, Hperm|exact Hin]. }
  subst pa' pb'.
  apply (before_from_never_after a b out pa pb Hab Fa' Fb').
  intros l1 l2 E Hin.
  pose proof (sorted_strong facts) as HS. fold out in HS. rewrite E in HS.
  pose proof (SS_never_after l1 l2 pb pa HS Hin) as Hc.
  rewrite (cls_lt_not_cle _ _ Hlt) in Hc. discriminate.
Qed.

Theorem staged_classes_order : forall facts, staged_classes facts = true ->
  let o := map pid (sort_participants facts) in
  before_b 0 1 o = true /\ before_b 1 2 o = true /\ before_b 1 3 o = true
  /\ before_b 2 4 o = true /\ before_b 3 4 o = true.
Proof.
  intros facts H. unfold staged_classes in H. cbn [forallb] in H.
  apply andb_true_iff in H; destruct H as [H L34].
  apply andb_true_iff in H; destruct H as [H L24].
  apply andb_true_iff in H; destruct H as [H L13].
  apply andb_true_iff in H; destruct H as [H L12].
  apply andb_true_iff in H; destruct H as [H L01].
  apply andb_true_iff in H; destruct H as [C0 H].
  apply andb_true_iff in H; destruct H as [C1 H].
  apply andb_true_iff in H; destruct H as [C2 H].
  apply andb_true_iff in H; destruct H as [C3 H].
  apply andb_true_iff in H; destruct H as [C4 _].
  apply Nat.eqb_eq in C0, C1, C2, C3, C4.
  cbv zeta. repeat split; apply lt_ids_before; auto; try discriminate.
Qed.

(* ---- the pipeline is the composition the property describes ---------------------------- *)

Lemma nat_list_eqb_eq : forall a b, nat_list_eqb a b = true -> a = b.
Proof.
  induction a as [|x a IH]; intros [|y b] H; cbn [nat_list_eqb] in H; try reflexivity; try discriminate.
  apply andb_true_iff in H. destruct H as [Hx Hr]. apply Nat.eqb_eq in Hx. subst. f_equal. apply IH, Hr.
Qed.

Section Pipe.
  Variable fx : bool.
  Variable cfg : bytes -> cval.
  Variable budget : option nat.
  Variable eval : bytes -> res cval.
  Variable decode : cval -> res cval.
  Variable verdict : option cval -> bool.

  Notation stage := (stage_fun fx cfg budget eval decode verdict).
  Notation run := (run_stages fx cfg budget eval decode verdict).

  Lemma irrelevant_id : forall id st, relevant id = false -> stage id st = POk st.
  Proof.
    intros id st H. do 5 (destruct id as [|id]; [discriminate|]). reflexivity.
  Qed.

  Lemma run_filter : forall order st, run order st = run (filter relevant order) st.
  Proof.
    induction order as [|id r IH]; intros st; [reflexivity|].
    cbn [filter]. destruct (relevant id) eqn:E.
    - cbn [run_stages]. destruct (stage id st); [apply IH|reflexivity].
    - cbn [run_stages]. rewrite (irrelevant_id id st E). apply IH.
  Qed.

  Lemma of_outcome_kind : forall e st o st', of_outcome e st o = POk st' ->
    ps_kind st' = ps_kind st /\ ps_required st' = ps_required st /\ ps_validate st' = ps_validate st
    /\ ps_field st' = ps_field st /\ ps_tagstr st' = ps_tagstr st.
  Proof. intros e st o st' H. destruct o; cbn [of_outcome] in H; try discriminate. injection H as <-. auto. Qed.

  Lemma bindvalue_kind : forall st st', stage_bindvalue decode st = POk st' -> ps_kind st' = ps_kind st.
  Proof.
    intros st st' H. unfold stage_bindvalue in H. destruct (ps_kind st) eqn:K; try (injection H as <-; exact K).
    destruct (ps_tagval st); [destruct (ps_required st); [discriminate|injection H as <-; exact K]|].
    destruct (parse_any _); try discriminate. destruct (decode _); try discriminate. injection H as <-. exact K.
  Qed.

  Lemma bindprefix_kind : forall st st', stage_bindprefix cfg decode st = POk st' -> ps_kind st' = ps_kind st.
  Proof.
    intros st st' H. unfold stage_bindprefix in H. destruct (ps_kind st) eqn:K; try (injection H as <-; exact K).
    destruct (cfg (ps_tagval st)); try (destruct (decode _); try discriminate; injection H as <-; exact K).
    destruct (ps_required st); [discriminate|injection H as <-; exact K].
  Qed.

  Lemma bindvalue_other : forall st, ps_kind st <> TValue -> stage_bindvalue decode st = POk st.
  Proof. intros st H. unfold stage_bindvalue. destruct (ps_kind st); [congruence|reflexivity|reflexivity]. Qed.

  Lemma bindprefix_other : forall st, ps_kind st <> TPrefix -> stage_bindprefix cfg decode st = POk st.
  Proof. intros st H. unfold stage_bindprefix. destruct (ps_kind st); [reflexivity|congruence|reflexivity]. Qed.

  Notation spec := (spec_run fx cfg budget eval decode verdict).

  Lemma pres_eta : forall r : pres, match r with POk st' => POk st' | PErr e => PErr e end = r.
  Proof. intros [st'|e]; reflexivity. Qed.

  Lemma run_canonical_1 : forall st, run [0; 1; 2; 3; 4]%nat st = spec st.
  Proof.
    intros st. unfold spec_run. cbn [run_stages stage_fun].
    destruct (stage_quote fx cfg budget st) as [s1|e]; [|reflexivity]. cbn [pbind].
    destruct (stage_expr budget eval s1) as [s2|e]; [|reflexivity]. cbn [pbind].
    destruct (ps_kind s2) eqn:K.
    - destruct (stage_bindvalue decode s2) as [s3|e] eqn:B; [|reflexivity]. cbn [pbind].
      rewrite bindprefix_other; [apply pres_eta|]. rewrite (bindvalue_kind _ _ B), K. discriminate.
    - rewrite bindvalue_other by (rewrite K; discriminate).
      destruct (stage_bindprefix cfg decode s2) as [s3|e]; [apply pres_eta|reflexivity].
    - rewrite bindvalue_other by (rewrite K; discriminate).
      rewrite bindprefix_other by (rewrite K; discriminate). apply pres_eta.
  Qed.

  Lemma run_canonical_2 : forall st, run [0; 1; 3; 2; 4]%nat st = spec st.
  Proof.
    intros st. unfold spec_run. cbn [run_stages stage_fun].
    destruct (stage_quote fx cfg budget st) as [s1|e]; [|reflexivity]. cbn [pbind].
    destruct (stage_expr budget eval s1) as [s2|e]; [|reflexivity]. cbn [pbind].
    destruct (ps_kind s2) eqn:K.
    - rewrite bindprefix_other by (rewrite K; discriminate).
      destruct (stage_bindvalue decode s2) as [s3|e]; [apply pres_eta|reflexivity].
    - destruct (stage_bindprefix cfg decode s2) as [s3|e] eqn:B; [|reflexivity]. cbn [pbind].
      rewrite bindvalue_other; [apply pres_eta|]. rewrite (bindprefix_kind _ _ B), K. discriminate.
    - rewrite bindprefix_other by (rewrite K; discriminate).
      rewrite bindvalue_other by (rewrite K; discriminate). apply pres_eta.
  Qed.

  Theorem staged_pipeline : forall facts st, staged facts = true ->
    run_pipeline fx cfg budget eval decode verdict facts st = spec st.
  Proof.
    intros facts st H. unfold run_pipeline, stage_order. rewrite run_filter.
    unfold staged in H. apply orb_true_iff in H. destruct H as [H|H]; apply nat_list_eqb_eq in H; rewrite H.
    - apply run_canonical_1.
    - apply run_canonical_2.
  Qed.

  (* ---- validation ---------------------------------------------------------------------- *)

  Theorem validate_iff : forall st s1 s2 s3,
    stage_quote fx cfg budget st = POk s1 -> stage_expr budget eval s1 = POk s2 ->
    (match ps_kind s2 with TPrefix => stage_bindprefix cfg decode s2 | _ => stage_bindvalue decode s2 end) = POk s3 ->
    (spec st = PErr EValidate <->
       ps_kind s3 <> TOther /\ ps_validate s3 = true /\ verdict (ps_field s3) = false)
    /\ (spec st <> PErr EValidate -> spec st = POk s3).
  Proof.
    intros st s1 s2 s3 H1 H2 H3. unfold spec_run. rewrite H1. cbn [pbind]. rewrite H2. cbn [pbind]. rewrite H3. cbn [pbind].
    unfold stage_validate. destruct (ps_kind s3) eqn:K; destruct (ps_validate s3) eqn:V; destruct (verdict (ps_field s3)) eqn:W;
      (split; [split; [intros H; try discriminate; repeat split; try discriminate; auto
                      |intros (Ha & Hb & Hc); try discriminate; try congruence; auto]
              |intros H; try reflexivity; congruence]).
  Qed.

  (* ---- the text handed to the evaluator ------------------------------------------------ *)

  Definition hash_not_lbrace : N.eqb b_hash b_lbrace = false := eq_refl.
  Definition hash_not_rbrace : N.eqb b_hash b_rbrace = false := eq_refl.
  Definition dollar_not_lbrace' : N.eqb b_dollar b_lbrace = false := eq_refl.
  Definition dollar_not_rbrace' : N.eqb b_dollar b_rbrace = false := eq_refl.

  (* the context form of the denotational theorem: placeholders inside any text whose prefix has
     no right brace *)
  Lemma denotational_ctx : forall sig, N.eqb sig b_lbrace = false -> N.eqb sig b_rbrace = false ->
    forall f l p tl n exh, no_rbrace p = true -> forallb wf l = true -> forallb (clean f) l = true ->
    rac_loop sig f exh (ph_count_all l + n) (p ++ render_all sig l ++ tl) =
    match subst_all f l with
    | Ok u => rac_loop sig f exh n (p ++ u ++ tl)
    | Err => Failed
    | Panic => Panicked
    end.
  Proof.
    intros sig H1 H2 f l p tl n exh Hp Hw Hc.
    assert (HG : Gl sig f l).
    { apply (Gl_of_Forall sig f), Forall_forall. intros x _. apply (Gp_all sig H1 H2 f). }
    apply (HG p tl n exh Hp Hw Hc).
  Qed.
End Pipe.

(* ---- expressions run after placeholder substitution ------------------------------------ *)

Lemma with_tagval_self : forall st, with_tagval st (ps_tagval st) = st.
Proof. intros [k s v r va f]. reflexivity. Qed.

Lemma stage_quote_eq : forall fx cfg budget st, ps_tagval st = ps_tagstr st ->
  stage_quote fx cfg budget st =
  of_outcome EQuote st (replace_all_content b_dollar (resolve fx cfg) budget 0 (ps_tagstr st)).
Proof.
  intros fx cfg budget st H. unfold stage_quote.
  destruct (find_first b_dollar (ps_tagstr st)) as [[i n]|] eqn:E; [reflexivity|].
  unfold replace_all_content. destruct budget as [b|]; rewrite rac_loop_eq, E; cbn [of_outcome];
    rewrite <- H, with_tagval_self; reflexivity.
Qed.

Lemma rac_no_match : forall sig f exh n s, find_first sig s = None -> rac_loop sig f exh n s = Done s.
Proof. intros sig f exh n s H. now rewrite rac_loop_eq, H. Qed.

Section ExprAfterSubst.
  Variable fx : bool.
  Variable cfg : bytes -> cval.
  Variable eval : bytes -> res cval.
  Variable decode : cval -> res cval.
  Variable verdict : option cval -> bool.

  (* the text of an expression tag:  pre #{ <parts with ${} placeholders> } post *)
  Definition expr_tag (pre post : bytes) (l : list tpart) : bytes :=
    pre ++ b_hash :: b_lbrace :: render_all b_dollar l ++ b_rbrace :: post.
  Definition expr_tag_subst (pre post u : bytes) : bytes :=
    pre ++ b_hash :: b_lbrace :: u ++ b_rbrace :: post.

  Lemma quote_on_expr_tag : forall b st pre post l u,
    ps_tagval st = ps_tagstr st -> ps_tagstr st = expr_tag pre post l ->
    no_rbrace pre = true -> forallb wf l = true -> forallb (clean (resolve fx cfg)) l = true ->
    (ph_count_all l <= b)%nat ->
    subst_all (resolve fx cfg) l = Ok u ->
    find_first b_dollar (expr_tag_subst pre post u) = None ->
    stage_quote fx cfg (Some b) st = POk (with_tagval st (expr_tag_subst pre post u)).
  Proof.
    intros b st pre post l u Hv Hs Hp Hw Hc Hb Hu Hn.
    rewrite (stage_quote_eq fx cfg (Some b) st Hv), Hs. unfold replace_all_content, expr_tag.
    replace (pre ++ b_hash :: b_lbrace :: render_all b_dollar l ++ b_rbrace :: post)
      with ((pre ++ [b_hash; b_lbrace]) ++ render_all b_dollar l ++ b_rbrace :: post)
      by (rewrite <- app_assoc; reflexivity).
    replace b with (ph_count_all l + (b - ph_count_all l))%nat by lia.
    rewrite (denotational_ctx b_dollar eq_refl eq_refl (resolve fx cfg) l (pre ++ [b_hash; b_lbrace]) (b_rbrace :: post)
               _ Exhausted); [|apply no_rbrace_app; split; [exact Hp|reflexivity]|exact Hw|exact Hc].
    rewrite Hu.
    replace ((pre ++ [b_hash; b_lbrace]) ++ u ++ b_rbrace :: post) with (expr_tag_subst pre post u)
      by (unfold expr_tag_subst; rewrite <- app_assoc; reflexivity).
    rewrite (rac_no_match _ _ _ _ _ Hn). reflexivity.
  Qed.

  Lemma expr_on_subst_tag : forall b st pre post u,
    ps_tagval st = expr_tag_subst pre post u -> no_rbrace pre = true -> brace_free u = true ->
    stage_expr (Some (S b)) eval st =
    match expr_fun eval u with
    | Ok r => of_outcome EExpr st (rac_loop b_hash (expr_fun eval) Exhausted b (pre ++ r ++ post))
    | Err => PErr EExpr
    | Panic => PErr EPanicked
    end.
  Proof.
    intros b st pre post u Hv Hp Hu. unfold stage_expr, replace_all_content. rewrite Hv.
    replace (expr_tag_subst pre post u) with (pre ++ mtext b_hash u ++ post)
      by (unfold expr_tag_subst, mtext; cbn [app]; rewrite <- app_assoc; reflexivity).
    rewrite (rac_step_at b_hash eq_refl eq_refl (expr_fun eval) Exhausted b pre u post Hp Hu).
    destruct (expr_fun eval u); reflexivity.
  Qed.

  Theorem expr_after_subst : forall facts b st pre post l u,
    staged facts = true ->
    ps_kind st = TValue -> ps_tagval st = ps_tagstr st -> ps_tagstr st = expr_tag pre post l ->
    no_rbrace pre = true -> forallb wf l = true -> forallb (clean (resolve fx cfg)) l = true ->
    (ph_count_all l <= S b)%nat ->
    subst_all (resolve fx cfg) l = Ok u ->
    find_first b_dollar (expr_tag_subst pre post u) = None ->
    run_pipeline fx cfg (Some (S b)) eval decode verdict facts st =
    match eval u with
    | Ok v =>
      match format_any v with
      | Ok fv =>
        pbind (of_outcome EExpr (with_tagval st (expr_tag_subst pre post u))
                 (rac_loop b_hash (expr_fun eval) Exhausted b (pre ++ fv ++ post)))
              (fun s2 => pbind (stage_bindvalue decode s2) (stage_validate verdict))
      | Err => PErr EExpr
      | Panic => PErr EPanicked
      end
    | Err => PErr EExpr
    | Panic => PErr EPanicked
    end.
  Proof.
    intros facts b st pre post l u Hst Hk Hv Hs Hp Hw Hc Hb Hu Hn.
    rewrite (staged_pipeline fx cfg (Some (S b)) eval decode verdict facts st Hst). unfold spec_run.
    rewrite (quote_on_expr_tag (S b) st pre post l u Hv Hs Hp Hw Hc Hb Hu Hn). cbn [pbind].
    assert (Hbf : brace_free u = true) by (eapply subst_all_brace_free; eauto).
    rewrite (expr_on_subst_tag b (with_tagval st (expr_tag_subst pre post u)) pre post u eq_refl Hp Hbf).
    unfold expr_fun at 1. destruct (eval u) as [v| |]; cbn [rbind pbind]; [|reflexivity|reflexivity].
    destruct (format_any v) as [fv| |]; cbn [pbind]; [|reflexivity|reflexivity].
    destruct (of_outcome EExpr _ _) as [s2|e] eqn:E; cbn [pbind]; [|reflexivity].
    destruct (of_outcome_kind _ _ _ _ E) as (K & _). cbn [with_tagval ps_kind] in K. rewrite K, Hk. reflexivity.
  Qed.

  (* the common case: the whole tag is one expression and its result is final *)
  Corollary expr_result_bound : forall facts b st l u v fv pv f,
    staged facts = true ->
    ps_kind st = TValue -> ps_tagval st = ps_tagstr st -> ps_tagstr st = expr_tag [] [] l ->
    forallb wf l = true -> forallb (clean (resolve fx cfg)) l = true -> (ph_count_all l <= S b)%nat ->
    subst_all (resolve fx cfg) l = Ok u -> find_first b_dollar (expr_tag_subst [] [] u) = None ->
    eval u = Ok v -> format_any v = Ok fv -> find_first b_hash fv = None -> fv <> [] ->
    parse_any fv = Ok pv -> decode pv = Ok f ->
    run_pipeline fx cfg (Some (S b)) eval decode verdict facts st =
    stage_validate verdict (with_field (with_tagval st fv) f).
  Proof.
    intros facts b st l u v fv pv f Hst Hk Hv Hs Hw Hc Hb Hu Hn He Hf Hh Hne Hpa Hd.
    rewrite (expr_after_subst facts b st [] [] l u Hst Hk Hv Hs eq_refl Hw Hc Hb Hu Hn), He, Hf.
    cbn [app]. rewrite app_nil_r, (rac_no_match _ _ _ _ _ Hh). cbn [of_outcome pbind].
    unfold stage_bindvalue. cbn [with_tagval ps_kind ps_tagval]. rewrite Hk.
    destruct fv as [|c fv']; [congruence|]. rewrite Hpa, Hd. cbn [pbind]. reflexivity.
  Qed.
End ExprAfterSubst.

(* ---- components with several properties -------------------------------------------------- *)

Section Comp.
  Variable fx : bool.
  Variable cfg : bytes -> cval.
  Variable budget : option nat.

  (* a component with one property is the one-property pipeline *)
  Lemma run_component_single : forall order p,
    run_component fx cfg budget order [p] =
    match run_stages fx cfg budget (cp_eval p) (cp_decode p) (cp_verdict p) order (cp_state p) with
    | POk st => COk [cp_with p st]
    | PErr e => CErr e
    end.
  Proof.
    induction order as [|id rest IH]; intros p.
    - destruct p; reflexivity.
    - cbn [run_component run_stages stage_all]. unfold cp_stage.
      destruct (stage_fun fx cfg budget (cp_eval p) (cp_decode p) (cp_verdict p) id (cp_state p)) as [st|e];
        [|reflexivity].
      rewrite (IH (cp_with p st)). reflexivity.
  Qed.

  Lemma cp_with_self : forall p, cp_with p (cp_state p) = p.
  Proof. intros [e d v s]. reflexivity. Qed.

  Lemma cp_stage_validate : forall p,
    cp_stage fx cfg budget id_validate p =
    if cp_violates p then PErr EValidate else POk (cp_state p).
  Proof.
    intros p. unfold cp_stage, cp_violates, id_validate. cbn [stage_fun]. unfold stage_validate.
    destruct (ps_kind (cp_state p)); try reflexivity;
      destruct (ps_validate (cp_state p)); cbn [andb negb]; try reflexivity;
      destruct (cp_verdict p (ps_field (cp_state p))); reflexivity.
  Qed.

  (* the validate processor rejects the component exactly when SOME property violates its
     constraints - wherever it stands among the properties - and leaves everything as it is
     otherwise *)
  Lemma stage_all_validate : forall ps,
    stage_all fx cfg budget id_validate ps =
    if existsb cp_violates ps then CErr EValidate else COk ps.
  Proof.
    induction ps as [|p r IH]; [reflexivity|].
    cbn [stage_all existsb]. rewrite cp_stage_validate.
    destruct (cp_violates p); cbn [orb]; [reflexivity|].
    rewrite IH. destruct (existsb cp_violates r); [reflexivity|].
    rewrite cp_with_self. reflexivity.
  Qed.
End Comp.

(* ---- the processors active when an eager post-processor component is created ------------- *)

Lemma before_b_in_before_id : forall a k l, before_b a k l = true -> In a (before_id k l).
Proof.
  intros a k. induction l as [|x r IH]; intros H.
  - discriminate.
  - unfold before_b in H. cbn [index_of] in H. cbn [before_id].
    destruct (Nat.eqb x k) eqn:Ek.
    + destruct (Nat.eqb x a); [discriminate|].
      destruct (index_of a r); cbn [option_map] in H; discriminate.
    + destruct (Nat.eqb x a) eqn:Ea.
      * apply Nat.eqb_eq in Ea. left. exact Ea.
      * right. apply IH. unfold before_b.
        destruct (index_of a r) as [i|]; cbn [option_map] in H; [|discriminate].
        destruct (index_of k r) as [j|]; cbn [option_map] in H; [|discriminate].
        exact H.
  Qed.

(* a processor whose class / Order() is strictly below the holder's is active when the holder is
   created: in particular every Priority / Ordered processor for an unordered holder *)
Lemma active_when_lt : forall a facts, a <> id_holder ->
  count_pid a facts = 1%nat -> count_pid id_holder facts = 1%nat -> lt_ids a id_holder facts = true ->
  In a (active_order facts).
Proof.
  intros a facts Hne Ca Ch Hlt. unfold active_order, stage_order.
  apply before_b_in_before_id. apply lt_ids_before; assumption.
Qed.

Lemma before_id_notin : forall k l, ~ In k l -> before_id k l = l.
Proof.
  intros k. induction l as [|x r IH]; intros H; [reflexivity|].
  cbn [before_id]. destruct (Nat.eqb x k) eqn:E.
  - apply Nat.eqb_eq in E. exfalso. apply H. left. exact E.
  - f_equal. apply IH. intros Hin. apply H. right. exact Hin.
Qed.
