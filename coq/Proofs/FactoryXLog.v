(* The event log of a start under the EXTENDED semantics (Model/FactoryX.v), as in Proofs/FactoryLog.v:
   whatever doGetComponent does — re-entrant lookups from Init and short-circuited creations included — it only
   prepends events to the log, none of them a runner event, and on success every callback it invoked was a clean
   one (not a faulty callback of the scenario).  Lifted to a whole start: a successful start invoked exactly the
   sorted runners, each once, after everything else; a failed one invoked no runner, or failed in the most
   recently invoked runner (C09, C13). *)
From Coq Require Import List Arith Bool Lia.
From IocVerif Require Import Model.Registry Model.Resolve Model.Factory Model.App Model.FactoryTrace Model.FactoryX
  Proofs.FactoryBasics Proofs.FactoryLog Proofs.FactoryTraceProofs Proofs.FactoryXInv.
Import ListNotations.

Section LogRecX.
  Variable vt : variant.
  Variable s : scenario.
  Variable x : extras.
  Variable rect : fstate -> name -> tres (fstate * ver).
  Hypothesis Hrec : forall st d, geff2 s st (erase rect st d).

  Lemma populate_t_geff st n c : geff1 s st (snd (populate_t vt s rect st n c)).
  Proof.
    rewrite (populate_erase vt s rect (erase rect) (fun _ _ => eq_refl)). apply populate_geff. exact Hrec.
  Qed.

  Lemma init_gets_geff n : forall ds j st, geff1 s st (snd (init_gets_t rect n j ds st)).
  Proof.
    induction ds as [|d r IH]; intros j st; cbn [init_gets_t]; [apply grows_refl|].
    pose proof (Hrec st d) as H1. unfold erase in H1.
    destruct (rect st d) as [o1 [[st1 v]|k st1]]; cbn [snd geff2] in H1; [|exact H1].
    pose proof (IH (S j) (write_plain st1 n (100 + j) [v])) as H2.
    destruct (init_gets_t rect n (S j) r (write_plain st1 n (100 + j) [v])) as [o2 r2]. cbn [snd] in *.
    eapply geff1_after; [|exact H2]. eapply grows_trans; [exact H1|]. apply grows_same; reflexivity.
  Qed.

  Lemma initialize_xt_geff st n c :
    get_comp (s_pop s) n = Some c -> geff2 s st (snd (initialize_xt s x rect st n c)).
  Proof.
    intros Hc. unfold initialize_xt.
    pose proof (before_chain_eff s n c (active st) st st (only_log_refl _ st)) as Hb.
    destruct (before_chain s n c (active st) st) as [st1|k1 st1]; cbn [eff1] in Hb.
    2:{ cbn [snd geff2]. apply grows_of_only_log. eapply only_log_weaken; [|exact Hb].
        intros e He. apply (Ql_nonrun n). apply Qb_Ql. exact He. }
    assert (Hb' : grows (FactoryLog.good s) st st1).
    { apply grows_of_only_log. eapply only_log_weaken; [|exact Hb]. intros e [H1 H2].
      split; [apply (Ql_nonrun n); apply Qb_Ql; exact H1|exact H2]. }
    unfold init_methods_xt.
    pose proof (init_methods_eff s n c st1 st1 Hc (only_log_refl _ st1)) as Hi.
    destruct (init_methods n c st1) as [st2|k2 st2]; cbn [eff1] in Hi.
    2:{ cbn [snd geff2]. eapply grows_trans; [eapply grows_weaken; [apply good_nonrun|exact Hb']|].
        apply grows_of_only_log. eapply only_log_weaken; [|exact Hi]. intros e He. apply (Ql_nonrun n). apply Qi_Ql. exact He. }
    assert (Hi' : grows (FactoryLog.good s) st st2).
    { eapply grows_trans; [exact Hb'|]. apply grows_of_only_log. eapply only_log_weaken; [|exact Hi].
      intros e [H1 H2]. split; [apply (Ql_nonrun n); apply Qi_Ql; exact H1|exact H2]. }
    assert (Htail : forall st3, grows (FactoryLog.good s) st st3 -> geff2 s st (after_chain s n (active st3) st3 None)).
    { intros st3 H3.
      pose proof (after_chain_eff s n (active st3) st3 st3 None (only_log_refl _ st3)) as Ha.
      destruct (after_chain s n (active st3) st3 None) as [[st4 w]|k4 st4]; cbn [eff2 geff2] in *.
      - eapply grows_trans; [exact H3|]. apply grows_of_only_log. eapply only_log_weaken; [|exact Ha].
        intros e [H1 H2]. split; [apply (Ql_nonrun n); apply Qa_Ql; exact H1|exact H2].
      - eapply grows_trans; [eapply grows_weaken; [apply good_nonrun|exact H3]|].
        apply grows_of_only_log. eapply only_log_weaken; [|exact Ha]. intros e He. apply (Ql_nonrun n). apply Qa_Ql. exact He. }
    destruct (c_init c) as [ci|].
    - pose proof (init_gets_geff n (initget_of x n) 0 st2) as Hg.
      destruct (init_gets_t rect n 0 (initget_of x n) st2) as [o3 [st3|k3 st3]]; cbn [snd geff1] in Hg.
      + cbn [snd]. apply Htail. eapply grows_trans; eauto.
      + cbn [snd geff2]. eapply grows_trans; [eapply grows_weaken; [apply good_nonrun|exact Hi']|exact Hg].
    - cbn [snd]. apply Htail. exact Hi'.
  Qed.

  Lemma body_xt_geff st n : geff2 s st (erase (body_xt vt s x rect) st n).
  Proof.
    unfold erase, body_xt, body_with, get_singleton_t, get_singleton.
    destruct (get_lookup (reg st) n true) as [hv|f|].
    - apply grows_refl.
    - pose proof (geff2_of_eff2 s n st _ (early_reference_eff s st n)) as H.
      destruct (early_reference s st n) as [[st1 v]|k st1]; cbn [snd geff2] in *; [|exact H].
      eapply grows_trans; [exact H|]. apply grows_same; reflexivity.
    - unfold begin_create. destruct (alookup n (L1 (reg st))); [apply grows_refl|].
      unfold create_xt. cbn [scanned set_reg].
      destruct (scanned st); [|cbn [snd geff2]; apply grows_same; reflexivity].
      destruct (get_comp (s_pop s) n) as [c|] eqn:Ec; [|cbn [snd geff2]; apply grows_same; reflexivity].
      destruct (shorted x _ n).
      + cbn [active set_reg].
        match goal with |- context [after_chain s n (active st) ?y None] => set (st0 := y) end.
        assert (H0 : grows (FactoryLog.good s) st st0) by (apply grows_same; reflexivity).
        pose proof (after_chain_eff s n (active st) st0 st0 None (only_log_refl _ st0)) as Ha.
        destruct (after_chain s n (active st) st0 None) as [[st2 w]|k2 st2]; cbn [eff2] in Ha.
        * cbn [snd geff2]. eapply grows_trans; [exact H0|]. apply (grows_trans _ st0 st2); [|apply grows_same; reflexivity].
          apply grows_of_only_log. eapply only_log_weaken; [|exact Ha].
          intros e [H1 H2]. split; [apply (Ql_nonrun n); apply Qa_Ql; exact H1|exact H2].
        * assert (Hg : grows nonrun st st2).
          { eapply grows_trans; [eapply grows_weaken; [apply good_nonrun|exact H0]|].
            apply grows_of_only_log. eapply only_log_weaken; [|exact Ha]. intros e He. apply (Ql_nonrun n). apply Qa_Ql. exact He. }
          destruct k2 as [e| |]; cbn [snd geff2]; try exact Hg.
          eapply grows_trans; [exact Hg|]. apply grows_same; reflexivity.
      + unfold do_create_xt. cbn [reg set_reg].
        match goal with |- context [populate_t vt s rect ?y n c] => set (st0 := y) end.
        assert (H0 : grows (FactoryLog.good s) st st0) by (apply grows_same; reflexivity).
        pose proof (populate_t_geff st0 n c) as Hp.
        destruct (populate_t vt s rect st0 n c) as [o1 [st1|k1 st1]]; cbn [snd geff1] in Hp.
        2:{ assert (Hg : grows nonrun st st1).
            { eapply grows_trans; [eapply grows_weaken; [apply good_nonrun|exact H0]|exact Hp]. }
            destruct k1 as [e| |]; cbn [snd geff2]; try exact Hg.
            eapply grows_trans; [exact Hg|]. apply grows_same; reflexivity. }
        pose proof (initialize_xt_geff st1 n c Ec) as Hi.
        destruct (initialize_xt s x rect st1 n c) as [oi [[st2 w]|k2 st2]]; cbn [snd geff2] in Hi.
        2:{ assert (Hg : grows nonrun st st2).
            { eapply grows_trans; [eapply grows_weaken; [apply good_nonrun|eapply grows_trans; eauto]|exact Hi]. }
            destruct k2 as [e| |]; cbn [snd geff2]; try exact Hg.
            eapply grows_trans; [exact Hg|]. apply grows_same; reflexivity. }
        assert (H2 : grows (FactoryLog.good s) st st2) by (eapply grows_trans; [eapply grows_trans; eauto|exact Hi]).
        assert (H2n : grows nonrun st st2) by (eapply grows_weaken; [apply good_nonrun|exact H2]).
        unfold get_singleton_t, get_singleton. rewrite (FactoryBasics_get_lookup_false (reg st2) n).
        destruct (match alookup n (L1 (reg st2)) with Some v => Some v | None => alookup n (L2 (reg st2)) end) as [e|].
        * destruct w as [wv|].
          -- destruct (stale_dependents vt st2 n _); cbn [snd geff2].
             ++ eapply grows_trans; [exact H2|]. apply grows_same; reflexivity.
             ++ eapply grows_trans; [exact H2n|]. apply grows_same; reflexivity.
          -- cbn [snd geff2]. eapply grows_trans; [exact H2|]. apply grows_same; reflexivity.
        * cbn [snd geff2]. eapply grows_trans; [exact H2|]. apply grows_same; reflexivity.
  Qed.
End LogRecX.

Theorem do_get_xt_geff vt s x : forall fuel st n, geff2 s st (snd (do_get_xt vt s x fuel st n)).
Proof.
  induction fuel as [|f IH]; intros st n; cbn [do_get_xt]; [apply grows_refl|].
  apply (body_xt_geff vt s x (do_get_xt vt s x f)). exact IH.
Qed.

(* ---------- a whole start --------------------------------------------------------------------------------- *)

Lemma prepare_loop_xt_leff vt s x ps : forall st, leff1 s st (snd (prepare_loop_xt vt s x ps st)).
Proof.
  induction ps as [|p r IH]; intros st; cbn [prepare_loop_xt]; [apply lext_refl|].
  destruct (is_lazy (s_pop s) p).
  - eapply leff1_after; [|apply IH]. apply lext_same. reflexivity.
  - pose proof (do_get_xt_geff vt s x (fuel_of s) st p) as H.
    destruct (do_get_xt vt s x (fuel_of s) st p) as [o1 [[st1 v]|k st1]]; cbn [snd geff2] in H.
    + pose proof (IH (set_active st1 (active st1 ++ [p]))) as H2.
      destruct (prepare_loop_xt vt s x r (set_active st1 (active st1 ++ [p]))) as [o2 r2]. cbn [snd] in *.
      eapply leff1_after; [|exact H2]. eapply lext_trans; [apply lext_of_grows; exact H|]. apply lext_same. reflexivity.
    + cbn [snd leff1]. apply lext_of_grows. exact H.
Qed.

Lemma get_each_xt_leff vt s x ns : forall st, leff1 s st (snd (get_each_xt vt s x ns st)).
Proof.
  induction ns as [|n r IH]; intros st; cbn [get_each_xt]; [apply lext_refl|].
  pose proof (do_get_xt_geff vt s x (fuel_of s) st n) as H.
  destruct (do_get_xt vt s x (fuel_of s) st n) as [o1 [[st1 v]|k st1]]; cbn [snd geff2] in H.
  - pose proof (IH st1) as H2. destruct (get_each_xt vt s x r st1) as [o2 r2]. cbn [snd] in *.
    eapply leff1_after; [apply lext_of_grows; exact H|exact H2].
  - cbn [snd leff1]. apply lext_of_grows. exact H.
Qed.

Theorem run_core_xt_log_ok vt s x o st :
  run_core_xt vt s x = (o, Ok st) ->
  s_loader_fail s = false /\
  exists st2, log st = rev (map EvRun (runner_order s st2)) ++ log st2
              /\ Forall (FactoryLog.good s) (log st2)
              /\ (forall n, In n (runner_order s st2) -> runner_fails s n = false).
Proof.
  unfold run_core_xt. destruct (s_loader_fail s); [discriminate|]. intros H. split; [reflexivity|].
  pose proof (prepare_loop_xt_leff vt s x (sorted_procs s) (set_scanned finit)) as H1.
  destruct (prepare_loop_xt vt s x (sorted_procs s) (set_scanned finit)) as [o1 [st1|k st1]]; [|discriminate].
  pose proof (get_each_xt_leff vt s x (eager_names s) st1) as H2.
  destruct (get_each_xt vt s x (eager_names s) st1) as [o2 [st2|k st2]]; [|discriminate].
  cbn [snd leff1] in H1, H2. exists st2.
  assert (Hg : Forall (FactoryLog.good s) (log st2)).
  { destruct (lext_trans _ _ _ _ H1 H2) as [l [Hl Hq]]. cbn [log set_scanned finit] in Hl.
    rewrite app_nil_r in Hl. rewrite Hl. exact Hq. }
  injection H as _ H. unfold call_runners in H. unfold runner_order. destruct (s_app s) as [[[a rp] cp]|].
  - destruct (run_each_ok s _ _ _ H) as [Hl Hn]. split; [exact Hl|]. split; [exact Hg|exact Hn].
  - inversion H; subst. split; [reflexivity|]. split; [exact Hg|intros n []].
Qed.

Theorem run_core_xt_log_fail vt s x o k st :
  run_core_xt vt s x = (o, Fail k st) ->
  Forall nonrun (log st) \/
  (exists st2 pre n post, runner_order s st2 = pre ++ n :: post /\ runner_fails s n = true
      /\ (forall m, In m pre -> runner_fails s m = false)
      /\ log st = EvRun n :: rev (map EvRun pre) ++ log st2 /\ Forall nonrun (log st2)).
Proof.
  unfold run_core_xt. destruct (s_loader_fail s).
  - intros H; inversion H; subst. left. constructor.
  - pose proof (prepare_loop_xt_leff vt s x (sorted_procs s) (set_scanned finit)) as H1.
    destruct (prepare_loop_xt vt s x (sorted_procs s) (set_scanned finit)) as [o1 [st1|k1 st1]]; cbn [snd leff1] in H1.
    2:{ intros H; inversion H; subst. left. destruct H1 as [l [Hl Hq]]. cbn [log set_scanned finit] in Hl.
        rewrite app_nil_r in Hl. rewrite Hl. exact Hq. }
    pose proof (get_each_xt_leff vt s x (eager_names s) st1) as H2.
    assert (H1n : lext nonrun (set_scanned finit) st1) by (eapply lext_weaken; [apply good_nonrun|exact H1]).
    destruct (get_each_xt vt s x (eager_names s) st1) as [o2 [st2|k2 st2]]; cbn [snd leff1] in H2.
    2:{ intros H; inversion H; subst. left. destruct (lext_trans _ _ _ _ H1n H2) as [l [Hl Hq]].
        cbn [log set_scanned finit] in Hl. rewrite app_nil_r in Hl. rewrite Hl. exact Hq. }
    assert (Hg : Forall nonrun (log st2)).
    { assert (H2n : lext nonrun st1 st2) by (eapply lext_weaken; [apply good_nonrun|exact H2]).
      destruct (lext_trans _ _ _ _ H1n H2n) as [l [Hl Hq]]. cbn [log set_scanned finit] in Hl.
      rewrite app_nil_r in Hl. rewrite Hl. exact Hq. }
    unfold call_runners. intros H. injection H as _ H. right. exists st2. unfold runner_order.
    destruct (s_app s) as [[[a rp] cp]|]; [|discriminate].
    destruct (run_each_fail s _ _ _ _ H) as [pre [n [post [E1 [E2 [E3 [E4 E5]]]]]]].
    exists pre, n, post. repeat split; assumption.
Qed.
