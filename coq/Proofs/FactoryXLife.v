(* The lifecycle invariant (C05: "each created component passes through its lifecycle exactly once per start, its
   points set before the before-callbacks, then AfterPropertiesSet, Init, the after-callbacks") for the EXTENDED
   semantics of a start (Model/FactoryX.v).

   Two things differ from Proofs/FactoryLifecycle.v:
   - a component whose instantiation a post-processor short-circuits has the after-callbacks only (`xblock`);
   - an Init method may call back into the factory, so other components are created and published in the middle of
     the lifecycle block of the caller: while a component is in creation its events are already in the log although
     it is not published.  The invariant along the recursion (`lifeS`) therefore exempts the names in creation, and
     needs the version invariant (creations are bracketed: Proofs/FactoryXInv.v) to know which names those are; at
     the top level nothing is in creation and `lifeS` is the strict statement.

   The pseudo-fields 100, 101, ... in which an Init method keeps what it looked up must not collide with the
   component's injection points, whose set-ness the before-callbacks observe: components have at most 100 points
   (`small_points`, the convention of Model/FactoryX.v and of the harness). *)
From Coq Require Import List Arith Bool Lia.
From IocVerif Require Import Model.Registry Model.Resolve Model.Factory Model.App Model.FactoryTrace Model.FactoryX
  Proofs.FactoryBasics Proofs.FactoryLog Proofs.FactoryInvariant Proofs.FactoryLifecycle
  Proofs.FactoryTraceProofs Proofs.FactoryXInv.
Import ListNotations.

Definition after_block (n : name) (us : list name) : list event := rev (map (fun p => EvAfter p n) us).

Definition xblock (x : extras) (n : name) (c : comp) (snap : list bool) (l : list event) : Prop :=
  full_block n c snap l \/ ((exists p, In (p, n) (x_short x)) /\ exists us, l = after_block n us).

Definition small_points (s : scenario) : Prop :=
  forall n c, get_comp (s_pop s) n = Some c -> length (c_points c) <= 100.

(* ---------- events of one component ----------------------------------------------------------------------- *)

Lemma about_excl n m e : about n e = true -> m <> n -> about m e = false.
Proof.
  intros H Hne. destruct e; cbn in *; try discriminate; apply Nat.eqb_eq in H; subst; apply Nat.eqb_neq; auto.
Qed.

Lemma befores_about n snap us : Forall (fun e => about n e = true) (rev (map (fun p => EvBefore p n snap) us)).
Proof.
  apply Forall_rev. apply Forall_forall. intros e He. apply in_map_iff in He. destruct He as [p [<- _]].
  cbn. apply Nat.eqb_refl.
Qed.

Lemma afters_about n us : Forall (fun e => about n e = true) (rev (map (fun p => EvAfter p n) us)).
Proof.
  apply Forall_rev. apply Forall_forall. intros e He. apply in_map_iff in He. destruct He as [p [<- _]].
  cbn. apply Nat.eqb_refl.
Qed.

Lemma inits_about n c : Forall (fun e => about n e = true) (init_events n c).
Proof.
  unfold init_events. apply Forall_app. split.
  - destruct (c_init c); constructor; try constructor. cbn. apply Nat.eqb_refl.
  - destruct (c_aps c); constructor; try constructor. cbn. apply Nat.eqb_refl.
Qed.

Lemma sub_other n m l : Forall (fun e => about n e = true) l -> m <> n -> sub m l = [].
Proof.
  intros H Hne. apply sub_none. eapply Forall_impl; [|exact H]. intros e He. exact (about_excl n m e He Hne).
Qed.

Lemma snapshot_low st st' n c :
  length (c_points c) <= 100 ->
  (forall k, k < 100 -> field_of st' n k = field_of st n k) -> snapshot st' n c = snapshot st n c.
Proof.
  intros Hl H. unfold snapshot. apply map_ext_in. intros k Hk. apply in_seq in Hk. rewrite H; [reflexivity|lia].
Qed.

Section LifeX.
  Variable vt : variant.
  Hypothesis Hfix : fix_c03 vt = true.
  Variable s : scenario.
  Variable x : extras.
  Hypothesis Hsmall : small_points s.
  Let pop := s_pop s.

  Definition lifeS (st : fstate) : Prop :=
    forall m c, get_comp pop m = Some c ->
      match alookup m (L1 (reg st)) with
      | None => In m (creating (reg st)) \/ sub m (log st) = []
      | Some _ => xblock x m c (snapshot st m c) (sub m (log st))
      end.

  (* lifeS survives anything that keeps the events and the fields of published names, the published set and the
     set of names in creation; the events of names in creation may change *)
  Lemma lifeS_frame a b :
    InvX a -> lifeS a ->
    (forall m, In m (creating (reg a)) \/ sub m (log b) = sub m (log a)) ->
    (forall m v, alookup m (L1 (reg a)) = Some v -> forall k, field_of b m k = field_of a m k) ->
    L1 (reg b) = L1 (reg a) -> creating (reg b) = creating (reg a) -> lifeS b.
  Proof.
    intros HI HL Hs Hf Hr Hc m c Hm. specialize (HL m c Hm). rewrite Hr, Hc.
    destruct (alookup m (L1 (reg a))) as [v|] eqn:E.
    - destruct (Hs m) as [Hin|Hsm].
      + rewrite (i_creating_unpub a HI m Hin) in E. discriminate.
      + rewrite Hsm, (snapshot_same_fields a b m c (Hf m v E)). exact HL.
    - destruct (Hs m) as [Hin|Hsm]; [left; exact Hin|]. rewrite Hsm. exact HL.
  Qed.

  Lemma lifeS_only_log n (Q : event -> Prop) a b :
    InvX a -> In n (creating (reg a)) -> only_log Q a b ->
    (forall e, Q e -> about n e = true) -> lifeS a -> lifeS b.
  Proof.
    intros HI Hin [Hr Hf _ _ _ _ [l [Hl Hq]]] HQ HL.
    eapply lifeS_frame; [exact HI|exact HL| | |rewrite Hr; reflexivity|rewrite Hr; reflexivity].
    - intros m. destruct (Nat.eq_dec m n) as [->|Hne]; [left; exact Hin|right].
      rewrite Hl, sub_app, (sub_other n m l); [reflexivity| |exact Hne].
      eapply Forall_impl; [|exact Hq]. exact HQ.
    - intros m v _ k. unfold field_of. rewrite Hf. reflexivity.
  Qed.

  Definition rec_lifeX (rec : fstate -> name -> res (fstate * ver)) : Prop :=
    forall st d st' v, rec st d = Ok (st', v) -> InvX st ->
      frame st st' /\ mono (reg st) (reg st') /\ active st' = active st /\ (lifeS st -> lifeS st').

  Variable rect : fstate -> name -> tres (fstate * ver).
  Let rec := erase rect.
  Hypothesis Hspec : rec_specG (P := injk) rec.
  Hypothesis Hrec : rec_lifeX rec.

  Lemma get_all_lifeX (C : name -> Prop) : forall cands a b vs,
    InvX a -> (forall m, C m -> cached (reg a) m = true) ->
    get_all rec a cands = Ok (b, vs) ->
    InvX b /\ creating (reg b) = creating (reg a) /\ Forall (current b) vs /\
    frameC C a b /\ mono (reg a) (reg b) /\ active b = active a /\ (lifeS a -> lifeS b).
  Proof.
    induction cands as [|[d|] r IH]; intros a b vs HI HC H; cbn [get_all] in H.
    - inversion H; subst. split; [exact HI|]. split; [reflexivity|]. split; [constructor|].
      split; [apply frameC_refl|]. split; [apply mono_refl|]. split; [reflexivity|auto].
    - destruct (rec a d) as [[a1 v]|k a1] eqn:E; [|discriminate].
      destruct (Hspec a d a1 v HI E) as [HI1 [Hc1 [Hk1 Hv1]]].
      destruct (Hrec a d a1 v E HI) as [Hf1 [Hm1 [Ha1 Hl1]]].
      destruct (get_all rec a1 r) as [[a2 vs']|k a2] eqn:E2; [|discriminate]. inversion H; subst.
      assert (HC1 : forall m, C m -> cached (reg a1) m = true) by (intros m Hm; apply Hm1, HC, Hm).
      destruct (IH a1 b vs' HI1 HC1 E2) as [HI2 [Hc2 [Hcur [Hf2 [Hm2 [Ha2 Hl2]]]]]].
      split; [exact HI2|]. split; [congruence|]. split.
      { constructor; [|exact Hcur]. unfold current. rewrite (cur_owner a1 d v HI1 Hv1).
        destruct (get_all_spec rec Hspec r a1 b vs' HI1 E2) as [_ [_ [Hk2 _]]]. apply Hk2. exact Hv1. }
      split; [|split; [eapply mono_trans; eauto|split; [congruence|auto]]].
      eapply frameC_trans; [|exact Hf2]. intros m Hm. apply Hf1. apply HC. exact Hm.
    - discriminate.
  Qed.

  Lemma inject_lifeX (C : name -> Prop) a h k p vs b :
    InvX a -> ~ C h -> alookup h (L1 (reg a)) = None ->
    inject vt s a h k p vs = Ok b ->
    frameC C a b /\ reg b = reg a /\ active b = active a /\ log b = log a /\ (lifeS a -> lifeS b).
  Proof.
    intros HI HnC HL1. unfold inject.
    assert (Hsame : frameC C a a /\ reg a = reg a /\ active a = active a /\ log a = log a /\ (lifeS a -> lifeS a))
      by (split; [apply frameC_refl|auto]).
    destruct vs as [|v0 r]; [destruct (pt_required p); [discriminate|intros H; inversion H; subst; exact Hsame]|].
    destruct (filter (fun v => negb (is_self h v)) (v0 :: r)) as [|w t];
      [destruct (pt_required p); [discriminate|intros H; inversion H; subst; exact Hsame]|].
    destruct (forallb _ _).
    - intros H; inversion H; subst. split; [|split; [reflexivity|split; [reflexivity|split; [reflexivity|]]]].
      + intros m Hm. split; [reflexivity|]. split; [|auto]. intros k'. rewrite field_of_write_other; [reflexivity|].
        intros ->. contradiction.
      + intros HL. eapply lifeS_frame; [exact HI|exact HL| | |reflexivity|reflexivity].
        * intros m. right. reflexivity.
        * intros m v Hv k'. apply field_of_write_other. intros ->. rewrite HL1 in Hv. discriminate.
    - destruct (fix_c07 vt); [|discriminate].
      destruct (pt_required p); [discriminate|intros H; inversion H; subst; exact Hsame].
  Qed.

  Lemma inject_points_lifeX (C : name -> Prop) h cr : forall ps k inj a b,
    InvX a -> creating (reg a) = h :: cr ->
    (forall m, C m -> cached (reg a) m = true) -> ~ C h ->
    inject_points vt s rec h k ps inj a = Ok b ->
    InvX b /\ creating (reg b) = h :: cr /\
    frameC C a b /\ mono (reg a) (reg b) /\ active b = active a /\ (lifeS a -> lifeS b)
    /\ sub h (log b) = sub h (log a).
  Proof.
    induction ps as [|p ps' IH]; intros k inj a b HI Hcr HC HnC H; cbn [inject_points] in H.
    - inversion H; subst. split; [exact HI|]. split; [exact Hcr|]. split; [apply frameC_refl|]. split; [apply mono_refl|]. auto.
    - destruct inj as [|i inj'].
      { inversion H; subst. split; [exact HI|]. split; [exact Hcr|]. split; [apply frameC_refl|]. split; [apply mono_refl|]. auto. }
      destruct i as [|c0 c1]; [apply (IH _ _ _ _ HI Hcr HC HnC H)|].
      destruct (get_all rec a (c0 :: c1)) as [[a1 vs]|k1 a1] eqn:E1; [|discriminate].
      assert (Hch : cached (reg a) h = true) by (apply (i_creating_cached a HI); rewrite Hcr; left; reflexivity).
      set (C' := fun m => C m \/ m = h).
      assert (HC' : forall m, C' m -> cached (reg a) m = true) by (intros m [Hm| ->]; [apply HC; exact Hm|exact Hch]).
      destruct (get_all_lifeX C' _ _ _ _ HI HC' E1) as [HI1 [Hc1 [Hcur [Hf1 [Hm1 [Ha1 Hl1]]]]]].
      destruct (Hf1 h (or_intror eq_refl)) as [Hs1 _].
      assert (Hcr1 : creating (reg a1) = h :: cr) by congruence.
      assert (HL1 : alookup h (L1 (reg a1)) = None) by (apply (i_creating_unpub a1 HI1); rewrite Hcr1; left; reflexivity).
      destruct (inject vt s a1 h k p vs) as [a2|k2 a2] eqn:E2; [|discriminate].
      destruct (inject_spec vt s a1 h k p vs a2 cr HI1 Hcr1 Hcur E2) as [HI2 Hr2].
      destruct (inject_lifeX C a1 h k p vs a2 HI1 HnC HL1 E2) as [Hf2 [_ [Ha2 [Hlog2 Hl2]]]].
      assert (Hcr2 : creating (reg a2) = h :: cr) by (rewrite Hr2; exact Hcr1).
      assert (HC2 : forall m, C m -> cached (reg a2) m = true) by (intros m Hm; rewrite Hr2; apply Hm1, HC, Hm).
      destruct (IH (S k) inj' a2 b HI2 Hcr2 HC2 HnC H) as [HI3 [Hcr3 [Hf3 [Hm3 [Ha3 [Hl3 Hs3]]]]]].
      split; [exact HI3|]. split; [exact Hcr3|]. split.
      { eapply frameC_trans; [|exact Hf3]. eapply frameC_trans; [|exact Hf2].
        intros m Hm. apply Hf1. left; exact Hm. }
      split; [eapply mono_trans; [exact Hm1|]; rewrite <- Hr2; exact Hm3|].
      split; [congruence|]. split; [auto|].
      rewrite Hs3, Hlog2. exact Hs1.
  Qed.

  Lemma populate_lifeX (C : name -> Prop) a n c cr o b :
    InvX a -> creating (reg a) = n :: cr ->
    (forall m, C m -> cached (reg a) m = true) -> ~ C n ->
    populate_t vt s rect a n c = (o, Ok b) ->
    InvX b /\ creating (reg b) = n :: cr /\
    frameC C a b /\ mono (reg a) (reg b) /\ active b = active a /\ (lifeS a -> lifeS b)
    /\ sub n (log b) = sub n (log a).
  Proof.
    intros HI Hcr HC HnC H0.
    assert (H : populate vt s rec a n c = Ok b).
    { unfold rec. rewrite <- (populate_erase vt s rect (erase rect) (fun _ _ => eq_refl)). rewrite H0. reflexivity. }
    clear H0. revert H. unfold populate.
    destruct (pipeline vt s n c (active a) a (cur_injs a n c)) as [[a1 inj]|k a1] eqn:E; [|discriminate].
    pose proof (pipeline_state _ _ _ _ _ _ _ _ _ E) as ->. intros H.
    assert (HI' : InvX (set_injs a n inj)) by (eapply Inv_same_core; [|exact HI]; repeat split).
    destruct (inject_points_lifeX C n cr (c_points c) 0 inj (set_injs a n inj) b HI' Hcr HC HnC H)
      as [HI3 [Hcr3 [Hf [Hm [Ha [Hl Hs]]]]]].
    split; [exact HI3|]. split; [exact Hcr3|]. split; [exact Hf|]. split; [exact Hm|]. split; [exact Ha|].
    split; [|exact Hs].
    intros HL. apply Hl. eapply lifeS_frame; [exact HI|exact HL| | |reflexivity|reflexivity].
    - intros m. right. reflexivity.
    - intros m v _ k. reflexivity.
  Qed.

  (* the lookups an Init method issues: other components are created, the caller's own events, fields below 100
     and registration stay as they are *)
  Lemma init_gets_lifeX (C : name -> Prop) n cr : forall ds j a o b,
    InvX a -> creating (reg a) = n :: cr ->
    (forall m, C m -> cached (reg a) m = true) -> ~ C n ->
    init_gets_t rect n j ds a = (o, Ok b) ->
    InvX b /\ creating (reg b) = n :: cr /\
    frameC C a b /\ mono (reg a) (reg b) /\ active b = active a /\ (lifeS a -> lifeS b)
    /\ sub n (log b) = sub n (log a) /\ (forall k, k < 100 -> field_of b n k = field_of a n k).
  Proof.
    induction ds as [|d r IH]; intros j a o b HI Hcr HC HnC H; cbn [init_gets_t] in H.
    - inversion H; subst. split; [exact HI|]. split; [exact Hcr|]. split; [apply frameC_refl|]. split; [apply mono_refl|]. auto.
    - destruct (rect a d) as [o1 [[a1 v]|k a1]] eqn:E; [|discriminate].
      assert (E' : rec a d = Ok (a1, v)) by (unfold rec, erase; rewrite E; reflexivity).
      destruct (Hspec a d a1 v HI E') as [HI1 [Hc1 [Hk1 Hv1]]].
      destruct (Hrec a d a1 v E' HI) as [Hf1 [Hm1 [Ha1 Hl1]]].
      assert (Hch : cached (reg a) n = true) by (apply (i_creating_cached a HI); rewrite Hcr; left; reflexivity).
      destruct (Hf1 n Hch) as [Hs1 [Hfl1 _]].
      assert (Hcr1 : creating (reg a1) = n :: cr) by congruence.
      assert (HL1 : alookup n (L1 (reg a1)) = None) by (apply (i_creating_unpub a1 HI1); rewrite Hcr1; left; reflexivity).
      set (a2 := write_plain a1 n (100 + j) [v]) in *.
      destruct (init_gets_t rect n (S j) r a2) as [o2 r2] eqn:E2. inversion H; subst o r2. clear H.
      assert (HI2 : InvX a2) by (apply InvX_write_plain; exact HI1).
      assert (HC2 : forall m, C m -> cached (reg a2) m = true) by (intros m Hm; apply Hm1, HC, Hm).
      destruct (IH (S j) a2 o2 b HI2 Hcr1 HC2 HnC E2) as [HI3 [Hcr3 [Hf3 [Hm3 [Ha3 [Hl3 [Hs3 Hfl3]]]]]]].
      assert (Hf12 : frameC C a1 a2).
      { intros m Hm. split; [reflexivity|]. split; [|auto]. intros k'. unfold a2. rewrite field_of_write_plain.
        destruct (key_eqb (n, 100 + j) (m, k')) eqn:Ek; [|reflexivity].
        apply key_eqb_true in Ek. inversion Ek; subst. contradiction. }
      split; [exact HI3|]. split; [exact Hcr3|]. split.
      { eapply frameC_trans; [|exact Hf3]. eapply frameC_trans; [|exact Hf12]. intros m Hm. apply Hf1. apply HC. exact Hm. }
      split; [eapply mono_trans; [exact Hm1|exact Hm3]|]. split; [rewrite Ha3; unfold a2; cbn [active write_plain]; exact Ha1|]. split.
      { intros HL. apply Hl3. eapply lifeS_frame; [exact HI1|apply Hl1; exact HL| | |reflexivity|reflexivity].
        - intros m. right. reflexivity.
        - intros m w Hw k'. unfold a2. rewrite field_of_write_plain.
          destruct (key_eqb (n, 100 + j) (m, k')) eqn:Ek; [|reflexivity].
          apply key_eqb_true in Ek. inversion Ek; subst. rewrite HL1 in Hw. discriminate. }
      split; [rewrite Hs3; exact Hs1|].
      intros k' Hk'. rewrite (Hfl3 k' Hk'). unfold a2. rewrite field_of_write_plain.
      destruct (key_eqb (n, 100 + j) (n, k')) eqn:Ek; [apply key_eqb_true in Ek; inversion Ek; lia|]. apply Hfl1.
  Qed.

  Lemma only_log_core (Q : event -> Prop) a b : only_log Q a b -> same_core a b.
  Proof. intros [H1 H2 H3 _ _ _ _]. repeat split; assumption. Qed.

  Lemma Qb_about n e : Qb n e -> about n e = true.
  Proof. destruct e; cbn; try contradiction. intros ->. apply Nat.eqb_refl. Qed.
  Lemma Qa_about n e : Qa n e -> about n e = true.
  Proof. destruct e; cbn; try contradiction. intros ->. apply Nat.eqb_refl. Qed.
  Lemma Qi_about n e : Qi n e -> about n e = true.
  Proof. destruct e; cbn; try contradiction; intros ->; apply Nat.eqb_refl. Qed.

  Lemma frameC_about (C : name -> Prop) n (Q : event -> Prop) a b :
    ~ C n -> only_log Q a b -> (forall e, Q e -> about n e = true) -> frameC C a b.
  Proof.
    intros HnC Hol HQ. eapply frameC_only_log; [exact Hol|]. intros m e Hm He.
    apply (about_excl n m e (HQ e He)). intros ->. contradiction.
  Qed.

  Lemma initialize_xt_lifeX (C : name -> Prop) st1 n c cr o st2 w :
    get_comp pop n = Some c ->
    InvX st1 -> creating (reg st1) = n :: cr ->
    (forall m, C m -> cached (reg st1) m = true) -> ~ C n ->
    initialize_xt s x rect st1 n c = (o, Ok (st2, w)) ->
    frameC C st1 st2 /\ mono (reg st1) (reg st2) /\ active st2 = active st1 /\ (lifeS st1 -> lifeS st2) /\
    sub n (log st2) = block n c (users pop (active st1)) (snapshot st1 n c) ++ sub n (log st1) /\
    (forall k, k < 100 -> field_of st2 n k = field_of st1 n k).
  Proof.
    intros Hc HI Hcr HC HnC. unfold initialize_xt.
    (* the before-callbacks *)
    pose proof (before_chain_eff s n c (active st1) st1 st1 (only_log_refl _ st1)) as Hb.
    destruct (before_chain s n c (active st1) st1) as [sa|k sa] eqn:E1; [|discriminate]. cbn [eff1] in Hb.
    destruct (before_chain_shape _ _ _ _ _ _ E1) as [Hla _].
    apply only_log_fst in Hb.
    assert (HIa : InvX sa) by (eapply Inv_same_core; [apply (only_log_core _ _ _ Hb)|exact HI]).
    assert (Hra : reg sa = reg st1) by (destruct Hb; assumption).
    assert (Hcra : creating (reg sa) = n :: cr) by (rewrite Hra; exact Hcr).
    (* AfterPropertiesSet, Init *)
    unfold init_methods_xt.
    pose proof (init_methods_eff s n c sa sa Hc (only_log_refl _ sa)) as Hi.
    destruct (init_methods n c sa) as [sb|k sb] eqn:E2; [|discriminate]. cbn [eff1] in Hi.
    destruct (init_methods_shape _ _ _ _ E2) as [Hlb _].
    apply only_log_fst in Hi.
    assert (HIb : InvX sb) by (eapply Inv_same_core; [apply (only_log_core _ _ _ Hi)|exact HIa]).
    assert (Hrb : reg sb = reg sa) by (destruct Hi; assumption).
    assert (Hcrb : creating (reg sb) = n :: cr) by (rewrite Hrb; exact Hcra).
    assert (HCb : forall m, C m -> cached (reg sb) m = true) by (intros m Hm; rewrite Hrb, Hra; apply HC; exact Hm).
    (* the lookups of Init *)
    assert (Hgets : forall o3 sc, (match c_init c with
                                   | Some _ => init_gets_t rect n 0 (initget_of x n) sb
                                   | None => ([], Ok sb) end) = (o3, Ok sc) ->
              InvX sc /\ creating (reg sc) = n :: cr /\
              frameC C sb sc /\ mono (reg sb) (reg sc) /\ active sc = active sb /\ (lifeS sb -> lifeS sc)
              /\ sub n (log sc) = sub n (log sb) /\ (forall k, k < 100 -> field_of sc n k = field_of sb n k)).
    { intros o3 sc H3. destruct (c_init c).
      - apply (init_gets_lifeX C n cr _ 0 sb o3 sc HIb Hcrb HCb HnC H3).
      - inversion H3; subst. split; [exact HIb|]. split; [exact Hcrb|]. split; [apply frameC_refl|].
        split; [apply mono_refl|]. auto. }
    destruct (match c_init c with
              | Some _ => init_gets_t rect n 0 (initget_of x n) sb
              | None => ([], Ok sb) end) as [o3 [sc|k sc]] eqn:E3; [|discriminate].
    destruct (Hgets o3 sc eq_refl) as [HIc [Hcrc [Hfc [Hmc [Hac [Hlc [Hsc Hflc]]]]]]].
    (* the after-callbacks *)
    intros H. injection H as _ H.
    pose proof (after_chain_eff s n (active sc) sc sc None (only_log_refl _ sc)) as Ha. rewrite H in Ha. cbn [eff2] in Ha.
    pose proof (after_chain_shape _ _ _ _ _ _ _ H) as Hld.
    apply only_log_fst in Ha.
    assert (Hrd : reg st2 = reg sc) by (destruct Ha; assumption).
    assert (Hact : active sc = active st1).
    { rewrite Hac. destruct Hi as [_ _ _ _ -> _ _]. destruct Hb as [_ _ _ _ -> _ _]. reflexivity. }
    assert (Hin1 : In n (creating (reg st1))) by (rewrite Hcr; left; reflexivity).
    assert (Hina : In n (creating (reg sa))) by (rewrite Hcra; left; reflexivity).
    assert (Hinc : In n (creating (reg sc))) by (rewrite Hcrc; left; reflexivity).
    split.
    { eapply frameC_trans; [apply (frameC_about C n _ st1 sa HnC Hb (Qb_about n))|].
      eapply frameC_trans; [apply (frameC_about C n _ sa sb HnC Hi (Qi_about n))|].
      eapply frameC_trans; [exact Hfc|]. apply (frameC_about C n _ sc st2 HnC Ha (Qa_about n)). }
    split.
    { intros m Hm. rewrite Hrd. apply Hmc. rewrite Hrb, Hra. exact Hm. }
    split.
    { destruct Ha as [_ _ _ _ -> _ _]. exact Hact. }
    split.
    { intros HL. apply (lifeS_only_log n _ sc st2 HIc Hinc Ha (Qa_about n)). apply Hlc.
      apply (lifeS_only_log n _ sa sb HIa Hina Hi (Qi_about n)).
      apply (lifeS_only_log n _ st1 sa HI Hin1 Hb (Qb_about n)). exact HL. }
    split.
    { rewrite Hld, sub_app, (sub_all n _ (afters_about n _)). rewrite Hsc.
      rewrite Hlb, sub_app, (sub_all n _ (inits_about n c)).
      rewrite Hla, sub_app, (sub_all n _ (befores_about n _ _)).
      unfold block, after_block. rewrite Hact. unfold pop. rewrite <- !app_assoc. reflexivity. }
    intros k Hk. transitivity (field_of sc n k).
    { unfold field_of. destruct Ha as [_ -> _ _ _ _ _]. reflexivity. }
    rewrite (Hflc k Hk). unfold field_of. destruct Hi as [_ -> _ _ _ _ _]. destruct Hb as [_ -> _ _ _ _ _]. reflexivity.
  Qed.

  Lemma shorted_listed st n : shorted x st n = true -> exists p, In (p, n) (x_short x).
  Proof.
    unfold shorted. intros H. apply existsb_exists in H. destruct H as [p [_ H]].
    apply existsb_exists in H. destruct H as [[a b] [Hin H]]. cbn [fst snd] in H.
    apply andb_true_iff in H. destruct H as [H1 H2]. apply Nat.eqb_eq in H1, H2. subst. exists p. exact Hin.
  Qed.

  (* entering a creation keeps lifeS: the name in creation becomes exempt *)
  Lemma lifeS_enter a b n :
    lifeS a -> L1 (reg b) = L1 (reg a) -> creating (reg b) = n :: creating (reg a) ->
    log b = log a -> flds b = flds a -> lifeS b.
  Proof.
    intros HL Hr Hc Hl Hf m c Hm. specialize (HL m c Hm). rewrite Hr, Hc, Hl.
    destruct (alookup m (L1 (reg a))).
    - rewrite (snapshot_same_fields a b m c); [exact HL|]. intros k. unfold field_of. rewrite Hf. reflexivity.
    - destruct HL as [HL|HL]; [left; right; exact HL|right; exact HL].
  Qed.

  (* publishing the innermost creation n whose events form a lifecycle block *)
  Lemma lifeS_publish a n c pv cr :
    get_comp pop n = Some c ->
    lifeS a -> creating (reg a) = n :: cr -> ~ In n cr ->
    xblock x n c (snapshot a n c) (sub n (log a)) ->
    lifeS (set_reg a (end_create_ok (reg a) n pv)).
  Proof.
    intros Hc HL Hcr Hnin Hb m cm Hm. cbn [reg set_reg log]. unfold end_create_ok, add_singleton. cbn [L1 creating].
    rewrite Hcr, (set_remove_head n cr Hnin).
    destruct (Nat.eq_dec m n) as [->|Hne].
    - rewrite alookup_aset_eq. assert (cm = c) by congruence. subst cm. exact Hb.
    - rewrite (alookup_aset_neq n m pv _ Hne). specialize (HL m cm Hm). rewrite Hcr in HL.
      destruct (alookup m (L1 (reg a))); [exact HL|].
      destruct HL as [[Heq|HL]|HL]; [congruence|left; exact HL|right; exact HL].
  Qed.

  Lemma body_xt_lifeX : rec_lifeX (erase (body_xt vt s x rect)).
  Proof.
    intros st n st' v H HI. unfold erase, body_xt, body_with, get_singleton_t in H. unfold get_singleton in H.
    destruct (get_lookup (reg st) n true) as [hv|f|] eqn:EL.
    - cbn [snd] in H. inversion H; subst. split; [intros m _; repeat split; auto|]. split; [apply mono_refl|]. auto.
    - (* early reference: only EvEarly events, the registry changes in L2/L3 only *)
      unfold early_reference in H.
      pose proof (early_chain_eff s n (active st) st st (VOrig n) (only_log_refl _ st)) as He.
      destruct (early_chain s n (active st) st (VOrig n)) as [[st1 ev]|k st1]; [|discriminate].
      cbn [eff2] in He. cbn [snd] in H. inversion H; subst st' v.
      assert (Hfr : frameC (fun _ => True) st st1).
      { eapply frameC_only_log; [exact He|]. intros m e _ [Hq _]. destruct e; cbn in Hq; try contradiction; reflexivity. }
      destruct He as [Hr Hf _ _ Hact _ _].
      split.
      { intros m _. destruct (Hfr m I) as [A1 [A2 A3]]. split; [exact A1|]. split; [exact A2|].
        cbn [reg set_reg get_promote L1]. exact A3. }
      split; [cbn [reg set_reg]; rewrite Hr; apply mono_get_promote|].
      split; [exact Hact|].
      intros HL. eapply lifeS_frame; [exact HI|exact HL| | | |].
      + intros m. right. apply (Hfr m I).
      + intros m w _ k. apply (Hfr m I).
      + cbn [reg set_reg get_promote L1]. rewrite Hr. reflexivity.
      + cbn [reg set_reg get_promote creating]. rewrite Hr. reflexivity.
    - pose proof (FactoryBasics.get_lookup_miss_uncached _ _ EL) as Hunc.
      assert (HL1 : alookup n (L1 (reg st)) = None).
      { unfold cached in Hunc. destruct (alookup n (L1 (reg st))); [discriminate|reflexivity]. }
      assert (Hnin : ~ In n (creating (reg st))).
      { intros Hin. rewrite (i_creating_cached st HI n Hin) in Hunc. discriminate. }
      destruct (Inv_push st n HI Hunc) as [Hadd HI0].
      unfold begin_create in H. rewrite HL1, Hadd in H. unfold create_xt in H. cbn [scanned set_reg] in H.
      destruct (scanned st); [|discriminate].
      destruct (get_comp (s_pop s) n) as [c|] eqn:Ec; [|discriminate].
      set (C := fun m => cached (reg st) m = true).
      assert (HnC : ~ C n) by (unfold C; rewrite Hunc; discriminate).
      assert (Hsn : lifeS st -> sub n (log st) = []).
      { intros HL. specialize (HL n c Ec). rewrite HL1 in HL. destruct HL as [HL|HL]; [contradiction|exact HL]. }
      destruct (shorted x _ n) eqn:Esh.
      + (* a post-processor short-circuits instantiation: after-callbacks only *)
        cbn [active set_reg] in H.
        set (st0 := set_reg st (mkR (L1 (reg st)) (L2 (reg st)) (L3 (reg st)) (n :: creating (reg st)))) in *.
        pose proof (after_chain_eff s n (active st) st0 st0 None (only_log_refl _ st0)) as Ha.
        destruct (after_chain s n (active st) st0 None) as [[st2 w]|k2 st2] eqn:EA; [|destruct k2; discriminate].
        cbn [eff2] in Ha. apply only_log_fst in Ha.
        pose proof (after_chain_shape _ _ _ _ _ _ _ EA) as Hld.
        cbn [snd app] in H. inversion H; subst st' v. clear H.
        set (pv := match w with Some v0 => v0 | None => VOrig n end).
        assert (Hfr : frameC C st0 st2) by (apply (frameC_about C n _ st0 st2 HnC Ha (Qa_about n))).
        destruct Ha as [Hr2 Hf2 _ _ Hact2 _ _].
        split.
        { intros m Hm. assert (Hne : m <> n) by (intros ->; apply HnC; exact Hm).
          destruct (Hfr m Hm) as [A1 [A2 A3]]. cbn [log set_reg]. split; [exact A1|]. split.
          - intros k. change (field_of (set_reg st2 (end_create_ok (reg st2) n pv)) m k) with (field_of st2 m k). apply A2.
          - intros Hn. cbn [reg set_reg]. unfold end_create_ok, add_singleton. cbn [L1].
            rewrite (alookup_aset_neq n m pv _ Hne). apply A3. exact Hn. }
        split.
        { cbn [reg set_reg]. eapply mono_trans; [|apply mono_end_create_ok]. rewrite Hr2.
          intros m Hm. unfold cached in *. exact Hm. }
        split; [exact Hact2|].
        intros HL.
        assert (HL0 : lifeS st0) by (apply (lifeS_enter st st0 n HL); reflexivity).
        assert (HI0s : forall m, In m (creating (reg st0)) -> alookup m (L1 (reg st0)) = None).
        { intros m [<-|Hm]; [exact HL1|apply (i_creating_unpub st HI m Hm)]. }
        assert (HL2 : lifeS st2).
        { intros m cm Hm. specialize (HL0 m cm Hm). rewrite Hr2.
          destruct (Nat.eq_dec m n) as [->|Hne].
          - change (alookup n (L1 (reg st0))) with (alookup n (L1 (reg st))). rewrite HL1. left. left; reflexivity.
          - rewrite Hld, sub_app, (sub_other n m _ (afters_about n _) Hne). cbn [app].
            destruct (alookup m (L1 (reg st0))); [|exact HL0].
            rewrite (snapshot_same_fields st0 st2 m cm); [exact HL0|]. intros k. unfold field_of. rewrite Hf2. reflexivity. }
        apply (lifeS_publish st2 n c pv (creating (reg st)) Ec HL2); [rewrite Hr2; reflexivity|exact Hnin|].
        right. split; [apply (shorted_listed _ n Esh)|]. exists (users (s_pop s) (active st)).
        rewrite Hld, sub_app, (sub_all n _ (afters_about n _)).
        change (log st0) with (log st). rewrite (Hsn HL), app_nil_r. reflexivity.
      + unfold do_create_xt in H. cbn [reg set_reg] in H.
        set (st0 := set_reg
                      (set_reg st (mkR (L1 (reg st)) (L2 (reg st)) (L3 (reg st)) (n :: creating (reg st))))
                      (add_factory (mkR (L1 (reg st)) (L2 (reg st)) (L3 (reg st)) (n :: creating (reg st))) n n)) in *.
        assert (HI0' : InvX st0) by exact HI0.
        assert (Hcr0 : creating (reg st0) = n :: creating (reg st)) by reflexivity.
        assert (HC0 : forall m, C m -> cached (reg st0) m = true).
        { intros m Hm. unfold st0. cbn [reg set_reg]. apply mono_add_factory. exact Hm. }
        destruct (populate_t vt s rect st0 n c) as [o1 [st1|k1 st1]] eqn:EP; [|destruct k1; discriminate].
        destruct (populate_lifeX C st0 n c _ o1 st1 HI0' Hcr0 HC0 HnC EP) as [HI1 [Hcr1 [Hf1 [Hm1 [Ha1 [Hl1 Hs1]]]]]].
        assert (HC1 : forall m, C m -> cached (reg st1) m = true) by (intros m Hm; apply Hm1, HC0, Hm).
        destruct (initialize_xt s x rect st1 n c) as [oi [[st2 w]|k2 st2]] eqn:EI; [|destruct k2; discriminate].
        destruct (initialize_xt_spec s x rect Hspec st1 n c oi st2 w HI1 EI) as [HI2 [Hc12 _]].
        destruct (initialize_xt_lifeX C st1 n c _ oi st2 w Ec HI1 Hcr1 HC1 HnC EI) as [Hf2 [Hm2 [Ha2 [Hl2 [Hshape Hfl2]]]]].
        assert (Hcr2 : creating (reg st2) = n :: creating (reg st)) by congruence.
        assert (Hfin : forall pv,
                  frame st (set_reg st2 (end_create_ok (reg st2) n pv)) /\
                  mono (reg st) (reg (set_reg st2 (end_create_ok (reg st2) n pv))) /\
                  active (set_reg st2 (end_create_ok (reg st2) n pv)) = active st /\
                  (lifeS st -> lifeS (set_reg st2 (end_create_ok (reg st2) n pv)))).
        { intros pv. split; [|split; [|split]].
          - intros m Hm. assert (Hne : m <> n) by (intros ->; apply HnC; exact Hm).
            destruct (Hf1 m Hm) as [A1 [A2 A3]]. destruct (Hf2 m Hm) as [B1 [B2 B3]]. cbn [log set_reg].
            split; [rewrite B1; exact A1|]. split.
            + intros k. change (field_of (set_reg st2 (end_create_ok (reg st2) n pv)) m k) with (field_of st2 m k).
              rewrite B2. apply A2.
            + intros Hn. cbn [reg set_reg]. unfold end_create_ok, add_singleton. cbn [L1].
              rewrite (alookup_aset_neq n m pv _ Hne). apply B3, A3. exact Hn.
          - cbn [reg set_reg]. eapply mono_trans; [|apply mono_end_create_ok].
            intros m Hm. apply Hm2, Hm1, HC0. exact Hm.
          - cbn [active set_reg]. rewrite Ha2, Ha1. reflexivity.
          - intros HL.
            assert (HL0 : lifeS st0) by (apply (lifeS_enter st st0 n HL); reflexivity).
            pose proof (Hl2 (Hl1 HL0)) as HL2.
            apply (lifeS_publish st2 n c pv (creating (reg st)) Ec HL2 Hcr2 Hnin).
            left. exists (users pop (active st1)).
            rewrite Hshape, Hs1. change (log st0) with (log st). rewrite (Hsn HL), app_nil_r. f_equal.
            symmetry. apply snapshot_low; [apply (Hsmall n c Ec)|exact Hfl2]. }
        unfold get_singleton_t, get_singleton in H. rewrite (FactoryBasics_get_lookup_false (reg st2) n) in H.
        destruct (match alookup n (L1 (reg st2)) with Some v0 => Some v0 | None => alookup n (L2 (reg st2)) end) as [e|].
        * destruct w as [wv|].
          -- destruct (stale_dependents vt st2 n _); [|cbn [snd] in H; discriminate]. cbn [snd] in H. inversion H; subst. apply Hfin.
          -- cbn [snd] in H. inversion H; subst. apply Hfin.
        * cbn [snd] in H. inversion H; subst. apply Hfin.
  Qed.
End LifeX.

Theorem do_get_xt_lifeX vt s x :
  fix_c03 vt = true -> small_points s -> forall fuel, rec_lifeX s x (erase (do_get_xt vt s x fuel)).
Proof.
  intros Hfix Hs. induction fuel as [|f IH]; intros st d st' v H HI; [discriminate|].
  cbn [do_get_xt] in H.
  eapply (body_xt_lifeX vt s x Hs (do_get_xt vt s x f) (do_get_xt_spec vt s x Hfix f) IH); eauto.
Qed.

(* ---------- a whole start -------------------------------------------------------------------------------- *)

Definition topS (s : scenario) (x : extras) (st : fstate) : Prop := topX st /\ lifeS s x st.

Lemma topS_same s x a b :
  reg b = reg a -> flds b = flds a -> deps b = deps a -> log b = log a -> topS s x a -> topS s x b.
Proof.
  intros Hr Hf Hd Hl [Ht HL]. split; [eapply top_same_core; [|exact Ht]; repeat split; assumption|].
  destruct Ht as [HI _].
  eapply lifeS_frame; [exact HI|exact HL| | |rewrite Hr; reflexivity|rewrite Hr; reflexivity].
  - intros m. right. rewrite Hl. reflexivity.
  - intros m v _ k. unfold field_of. rewrite Hf. reflexivity.
Qed.

Lemma topS_do_get vt s x fuel st n o st' v :
  fix_c03 vt = true -> small_points s -> topS s x st -> do_get_xt vt s x fuel st n = (o, Ok (st', v)) -> topS s x st'.
Proof.
  intros Hfix Hs [Ht HL] H. destruct (topX_do_get vt s x fuel st n o st' v Hfix Ht H) as [Ht' _].
  split; [exact Ht'|]. destruct Ht as [HI _].
  assert (H' : erase (do_get_xt vt s x fuel) st n = Ok (st', v)) by (unfold erase; rewrite H; reflexivity).
  destruct (do_get_xt_lifeX vt s x Hfix Hs fuel st n st' v H' HI) as [_ [_ [_ Hl]]]. apply Hl. exact HL.
Qed.

Lemma prepare_loop_xt_topS vt s x ps : fix_c03 vt = true -> small_points s -> forall st o st',
  topS s x st -> prepare_loop_xt vt s x ps st = (o, Ok st') -> topS s x st'.
Proof.
  intros Hfix Hs. induction ps as [|p r IH]; intros st o st' Ht H; cbn [prepare_loop_xt] in H; [inversion H; subst; exact Ht|].
  destruct (is_lazy (s_pop s) p).
  - eapply IH; [|exact H]. eapply topS_same; [| | | |exact Ht]; reflexivity.
  - destruct (do_get_xt vt s x (fuel_of s) st p) as [o1 [[st1 v]|k st1]] eqn:E; [|discriminate].
    pose proof (topS_do_get vt s x _ st p o1 st1 v Hfix Hs Ht E) as Ht1.
    destruct (prepare_loop_xt vt s x r (set_active st1 (active st1 ++ [p]))) as [o2 r2] eqn:E2.
    inversion H; subst o r2. eapply IH; [|exact E2]. eapply topS_same; [| | | |exact Ht1]; reflexivity.
Qed.

Lemma get_each_xt_topS vt s x ns : fix_c03 vt = true -> small_points s -> forall st o st',
  topS s x st -> get_each_xt vt s x ns st = (o, Ok st') -> topS s x st'.
Proof.
  intros Hfix Hs. induction ns as [|n r IH]; intros st o st' Ht H; cbn [get_each_xt] in H; [inversion H; subst; exact Ht|].
  destruct (do_get_xt vt s x (fuel_of s) st n) as [o1 [[st1 v]|k st1]] eqn:E; [|discriminate].
  pose proof (topS_do_get vt s x _ st n o1 st1 v Hfix Hs Ht E) as Ht1.
  destruct (get_each_xt vt s x r st1) as [o2 r2] eqn:E2. inversion H; subst o r2. eapply IH; eauto.
Qed.

Lemma run_each_topS s x ns : forall st st', topS s x st -> run_each s ns st = Ok st' -> topS s x st'.
Proof.
  induction ns as [|n r IH]; intros st st' Ht H; cbn [run_each] in H; [inversion H; subst; exact Ht|].
  destruct (runner_fails s n); [discriminate|]. eapply IH; [|exact H].
  destruct Ht as [Ht HL]. split; [eapply top_same_core; [|exact Ht]; repeat split|].
  destruct Ht as [HI _].
  eapply lifeS_frame; [exact HI|exact HL| | |reflexivity|reflexivity].
  - intros m. right. reflexivity.
  - intros m v _ k. reflexivity.
Qed.

Lemma topS_init s x : topS s x (set_scanned finit).
Proof.
  split; [eapply top_same_core; [|apply top_finit]; repeat split|].
  intros m c _. cbn. right. reflexivity.
Qed.

Theorem run_core_xt_topS vt s x o st :
  fix_c03 vt = true -> small_points s -> run_core_xt vt s x = (o, Ok st) -> topS s x st.
Proof.
  intros Hfix Hs. unfold run_core_xt. destruct (s_loader_fail s); [discriminate|].
  destruct (prepare_loop_xt vt s x (sorted_procs s) (set_scanned finit)) as [o1 [st1|k st1]] eqn:E1; [|discriminate].
  pose proof (prepare_loop_xt_topS vt s x _ Hfix Hs _ _ _ (topS_init s x) E1) as Ht1.
  destruct (get_each_xt vt s x (eager_names s) st1) as [o2 [st2|k st2]] eqn:E2; [|discriminate].
  pose proof (get_each_xt_topS vt s x _ Hfix Hs _ _ _ Ht1 E2) as Ht2.
  intros H. injection H as _ H. revert H.
  unfold call_runners. destruct (s_app s) as [[[a rp] cp]|]; [|intros H; inversion H; subst; exact Ht2].
  intros H. eapply run_each_topS; eauto.
Qed.

(* after a successful start nothing is in creation, so the invariant along the recursion is the strict statement:
   an unpublished component has no lifecycle event at all; a published one has exactly one block — the full one,
   or the after-callbacks only when some post-processor is listed as short-circuiting it *)
Theorem run_xt_life vt s x o st :
  fix_c03 vt = true -> small_points s -> run_xt vt s x = (o, Ok st) ->
  forall n c, get_comp (s_pop s) n = Some c ->
    match alookup n (L1 (reg st)) with
    | None => sub n (log st) = []
    | Some _ => xblock x n c (snapshot st n c) (sub n (log st))
    end.
Proof.
  intros Hfix Hs H n c Hc.
  assert (Hs' : small_points (normalise vt s)) by exact Hs.
  destruct (run_core_xt_topS vt (normalise vt s) x o st Hfix Hs' H) as [[_ Hcr] HL].
  specialize (HL n c Hc). destruct (alookup n (L1 (reg st))); [exact HL|].
  destruct HL as [Hin|HL]; [rewrite Hcr in Hin; contradiction|exact HL].
Qed.

(* counting: Init runs at most once; exactly once for a published component that no processor short-circuits *)
Lemma count_init_afters n us : count_init n (after_block n us) = 0.
Proof.
  unfold count_init, after_block. induction us as [|a r IH]; [reflexivity|].
  cbn [map rev]. rewrite filter_app, app_length, IH. reflexivity.
Qed.

Theorem run_xt_init_at_most_once vt s x o st n c :
  fix_c03 vt = true -> small_points s -> run_xt vt s x = (o, Ok st) ->
  get_comp (s_pop s) n = Some c -> count_init n (log st) <= 1.
Proof.
  intros Hfix Hs H Hc. pose proof (run_xt_life vt s x o st Hfix Hs H n c Hc) as HL.
  rewrite count_init_sub. destruct (alookup n (L1 (reg st))).
  - destruct HL as [[us ->]|[_ [us ->]]].
    + rewrite count_init_block. destruct (c_init c); auto.
    + rewrite count_init_afters. auto.
  - rewrite HL. cbn. auto.
Qed.

Theorem run_xt_init_exactly_once vt s x o st n c v :
  fix_c03 vt = true -> small_points s -> run_xt vt s x = (o, Ok st) ->
  get_comp (s_pop s) n = Some c -> alookup n (L1 (reg st)) = Some v ->
  (forall p, ~ In (p, n) (x_short x)) -> c_init c <> None ->
  count_init n (log st) = 1.
Proof.
  intros Hfix Hs H Hc Hpub Hns Hi. pose proof (run_xt_life vt s x o st Hfix Hs H n c Hc) as HL.
  rewrite Hpub in HL. rewrite count_init_sub.
  destruct HL as [[us ->]|[[p Hp] _]]; [|exfalso; apply (Hns p Hp)].
  rewrite count_init_block. destruct (c_init c); [reflexivity|contradiction].
Qed.
