(* Lemmas about Model/Conc.v: generic facts about the interleaving semantics, then the
   Close phase (C14).  The race-freedom part (C20) is in Proofs/RaceProofs.v. *)
From Coq Require Import List Arith Bool Lia.
From IocVerif Require Import Model.Conc.
Import ListNotations.

(* ---------- upd ---------------------------------------------------------------------------- *)

Lemma upd_same : forall A (f : nat -> A) t x, upd f t x t = x.
Proof. intros. unfold upd. rewrite Nat.eqb_refl. reflexivity. Qed.

Lemma upd_other : forall A (f : nat -> A) t x u, u <> t -> upd f t x u = f u.
Proof. intros A f t x u H. unfold upd. apply Nat.eqb_neq in H. rewrite H. reflexivity. Qed.

(* ---------- step ---------------------------------------------------------------------------- *)

Lemma thr_apply : forall c t a rest, thr (apply c t a rest) = upd (thr c) t rest.
Proof. intros c t a rest. destruct a; reflexivity. Qed.

Lemma step_inv : forall c t c' a,
  step c t = Some (c', a) ->
  started c t = true /\ exists rest, thr c t = a :: rest /\ enabled c t a = true /\ c' = apply c t a rest.
Proof.
  intros c t c' a H. unfold step in H.
  destruct (started c t) eqn:Hs; [|discriminate].
  destruct (thr c t) as [|a0 rest] eqn:Ht; [discriminate|].
  destruct (enabled c t a0) eqn:He; [|discriminate].
  inversion H; subst. split; [reflexivity|]. exists rest. repeat split; assumption.
Qed.

Lemma step_intro : forall c t a rest,
  started c t = true -> thr c t = a :: rest -> enabled c t a = true ->
  step c t = Some (apply c t a rest, a).
Proof. intros c t a rest Hs Ht He. unfold step. rewrite Hs, Ht, He. reflexivity. Qed.

Lemma started_apply_mono : forall c t a rest u,
  started c u = true -> started (apply c t a rest) u = true.
Proof.
  intros c t a rest u H. destruct a; cbn [apply started]; try assumption.
  unfold upd. destruct (Nat.eqb u u0); [reflexivity|assumption].
Qed.

(* ---------- projections --------------------------------------------------------------------- *)

Lemma proj_app : forall t a b, proj t (a ++ b) = proj t a ++ proj t b.
Proof. intros. unfold proj. rewrite filter_app, map_app. reflexivity. Qed.

Lemma proj_single_same : forall t a, proj t [(t, a)] = [a].
Proof. intros. unfold proj. cbn. rewrite Nat.eqb_refl. reflexivity. Qed.

Lemma proj_single_other : forall t u a, u <> t -> proj u [(t, a)] = [].
Proof.
  intros t u a H. unfold proj. cbn. destruct (Nat.eqb t u) eqn:E; [|reflexivity].
  apply Nat.eqb_eq in E. congruence.
Qed.

(* GL1: what a thread has executed followed by what it still has to execute is its program *)
Lemma reach_prefix : forall prog c tr, reach prog c tr -> forall u, proj u tr ++ thr c u = prog u.
Proof.
  intros prog c tr H. induction H as [|c tr t c' a Hr IH Hs]; intros u.
  - reflexivity.
  - apply step_inv in Hs. destruct Hs as [_ [rest [Ht [_ Hc]]]]. subst c'.
    rewrite thr_apply, proj_app. destruct (Nat.eq_dec u t) as [->|Hne].
    + rewrite proj_single_same, upd_same, <- app_assoc. cbn [app]. rewrite <- Ht. apply IH.
    + rewrite proj_single_other by assumption. rewrite upd_other by assumption.
      rewrite app_nil_r. apply IH.
Qed.

Lemma reach_main_started : forall prog c tr, reach prog c tr -> started c 0 = true.
Proof.
  intros prog c tr H. induction H as [|c tr t c' a Hr IH Hs]; [reflexivity|].
  apply step_inv in Hs. destruct Hs as [_ [rest [_ [_ ->]]]]. apply started_apply_mono, IH.
Qed.

(* a thread that has not been started has executed nothing *)
Lemma reach_unstarted : forall prog c tr, reach prog c tr ->
  forall u, started c u = false -> proj u tr = [] /\ thr c u = prog u.
Proof.
  intros prog c tr H. induction H as [|c tr t c' a Hr IH Hs]; intros u Hu.
  - split; reflexivity.
  - apply step_inv in Hs. destruct Hs as [Hst [rest [Ht [_ Hc]]]]. subst c'.
    assert (Hu0 : started c u = false).
    { destruct (started c u) eqn:E; [|reflexivity].
      rewrite (started_apply_mono c t a rest u E) in Hu. discriminate. }
    destruct (IH u Hu0) as [Hp Hth].
    assert (Hne : u <> t) by (intros ->; congruence).
    rewrite proj_app, proj_single_other, app_nil_r by assumption.
    rewrite thr_apply, upd_other by assumption. split; assumption.
Qed.

(* a started thread other than main is the target of an executed go statement *)
Lemma reach_started_go : forall prog c tr, reach prog c tr ->
  forall u, started c u = true -> u = 0 \/ exists s, In (s, AGo u) tr.
Proof.
  intros prog c tr H. induction H as [|c tr t c' a Hr IH Hs]; intros u Hu.
  - left. cbn in Hu. apply Nat.eqb_eq in Hu. assumption.
  - apply step_inv in Hs. destruct Hs as [_ [rest [_ [_ Hc]]]]. subst c'.
    destruct (started c u) eqn:E.
    + destruct (IH u E) as [->|[s Hin]]; [left; reflexivity|right].
      exists s. apply in_or_app. left. assumption.
    + right. destruct a; cbn [apply started] in Hu; try congruence.
      unfold upd in Hu. destruct (Nat.eqb u u0) eqn:E2; [|congruence].
      apply Nat.eqb_eq in E2. subst u0. exists t. apply in_or_app. right. left. reflexivity.
Qed.

(* ---------- counting actions: conservation ---------------------------------------------------- *)

Fixpoint wsum (w : act -> nat) (l : list act) : nat :=
  match l with [] => 0 | a :: r => w a + wsum w r end.

Lemma wsum_app : forall w a b, wsum w (a ++ b) = wsum w a + wsum w b.
Proof. intros w a b. induction a as [|x a IH]; cbn [wsum app]; [reflexivity|]. rewrite IH. lia. Qed.

Definition ind (f : act -> bool) (a : act) : nat := if f a then 1 else 0.
Definition countf (f : act -> bool) : list act -> nat := wsum (ind f).
Definition add_w (a : act) : nat := match a with AAdd k => k | _ => 0 end.
Definition adds : list act -> nat := wsum add_w.

Fixpoint sumf (g : nat -> nat) (N : nat) : nat :=
  match N with 0 => 0 | S k => sumf g k + g k end.

Lemma sumf_ext : forall g h N, (forall u, u < N -> g u = h u) -> sumf g N = sumf h N.
Proof.
  intros g h N. induction N as [|k IH]; intros H; [reflexivity|].
  cbn [sumf]. rewrite IH by (intros; apply H; lia). rewrite H by lia. reflexivity.
Qed.

Lemma sumf_upd : forall (g : list act -> nat) (h : nat -> list act) t x N, t < N ->
  sumf (fun u => g (upd h t x u)) N + g (h t) = sumf (fun u => g (h u)) N + g x.
Proof.
  intros g h t x N. induction N as [|k IH]; intros Ht; [lia|].
  cbn [sumf]. destruct (Nat.eq_dec t k) as [->|Hne].
  - rewrite upd_same.
    rewrite (sumf_ext (fun u => g (upd h k x u)) (fun u => g (h u)) k).
    + lia.
    + intros u Hu. rewrite upd_other by lia. reflexivity.
  - rewrite (upd_other _ h t x k) by lia. assert (t < k) by lia. specialize (IH H). lia.
Qed.

Lemma sumf_zero : forall g N, sumf g N = 0 -> forall u, u < N -> g u = 0.
Proof.
  intros g N. induction N as [|k IH]; intros H u Hu; [lia|].
  cbn [sumf] in H. destruct (Nat.eq_dec u k) as [->|]; [lia|]. apply IH; lia.
Qed.

Lemma sumf_pos : forall g N, 0 < sumf g N -> exists u, u < N /\ 0 < g u.
Proof.
  intros g N. induction N as [|k IH]; intros H; [cbn in H; lia|].
  cbn [sumf] in H. destruct (g k) eqn:E.
  - destruct IH as [u [Hu Hg]]; [lia|]. exists u. split; [lia|assumption].
  - exists k. split; [lia|lia].
Qed.

Definition acts_of (tr : list event) : list act := map snd tr.

(* every action of the programs is either already in the trace or still in some thread *)
Lemma reach_conservation : forall prog N, (forall u, N <= u -> prog u = []) ->
  forall w c tr, reach prog c tr ->
  wsum w (acts_of tr) + sumf (fun u => wsum w (thr c u)) N = sumf (fun u => wsum w (prog u)) N.
Proof.
  intros prog N HN w c tr H. induction H as [|c tr t c' a Hr IH Hs].
  - reflexivity.
  - pose proof (reach_prefix _ _ _ Hr t) as Hpre.
    apply step_inv in Hs. destruct Hs as [_ [rest [Ht [_ Hc]]]]. subst c'.
    assert (HtN : t < N).
    { destruct (le_lt_dec N t) as [Hle|]; [|assumption].
      rewrite (HN t Hle) in Hpre. apply app_eq_nil in Hpre. destruct Hpre as [_ Hx].
      rewrite Ht in Hx. discriminate. }
    unfold acts_of in *. rewrite map_app, wsum_app. cbn [map snd wsum].
    pose proof (sumf_upd (wsum w) (thr c) t rest N HtN) as Hu.
    rewrite Ht in Hu. cbn [wsum] in Hu.
    rewrite (sumf_ext (fun u => wsum w (thr (apply c t a rest) u))
                      (fun u => wsum w (upd (thr c) t rest u)) N)
      by (intros; rewrite thr_apply; reflexivity).
    lia.
Qed.

(* ---------- WaitGroup balance ------------------------------------------------------------------ *)

Definition is_done (a : act) : bool := match a with ADone => true | _ => false end.

Lemma reach_wg_balance : forall prog c tr, reach prog c tr ->
  wg c + countf is_done (acts_of tr) = adds (acts_of tr).
Proof.
  intros prog c tr H. induction H as [|c tr t c' a Hr IH Hs]; [reflexivity|].
  apply step_inv in Hs. destruct Hs as [_ [rest [_ [He Hc]]]]. subst c'.
  unfold acts_of, countf, adds in *. rewrite map_app, !wsum_app. cbn [map snd].
  destruct a; cbn [apply wg wsum add_w ind is_done]; try lia.
  cbn [enabled] in He. apply Nat.ltb_lt in He. lia.
Qed.

(* ---------- splitting a trace ------------------------------------------------------------------ *)

Lemma snoc_case : forall A (l : list A), l = [] \/ exists l' x, l = l' ++ [x].
Proof.
  intros A l. induction l as [|x l' _] using rev_ind; [left; reflexivity|right].
  exists l', x. reflexivity.
Qed.

Lemma reach_split : forall prog c tr, reach prog c tr ->
  forall tr1 e tr2, tr = tr1 ++ e :: tr2 ->
  exists c1 c1', reach prog c1 tr1 /\ step c1 (fst e) = Some (c1', snd e).
Proof.
  intros prog c tr H. induction H as [|c tr t c' a Hr IH Hs]; intros tr1 e tr2 Heq.
  - destruct tr1; discriminate.
  - destruct (snoc_case _ tr2) as [->|[tr2' [x ->]]].
    + apply app_inj_tail in Heq. destruct Heq as [-> <-].
      exists c, c'. split; assumption.
    + rewrite app_comm_cons, app_assoc in Heq. apply app_inj_tail in Heq.
      destruct Heq as [Heq _]. apply (IH tr1 e tr2'). assumption.
Qed.

(* run is a way to build reach *)
Lemma run_reach : forall prog sched c tr0 c' tr,
  reach prog c tr0 -> run c sched = Some (c', tr) -> reach prog c' (tr0 ++ tr).
Proof.
  intros prog sched. induction sched as [|t s IH]; intros c tr0 c' tr Hr Hrun.
  - cbn in Hrun. inversion Hrun; subst. rewrite app_nil_r. assumption.
  - cbn [run] in Hrun. destruct (step c t) as [[c1 a]|] eqn:Hs; [|discriminate].
    destruct (run c1 s) as [[c2 tr2]|] eqn:Hr2; [|discriminate].
    inversion Hrun; subst.
    replace (tr0 ++ (t, a) :: tr2) with ((tr0 ++ [(t, a)]) ++ tr2) by (rewrite <- app_assoc; reflexivity).
    eapply IH; [|exact Hr2]. eapply reach_step; eassumption.
Qed.

Lemma run_app : forall s1 s2 c c1 tr1 c2 tr2,
  run c s1 = Some (c1, tr1) -> run c1 s2 = Some (c2, tr2) -> run c (s1 ++ s2) = Some (c2, tr1 ++ tr2).
Proof.
  induction s1 as [|t s1 IH]; intros s2 c c1 tr1 c2 tr2 H1 H2.
  - cbn in H1. inversion H1; subst. exact H2.
  - cbn [run app] in *. destruct (step c t) as [[c' a]|]; [|discriminate].
    destruct (run c' s1) as [[c'' tr']|] eqn:E; [|discriminate]. inversion H1; subst.
    rewrite (IH s2 c' c1 tr' c2 tr2 E H2). reflexivity.
Qed.

(* subsequence extraction: the first two actions of a thread appear in that order in the trace *)
Lemma proj_cons_split : forall t tr x rest,
  proj t tr = x :: rest -> exists A B, tr = A ++ (t, x) :: B /\ proj t A = [] /\ proj t B = rest.
Proof.
  intros t tr. induction tr as [|[u a] tr IH]; intros x rest H; [discriminate|].
  unfold proj in H. cbn [filter fst] in H. destruct (Nat.eqb u t) eqn:E.
  - apply Nat.eqb_eq in E. subst u. cbn [map snd] in H. inversion H; subst.
    exists [], tr. repeat split.
  - fold (proj t tr) in H. destruct (IH x rest H) as [A [B [-> [HA HB]]]].
    exists ((u, a) :: A), B. repeat split; [|assumption].
    unfold proj. cbn [filter fst]. rewrite E. exact HA.
Qed.

Lemma sumf_all_zero : forall g N, (forall u, u < N -> g u = 0) -> sumf g N = 0.
Proof.
  intros g N. induction N as [|k IH]; intros H; [reflexivity|].
  cbn [sumf]. rewrite IH by (intros; apply H; lia). rewrite H by lia. reflexivity.
Qed.

Lemma sumf_const : forall g x k, (forall i, 1 <= i <= k -> g i = x) -> sumf g (S k) = g 0 + k * x.
Proof.
  intros g x k. induction k as [|k IH]; intros H; [cbn; lia|].
  change (sumf g (S (S k))) with (sumf g (S k) + g (S k)).
  rewrite IH by (intros; apply H; lia). rewrite (H (S k)) by lia. cbn [Nat.mul]. lia.
Qed.

Lemma sumf_single : forall g N i, i < N -> g i = 1 -> (forall u, u < N -> u <> i -> g u = 0) -> sumf g N = 1.
Proof.
  intros g N. induction N as [|k IH]; intros i Hi Hg H0; [lia|].
  cbn [sumf]. destruct (Nat.eq_dec i k) as [->|Hne].
  - rewrite sumf_all_zero by (intros; apply H0; lia). lia.
  - rewrite (IH i) by (try lia; try assumption; intros; apply H0; lia). rewrite H0 by lia. reflexivity.
Qed.

Lemma countf_cons : forall f a l, countf f (a :: l) = ind f a + countf f l.
Proof. reflexivity. Qed.

Lemma countf_app : forall f a b, countf f (a ++ b) = countf f a + countf f b.
Proof. intros. apply wsum_app. Qed.

Lemma split_unique : forall (p : act -> bool) x l1 r1 l2 r2,
  p x = true -> countf p l1 = 0 -> countf p l2 = 0 ->
  l1 ++ x :: r1 = l2 ++ x :: r2 -> l1 = l2 /\ r1 = r2.
Proof.
  intros p x l1. induction l1 as [|a l1 IH]; intros r1 l2 r2 Hx H1 H2 Heq; destruct l2 as [|b l2].
  - cbn in Heq. inversion Heq. split; reflexivity.
  - cbn in Heq. inversion Heq; subst. rewrite countf_cons in H2. unfold ind in H2. rewrite Hx in H2. lia.
  - cbn in Heq. inversion Heq; subst. rewrite countf_cons in H1. unfold ind in H1. rewrite Hx in H1. lia.
  - cbn [app] in Heq. inversion Heq; subst. rewrite countf_cons in H1, H2.
    destruct (IH r1 l2 r2 Hx) as [-> ->]; try lia; [assumption|]. split; reflexivity.
Qed.

Lemma suffix_done_nil : forall pre s body, pre ++ s = body ++ [ADone] -> countf is_done s = 0 -> s = [].
Proof.
  intros pre s body Heq Hc. destruct (snoc_case _ s) as [->|[s' [x ->]]]; [reflexivity|].
  rewrite app_assoc in Heq. apply app_inj_tail in Heq. destruct Heq as [_ ->].
  rewrite countf_app in Hc. cbn in Hc. lia.
Qed.

Lemma proj_in_acts : forall t tr a, In a (proj t tr) -> In a (acts_of tr).
Proof.
  intros t tr a H. unfold proj in H. apply in_map_iff in H. destruct H as [e [<- He]].
  apply filter_In in He. destruct He as [He _]. unfold acts_of. apply in_map. assumption.
Qed.

(* ---------- the Close phase ------------------------------------------------------------------- *)

Definition is_wait (a : act) : bool := match a with AWait => true | _ => false end.
Definition is_closeret (a : act) : bool := match a with AEv OCloseRet => true | _ => false end.
Definition is_call (i : nat) (a : act) : bool := match a with AEv (OCall j) => Nat.eqb j i | _ => false end.
Definition is_ret (i : nat) (a : act) : bool := match a with AEv (ORet j _) => Nat.eqb j i | _ => false end.
Definition simple (a : act) : bool := match a with AAdd _ => true | AGo _ => true | _ => false end.
Definition has_wait (l : list act) : bool := existsb is_wait l.

Lemma wsum_map_go : forall w l, (forall u, w (AGo u) = 0) -> wsum w (map AGo l) = 0.
Proof. intros w l H. induction l as [|x l IH]; [reflexivity|]. cbn [map wsum]. rewrite H, IH. reflexivity. Qed.

Section Close.
Variable n : nat.
Variable fails : nat -> bool.
Let P := close_prog n fails.
Let A := AAdd n :: map AGo (seq 1 n).

Lemma P_main : P 0 = close_main n.
Proof. reflexivity. Qed.

Lemma P_child : forall i, 1 <= i <= n -> P i = close_child fails i.
Proof.
  intros i [H1 H2]. unfold P, close_prog. destruct (Nat.eqb i 0) eqn:E.
  - apply Nat.eqb_eq in E. lia.
  - apply Nat.leb_le in H2. rewrite H2. reflexivity.
Qed.

Lemma P_out : forall u, S n <= u -> P u = [].
Proof.
  intros u H. unfold P, close_prog. destruct (Nat.eqb u 0) eqn:E.
  - apply Nat.eqb_eq in E. lia.
  - destruct (Nat.leb u n) eqn:E2; [|reflexivity]. apply Nat.leb_le in E2. lia.
Qed.

Lemma close_main_shape : 0 < n -> close_main n = A ++ AWait :: [AEv OCloseRet].
Proof. intros H. unfold A. destruct n; [lia|]. reflexivity. Qed.

(* weights of the program texts *)
Lemma wsum_main : forall w, (forall u, w (AGo u) = 0) ->
  wsum w (close_main n) = (if Nat.eqb n 0 then 0 else w (AAdd n) + w AWait) + w (AEv OCloseRet).
Proof.
  intros w Hgo. destruct n as [|m] eqn:E; [cbn; lia|].
  change (close_main (S m)) with ([AAdd (S m)] ++ map AGo (seq 1 (S m)) ++ [AWait; AEv OCloseRet]).
  rewrite !wsum_app, wsum_map_go by assumption. cbn. lia.
Qed.

Lemma wsum_child : forall w i,
  wsum w (close_child fails i) =
  w (AEv (OCall i)) + w (AEv (ORet i (fails i))) + (if fails i then w ATau else 0) + w ADone.
Proof. intros w i. unfold close_child. destruct (fails i); cbn; lia. Qed.

Lemma sum_dones : sumf (fun u => countf is_done (P u)) (S n) = n.
Proof.
  rewrite (sumf_const _ 1).
  - rewrite P_main. unfold countf. rewrite wsum_main by reflexivity. destruct (Nat.eqb n 0); cbn; lia.
  - intros i Hi. rewrite P_child by assumption. unfold countf. rewrite wsum_child.
    destruct (fails i); reflexivity.
Qed.

Lemma sum_adds : sumf (fun u => adds (P u)) (S n) = n.
Proof.
  rewrite (sumf_const _ 0).
  - rewrite P_main. unfold adds. rewrite wsum_main by reflexivity.
    destruct (Nat.eqb n 0) eqn:E; cbn; [apply Nat.eqb_eq in E|]; lia.
  - intros i Hi. rewrite P_child by assumption. unfold adds. rewrite wsum_child.
    destruct (fails i); reflexivity.
Qed.

Lemma countA : forall w, (forall u, w (AGo u) = 0) -> w (AAdd n) = 0 -> wsum w A = 0.
Proof. intros w H1 H2. unfold A. cbn [wsum]. rewrite wsum_map_go by assumption. lia. Qed.

(* main standing at Wait has executed Add and every go statement *)
Lemma main_at_wait : forall c tr rest, reach P c tr -> 0 < n -> thr c 0 = AWait :: rest ->
  proj 0 tr = A /\ rest = [AEv OCloseRet].
Proof.
  intros c tr rest Hr Hn Ht. pose proof (reach_prefix _ _ _ Hr 0) as Hp.
  rewrite Ht, P_main, close_main_shape in Hp by assumption.
  assert (HA0 : countf is_wait A = 0) by (apply countA; reflexivity).
  apply (split_unique is_wait) in Hp; [assumption|reflexivity| |assumption].
  pose proof (f_equal (countf is_wait) Hp) as Hc.
  rewrite !countf_app, !countf_cons, HA0 in Hc. cbn in Hc. lia.
Qed.

Lemma main_at_closeret : forall c tr rest, reach P c tr -> 0 < n -> thr c 0 = AEv OCloseRet :: rest ->
  rest = [].
Proof.
  intros c tr rest Hr Hn Ht. pose proof (reach_prefix _ _ _ Hr 0) as Hp.
  rewrite Ht, P_main, close_main_shape in Hp by assumption.
  replace (A ++ AWait :: [AEv OCloseRet]) with ((A ++ [AWait]) ++ AEv OCloseRet :: []) in Hp
    by (rewrite <- app_assoc; reflexivity).
  assert (HA0 : countf is_closeret A = 0) by (apply countA; reflexivity).
  assert (HA : countf is_closeret (A ++ [AWait]) = 0) by (rewrite countf_app, HA0; reflexivity).
  apply (split_unique is_closeret) in Hp; [apply Hp|reflexivity| |assumption].
  pose proof (f_equal (countf is_closeret) Hp) as Hc.
  rewrite !countf_app, !countf_cons, HA0 in Hc. cbn in Hc. lia.
Qed.

Lemma child_weight_le : forall w c tr i, reach P c tr -> 1 <= i <= n ->
  wsum w (thr c i) <= wsum w (close_child fails i).
Proof.
  intros w c tr i Hr Hi. pose proof (reach_prefix _ _ _ Hr i) as Hp.
  rewrite P_child in Hp by assumption. rewrite <- Hp, wsum_app. lia.
Qed.

Lemma main_weight_le : forall w c tr, reach P c tr -> wsum w (thr c 0) <= wsum w (close_main n).
Proof.
  intros w c tr Hr. pose proof (reach_prefix _ _ _ Hr 0) as Hp.
  rewrite P_main in Hp. rewrite <- Hp, wsum_app. lia.
Qed.

(* invariant wg = n - #done at the moment Wait can fire: wg = 0 means every closer thread has finished *)
Lemma at_wait_all_done : forall c tr rest, reach P c tr -> 0 < n -> thr c 0 = AWait :: rest -> wg c = 0 ->
  forall i, 1 <= i <= n -> thr c i = [].
Proof.
  intros c tr rest Hr Hn Ht Hwg i Hi.
  destruct (main_at_wait c tr rest Hr Hn Ht) as [_ ->].
  pose proof (reach_conservation P (S n) P_out add_w c tr Hr) as Ha.
  fold adds in Ha. rewrite sum_adds in Ha.
  assert (Hz : sumf (fun u => adds (thr c u)) (S n) = 0).
  { apply sumf_all_zero. intros u Hu. destruct (Nat.eq_dec u 0) as [->|Hne].
    - rewrite Ht. reflexivity.
    - assert (Hui : 1 <= u <= n) by lia. pose proof (child_weight_le add_w c tr u Hr Hui) as Hle.
      rewrite wsum_child in Hle. unfold adds. destruct (fails u); cbn in Hle; lia. }
  pose proof (reach_wg_balance _ _ _ Hr) as Hb.
  pose proof (reach_conservation P (S n) P_out (ind is_done) c tr Hr) as Hd.
  fold (countf is_done) in Hd. rewrite sum_dones in Hd.
  assert (Hs : sumf (fun u => countf is_done (thr c u)) (S n) = 0) by lia.
  pose proof (sumf_zero _ _ Hs i) as Hi0. cbv beta in Hi0.
  pose proof (reach_prefix _ _ _ Hr i) as Hp. rewrite P_child in Hp by assumption.
  unfold close_child in Hp. rewrite app_assoc in Hp.
  eapply suffix_done_nil; [exact Hp|apply Hi0; lia].
Qed.

Lemma wait_joined : forall c tr, reach P c tr -> 0 < n -> has_wait (thr c 0) = false ->
  forall i, 1 <= i <= n -> thr c i = [].
Proof.
  intros c tr Hr Hn. induction Hr as [|c tr t c' a Hr IH Hs]; intros Hw i Hi.
  - exfalso. cbn [init thr] in Hw. change (has_wait (close_main n) = false) in Hw.
    rewrite close_main_shape in Hw by assumption. unfold has_wait in Hw.
    rewrite existsb_app in Hw. cbn in Hw. rewrite orb_true_r in Hw. discriminate.
  - pose proof Hs as Hs0. apply step_inv in Hs. destruct Hs as [_ [rest [Ht [He Hc]]]]. subst c'.
    rewrite thr_apply in *. destruct (has_wait (thr c 0)) eqn:Hw0.
    + destruct (Nat.eq_dec t 0) as [->|Hne].
      * rewrite upd_same in Hw. rewrite Ht in Hw0. unfold has_wait in Hw0, Hw. cbn [existsb] in Hw0.
        rewrite Hw, orb_false_r in Hw0. destruct a; try discriminate.
        cbn [enabled] in He. apply Nat.eqb_eq in He.
        rewrite upd_other by lia. eapply at_wait_all_done; eassumption.
      * rewrite upd_other in Hw by lia. congruence.
    + specialize (IH eq_refl i Hi). destruct (Nat.eq_dec i t) as [->|Hne].
      * rewrite IH in Ht. discriminate.
      * rewrite upd_other by assumption. assumption.
Qed.

(* C14, waits: when Close returns, every closer thread has run to completion *)
Lemma close_waits : forall c tr, reach P c tr ->
  forall tr1 tr2, tr = tr1 ++ (0, AEv OCloseRet) :: tr2 ->
  forall i, 1 <= i <= n -> proj i tr1 = close_child fails i.
Proof.
  intros c tr Hr tr1 tr2 Heq i Hi.
  destruct (reach_split _ _ _ Hr _ _ _ Heq) as [c1 [c1' [Hr1 Hs]]]. cbn [fst snd] in Hs.
  apply step_inv in Hs. destruct Hs as [_ [rest [Ht _]]].
  assert (Hn : 0 < n) by lia.
  pose proof (main_at_closeret c1 tr1 rest Hr1 Hn Ht) as ->.
  assert (Hw : has_wait (thr c1 0) = false) by (rewrite Ht; reflexivity).
  pose proof (wait_joined c1 tr1 Hr1 Hn Hw i Hi) as Hnil.
  pose proof (reach_prefix _ _ _ Hr1 i) as Hp. rewrite Hnil, app_nil_r, P_child in Hp by assumption.
  exact Hp.
Qed.

(* the first two actions of a finished closer thread appear in order in the trace *)
Lemma close_waits_order : forall c tr, reach P c tr ->
  forall tr1 tr2, tr = tr1 ++ (0, AEv OCloseRet) :: tr2 ->
  forall i, 1 <= i <= n ->
  exists X Y Z, tr1 = X ++ (i, AEv (OCall i)) :: Y ++ (i, AEv (ORet i (fails i))) :: Z.
Proof.
  intros c tr Hr tr1 tr2 Heq i Hi.
  pose proof (close_waits c tr Hr tr1 tr2 Heq i Hi) as Hp. unfold close_child in Hp. cbn [app] in Hp.
  apply proj_cons_split in Hp. destruct Hp as [X [B [-> [_ HB]]]].
  apply proj_cons_split in HB. destruct HB as [Y [Z [-> _]]].
  exists X, Y, Z. reflexivity.
Qed.

(* exactly once *)
Lemma close_count : forall (f : act -> bool) i c tr, reach P c tr -> 1 <= i <= n ->
  countf f (close_main n) = 0 ->
  (forall j, 1 <= j <= n -> countf f (close_child fails j) = if Nat.eqb j i then 1 else 0) ->
  countf f (acts_of tr) <= 1 /\ (thr c i = [] -> countf f (acts_of tr) = 1).
Proof.
  intros f i c tr Hr Hi Hm Hc.
  pose proof (reach_conservation P (S n) P_out (ind f) c tr Hr) as Hcons. fold (countf f) in Hcons.
  assert (Hs : sumf (fun u => countf f (P u)) (S n) = 1).
  { apply (sumf_single _ _ i); [lia| |].
    - rewrite P_child, Hc, Nat.eqb_refl by assumption. reflexivity.
    - intros u Hu Hne. destruct (Nat.eq_dec u 0) as [->|Hu0]; [rewrite P_main; assumption|].
      rewrite P_child, Hc by lia. apply Nat.eqb_neq in Hne. rewrite Hne. reflexivity. }
  rewrite Hs in Hcons. split; [lia|]. intros Hnil.
  assert (Hz : sumf (fun u => countf f (thr c u)) (S n) = 0); [|lia].
  apply sumf_all_zero. intros u Hu. destruct (Nat.eq_dec u i) as [->|Hne]; [rewrite Hnil; reflexivity|].
  destruct (Nat.eq_dec u 0) as [->|Hu0].
  - pose proof (main_weight_le (ind f) c tr Hr) as Hle. fold (countf f) in Hle. lia.
  - assert (Hui : 1 <= u <= n) by lia. pose proof (child_weight_le (ind f) c tr u Hr Hui) as Hle.
    fold (countf f) in Hle. rewrite Hc in Hle by assumption. apply Nat.eqb_neq in Hne. rewrite Hne in Hle. lia.
Qed.

Lemma count_call_main : forall i, countf (is_call i) (close_main n) = 0.
Proof. intros i. unfold countf. rewrite wsum_main by reflexivity. destruct (Nat.eqb n 0); reflexivity. Qed.
Lemma count_ret_main : forall i, countf (is_ret i) (close_main n) = 0.
Proof. intros i. unfold countf. rewrite wsum_main by reflexivity. destruct (Nat.eqb n 0); reflexivity. Qed.
Lemma count_call_child : forall i j, countf (is_call i) (close_child fails j) = if Nat.eqb j i then 1 else 0.
Proof.
  intros i j. unfold countf. rewrite wsum_child. unfold ind, is_call.
  destruct (Nat.eqb j i), (fails j); reflexivity.
Qed.
Lemma count_ret_child : forall i j, countf (is_ret i) (close_child fails j) = if Nat.eqb j i then 1 else 0.
Proof.
  intros i j. unfold countf. rewrite wsum_child. unfold ind, is_ret.
  destruct (Nat.eqb j i), (fails j); reflexivity.
Qed.

Lemma close_once : forall c tr, reach P c tr ->
  forall tr1 tr2, tr = tr1 ++ (0, AEv OCloseRet) :: tr2 ->
  forall i, 1 <= i <= n ->
  countf (is_call i) (acts_of tr) = 1 /\ countf (is_ret i) (acts_of tr) = 1.
Proof.
  intros c tr Hr tr1 tr2 Heq i Hi.
  assert (Hnil : thr c i = []).
  { pose proof (close_waits c tr Hr tr1 tr2 Heq i Hi) as Hp.
    pose proof (reach_prefix _ _ _ Hr i) as Hq. rewrite P_child in Hq by assumption.
    subst tr. rewrite proj_app, Hp in Hq. rewrite <- app_assoc in Hq.
    rewrite <- (app_nil_r (close_child fails i)) in Hq at 2. apply app_inv_head in Hq.
    apply app_eq_nil in Hq. apply Hq. }
  split.
  - apply (close_count (is_call i) i c tr Hr Hi (count_call_main i)); [|assumption].
    intros j _. apply count_call_child.
  - apply (close_count (is_ret i) i c tr Hr Hi (count_ret_main i)); [|assumption].
    intros j _. apply count_ret_child.
Qed.

Lemma close_at_most_once : forall c tr, reach P c tr -> forall i, 1 <= i <= n ->
  countf (is_call i) (acts_of tr) <= 1 /\ countf (is_ret i) (acts_of tr) <= 1.
Proof.
  intros c tr Hr i Hi. split.
  - apply (close_count (is_call i) i c tr Hr Hi (count_call_main i)). intros j _. apply count_call_child.
  - apply (close_count (is_ret i) i c tr Hr Hi (count_ret_main i)). intros j _. apply count_ret_child.
Qed.

(* ---------- isolation ---------------------------------------------------------------------- *)

Lemma go_pending_or_started : forall c tr, reach P c tr -> forall i, 1 <= i <= n ->
  started c i = true \/
  exists pre post, thr c 0 = pre ++ AGo i :: post /\ forallb simple pre = true.
Proof.
  intros c tr Hr. induction Hr as [|c tr t c' a Hr IH Hs]; intros i Hi.
  - right. cbn [init thr]. change (P 0) with (close_main n). rewrite close_main_shape by lia.
    assert (Hin : In (AGo i) (map AGo (seq 1 n))) by (apply in_map, in_seq; lia).
    apply in_split in Hin. destruct Hin as [l1 [l2 Heq]].
    exists (AAdd n :: l1), (l2 ++ AWait :: [AEv OCloseRet]). split.
    + unfold A. rewrite Heq. cbn [app]. rewrite <- app_assoc. reflexivity.
    + cbn [forallb simple andb].
      assert (Hall : forallb simple (map AGo (seq 1 n)) = true).
      { apply forallb_forall. intros x Hx. apply in_map_iff in Hx. destruct Hx as [u [<- _]]. reflexivity. }
      rewrite Heq, forallb_app in Hall. apply andb_true_iff in Hall. apply Hall.
  - apply step_inv in Hs. destruct Hs as [_ [rest [Ht [_ Hc]]]]. subst c'.
    destruct (IH i Hi) as [Hst|[pre [post [Hm Hsimple]]]].
    + left. apply started_apply_mono. assumption.
    + destruct (Nat.eq_dec t 0) as [->|Hne].
      * rewrite Ht in Hm. destruct pre as [|b pre].
        -- cbn [app] in Hm. inversion Hm; subst. left. cbn [apply started]. apply upd_same.
        -- cbn [app] in Hm. inversion Hm; subst. right. exists pre, post.
           rewrite thr_apply, upd_same. split; [reflexivity|].
           cbn [forallb] in Hsimple. apply andb_true_iff in Hsimple. apply Hsimple.
      * right. exists pre, post. rewrite thr_apply, upd_other by lia. split; assumption.
Qed.

(* main can always run through a block of Add / go statements on its own *)
Lemma run_main_simple : forall pre c rest,
  started c 0 = true -> thr c 0 = pre ++ rest -> forallb simple pre = true ->
  exists c', run c (repeat 0 (length pre)) = Some (c', map (pair 0) pre)
    /\ thr c' 0 = rest /\ (forall u, u <> 0 -> thr c' u = thr c u)
    /\ (forall u, started c u = true -> started c' u = true).
Proof.
  induction pre as [|a pre IH]; intros c rest Hst Ht Hs.
  - exists c. cbn. repeat split; auto.
  - cbn [forallb] in Hs. apply andb_true_iff in Hs. destruct Hs as [Ha Hs].
    cbn [app] in Ht.
    assert (He : enabled c 0 a = true) by (destruct a; try discriminate; reflexivity).
    pose proof (step_intro c 0 a (pre ++ rest) Hst Ht He) as Hstep.
    destruct (IH (apply c 0 a (pre ++ rest)) rest) as [c' [Hrun [Hth [Hoth Hmono]]]].
    + apply started_apply_mono. assumption.
    + rewrite thr_apply, upd_same. reflexivity.
    + assumption.
    + exists c'. cbn [length repeat run map]. rewrite Hstep, Hrun. repeat split.
      * assumption.
      * intros u Hu. rewrite Hoth, thr_apply, upd_other by assumption. reflexivity.
      * intros u Hu. apply Hmono, started_apply_mono. assumption.
Qed.

Lemma close_isolation : forall c tr, reach P c tr -> forall i, 1 <= i <= n ->
  ~ In (AEv (OCall i)) (acts_of tr) ->
  exists sched c' tr', Forall (fun t => t = 0 \/ t = i) sched
    /\ run c sched = Some (c', tr') /\ In (i, AEv (OCall i)) tr'.
Proof.
  intros c tr Hr i Hi Hno.
  assert (Hth : thr c i = close_child fails i).
  { pose proof (reach_prefix _ _ _ Hr i) as Hp. rewrite P_child in Hp by assumption.
    destruct (proj i tr) as [|x l] eqn:E; [exact Hp|exfalso].
    unfold close_child in Hp. cbn [app] in Hp. inversion Hp; subst x.
    apply Hno. apply (proj_in_acts i). rewrite E. left. reflexivity. }
  unfold close_child in Hth. cbn [app] in Hth.
  destruct (go_pending_or_started c tr Hr i Hi) as [Hst|[pre [post [Hm Hs]]]].
  - exists [i]. eexists. eexists. split; [constructor; [right; reflexivity|constructor]|].
    cbn [run]. rewrite (step_intro c i _ _ Hst Hth eq_refl). split; [reflexivity|]. left. reflexivity.
  - pose proof (reach_main_started _ _ _ Hr) as Hst0.
    destruct (run_main_simple pre c (AGo i :: post) Hst0 Hm Hs) as [c1 [Hrun1 [Hth1 [Hoth1 Hmono1]]]].
    assert (Hst1 : started c1 0 = true) by (apply Hmono1; assumption).
    pose proof (step_intro c1 0 (AGo i) post Hst1 Hth1 eq_refl) as Hstep2.
    set (c2 := apply c1 0 (AGo i) post) in *.
    assert (Hst2 : started c2 i = true) by (unfold c2; cbn [apply started]; apply upd_same).
    assert (Hth2 : thr c2 i = AEv (OCall i) :: AEv (ORet i (fails i)) :: (if fails i then [ATau] else []) ++ [ADone]).
    { unfold c2. rewrite thr_apply, upd_other by lia. rewrite Hoth1 by lia. exact Hth. }
    pose proof (step_intro c2 i _ _ Hst2 Hth2 eq_refl) as Hstep3.
    exists (repeat 0 (length pre) ++ [0; i]). eexists. eexists. split; [|split].
    + apply Forall_app. split.
      * apply Forall_forall. intros x Hx. apply repeat_spec in Hx. left. assumption.
      * constructor; [left; reflexivity|constructor; [right; reflexivity|constructor]].
    + eapply run_app; [exact Hrun1|]. cbn [run]. rewrite Hstep2, Hstep3. reflexivity.
    + apply in_or_app. right. right. left. reflexivity.
Qed.

(* ---------- progress: the phase never deadlocks, Done never underflows ------------------------ *)

Lemma in_close_main : forall a, In a (close_main n) ->
  simple a = true \/ a = AWait \/ a = AEv OCloseRet.
Proof.
  intros a H. destruct n as [|m] eqn:E.
  - cbn in H. destruct H as [<-|[]]. right. right. reflexivity.
  - change (close_main (S m)) with ([AAdd (S m)] ++ map AGo (seq 1 (S m)) ++ [AWait; AEv OCloseRet]) in H.
    apply in_app_or in H. destruct H as [[<-|[]]|H]; [left; reflexivity|].
    apply in_app_or in H. destruct H as [H|[<-|[<-|[]]]].
    + apply in_map_iff in H. destruct H as [u [<- _]]. left. reflexivity.
    + right. left. reflexivity.
    + right. right. reflexivity.
Qed.

Lemma in_close_child : forall i a, In a (close_child fails i) ->
  (exists o, a = AEv o) \/ a = ATau \/ a = ADone.
Proof.
  intros i a H. unfold close_child in H. cbn [app] in H.
  destruct H as [<-|[<-|H]]; [left; eexists; reflexivity|left; eexists; reflexivity|].
  apply in_app_or in H. destruct H as [H|[<-|[]]]; [|right; right; reflexivity].
  destruct (fails i); [|destruct H]. destruct H as [<-|[]]. right. left. reflexivity.
Qed.

Lemma close_progress : forall c tr, reach P c tr ->
  (forall t, t <= n -> thr c t = []) \/ exists t c' a, step c t = Some (c', a).
Proof.
  intros c tr Hr. pose proof (reach_main_started _ _ _ Hr) as Hst0.
  destruct (thr c 0) as [|a rest] eqn:Ht.
  - left. intros t Htn. destruct (Nat.eq_dec t 0) as [->|Hne]; [assumption|].
    apply (wait_joined c tr Hr); [lia|rewrite Ht; reflexivity|lia].
  - right. destruct (enabled c 0 a) eqn:He.
    + exists 0. eexists. exists a. apply step_intro; eassumption.
    + assert (Hin : In a (close_main n)).
      { pose proof (reach_prefix _ _ _ Hr 0) as Hp. rewrite P_main, Ht in Hp. rewrite <- Hp.
        apply in_or_app. right. left. reflexivity. }
      apply in_close_main in Hin. destruct Hin as [Hs|[ -> | -> ]]; [destruct a; discriminate| |discriminate].
      cbn [enabled] in He. apply Nat.eqb_neq in He.
      assert (Hn : 0 < n).
      { destruct n as [|m] eqn:E; [|lia]. pose proof (reach_prefix _ _ _ Hr 0) as Hp.
        rewrite Ht in Hp. change (P 0) with (close_main 0) in Hp. cbn in Hp.
        destruct (proj 0 tr) as [|x [|y l]]; cbn in Hp; inversion Hp. }
      destruct (main_at_wait c tr rest Hr Hn Ht) as [_ ->].
      (* some closer thread still holds its Done *)
      pose proof (reach_conservation P (S n) P_out add_w c tr Hr) as Ha.
      fold adds in Ha. rewrite sum_adds in Ha.
      pose proof (reach_wg_balance _ _ _ Hr) as Hb.
      pose proof (reach_conservation P (S n) P_out (ind is_done) c tr Hr) as Hd.
      fold (countf is_done) in Hd. rewrite sum_dones in Hd.
      assert (Hpos : 0 < sumf (fun u => countf is_done (thr c u)) (S n)) by lia.
      apply sumf_pos in Hpos. destruct Hpos as [u [Hu Hpos]].
      assert (Hu0 : u <> 0) by (intros ->; rewrite Ht in Hpos; cbn in Hpos; lia).
      assert (Hui : 1 <= u <= n) by lia.
      destruct (thr c u) as [|b restu] eqn:Hthu; [cbn in Hpos; lia|].
      assert (Hstu : started c u = true).
      { destruct (go_pending_or_started c tr Hr u Hui) as [H|[pre [post [Hm _]]]]; [assumption|exfalso].
        rewrite Ht in Hm. destruct pre as [|x [|y [|z pre]]]; cbn in Hm; inversion Hm. }
      assert (Hinb : In b (close_child fails u)).
      { pose proof (reach_prefix _ _ _ Hr u) as Hp. rewrite P_child, Hthu in Hp by assumption.
        rewrite <- Hp. apply in_or_app. right. left. reflexivity. }
      exists u. eexists. exists b. apply step_intro; [assumption|eassumption|].
      apply in_close_child in Hinb. destruct Hinb as [[o ->]|[ -> | -> ]]; try reflexivity.
      cbn [enabled]. apply Nat.ltb_lt. lia.
Qed.

End Close.

(* ---------- the trace acceptor only accepts observable projections of complete runs -------------------- *)

Lemma obs_of_app : forall a b, obs_of (a ++ b) = obs_of a ++ obs_of b.
Proof. intros. unfold obs_of. apply flat_map_app. Qed.

Lemma obs_eqb_eq : forall a b, obs_eqb a b = true -> a = b.
Proof.
  intros [i|i x|] [j|j y|] H; cbn in H; try discriminate; try reflexivity.
  - apply Nat.eqb_eq in H. congruence.
  - apply andb_true_iff in H. destruct H as [H1 H2]. apply Nat.eqb_eq in H1. apply Bool.eqb_prop in H2. congruence.
Qed.

Lemma step_if_silent_run : forall c t c', step_if_silent c t = Some c' ->
  exists tr, run c [t] = Some (c', tr) /\ obs_of tr = [].
Proof.
  intros c t c' H. unfold step_if_silent in H. destruct (thr c t) as [|a rest] eqn:Ht; [discriminate|].
  destruct (silent a) eqn:Hs; [|discriminate]. destruct (step c t) as [[c1 a1]|] eqn:Hst; [|discriminate].
  inversion H; subst c1. exists [(t, a1)]. cbn [run]. rewrite Hst. split; [reflexivity|].
  apply step_inv in Hst. destruct Hst as [_ [rest' [Ht' _]]]. rewrite Ht in Ht'. inversion Ht'; subst.
  unfold obs_of. cbn. destruct a1; try reflexivity. discriminate.
Qed.

Lemma first_silent_run : forall ts c c', first_silent c ts = Some c' ->
  exists sched tr, run c sched = Some (c', tr) /\ obs_of tr = [].
Proof.
  induction ts as [|t ts IH]; intros c c' H; [discriminate|].
  cbn [first_silent] in H. destruct (step_if_silent c t) as [c1|] eqn:E.
  - inversion H; subst. destruct (step_if_silent_run _ _ _ E) as [tr [Hr Ho]]. exists [t], tr. split; assumption.
  - apply IH. assumption.
Qed.

Lemma saturate_run : forall fuel ts c, exists sched tr, run c sched = Some (saturate fuel ts c, tr) /\ obs_of tr = [].
Proof.
  induction fuel as [|f IH]; intros ts c.
  - exists [], []. split; reflexivity.
  - cbn [saturate]. destruct (first_silent c ts) as [c1|] eqn:E.
    + destruct (first_silent_run _ _ _ E) as [s1 [tr1 [Hr1 Ho1]]]. destruct (IH ts c1) as [s2 [tr2 [Hr2 Ho2]]].
      exists (s1 ++ s2), (tr1 ++ tr2). split; [eapply run_app; eassumption|].
      rewrite obs_of_app, Ho1, Ho2. reflexivity.
    + exists [], []. split; reflexivity.
Qed.

Lemma accept_one_run : forall fuel ts c o c', accept_one fuel ts c o = Some c' ->
  exists sched tr, run c sched = Some (c', tr) /\ obs_of tr = [o].
Proof.
  intros fuel ts c o c' H. unfold accept_one in H.
  destruct (saturate_run fuel ts c) as [s1 [tr1 [Hr1 Ho1]]]. set (c1 := saturate fuel ts c) in *.
  destruct (thr c1 (owner o)) as [|a rest] eqn:Ht; [discriminate|]. destruct a; try discriminate.
  destruct (obs_eqb o o0) eqn:Eo; [|discriminate]. apply obs_eqb_eq in Eo. subst o0.
  destruct (step c1 (owner o)) as [[c2 a2]|] eqn:Hs; [|discriminate]. inversion H; subst c2.
  pose proof Hs as Hs'. apply step_inv in Hs'. destruct Hs' as [_ [rest' [Ht' _]]]. rewrite Ht in Ht'. inversion Ht'; subst.
  exists (s1 ++ [owner o]), (tr1 ++ [(owner o, AEv o)]). split.
  - eapply run_app; [exact Hr1|]. cbn [run]. rewrite Hs. reflexivity.
  - rewrite obs_of_app, Ho1. reflexivity.
Qed.

Lemma accept_all_run : forall fuel ts h c c', accept_all fuel ts c h = Some c' ->
  exists sched tr, run c sched = Some (c', tr) /\ obs_of tr = h.
Proof.
  intros fuel ts h. induction h as [|o h IH]; intros c c' H.
  - cbn [accept_all] in H. inversion H; subst. apply saturate_run.
  - cbn [accept_all] in H. destruct (accept_one fuel ts c o) as [c1|] eqn:E; [|discriminate].
    destruct (accept_one_run _ _ _ _ _ E) as [s1 [tr1 [Hr1 Ho1]]]. destruct (IH _ _ H) as [s2 [tr2 [Hr2 Ho2]]].
    exists (s1 ++ s2), (tr1 ++ tr2). split; [eapply run_app; eassumption|]. rewrite obs_of_app, Ho1, Ho2. reflexivity.
Qed.

Theorem close_accepts_sound : forall n fails h, close_accepts n fails h = true ->
  exists sched c tr, run (init (close_prog n fails)) sched = Some (c, tr) /\ obs_of tr = h
    /\ forall t, t <= n -> thr c t = [].
Proof.
  intros n fails h H. unfold close_accepts in H.
  destruct (accept_all (4 * n + 8) (seq 0 (S n)) (init (close_prog n fails)) h) as [c|] eqn:E; [|discriminate].
  destruct (accept_all_run _ _ _ _ _ E) as [sched [tr [Hr Ho]]]. exists sched, c, tr. repeat split; try assumption.
  intros t Ht. rewrite forallb_forall in H. specialize (H t). destruct (thr c t); [reflexivity|].
  assert (In t (seq 0 (S n))) by (apply in_seq; lia). specialize (H H0). discriminate.
Qed.
