(* Lemmas about Model/SyncMap.v: linearization points of the point operations and of the repaired
   LoadOrStoreFn, "never two winners", and a complete refuter for non-linearizable histories. *)
From Coq Require Import List Arith Bool Lia.
From IocVerif Require Import Model.SyncMap.
Import ListNotations.

(* ---------- finite maps -------------------------------------------------------------------------- *)

Lemma get_put_same : forall m k v, get (put m k v) k = Some v.
Proof.
  induction m as [|[k' v'] m IH]; intros k v; cbn [put get].
  - rewrite Nat.eqb_refl. reflexivity.
  - destruct (Nat.ltb k k') eqn:E1; cbn [get].
    + rewrite Nat.eqb_refl. reflexivity.
    + destruct (Nat.eqb k k') eqn:E2; cbn [get].
      * rewrite Nat.eqb_refl. reflexivity.
      * rewrite E2. apply IH.
Qed.

Lemma get_put_other : forall m k v k0, k0 <> k -> get (put m k v) k0 = get m k0.
Proof.
  induction m as [|[k' v'] m IH]; intros k v k0 Hne; cbn [put get].
  - apply Nat.eqb_neq in Hne. rewrite Hne. reflexivity.
  - destruct (Nat.ltb k k') eqn:E1; cbn [get].
    + apply Nat.eqb_neq in Hne. rewrite Hne. reflexivity.
    + destruct (Nat.eqb k k') eqn:E2; cbn [get].
      * apply Nat.eqb_eq in E2. subst k'. apply Nat.eqb_neq in Hne. rewrite Hne. reflexivity.
      * destruct (Nat.eqb k0 k'); [reflexivity|]. apply IH. assumption.
Qed.

Lemma get_del_other : forall m k k0, k0 <> k -> get (del m k) k0 = get m k0.
Proof.
  induction m as [|[k' v'] m IH]; intros k k0 Hne; cbn [del get]; [reflexivity|].
  destruct (Nat.eqb k k') eqn:E; cbn [get].
  - apply Nat.eqb_eq in E. subst k'. apply Nat.eqb_neq in Hne. rewrite Hne. apply IH.
    apply Nat.eqb_neq. assumption.
  - destruct (Nat.eqb k0 k'); [reflexivity|]. apply IH. assumption.
Qed.

(* ---------- sequential histories ------------------------------------------------------------------ *)

Lemma legal_app : forall S1 S2 m, legal m (S1 ++ S2) <-> legal m S1 /\ legal (final m S1) S2.
Proof.
  induction S1 as [|[o r] S1 IH]; intros S2 m; cbn [app legal final].
  - tauto.
  - rewrite IH. tauto.
Qed.

Lemma final_app : forall S1 S2 m, final m (S1 ++ S2) = final (final m S1) S2.
Proof. induction S1 as [|[o r] S1 IH]; intros S2 m; cbn [app final]; [reflexivity|apply IH]. Qed.

Lemma lin_seq_app : forall a b, lin_seq (a ++ b) = lin_seq a ++ lin_seq b.
Proof.
  induction a as [|[t e] a IH]; intros b; [reflexivity|].
  cbn [app lin_seq]. destruct e; rewrite IH; reflexivity.
Qed.

Lemma res_seq_app : forall a b, res_seq (a ++ b) = res_seq a ++ res_seq b.
Proof.
  induction a as [|[t e] a IH]; intros b; [reflexivity|].
  cbn [app res_seq]. destruct e; rewrite IH; reflexivity.
Qed.

(* a load-or-store wins at most once on a key that is never deleted *)
Fixpoint countp {A} (p : A -> bool) (l : list A) : nat :=
  match l with [] => 0 | x :: r => (if p x then 1 else 0) + countp p r end.

Lemma spec_keeps_key : forall m o k, deletes k o = false -> get m k <> None -> get (fst (spec m o)) k <> None.
Proof.
  intros m o k Hd Hg. destruct o; cbn [spec fst]; try assumption.
  - destruct (Nat.eq_dec k k0) as [->|Hne]; [rewrite get_put_same; discriminate|].
    rewrite get_put_other by assumption. assumption.
  - destruct (get m k0) eqn:E; cbn [fst]; [assumption|].
    destruct (Nat.eq_dec k k0) as [->|Hne]; [rewrite get_put_same; discriminate|].
    rewrite get_put_other by assumption. assumption.
  - destruct (get m k0) eqn:E; cbn [fst]; [assumption|].
    destruct (Nat.eq_dec k k0) as [->|Hne]; [rewrite get_put_same; discriminate|].
    rewrite get_put_other by assumption. assumption.
  - cbn [deletes] in Hd. apply Nat.eqb_neq in Hd. rewrite get_del_other by assumption. assumption.
  - destruct (Nat.eq_dec k k0) as [->|Hne]; [rewrite get_put_same; discriminate|].
    rewrite get_put_other by assumption. assumption.
  - cbn [deletes] in Hd. apply Nat.eqb_neq in Hd. rewrite get_del_other by assumption. assumption.
Qed.

Lemma win_needs_absent : forall m o r k, snd (spec m o) = r -> wins k (o, r) = true ->
  get m k = None /\ get (fst (spec m o)) k <> None.
Proof.
  intros m o r k Hs Hw. destruct o; cbn [wins] in Hw; try discriminate.
  - destruct r; try discriminate. destruct loaded; [discriminate|]. apply Nat.eqb_eq in Hw. subst k0.
    cbn [spec] in *. destruct (get m k) eqn:E; cbn [snd fst] in *; [discriminate|].
    split; [reflexivity|]. rewrite get_put_same. discriminate.
  - destruct r; try discriminate. destruct loaded; [discriminate|]. apply Nat.eqb_eq in Hw. subst k0.
    cbn [spec] in *. destruct (get m k) eqn:E; cbn [snd fst] in *; [discriminate|].
    split; [reflexivity|]. rewrite get_put_same. discriminate.
Qed.

Lemma legal_one_winner : forall k S m, legal m S -> (forall x, In x S -> deletes k (fst x) = false) ->
  countp (wins k) S <= 1 /\ (get m k <> None -> countp (wins k) S = 0).
Proof.
  intros k S. induction S as [|[o r] S IH]; intros m Hl Hd; [cbn; split; lia|].
  cbn [legal] in Hl. destruct Hl as [Hr Hl].
  assert (Hd' : forall x, In x S -> deletes k (fst x) = false) by (intros; apply Hd; right; assumption).
  assert (Hdo : deletes k o = false) by (apply (Hd (o, r)); left; reflexivity).
  destruct (IH _ Hl Hd') as [IH1 IH2]. cbn [countp].
  destruct (wins k (o, r)) eqn:Hw.
  - destruct (win_needs_absent _ _ _ _ Hr Hw) as [Habs Hpres]. rewrite (IH2 Hpres). split; [lia|].
    intros Hx. congruence.
  - split; [lia|]. intros Hx. apply IH2. apply spec_keeps_key; assumption.
Qed.

Lemma two_in_count : forall A (p : A -> bool) (l : list A) x y,
  In x l -> In y l -> x <> y -> p x = true -> p y = true -> 2 <= countp p l.
Proof.
  intros A p l. induction l as [|z l IH]; intros x y Hx Hy Hne Px Py; [destruct Hx|].
  cbn [countp]. destruct Hx as [->|Hx], Hy as [->|Hy].
  - congruence.
  - rewrite Px. assert (1 <= countp p l); [|lia]. clear -Hy Py.
    induction l as [|w l IH]; [destruct Hy|]. cbn [countp]. destruct Hy as [->|Hy]; [rewrite Py; lia|].
    specialize (IH Hy). lia.
  - rewrite Py. assert (1 <= countp p l); [|lia]. clear -Hx Px.
    induction l as [|w l IH]; [destruct Hx|]. cbn [countp]. destruct Hx as [->|Hx]; [rewrite Px; lia|].
    specialize (IH Hx). lia.
  - specialize (IH x y Hx Hy Hne Px Py). lia.
Qed.

(* ---------- the global well-formedness automaton ---------------------------------------------------- *)

Fixpoint gfin (s : nat -> wst) (tr : list sevent) : nat -> wst :=
  match tr with
  | [] => s
  | (t, e) :: rest => match wnext (s t) e with Some x => gfin (wupd s t x) rest | None => s end
  end.

Lemma gwf_app : forall a b s, gwf s (a ++ b) = gwf s a && gwf (gfin s a) b.
Proof.
  induction a as [|[t e] a IH]; intros b s; [reflexivity|].
  cbn [app gwf gfin]. destruct (wnext (s t) e); [apply IH|reflexivity].
Qed.

Lemma gfin_app : forall a b s, gwf s a = true -> gfin s (a ++ b) = gfin (gfin s a) b.
Proof.
  induction a as [|[t e] a IH]; intros b s H; [reflexivity|].
  cbn [app gwf gfin] in *. destruct (wnext (s t) e); [apply IH; assumption|discriminate].
Qed.

Lemma wupd_same : forall s t x, wupd s t x t = x.
Proof. intros. unfold wupd. rewrite Nat.eqb_refl. reflexivity. Qed.
Lemma wupd_other : forall s t x u, u <> t -> wupd s t x u = s u.
Proof. intros s t x u H. unfold wupd. apply Nat.eqb_neq in H. rewrite H. reflexivity. Qed.

Definition pend (w : wst) : list (op * ret) := match w with WLin o r => [(o, r)] | _ => [] end.
Definition busy (w : wst) : nat := match w with WIdle => 0 | _ => 1 end.
Definition filt {A} (t : nat) (L : list (nat * A)) : list A := map snd (filter (fun x => Nat.eqb (fst x) t) L).

Fixpoint inv_count (t : nat) (tr : list sevent) : nat :=
  match tr with
  | [] => 0
  | (u, EInv _) :: r => (if Nat.eqb u t then 1 else 0) + inv_count t r
  | _ :: r => inv_count t r
  end.
Fixpoint res_count (t : nat) (tr : list sevent) : nat :=
  match tr with
  | [] => 0
  | (u, ERes _ _) :: r => (if Nat.eqb u t then 1 else 0) + res_count t r
  | _ :: r => res_count t r
  end.

Lemma filt_cons_same : forall A t (x : A) L, filt t ((t, x) :: L) = x :: filt t L.
Proof. intros. unfold filt. cbn. rewrite Nat.eqb_refl. reflexivity. Qed.
Lemma filt_cons_other : forall A t u (x : A) L, u <> t -> filt t ((u, x) :: L) = filt t L.
Proof. intros A t u x L H. unfold filt. cbn. apply Nat.eqb_neq in H. rewrite H. reflexivity. Qed.

(* per thread: the results at the linearization points are the results returned, in the same order *)
Lemma thread_lin_res : forall l s, gwf s l = true -> forall t,
  pend (s t) ++ filt t (lin_seq l) = filt t (res_seq l) ++ pend (gfin s l t)
  /\ busy (s t) + inv_count t l = res_count t l + busy (gfin s l t).
Proof.
  induction l as [|[u e] l IH]; intros s H t.
  - cbn. rewrite app_nil_r. split; [reflexivity|lia].
  - cbn [gwf gfin] in *. destruct (wnext (s u) e) as [x|] eqn:Hn; [|discriminate].
    destruct (IH _ H t) as [IH1 IH2].
    destruct (Nat.eq_dec u t) as [->|Hne].
    + rewrite wupd_same in IH1, IH2.
      destruct (s t) as [|o|o r] eqn:Hs; destruct e; cbn [wnext] in Hn; try discriminate;
        cbn [lin_seq res_seq inv_count res_count]; rewrite ?Nat.eqb_refl.
      * inversion Hn; subst x. cbn [pend busy] in *. split; [exact IH1|lia].
      * destruct (op_eq_dec o o0); [|discriminate]. inversion Hn; subst. cbn [pend busy] in *.
        rewrite filt_cons_same. split; [exact IH1|lia].
      * inversion Hn; subst x. cbn [pend busy] in *. split; [exact IH1|lia].
      * inversion Hn; subst x. cbn [pend busy] in *. split; [exact IH1|lia].
      * inversion Hn; subst x. cbn [pend busy] in *. split; [exact IH1|lia].
      * inversion Hn; subst x. cbn [pend busy] in *. split; [exact IH1|lia].
      * destruct (op_eq_dec o o0); [|discriminate]. destruct (ret_eq_dec r r0); [|discriminate].
        inversion Hn; subst. cbn [pend busy] in *. rewrite filt_cons_same. cbn [app] in *.
        split; [rewrite IH1; reflexivity|lia].
      * inversion Hn; subst x. cbn [pend busy] in *. split; [exact IH1|lia].
    + rewrite wupd_other in IH1, IH2 by congruence.
      assert (E : Nat.eqb u t = false) by (apply Nat.eqb_neq; assumption).
      destruct e; cbn [lin_seq res_seq inv_count res_count]; rewrite ?E;
        rewrite ?filt_cons_other by assumption; split; try exact IH1; try exact IH2; lia.
Qed.

(* every linearized operation was invoked *)
Definition wop (w : wst) : list op := match w with WIdle => [] | WInv o => [o] | WLin o _ => [o] end.

Lemma lin_ops_invoked : forall (P : op -> Prop) l s, gwf s l = true ->
  (forall t o, In o (wop (s t)) -> P o) ->
  (forall t o, In (t, EInv o) l -> P o) ->
  forall t x, In (t, x) (lin_seq l) -> P (fst x).
Proof.
  intros P. induction l as [|[u e] l IH]; intros s H Hs Hi t x Hin; [destruct Hin|].
  cbn [gwf] in H. destruct (wnext (s u) e) as [w|] eqn:Hn; [|discriminate].
  assert (Hi' : forall t o, In (t, EInv o) l -> P o) by (intros; eapply Hi; right; eassumption).
  assert (Hs' : forall t0 o, In o (wop (wupd s u w t0)) -> P o).
  { intros t0 o Ho. destruct (Nat.eq_dec t0 u) as [->|Hne].
    - rewrite wupd_same in Ho.
      destruct (s u) as [|o1|o1 r1] eqn:Hsu; destruct e; cbn [wnext] in Hn; try discriminate.
      + inversion Hn; subst w. cbn in Ho. destruct Ho as [<-|[]]. apply (Hi u). left. reflexivity.
      + destruct (op_eq_dec o1 o0); [|discriminate]. inversion Hn; subst. cbn in Ho. destruct Ho as [<-|[]].
        apply (Hs u). rewrite Hsu. left. reflexivity.
      + inversion Hn; subst w. apply (Hs u). rewrite Hsu. exact Ho.
      + inversion Hn; subst w. apply (Hs u). rewrite Hsu. exact Ho.
      + inversion Hn; subst w. apply (Hs u). rewrite Hsu. exact Ho.
      + inversion Hn; subst w. apply (Hs u). rewrite Hsu. exact Ho.
      + destruct (op_eq_dec o1 o0); [|discriminate]. destruct (ret_eq_dec r1 r); [|discriminate].
        inversion Hn; subst. destruct Ho.
      + inversion Hn; subst w. apply (Hs u). rewrite Hsu. exact Ho.
    - rewrite wupd_other in Ho by assumption. apply (Hs t0). exact Ho. }
  destruct e; cbn [lin_seq] in Hin; try (eapply IH; eassumption).
  destruct Hin as [Heq|Hin]; [|eapply IH; eassumption].
  inversion Heq; subst. cbn [fst].
  destruct (s t) as [|o1|o1 r1] eqn:Hsu; cbn [wnext] in Hn; try discriminate.
  destruct (op_eq_dec o1 o); [|discriminate]. subst. apply (Hs t). rewrite Hsu. left. reflexivity.
Qed.

Lemma res_seq_hist : forall tr, res_seq (hist tr) = res_seq tr.
Proof.
  induction tr as [|[t e] tr IH]; [reflexivity|].
  unfold hist in *. destruct e; simpl; rewrite ?IH; reflexivity.
Qed.

Lemma in_filt : forall A t (x : A) L, In (t, x) L <-> In x (filt t L).
Proof.
  intros A t x L. unfold filt. split.
  - intros H. apply in_map_iff. exists (t, x). split; [reflexivity|]. apply filter_In. split; [assumption|].
    cbn. apply Nat.eqb_refl.
  - intros H. apply in_map_iff in H. destruct H as [[u y] [<- Hf]]. apply filter_In in Hf.
    destruct Hf as [Hin Hu]. cbn in Hu. apply Nat.eqb_eq in Hu. subst u. exact Hin.
Qed.

Lemma countp_map : forall A B (f : A -> B) p l, countp p (map f l) = countp (fun x => p (f x)) l.
Proof. intros. induction l as [|x l IH]; [reflexivity|]. cbn [map countp]. rewrite IH. reflexivity. Qed.

(* no two winners in any instrumented trace whose linearized operations are legal and never delete k *)
Lemma no_two_winners_gen : forall k tr,
  gwf (fun _ => WIdle) tr = true -> legal [] (map snd (lin_seq tr)) ->
  (forall t o, In (t, EInv o) tr -> deletes k o = false) ->
  ~ two_winners k (hist tr).
Proof.
  intros k tr Hwf Hl Hnd [t1 [t2 [x1 [x2 [Hne [H1 [H2 [W1 W2]]]]]]]].
  rewrite res_seq_hist in H1, H2.
  assert (Hin : forall t x, In (t, x) (res_seq tr) -> In (t, x) (lin_seq tr)).
  { intros t x Hx. destruct (thread_lin_res tr _ Hwf t) as [Heq _]. cbn [pend app] in Heq.
    apply in_filt. rewrite Heq. apply in_or_app. left. apply in_filt. exact Hx. }
  apply Hin in H1. apply Hin in H2.
  assert (Hd : forall x, In x (map snd (lin_seq tr)) -> deletes k (fst x) = false).
  { intros x Hx. apply in_map_iff in Hx. destruct Hx as [[t y] [<- Hy]]. cbn [snd].
    apply (lin_ops_invoked (fun o => deletes k o = false) tr (fun _ => WIdle) Hwf) with (t := t).
    - intros t0 o [].
    - exact Hnd.
    - exact Hy. }
  destruct (legal_one_winner k _ [] Hl Hd) as [Hle _].
  rewrite countp_map in Hle.
  assert (2 <= countp (fun x => wins k (snd x)) (lin_seq tr)); [|lia].
  apply (two_in_count _ _ _ (t1, x1) (t2, x2)); try assumption. congruence.
Qed.

(* ---------- the concrete model: linearization-point invariant ---------------------------------------- *)

Definition abs (th : thread) : wst :=
  match tstate th with
  | TIdle => WIdle
  | TInv o => WInv o
  | TMiss k v => WInv (OLoadOrStoreFn k v)
  | TFn k v => WInv (OLoadOrStoreFn k v)
  | TRng _ _ _ => WInv ORange
  | TRngCb _ _ _ _ _ => WInv ORange
  | TRes o r => WLin o r
  end.

Definition cur_ops (th : thread) : list op :=
  match tstate th with
  | TIdle => []
  | TInv o => [o]
  | TMiss k v => [OLoadOrStoreFn k v]
  | TFn k v => [OLoadOrStoreFn k v]
  | TRng _ _ _ => [ORange]
  | TRngCb _ _ _ _ _ => [ORange]
  | TRes o _ => [o]
  end ++ tops th.

Lemma supd_same : forall f t x, supd f t x t = x.
Proof. intros. unfold supd. rewrite Nat.eqb_refl. reflexivity. Qed.
Lemma supd_other : forall f t x u, u <> t -> supd f t x u = f u.
Proof. intros f t x u H. unfold supd. apply Nat.eqb_neq in H. rewrite H. reflexivity. Qed.

(* programs for which the linearization-point argument applies: no Range, and LoadOrStoreFn only in its
   repaired form *)
Definition ok_ops (rep : bool) (l : list op) : Prop :=
  ~ In ORange l /\ (rep = true \/ forall k v, ~ In (OLoadOrStoreFn k v) l).

(* what one step of the model does *)
Lemma tstep_facts : forall rep ch m th m' th' e,
  tstep rep ch m th = Some (m', th', e) ->
  (forall o, In o (cur_ops th') -> In o (cur_ops th))
  /\ (forall o, e = EInv o -> In o (cur_ops th))
  /\ (ok_ops rep (cur_ops th) ->
      match e with ELin o r => spec m o = (m', r) | _ => m' = m end
      /\ wnext (abs th) e = Some (abs th')).
Proof.
  intros rep ch m [st ops] m' th' e H. unfold tstep in H. cbn [tstate tops] in H.
  destruct st as [|o|k v|k v|must seen acc|must seen acc k v|o r].
  - destruct ops as [|o rest]; [discriminate|]. inversion H; subst. unfold cur_ops, abs. cbn.
    repeat split; auto. intros o0 Ho. inversion Ho; subst. left. reflexivity.
  - destruct o;
      try (destruct (spec m _) as [m1 r1] eqn:Es; inversion H; subst; unfold cur_ops, abs; cbn [tstate tops app];
           repeat split; auto; try discriminate;
           cbn [wnext]; match goal with |- context [op_eq_dec ?a ?a] => destruct (op_eq_dec a a); congruence end).
    + (* LoadOrStoreFn *)
      destruct (get m k) eqn:Eg; inversion H; subst; unfold cur_ops, abs; cbn [tstate tops app].
      * repeat split; auto; try discriminate.
        -- cbn [spec]. rewrite Eg. reflexivity.
        -- cbn [wnext]. destruct (op_eq_dec (OLoadOrStoreFn k v) (OLoadOrStoreFn k v)); congruence.
      * repeat split; auto; discriminate.
    + (* Range *)
      inversion H; subst; unfold cur_ops, abs; cbn [tstate tops app]. repeat split; auto; discriminate.
  - inversion H; subst. unfold cur_ops, abs; cbn [tstate tops app]. repeat split; auto; discriminate.
  - unfold cur_ops, abs; cbn [tstate tops app]. destruct rep.
    + destruct (spec m (OLoadOrStore k v)) as [m1 r1] eqn:Es. inversion H; subst.
      cbn [tstate tops app]. repeat split; auto; try discriminate.
      cbn [wnext]. destruct (op_eq_dec (OLoadOrStoreFn k v) (OLoadOrStoreFn k v)); congruence.
    + inversion H; subst. cbn [tstate tops app]. repeat split; auto; try discriminate;
        destruct H0 as [_ [Hx|Hx]]; try discriminate; exfalso; apply (Hx k v); left; reflexivity.
  - unfold cur_ops, abs. destruct ch as [k|].
    + destruct (existsb (Nat.eqb k) seen); [discriminate|].
      destruct (get m k); inversion H; subst; cbn [tstate tops app]; repeat split; auto; try discriminate.
    + destruct must; [|discriminate]. inversion H; subst. cbn [tstate tops app].
      repeat split; auto; try discriminate; destruct H0 as [Hno _]; exfalso; apply Hno; left; reflexivity.
  - inversion H; subst. unfold cur_ops, abs; cbn [tstate tops app]. repeat split; auto; discriminate.
  - inversion H; subst. unfold cur_ops, abs; cbn [tstate tops app]. repeat split; auto; try discriminate.
    + intros o0 Ho. right. exact Ho.
    + cbn [wnext]. destruct (op_eq_dec o o); [|congruence]. destruct (ret_eq_dec r r); congruence.
Qed.

Lemma gfin_snoc : forall tr s t e x, gwf s tr = true -> wnext (gfin s tr t) e = Some x ->
  gwf s (tr ++ [(t, e)]) = true /\ forall u, gfin s (tr ++ [(t, e)]) u = wupd (gfin s tr) t x u.
Proof.
  intros tr s t e x Hwf Hn. split.
  - rewrite gwf_app, Hwf. cbn [andb gwf]. rewrite Hn. reflexivity.
  - intros u. rewrite gfin_app by assumption. cbn [gfin]. rewrite Hn. reflexivity.
Qed.

Section LinPoint.
Variable rep : bool.
Variable progs : nat -> list op.
Hypothesis progs_ok : forall t, ok_ops rep (progs t).

Lemma ok_ops_incl : forall l l', ok_ops rep l -> (forall o, In o l' -> In o l) -> ok_ops rep l'.
Proof.
  intros l l' [H1 H2] Hi. split; [intros Hx; apply H1, Hi, Hx|].
  destruct H2 as [H2|H2]; [left; assumption|right]. intros k v Hx. apply (H2 k v), Hi, Hx.
Qed.

Lemma lin_invariant : forall c tr, sreach rep progs c tr ->
  legal [] (map snd (lin_seq tr)) /\ final [] (map snd (lin_seq tr)) = sm c
  /\ gwf (fun _ => WIdle) tr = true
  /\ (forall t, gfin (fun _ => WIdle) tr t = abs (sthr c t))
  /\ (forall t o, In o (cur_ops (sthr c t)) -> In o (progs t))
  /\ (forall t o, In (t, EInv o) tr -> In o (progs t)).
Proof.
  intros c tr H. induction H as [|c tr t ch c' e Hr IH Hs].
  - cbn. repeat split; auto. intros t o [].
  - destruct IH as [Hl [Hf [Hwf [Hab [Hops Hinv]]]]].
    unfold sstep in Hs. destruct (tstep rep ch (sm c) (sthr c t)) as [[[m' th'] e']|] eqn:Ht; [|discriminate].
    inversion Hs; subst c' e'. clear Hs.
    destruct (tstep_facts _ _ _ _ _ _ _ Ht) as [Hsub [Hinv_e Hok]].
    assert (Hnr : ok_ops rep (cur_ops (sthr c t))) by (eapply ok_ops_incl; [apply (progs_ok t)|apply Hops]).
    destruct (Hok Hnr) as [Hlin Hnext]. rewrite <- Hab in Hnext.
    destruct (gfin_snoc _ _ _ _ _ Hwf Hnext) as [Hwf' Hfin'].
    rewrite lin_seq_app, map_app, legal_app, final_app, Hf. cbn [sm sthr].
    assert (Hstate : legal (sm c) (map snd (lin_seq [(t, e)])) /\ final (sm c) (map snd (lin_seq [(t, e)])) = m').
    { destruct e; cbn [lin_seq map snd legal final]; try (subst m'; split; [exact I|reflexivity]).
      rewrite Hlin. cbn [fst snd]. split; [split; [reflexivity|exact I]|reflexivity]. }
    destruct Hstate as [Hl2 Hf2].
    repeat split; try assumption.
    + intros u. rewrite Hfin'. destruct (Nat.eq_dec u t) as [->|Hne].
      * rewrite wupd_same, supd_same. reflexivity.
      * rewrite wupd_other, supd_other by assumption. apply Hab.
    + intros u o Ho. destruct (Nat.eq_dec u t) as [->|Hne].
      * rewrite supd_same in Ho. apply Hops, Hsub, Ho.
      * rewrite supd_other in Ho by assumption. apply Hops, Ho.
    + intros u o Hin. apply in_app_or in Hin. destruct Hin as [Hin|[Heq|[]]]; [apply Hinv; assumption|].
      inversion Heq; subst. apply Hops, Hinv_e. reflexivity.
Qed.

End LinPoint.

(* ---------- complete refuter ----------------------------------------------------------------------- *)

Lemma filt_first : forall t R x rest, filt t R = x :: rest ->
  first_of t R = Some x /\ filt t (remove_first t R) = rest
  /\ (forall u, u <> t -> filt u (remove_first t R) = filt u R)
  /\ S (length (remove_first t R)) = length R /\ In t (map fst R).
Proof.
  intros t R. induction R as [|[u y] R IH]; intros x rest H; [discriminate|].
  cbn [first_of remove_first]. destruct (Nat.eqb u t) eqn:E.
  - apply Nat.eqb_eq in E. subst u. rewrite filt_cons_same in H. inversion H; subst.
    repeat split; auto; [|cbn; auto].
    intros u Hu. rewrite filt_cons_other by congruence. reflexivity.
  - apply Nat.eqb_neq in E. rewrite filt_cons_other in H by assumption.
    destruct (IH _ _ H) as [H1 [H2 [H3 [H4 H5]]]]. repeat split.
    + assumption.
    + rewrite filt_cons_other by assumption. assumption.
    + intros w Hw. destruct (Nat.eq_dec u w) as [->|Hne].
      * rewrite !filt_cons_same. rewrite H3 by assumption. reflexivity.
      * rewrite !filt_cons_other by assumption. apply H3. assumption.
    + cbn [length]. rewrite H4. reflexivity.
    + right. assumption.
Qed.

Lemma ret_eqb_refl : forall r, ret_eqb r r = true.
Proof. intros r. unfold ret_eqb. destruct (ret_eq_dec r r); congruence. Qed.

Lemma lexistsb_exists : forall A (f : A -> bool) l, (exists x, In x l /\ f x = true) -> lexistsb f l = true.
Proof.
  intros A f l [x [Hin Hf]]. induction l as [|a l IH]; [destruct Hin|].
  cbn [lexistsb]. destruct (f a) eqn:E; [reflexivity|]. destruct Hin as [->|Hin]; [congruence|apply IH; assumption].
Qed.

Lemma merge_complete : forall L R m,
  (forall t, filt t L = filt t R) -> legal m (map snd L) -> merge_search (S (length R)) m R = true.
Proof.
  induction L as [|[t [o r]] L IH]; intros R m Hf Hl.
  - destruct R as [|[u y] R]; [reflexivity|]. specialize (Hf u). rewrite filt_cons_same in Hf. discriminate.
  - pose proof (Hf t) as Ht. rewrite filt_cons_same in Ht. symmetry in Ht.
    destruct (filt_first _ _ _ _ Ht) as [H1 [H2 [H3 [H4 H5]]]].
    cbn [map snd legal] in Hl. destruct Hl as [Hr Hl].
    destruct R as [|p R0] eqn:ER; [destruct H5|]. rewrite <- ER in *.
    cbn [merge_search]. rewrite ER. rewrite <- ER.
    apply lexistsb_exists. exists t. split; [assumption|].
    rewrite H1. destruct (spec m o) as [m' r'] eqn:Es. cbn [snd fst] in *. subst r'.
    rewrite ret_eqb_refl.
    replace (length R) with (S (length (remove_first t R))) by assumption.
    apply IH; [|assumption].
    intros u. destruct (Nat.eq_dec u t) as [->|Hne]; [symmetry; assumption|].
    rewrite H3 by assumption. specialize (Hf u). rewrite filt_cons_other in Hf by congruence. assumption.
Qed.

Lemma inv_count_hist : forall t tr, inv_count t (hist tr) = inv_count t tr.
Proof.
  intros t. induction tr as [|[u e] tr IH]; [reflexivity|].
  unfold hist in *. destruct e; simpl; rewrite ?IH; reflexivity.
Qed.
Lemma res_count_hist : forall t tr, res_count t (hist tr) = res_count t tr.
Proof.
  intros t. induction tr as [|[u e] tr IH]; [reflexivity|].
  unfold hist in *. destruct e; simpl; rewrite ?IH; reflexivity.
Qed.

(* a complete history none of whose merges is legal is not linearizable *)
Lemma refute_by_merge : forall H,
  (forall t, inv_count t H = res_count t H) ->
  merge_search (S (length (res_seq H))) [] (res_seq H) = false ->
  ~ linearizable H.
Proof.
  intros H Hc Hm [tr [Hh [Hwf Hl]]]. subst H.
  rewrite res_seq_hist in Hm.
  assert (Hf : forall t, filt t (lin_seq tr) = filt t (res_seq tr)).
  { intros t. destruct (thread_lin_res tr _ Hwf t) as [H1 H2]. cbn [pend busy app] in *.
    specialize (Hc t). rewrite inv_count_hist, res_count_hist in Hc.
    assert (Hb : busy (gfin (fun _ => WIdle) tr t) = 0) by lia.
    destruct (gfin (fun _ => WIdle) tr t); cbn in Hb; try discriminate.
    cbn [pend] in H1. rewrite app_nil_r in H1. exact H1. }
  rewrite (merge_complete _ _ _ Hf Hl) in Hm. discriminate.
Qed.

Lemma srun_sreach : forall rep progs sched c tr0 c' tr,
  sreach rep progs c tr0 -> srun rep c sched = Some (c', tr) -> sreach rep progs c' (tr0 ++ tr).
Proof.
  intros rep progs sched. induction sched as [|[t ch] s IH]; intros c tr0 c' tr Hr Hrun.
  - cbn in Hrun. inversion Hrun; subst. rewrite app_nil_r. assumption.
  - cbn [srun] in Hrun. destruct (sstep rep c t ch) as [[c1 e]|] eqn:Hs; [|discriminate].
    destruct (srun rep c1 s) as [[c2 tr2]|] eqn:Hr2; [|discriminate].
    inversion Hrun; subst.
    replace (tr0 ++ (t, e) :: tr2) with ((tr0 ++ [(t, e)]) ++ tr2) by (rewrite <- app_assoc; reflexivity).
    eapply IH; [|exact Hr2]. eapply sreach_step; eassumption.
Qed.

(* ---------- main statements -------------------------------------------------------------------------- *)

Theorem lin_point_theorem : forall rep progs c tr,
  (forall t, ok_ops rep (progs t)) -> sreach rep progs c tr ->
  gwf (fun _ => WIdle) tr = true /\ legal [] (map snd (lin_seq tr)) /\ final [] (map snd (lin_seq tr)) = sm c
  /\ linearizable (hist tr).
Proof.
  intros rep progs c tr Hok Hr.
  destruct (lin_invariant rep progs Hok c tr Hr) as [Hl [Hf [Hwf _]]].
  repeat split; try assumption. exists tr. repeat split; assumption.
Qed.

Theorem one_winner_theorem : forall rep progs c tr k,
  (forall t, ok_ops rep (progs t)) -> (forall t o, In o (progs t) -> deletes k o = false) ->
  sreach rep progs c tr -> ~ two_winners k (hist tr).
Proof.
  intros rep progs c tr k Hok Hnd Hr.
  destruct (lin_invariant rep progs Hok c tr Hr) as [Hl [_ [Hwf [_ [_ Hinv]]]]].
  apply no_two_winners_gen; try assumption.
  intros t o Hin. apply (Hnd t). apply Hinv. assumption.
Qed.

(* witnesses ------------------------------------------------------------------------------------------- *)

(* D-C20a: two callers of the unrepaired LoadOrStoreFn both pass their Load before either stores *)
Definition losf_progs : nat -> list op :=
  fun t => match t with 0 => [OLoadOrStoreFn 0 1] | 1 => [OLoadOrStoreFn 0 2] | _ => [] end.
Definition losf_sched : list (nat * option nat) :=
  [(0, None); (0, None); (0, None); (1, None); (1, None); (1, None); (0, None); (1, None); (0, None); (1, None)].
Definition losf_trace : list sevent :=
  Eval vm_compute in match srun false (sinit losf_progs) losf_sched with Some (_, tr) => tr | None => [] end.

Lemma losf_trace_run : exists c, srun false (sinit losf_progs) losf_sched = Some (c, losf_trace).
Proof. eexists. vm_compute. reflexivity. Qed.

Lemma losf_two_winners : two_winners 0 (hist losf_trace).
Proof.
  exists 0, 1, (OLoadOrStoreFn 0 1, RLos 1 false), (OLoadOrStoreFn 0 2, RLos 2 false).
  vm_compute. repeat split; auto. discriminate.
Qed.

Lemma losf_not_linearizable : ~ linearizable (hist losf_trace).
Proof.
  apply refute_by_merge.
  - intros t. vm_compute. destruct t as [|[|t]]; reflexivity.
  - vm_compute. reflexivity.
Qed.

(* KF-C20c: a Range on an empty map looks at key 1 (absent), a writer then stores key 1 and key 2, the
   Range then looks at key 2: it reports key 2 without key 1 *)
Definition range_progs : nat -> list op :=
  fun t => match t with 0 => [ORange] | 1 => [OStore 1 1; OStore 2 1] | _ => [] end.
Definition range_sched : list (nat * option nat) :=
  [(0, None); (0, None); (0, Some 1); (1, None); (1, None); (1, None); (1, None); (1, None); (1, None);
   (0, Some 2); (0, None); (0, None); (0, None)].
Definition range_trace : list sevent :=
  Eval vm_compute in match srun true (sinit range_progs) range_sched with Some (_, tr) => tr | None => [] end.

Lemma range_trace_run : exists c, srun true (sinit range_progs) range_sched = Some (c, range_trace).
Proof. eexists. vm_compute. reflexivity. Qed.

Lemma range_not_linearizable : ~ linearizable (hist range_trace).
Proof.
  apply refute_by_merge.
  - intros t. vm_compute. destruct t as [|[|t]]; reflexivity.
  - vm_compute. reflexivity.
Qed.

(* ---------- a Range that runs without interference reports exactly the map ------------------------------ *)

Lemma get_in_keys : forall m k, get m k <> None -> In k (keys_of m).
Proof.
  induction m as [|[k' v] m IH]; intros k H; [cbn in H; congruence|].
  cbn [get] in H. cbn [keys_of map fst]. destruct (Nat.eqb k k') eqn:E.
  - left. apply Nat.eqb_eq in E. congruence.
  - right. apply IH. exact H.
Qed.

Definition range_inv (m : smap) (th : thread) : Prop :=
  match tstate th with
  | TInv ORange => True
  | TRng must seen acc =>
      (forall k, get acc k = if existsb (Nat.eqb k) seen then get m k else None)
      /\ (forall k, get m k <> None -> In k seen \/ In k must)
  | TRngCb must seen acc _ _ =>
      (forall k, get acc k = if existsb (Nat.eqb k) seen then get m k else None)
      /\ (forall k, get m k <> None -> In k seen \/ In k must)
  | TRes ORange (RList acc) => forall k, get acc k = get m k
  | _ => False
  end.

Definition not_res (e : sev) : Prop := match e with ERes _ _ => False | _ => True end.

Lemma range_step : forall rep ch m th m' th' e,
  range_inv m th -> tstep rep ch m th = Some (m', th', e) -> not_res e -> m' = m /\ range_inv m th'.
Proof.
  intros rep ch m [st ops] m' th' e Hinv Hs Hnr. unfold range_inv in Hinv. cbn [tstate] in Hinv.
  unfold tstep in Hs. cbn [tstate tops] in Hs.
  destruct st as [|o|k v|k v|must seen acc|must seen acc k1 v1|o r]; try contradiction.
  - destruct o; try contradiction. inversion Hs; subst. split; [reflexivity|]. unfold range_inv. cbn [tstate].
    split; [intros k; reflexivity|]. intros k Hk. right. apply get_in_keys. exact Hk.
  - destruct Hinv as [HI HII]. destruct ch as [k0|].
    + destruct (existsb (Nat.eqb k0) seen) eqn:Es; [discriminate|].
      assert (Hmust : forall k, get m k <> None ->
                In k (k0 :: seen) \/ In k (filter (fun k' => negb (Nat.eqb k' k0)) must)).
      { intros k Hk. destruct (Nat.eq_dec k k0) as [->|Hne]; [left; left; reflexivity|].
        destruct (HII k Hk) as [H|H]; [left; right; assumption|right].
        apply filter_In. split; [assumption|]. apply negb_true_iff. apply Nat.eqb_neq. assumption. }
      destruct (get m k0) as [v|] eqn:Eg; inversion Hs; subst; (split; [reflexivity|]);
        unfold range_inv; cbn [tstate]; (split; [|exact Hmust]); intros k; cbn [existsb];
        destruct (Nat.eqb k k0) eqn:Ek; cbn [orb].
      * apply Nat.eqb_eq in Ek. subst k. rewrite Eg. apply get_put_same.
      * apply Nat.eqb_neq in Ek. rewrite get_put_other by assumption. apply HI.
      * apply Nat.eqb_eq in Ek. subst k. rewrite HI, Es, Eg. reflexivity.
      * apply HI.
    + destruct must; [|discriminate]. inversion Hs; subst. split; [reflexivity|]. unfold range_inv. cbn [tstate].
      intros k. rewrite HI. destruct (existsb (Nat.eqb k) seen) eqn:Es; [reflexivity|].
      destruct (get m' k) eqn:Eg; [|reflexivity]. exfalso.
      destruct (HII k) as [H|[]]; [congruence|].
      assert (existsb (Nat.eqb k) seen = true); [|congruence].
      apply existsb_exists. exists k. split; [assumption|apply Nat.eqb_refl].
  - inversion Hs; subst. split; [reflexivity|]. unfold range_inv. cbn [tstate]. exact Hinv.
  - destruct o; try contradiction. destruct r; try contradiction. inversion Hs; subst. cbn in Hnr. contradiction.
Qed.

Theorem range_alone : forall rep sched c c' tr t,
  (forall x, In x sched -> fst x = t) -> range_inv (sm c) (sthr c t) ->
  srun rep c sched = Some (c', tr) -> (forall e, In e tr -> not_res (snd e)) ->
  sm c' = sm c /\ range_inv (sm c) (sthr c' t).
Proof.
  intros rep sched. induction sched as [|[u ch] s IH]; intros c c' tr t Ht Hinv Hrun Hnr.
  - cbn in Hrun. inversion Hrun; subst. split; [reflexivity|assumption].
  - cbn [srun] in Hrun. destruct (sstep rep c u ch) as [[c1 e]|] eqn:Hs; [|discriminate].
    destruct (srun rep c1 s) as [[c2 tr2]|] eqn:Hr2; [|discriminate]. inversion Hrun; subst c2 tr.
    assert (u = t) by (apply (Ht (u, ch)); left; reflexivity). subst u.
    unfold sstep in Hs. destruct (tstep rep ch (sm c) (sthr c t)) as [[[m' th'] e']|] eqn:Hts; [|discriminate].
    inversion Hs; subst c1 e'. clear Hs.
    destruct (range_step _ _ _ _ _ _ _ Hinv Hts) as [Hm Hinv'].
    { apply (Hnr (t, e)). left. reflexivity. }
    subst m'.
    destruct (IH (mkScfg (sm c) (supd (sthr c) t th')) c' tr2 t) as [H1 H2].
    + intros x Hx. apply Ht. right. assumption.
    + cbn [sm sthr]. rewrite supd_same. assumption.
    + assumption.
    + intros e0 He0. apply Hnr. right. assumption.
    + cbn [sm] in *. split; assumption.
Qed.
