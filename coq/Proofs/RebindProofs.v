(* Lemmas about Model/Rebind.v (C17: population passes over time). *)
From Coq Require Import List NArith ZArith Bool.
From IocVerif Require Import Model.Values Model.ConfigStore Model.Rebind.
From IocVerif Require Import Proofs.StrconvProofs Proofs.ValuesProofs Proofs.ConfigStoreProofs.
Import ListNotations.

Lemma pstate_app : forall a b s, pstate s (a ++ b) = pstate (pstate s a) b.
Proof.
  induction a as [|st a IH]; intros b s; [reflexivity|].
  destruct st as [k v|ps]; cbn [app pstate]; apply IH.
Qed.

Lemma pstate_sets_only : forall steps s, pstate s (psets_only steps) = pstate s steps.
Proof.
  induction steps as [|st r IH]; intros s; [reflexivity|].
  destruct st as [k v|ps]; cbn [psets_only filter pstate]; apply IH.
Qed.

Lemma prun_app : forall a b fx s, prun fx s (a ++ b) = prun fx s a ++ prun fx (pstate s a) b.
Proof.
  induction a as [|st a IH]; intros b fx s; [reflexivity|].
  destruct st as [k v|ps]; cbn [app prun pstate].
  - apply IH.
  - rewrite IH. reflexivity.
Qed.

Lemma prun_sets_only : forall steps fx s, prun fx s (psets_only steps) = [].
Proof.
  induction steps as [|st r IH]; intros fx s; [reflexivity|].
  destruct st as [k v|ps]; cbn [psets_only filter prun]; apply IH.
Qed.

(* the pass that follows a history [before] binds what the same pass binds after the Sets of [before] alone:
   earlier passes - over the same points or others, any number of them - leave no trace *)
Lemma prun_pass_after : forall fx s before ps,
  prun fx s (before ++ [PPopulate ps]) = prun fx s before ++ [populate fx (pstate s (psets_only before)) ps].
Proof.
  intros fx s before ps. rewrite prun_app. cbn [prun]. rewrite pstate_sets_only. reflexivity.
Qed.

Lemma last_pass : forall fx s before ps,
  last (prun fx s (before ++ [PPopulate ps])) [] = populate fx (pstate s (psets_only before)) ps.
Proof. intros. rewrite prun_pass_after. apply last_last. Qed.

(* after Set(k, v) the prefix point on k (any letter case) binds the value that was set *)
Lemma bind_prefix_after_set : forall fx s k k' v req T,
  lower k = lower k' -> lower_keys v <> VNull ->
  bind_point fx (vget (vset s k v)) (mkCPoint RtPrefix req k' T) = Some (bind_prefix_r req (lower_keys v) T).
Proof.
  intros fx s k k' v req T Hk Hv. unfold bind_point. cbn [cp_route cp_req cp_text cp_type].
  rewrite (vget_vset_same s k k' v Hk Hv). reflexivity.
Qed.

(* ... and so do the value placeholder and the prop shorthand, for every value and type of the agreement domain *)
Lemma bind_value_after_set : forall fx s k v T text,
  key_ok k = true -> lower_keys v <> VNull ->
  safe fx (lower_keys v) T = true -> format_cfg fx (lower_keys v) = Ok text -> inert text = true ->
  bind_point fx (vget (vset s k v)) (mkCPoint RtValue true (ph k) T) = Some (bind_prefix (lower_keys v) T).
Proof.
  intros fx s k v T text Hk Hv Hs Hf Hi. unfold bind_point. cbn [cp_route cp_req cp_text cp_type].
  pose proof (vget_vset_same s k k v eq_refl Hv) as Hg.
  change (bind_tag_value fx (vget (vset s k v)) true (ph k) T) with (bind_key_value fx (vget (vset s k v)) k T).
  rewrite (paths_agree_key fx (vget (vset s k v)) k T text Hk); try rewrite Hg; auto.
Qed.

Lemma bind_prop_after_set : forall fx s k v T text,
  key_ok k = true -> simple_key k = true -> lower_keys v <> VNull ->
  safe fx (lower_keys v) T = true -> format_cfg fx (lower_keys v) = Ok text -> inert text = true ->
  bind_point fx (vget (vset s k v)) (mkCPoint RtProp true k T) = Some (bind_prefix (lower_keys v) T).
Proof.
  intros fx s k v T text Hk Hsk Hv Hs Hf Hi. unfold bind_point. cbn [cp_route cp_req cp_text cp_type].
  pose proof (vget_vset_same s k k v eq_refl Hv) as Hg.
  destruct (prop_is_value fx (vget (vset s k v)) true k [] T Hsk (or_introl eq_refl)) as [H1 H2].
  rewrite (app_nil_r k), (app_nil_r (ph k)) in H1. rewrite (app_nil_r (ph k)) in H2. rewrite H1, H2.
  change (bind_tag_value fx (vget (vset s k v)) true (ph k) T) with (bind_key_value fx (vget (vset s k v)) k T).
  rewrite (paths_agree_key fx (vget (vset s k v)) k T text Hk); try rewrite Hg; auto.
Qed.
