(* What a Range of the step model (Model/SyncMap.v) guarantees under EVERY interleaving, although it is not a
   snapshot (KF-C20c, c20_range_refuted) — the contract sync.Map documents ("no key is visited more than once; if the
   value for a key is stored or deleted concurrently, Range may reflect any mapping for that key from any point during
   the Range call") and the two conditions Model/ScanCheck.v evaluates on histories recorded from the real containers:

     provenance    every reported pair (k, v) was the mapping of k at some instant of this Range call;
     completeness  every key that was present when the call began has been visited, once, and what the Range
                   reports for it (a value, or nothing) is its mapping at the instant of that visit.

   Both for all programs (Range, LoadOrStoreFn in either form, any number of threads) and all schedules, by one
   invariant over reachable configurations.  "At some instant of the call" is a reachable configuration c1 with a
   prefix tr1 of the trace, after which the thread issues no further invocation. *)
From Coq Require Import List Arith Bool Lia.
From IocVerif Require Import Model.SyncMap Proofs.SyncMapProofs.
Import ListNotations.

Section Range.
  Variable rep : bool.
  Variable progs : nat -> list op.

  (* thread t loaded key k at a reachable configuration c1 whose map holds x for k; nothing after it in the trace is
     an invocation by t (so the visit belongs to t's current call) *)
  Definition visited (t : nat) (tr : list sevent) (k : nat) (x : option nat) : Prop :=
    exists c1 tr1 b1, sreach rep progs c1 tr1 /\ tr = tr1 ++ (t, EVisit k x) :: b1
      /\ get (sm c1) k = x /\ (forall o, ~ In (t, EInv o) b1).

  (* the call began at a reachable configuration c0 *)
  Definition began (t : nat) (tr : list sevent) (c0 : scfg) : Prop :=
    exists tr0 b, sreach rep progs c0 tr0 /\ tr = tr0 ++ b /\ tstate (sthr c0 t) = TInv ORange
      /\ (forall o, ~ In (t, EInv o) b).

  Definition rinv (t : nat) (tr : list sevent) (th : thread) : Prop :=
    match tstate th with
    | TRng must seen acc | TRngCb must seen acc _ _ =>
        (exists c0, began t tr c0 /\ forall k, get (sm c0) k <> None -> In k must \/ In k seen)
        /\ (forall k, In k seen -> exists x, visited t tr k x /\ get acc k = x)
        /\ (forall k, get acc k <> None -> In k seen)
    | TRes ORange (RList acc) =>
        (exists c0, began t tr c0 /\ forall k, get (sm c0) k <> None -> exists x, visited t tr k x /\ get acc k = x)
        /\ (forall k v, get acc k = Some v -> visited t tr k (Some v))
    | _ => True
    end.

  Lemma visited_ext t tr k x u e :
    (u = t -> forall o, e <> EInv o) -> visited t tr k x -> visited t (tr ++ [(u, e)]) k x.
  Proof.
    intros Hne [c1 [tr1 [b1 [Hr [Htr [Hg Hb]]]]]]. exists c1, tr1, (b1 ++ [(u, e)]).
    split; [exact Hr|]. split; [rewrite Htr, <- app_assoc; reflexivity|]. split; [exact Hg|].
    intros o Hin. apply in_app_or in Hin. destruct Hin as [Hin|[Heq|[]]]; [apply (Hb o Hin)|].
    inversion Heq; subst. apply (Hne eq_refl o). reflexivity.
  Qed.

  Lemma began_ext t tr c0 u e :
    (u = t -> forall o, e <> EInv o) -> began t tr c0 -> began t (tr ++ [(u, e)]) c0.
  Proof.
    intros Hne [tr0 [b [Hr [Htr [Hst Hb]]]]]. exists tr0, (b ++ [(u, e)]).
    split; [exact Hr|]. split; [rewrite Htr, <- app_assoc; reflexivity|]. split; [exact Hst|].
    intros o Hin. apply in_app_or in Hin. destruct Hin as [Hin|[Heq|[]]]; [apply (Hb o Hin)|].
    inversion Heq; subst. apply (Hne eq_refl o). reflexivity.
  Qed.

  Lemma rinv_ext t tr th u e :
    (u = t -> forall o, e <> EInv o) -> rinv t tr th -> rinv t (tr ++ [(u, e)]) th.
  Proof.
    intros Hne. unfold rinv. destruct (tstate th) as [|o|k v|k v|must seen acc|must seen acc k v|o r]; auto.
    - intros [[c0 [Hb Hk]] [Hs Ha]]. split; [exists c0; split; [apply began_ext; assumption|exact Hk]|].
      split; [|exact Ha]. intros k Hin. destruct (Hs k Hin) as [x [Hv Hg]]. exists x. split; [apply visited_ext; assumption|exact Hg].
    - intros [[c0 [Hb Hk]] [Hs Ha]]. split; [exists c0; split; [apply began_ext; assumption|exact Hk]|].
      split; [|exact Ha]. intros k0 Hin. destruct (Hs k0 Hin) as [x [Hv Hg]]. exists x. split; [apply visited_ext; assumption|exact Hg].
    - destruct o; auto. destruct r as [| | | |acc]; auto.
      intros [[c0 [Hb Hk]] Hp]. split.
      + exists c0. split; [apply began_ext; assumption|]. intros k Hk0. destruct (Hk k Hk0) as [x [Hv Hg]].
        exists x. split; [apply visited_ext; assumption|exact Hg].
      + intros k v Hg. apply visited_ext; [assumption|apply Hp; exact Hg].
  Qed.

  Lemma in_existsb k l : In k l -> existsb (Nat.eqb k) l = true.
  Proof. intros H. apply existsb_exists. exists k. split; [exact H|apply Nat.eqb_refl]. Qed.

  Theorem range_invariant : forall c tr, sreach rep progs c tr -> forall t, rinv t tr (sthr c t).
  Proof.
    intros c tr H. induction H as [|c tr u ch c' e Hr IH Hs]; intros t.
    - cbn. exact I.
    - unfold sstep in Hs. destruct (tstep rep ch (sm c) (sthr c u)) as [[[m' th'] e']|] eqn:Ht; [|discriminate].
      inversion Hs; subst c' e'. clear Hs. cbn [sthr].
      destruct (Nat.eq_dec t u) as [->|Hne].
      2:{ rewrite supd_other by exact Hne. apply rinv_ext; [intros ->; contradiction|apply IH]. }
      rewrite supd_same. specialize (IH u). unfold tstep in Ht.
      destruct (sthr c u) as [st ops] eqn:Eth. cbn [tstate tops] in Ht. unfold rinv in IH. cbn [tstate] in IH.
      destruct st as [|o|k v|k v|must seen acc|must seen acc k v|o r].
      + (* idle: a new invocation *)
        destruct ops as [|o rest]; [discriminate|]. inversion Ht; subst. unfold rinv. cbn [tstate]. exact I.
      + (* invoked *)
        destruct o; try (destruct (spec (sm c) _) as [m1 r1]; inversion Ht; subst; unfold rinv; cbn [tstate]; exact I).
        * destruct (get (sm c) k); inversion Ht; subst; unfold rinv; cbn [tstate]; exact I.
        * (* Range begins here *)
          inversion Ht; subst. unfold rinv. cbn [tstate]. split; [|split].
          -- exists c. split.
             ++ exists tr, [(u, ETau)]. split; [exact Hr|]. split; [reflexivity|]. split; [rewrite Eth; reflexivity|].
                intros o [Heq|[]]. inversion Heq.
             ++ intros k Hk. left. apply get_in_keys. exact Hk.
          -- intros k [].
          -- intros k Hk. cbn in Hk. contradiction.
      + inversion Ht; subst. unfold rinv. cbn [tstate]. exact I.
      + destruct rep.
        * destruct (spec (sm c) (OLoadOrStore k v)) as [m1 r1]. inversion Ht; subst. unfold rinv. cbn [tstate]. exact I.
        * inversion Ht; subst. unfold rinv. cbn [tstate]. exact I.
      + (* a Range step *)
        destruct IH as [[c0 [Hb Hk]] [Hseen Hacc]].
        destruct ch as [k|].
        * destruct (existsb (Nat.eqb k) seen) eqn:Ese; [discriminate|].
          assert (Hns : ~ In k seen) by (intros Hin; rewrite (in_existsb k seen Hin) in Ese; discriminate).
          assert (Hnow : forall x, get (sm c) k = x -> visited u (tr ++ [(u, EVisit k x)]) k x).
          { intros x Hx. exists c, tr, []. split; [exact Hr|]. split; [reflexivity|]. split; [exact Hx|]. intros o []. }
          assert (Hmust : forall k0, get (sm c0) k0 <> None ->
                    In k0 (filter (fun k' => negb (Nat.eqb k' k)) must) \/ In k0 (k :: seen)).
          { intros k0 H0. destruct (Nat.eq_dec k0 k) as [->|Hnk]; [right; left; reflexivity|].
            destruct (Hk k0 H0) as [Hm|Hs']; [left|right; right; exact Hs'].
            apply filter_In. split; [exact Hm|]. apply negb_true_iff. apply Nat.eqb_neq. exact Hnk. }
          destruct (get (sm c) k) as [v|] eqn:Eg; inversion Ht; subst; unfold rinv; cbn [tstate].
          -- split; [exists c0; split; [apply began_ext; [intros _ o; discriminate|exact Hb]|exact Hmust]|]. split.
             ++ intros k0 [<-|Hin].
                ** exists (Some v). split; [apply Hnow; reflexivity|apply get_put_same].
                ** assert (Hnk : k0 <> k) by (intros ->; contradiction).
                   destruct (Hseen k0 Hin) as [x [Hv Hg]]. exists x.
                   split; [apply visited_ext; [intros _ o; discriminate|exact Hv]|].
                   rewrite get_put_other by exact Hnk. exact Hg.
             ++ intros k0 H0. destruct (Nat.eq_dec k0 k) as [->|Hnk]; [left; reflexivity|].
                right. apply Hacc. rewrite get_put_other in H0 by exact Hnk. exact H0.
          -- split; [exists c0; split; [apply began_ext; [intros _ o; discriminate|exact Hb]|exact Hmust]|]. split.
             ++ intros k0 [<-|Hin].
                ** exists None. split; [apply Hnow; reflexivity|].
                   destruct (get acc k) eqn:Ea; [|reflexivity]. exfalso. apply Hns. apply Hacc. rewrite Ea. discriminate.
                ** destruct (Hseen k0 Hin) as [x [Hv Hg]]. exists x.
                   split; [apply visited_ext; [intros _ o; discriminate|exact Hv]|exact Hg].
             ++ intros k0 H0. right. apply Hacc. exact H0.
        * (* the Range finishes: every key that had to be visited has been *)
          destruct must; [|discriminate]. inversion Ht; subst. unfold rinv. cbn [tstate]. split.
          -- exists c0. split; [apply began_ext; [intros _ o; discriminate|exact Hb]|].
             intros k H0. destruct (Hk k H0) as [[]|Hin].
             destruct (Hseen k Hin) as [x [Hv Hg]]. exists x.
             split; [apply visited_ext; [intros _ o; discriminate|exact Hv]|exact Hg].
          -- intros k v Hg. assert (Hin : In k seen) by (apply Hacc; rewrite Hg; discriminate).
             destruct (Hseen k Hin) as [x [Hv Hx]]. rewrite Hg in Hx. subst x.
             apply visited_ext; [intros _ o; discriminate|exact Hv].
      + (* the callback is entered *)
        inversion Ht; subst. apply (rinv_ext u tr (mkThread (TRng must seen acc) ops) u (ECb k v));
          [intros _ o; discriminate|]. unfold rinv. cbn [tstate]. exact IH.
      + inversion Ht; subst. unfold rinv. cbn [tstate]. exact I.
  Qed.

  (* the two statements, for a Range whose result has been determined *)
  Theorem range_provenance : forall c tr t ops acc,
    sreach rep progs c tr -> sthr c t = mkThread (TRes ORange (RList acc)) ops ->
    forall k v, get acc k = Some v -> visited t tr k (Some v).
  Proof.
    intros c tr t ops acc Hr Hst. pose proof (range_invariant c tr Hr t) as Hi. rewrite Hst in Hi.
    unfold rinv in Hi. cbn [tstate] in Hi. destruct Hi as [_ Hp]. exact Hp.
  Qed.

  Theorem range_completeness : forall c tr t ops acc,
    sreach rep progs c tr -> sthr c t = mkThread (TRes ORange (RList acc)) ops ->
    exists c0, began t tr c0 /\
      forall k, get (sm c0) k <> None -> exists x, visited t tr k x /\ get acc k = x.
  Proof.
    intros c tr t ops acc Hr Hst. pose proof (range_invariant c tr Hr t) as Hi. rewrite Hst in Hi.
    unfold rinv in Hi. cbn [tstate] in Hi. destruct Hi as [Hc _]. exact Hc.
  Qed.
End Range.
