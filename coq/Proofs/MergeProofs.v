(* MergeProofs.v — the recogniser of Model/Merge.v is exact: merge_b eqb ls r = true <-> Merge ls r. *)
From Coq Require Import List Arith Bool Lia.
From IocVerif Require Import Model.Merge.
Import ListNotations.

Section MergeProofs.
  Context {B : Type}.
  Variable eqb : B -> B -> bool.
  Hypothesis eqb_spec : forall a b, eqb a b = true <-> a = b.

  Lemma list_eqb_spec : forall a b, list_eqb eqb a b = true <-> a = b.
  Proof.
    induction a as [|x a IH]; intros [|y b]; cbn; split; intros H; try reflexivity; try discriminate.
    - destruct (eqb x y) eqn:E; [|discriminate]. apply eqb_spec in E. apply IH in H. subst. reflexivity.
    - injection H as -> ->. assert (E : eqb y y = true) by (apply eqb_spec; reflexivity). rewrite E.
      apply IH. reflexivity.
  Qed.

  Lemma sel_nil : forall j, sel j (@nil (nat * B)) = [].
  Proof. reflexivity. Qed.

  Lemma sel_cons : forall j i (x : B) r, sel j ((i, x) :: r) = if Nat.eqb i j then x :: sel j r else sel j r.
  Proof. intros. unfold sel. cbn. destruct (Nat.eqb i j); reflexivity. Qed.

  Lemma sel_app : forall j (a b : list (nat * B)), sel j (a ++ b) = sel j a ++ sel j b.
  Proof. intros. unfold sel. rewrite filter_app, map_app. reflexivity. Qed.

  (* the recogniser as a proposition *)
  Definition merge_P (ls : list (list B)) (r : list (nat * B)) : Prop :=
    (forall e, In e r -> fst e < length ls) /\ (forall j, j < length ls -> sel j r = nth j ls []).

  Lemma merge_b_P : forall ls r, merge_b eqb ls r = true <-> merge_P ls r.
  Proof.
    intros. unfold merge_b, merge_P. rewrite andb_true_iff, !forallb_forall. split; intros [H1 H2]; split.
    - intros e He. apply Nat.ltb_lt. apply H1; assumption.
    - intros j Hj. apply list_eqb_spec. apply H2. apply in_seq. lia.
    - intros e He. apply Nat.ltb_lt. apply H1; assumption.
    - intros j Hj. apply list_eqb_spec. apply H2. apply in_seq in Hj. lia.
  Qed.

  Lemma nth_app_other : forall (ls1 ls2 : list (list B)) a b j, j <> length ls1 ->
    nth j (ls1 ++ a :: ls2) [] = nth j (ls1 ++ b :: ls2) [].
  Proof.
    intros ls1 ls2 a b j Hj. destruct (Nat.lt_ge_cases j (length ls1)) as [Hlt|Hge].
    - rewrite !app_nth1 by assumption. reflexivity.
    - rewrite !app_nth2 by assumption. destruct (j - length ls1) as [|k] eqn:E; [lia|]. reflexivity.
  Qed.

  Lemma len_mid : forall (ls1 ls2 : list (list B)) a, length (ls1 ++ a :: ls2) = length ls1 + S (length ls2).
  Proof. intros. rewrite app_length. reflexivity. Qed.

  Lemma Merge_P : forall ls r, Merge ls r -> merge_P ls r.
  Proof.
    intros ls r H. induction H as [ls Hall | ls1 x l ls2 r H [IH1 IH2]].
    - split; [intros e []|]. intros j Hj. rewrite sel_nil. symmetry.
      rewrite Forall_forall in Hall. apply Hall. apply nth_In. assumption.
    - split.
      + intros e [<-|He]; cbn [fst]; rewrite len_mid; [lia|]. specialize (IH1 e He). rewrite len_mid in IH1. assumption.
      + intros j Hj. rewrite len_mid in Hj. rewrite sel_cons. destruct (Nat.eqb (length ls1) j) eqn:E.
        * apply Nat.eqb_eq in E. subst j. rewrite nth_middle. f_equal.
          rewrite IH2 by (rewrite len_mid; lia). apply nth_middle.
        * apply Nat.eqb_neq in E. rewrite IH2 by (rewrite len_mid; lia). apply nth_app_other. lia.
  Qed.

  Lemma P_Merge : forall r ls, merge_P ls r -> Merge ls r.
  Proof.
    induction r as [|[i x] r IH]; intros ls [H1 H2].
    - apply Merge_nil. apply Forall_forall. intros l Hl.
      destruct (In_nth _ _ [] Hl) as [j [Hj Hn]]. rewrite <- Hn, <- H2 by assumption. reflexivity.
    - assert (Hi : i < length ls) by (apply (H1 (i, x)); left; reflexivity).
      destruct (nth_split ls [] Hi) as [ls1 [ls2 [Hls Hlen]]].
      pose proof (H2 i Hi) as Hsel. rewrite sel_cons, Nat.eqb_refl in Hsel.
      rewrite <- Hsel in Hls. subst i. rewrite Hls. apply Merge_cons. apply IH. split.
      + intros e He. rewrite len_mid. assert (Hx : fst e < length ls) by (apply H1; right; assumption).
        rewrite Hls, len_mid in Hx. assumption.
      + intros j Hj. rewrite len_mid in Hj. destruct (Nat.eq_dec j (length ls1)) as [->|Hne].
        * rewrite nth_middle. reflexivity.
        * assert (Hj' : j < length ls) by (rewrite Hls, len_mid; assumption).
          pose proof (H2 j Hj') as Hs. rewrite sel_cons in Hs.
          assert (E : Nat.eqb (length ls1) j = false) by (apply Nat.eqb_neq; lia). rewrite E in Hs.
          rewrite Hs. rewrite Hls at 1. apply nth_app_other. assumption.
  Qed.

  Theorem merge_b_iff : forall ls r, merge_b eqb ls r = true <-> Merge ls r.
  Proof. intros. rewrite merge_b_P. split; [apply P_Merge|apply Merge_P]. Qed.

  (* what agent j contributed to an interleaving is its own sequence *)
  Lemma Merge_sel : forall (ls : list (list B)) r j, Merge ls r -> j < length ls -> sel j r = nth j ls [].
  Proof. intros ls r j H Hj. apply (proj2 (Merge_P _ _ H)). assumption. Qed.
End MergeProofs.
