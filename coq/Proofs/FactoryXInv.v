(* The version invariant (C01, C03) for the EXTENDED semantics of a start (Model/FactoryX.v): post-processors
   that short-circuit instantiation and Init methods that look components up in the factory.

   The invariant is Proofs/FactoryInvariant.v's InvG with the guard "k < 100": it speaks about injection points.
   What an Init-time lookup returns is kept in the pseudo-fields 100, 101, ... of the component; no dependent is
   recorded for it (nothing goes through Property.Inject), so the stale-dependents check cannot see the taker and
   the invariant does NOT hold of those pseudo-fields (c03x_init_lookup_keeps_early_reference in Properties/C03.v
   exhibits a start that succeeds with a pseudo-field holding a superseded early reference).

   Everything else carries over: along every successful nested call of the extended doGetComponent the
   guarded invariant is kept, creations stay bracketed, current versions stay current, and the returned
   version is the current one. *)
From Coq Require Import List Arith Bool Lia.
From IocVerif Require Import Model.Registry Model.Resolve Model.Factory Model.App Model.FactoryTrace Model.FactoryX
  Proofs.FactoryBasics Proofs.FactoryInvariant Proofs.FactoryTraceProofs.
Import ListNotations.

Definition injk : nat -> Prop := fun k => k < 100.
Notation InvX := (InvG injk).
Notation topX := (@topG injk).

Definition erase {A : Type} (f : fstate -> name -> tres A) : fstate -> name -> res A := fun st d => snd (f st d).

Lemma field_of_write_plain st h k vs h' k' :
  field_of (write_plain st h k vs) h' k' = if key_eqb (h, k) (h', k') then vs else field_of st h' k'.
Proof. unfold field_of, write_plain. cbn [flds klookup]. destruct (key_eqb (h, k) (h', k')); reflexivity. Qed.

Lemma InvX_write_plain st h j vs : InvX st -> InvX (write_plain st h (100 + j) vs).
Proof.
  intros [I1 I2 I3 I4 I5 I6 I7 I8 I9].
  assert (Hfo : forall h' k', injk k' -> field_of (write_plain st h (100 + j) vs) h' k' = field_of st h' k').
  { intros h' k' Hk. rewrite field_of_write_plain. destruct (key_eqb (h, 100 + j) (h', k')) eqn:E; [|reflexivity].
    apply key_eqb_true in E. inversion E; subst. unfold injk in Hk. lia. }
  constructor; try assumption.
  - intros h' k' v Hp Hv. rewrite (Hfo h' k' Hp) in Hv. apply (I6 h' k' v Hp Hv).
  - intros h' k' v Hp Hv. rewrite (Hfo h' k' Hp) in Hv. apply (I7 h' k' v Hp Hv).
  - intros h' k' v Hp Hv HL Hin. rewrite (Hfo h' k' Hp) in Hv. apply (I8 h' k' v Hp Hv HL Hin).
  - intros h' k' v Hp Hv. rewrite (Hfo h' k' Hp) in Hv. apply (I9 h' k' v Hp Hv).
Qed.

Section SpecX.
  Variable vt : variant.
  Hypothesis Hfix : fix_c03 vt = true.
  Variable s : scenario.
  Variable x : extras.
  Variable rect : fstate -> name -> tres (fstate * ver).
  Hypothesis Hrec : rec_specG (P := injk) (erase rect).

  Lemma Hrec' st d o st' v : InvX st -> rect st d = (o, Ok (st', v)) ->
    InvX st' /\ creating (reg st') = creating (reg st) /\ keeps (reg st) (reg st') /\ cur (reg st') d = Some v.
  Proof. intros HI H. apply (Hrec st d st' v HI). unfold erase. rewrite H. reflexivity. Qed.

  Lemma init_gets_spec n : forall ds j st o st',
    InvX st -> init_gets_t rect n j ds st = (o, Ok st') ->
    InvX st' /\ creating (reg st') = creating (reg st) /\ keeps (reg st) (reg st').
  Proof.
    induction ds as [|d r IH]; intros j st o st' HI H; cbn [init_gets_t] in H.
    - inversion H; subst. split; [exact HI|]. split; [reflexivity|apply keeps_refl].
    - destruct (rect st d) as [o1 [[st1 v]|k st1]] eqn:E; [|discriminate].
      destruct (Hrec' st d o1 st1 v HI E) as [HI1 [Hc1 [Hk1 _]]].
      destruct (init_gets_t rect n (S j) r (write_plain st1 n (100 + j) [v])) as [o2 r2] eqn:E2.
      inversion H; subst o r2.
      destruct (IH (S j) _ o2 st' (InvX_write_plain st1 n j [v] HI1) E2) as [HI2 [Hc2 Hk2]].
      split; [exact HI2|]. split; [rewrite Hc2; exact Hc1|]. eapply keeps_trans; [exact Hk1|exact Hk2].
  Qed.

  Lemma initialize_xt_spec st n c o st' w :
    InvX st -> initialize_xt s x rect st n c = (o, Ok (st', w)) ->
    InvX st' /\ creating (reg st') = creating (reg st) /\ keeps (reg st) (reg st') /\ owned n w.
  Proof.
    intros HI. unfold initialize_xt.
    pose proof (before_chain_core s n c (active st) st st (same_core_refl st)) as Hb.
    destruct (before_chain s n c (active st) st) as [st1|k st1]; [|discriminate]. cbn [core1] in Hb.
    assert (HI1 : InvX st1) by (eapply Inv_same_core; eauto).
    unfold init_methods_xt.
    pose proof (init_methods_core n c st1 st1 (same_core_refl st1)) as Hi.
    destruct (init_methods n c st1) as [st2|k st2]; [|discriminate]. cbn [core1] in Hi.
    assert (HI2 : InvX st2) by (eapply Inv_same_core; eauto).
    assert (Hr12 : reg st2 = reg st) by (destruct Hb as [Hb _]; destruct Hi as [Hi _]; congruence).
    assert (Hgets : forall o3 st3, (match c_init c with
                                    | Some _ => init_gets_t rect n 0 (initget_of x n) st2
                                    | None => ([], Ok st2) end) = (o3, Ok st3) ->
              InvX st3 /\ creating (reg st3) = creating (reg st) /\ keeps (reg st) (reg st3)).
    { intros o3 st3 H3. destruct (c_init c).
      - destruct (init_gets_spec n _ 0 st2 o3 st3 HI2 H3) as [HI3 [Hc3 Hk3]].
        rewrite Hr12 in *. auto.
      - inversion H3; subst. rewrite Hr12. split; [exact HI2|]. split; [reflexivity|apply keeps_refl]. }
    destruct (match c_init c with
              | Some _ => init_gets_t rect n 0 (initget_of x n) st2
              | None => ([], Ok st2) end) as [o3 [st3|k st3]] eqn:E3; [|discriminate].
    destruct (Hgets o3 st3 eq_refl) as [HI3 [Hc3 Hk3]].
    intros H. injection H as _ H.
    pose proof (after_chain_core s n (active st3) st3 st3 None (same_core_refl st3)) as Ha. rewrite H in Ha. cbn [core2] in Ha.
    split; [eapply Inv_same_core; eauto|]. destruct Ha as [Hr4 _]. rewrite Hr4.
    split; [exact Hc3|]. split; [exact Hk3|]. eapply after_chain_owner; [|exact H]. exact I.
  Qed.

  Lemma populate_t_spec st n c cr o st' :
    InvX st -> creating (reg st) = n :: cr -> populate_t vt s rect st n c = (o, Ok st') ->
    InvX st' /\ creating (reg st') = n :: cr /\ keeps (reg st) (reg st').
  Proof.
    intros HI Hcr H.
    apply (populate_spec vt s (erase rect) Hrec st n c cr st' HI Hcr).
    rewrite <- (populate_erase vt s rect (erase rect) (fun _ _ => eq_refl)). rewrite H. reflexivity.
  Qed.

  Lemma body_xt_spec : rec_specG (P := injk) (erase (body_xt vt s x rect)).
  Proof.
    intros st n st' v HI H. unfold erase, body_xt, body_with, get_singleton_t in H. unfold get_singleton in H.
    destruct (get_lookup (reg st) n true) as [hv|f|] eqn:EL.
    - (* found in L1 / L2 *)
      cbn [snd] in H. inversion H; subst. split; [exact HI|]. split; [reflexivity|]. split; [apply keeps_refl|].
      eapply get_lookup_hit_cur; exact EL.
    - (* early factory *)
      destruct (get_lookup_need _ _ _ _ EL) as [H1 [H2 H3]].
      unfold early_reference in H.
      destruct (early_chain s n (active st) st (VOrig n)) as [[st1 ev]|k st1] eqn:EE; [|discriminate].
      pose proof (early_chain_core s n (active st) st st (VOrig n) (same_core_refl st)) as Hc.
      rewrite EE in Hc. cbn [core2] in Hc.
      pose proof (early_chain_owner s n (active st) st (VOrig n) st1 ev eq_refl EE) as Ho.
      cbn [snd] in H. inversion H; subst st' v. destruct Hc as [Hr [Hf Hd]].
      assert (HI1 : InvX st1) by (eapply Inv_same_core; [|exact HI]; repeat split; assumption).
      split; [apply (Inv_promote st1 n ev f HI1); rewrite ?Hr; assumption|].
      cbn [reg set_reg get_promote creating]. rewrite Hr.
      split; [reflexivity|]. split.
      + intros m w Hm. destruct (Nat.eq_dec m n) as [->|Hne].
        * unfold cur in Hm. rewrite H1, H2 in Hm. discriminate.
        * rewrite (cur_promote_neq (reg st) n ev m Hne). exact Hm.
      + apply cur_promote_eq. exact H1.
    - (* not cached: create *)
      destruct (get_lookup_miss_true _ _ EL) as [H1 [H2 H3]].
      assert (Hunc : cached (reg st) n = false) by (unfold cached; rewrite H1, H2, H3; reflexivity).
      unfold begin_create in H. rewrite H1 in H.
      destruct (Inv_push st n HI Hunc) as [Hadd HI0].
      assert (Hnin : ~ In n (creating (reg st))).
      { intros Hin. rewrite (i_creating_cached st HI n Hin) in Hunc. discriminate. }
      rewrite Hadd in H. unfold create_xt in H. cbn [scanned set_reg] in H.
      destruct (scanned st); [|discriminate].
      destruct (get_comp (s_pop s) n) as [c|]; [|discriminate].
      destruct (shorted x _ n) eqn:Esh.
      + (* a post-processor short-circuits instantiation: after-callbacks only *)
        cbn [active set_reg] in H.
        set (st0 := set_reg st (mkR (L1 (reg st)) (L2 (reg st)) (L3 (reg st)) (n :: creating (reg st)))) in *.
        destruct (after_chain s n (active st) st0 None) as [[st2 w]|k2 st2] eqn:EA; [|destruct k2; discriminate].
        pose proof (after_chain_core s n (active st) st0 st0 None (same_core_refl st0)) as Ha.
        rewrite EA in Ha. cbn [core2] in Ha. destruct Ha as [Hr2 [Hf2 Hd2]].
        pose proof (after_chain_owner s n (active st) st0 None st2 w I EA) as Hown.
        cbn [snd app] in H. inversion H; subst st' v. clear H.
        set (pv := match w with Some v0 => v0 | None => VOrig n end).
        assert (Hopv : owner pv = n) by (unfold pv; destruct w; [exact Hown|reflexivity]).
        destruct (Inv_publish_fresh st st2 n pv HI Hunc Hr2 Hf2 Hd2 Hopv) as [HI3 Hcr3].
        split; [exact HI3|]. cbn [reg set_reg]. split; [exact Hcr3|]. split; [|apply cur_publish_eq].
        intros m y Hm. assert (Hne : m <> n).
        { intros ->. unfold cur in Hm. rewrite H1, H2 in Hm. discriminate. }
        rewrite (cur_publish_neq (reg st2) n pv m Hne). unfold cur. rewrite Hr2. exact Hm.
      + unfold do_create_xt in H. cbn [reg set_reg] in H.
        set (st0 := set_reg
                      (set_reg st (mkR (L1 (reg st)) (L2 (reg st)) (L3 (reg st)) (n :: creating (reg st))))
                      (add_factory (mkR (L1 (reg st)) (L2 (reg st)) (L3 (reg st)) (n :: creating (reg st))) n n)) in *.
        assert (HI0' : InvX st0) by exact HI0.
        assert (Hcr0 : creating (reg st0) = n :: creating (reg st)) by reflexivity.
        destruct (populate_t vt s rect st0 n c) as [o1 [st1|k1 st1]] eqn:EP; [|destruct k1; discriminate].
        destruct (populate_t_spec st0 n c _ o1 st1 HI0' Hcr0 EP) as [HI1 [Hcr1 Hk1]].
        destruct (initialize_xt s x rect st1 n c) as [oi [[st2 w]|k2 st2]] eqn:EI; [|destruct k2; discriminate].
        destruct (initialize_xt_spec st1 n c oi st2 w HI1 EI) as [HI2 [Hc12 [Hk12 Hown]]].
        assert (Hcr2 : creating (reg st2) = n :: creating (reg st)) by congruence.
        assert (HL1 : alookup n (L1 (reg st2)) = None).
        { apply (i_creating_unpub st2 HI2). rewrite Hcr2. left; reflexivity. }
        unfold get_singleton_t, get_singleton in H. rewrite get_lookup_false in H.
        assert (Hk02 : keeps (reg st) (reg st2)).
        { intros m y Hm. apply Hk12. apply Hk1. assert (Hne : m <> n).
          { intros ->. unfold cur in Hm. rewrite H1, H2 in Hm. discriminate. }
          unfold cur, st0. cbn [reg set_reg add_factory L1 L2]. exact Hm. }
        assert (Hpub : forall pv, owner pv = n ->
                  (forall h k y, injk k -> In y (field_of st2 h k) -> owner y = n -> y = pv) ->
                  InvX (set_reg st2 (end_create_ok (reg st2) n pv)) /\
                  creating (reg (set_reg st2 (end_create_ok (reg st2) n pv))) = creating (reg st) /\
                  keeps (reg st) (reg (set_reg st2 (end_create_ok (reg st2) n pv))) /\
                  cur (reg (set_reg st2 (end_create_ok (reg st2) n pv))) n = Some pv).
        { intros pv Hopv Hall.
          destruct (Inv_publish st2 n (creating (reg st)) pv HI2 Hcr2 Hnin Hopv Hall) as [HI3 Hcr3].
          split; [exact HI3|]. split; [exact Hcr3|]. split; [|apply cur_publish_eq].
          intros m y Hm. assert (Hne : m <> n).
          { intros ->. unfold cur in Hm. rewrite H1, H2 in Hm. discriminate. }
          cbn [reg set_reg]. rewrite (cur_publish_neq (reg st2) n pv m Hne). apply Hk02. exact Hm. }
        destruct (cur (reg st2) n) as [e|] eqn:Ecur.
        * (* an early reference exists *)
          destruct w as [wv|].
          -- destruct (stale_dependents vt st2 n e) as [|d0 dr] eqn:Est; [|cbn [snd] in H; discriminate].
             cbn [snd] in H. inversion H; subst st' v. apply Hpub; [exact Hown|].
             intros h k y Hp Hy Hoy. exfalso.
             pose proof (i_deps st2 HI2 h k y Hp Hy) as Hdep.
             assert (Hye : y = e).
             { pose proof (i_current st2 HI2 h k y Hp Hy) as Hc. rewrite Hoy, Ecur in Hc. inversion Hc; reflexivity. }
             rewrite Hye in Hdep.
             assert (Hnot : (if fix_c03 vt then Nat.eqb h n || negb (is_creating (reg st2) h)
                             else negb (is_creating (reg st2) h)) = false).
             { destruct (if fix_c03 vt then Nat.eqb h n || negb (is_creating (reg st2) h)
                         else negb (is_creating (reg st2) h)) eqn:Ep; [|reflexivity].
               assert (Hin : In h (stale_dependents vt st2 n e)).
               { unfold stale_dependents. apply filter_In. split; [apply in_or_app; left; exact Hdep|exact Ep]. }
               rewrite Est in Hin. contradiction. }
             rewrite Hfix in Hnot. apply orb_false_iff in Hnot. destruct Hnot as [Hhn Hcre].
             apply Nat.eqb_neq in Hhn. apply negb_false_iff in Hcre. unfold is_creating in Hcre. apply mem_In in Hcre.
             assert (HLo : alookup (owner y) (L1 (reg st2)) = None) by (rewrite Hoy; exact HL1).
             pose proof (i_stack st2 HI2 h k y Hp Hy HLo Hcre) as Ha. rewrite Hcr2, Hoy in Ha.
             cbn [at_or_above] in Ha. destruct Ha as [Ha|[Ha _]]; [congruence|contradiction].
          -- cbn [snd] in H. inversion H; subst st' v. apply Hpub.
             ++ eapply cur_owner; eauto.
             ++ intros h k y Hp Hy Hoy. pose proof (i_current st2 HI2 h k y Hp Hy) as Hc. rewrite Hoy, Ecur in Hc.
                inversion Hc; reflexivity.
        * (* no early reference was requested: nobody holds any version of n in an injection point *)
          assert (Hnone : forall pv h k y, injk k -> In y (field_of st2 h k) -> owner y = n -> y = pv).
          { intros pv h k y Hp Hy Hoy. pose proof (i_current st2 HI2 h k y Hp Hy) as Hc. rewrite Hoy, Ecur in Hc. discriminate. }
          cbn [snd] in H. inversion H; subst st' v. apply Hpub; [|apply Hnone].
          destruct w as [wv|]; [exact Hown|reflexivity].
  Qed.
End SpecX.

Theorem do_get_xt_spec vt s x : fix_c03 vt = true -> forall fuel, rec_specG (P := injk) (erase (do_get_xt vt s x fuel)).
Proof.
  intros Hfix. induction fuel as [|f IH]; intros st d st' v HI H; [discriminate|].
  cbn [do_get_xt] in H. eapply (body_xt_spec vt Hfix s x (do_get_xt vt s x f) IH); eauto.
Qed.

(* ---------- lifted to a whole start ------------------------------------------------------------------ *)

Lemma topX_do_get vt s x fuel st n o st' v :
  fix_c03 vt = true -> topX st -> do_get_xt vt s x fuel st n = (o, Ok (st', v)) ->
  topX st' /\ keeps (reg st) (reg st') /\ cur (reg st') n = Some v.
Proof.
  intros Hfix [HI Hc] H.
  assert (H' : erase (do_get_xt vt s x fuel) st n = Ok (st', v)) by (unfold erase; rewrite H; reflexivity).
  destruct (do_get_xt_spec vt s x Hfix fuel st n st' v HI H') as [HI' [Hc' [Hk Hv]]].
  split; [split; [exact HI'|congruence]|]. split; [exact Hk|exact Hv].
Qed.

Lemma prepare_loop_xt_top vt s x ps : fix_c03 vt = true -> forall st o st',
  topX st -> prepare_loop_xt vt s x ps st = (o, Ok st') -> topX st'.
Proof.
  intros Hfix. induction ps as [|p r IH]; intros st o st' Ht H; cbn [prepare_loop_xt] in H; [inversion H; subst; exact Ht|].
  destruct (is_lazy (s_pop s) p).
  - eapply IH; [|exact H]. eapply top_same_core; [|exact Ht]. repeat split.
  - destruct (do_get_xt vt s x (fuel_of s) st p) as [o1 [[st1 v]|k st1]] eqn:E; [|discriminate].
    destruct (topX_do_get vt s x _ st p o1 st1 v Hfix Ht E) as [Ht1 _].
    destruct (prepare_loop_xt vt s x r (set_active st1 (active st1 ++ [p]))) as [o2 r2] eqn:E2.
    inversion H; subst o r2. eapply IH; [|exact E2]. eapply top_same_core; [|exact Ht1]. repeat split.
Qed.

Lemma get_each_xt_top vt s x ns : fix_c03 vt = true -> forall st o st',
  topX st -> get_each_xt vt s x ns st = (o, Ok st') ->
  topX st' /\ keeps (reg st) (reg st') /\ forall n, In n ns -> exists v, alookup n (L1 (reg st')) = Some v.
Proof.
  intros Hfix. induction ns as [|n r IH]; intros st o st' Ht H; cbn [get_each_xt] in H.
  - inversion H; subst. split; [exact Ht|]. split; [apply keeps_refl|intros n []].
  - destruct (do_get_xt vt s x (fuel_of s) st n) as [o1 [[st1 v]|k st1]] eqn:E; [|discriminate].
    destruct (topX_do_get vt s x _ st n o1 st1 v Hfix Ht E) as [Ht1 [Hk1 Hv1]].
    destruct (get_each_xt vt s x r st1) as [o2 r2] eqn:E2. inversion H; subst o r2.
    destruct (IH st1 o2 st' Ht1 E2) as [Ht' [Hk2 Hall]].
    split; [exact Ht'|]. split; [eapply keeps_trans; eauto|].
    intros m [<-|Hm]; [|apply Hall; exact Hm].
    exists v. apply (top_cur_L1 st' n v Ht'). apply Hk2. exact Hv1.
Qed.

Theorem run_core_xt_top vt s x o st : fix_c03 vt = true -> run_core_xt vt s x = (o, Ok st) -> topX st.
Proof.
  intros Hfix. unfold run_core_xt. destruct (s_loader_fail s); [discriminate|].
  destruct (prepare_loop_xt vt s x (sorted_procs s) (set_scanned finit)) as [o1 [st1|k st1]] eqn:E1; [|discriminate].
  assert (Ht1 : topX st1).
  { eapply prepare_loop_xt_top; [exact Hfix| |exact E1]. eapply top_same_core; [|apply top_finit]. repeat split. }
  destruct (get_each_xt vt s x (eager_names s) st1) as [o2 [st2|k st2]] eqn:E2; [|discriminate].
  destruct (get_each_xt_top vt s x _ Hfix st1 o2 st2 Ht1 E2) as [Ht2 _].
  intros H. injection H as _ H. revert H.
  unfold call_runners. destruct (s_app s) as [[[a rp] cp]|]; [|intros H; inversion H; subst; exact Ht2].
  intros H. eapply run_each_top; eauto.
Qed.

(* after a successful start of the extended model every INJECTION POINT holds the published version *)
Theorem run_xt_published vt s x o st :
  fix_c03 vt = true -> run_xt vt s x = (o, Ok st) ->
  forall h k v, k < 100 -> In v (field_of st h k) -> alookup (owner v) (L1 (reg st)) = Some v.
Proof.
  intros Hfix H h k v Hp Hv. pose proof (run_core_xt_top vt (normalise vt s) x o st Hfix H) as Ht.
  apply (top_cur_L1 st _ v Ht). destruct Ht as [HI _]. apply (i_current st HI h k v Hp Hv).
Qed.

Theorem run_xt_never_self vt s x o st :
  fix_c03 vt = true -> run_xt vt s x = (o, Ok st) ->
  forall h k v, k < 100 -> In v (field_of st h k) -> v <> VOrig h.
Proof.
  intros Hfix H h k v Hp Hv Heq. destruct (run_core_xt_top vt (normalise vt s) x o st Hfix H) as [HI _].
  pose proof (i_noself st HI h k v Hp Hv) as Hs. subst v. cbn [is_self] in Hs. rewrite Nat.eqb_refl in Hs. discriminate.
Qed.

(* nothing is left in creation, no early reference and no early factory survives a successful start *)
Theorem run_xt_caches_clean vt s x o st :
  fix_c03 vt = true -> run_xt vt s x = (o, Ok st) ->
  creating (reg st) = [] /\ forall m, alookup m (L2 (reg st)) = None /\ alookup m (L3 (reg st)) = None.
Proof.
  intros Hfix H. destruct (run_core_xt_top vt (normalise vt s) x o st Hfix H) as [HI Hcr].
  split; [exact Hcr|]. intros m.
  destruct (alookup m (L2 (reg st))) eqn:E2; [exfalso|destruct (alookup m (L3 (reg st))) eqn:E3; [exfalso|split; reflexivity]].
  - assert (Hin : In m (creating (reg st))) by (apply (i_early_creating st HI); rewrite E2; reflexivity). rewrite Hcr in Hin. exact Hin.
  - assert (Hin : In m (creating (reg st))) by (apply (i_early_creating st HI); rewrite E2, E3; reflexivity). rewrite Hcr in Hin. exact Hin.
Qed.

(* a published component is what every later lookup returns, with one registry read and no state change *)
Lemma do_get_xt_published vt s x fuel st n v :
  alookup n (L1 (reg st)) = Some v -> snd (do_get_xt vt s x (S fuel) st n) = Ok (st, v).
Proof.
  intros H. cbn [do_get_xt]. unfold body_xt, body_with, get_singleton_t, get_singleton, get_lookup. rewrite H. reflexivity.
Qed.

(* every name Refresh asked for is published when the runners are called, and stays published *)
Theorem run_xt_eager_published vt s x o st :
  fix_c03 vt = true -> run_xt vt s x = (o, Ok st) ->
  forall n, In n (eager_names (normalise vt s)) -> exists v, alookup n (L1 (reg st)) = Some v.
Proof.
  intros Hfix H n Hn. unfold run_xt, run_core_xt in H. destruct (s_loader_fail (normalise vt s)); [discriminate|].
  destruct (prepare_loop_xt vt (normalise vt s) x (sorted_procs (normalise vt s)) (set_scanned finit))
    as [o1 [st1|k st1]] eqn:E1; [|discriminate].
  assert (Ht1 : topX st1).
  { eapply prepare_loop_xt_top; [exact Hfix| |exact E1]. eapply top_same_core; [|apply top_finit]. repeat split. }
  destruct (get_each_xt vt (normalise vt s) x (eager_names (normalise vt s)) st1) as [o2 [st2|k st2]] eqn:E2; [|discriminate].
  destruct (get_each_xt_top vt _ x _ Hfix st1 o2 st2 Ht1 E2) as [_ [_ Hall]].
  destruct (Hall n Hn) as [v Hv]. exists v.
  injection H as _ H. revert H. unfold call_runners.
  destruct (s_app (normalise vt s)) as [[[a rp] cp]|]; [|intros H; inversion H; subst; exact Hv].
  assert (Hreg : forall ns sta stb, run_each (normalise vt s) ns sta = Ok stb -> reg stb = reg sta).
  { induction ns as [|m r IH]; intros sta stb Hr; cbn [run_each] in Hr; [inversion Hr; reflexivity|].
    destruct (runner_fails (normalise vt s) m); [discriminate|]. rewrite (IH _ _ Hr). reflexivity. }
  intros H. rewrite (Hreg _ _ _ H). exact Hv.
Qed.

(* Factory.GetComponents() (Model/FactoryX.v bulk_core_xt): when it succeeds, what it returns for every name is the
   version published for that name when it returns — the same a lookup by name gives from then on *)
Lemma bulk_core_xt_published vt s x : fix_c03 vt = true -> forall ns st o st' vs,
  topX st -> bulk_core_xt vt s x ns st = (o, (st', Ok vs)) ->
  topX st' /\ keeps (reg st) (reg st') /\ Forall2 (fun n v => alookup n (L1 (reg st')) = Some v) ns vs.
Proof.
  intros Hfix. induction ns as [|n r IH]; intros st o st' vs Ht H; cbn [bulk_core_xt] in H.
  - inversion H; subst. split; [exact Ht|]. split; [apply keeps_refl|constructor].
  - destruct (do_get_xt vt s x (fuel_of s) st n) as [o1 [[st1 v]|k st1]] eqn:E; [|inversion H].
    destruct (topX_do_get vt s x _ st n o1 st1 v Hfix Ht E) as [Ht1 [Hk1 Hv1]].
    destruct (bulk_core_xt vt s x r st1) as [o2 [st2 r2]] eqn:E2.
    destruct r2 as [vs2|k2 l2]; inversion H; subst.
    destruct (IH st1 o2 st' vs2 Ht1 E2) as [Ht' [Hk2 Hall]].
    split; [exact Ht'|]. split; [eapply keeps_trans; eauto|].
    constructor; [|exact Hall]. apply (top_cur_L1 st' n v Ht'). apply Hk2. exact Hv1.
Qed.
