(* Dependencies first, and created only if needed (C05), under the EXTENDED semantics of Model/FactoryX.v.

   A component now "requests" another one in two ways: through an injection point (the plan of the complete pipeline,
   as in Proofs/FactoryDeps.v) or by looking it up from its Init method.  With that request relation:
   - DFX: every published holder c of an INJECTED version of d <> c either finds d published with all of d's lifecycle
     events older than every lifecycle event of c, or d depends back on c;
   - NDX: every component that got a cache entry is a root (not LazyInit) or reachable from a root through requests.
   A component that an Init method LOOKS UP is created in the middle of the caller's Init — it cannot have completed
   before the caller began — which is why DFX speaks about injection points (indices below 100) only. *)
From Coq Require Import List Arith Bool Lia.
From IocVerif Require Import Model.Registry Model.Resolve Model.Factory Model.App Model.FactoryTrace Model.FactoryX
  Proofs.FactoryBasics Proofs.FactoryLog Proofs.FactoryInvariant Proofs.FactoryLifecycle Proofs.ResolveProofs
  Proofs.FactoryNoPanic Proofs.FactoryWiring Proofs.FactoryDeps Proofs.FactoryTraceProofs Proofs.FactoryXInv
  Proofs.FactoryXLife Proofs.FactoryXLog Proofs.FactoryXNoPanic Proofs.FactoryXWiring.
Import ListNotations.

Section DepsX.
  Variable vt : variant.
  Variable s : scenario.
  Variable x : extras.
  Let pop := s_pop s.

  Definition reqX (h d : name) : Prop := req vt s h d \/ In d (initget_of x h).

  Inductive depX : name -> name -> Prop :=
  | depX1 h d : reqX h d -> depX h d
  | depXS h m d : reqX h m -> depX m d -> depX h d.

  Lemma depX_snoc a b n : depX a b -> reqX b n -> depX a n.
  Proof. induction 1 as [h d Hr|h m d Hr Hd IH]; intros Hn; [eapply depXS; [exact Hr|apply depX1; exact Hn]|eapply depXS; [exact Hr|apply IH; exact Hn]]. Qed.

  Fixpoint chainX (l : list name) : Prop :=
    match l with
    | a :: ((b :: _) as r) => reqX b a /\ chainX r
    | _ => True
    end.

  Lemma chainX_below : forall cr n d, chainX (n :: cr) -> In d cr -> depX d n.
  Proof.
    induction cr as [|b r IH]; intros n d Hc Hin; [contradiction|].
    cbn [chainX] in Hc. destruct Hc as [Hreq Hc']. destruct Hin as [<-|Hin]; [apply depX1; exact Hreq|].
    eapply depX_snoc; [apply (IH b d Hc' Hin)|exact Hreq].
  Qed.

  Definition DFX (st : fstate) : Prop :=
    forall c k v, k < 100 -> alookup c (L1 (reg st)) <> None -> In v (field_of st c k) -> owner v <> c ->
      (alookup (owner v) (L1 (reg st)) <> None /\ older (owner v) c (log st)) \/ depX (owner v) c.

  Definition rootX (n : name) : Prop := is_lazy pop n = false.
  Definition neededX (r : rstate) (n : name) : Prop :=
    rootX n \/ exists a, rootX a /\ cached r a = true /\ depX a n.
  Definition NDX (st : fstate) : Prop := forall n, cached (reg st) n = true -> neededX (reg st) n.

  Lemma neededX_mono r r' n : mono r r' -> neededX r n -> neededX r' n.
  Proof. intros Hm [Hr|[a [Ha [Hc Hd]]]]; [left; exact Hr|right; exists a; split; [exact Ha|split; [apply Hm; exact Hc|exact Hd]]]. Qed.

  Lemma neededX_req r h n : cached r h = true -> neededX r h -> reqX h n -> neededX r n.
  Proof.
    intros Hc [Hr|[a [Ha [Hca Hd]]]] Hq; right.
    - exists h. split; [exact Hr|]. split; [exact Hc|apply depX1; exact Hq].
    - exists a. split; [exact Ha|]. split; [exact Hca|eapply depX_snoc; eauto].
  Qed.

  Lemma NDX_step st st' : mono (reg st) (reg st') ->
    (forall m, cached (reg st') m = true -> cached (reg st) m = true \/ neededX (reg st') m) -> NDX st -> NDX st'.
  Proof.
    intros Hm Hanti Hn m Hc. destruct (Hanti m Hc) as [Hc0|Hnd]; [|exact Hnd].
    eapply neededX_mono; [exact Hm|apply Hn; exact Hc0].
  Qed.

  Lemma NDX_reg st st' : reg st' = reg st -> NDX st -> NDX st'.
  Proof. intros Hr Hn m Hc. rewrite Hr in *. apply Hn; exact Hc. Qed.

  Definition DNX (st : fstate) : Prop := DFX st /\ NDX st.

  Definition callokX (st : fstate) (d : name) : Prop :=
    match creating (reg st) with [] => rootX d | h :: _ => reqX h d end.

  (* the log only grows, by events that are lifecycle events of no published-and-finished name: what DFX needs of
     a step that leaves registry and injected fields alone *)
  Lemma DFX_log st st' :
    L1 (reg st') = L1 (reg st) -> (forall c k, k < 100 -> field_of st' c k = field_of st c k) ->
    (exists l, log st' = l ++ log st /\
               forall m, alookup m (L1 (reg st)) <> None -> sub m l = []) ->
    DFX st -> DFX st'.
  Proof.
    intros Hr Hf [l [Hl Hq]] Hd c k v Hk Hp Hin Hne. rewrite Hr in Hp. rewrite (Hf c k Hk) in Hin.
    destruct (Hd c k v Hk Hp Hin Hne) as [[Hpd Ho]|Hdep]; [|right; exact Hdep].
    left. rewrite Hr. split; [exact Hpd|]. rewrite Hl.
    apply older_extend; [apply Hq; exact Hpd|apply Hq; exact Hp|exact Ho].
  Qed.
End DepsX.

Section DepsXRec.
  Variable vt : variant.
  Hypothesis H3 : fix_c03 vt = true.
  Hypothesis H7 : fix_c07 vt = true.
  Hypothesis H8 : fix_c08 vt = true.
  Hypothesis H10 : fix_c10 vt = true.
  Variable s : scenario.
  Variable x : extras.
  Hypothesis Hsmall : small_points s.
  Let pop := s_pop s.

  Variable rect : fstate -> name -> tres (fstate * ver).
  Let rec := erase rect.
  Hypothesis Hspec : rec_specG (P := injk) rec.
  Hypothesis Hlife : rec_lifeX s x rec.
  Hypothesis Hlog : forall st d, geff2 s st (rec st d).
  Hypothesis HG : forall st d st' v, GX vt s x st -> full s st -> rec st d = Ok (st', v) -> GX vt s x st'.
  Hypothesis Hdf : forall st d st' v, GX vt s x st -> full s st -> lifeS s x st -> chainX vt s x (creating (reg st)) ->
    callokX vt s x st d -> DNX vt s x st -> rec st d = Ok (st', v) -> DNX vt s x st'.

  Definition BX (st : fstate) : Prop :=
    GX vt s x st /\ lifeS s x st /\ chainX vt s x (creating (reg st)) /\ DNX vt s x st.

  Lemma rec_BX st d st' v : BX st -> full s st -> callokX vt s x st d -> rec st d = Ok (st', v) ->
    BX st' /\ creating (reg st') = creating (reg st) /\ full s st'.
  Proof.
    intros [Hg [Hl [Hch Hd]]] Hfu Hco E.
    destruct (Hspec st d st' v (gx_inv vt s x st Hg) E) as [_ [Hc _]].
    destruct (Hlife st d st' v E (gx_inv vt s x st Hg)) as [_ [_ [Ha Hl']]].
    split; [|split; [exact Hc|unfold full; rewrite Ha; exact Hfu]]. split; [eapply HG; eauto|].
    split; [apply Hl'; exact Hl|]. split; [rewrite Hc; exact Hch|]. eapply Hdf; eauto.
  Qed.

  Lemma get_all_BX : forall l st st' vs, BX st -> full s st -> (forall d, In d l -> callokX vt s x st d) ->
    get_all rec st (map Some l) = Ok (st', vs) -> BX st' /\ creating (reg st') = creating (reg st) /\ full s st'.
  Proof.
    induction l as [|d r IH]; intros st st' vs Hb Hfu Hco H; cbn [map get_all] in H.
    - inversion H; subst. auto.
    - destruct (rec st d) as [[st1 v]|k st1] eqn:E; [|discriminate].
      destruct (rec_BX st d st1 v Hb Hfu (Hco d (or_introl eq_refl)) E) as [Hb1 [Hc1 Hfu1]].
      destruct (get_all rec st1 (map Some r)) as [[st2 vs']|k st2] eqn:E2; [|discriminate]. inversion H; subst.
      destruct (IH st1 st' vs' Hb1 Hfu1 ltac:(intros y Hy; unfold callokX; rewrite Hc1; apply (Hco y (or_intror Hy))) E2)
        as [Hb2 [Hc2 Hfu2]].
      split; [exact Hb2|]. split; [congruence|exact Hfu2].
  Qed.

  Lemma BX_write st h k used cr :
    BX st -> creating (reg st) = h :: cr -> Forall (current st) used ->
    (forall v, In v used -> is_self h v = false) -> BX (write_field st h k used).
  Proof.
    intros [Hg [Hl [Hch Hd]]] Hcr Hcur Hns.
    assert (HI : InvX st) by exact (gx_inv vt s x st Hg).
    assert (HL1 : alookup h (L1 (reg st)) = None) by (apply (i_creating_unpub st HI); rewrite Hcr; left; reflexivity).
    split; [eapply GX_write; eauto|].
    split.
    { eapply (lifeS_frame s x st); [exact HI|exact Hl| | |reflexivity|reflexivity].
      - intros m. right. reflexivity.
      - intros m v Hv k'. apply field_of_write_other. intros ->. rewrite HL1 in Hv. discriminate. }
    split; [exact Hch|]. split; [|eapply NDX_reg; [|exact (proj2 Hd)]; reflexivity].
    intros c k' v Hk Hp Hin Hne. change (reg (write_field st h k used)) with (reg st) in *.
    assert (Hch' : c <> h) by (intros ->; apply Hp; exact HL1).
    rewrite (field_of_write_other st h k used c k' Hch') in Hin. apply (proj1 Hd c k' v Hk Hp Hin Hne).
  Qed.

  Lemma inject_points_BX h cr : forall ps k pl st st',
    BX st -> full s st -> creating (reg st) = h :: cr -> length pl = length ps ->
    Forall (fun r => exists l, r = map Some l /\ ~ In h l) pl ->
    Forall (fun y => forall d, In d (remove_nil y) -> reqX vt s x h d) pl ->
    inject_points vt s rec h k ps pl st = Ok st' ->
    BX st' /\ creating (reg st') = h :: cr /\ full s st' /\ sub h (log st') = sub h (log st).
  Proof.
    induction ps as [|p ps' IH]; intros k pl st st' Hb Hfu Hcr Hlen Hsh Hrq H; cbn [inject_points] in H.
    - inversion H; subst. auto.
    - destruct pl as [|y0 pl']; [discriminate|]. cbn [length] in Hlen.
      inversion Hsh as [|? ? [l [Hx Hnl]] Hsh']; subst y0. inversion Hrq as [|? ? Hrx Hrq']; subst.
      destruct l as [|a t]; [cbn [map] in H; apply (IH (S k) pl' st st' Hb Hfu Hcr ltac:(lia) Hsh' Hrq' H)|].
      change (map Some (a :: t)) with (Some a :: map Some t) in H.
      destruct (get_all rec st (Some a :: map Some t)) as [[st1 vs]|k1 st1] eqn:E1; [|discriminate].
      change (Some a :: map Some t) with (map Some (a :: t)) in E1.
      destruct (get_all_BX (a :: t) st st1 vs Hb Hfu
                  ltac:(intros d Hd; unfold callokX; rewrite Hcr; apply Hrx; rewrite remove_nil_map_Some; exact Hd) E1)
        as [Hb1 [Hc1 Hfu1]].
      destruct Hb as [Hg [Hl [Hch Hd]]].
      destruct (get_all_spec rec Hspec _ _ _ _ (gx_inv vt s x st Hg) E1) as [_ [_ [_ Hcur]]].
      assert (Hcr1 : creating (reg st1) = h :: cr) by congruence.
      assert (Hcached : cached (reg st) h = true)
        by (apply (i_creating_cached st (gx_inv vt s x st Hg)); rewrite Hcr; left; reflexivity).
      destruct (get_all_lifeX s x rect Hspec Hlife (fun m => m = h) _ _ _ _ (gx_inv vt s x st Hg)
                  ltac:(intros m ->; exact Hcached) E1) as [_ [_ [_ [Hfr _]]]].
      destruct (Hfr h eq_refl) as [Hsub1 _].
      destruct (inject vt s st1 h k p vs) as [st2|k2 st2] eqn:E2; [|discriminate].
      assert (Hb2 : BX st2 /\ creating (reg st2) = h :: cr /\ log st2 = log st1 /\ active st2 = active st1).
      { destruct (inject_cases vt s st1 h k p vs st2 E2) as [->|Hw]; [auto|].
        cbv zeta in Hw. destruct Hw as [_ [-> _]]. split; [|split; [exact Hcr1|split; reflexivity]].
        eapply BX_write; [exact Hb1|exact Hcr1| |].
        - rewrite Forall_forall in *. intros v Hv. apply Hcur.
          assert (Hin : In v (filter (fun v0 => negb (is_self h v0)) vs)).
          { destruct (pt_slice p); [exact Hv|]. destruct (filter (fun v0 => negb (is_self h v0)) vs); [contradiction|].
            cbn [firstn] in Hv. destruct Hv as [<-|[]]. left; reflexivity. }
          apply filter_In in Hin. tauto.
        - intros v Hv.
          assert (Hin : In v (filter (fun v0 => negb (is_self h v0)) vs)).
          { destruct (pt_slice p); [exact Hv|]. destruct (filter (fun v0 => negb (is_self h v0)) vs); [contradiction|].
            cbn [firstn] in Hv. destruct Hv as [<-|[]]. left; reflexivity. }
          apply filter_In in Hin. destruct Hin as [_ Hn]. apply negb_true_iff in Hn. exact Hn. }
      destruct Hb2 as [Hb2 [Hcr2 [Hlog2 Hact2]]].
      assert (Hfu2 : full s st2) by (unfold full; rewrite Hact2; exact Hfu1).
      destruct (IH (S k) pl' st2 st' Hb2 Hfu2 Hcr2 ltac:(lia) Hsh' Hrq' H) as [Hb' [Hcr' [Hfu' Hsub']]].
      split; [exact Hb'|]. split; [exact Hcr'|]. split; [exact Hfu'|]. rewrite Hsub', Hlog2. exact Hsub1.
  Qed.

  (* the lookups an Init method issues: each is a justified call (the caller requests the target), so the bundle is kept *)
  Lemma init_gets_BX n cr : forall ds j st o st',
    BX st -> full s st -> creating (reg st) = n :: cr -> (forall d, In d ds -> reqX vt s x n d) ->
    init_gets_t rect n j ds st = (o, Ok st') ->
    BX st' /\ creating (reg st') = n :: cr /\ full s st'.
  Proof.
    induction ds as [|d r IH]; intros j st o st' Hb Hfu Hcr Hrq H; cbn [init_gets_t] in H.
    - inversion H; subst. auto.
    - destruct (rect st d) as [o1 [[st1 v]|k st1]] eqn:E; [|discriminate].
      assert (E' : rec st d = Ok (st1, v)) by (unfold rec, erase; rewrite E; reflexivity).
      destruct (rec_BX st d st1 v Hb Hfu ltac:(unfold callokX; rewrite Hcr; apply Hrq; left; reflexivity) E') as [Hb1 [Hc1 Hfu1]].
      assert (Hcr1 : creating (reg st1) = n :: cr) by congruence.
      set (st2 := write_plain st1 n (100 + j) [v]) in *.
      destruct (init_gets_t rect n (S j) r st2) as [o2 r2] eqn:E2. inversion H; subst o r2. clear H.
      assert (Hb2 : BX st2).
      { destruct Hb1 as [Hg1 [Hl1 [Hch1 Hd1]]].
        assert (HI1 : InvX st1) by exact (gx_inv vt s x st1 Hg1).
        assert (HL1 : alookup n (L1 (reg st1)) = None) by (apply (i_creating_unpub st1 HI1); rewrite Hcr1; left; reflexivity).
        split; [apply (GX_write_plain vt s x st1 n j [v] cr Hg1 Hcr1)|].
        split.
        { eapply (lifeS_frame s x st1); [exact HI1|exact Hl1| | |reflexivity|reflexivity].
          - intros m. right. reflexivity.
          - intros m w Hw k'. unfold st2. rewrite field_of_write_plain.
            destruct (key_eqb (n, 100 + j) (m, k')) eqn:Ek; [|reflexivity].
            apply key_eqb_true in Ek. inversion Ek; subst. rewrite HL1 in Hw. discriminate. }
        split; [exact Hch1|]. split; [|eapply NDX_reg; [|exact (proj2 Hd1)]; reflexivity].
        intros c k' w Hk Hp Hin Hne. change (reg st2) with (reg st1) in *.
        unfold st2 in Hin. rewrite field_of_write_plain in Hin.
        destruct (key_eqb (n, 100 + j) (c, k')) eqn:Ek.
        - apply key_eqb_true in Ek. inversion Ek; subst. lia.
        - apply (proj1 Hd1 c k' w Hk Hp Hin Hne). }
      destruct (IH (S j) st2 o2 st' Hb2 ltac:(unfold full; cbn [active write_plain st2]; exact Hfu1) Hcr1
                  (fun y Hy => Hrq y (or_intror Hy)) E2) as [Hb3 [Hcr3 Hfu3]].
      auto.
  Qed.

  Lemma app_self_nil {A} (l a : list A) : l ++ a = a -> l = [].
  Proof.
    intros H. assert (Hl : length (l ++ a) = length a) by (rewrite H; reflexivity).
    rewrite app_length in Hl. destruct l; [reflexivity|cbn in Hl; lia].
  Qed.

  (* all events of n are in the new part L, none of d's is: d is older than n *)
  Lemma older_new d n L l : sub n l = [] -> sub d L = [] -> older d n (L ++ l).
  Proof.
    intros Hn Hd l1 e l2 Heq Hab.
    destruct (app_eq_app _ _ _ _ Heq) as [y [[H1 H2]|[H1 H2]]].
    - rewrite H1 in Hd. apply (sub_nil_prefix d l1 y Hd).
    - exfalso. assert (Hin : In e l) by (rewrite H2; apply in_or_app; right; left; reflexivity).
      rewrite (sub_nil_In n l e Hn Hin) in Hab. discriminate.
  Qed.

  Lemma cur_cached r m v : cur r m = Some v -> cached r m = true.
  Proof.
    unfold cur, cached. destruct (alookup m (L1 r)); [reflexivity|]. intros H. rewrite H. cbn. reflexivity.
  Qed.

  (* a step that only logs lifecycle events of the component n in creation *)
  Lemma DNX_only_log_n (Q : event -> Prop) n a b :
    alookup n (L1 (reg a)) = None -> only_log Q a b -> (forall e, Q e -> about n e = true) ->
    DNX vt s x a -> DNX vt s x b.
  Proof.
    intros Hn [Hr Hf _ _ _ _ [l [Hl Hq]]] HQ [Hd Hnd]. split; [|eapply NDX_reg; [exact Hr|exact Hnd]].
    eapply (DFX_log vt s x a b); [rewrite Hr; reflexivity| | |exact Hd].
    - intros c k _. unfold field_of. rewrite Hf. reflexivity.
    - exists l. split; [exact Hl|]. intros m Hm. apply (sub_other n m l).
      + eapply Forall_impl; [|exact Hq]. exact HQ.
      + intros ->. apply Hm. exact Hn.
  Qed.

  Lemma initialize_xt_DNX st1 n c cr o st2 w :
    get_comp pop n = Some c -> BX st1 -> (full s st1 \/ initget_of x n = []) -> creating (reg st1) = n :: cr ->
    initialize_xt s x rect st1 n c = (o, Ok (st2, w)) -> DNX vt s x st2.
  Proof.
    intros Hc [Hg [Hl [Hch Hd]]] Hfu Hcr. unfold initialize_xt.
    assert (HI : InvX st1) by exact (gx_inv vt s x st1 Hg).
    assert (Hin1 : In n (creating (reg st1))) by (rewrite Hcr; left; reflexivity).
    assert (HL1 : alookup n (L1 (reg st1)) = None) by (apply (i_creating_unpub st1 HI n Hin1)).
    pose proof (before_chain_eff s n c (active st1) st1 st1 (only_log_refl _ st1)) as Hb.
    destruct (before_chain s n c (active st1) st1) as [sa|k sa]; [|discriminate]. cbn [eff1] in Hb.
    apply only_log_fst in Hb.
    pose proof (DNX_only_log_n _ n st1 sa HL1 Hb (Qb_about n) Hd) as Hda.
    pose proof (GX_only_log vt s x _ st1 sa Hb Hg) as Hga.
    pose proof (lifeS_only_log s x n _ st1 sa HI Hin1 Hb (Qb_about n) Hl) as Hla.
    assert (Hra : reg sa = reg st1) by (destruct Hb; assumption).
    assert (Haa : active sa = active st1) by (destruct Hb; assumption).
    unfold init_methods_xt.
    pose proof (init_methods_eff s n c sa sa Hc (only_log_refl _ sa)) as Hi.
    destruct (init_methods n c sa) as [sb|k sb]; [|discriminate]. cbn [eff1] in Hi.
    apply only_log_fst in Hi.
    assert (HIa : InvX sa) by exact (gx_inv vt s x sa Hga).
    assert (Hina : In n (creating (reg sa))) by (rewrite Hra; exact Hin1).
    assert (HLa : alookup n (L1 (reg sa)) = None) by (rewrite Hra; exact HL1).
    pose proof (DNX_only_log_n _ n sa sb HLa Hi (Qi_about n) Hda) as Hdb.
    pose proof (GX_only_log vt s x _ sa sb Hi Hga) as Hgb.
    pose proof (lifeS_only_log s x n _ sa sb HIa Hina Hi (Qi_about n) Hla) as Hlb.
    assert (Hrb : reg sb = reg st1) by (destruct Hi as [Hri _ _ _ _ _ _]; congruence).
    assert (Hab : active sb = active st1) by (destruct Hi as [_ _ _ _ Hai _ _]; congruence).
    assert (Hbb : BX sb) by (split; [exact Hgb|split; [exact Hlb|split; [rewrite Hrb; exact Hch|exact Hdb]]]).
    assert (Hgets : forall o3 sc, (match c_init c with
                                   | Some _ => init_gets_t rect n 0 (initget_of x n) sb
                                   | None => ([], Ok sb) end) = (o3, Ok sc) ->
              BX sc /\ creating (reg sc) = n :: cr).
    { intros o3 sc H3'. destruct (c_init c); [|inversion H3'; subst; split; [exact Hbb|rewrite Hrb; exact Hcr]].
      destruct Hfu as [Hfu|Hq].
      - destruct (init_gets_BX n cr _ 0 sb o3 sc Hbb ltac:(unfold full; rewrite Hab; exact Hfu) ltac:(rewrite Hrb; exact Hcr)
                    ltac:(intros d Hd0; right; exact Hd0) H3') as [Hbc [Hcrc _]]. auto.
      - rewrite Hq in H3'. cbn [init_gets_t] in H3'. inversion H3'; subst. split; [exact Hbb|rewrite Hrb; exact Hcr]. }
    destruct (match c_init c with
              | Some _ => init_gets_t rect n 0 (initget_of x n) sb
              | None => ([], Ok sb) end) as [o3 [sc|k sc]] eqn:E3; [|discriminate].
    destruct (Hgets o3 sc eq_refl) as [[Hgc [Hlc [Hchc Hdc]]] Hcrc].
    intros H. injection H as _ H.
    pose proof (after_chain_eff s n (active sc) sc sc None (only_log_refl _ sc)) as Ha. rewrite H in Ha. cbn [eff2] in Ha.
    apply only_log_fst in Ha.
    assert (HLc : alookup n (L1 (reg sc)) = None).
    { apply (i_creating_unpub sc (gx_inv vt s x sc Hgc)). rewrite Hcrc. left; reflexivity. }
    apply (DNX_only_log_n _ n sc st2 HLc Ha (Qa_about n) Hdc).
  Qed.

  Lemma body_xt_BX : forall st n st' v,
    BX st ->
    (full s st \/ ((forall c, get_comp pop n = Some c -> c_points c = []) /\ initget_of x n = [])) ->
    callokX vt s x st n ->
    erase (body_xt vt s x rect) st n = Ok (st', v) -> DNX vt s x st'.
  Proof.
    intros st n st' v [Hg [Hl [Hch Hd]]] Hcase Hco H.
    assert (HI : InvX st) by exact (gx_inv vt s x st Hg).
    unfold erase, body_xt, body_with, get_singleton_t in H. unfold get_singleton in H.
    destruct (get_lookup (reg st) n true) as [hv|f|] eqn:EL.
    - cbn [snd] in H. inversion H; subst. exact Hd.
    - unfold early_reference in H.
      pose proof (early_chain_eff s n (active st) st st (VOrig n) (only_log_refl _ st)) as He.
      destruct (early_chain s n (active st) st (VOrig n)) as [[st1 ev]|k st1]; [|discriminate].
      cbn [eff2] in He. cbn [snd] in H. inversion H; subst st' v. destruct He as [Hr Hf _ _ _ _ [l [Hlg Hq]]].
      assert (Hd1 : DFX vt s x st1).
      { eapply (DFX_log vt s x st st1); [rewrite Hr; reflexivity| | |exact (proj1 Hd)].
        - intros c k _. unfold field_of. rewrite Hf. reflexivity.
        - exists l. split; [exact Hlg|]. intros m _. apply sub_none. eapply Forall_impl; [|exact Hq].
          intros e [He _]. destruct e; cbn in He; try contradiction. reflexivity. }
      split.
      { intros c0 k0 v0 Hk Hp Hin Hne. cbn [reg set_reg get_promote L1] in Hp.
        destruct (Hd1 c0 k0 v0 Hk Hp Hin Hne) as [[Hpd Ho]|Hdep]; [left; split; [exact Hpd|exact Ho]|right; exact Hdep]. }
      destruct (get_lookup_need _ _ _ _ EL) as [_ [_ HL3]].
      eapply (NDX_step vt s x st); [| |exact (proj2 Hd)]; cbn [reg set_reg]; rewrite Hr.
      { apply mono_get_promote. }
      intros m Hm. left. destruct (Nat.eq_dec m n) as [->|Hmn].
      { unfold cached. rewrite HL3. cbn. rewrite orb_true_r. reflexivity. }
      unfold cached, get_promote in Hm. cbn [L1 L2 L3] in Hm.
      rewrite (alookup_aset_neq n m ev _ Hmn), (alookup_aremove_neq n m _ Hmn) in Hm. exact Hm.
    - pose proof (FactoryBasics.get_lookup_miss_uncached _ _ EL) as Hunc.
      destruct (get_lookup_miss_true _ _ EL) as [HL1 [HL2 HL3]].
      unfold begin_create in H. rewrite HL1 in H.
      destruct (Inv_push st n HI Hunc) as [Hadd HI0]. rewrite Hadd in H.
      unfold create_xt in H. cbn [scanned set_reg] in H.
      destruct (scanned st); [|discriminate].
      destruct (get_comp (s_pop s) n) as [c|] eqn:Ec; [|discriminate].
      destruct (gx_fresh vt s x st Hg n Hunc) as [Hinj0 Hfld0].
      assert (Hnin : ~ In n (creating (reg st))).
      { intros Hin. rewrite (i_creating_cached st HI n Hin) in Hunc. discriminate. }
      assert (Hsubn : sub n (log st) = []).
      { specialize (Hl n c Ec). rewrite HL1 in Hl. destruct Hl as [Hl|Hl]; [contradiction|exact Hl]. }
      assert (Hch0 : chainX vt s x (n :: creating (reg st))).
      { unfold callokX in Hco. destruct (creating (reg st)) as [|b r]; [exact I|]. cbn [chainX]. split; [exact Hco|exact Hch]. }
      (* n is needed: the container asked for it, or the component in creation requests it *)
      assert (Hneed : forall r', mono (reg st) r' -> neededX vt s x r' n).
      { intros r' Hm. apply (neededX_mono vt s x (reg st)); [exact Hm|]. unfold callokX in Hco.
        destruct (creating (reg st)) as [|b r] eqn:Ecr; [left; exact Hco|].
        assert (Hcb : cached (reg st) b = true) by (apply (i_creating_cached st HI); rewrite Ecr; left; reflexivity).
        apply (neededX_req vt s x (reg st) b n Hcb (proj2 Hd b Hcb) Hco). }
      (* NDX once n has its cache entry: every other cached name was cached before *)
      assert (Hnd_after : forall st3, mono (reg st) (reg st3) ->
                (forall m, m <> n -> cached (reg st3) m = true -> cached (reg st) m = true) -> NDX vt s x st3).
      { intros st3 Hm Hold m Hc3. destruct (Nat.eq_dec m n) as [->|Hmn]; [apply Hneed; exact Hm|].
        apply (neededX_mono vt s x (reg st)); [exact Hm|]. apply (proj2 Hd). apply (Hold m Hmn Hc3). }
      destruct (shorted x _ n) eqn:Esh.
      + (* short-circuited: no population, the after-callbacks, publication *)
        cbn [active set_reg] in H.
        set (st0 := set_reg st (mkR (L1 (reg st)) (L2 (reg st)) (L3 (reg st)) (n :: creating (reg st)))) in *.
        pose proof (after_chain_eff s n (active st) st0 st0 None (only_log_refl _ st0)) as Ha.
        destruct (after_chain s n (active st) st0 None) as [[st2 w]|k2 st2] eqn:EA; [|destruct k2; discriminate].
        cbn [eff2] in Ha. apply only_log_fst in Ha. cbn [snd app] in H. inversion H; subst st' v. clear H.
        assert (Hd0 : DNX vt s x st0).
        { split; [intros c' k0 v0 Hk Hp Hin Hne; exact (proj1 Hd c' k0 v0 Hk Hp Hin Hne)|].
          intros m Hm. apply (proj2 Hd). exact Hm. }
        pose proof (DNX_only_log_n _ n st0 st2 HL1 Ha (Qa_about n) Hd0) as Hd2.
        destruct Ha as [Hr2 Hf2 _ _ _ _ _].
        split.
        * intros c' k0 v0 Hk Hp Hin Hne. cbn [reg set_reg log] in *.
          change (field_of (set_reg st2 (end_create_ok (reg st2) n
                    match w with Some v1 => v1 | None => VOrig n end)) c' k0) with (field_of st2 c' k0) in Hin.
          unfold end_create_ok, add_singleton in *. cbn [L1] in *.
          destruct (Nat.eq_dec c' n) as [->|Hcn].
          -- exfalso. unfold field_of in Hin. rewrite Hf2 in Hin. change (flds st0) with (flds st) in Hin.
             fold (field_of st n k0) in Hin. rewrite Hfld0 in Hin. exact Hin.
          -- rewrite (alookup_aset_neq n c' _ _ Hcn) in Hp.
             destruct (proj1 Hd2 c' k0 v0 Hk Hp Hin Hne) as [[Hpd Ho]|Hdep]; [|right; exact Hdep].
             left. split; [|exact Ho]. destruct (Nat.eq_dec (owner v0) n) as [->|Hon]; [rewrite alookup_aset_eq; discriminate|].
             rewrite (alookup_aset_neq n (owner v0) _ _ Hon). exact Hpd.
        * apply Hnd_after.
          -- cbn [reg set_reg]. eapply mono_trans; [|apply mono_end_create_ok]. rewrite Hr2. intros m Hm. unfold cached in *. exact Hm.
          -- intros m Hmn Hm. cbn [reg set_reg] in Hm. unfold cached, end_create_ok, add_singleton in Hm. cbn [L1 L2 L3] in Hm.
             rewrite (alookup_aset_neq n m _ _ Hmn), !(alookup_aremove_neq n m _ Hmn), Hr2 in Hm. exact Hm.
      + unfold do_create_xt in H. cbn [reg set_reg] in H.
        match type of H with context [populate_t vt s rect ?y n c] => set (st0 := y) in * end.
        assert (Hcr0 : creating (reg st0) = n :: creating (reg st)) by reflexivity.
        assert (Hmono0 : mono (reg st) (reg st0)) by (intros m Hm; unfold st0; cbn [reg set_reg]; apply mono_add_factory; exact Hm).
        assert (Hb0 : forall pl, BX (set_injs st0 n pl)).
        { intros pl. split; [|split; [|split]].
          - destruct Hg as [Gi Gf Gw]. constructor.
            + eapply Inv_same_core; [|exact HI0]. repeat split.
            + intros m Hm. change (reg (set_injs st0 n pl)) with (reg st0) in Hm.
              assert (Hm0 : cached (reg st) m = false).
              { destruct (cached (reg st) m) eqn:E; [|reflexivity]. rewrite (Hmono0 m E) in Hm. discriminate. }
              destruct (Gf m Hm0) as [A1 A2]. split; [|exact A2]. cbn [injs set_injs st0 set_reg].
              assert (Hne : m <> n).
              { intros ->. unfold st0 in Hm. cbn [reg set_reg] in Hm. rewrite cached_add_factory in Hm. discriminate. }
              rewrite (alookup_aset_neq n m pl _ Hne). exact A1.
            + intros h' c' Hp Hc' Hns. exact (Gw h' c' Hp Hc' Hns).
          - apply (lifeS_enter s x st (set_injs st0 n pl) n Hl); reflexivity.
          - exact Hch0.
          - split; [intros c' k0 v0 Hk Hp Hin Hne; exact (proj1 Hd c' k0 v0 Hk Hp Hin Hne)|].
            apply Hnd_after; [exact Hmono0|]. intros m Hmn Hm. change (reg (set_injs st0 n pl)) with (reg st0) in Hm.
            unfold st0, cached, add_factory in Hm. cbn [reg set_reg L1 L2 L3] in Hm.
            rewrite (alookup_aset_neq n m n _ Hmn) in Hm. exact Hm. }
        destruct (populate_t vt s rect st0 n c) as [o1 [st1|k1 st1]] eqn:EP0; [|destruct k1; discriminate].
        assert (EP : populate vt s rec st0 n c = Ok st1).
        { unfold rec. rewrite <- (populate_erase vt s rect (erase rect) (fun _ _ => eq_refl)). rewrite EP0. reflexivity. }
        assert (Hpop : BX st1 /\ creating (reg st1) = n :: creating (reg st) /\ sub n (log st1) = []
                       /\ (full s st -> full s st1)).
        { unfold populate in EP. unfold cur_injs in EP. change (injs st0) with (injs st) in EP. rewrite Hinj0 in EP.
          change (active st0) with (active st) in EP.
          destruct Hcase as [Hfu|[Hpl _]].
          - unfold full in Hfu. rewrite (pipeline_full vt s n c (active st) st0 H8 Hfu) in EP.
            destruct (cfg_stage c true); [discriminate|]. destruct (cfg_stage c false); [discriminate|].
            destruct (plan vt s n c) as [pl|] eqn:Epl; [|discriminate].
            destruct (pointwise_shape vt (s_pop s) n H10 (c_points c) _ pl Epl ltac:(rewrite map_length; reflexivity))
              as [Hlen Hsh].
            assert (Hrq : Forall (fun y => forall d, In d (remove_nil y) -> reqX vt s x n d) pl).
            { apply Forall_forall. intros y Hy d Hdin. left. destruct (In_nth_error _ _ Hy) as [k Hk].
              exists c, pl, k, y. repeat split; assumption. }
            destruct (inject_points_BX n (creating (reg st)) (c_points c) 0 pl (set_injs st0 n pl) st1
                        (Hb0 pl) Hfu Hcr0 Hlen Hsh Hrq EP) as [Hb1 [Hcr1 [Hfu1 Hs1]]].
            split; [exact Hb1|]. split; [exact Hcr1|]. split; [rewrite Hs1; exact Hsubn|]. intros _. exact Hfu1.
          - pose proof (Hpl c Ec) as Hnil.
            destruct (pipeline vt s n c (active st) st0 (map (fun _ => []) (c_points c))) as [[stp inj]|kp stp] eqn:Epi;
              [|discriminate].
            pose proof (pipeline_state _ _ _ _ _ _ _ _ _ Epi) as ->.
            pose proof (pipeline_length vt s n c _ _ _ _ _ ltac:(rewrite map_length; reflexivity) Epi) as Hlen.
            rewrite Hnil in Hlen, EP. destruct inj; [|discriminate]. cbn [inject_points] in EP. inversion EP; subst st1.
            split; [apply Hb0|]. split; [reflexivity|]. split; [exact Hsubn|]. intros Hfu. exact Hfu. }
        destruct Hpop as [Hb1 [Hcr1 [Hsn1 Hfu1]]].
        pose proof Hb1 as [Hg1 [Hl1 [Hch1 Hd1]]].
        assert (HI1 : InvX st1) by exact (gx_inv vt s x st1 Hg1).
        destruct (initialize_xt s x rect st1 n c) as [oi [[st2 w]|k2 st2]] eqn:EI; [|destruct k2; discriminate].
        assert (Hfui : full s st1 \/ initget_of x n = []).
        { destruct Hcase as [Hfu|[_ Hq]]; [left; apply Hfu1; exact Hfu|right; exact Hq]. }
        pose proof (initialize_xt_DNX st1 n c _ oi st2 w Ec Hb1 Hfui Hcr1 EI) as Hd2.
        destruct (initialize_xt_spec s x rect Hspec st1 n c oi st2 w HI1 EI) as [HI2 [Hc12 _]].
        assert (Hcr2 : creating (reg st2) = n :: creating (reg st)) by congruence.
        assert (HL1n : alookup n (L1 (reg st2)) = None).
        { apply (i_creating_unpub st2 HI2). rewrite Hcr2. left; reflexivity. }
        assert (Hcn2 : cached (reg st2) n = true) by (apply (i_creating_cached st2 HI2); rewrite Hcr2; left; reflexivity).
        (* the log only grew *)
        pose proof (initialize_xt_geff s x rect Hlog st1 n c Ec) as Hge. rewrite EI in Hge. cbn [snd geff2] in Hge.
        destruct Hge as [_ _ [L [HL _]]].
        destruct (initialize_xt_lifeX s x rect Hspec Hlife (fun _ => False) st1 n c _ oi st2 w Ec HI1 Hcr1
                    ltac:(intros m0 []) ltac:(intros []) EI) as [_ [_ [_ [_ [_ Hfl2']]]]].
        assert (Hfin : forall pv, DNX vt s x (set_reg st2 (end_create_ok (reg st2) n pv))).
        { intros pv. split.
          2:{ eapply (NDX_step vt s x st2); [| |exact (proj2 Hd2)]; cbn [reg set_reg]; [apply mono_end_create_ok|].
              intros m Hm. left. destruct (Nat.eq_dec m n) as [->|Hmn]; [exact Hcn2|].
              unfold cached, end_create_ok, add_singleton in Hm. cbn [L1 L2 L3] in Hm.
              rewrite (alookup_aset_neq n m pv _ Hmn), !(alookup_aremove_neq n m _ Hmn) in Hm. exact Hm. }
          intros c' k0 v0 Hk Hp Hin Hne. cbn [reg set_reg log] in *.
          change (field_of (set_reg st2 (end_create_ok (reg st2) n pv)) c' k0) with (field_of st2 c' k0) in Hin.
          unfold end_create_ok, add_singleton in *. cbn [L1] in *.
          destruct (Nat.eq_dec c' n) as [->|Hcn].
          - (* the holder is n itself *)
            pose proof (i_current st2 HI2 n k0 v0 Hk Hin) as Hcur.
            destruct (alookup (owner v0) (L1 (reg st2))) as [pv'|] eqn:E1.
            + left. split; [rewrite (alookup_aset_neq n (owner v0) pv _ Hne), E1; discriminate|].
              (* owner v0 was handed to n during population: published then already, no event of it since *)
              destruct (initialize_xt_lifeX s x rect Hspec Hlife (fun m => m = owner v0) st1 n c _ oi st2 w Ec HI1 Hcr1) as
                  [Hfr [_ [_ [_ [_ Hfl2]]]]].
              * intros m ->. rewrite (Hfl2' k0 Hk) in Hin. apply (cur_cached (reg st1) (owner v0) v0).
                apply (i_current st1 HI1 n k0 v0 Hk Hin).
              * intros Heq. apply Hne. symmetry. exact Heq.
              * exact EI.
              * destruct (Hfr (owner v0) eq_refl) as [Hsd _].
                rewrite HL in Hsd. rewrite sub_app in Hsd. apply app_self_nil in Hsd.
                rewrite HL. apply older_new; [exact Hsn1|exact Hsd].
            + right. unfold cur in Hcur. rewrite E1 in Hcur.
              assert (Hin' : In (owner v0) (creating (reg st2))) by (apply (i_early_creating st2 HI2); rewrite Hcur; reflexivity).
              rewrite Hcr2 in Hin'. destruct Hin' as [Heq|Hin']; [congruence|].
              apply (chainX_below vt s x (creating (reg st)) n (owner v0) Hch0 Hin').
          - rewrite (alookup_aset_neq n c' pv _ Hcn) in Hp.
            destruct (proj1 Hd2 c' k0 v0 Hk Hp Hin Hne) as [[Hpd Ho]|Hdep]; [|right; exact Hdep].
            left. split; [|exact Ho]. destruct (Nat.eq_dec (owner v0) n) as [->|Hon]; [rewrite alookup_aset_eq; discriminate|].
            rewrite (alookup_aset_neq n (owner v0) pv _ Hon). exact Hpd. }
        unfold get_singleton_t, get_singleton in H. rewrite (FactoryBasics_get_lookup_false (reg st2) n) in H.
        destruct (match alookup n (L1 (reg st2)) with Some v0 => Some v0 | None => alookup n (L2 (reg st2)) end) as [e|].
        * destruct w as [wv|].
          -- destruct (stale_dependents vt st2 n _); [|cbn [snd] in H; discriminate]. cbn [snd] in H. inversion H; subst. apply Hfin.
          -- cbn [snd] in H. inversion H; subst. apply Hfin.
        * cbn [snd] in H. inversion H; subst. apply Hfin.
  Qed.
End DepsXRec.

Theorem do_get_xt_DNX vt s x :
  fix_c03 vt = true -> fix_c07 vt = true -> fix_c08 vt = true -> fix_c10 vt = true -> small_points s ->
  forall fuel st n st' v, BX vt s x st ->
    (full s st \/ ((forall c, get_comp (s_pop s) n = Some c -> c_points c = []) /\ initget_of x n = [])) ->
    callokX vt s x st n ->
    erase (do_get_xt vt s x fuel) st n = Ok (st', v) -> DNX vt s x st'.
Proof.
  intros H3 H7 H8 H10 Hs. induction fuel as [|f IH]; intros st n st' v Hb Hc Hco H; [discriminate|].
  unfold erase in H. cbn [do_get_xt] in H.
  assert (HG' : forall st0 d st1 v1, GX vt s x st0 -> full s st0 ->
            erase (do_get_xt vt s x f) st0 d = Ok (st1, v1) -> GX vt s x st1)
    by (intros st0 d st1 v1 Hg0 Hf0 H0; eapply (do_get_xt_GX vt s x H3 H7 H8 H10 Hs); [exact Hg0|left; exact Hf0|exact H0]).
  assert (Hdf' : forall st0 d st1 v1, GX vt s x st0 -> full s st0 -> lifeS s x st0 -> chainX vt s x (creating (reg st0)) ->
                   callokX vt s x st0 d -> DNX vt s x st0 -> erase (do_get_xt vt s x f) st0 d = Ok (st1, v1) -> DNX vt s x st1).
  { intros st0 d st1 v1 Hg0 Hf0 Hl0 Hch0 Hco0 Hd0 H0. eapply IH; [|left; exact Hf0|exact Hco0|exact H0].
    split; [exact Hg0|]. split; [exact Hl0|]. split; [exact Hch0|exact Hd0]. }
  exact (body_xt_BX vt H8 H10 s x (do_get_xt vt s x f) (do_get_xt_spec vt s x H3 f) (do_get_xt_lifeX vt s x H3 Hs f)
           (fun st0 d => do_get_xt_geff vt s x f st0 d) HG' Hdf' st n st' v Hb Hc Hco H).
Qed.

(* ---------- a whole start ------------------------------------------------------------------------------- *)

Lemma do_get_xt_BX_top vt s x :
  fix_c03 vt = true -> fix_c07 vt = true -> fix_c08 vt = true -> fix_c10 vt = true -> small_points s ->
  forall st n o st' v, BX vt s x st -> creating (reg st) = [] -> is_lazy (s_pop s) n = false ->
    (full s st \/ ((forall c, get_comp (s_pop s) n = Some c -> c_points c = []) /\ initget_of x n = [])) ->
    do_get_xt vt s x (fuel_of s) st n = (o, Ok (st', v)) -> BX vt s x st' /\ creating (reg st') = [].
Proof.
  intros H3 H7 H8 H10 Hs st n o st' v Hb Hcr Hroot Hc H. pose proof Hb as [Hg [Hl [Hch Hd]]].
  assert (H' : erase (do_get_xt vt s x (fuel_of s)) st n = Ok (st', v)) by (unfold erase; rewrite H; reflexivity).
  destruct (do_get_xt_spec vt s x H3 _ st n st' v (gx_inv vt s x st Hg) H') as [_ [Hc' _]].
  destruct (do_get_xt_lifeX vt s x H3 Hs _ st n st' v H' (gx_inv vt s x st Hg)) as [_ [_ [_ Hl']]].
  assert (Hco : callokX vt s x st n) by (unfold callokX; rewrite Hcr; exact Hroot).
  split; [|congruence]. split; [eapply (do_get_xt_GX vt s x H3 H7 H8 H10 Hs); eauto|]. split; [apply Hl'; exact Hl|].
  split; [rewrite Hc', Hcr; exact I|]. eapply (do_get_xt_DNX vt s x H3 H7 H8 H10 Hs); eauto.
Qed.

Lemma BX_core vt s x st st' : same_core st st' -> injs st' = injs st -> log st' = log st -> BX vt s x st -> BX vt s x st'.
Proof.
  intros Hc Hi Hlg [Hg [Hl [Hch Hd]]]. pose proof Hc as [Hr [Hf Hdp]].
  split; [eapply GX_core; eauto|]. split.
  { eapply (lifeS_frame s x st); [exact (gx_inv vt s x st Hg)|exact Hl| | |rewrite Hr; reflexivity|rewrite Hr; reflexivity].
    - intros m. right. rewrite Hlg. reflexivity.
    - intros m v _ k. unfold field_of. rewrite Hf. reflexivity. }
  split; [rewrite Hr; exact Hch|]. split; [|eapply NDX_reg; [exact Hr|exact (proj2 Hd)]].
  intros c k v Hk Hp Hin Hne. rewrite Hr in Hp.
  assert (Hfo : field_of st' c k = field_of st c k) by (unfold field_of; rewrite Hf; reflexivity).
  rewrite Hfo in Hin. rewrite Hr, Hlg. apply (proj1 Hd c k v Hk Hp Hin Hne).
Qed.

Theorem run_core_xt_DNX vt s x o st :
  fix_c03 vt = true -> fix_c07 vt = true -> fix_c08 vt = true -> fix_c10 vt = true -> small_points s ->
  procs_pointless_b s = true -> procs_quiet_b s x = true -> stages_ok_b s = true ->
  run_core_xt vt s x = (o, Ok st) -> DNX vt s x st.
Proof.
  intros H3 H7 H8 H10 Hsm Hp Hq Hs. apply procs_pointless_b_sound in Hp. apply procs_quiet_b_sound in Hq. apply stages_eqb_eq in Hs.
  unfold run_core_xt. destruct (s_loader_fail s); [discriminate|].
  assert (Hb0 : BX vt s x (set_scanned finit) /\ creating (reg (set_scanned finit)) = []).
  { split; [|reflexivity]. split; [apply GX_finit|]. split; [intros m c _; cbn; right; reflexivity|]. split; [exact I|].
    split; [intros c k v _ Hpub; cbn in Hpub; contradiction|intros m Hm; cbn in Hm; discriminate]. }
  assert (Hprep : forall ps st0 o1 st1,
            (forall p, In p ps -> (forall c, get_comp (s_pop s) p = Some c -> c_points c = []) /\ initget_of x p = []) ->
            BX vt s x st0 -> creating (reg st0) = [] -> prepare_loop_xt vt s x ps st0 = (o1, Ok st1) ->
            BX vt s x st1 /\ creating (reg st1) = [] /\ active st1 = active st0 ++ ps).
  { induction ps as [|p r IH]; intros st0 o1 st1 Hpl Hb Hcr H; cbn [prepare_loop_xt] in H.
    - inversion H; subst. rewrite app_nil_r. auto.
    - assert (Hr : forall q, In q r -> (forall c, get_comp (s_pop s) q = Some c -> c_points c = []) /\ initget_of x q = [])
        by (intros q Hq0; apply Hpl; right; exact Hq0).
      destruct (is_lazy (s_pop s) p) eqn:Elz.
      + destruct (IH _ _ _ Hr (BX_core vt s x st0 (set_active st0 (active st0 ++ [p])) ltac:(repeat split) eq_refl eq_refl Hb) Hcr H)
          as [Hb' [Hcr' Ha']].
        split; [exact Hb'|]. split; [exact Hcr'|]. rewrite Ha'. cbn [active set_active]. rewrite <- app_assoc. reflexivity.
      + destruct (do_get_xt vt s x (fuel_of s) st0 p) as [o2 [[st2 v]|k st2]] eqn:E; [|discriminate].
        destruct (do_get_xt_BX_top vt s x H3 H7 H8 H10 Hsm st0 p o2 st2 v Hb Hcr Elz
                    ltac:(right; apply Hpl; left; reflexivity) E) as [Hb2 Hcr2].
        pose proof (do_get_xt_active vt s x _ _ _ _ _ _ H3 Hsm (gx_inv vt s x st0 (proj1 Hb)) E) as Ha2.
        destruct (prepare_loop_xt vt s x r (set_active st2 (active st2 ++ [p]))) as [o3 r3] eqn:E3.
        inversion H; subst o1 r3.
        destruct (IH _ _ _ Hr (BX_core vt s x st2 (set_active st2 (active st2 ++ [p])) ltac:(repeat split) eq_refl eq_refl Hb2) Hcr2 E3)
          as [Hb' [Hcr' Ha']].
        split; [exact Hb'|]. split; [exact Hcr'|]. rewrite Ha'. cbn [active set_active]. rewrite Ha2, <- app_assoc. reflexivity. }
  destruct (prepare_loop_xt vt s x (sorted_procs s) (set_scanned finit)) as [o1 [st1|k st1]] eqn:E1; [|discriminate].
  destruct Hb0 as [Hb0 Hcr0].
  assert (Hpq : forall p, In p (sorted_procs s) ->
            (forall c, get_comp (s_pop s) p = Some c -> c_points c = []) /\ initget_of x p = []).
  { intros p Hin. split; [intros c Hc; eapply Hp; eauto|apply Hq; exact Hin]. }
  destruct (Hprep _ _ _ _ Hpq Hb0 Hcr0 E1) as [Hb1 [Hcr1 Ha1]]. cbn [active set_scanned finit app] in Ha1.
  assert (Href : forall ns st0 o2 st2, (forall n, In n ns -> is_lazy (s_pop s) n = false) ->
            BX vt s x st0 -> creating (reg st0) = [] -> full s st0 ->
            get_each_xt vt s x ns st0 = (o2, Ok st2) -> BX vt s x st2).
  { induction ns as [|n r IH]; intros st0 o2 st2 Hrt Hb Hcr Hfu H; cbn [get_each_xt] in H; [inversion H; subst; exact Hb|].
    destruct (do_get_xt vt s x (fuel_of s) st0 n) as [o3 [[st3 v]|k st3]] eqn:E; [|discriminate].
    destruct (do_get_xt_BX_top vt s x H3 H7 H8 H10 Hsm st0 n o3 st3 v Hb Hcr (Hrt n (or_introl eq_refl)) (or_introl Hfu) E) as [Hb3 Hcr3].
    destruct (get_each_xt vt s x r st3) as [o4 r4] eqn:E4. inversion H; subst o2 r4.
    eapply IH; [intros m Hm; apply Hrt; right; exact Hm|exact Hb3|exact Hcr3| |exact E4].
    unfold full. rewrite (do_get_xt_active vt s x _ _ _ _ _ _ H3 Hsm (gx_inv vt s x st0 (proj1 Hb)) E). exact Hfu. }
  assert (Heag : forall n, In n (eager_names s) -> is_lazy (s_pop s) n = false).
  { intros n Hn. unfold eager_names in Hn. apply filter_In in Hn. destruct Hn as [_ Hn]. apply negb_true_iff in Hn. exact Hn. }
  destruct (get_each_xt vt s x (eager_names s) st1) as [o2 [st2|k st2]] eqn:E2; [|discriminate].
  pose proof (Href _ _ _ _ Heag Hb1 Hcr1 ltac:(unfold full; rewrite Ha1; exact Hs) E2) as Hb2.
  assert (Hrun : forall ns st0 st3, DNX vt s x st0 -> run_each s ns st0 = Ok st3 -> DNX vt s x st3).
  { induction ns as [|n r IH]; intros st0 st3 Hd H; cbn [run_each] in H; [inversion H; subst; exact Hd|].
    destruct (runner_fails s n); [discriminate|]. eapply IH; [|exact H].
    split; [|eapply NDX_reg; [|exact (proj2 Hd)]; reflexivity].
    eapply (DFX_log vt s x st0 (add_log st0 (EvRun n))); [reflexivity|intros; reflexivity| |exact (proj1 Hd)].
    exists [EvRun n]. split; [reflexivity|]. intros m _. reflexivity. }
  destruct Hb2 as [_ [_ [_ Hd2]]].
  intros H. injection H as _ H. revert H.
  unfold call_runners. destruct (s_app s) as [[[a rp] cp]|]; [|intros H; inversion H; subst; exact Hd2].
  intros H. eapply Hrun; eauto.
Qed.
